package main

import (
	"bytes"
	"encoding/binary"
	"flag"
	"fmt"

	"github.com/markkurossi/mpc/ot"
	"github.com/markkurossi/mpc/sha2pc"

	"verifharness/hxlib"
)

// restart bits: which values go through Encode -> bytes -> Decode before use,
// as after a process restart (state) / transmission (message).
const (
	rtM1 = 1 << iota
	rtGS
	rtM2
	rtES
	rtM3
)

var rtNames = []string{"msg1", "garbler-session", "msg2", "evaluator-session", "msg3"}

func maskName(m int) string {
	s := ""
	for i, n := range rtNames {
		if m&(1<<uint(i)) != 0 {
			if s != "" {
				s += "+"
			}
			s += n
		}
	}
	if s == "" {
		return "none"
	}
	return s
}

// rerun replays the protocol with the same tapes and inputs, sending the
// values selected by mask through their byte encodings.  It returns a
// description of the first divergence from the straight run ("" = none).
func rerun(s *session, mask int) (diverge string) {
	defer func() {
		if e := recover(); e != nil {
			diverge = fmt.Sprintf("panic: %v", e)
		}
	}()
	cv := s.ci.curve
	m1, gs := s.m1, s.gs
	var err error
	if mask&rtM1 != 0 {
		if m1, err = sha2pc.DecodeRound1(cv, s.r1b); err != nil {
			return "DecodeRound1: " + err.Error()
		}
	}
	if mask&rtGS != 0 {
		if gs, err = sha2pc.DecodeGarblerSession(cv, s.gsb); err != nil {
			return "DecodeGarblerSession: " + err.Error()
		}
	}
	m2, es := s.m2, s.es
	r2b, esb := s.r2b, s.esb
	if mask&rtM1 != 0 {
		if m2, es, err = sha2pc.EvaluatorRound2(hxlib.NewRng(s.s2), cv, m1, s.b); err != nil {
			return "EvaluatorRound2: " + err.Error()
		}
		if r2b, err = sha2pc.EncodeRound2(cv, m2); err != nil {
			return "EncodeRound2: " + err.Error()
		}
		if esb, err = sha2pc.EncodeEvaluatorSession(cv, es); err != nil {
			return "EncodeEvaluatorSession: " + err.Error()
		}
		if !bytes.Equal(r2b, s.r2b) {
			return "round-2 message differs from the straight run"
		}
		if !bytes.Equal(esb, s.esb) {
			return "evaluator session differs from the straight run"
		}
	}
	if mask&rtM2 != 0 {
		if m2, err = sha2pc.DecodeRound2(cv, r2b); err != nil {
			return "DecodeRound2: " + err.Error()
		}
	}
	if mask&rtES != 0 {
		if es, err = sha2pc.DecodeEvaluatorSession(cv, esb); err != nil {
			return "DecodeEvaluatorSession: " + err.Error()
		}
	}
	m3 := s.m3
	r3b := s.r3b
	if mask&(rtM1|rtGS|rtM2) != 0 {
		if m3, err = sha2pc.GarblerRound3(hxlib.NewRng(s.s3), cv, gs, s.a, m2); err != nil {
			return "GarblerRound3: " + err.Error()
		}
		if r3b, err = sha2pc.EncodeRound3(m3); err != nil {
			return "EncodeRound3: " + err.Error()
		}
		if !bytes.Equal(r3b, s.r3b) {
			return "round-3 message differs from the straight run"
		}
	}
	if mask&rtM3 != 0 {
		if m3, err = sha2pc.DecodeRound3(r3b); err != nil {
			return "DecodeRound3: " + err.Error()
		}
	}
	digest, err := sha2pc.EvaluatorRound4(cv, es, m3)
	if err != nil {
		return "EvaluatorRound4: " + err.Error()
	}
	if digest != s.digest {
		return fmt.Sprintf("digest %x differs from the straight run's %x", digest, s.digest)
	}
	return ""
}

// expectError runs f under recover and classifies the outcome.
func expectError(f func() error) (class, msg string) {
	defer func() {
		if e := recover(); e != nil {
			class, msg = "panic", clip(fmt.Sprint(e), 200)
		}
	}()
	if err := f(); err != nil {
		return "err", clip(err.Error(), 160)
	}
	return "ok", ""
}

func protoMode(args []string) int {
	var repo string
	cf, o := hxlib.ParseCommon("c18 proto", args, func(fs *flag.FlagSet) {
		fs.StringVar(&repo, "repo", "/repo", "repository tree")
	})
	defer o.Close()
	rng := hxlib.NewRng(cf.Seed)
	thorough := cf.Tier == "thorough"
	circ, err := loadCircuit(repo)
	if err != nil {
		failK(o, "c18-harness", map[string]any{"err": err.Error()})
		return 0
	}
	digits, sum := countsDigits(circ)
	emittedCirc := false
	// the whole mode runs in the environment the check started this process with (GOMAXPROCS / GOGC of the child
	// process: checks/C18.py rotates them); it is part of every failing case
	penv := processEnv()
	o.Meta["process_environment"] = penv

	idx := 0
	var perCurve = map[string][]*session{}
	for _, ci := range curves {
		for k := 0; k < cf.N; k++ {
			myIdx := idx
			idx++
			r := rng.Fork()
			if cf.Only >= 0 && myIdx != cf.Only {
				continue
			}
			a, b := inputPair(r, k)
			s1, s2, s3 := r.U64(), r.U64(), r.U64()
			detail := func() map[string]any {
				return map[string]any{"case": myIdx, "curve": ci.name, "a": hxlib.Hex(a[:]), "b": hxlib.Hex(b[:]),
					"tapes": fmt.Sprintf("%d/%d/%d", s1, s2, s3), "process_environment": penv,
					"rerun": fmt.Sprintf("%s go run -tags verif ./cmd/c18 proto -repo %s -seed %d -n %d -tier %s -only %d", penv, repo, cf.Seed, cf.N, cf.Tier, myIdx)}
			}
			s, err := runSession(ci, a, b, s1, s2, s3)
			if err != nil {
				dt := detail()
				dt["err"] = err.Error()
				failK(o, "c18-session-error", dt)
				continue
			}
			o.Count("sessions_" + ci.name)
			o.Count(fmt.Sprintf("inputs_kind_%d", k%6))
			perCurve[ci.name] = append(perCurve[ci.name], s)
			// 1. the digest
			want := refDigest(a, b)
			if s.digest != want {
				dt := detail()
				dt["got"] = hxlib.Hex(s.digest[:])
				dt["want"] = hxlib.Hex(want[:])
				failK(o, "c18-wrong-digest", dt)
			}
			// 2. documented sizes
			d1, d2, d3, dg, de := docSizes(ci)
			if len(s.r1b) != d1 || len(s.r2b) != d2 || len(s.r3b) != d3 || len(s.gsb) != dg || len(s.esb) != de {
				dt := detail()
				dt["got"] = fmt.Sprint(len(s.r1b), len(s.r2b), len(s.r3b), len(s.gsb), len(s.esb))
				dt["want"] = fmt.Sprint(d1, d2, d3, dg, de)
				failK(o, "c18-size-mismatch", dt)
			}
			// 3. restarts at every boundary, each value alone, all together
			// and a few random combinations
			masks := []int{rtM1 | rtGS | rtM2 | rtES | rtM3}
			if k == 0 || thorough {
				masks = append(masks, rtM1, rtGS, rtM2, rtES, rtM3, rtGS|rtM2, rtES|rtM3, 1+r.Intn(30), 1+r.Intn(30))
			}
			for _, m := range masks {
				if dv := rerun(s, m); dv != "" {
					dt := detail()
					dt["restart"] = maskName(m)
					dt["diverge"] = clip(dv, 300)
					failK(o, "c18-restart-diverges", dt)
				}
				o.Count("restart_variants")
				o.Count("restart_" + maskName(m))
			}
			// 4. model correspondence on the real payloads
			if !emittedCirc {
				o.Op("circ "+digits, fmt.Sprintf("circ n=%d sum=%d r3len=%d", len(circ.Gates), sum, len(s.r3b)))
				emittedCirc = true
			}
			kinds := []struct {
				k string
				b []byte
			}{{"R1", s.r1b}, {"GS", s.gsb}, {"R2", s.r2b}, {"ES", s.esb}}
			if k == 0 {
				kinds = append(kinds, struct {
					k string
					b []byte
				}{"R3", s.r3b})
			}
			for _, kb := range kinds {
				slot := fmt.Sprintf("%s.%s.%d", ci.name, kb.k, myIdx)
				o.Op(fmt.Sprintf("base %s %s", slot, hxlib.Hex(kb.b)), "base "+tagOf(kb.b))
				d := decodeReal(kb.k, ci, kb.b)
				o.Op(fmt.Sprintf("dec %s %s %s - %s", kb.k, ci.name, slot, tagOf(kb.b)), d.line(kb.b))
				if d.class != "ok" || !bytes.Equal(d.re, kb.b) {
					dt := detail()
					dt["decoder"] = kb.k
					dt["class"] = d.class
					failK(o, "c18-enc-dec-not-identity", dt)
				}
				// field-wise identity
				var orig string
				switch kb.k {
				case "R1":
					orig = dumpR1(s.m1)
				case "R2":
					orig = dumpR2(s.m2)
				case "R3":
					orig = dumpR3(s.m3)
				case "GS":
					orig = dumpGS(s.gs)
				case "ES":
					orig = dumpES(s.es)
				}
				if d.class == "ok" && d.dump != orig {
					dt := detail()
					dt["decoder"] = kb.k
					failK(o, "c18-enc-dec-not-identity", dt)
				}
				o.Count("real_payload_" + kb.k)
			}
		}
	}

	// 4b. behavioural probes of the code shape the model assumes (first session of every curve)
	for _, ci := range curves {
		ss := perCurve[ci.name]
		if len(ss) == 0 {
			continue
		}
		s := ss[0]
		repairProbes(o, s, fmt.Sprintf("go run -tags verif ./cmd/c18 proto -repo %s -seed %d -n %d -tier %s", repo, cf.Seed, cf.N, cf.Tier))
		if d := decodeReal("R3", ci, s.r3b); d.class == "ok" && hintsBothLabels(d.r3) {
			o.Count("hints_both_labels_common_offset")
		} else {
			o.Count("hints_not_both_labels")
		}
	}

	// 5. messages of another session / another curve
	for _, ci := range curves {
		ss := perCurve[ci.name]
		if len(ss) < 2 {
			continue
		}
		s, t := ss[0], ss[1]
		chk := func(what string, wantErr bool, f func() error) {
			class, msg := expectError(f)
			o.Count("mismatch_" + what + "_" + class)
			if class == "panic" || (wantErr && class != "err") {
				failK(o, "c18-mismatch-not-rejected", map[string]any{"curve": ci.name, "what": what, "class": class, "msg": msg,
					"rerun": fmt.Sprintf("go run -tags verif ./cmd/c18 proto -repo %s -seed %d -n %d -tier %s", repo, cf.Seed, cf.N, cf.Tier)})
			}
		}
		chk("round3-foreign-msg2", true, func() error {
			_, err := sha2pc.GarblerRound3(hxlib.NewRng(1), ci.curve, s.gs, s.a, t.m2)
			return err
		})
		chk("round4-foreign-msg3", true, func() error {
			_, err := sha2pc.EvaluatorRound4(ci.curve, s.es, t.m3)
			return err
		})
		chk("round4-foreign-state", true, func() error {
			_, err := sha2pc.EvaluatorRound4(ci.curve, t.es, s.m3)
			return err
		})
		// same session id forged into a foreign message: the labels do not
		// fit, the evaluator must fail cleanly
		chk("round4-foreign-msg3-forged-sid", true, func() error {
			m := t.m3
			m.SessionID = s.es.SessionID
			_, err := sha2pc.EvaluatorRound4(ci.curve, s.es, m)
			return err
		})
		for _, oc := range curves {
			if oc.name == ci.name {
				continue
			}
			chk("decode-r1-other-curve", true, func() error { _, err := sha2pc.DecodeRound1(oc.curve, s.r1b); return err })
			chk("decode-r2-other-curve", true, func() error { _, err := sha2pc.DecodeRound2(oc.curve, s.r2b); return err })
			chk("decode-gs-other-curve", true, func() error {
				_, err := sha2pc.DecodeGarblerSession(oc.curve, s.gsb)
				return err
			})
			chk("decode-es-other-curve", true, func() error {
				_, err := sha2pc.DecodeEvaluatorSession(oc.curve, s.esb)
				return err
			})
			chk("round2-msg1-other-curve", true, func() error {
				_, _, err := sha2pc.EvaluatorRound2(hxlib.NewRng(2), oc.curve, s.m1, s.b)
				return err
			})
			if os := perCurve[oc.name]; len(os) > 0 {
				// round-3 message of a session on another curve (the format
				// carries no curve), session id forged to match
				chk("round4-msg3-other-curve-forged-sid", true, func() error {
					m := os[0].m3
					m.SessionID = s.es.SessionID
					_, err := sha2pc.EvaluatorRound4(ci.curve, s.es, m)
					return err
				})
			}
		}
	}
	o.Meta["cases"] = idx
	return 0
}

// ---------------------------------------------------------------- behavioural probes of the code shape the model assumes

// hintsBothLabels observes, on the DECODED round-3 message of a real session,
// what the model's `Round3.hints` says: every output hint carries two distinct
// labels whose XOR is one value common to all output wires (the garbler's
// free-XOR offset).  This is property C04's finding seen from the message; the
// C18 model represents it as the code is.
func hintsBothLabels(m sha2pc.Round3Payload) bool {
	if len(m.OutputHints) == 0 {
		return false
	}
	d0 := m.OutputHints[0].L0
	d0.Xor(m.OutputHints[0].L1)
	var zero ot.Label
	if d0.Equal(zero) {
		return false
	}
	for _, w := range m.OutputHints {
		d := w.L0
		d.Xor(w.L1)
		if !d.Equal(d0) {
			return false
		}
	}
	return true
}

func flipped(b []byte, off int, mask byte) []byte {
	c := append([]byte(nil), b...)
	c[off] ^= mask
	return c
}

// repairProbes runs, on one real session, the deterministic inputs that
// distinguish the repaired code (0e7671a, 68f93f2, d9a1171, 2eb87d5, 217fb4c)
// from the code before: each must end in an ERROR (class "err").  Counters
// probe_<name>_<class>; any other class is an oracle failure.
func repairProbes(o *hxlib.Out, s *session, rerun string) {
	ci := s.ci
	report := func(name, class, sig string, extra map[string]any) {
		o.Count("probe_" + name + "_" + class)
		if class != "err" {
			extra["curve"] = ci.name
			extra["what"] = "probe " + name
			extra["class"] = class
			extra["rerun"] = rerun
			failK(o, sig, extra)
		}
	}
	dec := func(name, kind string, data []byte, why string) {
		d := decodeReal(kind, ci, data)
		report(name, d.class, "c18-malformed-accepted", map[string]any{"decoder": kind, "kind": why,
			"cause": lenienceCause(kind, why), "input_len": len(data), "input_hex": clip(hxlib.Hex(data), 700)})
	}
	// d9a1171: input left in the reader
	dec("trailing-R1", "R1", append(append([]byte(nil), s.r1b...), 0), "trailing-bytes")
	dec("trailing-GS", "GS", append(append([]byte(nil), s.gsb...), 0), "trailing-bytes")
	dec("trailing-ES", "ES", append(append([]byte(nil), s.esb...), 0), "trailing-bytes")
	reprefix := func(b []byte, delta int) []byte {
		v, n := binary.Uvarint(b[10:])
		out := append([]byte(nil), b[:10]...)
		out = append(out, uvarint(uint64(int(v)+delta))...)
		return append(out, b[10+n:]...)
	}
	dec("inner-trailing-GS", "GS", append(reprefix(s.gsb, 1), 0), "inner-trailing-bytes")
	dec("inner-trailing-ES", "ES", append(reprefix(s.esb, 1), 0), "inner-trailing-bytes")
	// 2eb87d5: chunk that ends inside the bit field
	short := reprefix(s.esb, -1)
	dec("short-bits-ES", "ES", short[:len(short)-1], "short-bits")
	// 217fb4c: padded length prefix (name chunk of R1/R2, outer chunk of GS/ES)
	pad := func(b []byte) []byte {
		v, n := binary.Uvarint(b[10:])
		p := uvarint(v)
		p[len(p)-1] |= 0x80
		p = append(p, 0)
		out := append([]byte(nil), b[:10]...)
		out = append(out, p...)
		return append(out, b[10+n:]...)
	}
	dec("nonminimal-uvarint-R1", "R1", pad(s.r1b), "nonminimal-uvarint")
	dec("nonminimal-uvarint-R2", "R2", pad(s.r2b), "nonminimal-uvarint")
	dec("nonminimal-uvarint-GS", "GS", pad(s.gsb), "nonminimal-uvarint")
	dec("nonminimal-uvarint-ES", "ES", pad(s.esb), "nonminimal-uvarint")
	// 0e7671a / 68f93f2: a stored point that is not on the curve
	esl := layout("ES", ci, s.esb)
	gsl := layout("GS", ci, s.gsb)
	for _, pr := range []struct {
		name, kind, field string
		base              []byte
		fs                []field
	}{{"offcurve-ES-A", "ES", "ax", s.esb, esl}, {"offcurve-GS-AaInv", "GS", "ainvx", s.gsb, gsl}} {
		f := fieldBy(pr.fs, pr.field)
		done := false
		for bit := 0; bit < 8 && !done; bit++ {
			d := decodeReal(pr.kind, ci, flipped(pr.base, f.off+f.len-1, 1<<uint(bit)))
			if d.class != "ok" {
				continue
			}
			off := false
			if pr.kind == "ES" {
				off = !onCurve(ci, d.es.ChoiceBundle.Ax, d.es.ChoiceBundle.Ay)
			} else {
				off = !onCurve(ci, d.gs.SenderSetup.AaInvX, d.gs.SenderSetup.AaInvY)
			}
			if !off {
				continue
			}
			done = true
			res, round := continueRound(pr.kind, d, s, hxlib.NewRng(7))
			report(pr.name, res.class, "c18-round-panic", map[string]any{"decoder": pr.kind, "round": round,
				"cause": panicCause(pr.kind, d, ci, res.msg), "panic": res.msg})
		}
		if !done {
			o.Count("probe_" + pr.name + "_not-constructed")
		}
	}
}

package main

// The execution ENVIRONMENT as a parameter of "every execution" (property C18:
// "for all inputs and every supported curve the protocol makes the evaluator
// output SHA-256(a xor b)", "as after a process restart between any two
// rounds" -- the restarted process may run on another machine, in a container
// with another CPU limit, with another collector setting).
//
// The Lean round functions are pure functions of (inputs, randomness,
// messages): the model has NO environment parameter (Model/Sha2pcEnv.lean says
// so explicitly: an implementation is a family of round functions indexed by
// the environment, and the theorems hold for every environment assignment IF
// that family is constant).  This mode is the tie for that assumption: the
// same sessions and histories are executed on the real code under many
// environments -- GOMAXPROCS and the collector setting are set around EVERY
// STEP and restored afterwards, so one history can change its environment
// between any two rounds -- and status and process state after every step must
// equal the model's, which ignores the environment (op `histe`).
//
//	sweep   per curve ONE session (inputs, tapes fixed; reference values from
//	        its isolated run under the reference environment p1/gc-off) run
//	        start to finish under every environment of the sweep: rounds
//	        1,2,3,4 and round 4 once more, all inputs in memory (plain
//	        session) or all through bytes (restart at every boundary)
//	mixed   histories of 2..3 interleaved sessions with failing steps (as the
//	        hist mode), every step under its own seeded environment
//
// Event syntax of the op line: <hist event>@p<GOMAXPROCS>g<GOGC percent, -1 =
// off>w<word bits>.  Oracle signatures c18-env-*: as c18-history-*.
//
// `c18 replay <file>` re-runs exactly the history recorded in a replay file.

import (
	"encoding/json"
	"flag"
	"fmt"
	"os"
	"runtime"
	"runtime/debug"
	"strconv"
	"strings"

	"verifharness/hxlib"
)

// envSpec is the environment of one step.
type envSpec struct {
	procs int // GOMAXPROCS
	gc    int // GOGC percent, -1 = off
}

func (v envSpec) String() string { return fmt.Sprintf("p%dg%dw%d", v.procs, v.gc, strconv.IntSize) }

// around runs f under the environment and restores what was set before.
func (v envSpec) around(f func()) {
	oldGC := debug.SetGCPercent(v.gc)
	oldP := runtime.GOMAXPROCS(v.procs)
	defer func() {
		runtime.GOMAXPROCS(oldP)
		debug.SetGCPercent(oldGC)
	}()
	f()
}

func parseEnv(s string) (envSpec, error) {
	var v envSpec
	var w int
	if _, err := fmt.Sscanf(s, "p%dg%dw%d", &v.procs, &v.gc, &w); err != nil {
		return v, fmt.Errorf("environment %q: %v", s, err)
	}
	if v.procs < 1 || v.procs > 1024 {
		return v, fmt.Errorf("environment %q: GOMAXPROCS out of range", s)
	}
	if w != strconv.IntSize {
		return v, fmt.Errorf("environment %q: recorded on a %d-bit build, this is a %d-bit build", s, w, strconv.IntSize)
	}
	return v, nil
}

// processEnv describes the environment of this harness process (recorded in
// every failure).  runtime.NumCPU is fixed when the process starts (CPU
// affinity mask): checks/C18.py starts some child processes under `taskset`
// with 3 / 5 / 7 CPUs, the per-step GOMAXPROCS sweep runs inside those too.
func processEnv() string {
	gc := os.Getenv("GOGC")
	if gc == "" {
		gc = "100"
	}
	return fmt.Sprintf("NumCPU=%d GOMAXPROCS=%d GOGC=%s", runtime.NumCPU(), runtime.GOMAXPROCS(0), gc)
}

// the reference environment: the isolated runs (the model's round-function
// table) are taken here, as in the hist mode
var envRef = envSpec{procs: 1, gc: -1}

// GOMAXPROCS values of the sweep.  Work split over the CPUs is split by this
// number: 1 and 2, small odd numbers, a number with several prime factors, the
// machine's own count, more than the machine has, and a prime above every
// batch size divisor (256 = the batch of the protocol's oblivious transfers).
var procsSweep = []int{1, 2, 3, 5, 7, 12, 16, 24, 61}

// added when the search is widened (thorough tier, drifted structural probe)
var procsWide = []int{4, 6, 9, 10, 11, 13, 15, 17, 31, 32, 33, 63, 64, 100, 127, 128, 255, 256, 257, 300}

var gcSweep = []int{-1, 100, 1}

func sessionOf(ci curveInfo, a, b [32]byte, s1, s2, s3 uint64) *hsess {
	return &hsess{ci: ci, a: a, b: b, s1: s1, s2: s2, s3: s3}
}

// fresh returns the session with the reference values kept and no live slot.
func (s *hsess) fresh() *hsess {
	n := sessionOf(s.ci, s.a, s.b, s.s1, s.s2, s.s3)
	n.n1, n.n2, n.n3 = s.n1, s.n2, s.n3
	n.ref = s.ref
	return n
}

// envHistory runs one history with per-step environments: oracle, op line,
// counters.  Returns true when every undisturbed step succeeded with the
// isolated run's values and every digest is right.
func envHistory(o *hxlib.Out, class string, h int, ss []*hsess, evs []event, envs []envSpec, rerun string, cevals bool) bool {
	var names, inputs, tapes, sched, refs []string
	var rIn, rTapes [][]string
	for _, s := range ss {
		names = append(names, s.ci.name)
		inputs = append(inputs, hxlib.Hex(s.a[:])+"/"+hxlib.Hex(s.b[:]))
		tapes = append(tapes, fmt.Sprintf("%d/%d/%d", s.s1, s.s2, s.s3))
		rIn = append(rIn, []string{hxlib.Hex(s.a[:]), hxlib.Hex(s.b[:])})
		rTapes = append(rTapes, []string{fmt.Sprint(s.s1), fmt.Sprint(s.s2), fmt.Sprint(s.s3)})
		refs = append(refs, strings.Join(s.ref[:], ","))
	}
	for t, e := range evs {
		sched = append(sched, e.String()+"@"+envs[t].String())
	}
	op := fmt.Sprintf("histe %d %s %s", len(ss), strings.Join(refs, "|"), strings.Join(sched, ","))
	detail := func() map[string]any {
		return map[string]any{"class": "env-" + class, "history": h, "sessions": len(ss), "curves": strings.Join(names, ","),
			"schedule": strings.Join(sched, ","), "inputs_a/b": strings.Join(inputs, " "), "tapes": strings.Join(tapes, " "),
			"reference_environment": envRef.String(), "rerun": rerun,
			"replay": map[string]any{"mode": "env", "curves": names, "inputs": rIn, "tapes": rTapes,
				"schedule": strings.Join(sched, ",")}}
	}
	before := o.Counters["oracle_fail"]
	steps := runHistory(o, histKind{pfx: "env_", sig: "c18-env"}, ss, evs, envs, detail)
	o.Op(op, "histe "+strings.Join(steps, ";"))
	if cevals {
		for _, s := range ss {
			res := "no-digest"
			if s.has[slOut] {
				res = hxlib.Hex(s.out[:])
			}
			o.Op(fmt.Sprintf("ceval %s %s", hxlib.Hex(s.a[:]), hxlib.Hex(s.b[:])), res)
		}
	}
	o.Count("env_histories_" + class)
	for t := range evs {
		o.Count(fmt.Sprintf("env_step_procs_%d", envs[t].procs))
		o.Count(fmt.Sprintf("env_step_gc_%d", envs[t].gc))
	}
	return o.Counters["oracle_fail"] == before
}

// refOrFail takes the isolated runs under the reference environment.
func refOrFail(o *hxlib.Out, ss []*hsess, what map[string]any) bool {
	ok := true
	for i, s := range ss {
		var err error
		envRef.around(func() { err = s.refRun() })
		if err != nil {
			dt := map[string]any{}
			for k, v := range what {
				dt[k] = v
			}
			dt["session"] = i
			dt["curve"] = s.ci.name
			dt["a"], dt["b"] = hxlib.Hex(s.a[:]), hxlib.Hex(s.b[:])
			dt["tapes"] = fmt.Sprintf("%d/%d/%d", s.s1, s.s2, s.s3)
			dt["err"] = err.Error()
			dt["what"] = "isolated run under the reference environment " + envRef.String()
			var names []string
			var rIn, rTapes [][]string
			for _, q := range ss {
				names = append(names, q.ci.name)
				rIn = append(rIn, []string{hxlib.Hex(q.a[:]), hxlib.Hex(q.b[:])})
				rTapes = append(rTapes, []string{fmt.Sprint(q.s1), fmt.Sprint(q.s2), fmt.Sprint(q.s3)})
			}
			// the isolated runs alone (empty schedule) are the replay
			dt["replay"] = map[string]any{"mode": "env", "curves": names, "inputs": rIn, "tapes": rTapes, "schedule": ""}
			failK(o, "c18-session-error", dt)
			ok = false
		}
	}
	return ok
}

func envMode(args []string) int {
	var repo string
	cf, o := hxlib.ParseCommon("c18 env", args, func(fs *flag.FlagSet) {
		fs.StringVar(&repo, "repo", "/repo", "repository tree")
	})
	defer o.Close()
	// -extra: comma separated: curve names (sweep of these curves), "mixed" (the mixed histories), "wide" (wider sweep)
	want := map[string]bool{}
	for _, w := range strings.Split(cf.Extra, ",") {
		if w != "" {
			want[w] = true
		}
	}
	wide := want["wide"] || cf.Tier == "thorough"
	delete(want, "wide")
	all := len(want) == 0
	rng := hxlib.NewRng(cf.Seed ^ 0x5e1ec7ed0e4f1a55)
	circ, err := loadCircuit(repo)
	if err != nil {
		failK(o, "c18-harness", map[string]any{"err": err.Error()})
		return 0
	}
	o.Op("cfull "+hxlib.CircLine(circ), fmt.Sprintf("cfull gates=%d wf=1 outdef=1", len(circ.Gates)))
	rerun := fmt.Sprintf("go run -tags verif ./cmd/c18 env -repo %s -seed %d -n %d -tier %s -extra %q", repo, cf.Seed, cf.N, cf.Tier, cf.Extra)
	o.Meta["process_environment"] = processEnv()
	o.Meta["word_bits"] = strconv.IntSize

	procs := append([]int(nil), procsSweep...)
	if wide {
		procs = append(procs, procsWide...)
	}
	h := 0
	// ---- sweep: one session per curve under every environment
	for cidx, ci := range curves {
		r := rng.Fork()
		if !all && !want[ci.name] {
			continue
		}
		a, b := inputPair(r, []int{0, 5, 0, 3}[(cidx+int(cf.Seed))%4]) // random / the repository's test vector / random / a = b
		base := sessionOf(ci, a, b, r.U64(), r.U64(), r.U64())
		runtime.GC()
		if !refOrFail(o, []*hsess{base}, map[string]any{"class": "env-sweep", "rerun": rerun}) {
			continue
		}
		first := true
		for pi, p := range procs {
			// collector: off for most; on the two fast curves the other settings in rotation
			gc := -1
			if fastCurve(ci) || wide {
				gc = gcSweep[(pi+cidx+int(cf.Seed))%len(gcSweep)]
			}
			ev := envSpec{procs: p, gc: gc}
			x := (pi+cidx+int(cf.Seed))%2 == 1 // plain session / restart at every boundary
			evs := []event{{sess: 0, act: "g1"}, {sess: 0, act: "e2", x: x}, {sess: 0, act: "g3", x: x, y: x}, {sess: 0, act: "e4", x: x, y: x}}
			if fastCurve(ci) {
				evs = append(evs, event{sess: 0, act: "e4", x: !x, y: !x})
			}
			envs := make([]envSpec, len(evs))
			for i := range envs {
				envs[i] = ev
			}
			s := base.fresh()
			runtime.GC()
			ok := envHistory(o, "sweep", h, []*hsess{s}, evs, envs, rerun, first)
			first = false
			h++
			if ok && s.has[slOut] {
				o.Count(fmt.Sprintf("env_session_complete_procs_%d_%s", p, ci.name))
				o.Count(fmt.Sprintf("env_session_complete_gc_%d", gc))
				o.Count("env_session_complete_" + map[bool]string{false: "plain", true: "restart-everywhere"}[x])
			}
		}
	}
	// ---- mixed: interleaved sessions with failing steps, every step in its own environment
	if all || want["mixed"] {
		for m := 0; m < cf.N; m++ {
			r := rng.Fork()
			if cf.Only >= 0 && m != cf.Only {
				continue
			}
			cs, _ := curvesFor([]int{0, 1, 2, 6, 4, 9, 5, 3}[(m+int(cf.Seed))%8], r)
			if cf.Tier != "thorough" && len(cs) > 3 {
				cs = cs[:3]
			}
			var ss []*hsess
			for i := range cs {
				a, b := inputPair(r, m+i)
				ss = append(ss, sessionOf(cs[i], a, b, r.U64(), r.U64(), r.U64()))
			}
			runtime.GC()
			if !refOrFail(o, ss, map[string]any{"class": "env-mixed", "history": m, "rerun": rerun}) {
				continue
			}
			shape := schedShapes[(m+int(cf.Seed/8))%len(schedShapes)]
			evs := schedule(shape, ss, r, m+int(cf.Seed%24))
			envs := make([]envSpec, len(evs))
			for i := range envs {
				gc := -1
				if r.Intn(3) == 0 {
					gc = gcSweep[1+r.Intn(2)]
				}
				envs[i] = envSpec{procs: procs[r.Intn(len(procs))], gc: gc}
			}
			o.Count("env_mixed_shape_" + shape)
			o.Count(fmt.Sprintf("env_mixed_k%d", len(ss)))
			envHistory(o, "mixed", h, ss, evs, envs, rerun+fmt.Sprintf(" -only %d", m), true)
			h++
			changes := 0
			for i := 1; i < len(envs); i++ {
				if envs[i] != envs[i-1] {
					changes++
				}
			}
			o.CountN("env_mixed_environment_changes_between_steps", changes)
		}
	}
	o.Meta["cases"] = h
	return 0
}

// ---------------------------------------------------------------- exact replay of one recorded history

func parseEventText(s string) (e event, err error) {
	bad := func() (event, error) { return e, fmt.Errorf("event %q not understood", s) }
	dot := strings.IndexByte(s, '.')
	if dot < 0 {
		return bad()
	}
	if e.sess, err = strconv.Atoi(s[:dot]); err != nil {
		return bad()
	}
	rest := s[dot+1:]
	dist := ""
	if i := strings.IndexByte(rest, '!'); i >= 0 {
		rest, dist = rest[:i], rest[i+1:]
	}
	mode := func(c byte) (bool, bool) { return c == 'b', c == 'b' || c == 'm' }
	if len(rest) < 2 {
		return bad()
	}
	e.act = rest[:2]
	ok1, ok2 := true, true
	switch {
	case e.act == "g1" && len(rest) == 2:
	case e.act == "e2" && len(rest) == 3:
		e.x, ok1 = mode(rest[2])
	case (e.act == "g3" || e.act == "e4") && len(rest) == 4:
		e.x, ok1 = mode(rest[2])
		e.y, ok2 = mode(rest[3])
	default:
		return bad()
	}
	if !ok1 || !ok2 {
		return bad()
	}
	if dist == "" {
		return e, nil
	}
	e.dk = dist[:1]
	switch e.dk {
	case "r":
		if _, err := fmt.Sscanf(dist, "r%dk%d", &e.off, &e.kind); err != nil {
			return bad()
		}
	case "f", "s":
		if e.src, err = strconv.Atoi(dist[1:]); err != nil {
			return bad()
		}
	case "u":
		if e.mu, err = strconv.Atoi(dist[1:]); err != nil {
			return bad()
		}
	default:
		return bad()
	}
	return e, nil
}

// replayMode: `c18 replay <file>` re-runs exactly the history recorded in a
// replay file of the env mode (curves, inputs, tapes, schedule with the
// environment of every step) on the real code.  Exit 1: it fails again
// (failures on stdout), 0: it passes, 2: the file holds no such history.
func replayMode(args []string) int {
	if len(args) < 1 {
		fmt.Fprintln(os.Stderr, "usage: c18 replay <file>")
		return 2
	}
	raw, err := os.ReadFile(args[0])
	if err != nil {
		fmt.Fprintln(os.Stderr, err)
		return 2
	}
	var doc struct {
		Failure struct {
			Sig    string `json:"sig"`
			Replay struct {
				Mode     string     `json:"mode"`
				Curves   []string   `json:"curves"`
				Inputs   [][]string `json:"inputs"`
				Tapes    [][]string `json:"tapes"`
				Schedule string     `json:"schedule"`
			} `json:"replay"`
		} `json:"failure"`
	}
	if err := json.Unmarshal(raw, &doc); err != nil {
		fmt.Fprintln(os.Stderr, err)
		return 2
	}
	rp := doc.Failure.Replay
	if rp.Mode != "env" || len(rp.Curves) == 0 || len(rp.Inputs) != len(rp.Curves) || len(rp.Tapes) != len(rp.Curves) {
		fmt.Fprintln(os.Stderr, "no env-mode history in this file")
		return 2
	}
	var ss []*hsess
	for i, cn := range rp.Curves {
		known := false
		for _, c := range curves {
			known = known || c.name == cn
		}
		if !known || len(rp.Inputs[i]) != 2 || len(rp.Tapes[i]) != 3 {
			fmt.Fprintln(os.Stderr, "malformed session", i)
			return 2
		}
		var a, b [32]byte
		ab, e1 := hexBytes(rp.Inputs[i][0])
		bb, e2 := hexBytes(rp.Inputs[i][1])
		if e1 != nil || e2 != nil || len(ab) != 32 || len(bb) != 32 {
			fmt.Fprintln(os.Stderr, "malformed inputs of session", i)
			return 2
		}
		copy(a[:], ab)
		copy(b[:], bb)
		var t [3]uint64
		for j := range t {
			if t[j], err = strconv.ParseUint(rp.Tapes[i][j], 10, 64); err != nil {
				fmt.Fprintln(os.Stderr, "malformed tape of session", i)
				return 2
			}
		}
		ss = append(ss, sessionOf(curveByName(cn), a, b, t[0], t[1], t[2]))
	}
	var evs []event
	var envs []envSpec
	for _, item := range strings.Split(rp.Schedule, ",") {
		if item == "" {
			continue // no steps: the isolated runs under the reference environment are the case
		}
		at := strings.LastIndexByte(item, '@')
		if at < 0 {
			fmt.Fprintln(os.Stderr, "event without environment:", item)
			return 2
		}
		e, err := parseEventText(item[:at])
		if err != nil || e.sess < 0 || e.sess >= len(ss) {
			fmt.Fprintln(os.Stderr, "event:", item, err)
			return 2
		}
		v, err := parseEnv(item[at+1:])
		if err != nil {
			fmt.Fprintln(os.Stderr, err)
			return 2
		}
		evs = append(evs, e)
		envs = append(envs, v)
	}
	o := &hxlib.Out{Meta: map[string]any{}, Counters: map[string]int{}}
	fmt.Printf("replaying %d session(s) on %s in a process with %s, %d steps: %s\n", len(ss), strings.Join(rp.Curves, ","),
		processEnv(), len(evs), clip(rp.Schedule, 600))
	if !refOrFail(o, ss, map[string]any{"class": "env-replay"}) {
		for _, f := range o.OracleFails {
			delete(f, "replay")
			b, _ := json.Marshal(f)
			fmt.Println("FAIL:", clip(string(b), 900))
		}
		return 1
	}
	envHistory(o, "replay", 0, ss, evs, envs, "c18 replay "+args[0], false)
	for _, f := range o.OracleFails {
		delete(f, "replay")
		b, _ := json.Marshal(f)
		fmt.Println("FAIL:", clip(string(b), 900))
	}
	if len(o.OracleFails) > 0 {
		fmt.Printf("the recorded history fails again: %d oracle failure(s)\n", o.Counters["oracle_fail"])
		return 1
	}
	fmt.Println("the recorded history passes: every step has the isolated run's values, every digest is sha256(a xor b)")
	return 0
}

func hexBytes(s string) ([]byte, error) {
	if len(s)%2 != 0 {
		return nil, fmt.Errorf("odd length")
	}
	out := make([]byte, len(s)/2)
	for i := range out {
		v, err := strconv.ParseUint(s[2*i:2*i+2], 16, 8)
		if err != nil {
			return nil, err
		}
		out[i] = byte(v)
	}
	return out, nil
}

package main

import (
	"bytes"
	"encoding/binary"
	"flag"
	"fmt"
	"math/big"
	"strings"

	"github.com/markkurossi/mpc/ot"
	"github.com/markkurossi/mpc/sha2pc"

	"verifharness/hxlib"
)

// ---------------------------------------------------------------- edit scripts

// ed builds an edit script and applies it at the same time (the model driver
// applies the script text to its copy of the base and checks length + FNV).
type ed struct {
	b []byte
	s []string
}

func newEd(base []byte) *ed { return &ed{b: append([]byte(nil), base...)} }

func (e *ed) trunc(n int) {
	if n < 0 {
		n = 0
	}
	if n > len(e.b) {
		n = len(e.b)
	}
	e.b = e.b[:n]
	e.s = append(e.s, fmt.Sprintf("t%d", n))
}
func (e *ed) app(h []byte) {
	if len(h) == 0 {
		return
	}
	e.b = append(e.b, h...)
	e.s = append(e.s, "a"+hxlib.Hex(h))
}
func (e *ed) xor(off int, mask byte) {
	if off < 0 || off >= len(e.b) || mask == 0 {
		return
	}
	e.b[off] ^= mask
	e.s = append(e.s, fmt.Sprintf("x%d.%02x", off, mask))
}
func (e *ed) over(off int, h []byte) {
	if off < 0 || off+len(h) > len(e.b) || len(h) == 0 {
		return
	}
	copy(e.b[off:], h)
	e.s = append(e.s, fmt.Sprintf("w%d.%s", off, hxlib.Hex(h)))
}
func (e *ed) ins(off int, h []byte) {
	if off < 0 || off > len(e.b) || len(h) == 0 {
		return
	}
	nb := make([]byte, 0, len(e.b)+len(h))
	nb = append(nb, e.b[:off]...)
	nb = append(nb, h...)
	nb = append(nb, e.b[off:]...)
	e.b = nb
	e.s = append(e.s, fmt.Sprintf("i%d.%s", off, hxlib.Hex(h)))
}
func (e *ed) del(off, l int) {
	if off < 0 || l <= 0 || off+l > len(e.b) {
		return
	}
	e.b = append(e.b[:off:off], e.b[off+l:]...)
	e.s = append(e.s, fmt.Sprintf("d%d.%d", off, l))
}
func (e *ed) script() string {
	if len(e.s) == 0 {
		return "-"
	}
	return strings.Join(e.s, ",")
}

// ---------------------------------------------------------------- layouts

type field struct {
	name     string
	off, len int
}

// layout of a well-formed encoding (as produced by the real encoder).
func layout(kind string, ci curveInfo, b []byte) []field {
	var fs []field
	p := 0
	add := func(name string, l int) {
		fs = append(fs, field{name, p, l})
		p += l
	}
	add("magic", 2)
	add("sid", 8)
	bl := ci.bl
	switch kind {
	case "R1":
		add("nlen", 1)
		add("name", len(ci.name))
		add("ax", bl)
		add("ay", bl)
	case "R2":
		add("nlen", 1)
		add("name", len(ci.name))
		add("x0", bl)
		add("x1", bl)
		add("xs", 252*bl)
		add("x254", bl)
		add("x255", bl)
		add("signs", 32)
	case "R3":
		add("key", 32)
		add("tables", 42914*16)
		add("inputs", 256*16)
		add("hints", 256*32)
		add("cts", 256*32)
	case "GS":
		_, n := binary.Uvarint(b[p:])
		add("olen", n)
		add("nlen", 1)
		add("name", len(ci.name))
		add("scalar", bl)
		add("ax", bl)
		add("ay", bl)
		add("ainvx", bl)
		add("ainvy", bl)
	case "ES":
		_, n := binary.Uvarint(b[p:])
		add("olen", n)
		add("nlen", 1)
		add("name", len(ci.name))
		add("ax", bl)
		add("ay", bl)
		add("sc0", bl)
		add("scs", 254*bl)
		add("sc255", bl)
		add("bits", 32)
	}
	return fs
}

func fieldBy(fs []field, name string) field {
	for _, f := range fs {
		if f.name == name {
			return f
		}
	}
	return field{name: "?", off: 0, len: 0}
}

// ---------------------------------------------------------------- explaining accepted non-canonical inputs

// explain names every leniency of the decoders that the accepted input `in`
// exercises (independent lenient walk over the format).
func explain(kind string, ci curveInfo, in []byte) []string {
	var rs []string
	add := func(r string) {
		for _, x := range rs {
			if x == r {
				return
			}
		}
		rs = append(rs, r)
	}
	uv := func(b []byte) (int, int, bool) {
		v, n := binary.Uvarint(b)
		if n <= 0 || v > 1<<30 {
			return 0, 0, false
		}
		if n != uvarintLen(v) {
			add("nonminimal-uvarint")
		}
		return int(v), n, true
	}
	bl := ci.bl
	if len(in) < 10 {
		return []string{"unexplained"}
	}
	switch kind {
	case "R1", "R2":
		v, n, ok := uv(in[10:])
		if !ok {
			return []string{"unexplained"}
		}
		p := 10 + n + v
		if kind == "R1" {
			p += 2 * bl
		} else {
			p += 256*bl + 32
		}
		if p < len(in) {
			add("trailing-bytes")
		}
	case "GS", "ES":
		v, n, ok := uv(in[10:])
		if !ok || 10+n+v > len(in) {
			return []string{"unexplained"}
		}
		chunk := in[10+n : 10+n+v]
		if 10+n+v < len(in) {
			add("trailing-bytes")
		}
		v2, n2, ok := uv(chunk)
		if !ok {
			return []string{"unexplained"}
		}
		q := n2 + v2
		if kind == "GS" {
			q += 5 * bl
			if q < len(chunk) {
				add("inner-trailing-bytes")
			}
		} else {
			q += 258 * bl
			rem := len(chunk) - q
			if rem < 32 {
				add("short-bits")
			}
			if rem > 32 {
				add("inner-trailing-bytes")
			}
		}
	}
	if len(rs) == 0 {
		rs = append(rs, "unexplained")
	}
	return rs
}

// lenienceCause maps (decoder, leniency) to the root cause in the code.  The
// named causes are the leniencies /repo had before the repairs d9a1171,
// 2eb87d5 and 217fb4c (known_findings.json lists them as fixed: nothing is
// suppressed); since then EVERY accepted non-canonical input is a violation.
func lenienceCause(decoder, why string) string {
	readerBased := decoder == "R1" || decoder == "GS" || decoder == "ES"
	switch {
	case why == "trailing-bytes" && readerBased:
		return "reader-not-drained"
	case why == "inner-trailing-bytes" && (decoder == "GS" || decoder == "ES"):
		return "reader-not-drained"
	case why == "short-bits" && decoder == "ES":
		return "bits-read-not-full"
	case why == "nonminimal-uvarint" && decoder != "R3":
		return "uvarint-not-minimal"
	}
	return "unexpected:" + decoder + ":" + why
}

// ---------------------------------------------------------------- bases

type baseMsg struct {
	kind string
	ci   curveInfo
	slot string
	data []byte
	sess *session // session the payload belongs to (nil for structured payloads)
}

func maxField(bl int) *big.Int {
	v := new(big.Int).Lsh(big.NewInt(1), uint(8*bl))
	return v.Sub(v, big.NewInt(1))
}

// structuredBases builds payloads with boundary field values through the real
// encoders.
func structuredBases(ci curveInfo, r *hxlib.Rng) []baseMsg {
	var out []baseMsg
	mx := maxField(ci.bl)
	rnd := func() *big.Int { return new(big.Int).SetBytes(r.Bytes(ci.bl)) }
	add := func(kind, tag string, b []byte, err error) {
		if err != nil {
			panic(fmt.Sprintf("structured %s %s: %v", kind, tag, err))
		}
		out = append(out, baseMsg{kind: kind, ci: ci, slot: ci.name + "." + kind + "." + tag, data: b})
	}
	// R1
	b, err := sha2pc.EncodeRound1(ci.curve, sha2pc.Round1Payload{SessionID: 0,
		OT: sha2pc.OTSenderSetup{CurveName: "", A: ot.ECPoint{X: big.NewInt(0), Y: big.NewInt(0)}}})
	add("R1", "zero", b, err)
	b, err = sha2pc.EncodeRound1(ci.curve, sha2pc.Round1Payload{SessionID: ^uint64(0),
		OT: sha2pc.OTSenderSetup{CurveName: ci.name, A: ot.ECPoint{X: mx, Y: big.NewInt(1)}}})
	add("R1", "max", b, err)
	// GS
	b, err = sha2pc.EncodeGarblerSession(ci.curve, &sha2pc.GarblerSession{SessionID: ^uint64(0),
		SenderSetup: ot.COSenderSetup{CurveName: ci.name, Scalar: mx, Ax: big.NewInt(0), Ay: mx, AaInvX: big.NewInt(255), AaInvY: big.NewInt(256)}})
	add("GS", "max", b, err)
	b, err = sha2pc.EncodeGarblerSession(ci.curve, &sha2pc.GarblerSession{SessionID: 1,
		SenderSetup: ot.COSenderSetup{Scalar: rnd(), Ax: rnd(), Ay: rnd(), AaInvX: rnd(), AaInvY: rnd()}})
	add("GS", "rnd", b, err)
	// ES
	scal := make([]*big.Int, 256)
	bits := make([]bool, 256)
	for i := range scal {
		switch i % 4 {
		case 0:
			scal[i] = big.NewInt(0)
		case 1:
			scal[i] = mx
		default:
			scal[i] = rnd()
		}
		bits[i] = true
	}
	b, err = sha2pc.EncodeEvaluatorSession(ci.curve, &sha2pc.EvaluatorSession{SessionID: 0,
		ChoiceBundle: ot.COChoiceBundle{CurveName: ci.name, Ax: mx, Ay: big.NewInt(0), Scalars: scal, Bits: bits}})
	add("ES", "ones", b, err)
	// R2: small multiples of the generator, one of them with either parity
	pts := make([]ot.ECPoint, 256)
	for i := range pts {
		k := big.NewInt(int64(i + 1))
		x, y := ci.curve.ScalarBaseMult(k.Bytes())
		if i%3 == 0 {
			y = new(big.Int).Sub(ci.curve.Params().P, y)
		}
		pts[i] = ot.ECPoint{X: x, Y: y}
	}
	b, err = sha2pc.EncodeRound2(ci.curve, sha2pc.Round2Payload{SessionID: ^uint64(0), CurveName: "ignored", Choices: pts})
	add("R2", "kG", b, err)
	return out
}

// ---------------------------------------------------------------- mutators

type mcase struct {
	base   baseMsg
	dec    curveInfo // curve handed to the decoder
	e      *ed
	label  string
	target string // field hit (for choosing continuation runs)
}

func otherCurve(ci curveInfo, r *hxlib.Rng) curveInfo {
	for {
		c := curves[r.Intn(len(curves))]
		if c.name != ci.name {
			return c
		}
	}
}

// systematic mutations of one base.
func systematic(bm baseMsg, r *hxlib.Rng) []mcase {
	var cs []mcase
	fs := layout(bm.kind, bm.ci, bm.data)
	mk := func(label, target string, f func(e *ed)) {
		e := newEd(bm.data)
		f(e)
		cs = append(cs, mcase{base: bm, dec: bm.ci, e: e, label: label, target: target})
	}
	n := len(bm.data)
	mk("pristine", "", func(e *ed) {})
	// truncation at every boundary and one byte to either side
	seen := map[int]bool{}
	for _, f := range fs {
		for _, p := range []int{f.off - 1, f.off, f.off + 1, f.off + f.len - 1} {
			if p >= 0 && p < n && !seen[p] {
				seen[p] = true
				p := p
				mk("truncate", f.name, func(e *ed) { e.trunc(p) })
			}
		}
	}
	// extension
	for _, k := range []int{1, 2, 16, 33} {
		k := k
		mk("extend", "", func(e *ed) { e.app(r.Bytes(k)) })
	}
	mk("extend", "", func(e *ed) { e.app([]byte{0}) })
	// one bit in the first and in the last byte of every field
	for _, f := range fs {
		f := f
		if f.len == 0 {
			continue
		}
		mk("bitflip", f.name, func(e *ed) { e.xor(f.off, 1<<uint(r.Intn(8))) })
		mk("bitflip", f.name, func(e *ed) { e.xor(f.off+f.len-1, 1<<uint(r.Intn(8))) })
	}
	// session id of another run
	mk("wrong-sid", "sid", func(e *ed) { e.over(2, r.Bytes(8)) })
	// magic of every other message kind
	for _, m := range []string{"R1", "R2", "R3", "GS", "ES", "r1", "\x00\x00"} {
		m := m
		if m != bm.kind {
			mk("magic", "magic", func(e *ed) { e.over(0, []byte(m)) })
		}
	}
	if bm.kind != "R3" {
		// the same bytes handed to the decoder of every other curve
		for _, oc := range curves {
			if oc.name != bm.ci.name {
				e := newEd(bm.data)
				cs = append(cs, mcase{base: bm, dec: oc, e: e, label: "wrong-curve", target: ""})
				// ... and with the curve name patched to the decoder's curve
				e2 := newEd(bm.data)
				nf := fieldBy(fs, "name")
				e2.over(nf.off, []byte(oc.name))
				cs = append(cs, mcase{base: bm, dec: oc, e: e2, label: "wrong-curve-renamed", target: "name"})
			}
		}
		// curve name variants
		nf := fieldBy(fs, "name")
		mk("name", "name", func(e *ed) { e.over(nf.off, []byte("p-256")) })
		mk("name", "name", func(e *ed) { e.over(nf.off, []byte(otherCurve(bm.ci, r).name)) })
		// length prefixes
		for _, vf := range []string{"nlen", "olen"} {
			f := fieldBy(fs, vf)
			if f.len == 0 {
				continue
			}
			v, _ := binary.Uvarint(bm.data[f.off:])
			repl := func(label string, nb []byte) {
				mk(label, vf, func(e *ed) { e.del(f.off, f.len); e.ins(f.off, nb) })
			}
			nonmin := append(uvarint(v), 0)
			nonmin[len(nonmin)-2] |= 0x80
			repl("uvarint-nonminimal", nonmin)
			nonmin2 := append(append([]byte(nil), nonmin...), 0)
			nonmin2[len(nonmin2)-2] |= 0x80
			repl("uvarint-nonminimal", nonmin2)
			// ten bytes: longest accepted form; tenth byte 2: overflow
			ten := uvarint(v)
			for len(ten) < 10 {
				ten[len(ten)-1] |= 0x80
				ten = append(ten, 0)
			}
			repl("uvarint-nonminimal", ten)
			ten2 := append([]byte(nil), ten...)
			ten2[9] = 2
			repl("uvarint-overflow", ten2)
			repl("uvarint-overflow", bytes.Repeat([]byte{0xff}, 11))
			repl("uvarint-len", uvarint(v+1))
			repl("uvarint-len", uvarint(v-1))
			repl("uvarint-len", uvarint(0))
			repl("uvarint-len", uvarint(1<<20))
			repl("uvarint-len", uvarint(1<<20+1))
			repl("uvarint-len", uvarint(1<<62))
			repl("uvarint-len", uvarint(uint64(n)))
			repl("uvarint-cut", []byte{0x80})
		}
		// zero-length chunk at the very end of the input
		nl := fieldBy(fs, "nlen")
		mk("uvarint-len", "nlen", func(e *ed) { e.trunc(nl.off); e.app([]byte{0}) })
	}
	// field splices
	bl := bm.ci.bl
	pBytes := bm.ci.curve.Params().P.FillBytes(make([]byte, bl))
	for _, f := range fs {
		f := f
		if f.len != bl || bm.kind == "R3" {
			continue
		}
		mk("splice-zero", f.name, func(e *ed) { e.over(f.off, make([]byte, bl)) })
		mk("splice-ff", f.name, func(e *ed) { e.over(f.off, bytes.Repeat([]byte{0xff}, bl)) })
		mk("splice-p", f.name, func(e *ed) { e.over(f.off, pBytes) })
		mk("splice-rand", f.name, func(e *ed) { e.over(f.off, r.Bytes(bl)) })
	}
	switch bm.kind {
	case "R1":
		ax, ay := fieldBy(fs, "ax"), fieldBy(fs, "ay")
		mk("splice-swap", "ax", func(e *ed) {
			x := append([]byte(nil), e.b[ax.off:ax.off+bl]...)
			y := append([]byte(nil), e.b[ay.off:ay.off+bl]...)
			e.over(ax.off, y)
			e.over(ay.off, x)
		})
	case "R2":
		sg := fieldBy(fs, "signs")
		mk("splice-signs", "signs", func(e *ed) { e.over(sg.off, make([]byte, 32)) })
		mk("splice-signs", "signs", func(e *ed) { e.over(sg.off, bytes.Repeat([]byte{0xff}, 32)) })
		mk("bitflip", "signs", func(e *ed) { e.xor(sg.off+r.Intn(32), 1<<uint(r.Intn(8))) })
		// a point of another position (still a valid point)
		x0, x1 := fieldBy(fs, "x0"), fieldBy(fs, "x1")
		mk("splice-swap", "x0", func(e *ed) { e.over(x0.off, append([]byte(nil), e.b[x1.off:x1.off+bl]...)) })
		mk("shift", "xs", func(e *ed) { e.del(x0.off, 1); e.app([]byte{0}) })
	case "GS":
		ol := fieldBy(fs, "olen")
		v, _ := binary.Uvarint(bm.data[ol.off:])
		// bytes after the fifth field, inside the chunk
		for _, k := range []int{1, 7} {
			k := k
			mk("inner-extend", "", func(e *ed) {
				e.app(r.Bytes(k))
				e.del(ol.off, ol.len)
				e.ins(ol.off, uvarint(v+uint64(k)))
			})
		}
		mk("inner-truncate", "ainvy", func(e *ed) {
			e.trunc(n - 1)
			e.del(ol.off, ol.len)
			e.ins(ol.off, uvarint(v-1))
		})
	case "ES":
		ol := fieldBy(fs, "olen")
		v, _ := binary.Uvarint(bm.data[ol.off:])
		for _, k := range []int{1, 9} {
			k := k
			mk("inner-extend", "", func(e *ed) {
				e.app(r.Bytes(k))
				e.del(ol.off, ol.len)
				e.ins(ol.off, uvarint(v+uint64(k)))
			})
		}
		// chunk that ends inside / right before the bit field
		for _, k := range []int{1, 2, 8, 16, 31, 32, 33} {
			k := k
			mk("inner-truncate", "bits", func(e *ed) {
				e.trunc(n - k)
				e.del(ol.off, ol.len)
				e.ins(ol.off, uvarint(v-uint64(k)))
			})
		}
		bf := fieldBy(fs, "bits")
		mk("splice-bits", "bits", func(e *ed) { e.over(bf.off, make([]byte, 32)) })
		mk("splice-bits", "bits", func(e *ed) { e.over(bf.off, r.Bytes(32)) })
	case "R3":
		for _, fn := range []string{"key", "tables", "inputs", "hints", "cts"} {
			f := fieldBy(fs, fn)
			mk("bitflip", fn, func(e *ed) { e.xor(f.off+r.Intn(f.len), 1<<uint(r.Intn(8))) })
			mk("splice-rand", fn, func(e *ed) { e.over(f.off+r.Intn(f.len-16), r.Bytes(16)) })
		}
		mk("shift", "tables", func(e *ed) { e.del(100, 1); e.app([]byte{7}) })
		mk("shift", "tables", func(e *ed) { e.ins(100, []byte{7}); e.trunc(n) })
		mk("truncate", "", func(e *ed) { e.trunc(0) })
		mk("truncate", "", func(e *ed) { e.trunc(1) })
		mk("truncate", "", func(e *ed) { e.trunc(n / 2) })
		mk("extend", "", func(e *ed) { e.app(r.Bytes(16)) })
	}
	return cs
}

// one random mutation step applied to e.
func randomStep(bm baseMsg, fs []field, e *ed, r *hxlib.Rng) (label, target string) {
	n := len(e.b)
	pickField := func() field {
		for i := 0; i < 8; i++ {
			f := fs[r.Intn(len(fs))]
			if f.len > 0 && f.off+f.len <= n {
				return f
			}
		}
		return field{name: "any", off: 0, len: n}
	}
	if n == 0 {
		e.app(r.Bytes(1 + r.Intn(4)))
		return "extend", ""
	}
	switch r.Intn(12) {
	case 0:
		p := r.Intn(n)
		e.trunc(p)
		return "truncate", ""
	case 1:
		e.app(r.Bytes(1 + r.Intn(40)))
		return "extend", ""
	case 2, 3, 4:
		f := pickField()
		e.xor(f.off+r.Intn(f.len), 1<<uint(r.Intn(8)))
		return "bitflip", f.name
	case 5:
		e.xor(r.Intn(n), byte(1+r.Intn(255)))
		return "byteflip", "any"
	case 6:
		f := pickField()
		l := f.len
		if l > 64 {
			l = 1 + r.Intn(64)
		}
		o := f.off + r.Intn(f.len-l+1)
		var h []byte
		switch r.Intn(3) {
		case 0:
			h = make([]byte, l)
		case 1:
			h = bytes.Repeat([]byte{0xff}, l)
		default:
			h = r.Bytes(l)
		}
		e.over(o, h)
		return "splice", f.name
	case 7:
		// copy one stretch of the message over another
		f, g := pickField(), pickField()
		l := f.len
		if g.len < l {
			l = g.len
		}
		if l > 64 {
			l = 64
		}
		e.over(g.off, append([]byte(nil), e.b[f.off:f.off+l]...))
		return "splice-copy", g.name
	case 8:
		p := r.Intn(n + 1)
		e.ins(p, r.Bytes(1+r.Intn(3)))
		return "insert", "any"
	case 9:
		p := r.Intn(n)
		l := 1 + r.Intn(3)
		if p+l > n {
			l = n - p
		}
		e.del(p, l)
		return "delete", "any"
	case 10:
		e.over(2, r.Bytes(8))
		return "wrong-sid", "sid"
	default:
		// first bytes: magic / sid / length prefixes
		p := r.Intn(hxlib.MinInt(n, 14))
		e.xor(p, byte(1+r.Intn(255)))
		return "head", "head"
	}
}

// ---------------------------------------------------------------- continuation (the next round on an accepted mutated message / state)

type contResult struct {
	class string // ok | err | panic | none
	msg   string
}

func continueRound(kind string, d decoded, s *session, r *hxlib.Rng) (res contResult, round string) {
	defer func() {
		if e := recover(); e != nil {
			res = contResult{class: "panic", msg: clip(fmt.Sprint(e), 200)}
		}
	}()
	var err error
	switch kind {
	case "R1":
		round = "EvaluatorRound2"
		_, _, err = sha2pc.EvaluatorRound2(r, s.ci.curve, d.r1, s.b)
	case "R2":
		round = "GarblerRound3"
		_, err = sha2pc.GarblerRound3(r, s.ci.curve, s.gs, s.a, d.r2)
	case "GS":
		round = "GarblerRound3"
		_, err = sha2pc.GarblerRound3(r, s.ci.curve, d.gs, s.a, s.m2)
	case "R3":
		round = "EvaluatorRound4"
		_, err = sha2pc.EvaluatorRound4(s.ci.curve, s.es, d.r3)
	case "ES":
		round = "EvaluatorRound4"
		_, err = sha2pc.EvaluatorRound4(s.ci.curve, d.es, s.m3)
	}
	if err != nil {
		return contResult{class: "err", msg: clip(err.Error(), 200)}, round
	}
	return contResult{class: "ok"}, round
}

func onCurve(ci curveInfo, x, y *big.Int) bool {
	if x == nil || y == nil || x.Sign() < 0 || y.Sign() < 0 {
		return false
	}
	p := ci.curve.Params().P
	if x.Cmp(p) >= 0 || y.Cmp(p) >= 0 {
		return false
	}
	return ci.curve.IsOnCurve(x, y)
}

// panicCause narrows a crash of a round function on a decoded state.
func panicCause(kind string, d decoded, ci curveInfo, msg string) string {
	invalid := strings.Contains(msg, "invalid point")
	switch kind {
	case "ES":
		b := d.es.ChoiceBundle
		if invalid && !onCurve(ci, b.Ax, b.Ay) {
			return "ES-A-not-on-curve"
		}
	case "GS":
		s := d.gs.SenderSetup
		if invalid && onCurve(ci, s.Ax, s.Ay) && !onCurve(ci, s.AaInvX, s.AaInvY) {
			return "GS-AaInv-not-on-curve"
		}
	}
	return "other"
}

// ---------------------------------------------------------------- the mode

func decodedSid(kind string, d decoded) uint64 {
	switch kind {
	case "R1":
		return d.r1.SessionID
	case "R2":
		return d.r2.SessionID
	case "R3":
		return d.r3.SessionID
	case "GS":
		return d.gs.SessionID
	case "ES":
		return d.es.SessionID
	}
	return 0
}

func codecMode(args []string) int {
	var repo string
	cf, o := hxlib.ParseCommon("c18 codec", args, func(fs *flag.FlagSet) {
		fs.StringVar(&repo, "repo", "/repo", "repository tree")
	})
	defer o.Close()
	rng := hxlib.NewRng(cf.Seed)
	thorough := cf.Tier == "thorough"

	circ, err := loadCircuit(repo)
	if err != nil {
		failK(o, "c18-harness", map[string]any{"err": err.Error()})
		return 0
	}
	digits, sum := countsDigits(circ)

	// -extra <curve> restricts the run to one curve (the check runs the four
	// curves as parallel shards)
	sel := curves
	if cf.Extra != "" {
		sel = []curveInfo{curveByName(cf.Extra)}
	}
	// the real sessions the payloads come from
	sessions := map[string]*session{}
	for k, ci := range sel {
		a, b := inputPair(rng, 0)
		s, err := runSession(ci, a, b, rng.U64(), rng.U64(), rng.U64())
		if err != nil {
			failK(o, "c18-session-error", map[string]any{"curve": ci.name, "err": err.Error(), "case": k})
			return 0
		}
		sessions[ci.name] = s
	}
	o.Op("circ "+digits, fmt.Sprintf("circ n=%d sum=%d r3len=%d", len(circ.Gates), sum, len(sessions[sel[0].name].r3b)))
	for _, ci := range curves {
		p := ci.curve.Params()
		o.Op(fmt.Sprintf("curve %s %s %s %d", ci.name, p.P.Text(16), p.B.Text(16), (p.BitSize+7)/8), "curve ok")
	}

	var bases []baseMsg
	for _, ci := range sel {
		s := sessions[ci.name]
		for _, kb := range []struct {
			k string
			b []byte
		}{{"R1", s.r1b}, {"GS", s.gsb}, {"R2", s.r2b}, {"ES", s.esb}} {
			bases = append(bases, baseMsg{kind: kb.k, ci: ci, slot: ci.name + "." + kb.k + ".sess", data: kb.b, sess: s})
		}
		for _, sb := range structuredBases(ci, rng.Fork()) {
			sb.sess = s
			bases = append(bases, sb)
		}
	}
	// R3 does not depend on the curve; one real payload per curve in the
	// thorough tier, P-256 and P-521 in the quick tier.
	for _, ci := range sel {
		if thorough || ci.name == "P-256" {
			s := sessions[ci.name]
			bases = append(bases, baseMsg{kind: "R3", ci: ci, slot: ci.name + ".R3.sess", data: s.r3b, sess: s})
		}
	}

	idx := 0
	contBudget := map[string]int{}
	contMax := 2
	if thorough {
		contMax = 12
	}
	// continuation runs on the two big curves only for the fields that matter
	bigCurveTargets := map[string]bool{"sid": true, "ax": true, "ay": true, "ainvx": true, "ainvy": true, "scalar": true,
		"sc0": true, "x0": true, "signs": true, "bits": true, "hints": true, "tables": true}
	for _, bm := range bases {
		o.Op(fmt.Sprintf("base %s %s", bm.slot, hxlib.Hex(bm.data)), "base "+tagOf(bm.data))
		r := rng.Fork()
		fs := layout(bm.kind, bm.ci, bm.data)
		cases := systematic(bm, r)
		if !strings.HasSuffix(bm.slot, ".sess") && !thorough {
			// structured payloads: every third systematic case
			var keep []mcase
			for i, c := range cases {
				if i == 0 || i%3 == int(rng.U64()%3) {
					keep = append(keep, c)
				}
			}
			cases = keep
		}
		nrand := cf.N
		switch bm.kind {
		case "R2", "ES":
			nrand = cf.N / 3
		case "R3":
			nrand = cf.N / 8
		}
		if bm.sess == nil || !strings.HasSuffix(bm.slot, ".sess") {
			nrand /= 2
		}
		for i := 0; i < nrand; i++ {
			e := newEd(bm.data)
			label, target := randomStep(bm, fs, e, r)
			if r.Intn(4) == 0 {
				l2, _ := randomStep(bm, fs, e, r)
				label += "+" + l2
			}
			dec := bm.ci
			if bm.kind != "R3" && r.Intn(12) == 0 {
				dec = otherCurve(bm.ci, r)
				label += "+wrong-curve"
			}
			cases = append(cases, mcase{base: bm, dec: dec, e: e, label: label, target: target})
		}
		for _, mc := range cases {
			myIdx := idx
			idx++
			if cf.Only >= 0 && myIdx != cf.Only {
				continue
			}
			input := mc.e.b
			d := decodeReal(mc.base.kind, mc.dec, input)
			op := fmt.Sprintf("dec %s %s %s %s %s", mc.base.kind, mc.dec.name, mc.base.slot, mc.e.script(), tagOf(input))
			o.Op(op, d.line(input))
			o.Count("dec_" + mc.base.kind + "_" + d.class)
			o.Count("mut_" + strings.SplitN(mc.label, "+", 2)[0] + "_" + d.class)
			o.Count("curve_" + mc.dec.name)
			detail := func() map[string]any {
				return map[string]any{"case": myIdx, "decoder": mc.base.kind, "curve": mc.dec.name, "base": mc.base.slot,
					"edits": clip(mc.e.script(), 300), "label": mc.label, "input_len": len(input),
					"input_hex": clip(hxlib.Hex(input), 700),
					"rerun": fmt.Sprintf("go run -tags verif ./cmd/c18 codec -repo %s -seed %d -n %d -tier %s -extra %q -only %d -ops /dev/stdout",
						repo, cf.Seed, cf.N, cf.Tier, cf.Extra, myIdx)}
			}
			switch d.class {
			case "panic":
				dt := detail()
				dt["panic"] = d.pan
				failK(o, "c18-decoder-panic", dt)
				continue
			case "err":
				if mc.label == "pristine" {
					dt := detail()
					dt["err"] = d.err
					failK(o, "c18-decode-of-encode-fails", dt)
				}
				continue
			}
			// accepted
			if mc.label == "wrong-curve" {
				failK(o, "c18-curve-mismatch-accepted", detail())
			}
			if d.re == nil {
				dt := detail()
				dt["err"] = d.reErr
				failK(o, "c18-reencode-fails", dt)
				continue
			}
			// idempotence: the re-encoding decodes to the same value
			d2 := decodeReal(mc.base.kind, mc.dec, d.re)
			if d2.class != "ok" || d2.dump != d.dump || !bytes.Equal(d2.re, d.re) {
				failK(o, "c18-enc-dec-not-identity", detail())
			}
			if mc.label == "pristine" && !bytes.Equal(d.re, input) {
				failK(o, "c18-enc-dec-not-identity", detail())
			}
			if !bytes.Equal(d.re, input) {
				for _, why := range explain(mc.base.kind, mc.dec, input) {
					dt := detail()
					dt["kind"] = why
					dt["cause"] = lenienceCause(mc.base.kind, why)
					o.Count("accepted_noncanonical_" + mc.base.kind + "_" + why)
					failK(o, "c18-malformed-accepted", dt)
				}
			} else {
				o.Count("accepted_canonical_" + mc.base.kind)
			}
			// continuation: the next round must not crash on an accepted
			// message/state and must reject a foreign session id
			s := mc.base.sess
			if s == nil || mc.dec.name != s.ci.name {
				continue
			}
			key := mc.base.kind + "/" + mc.dec.name + "/" + mc.target
			interesting := mc.target != "" && mc.label != "pristine"
			if !interesting || contBudget[key] >= contMax {
				continue
			}
			if !thorough && (mc.dec.name == "P-384" || mc.dec.name == "P-521") &&
				(contBudget[key] >= 1 || !bigCurveTargets[mc.target]) {
				continue
			}
			contBudget[key]++
			res, round := continueRound(mc.base.kind, d, s, r.Fork())
			o.Count("cont_" + round + "_" + res.class)
			if res.class == "panic" {
				dt := detail()
				dt["round"] = round
				dt["panic"] = res.msg
				dt["cause"] = panicCause(mc.base.kind, d, mc.dec, res.msg)
				failK(o, "c18-round-panic", dt)
			}
			if res.class == "ok" && mc.base.kind != "R1" {
				want := s.gs.SessionID
				if decodedSid(mc.base.kind, d) != want {
					dt := detail()
					dt["round"] = round
					failK(o, "c18-session-mismatch-accepted", dt)
				}
			}
		}
	}

	// encoder ops on hand-made structures (name defaulting / mismatch)
	for k := 0; k < 40; k++ {
		ci := sel[k%len(sel)]
		r := rng.Fork()
		names := []string{"", ci.name, otherCurve(ci, r).name, "x"}
		cn := names[r.Intn(len(names))]
		v := func() *big.Int {
			switch r.Intn(4) {
			case 0:
				return big.NewInt(0)
			case 1:
				return maxField(ci.bl)
			}
			return new(big.Int).SetBytes(r.Bytes(1 + r.Intn(ci.bl)))
		}
		sid := r.U64()
		cnHex := "-"
		if cn != "" {
			cnHex = hxlib.Hex([]byte(cn))
		}
		if k%2 == 0 {
			ax, ay := v(), v()
			res := encOutcome(func() ([]byte, error) {
				return sha2pc.EncodeRound1(ci.curve, sha2pc.Round1Payload{SessionID: sid,
					OT: sha2pc.OTSenderSetup{CurveName: cn, A: ot.ECPoint{X: ax, Y: ay}}})
			})
			o.Op(fmt.Sprintf("encR1 %s %d %s %s %s", ci.name, sid, cnHex, ax.Text(16), ay.Text(16)), res)
			o.Count("enc_R1_" + strings.SplitN(res, " ", 2)[0])
		} else {
			sc, ax, ay, ix, iy := v(), v(), v(), v(), v()
			res := encOutcome(func() ([]byte, error) {
				return sha2pc.EncodeGarblerSession(ci.curve, &sha2pc.GarblerSession{SessionID: sid,
					SenderSetup: ot.COSenderSetup{CurveName: cn, Scalar: sc, Ax: ax, Ay: ay, AaInvX: ix, AaInvY: iy}})
			})
			o.Op(fmt.Sprintf("encGS %s %d %s %s %s %s %s %s", ci.name, sid, cnHex, sc.Text(16), ax.Text(16), ay.Text(16),
				ix.Text(16), iy.Text(16)), res)
			o.Count("enc_GS_" + strings.SplitN(res, " ", 2)[0])
		}
	}
	o.Meta["cases"] = idx
	return 0
}

func encOutcome(f func() ([]byte, error)) (res string) {
	defer func() {
		if e := recover(); e != nil {
			res = "panic"
		}
	}()
	b, err := f()
	if err != nil {
		return "err"
	}
	return "ok " + hxlib.Hex(b)
}

package main

import (
	"bytes"
	"crypto/elliptic"
	"crypto/sha256"
	"encoding/binary"
	"fmt"
	"math/big"
	"os"
	"path/filepath"
	"strings"

	"github.com/markkurossi/mpc/circuit"
	"github.com/markkurossi/mpc/ot"
	"github.com/markkurossi/mpc/sha2pc"

	"verifharness/hxlib"
)

// ---------------------------------------------------------------- curves

type curveInfo struct {
	name  string
	curve elliptic.Curve
	bl    int
}

var curves = []curveInfo{
	{"P-224", elliptic.P224(), 28},
	{"P-256", elliptic.P256(), 32},
	{"P-384", elliptic.P384(), 48},
	{"P-521", elliptic.P521(), 66},
}

func curveByName(n string) curveInfo {
	for _, c := range curves {
		if c.name == n {
			return c
		}
	}
	panic("unknown curve " + n)
}

// ---------------------------------------------------------------- hashing / tags

func fnv64(b []byte) uint64 {
	h := uint64(0xcbf29ce484222325)
	for _, x := range b {
		h ^= uint64(x)
		h *= 0x100000001b3
	}
	return h
}

func tagOf(b []byte) string { return fmt.Sprintf("%d:%x", len(b), fnv64(b)) }

func shortOrHash(d string) string {
	if len(d) <= 400 {
		return d
	}
	return "h=" + tagOf([]byte(d))
}

func bigHex(v *big.Int) string {
	if v == nil {
		return "nil"
	}
	return v.Text(16)
}

func labelHex(l ot.Label) string {
	var d ot.LabelData
	l.GetData(&d)
	return hxlib.Hex(d[:])
}

// ---------------------------------------------------------------- canonical dumps (same text as Driver/C18.lean)

func dumpR1(m sha2pc.Round1Payload) string {
	return fmt.Sprintf("sid=%d;cn=%x;ax=%s;ay=%s", m.SessionID, m.OT.CurveName, bigHex(m.OT.A.X), bigHex(m.OT.A.Y))
}

func dumpR2(m sha2pc.Round2Payload) string {
	var sb strings.Builder
	fmt.Fprintf(&sb, "sid=%d;cn=%x;pts=", m.SessionID, m.CurveName)
	for i, p := range m.Choices {
		if i > 0 {
			sb.WriteByte(',')
		}
		sb.WriteString(bigHex(p.X))
		sb.WriteByte(':')
		sb.WriteString(bigHex(p.Y))
	}
	return sb.String()
}

func dumpR3(m sha2pc.Round3Payload) string {
	var sb strings.Builder
	fmt.Fprintf(&sb, "sid=%d;key=%x;t=", m.SessionID, m.Key[:])
	for i, row := range m.GarbledTables {
		if i > 0 {
			sb.WriteByte(',')
		}
		for _, l := range row {
			sb.WriteString(labelHex(l))
		}
	}
	sb.WriteString(";in=")
	for _, l := range m.GarblerInputs {
		sb.WriteString(labelHex(l))
	}
	sb.WriteString(";h=")
	for i, w := range m.OutputHints {
		if i > 0 {
			sb.WriteByte(',')
		}
		sb.WriteString(labelHex(w.L0))
		sb.WriteString(labelHex(w.L1))
	}
	sb.WriteString(";ct=")
	for i, c := range m.Ciphertexts {
		if i > 0 {
			sb.WriteByte(',')
		}
		sb.WriteString(hxlib.Hex(c.Zero[:]))
		sb.WriteString(hxlib.Hex(c.One[:]))
	}
	return sb.String()
}

func dumpGS(m *sha2pc.GarblerSession) string {
	s := m.SenderSetup
	return fmt.Sprintf("sid=%d;cn=%x;sc=%s;ax=%s;ay=%s;ix=%s;iy=%s", m.SessionID, s.CurveName,
		bigHex(s.Scalar), bigHex(s.Ax), bigHex(s.Ay), bigHex(s.AaInvX), bigHex(s.AaInvY))
}

func dumpES(m *sha2pc.EvaluatorSession) string {
	b := m.ChoiceBundle
	var sb strings.Builder
	fmt.Fprintf(&sb, "sid=%d;cn=%x;ax=%s;ay=%s;sc=", m.SessionID, b.CurveName, bigHex(b.Ax), bigHex(b.Ay))
	for i, s := range b.Scalars {
		if i > 0 {
			sb.WriteByte(',')
		}
		sb.WriteString(bigHex(s))
	}
	sb.WriteString(";bits=")
	sb.WriteString(hxlib.BitsString(b.Bits))
	return sb.String()
}

// ---------------------------------------------------------------- decoding under recover

// decoded is the outcome of one real decoder call.
type decoded struct {
	class string // ok | err | panic
	err   string
	pan   string
	dump  string // full canonical dump (class ok)
	re    []byte // re-encoding of the decoded value (nil when the encoder failed)
	reErr string
	// decoded values (class ok)
	r1 sha2pc.Round1Payload
	r2 sha2pc.Round2Payload
	r3 sha2pc.Round3Payload
	gs *sha2pc.GarblerSession
	es *sha2pc.EvaluatorSession
}

func decodeReal(kind string, ci curveInfo, data []byte) (d decoded) {
	defer func() {
		if e := recover(); e != nil {
			d = decoded{class: "panic", pan: clip(fmt.Sprint(e), 300)}
		}
	}()
	var err error
	var re []byte
	var reErr error
	switch kind {
	case "R1":
		d.r1, err = sha2pc.DecodeRound1(ci.curve, data)
		if err == nil {
			d.dump = dumpR1(d.r1)
			re, reErr = sha2pc.EncodeRound1(ci.curve, d.r1)
		}
	case "R2":
		d.r2, err = sha2pc.DecodeRound2(ci.curve, data)
		if err == nil {
			d.dump = dumpR2(d.r2)
			re, reErr = sha2pc.EncodeRound2(ci.curve, d.r2)
		}
	case "R3":
		d.r3, err = sha2pc.DecodeRound3(data)
		if err == nil {
			d.dump = dumpR3(d.r3)
			re, reErr = sha2pc.EncodeRound3(d.r3)
		}
	case "GS":
		d.gs, err = sha2pc.DecodeGarblerSession(ci.curve, data)
		if err == nil {
			d.dump = dumpGS(d.gs)
			re, reErr = sha2pc.EncodeGarblerSession(ci.curve, d.gs)
		}
	case "ES":
		d.es, err = sha2pc.DecodeEvaluatorSession(ci.curve, data)
		if err == nil {
			d.dump = dumpES(d.es)
			re, reErr = sha2pc.EncodeEvaluatorSession(ci.curve, d.es)
		}
	default:
		panic("kind " + kind)
	}
	if err != nil {
		d.class = "err"
		d.err = clip(err.Error(), 200)
		return d
	}
	d.class = "ok"
	if reErr != nil {
		d.reErr = reErr.Error()
	} else {
		d.re = re
	}
	return d
}

// line renders the outcome like Drv.C18.outcome.
func (d decoded) line(input []byte) string {
	switch d.class {
	case "err":
		return "err"
	case "panic":
		return "panic"
	}
	if d.re == nil {
		return fmt.Sprintf("ok %s canon=0 re=err", shortOrHash(d.dump))
	}
	canon := 0
	if bytes.Equal(d.re, input) {
		canon = 1
	}
	return fmt.Sprintf("ok %s canon=%d re=%s", shortOrHash(d.dump), canon, tagOf(d.re))
}

func clip(s string, n int) string {
	if len(s) > n {
		return s[:n] + "..."
	}
	return s
}

// ---------------------------------------------------------------- the embedded circuit (read from the repository tree)

func loadCircuit(repo string) (*circuit.Circuit, error) {
	f, err := os.Open(filepath.Join(repo, "sha2pc", "sha256xor.mpclc"))
	if err != nil {
		return nil, err
	}
	defer f.Close()
	return circuit.ParseMPCLC(f)
}

func gateCount(op circuit.Operation) int {
	switch op {
	case circuit.AND:
		return 2
	case circuit.OR:
		return 3
	case circuit.INV:
		return 1
	}
	return 0
}

func countsDigits(c *circuit.Circuit) (string, int) {
	var sb strings.Builder
	sum := 0
	for _, g := range c.Gates {
		n := gateCount(g.Op)
		sum += n
		sb.WriteByte(byte('0' + n))
	}
	return sb.String(), sum
}

// ---------------------------------------------------------------- sessions

func refDigest(a, b [32]byte) [32]byte {
	var x [32]byte
	for i := range x {
		x[i] = a[i] ^ b[i]
	}
	return sha256.Sum256(x[:])
}

// session is one complete straight-line run with all encodings.
type session struct {
	ci            curveInfo
	a, b          [32]byte
	s1, s2, s3    uint64 // seeds of the three random tapes
	m1            sha2pc.Round1Payload
	gs            *sha2pc.GarblerSession
	m2            sha2pc.Round2Payload
	es            *sha2pc.EvaluatorSession
	m3            sha2pc.Round3Payload
	digest        [32]byte
	r1b, r2b, r3b []byte
	gsb, esb      []byte
}

func runSession(ci curveInfo, a, b [32]byte, s1, s2, s3 uint64) (s *session, err error) {
	defer func() {
		if e := recover(); e != nil {
			err = fmt.Errorf("panic: %v", e)
		}
	}()
	s = &session{ci: ci, a: a, b: b, s1: s1, s2: s2, s3: s3}
	if s.m1, s.gs, err = sha2pc.GarblerRound1(hxlib.NewRng(s1), ci.curve); err != nil {
		return nil, fmt.Errorf("round1: %w", err)
	}
	if s.m2, s.es, err = sha2pc.EvaluatorRound2(hxlib.NewRng(s2), ci.curve, s.m1, b); err != nil {
		return nil, fmt.Errorf("round2: %w", err)
	}
	if s.m3, err = sha2pc.GarblerRound3(hxlib.NewRng(s3), ci.curve, s.gs, a, s.m2); err != nil {
		return nil, fmt.Errorf("round3: %w", err)
	}
	if s.digest, err = sha2pc.EvaluatorRound4(ci.curve, s.es, s.m3); err != nil {
		return nil, fmt.Errorf("round4: %w", err)
	}
	if s.r1b, err = sha2pc.EncodeRound1(ci.curve, s.m1); err != nil {
		return nil, fmt.Errorf("enc r1: %w", err)
	}
	if s.r2b, err = sha2pc.EncodeRound2(ci.curve, s.m2); err != nil {
		return nil, fmt.Errorf("enc r2: %w", err)
	}
	if s.r3b, err = sha2pc.EncodeRound3(s.m3); err != nil {
		return nil, fmt.Errorf("enc r3: %w", err)
	}
	if s.gsb, err = sha2pc.EncodeGarblerSession(ci.curve, s.gs); err != nil {
		return nil, fmt.Errorf("enc gs: %w", err)
	}
	if s.esb, err = sha2pc.EncodeEvaluatorSession(ci.curve, s.es); err != nil {
		return nil, fmt.Errorf("enc es: %w", err)
	}
	return s, nil
}

// documented sizes (sha2pc_test.go TestPayloadSizesByCurve pins the P-256 and
// P-224 values; the formula is the model's).
func docSizes(ci curveInfo) (r1, r2, r3, gs, es int) {
	nl := len(ci.name)
	r1 = 2 + 8 + 1 + nl + 2*ci.bl
	r2 = 2 + 8 + 1 + nl + 256*ci.bl + 32
	r3 = 707146
	gi := 1 + nl + 5*ci.bl
	gs = 2 + 8 + uvarintLen(uint64(gi)) + gi
	ei := 1 + nl + 2*ci.bl + 256*ci.bl + 32
	es = 2 + 8 + uvarintLen(uint64(ei)) + ei
	return
}

func uvarintLen(v uint64) int {
	var tmp [binary.MaxVarintLen64]byte
	return binary.PutUvarint(tmp[:], v)
}

func uvarint(v uint64) []byte {
	var tmp [binary.MaxVarintLen64]byte
	n := binary.PutUvarint(tmp[:], v)
	return append([]byte(nil), tmp[:n]...)
}

// structured input pairs
func inputPair(r *hxlib.Rng, k int) (a, b [32]byte) {
	switch k % 6 {
	case 0:
		copy(a[:], r.Bytes(32))
		copy(b[:], r.Bytes(32))
	case 1: // all zero
	case 2: // a = ff.., b = 0
		for i := range a {
			a[i] = 0xff
		}
	case 3: // a = b (xor = 0)
		copy(a[:], r.Bytes(32))
		b = a
	case 4: // single bits at the ends
		a[0] = 1
		b[31] = 0x80
	case 5: // the repository's test vector
		for i := range a {
			a[i] = byte(i)
			b[i] = byte(len(a) - i)
		}
	}
	return
}

// failK records an oracle failure; at most two failures per class (signature +
// decoder + kind/cause/round) are kept in full so that a flood of one class
// cannot hide another (hxlib.Out.Fail keeps the first 20 of any kind).
var failSeen = map[string]int{}

func failK(o *hxlib.Out, sig string, detail map[string]any) {
	key := fmt.Sprint(sig, "|", detail["decoder"], "|", detail["kind"], "|", detail["cause"], "|", detail["round"], "|", detail["what"])
	failSeen[key]++
	o.Counters["oracle_fail"]++
	o.Counters["fail_"+sig]++
	if failSeen[key] > 2 || len(o.OracleFails) >= 80 {
		return
	}
	detail["sig"] = sig
	if _, ok := detail["process_environment"]; !ok {
		// the environment this harness process runs in is part of every failing case (checks/C18.py starts the
		// child processes under different GOMAXPROCS / GOGC); the env mode adds the environment of the step
		detail["process_environment"] = processEnv()
	}
	o.OracleFails = append(o.OracleFails, detail)
}

// Harness of property C18 (SHA256(XOR) protocol: correct, resumable, canonical
// encodings).  Modes:
//
//	codec    real payloads of all four curves + structured payloads, mutation
//	         fuzz of every encoded message; op lines for the Lean model
//	proto    full four-round sessions, restart at every round boundary through
//	         Encode/Decode, foreign session / curve rejection
//	hist     session HISTORIES in one process: 2..4 sessions (same / different
//	         curves) interleaved in every kind of order, every message consumed
//	         in memory and through bytes at later points, with FAILING steps in
//	         between (random source of a round fails at a seeded byte offset,
//	         foreign / mutated message) and their retries; the whole process
//	         state observed after every step and compared with the pure model
//	env      the execution ENVIRONMENT as a parameter: the same sessions and
//	         histories under GOMAXPROCS in {1, 2, 3, 5, 7, 12, 16, 24, 61, ...}
//	         and collector settings off / 100 / 1, set around every single
//	         step (a history may change its environment between any two
//	         rounds); status and state after every step = the model, which has
//	         no environment parameter (env.go)
//	replay   `c18 replay <file>`: exactly the env-mode history of a replay file
//	circuit  the embedded circuit against crypto/sha256 (validation)
package main

import (
	"fmt"
	"os"
)

func main() {
	if len(os.Args) < 2 {
		fmt.Fprintln(os.Stderr, "usage: c18 codec|proto|hist|env|circuit [flags] | c18 replay <file>")
		os.Exit(2)
	}
	switch os.Args[1] {
	case "codec":
		os.Exit(codecMode(os.Args[2:]))
	case "proto":
		os.Exit(protoMode(os.Args[2:]))
	case "hist":
		os.Exit(histMode(os.Args[2:]))
	case "env":
		os.Exit(envMode(os.Args[2:]))
	case "replay":
		os.Exit(replayMode(os.Args[2:]))
	case "circuit":
		os.Exit(circuitMode(os.Args[2:]))
	default:
		fmt.Fprintf(os.Stderr, "unknown mode %q\n", os.Args[1])
		os.Exit(2)
	}
}

// Harness of property C18 (SHA256(XOR) protocol: correct, resumable, canonical
// encodings).  Modes:
//
//	codec    real payloads of all four curves + structured payloads, mutation
//	         fuzz of every encoded message; op lines for the Lean model
//	proto    full four-round sessions, restart at every round boundary through
//	         Encode/Decode, foreign session / curve rejection
//	hist     session HISTORIES in one process: 2..4 sessions (same / different
//	         curves) interleaved in every kind of order, every message consumed
//	         in memory and through bytes at later points, with FAILING steps in
//	         between (random source of a round fails at a seeded byte offset,
//	         foreign / mutated message) and their retries; the whole process
//	         state observed after every step and compared with the pure model
//	circuit  the embedded circuit against crypto/sha256 (validation)
package main

import (
	"fmt"
	"os"
)

func main() {
	if len(os.Args) < 2 {
		fmt.Fprintln(os.Stderr, "usage: c18 codec|proto|hist|circuit [flags]")
		os.Exit(2)
	}
	switch os.Args[1] {
	case "codec":
		os.Exit(codecMode(os.Args[2:]))
	case "proto":
		os.Exit(protoMode(os.Args[2:]))
	case "hist":
		os.Exit(histMode(os.Args[2:]))
	case "circuit":
		os.Exit(circuitMode(os.Args[2:]))
	default:
		fmt.Fprintf(os.Stderr, "unknown mode %q\n", os.Args[1])
		os.Exit(2)
	}
}

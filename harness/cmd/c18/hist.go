package main

// Session HISTORIES in one process (property C18 quantifies over every session
// and over a restart between any two rounds; one garbler / evaluator process
// serves many sessions).
//
// A history is k = 2..4 sessions (same or different curves) whose round steps
// are interleaved in an order consistent with each session's own round order.
// Every step consumes its inputs either IN MEMORY (the live object another
// step returned earlier) or THROUGH BYTES (Encode of the live object at the
// time of consumption, then Decode).  The evaluator's last round is repeated
// at later points of the history, in particular after later rounds of OTHER
// sessions have run.
//
// The pure model (Model/Sha2pcProc.lean, run by the driver on the same
// schedule) says: a step changes only the slots it produces, of its own
// session; every produced value is the value the session produces when it
// runs alone.  The harness observes the REAL process after every step: a deep
// hash of every live message / session object of every session.  Oracles:
//
//	c18-history-value-changed   a live object differs from its production-time
//	                            deep copy (payload immutability)
//	c18-history-diverges        a step fails or produces a value different from
//	                            the isolated run of the same session
//	c18-history-wrong-digest    a digest differs from SHA-256(a xor b)
//
// Op lines:  hist <k> <refs> <schedule>   (see Driver/C18.lean), one
// `ceval <a> <b>` per session (Lean Circuit.compute = the digest obtained
// inside the history).

import (
	"flag"
	"fmt"
	"math/big"
	"runtime"
	"runtime/debug"
	"strings"

	"github.com/markkurossi/mpc/ot"
	"github.com/markkurossi/mpc/sha2pc"

	"verifharness/hxlib"
)

// ---------------------------------------------------------------- deep hashes (value of everything reachable)

type dh struct{ h uint64 }

func newDH() *dh { return &dh{h: 0xcbf29ce484222325} }

func (d *dh) u64(v uint64) {
	d.h ^= v
	d.h *= 0x100000001b3
	d.h ^= d.h >> 31
}

func (d *dh) bytes(b []byte) {
	d.u64(uint64(len(b)))
	var w uint64
	for i, x := range b {
		w = w<<8 | uint64(x)
		if i%8 == 7 {
			d.u64(w)
			w = 0
		}
	}
	d.u64(w)
}

func (d *dh) big(v *big.Int) {
	if v == nil {
		d.u64(0xffff)
		return
	}
	d.u64(uint64(v.Sign() + 1))
	d.bytes(v.Bytes())
}

func (d *dh) label(l ot.Label) {
	d.u64(l.D0)
	d.u64(l.D1)
}

func (d *dh) tag() string { return fmt.Sprintf("%016x", d.h) }

func hashR1(m sha2pc.Round1Payload) string {
	d := newDH()
	d.u64(m.SessionID)
	d.bytes([]byte(m.OT.CurveName))
	d.big(m.OT.A.X)
	d.big(m.OT.A.Y)
	return d.tag()
}

func hashGS(m *sha2pc.GarblerSession) string {
	d := newDH()
	if m == nil {
		return "nil"
	}
	s := m.SenderSetup
	d.u64(m.SessionID)
	d.bytes([]byte(s.CurveName))
	d.big(s.Scalar)
	d.big(s.Ax)
	d.big(s.Ay)
	d.big(s.AaInvX)
	d.big(s.AaInvY)
	return d.tag()
}

func hashR2(m sha2pc.Round2Payload) string {
	d := newDH()
	d.u64(m.SessionID)
	d.bytes([]byte(m.CurveName))
	d.u64(uint64(len(m.Choices)))
	for _, p := range m.Choices {
		d.big(p.X)
		d.big(p.Y)
	}
	return d.tag()
}

func hashES(m *sha2pc.EvaluatorSession) string {
	d := newDH()
	if m == nil {
		return "nil"
	}
	b := m.ChoiceBundle
	d.u64(m.SessionID)
	d.bytes([]byte(b.CurveName))
	d.big(b.Ax)
	d.big(b.Ay)
	d.u64(uint64(len(b.Scalars)))
	for _, s := range b.Scalars {
		d.big(s)
	}
	d.u64(uint64(len(b.Bits)))
	for _, x := range b.Bits {
		if x {
			d.u64(1)
		} else {
			d.u64(0)
		}
	}
	return d.tag()
}

func hashR3(m sha2pc.Round3Payload) string {
	d := newDH()
	d.u64(m.SessionID)
	d.bytes(m.Key[:])
	d.u64(uint64(len(m.GarbledTables)))
	for _, row := range m.GarbledTables {
		d.u64(uint64(len(row)))
		for _, l := range row {
			d.label(l)
		}
	}
	d.u64(uint64(len(m.GarblerInputs)))
	for _, l := range m.GarblerInputs {
		d.label(l)
	}
	d.u64(uint64(len(m.OutputHints)))
	for _, w := range m.OutputHints {
		d.label(w.L0)
		d.label(w.L1)
	}
	d.u64(uint64(len(m.Ciphertexts)))
	for _, c := range m.Ciphertexts {
		d.bytes(c.Zero[:])
		d.bytes(c.One[:])
	}
	return d.tag()
}

func hashDigest(x [32]byte) string {
	d := newDH()
	d.bytes(x[:])
	return d.tag()
}

// ---------------------------------------------------------------- the process state

const (
	slM1 = iota
	slGS
	slM2
	slES
	slM3
	slOut
	nSlots
)

var slotNames = [nSlots]string{"msg1", "garbler-session", "msg2", "evaluator-session", "msg3", "digest"}

// hsess is one session of a history: fixed inputs and tapes, the values of its
// isolated run, and the LIVE objects the history's steps returned.
type hsess struct {
	ci         curveInfo
	a, b       [32]byte
	s1, s2, s3 uint64
	ref        [nSlots]string // tags of the isolated run
	has        [nSlots]bool
	prod       [nSlots]string // tag at production time (deep copy)
	prodStep   [nSlots]int
	m1         sha2pc.Round1Payload
	gs         *sha2pc.GarblerSession
	m2         sha2pc.Round2Payload
	es         *sha2pc.EvaluatorSession
	m3         sha2pc.Round3Payload
	out        [32]byte
}

// live is the deep hash of the object in the slot as it is NOW.
func (s *hsess) live(slot int) (tag string) {
	defer func() {
		if e := recover(); e != nil {
			tag = "PANIC"
		}
	}()
	switch slot {
	case slM1:
		return hashR1(s.m1)
	case slGS:
		return hashGS(s.gs)
	case slM2:
		return hashR2(s.m2)
	case slES:
		return hashES(s.es)
	case slM3:
		return hashR3(s.m3)
	default:
		return hashDigest(s.out)
	}
}

// refRun runs the session alone, start to finish, and records the tag of every
// value at the moment it is returned.
func (s *hsess) refRun() (err error) {
	defer func() {
		if e := recover(); e != nil {
			err = fmt.Errorf("panic: %v", e)
		}
	}()
	cv := s.ci.curve
	m1, gs, err := sha2pc.GarblerRound1(hxlib.NewRng(s.s1), cv)
	if err != nil {
		return fmt.Errorf("round1: %w", err)
	}
	s.ref[slM1], s.ref[slGS] = hashR1(m1), hashGS(gs)
	m2, es, err := sha2pc.EvaluatorRound2(hxlib.NewRng(s.s2), cv, m1, s.b)
	if err != nil {
		return fmt.Errorf("round2: %w", err)
	}
	s.ref[slM2], s.ref[slES] = hashR2(m2), hashES(es)
	m3, err := sha2pc.GarblerRound3(hxlib.NewRng(s.s3), cv, gs, s.a, m2)
	if err != nil {
		return fmt.Errorf("round3: %w", err)
	}
	s.ref[slM3] = hashR3(m3)
	out, err := sha2pc.EvaluatorRound4(cv, es, m3)
	if err != nil {
		return fmt.Errorf("round4: %w", err)
	}
	s.ref[slOut] = hashDigest(out)
	return nil
}

// ---------------------------------------------------------------- events

type event struct {
	sess int
	act  string // g1 | e2 | g3 | e4
	x, y bool   // consumption modes: true = through bytes
}

func modeCh(b bool) string {
	if b {
		return "b"
	}
	return "m"
}

func (e event) String() string {
	switch e.act {
	case "g1":
		return fmt.Sprintf("%d.g1", e.sess)
	case "e2":
		return fmt.Sprintf("%d.e2%s", e.sess, modeCh(e.x))
	default:
		return fmt.Sprintf("%d.%s%s%s", e.sess, e.act, modeCh(e.x), modeCh(e.y))
	}
}

// exec runs one step on the real code.  Status ok | err | panic; on ok the
// produced objects replace the session's live slots.
func (s *hsess) exec(e event, step int) (status, msg string) {
	defer func() {
		if r := recover(); r != nil {
			status, msg = "panic", clip(fmt.Sprint(r), 200)
		}
	}()
	cv := s.ci.curve
	fail := func(what string, err error) (string, string) { return "err", what + ": " + clip(err.Error(), 200) }
	set := func(slot int) {
		s.has[slot] = true
		s.prod[slot] = s.live(slot)
		s.prodStep[slot] = step
	}
	switch e.act {
	case "g1":
		m1, gs, err := sha2pc.GarblerRound1(hxlib.NewRng(s.s1), cv)
		if err != nil {
			return fail("GarblerRound1", err)
		}
		s.m1, s.gs = m1, gs
		set(slM1)
		set(slGS)
	case "e2":
		m1 := s.m1
		if e.x {
			enc, err := sha2pc.EncodeRound1(cv, s.m1)
			if err != nil {
				return fail("EncodeRound1", err)
			}
			if m1, err = sha2pc.DecodeRound1(cv, enc); err != nil {
				return fail("DecodeRound1", err)
			}
		}
		m2, es, err := sha2pc.EvaluatorRound2(hxlib.NewRng(s.s2), cv, m1, s.b)
		if err != nil {
			return fail("EvaluatorRound2", err)
		}
		s.m2, s.es = m2, es
		set(slM2)
		set(slES)
	case "g3":
		gs, m2 := s.gs, s.m2
		if e.x {
			enc, err := sha2pc.EncodeGarblerSession(cv, s.gs)
			if err != nil {
				return fail("EncodeGarblerSession", err)
			}
			if gs, err = sha2pc.DecodeGarblerSession(cv, enc); err != nil {
				return fail("DecodeGarblerSession", err)
			}
		}
		if e.y {
			enc, err := sha2pc.EncodeRound2(cv, s.m2)
			if err != nil {
				return fail("EncodeRound2", err)
			}
			if m2, err = sha2pc.DecodeRound2(cv, enc); err != nil {
				return fail("DecodeRound2", err)
			}
		}
		m3, err := sha2pc.GarblerRound3(hxlib.NewRng(s.s3), cv, gs, s.a, m2)
		if err != nil {
			return fail("GarblerRound3", err)
		}
		s.m3 = m3
		set(slM3)
	case "e4":
		es, m3 := s.es, s.m3
		if e.x {
			enc, err := sha2pc.EncodeEvaluatorSession(cv, s.es)
			if err != nil {
				return fail("EncodeEvaluatorSession", err)
			}
			if es, err = sha2pc.DecodeEvaluatorSession(cv, enc); err != nil {
				return fail("DecodeEvaluatorSession", err)
			}
		}
		if e.y {
			enc, err := sha2pc.EncodeRound3(s.m3)
			if err != nil {
				return fail("EncodeRound3", err)
			}
			if m3, err = sha2pc.DecodeRound3(enc); err != nil {
				return fail("DecodeRound3", err)
			}
		}
		out, err := sha2pc.EvaluatorRound4(cv, es, m3)
		if err != nil {
			return fail("EvaluatorRound4", err)
		}
		s.out = out
		set(slOut)
	default:
		panic("act " + e.act)
	}
	return "ok", ""
}

// ---------------------------------------------------------------- generators

var schedShapes = []string{"sequential", "round-robin", "round-robin-reversed", "garbler-batch", "random-merge", "random-merge"}

func fastCurve(ci curveInfo) bool { return ci.name == "P-224" || ci.name == "P-256" }

// curvesFor picks the curves of history h: same curve / different curves, all
// four curves in rotation; histories with the two slow curves stay small.
func curvesFor(h int, r *hxlib.Rng) (cs []curveInfo, class string) {
	p224, p256, p384, p521 := curves[0], curves[1], curves[2], curves[3]
	k := 2 + h%3
	switch h % 8 {
	case 0, 4:
		for i := 0; i < k; i++ {
			cs = append(cs, p256)
		}
		return cs, "same"
	case 1:
		for i := 0; i < k; i++ {
			cs = append(cs, p224)
		}
		return cs, "same"
	case 2, 6:
		for i := 0; i < k; i++ {
			if (i+h/8)%2 == 0 {
				cs = append(cs, p256)
			} else {
				cs = append(cs, p224)
			}
		}
		return cs, "mixed"
	case 3:
		return []curveInfo{p384, p384}, "same"
	case 5:
		return []curveInfo{p256, p384, p224}, "mixed"
	default: // 7
		if (h/8)%2 == 0 {
			return []curveInfo{p521, p521}, "same"
		}
		return []curveInfo{p521, p256, p384}, "mixed"
	}
}

// schedule builds the event list: the core steps of every session in the
// given interleaving shape, extra evaluations of round 4 at later points, and
// a final sweep consuming every round-3 message again in memory and through
// bytes.
func schedule(shape string, ss []*hsess, r *hxlib.Rng) []event {
	k := len(ss)
	core := func(i int) []event {
		return []event{{i, "g1", false, false}, {i, "e2", r.Bool(), false}, {i, "g3", r.Bool(), r.Bool()}, {i, "e4", r.Bool(), r.Bool()}}
	}
	var per [][]event
	for i := 0; i < k; i++ {
		per = append(per, core(i))
	}
	var evs []event
	switch shape {
	case "sequential":
		for i := 0; i < k; i++ {
			evs = append(evs, per[i]...)
		}
	case "round-robin":
		for rd := 0; rd < 4; rd++ {
			for i := 0; i < k; i++ {
				evs = append(evs, per[i][rd])
			}
		}
	case "round-robin-reversed":
		for rd := 0; rd < 4; rd++ {
			for i := k - 1; i >= 0; i-- {
				evs = append(evs, per[i][rd])
			}
		}
	case "garbler-batch": // rounds 1-2 session by session, the garbler answers all, the evaluators finish in reverse
		for i := 0; i < k; i++ {
			evs = append(evs, per[i][0], per[i][1])
		}
		for i := 0; i < k; i++ {
			evs = append(evs, per[i][2])
		}
		for i := k - 1; i >= 0; i-- {
			evs = append(evs, per[i][3])
		}
	default: // uniformly random merge; some sessions evaluate round 4 twice
		for i := 0; i < k; i++ {
			if r.Intn(3) == 0 && fastCurve(ss[i].ci) {
				per[i] = append(per[i], event{i, "e4", r.Bool(), r.Bool()})
			}
		}
		pos := make([]int, k)
		for {
			left := 0
			for i := 0; i < k; i++ {
				left += len(per[i]) - pos[i]
			}
			if left == 0 {
				break
			}
			c := r.Intn(left)
			for i := 0; i < k; i++ {
				n := len(per[i]) - pos[i]
				if c < n {
					evs = append(evs, per[i][pos[i]])
					pos[i]++
					break
				}
				c -= n
			}
		}
	}
	// final sweep: every session's round-3 message is consumed again after
	// every other step of the history
	for i := 0; i < k; i++ {
		if fastCurve(ss[i].ci) {
			evs = append(evs, event{i, "e4", false, false}, event{i, "e4", true, true})
		} else {
			last := per[i][3]
			evs = append(evs, event{i, "e4", !last.x, !last.y})
		}
	}
	return evs
}

// ---------------------------------------------------------------- the mode

func stateLine(ss []*hsess) string {
	var sb strings.Builder
	for i, s := range ss {
		if i > 0 {
			sb.WriteByte('|')
		}
		for sl := 0; sl < nSlots; sl++ {
			if sl > 0 {
				sb.WriteByte(',')
			}
			if s.has[sl] {
				sb.WriteString(s.live(sl))
			} else {
				sb.WriteByte('-')
			}
		}
	}
	return sb.String()
}

func histMode(args []string) int {
	var repo string
	cf, o := hxlib.ParseCommon("c18 hist", args, func(fs *flag.FlagSet) {
		fs.StringVar(&repo, "repo", "/repo", "repository tree")
	})
	defer o.Close()
	rng := hxlib.NewRng(cf.Seed)
	circ, err := loadCircuit(repo)
	if err != nil {
		failK(o, "c18-harness", map[string]any{"err": err.Error()})
		return 0
	}
	// the circuit for the `ceval` lines (Lean Circuit.compute)
	o.Op("cfull "+hxlib.CircLine(circ), fmt.Sprintf("cfull gates=%d wf=1 outdef=1", len(circ.Gates)))

	// Whether memory a library pools (sync.Pool) is handed out again depends on
	// when the collector runs and on which P the goroutine is scheduled.  A
	// history runs on one P with the collector off, so what the process does
	// is a function of the schedule alone (and a history replays exactly); the
	// collector runs between histories.
	defer debug.SetGCPercent(debug.SetGCPercent(-1))
	defer runtime.GOMAXPROCS(runtime.GOMAXPROCS(1))

	for h := 0; h < cf.N; h++ {
		r := rng.Fork()
		if cf.Only >= 0 && h != cf.Only {
			continue
		}
		runtime.GC()
		cs, cclass := curvesFor(h+int(cf.Seed%8), r)
		k := len(cs)
		shape := schedShapes[(h+int(cf.Seed/8))%len(schedShapes)]
		var ss []*hsess
		for i := 0; i < k; i++ {
			a, b := inputPair(r, h+i)
			ss = append(ss, &hsess{ci: cs[i], a: a, b: b, s1: r.U64(), s2: r.U64(), s3: r.U64()})
		}
		evs := schedule(shape, ss, r)
		var names, inputs, tapes, sched []string
		for _, s := range ss {
			names = append(names, s.ci.name)
			inputs = append(inputs, hxlib.Hex(s.a[:])+"/"+hxlib.Hex(s.b[:]))
			tapes = append(tapes, fmt.Sprintf("%d/%d/%d", s.s1, s.s2, s.s3))
		}
		for _, e := range evs {
			sched = append(sched, e.String())
		}
		detail := func() map[string]any {
			return map[string]any{"history": h, "sessions": k, "curves": strings.Join(names, ","), "shape": shape,
				"schedule": strings.Join(sched, ","), "inputs_a/b": strings.Join(inputs, " "), "tapes": strings.Join(tapes, " "),
				"rerun": fmt.Sprintf("go run -tags verif ./cmd/c18 hist -repo %s -seed %d -n %d -tier %s -only %d", repo, cf.Seed, cf.N, cf.Tier, h)}
		}
		// the isolated runs (reference values = the model's round functions)
		bad := false
		for i, s := range ss {
			if err := s.refRun(); err != nil {
				dt := detail()
				dt["session"] = i
				dt["err"] = err.Error()
				dt["what"] = "isolated run"
				failK(o, "c18-session-error", dt)
				bad = true
			}
		}
		if bad {
			continue
		}
		o.Count(fmt.Sprintf("hist_k%d", k))
		o.Count("hist_curves_" + cclass)
		o.Count("hist_shape_" + shape)
		for _, s := range ss {
			o.Count("hist_sessions_" + s.ci.name)
		}

		var refs []string
		for _, s := range ss {
			refs = append(refs, strings.Join(s.ref[:], ","))
		}
		// run the history on the real code, observe the whole process after every step
		var steps []string
		lastG3 := -1 // step index of the latest round 3 of any session
		lastG3Sess := -1
		reported := map[string]bool{}
		for t, e := range evs {
			s := ss[e.sess]
			if e.act == "e4" {
				// class of the consumption: was a round 3 of ANOTHER session run after this message was produced?
				after := "own-round3-latest"
				if lastG3 > s.prodStep[slM3] && lastG3Sess != e.sess {
					after = "after-foreign-round3"
				}
				o.Count("hist_e4_msg3-" + map[bool]string{false: "memory", true: "bytes"}[e.y] + "_" + after)
				o.Count("hist_e4_session-" + map[bool]string{false: "memory", true: "bytes"}[e.x])
			}
			if e.act == "g3" {
				o.Count("hist_g3_session-" + map[bool]string{false: "memory", true: "bytes"}[e.x] + "_msg2-" + map[bool]string{false: "memory", true: "bytes"}[e.y])
			}
			if e.act == "e2" {
				o.Count("hist_e2_msg1-" + map[bool]string{false: "memory", true: "bytes"}[e.x])
			}
			status, msg := s.exec(e, t)
			if e.act == "g3" && status == "ok" {
				lastG3, lastG3Sess = t, e.sess
			}
			o.Count("hist_steps")
			steps = append(steps, status+"/"+stateLine(ss))
			if status != "ok" {
				dt := detail()
				dt["step"] = t
				dt["event"] = e.String()
				dt["status"] = status
				dt["msg"] = msg
				dt["what"] = "step " + e.act + " fails"
				failK(o, "c18-history-diverges", dt)
			}
			// payload immutability + isolation, judged on the real objects
			for j, q := range ss {
				for sl := 0; sl < nSlots; sl++ {
					if !q.has[sl] {
						continue
					}
					now := q.live(sl)
					key := fmt.Sprintf("%d.%d", j, sl)
					if now != q.prod[sl] && !reported[key] {
						reported[key] = true
						dt := detail()
						dt["step"] = t
						dt["event"] = e.String()
						dt["changed_session"] = j
						dt["changed_value"] = slotNames[sl]
						dt["produced_at_step"] = q.prodStep[sl]
						dt["hash_at_production"] = q.prod[sl]
						dt["hash_now"] = now
						rel := "own"
						if j != e.sess {
							rel = "other"
						}
						dt["what"] = slotNames[sl] + " of " + rel + " session changed by " + e.act
						failK(o, "c18-history-value-changed", dt)
					}
					if j == e.sess && q.prodStep[sl] == t && status == "ok" && now != q.ref[sl] {
						dt := detail()
						dt["step"] = t
						dt["event"] = e.String()
						dt["value"] = slotNames[sl]
						dt["hash_isolated_run"] = q.ref[sl]
						dt["hash_in_history"] = now
						dt["what"] = slotNames[sl] + " differs from the isolated run"
						failK(o, "c18-history-diverges", dt)
					}
				}
			}
			if e.act == "e4" && status == "ok" {
				if want := refDigest(s.a, s.b); s.out != want {
					dt := detail()
					dt["step"] = t
					dt["event"] = e.String()
					dt["got"] = hxlib.Hex(s.out[:])
					dt["want"] = hxlib.Hex(want[:])
					dt["what"] = "digest"
					failK(o, "c18-history-wrong-digest", dt)
				}
			}
		}
		o.Op(fmt.Sprintf("hist %d %s %s", k, strings.Join(refs, "|"), strings.Join(sched, ",")), "hist "+strings.Join(steps, ";"))
		// the digests obtained inside the history against the Lean evaluator
		for _, s := range ss {
			res := "no-digest"
			if s.has[slOut] {
				res = hxlib.Hex(s.out[:])
			}
			o.Op(fmt.Sprintf("ceval %s %s", hxlib.Hex(s.a[:]), hxlib.Hex(s.b[:])), res)
		}
	}
	o.Meta["cases"] = cf.N
	return 0
}

package main

// Session HISTORIES in one process (property C18 quantifies over every session
// and over a restart between any two rounds; one garbler / evaluator process
// serves many sessions).
//
// A history is k = 2..4 sessions (same or different curves) whose round steps
// are interleaved in an order consistent with each session's own round order.
// Every step consumes its inputs either IN MEMORY (the live object another
// step returned earlier) or THROUGH BYTES (Encode of the live object at the
// time of consumption, then Decode).  The evaluator's last round is repeated
// at later points of the history, in particular after later rounds of OTHER
// sessions have run.
//
// The pure model (Model/Sha2pcProc.lean, run by the driver on the same
// schedule) says: a step changes only the slots it produces, of its own
// session; every produced value is the value the session produces when it
// runs alone.  The harness observes the REAL process after every step: a deep
// hash of every live message / session object of every session.  Oracles:
//
//	c18-history-value-changed   a live object differs from its production-time
//	                            deep copy (payload immutability)
//	c18-history-diverges        a step fails or produces a value different from
//	                            the isolated run of the same session
//	c18-history-wrong-digest    a digest differs from SHA-256(a xor b)
//
// FAILING STEPS.  The property says malformed and foreign input is rejected
// with an error and every session is correct; in a process serving several
// sessions a step can fail for reasons outside the session, and neither the
// other sessions nor the failed session itself (on a retry) may notice.  Every
// history therefore contains DISTURBED steps (event suffix `!...`), placed
// before the undisturbed step of the same round (which is then the retry with
// a good source) or anywhere later, always followed by more steps of the other
// sessions:
//
//	!r<off>k<kind>  the random source given to round 1 / 2 / 3 fails at byte
//	                <off> of what the round draws (kind 0: no bytes + error,
//	                1: the bytes before the offset + error, 2: those bytes
//	                without error, the next read fails); offsets: seeded
//	                uniform inside the round's consumption + the boundaries
//	                of what round 3 draws (key | R | input labels)
//	!f<src>         round 3 / 4 is fed the message session <src> holds
//	!s<src>         round 4 is run on the evaluator state of session <src>
//	!u<mu>          the message arrives cut to fewer bytes / one byte longer
//
// Oracles on top of the three above:
//
//	c18-history-fault-accepted  a disturbed step returns a value
//	c18-history-crash           a step panics
//
// and the existing ones now also judge the retry and everything after a
// failure: the failed step must change no live object (immutability), the
// retry must give the isolated run's value, every digest must be right.
//
// Op lines:  hist <k> <refs> <schedule>   (see Driver/C18.lean), one
// `ceval <a> <b>` per session (Lean Circuit.compute = the digest obtained
// inside the history).

import (
	"errors"
	"flag"
	"fmt"
	"io"
	"math/big"
	"runtime"
	"runtime/debug"
	"sort"
	"strings"

	"github.com/markkurossi/mpc/ot"
	"github.com/markkurossi/mpc/sha2pc"

	"verifharness/hxlib"
)

// ---------------------------------------------------------------- deep hashes (value of everything reachable)

type dh struct{ h uint64 }

func newDH() *dh { return &dh{h: 0xcbf29ce484222325} }

func (d *dh) u64(v uint64) {
	d.h ^= v
	d.h *= 0x100000001b3
	d.h ^= d.h >> 31
}

func (d *dh) bytes(b []byte) {
	d.u64(uint64(len(b)))
	var w uint64
	for i, x := range b {
		w = w<<8 | uint64(x)
		if i%8 == 7 {
			d.u64(w)
			w = 0
		}
	}
	d.u64(w)
}

func (d *dh) big(v *big.Int) {
	if v == nil {
		d.u64(0xffff)
		return
	}
	d.u64(uint64(v.Sign() + 1))
	d.bytes(v.Bytes())
}

func (d *dh) label(l ot.Label) {
	d.u64(l.D0)
	d.u64(l.D1)
}

func (d *dh) tag() string { return fmt.Sprintf("%016x", d.h) }

func hashR1(m sha2pc.Round1Payload) string {
	d := newDH()
	d.u64(m.SessionID)
	d.bytes([]byte(m.OT.CurveName))
	d.big(m.OT.A.X)
	d.big(m.OT.A.Y)
	return d.tag()
}

func hashGS(m *sha2pc.GarblerSession) string {
	d := newDH()
	if m == nil {
		return "nil"
	}
	s := m.SenderSetup
	d.u64(m.SessionID)
	d.bytes([]byte(s.CurveName))
	d.big(s.Scalar)
	d.big(s.Ax)
	d.big(s.Ay)
	d.big(s.AaInvX)
	d.big(s.AaInvY)
	return d.tag()
}

func hashR2(m sha2pc.Round2Payload) string {
	d := newDH()
	d.u64(m.SessionID)
	d.bytes([]byte(m.CurveName))
	d.u64(uint64(len(m.Choices)))
	for _, p := range m.Choices {
		d.big(p.X)
		d.big(p.Y)
	}
	return d.tag()
}

func hashES(m *sha2pc.EvaluatorSession) string {
	d := newDH()
	if m == nil {
		return "nil"
	}
	b := m.ChoiceBundle
	d.u64(m.SessionID)
	d.bytes([]byte(b.CurveName))
	d.big(b.Ax)
	d.big(b.Ay)
	d.u64(uint64(len(b.Scalars)))
	for _, s := range b.Scalars {
		d.big(s)
	}
	d.u64(uint64(len(b.Bits)))
	for _, x := range b.Bits {
		if x {
			d.u64(1)
		} else {
			d.u64(0)
		}
	}
	return d.tag()
}

func hashR3(m sha2pc.Round3Payload) string {
	d := newDH()
	d.u64(m.SessionID)
	d.bytes(m.Key[:])
	d.u64(uint64(len(m.GarbledTables)))
	for _, row := range m.GarbledTables {
		d.u64(uint64(len(row)))
		for _, l := range row {
			d.label(l)
		}
	}
	d.u64(uint64(len(m.GarblerInputs)))
	for _, l := range m.GarblerInputs {
		d.label(l)
	}
	d.u64(uint64(len(m.OutputHints)))
	for _, w := range m.OutputHints {
		d.label(w.L0)
		d.label(w.L1)
	}
	d.u64(uint64(len(m.Ciphertexts)))
	for _, c := range m.Ciphertexts {
		d.bytes(c.Zero[:])
		d.bytes(c.One[:])
	}
	return d.tag()
}

func hashDigest(x [32]byte) string {
	d := newDH()
	d.bytes(x[:])
	return d.tag()
}

// ---------------------------------------------------------------- the process state

const (
	slM1 = iota
	slGS
	slM2
	slES
	slM3
	slOut
	nSlots
)

var slotNames = [nSlots]string{"msg1", "garbler-session", "msg2", "evaluator-session", "msg3", "digest"}

// hsess is one session of a history: fixed inputs and tapes, the values of its
// isolated run, and the LIVE objects the history's steps returned.
type hsess struct {
	ci         curveInfo
	a, b       [32]byte
	s1, s2, s3 uint64
	n1, n2, n3 int            // bytes each round draws from its random source (isolated run)
	ref        [nSlots]string // tags of the isolated run
	has        [nSlots]bool
	prod       [nSlots]string // tag at production time (deep copy)
	prodStep   [nSlots]int
	m1         sha2pc.Round1Payload
	gs         *sha2pc.GarblerSession
	m2         sha2pc.Round2Payload
	es         *sha2pc.EvaluatorSession
	m3         sha2pc.Round3Payload
	out        [32]byte
}

// live is the deep hash of the object in the slot as it is NOW.
func (s *hsess) live(slot int) (tag string) {
	defer func() {
		if e := recover(); e != nil {
			tag = "PANIC"
		}
	}()
	switch slot {
	case slM1:
		return hashR1(s.m1)
	case slGS:
		return hashGS(s.gs)
	case slM2:
		return hashR2(s.m2)
	case slES:
		return hashES(s.es)
	case slM3:
		return hashR3(s.m3)
	default:
		return hashDigest(s.out)
	}
}

// refRun runs the session alone, start to finish, and records the tag of every
// value at the moment it is returned.
func (s *hsess) refRun() (err error) {
	defer func() {
		if e := recover(); e != nil {
			err = fmt.Errorf("panic: %v", e)
		}
	}()
	cv := s.ci.curve
	c1 := &countReader{inner: hxlib.NewRng(s.s1)}
	m1, gs, err := sha2pc.GarblerRound1(c1, cv)
	if err != nil {
		return fmt.Errorf("round1: %w", err)
	}
	s.ref[slM1], s.ref[slGS] = hashR1(m1), hashGS(gs)
	c2 := &countReader{inner: hxlib.NewRng(s.s2)}
	m2, es, err := sha2pc.EvaluatorRound2(c2, cv, m1, s.b)
	if err != nil {
		return fmt.Errorf("round2: %w", err)
	}
	s.ref[slM2], s.ref[slES] = hashR2(m2), hashES(es)
	c3 := &countReader{inner: hxlib.NewRng(s.s3)}
	m3, err := sha2pc.GarblerRound3(c3, cv, gs, s.a, m2)
	if err != nil {
		return fmt.Errorf("round3: %w", err)
	}
	s.n1, s.n2, s.n3 = c1.n, c2.n, c3.n
	s.ref[slM3] = hashR3(m3)
	out, err := sha2pc.EvaluatorRound4(cv, es, m3)
	if err != nil {
		return fmt.Errorf("round4: %w", err)
	}
	s.ref[slOut] = hashDigest(out)
	return nil
}

// ---------------------------------------------------------------- events

type event struct {
	sess int
	act  string // g1 | e2 | g3 | e4
	x, y bool   // consumption modes: true = through bytes
	// disturbance of the step ("" = none): r random source fails at byte off
	// (kind 0|1|2), f message of session src, s evaluator state of session src,
	// u message bytes mutated in transit (mu)
	dk                 string
	off, kind, src, mu int
}

func modeCh(b bool) string {
	if b {
		return "b"
	}
	return "m"
}

func (e event) String() string {
	var base string
	switch e.act {
	case "g1":
		base = fmt.Sprintf("%d.g1", e.sess)
	case "e2":
		base = fmt.Sprintf("%d.e2%s", e.sess, modeCh(e.x))
	default:
		base = fmt.Sprintf("%d.%s%s%s", e.sess, e.act, modeCh(e.x), modeCh(e.y))
	}
	switch e.dk {
	case "r":
		return fmt.Sprintf("%s!r%dk%d", base, e.off, e.kind)
	case "f":
		return fmt.Sprintf("%s!f%d", base, e.src)
	case "s":
		return fmt.Sprintf("%s!s%d", base, e.src)
	case "u":
		return fmt.Sprintf("%s!u%d", base, e.mu)
	}
	return base
}

// ---------------------------------------------------------------- disturbances

// countReader counts what a round draws from its random source.
type countReader struct {
	inner io.Reader
	n     int
}

func (c *countReader) Read(p []byte) (int, error) {
	n, err := c.inner.Read(p)
	c.n += n
	return n, err
}

var errSource = errors.New("verif: random source failed")

// faultReader delivers the first `left` bytes of the inner source and fails
// afterwards, for good.  kind 0: the read that reaches the limit returns no
// bytes and the error; 1: it returns the bytes before the limit and the error;
// 2: it returns those bytes without an error (a short read), the next read
// fails.
type faultReader struct {
	inner   io.Reader
	left    int
	kind    int
	tripped bool
}

func (f *faultReader) Read(p []byte) (int, error) {
	if f.tripped || f.left <= 0 {
		f.tripped = true
		return 0, errSource
	}
	if len(p) <= f.left {
		n, err := f.inner.Read(p)
		f.left -= n
		return n, err
	}
	switch f.kind {
	case 0:
		f.tripped = true
		return 0, errSource
	case 1:
		n, _ := f.inner.Read(p[:f.left])
		f.left = 0
		f.tripped = true
		return n, errSource
	default:
		n, _ := f.inner.Read(p[:f.left])
		f.left = 0
		return n, nil
	}
}

// source is the random source of the step: the session's tape, failing where
// the event says.
func (e event) source(seed uint64) io.Reader {
	if e.dk == "r" {
		return &faultReader{inner: hxlib.NewRng(seed), left: e.off, kind: e.kind}
	}
	return hxlib.NewRng(seed)
}

// mutateBytes is Model/Sha2pcProc.lean `mutate`: even mu cuts the encoding to
// (mu/2) mod len bytes, odd mu appends the byte mu/2.
func mutateBytes(mu int, b []byte) []byte {
	if mu%2 == 0 {
		if len(b) == 0 {
			return b
		}
		return append([]byte(nil), b[:(mu/2)%len(b)]...)
	}
	return append(append([]byte(nil), b...), byte(mu/2))
}

// exec runs one step on the real code.  Status ok | err | panic | off (an
// input of the step is not there, or the disturbance does not apply to the
// round: nothing is run); on ok of an UNDISTURBED step the produced objects
// replace the session's live slots.  A disturbed step never stores anything:
// its ok is an oracle failure.
func (s *hsess) exec(e event, step int, ss []*hsess) (status, msg string) {
	defer func() {
		if r := recover(); r != nil {
			status, msg = "panic", clip(fmt.Sprint(r), 200)
		}
	}()
	cv := s.ci.curve
	fail := func(what string, err error) (string, string) { return "err", what + ": " + clip(err.Error(), 200) }
	set := func(slot int) {
		s.has[slot] = true
		s.prod[slot] = s.live(slot)
		s.prodStep[slot] = step
	}
	clean := e.dk == ""
	var q *hsess // the session a foreign input comes from
	if e.dk == "f" || e.dk == "s" {
		if e.src < 0 || e.src >= len(ss) {
			return "off", ""
		}
		q = ss[e.src]
	}
	switch e.act {
	case "g1":
		if e.dk != "" && e.dk != "r" {
			return "off", ""
		}
		m1, gs, err := sha2pc.GarblerRound1(e.source(s.s1), cv)
		if err != nil {
			return fail("GarblerRound1", err)
		}
		if clean {
			s.m1, s.gs = m1, gs
			set(slM1)
			set(slGS)
		}
	case "e2":
		if e.dk == "f" || e.dk == "s" || !s.has[slM1] {
			return "off", ""
		}
		m1 := s.m1
		if e.x || e.dk == "u" {
			enc, err := sha2pc.EncodeRound1(cv, s.m1)
			if err != nil {
				return fail("EncodeRound1", err)
			}
			if e.dk == "u" {
				enc = mutateBytes(e.mu, enc)
			}
			if m1, err = sha2pc.DecodeRound1(cv, enc); err != nil {
				return fail("DecodeRound1", err)
			}
		}
		m2, es, err := sha2pc.EvaluatorRound2(e.source(s.s2), cv, m1, s.b)
		if err != nil {
			return fail("EvaluatorRound2", err)
		}
		if clean {
			s.m2, s.es = m2, es
			set(slM2)
			set(slES)
		}
	case "g3":
		if e.dk == "s" || !s.has[slGS] {
			return "off", ""
		}
		gs, m2 := s.gs, s.m2
		if e.dk == "f" {
			if !q.has[slM2] {
				return "off", ""
			}
			m2 = q.m2
		} else if !s.has[slM2] {
			return "off", ""
		}
		if e.x {
			enc, err := sha2pc.EncodeGarblerSession(cv, s.gs)
			if err != nil {
				return fail("EncodeGarblerSession", err)
			}
			if gs, err = sha2pc.DecodeGarblerSession(cv, enc); err != nil {
				return fail("DecodeGarblerSession", err)
			}
		}
		if e.y || e.dk == "u" {
			enc, err := sha2pc.EncodeRound2(cv, m2)
			if err != nil {
				return fail("EncodeRound2", err)
			}
			if e.dk == "u" {
				enc = mutateBytes(e.mu, enc)
			}
			if m2, err = sha2pc.DecodeRound2(cv, enc); err != nil {
				return fail("DecodeRound2", err)
			}
		}
		m3, err := sha2pc.GarblerRound3(e.source(s.s3), cv, gs, s.a, m2)
		if err != nil {
			return fail("GarblerRound3", err)
		}
		if clean {
			s.m3 = m3
			set(slM3)
		}
	case "e4":
		if e.dk == "r" {
			return "off", ""
		}
		es, m3 := s.es, s.m3
		switch e.dk {
		case "f":
			if !s.has[slES] || !q.has[slM3] {
				return "off", ""
			}
			m3 = q.m3
		case "s":
			if !q.has[slES] || !s.has[slM3] {
				return "off", ""
			}
			es = q.es
		default:
			if !s.has[slES] || !s.has[slM3] {
				return "off", ""
			}
		}
		if e.x {
			enc, err := sha2pc.EncodeEvaluatorSession(cv, es)
			if err != nil {
				return fail("EncodeEvaluatorSession", err)
			}
			if es, err = sha2pc.DecodeEvaluatorSession(cv, enc); err != nil {
				return fail("DecodeEvaluatorSession", err)
			}
		}
		if e.y || e.dk == "u" {
			enc, err := sha2pc.EncodeRound3(m3)
			if err != nil {
				return fail("EncodeRound3", err)
			}
			if e.dk == "u" {
				enc = mutateBytes(e.mu, enc)
			}
			if m3, err = sha2pc.DecodeRound3(enc); err != nil {
				return fail("DecodeRound3", err)
			}
		}
		out, err := sha2pc.EvaluatorRound4(cv, es, m3)
		if err != nil {
			return fail("EvaluatorRound4", err)
		}
		if clean {
			s.out = out
			set(slOut)
		}
	default:
		panic("act " + e.act)
	}
	return "ok", ""
}

// ---------------------------------------------------------------- generators

var schedShapes = []string{"sequential", "round-robin", "round-robin-reversed", "garbler-batch", "random-merge", "random-merge"}

func fastCurve(ci curveInfo) bool { return ci.name == "P-224" || ci.name == "P-256" }

// curvesFor picks the curves of history h: same curve / different curves, all
// four curves in rotation; histories with the two slow curves stay small.
func curvesFor(h int, r *hxlib.Rng) (cs []curveInfo, class string) {
	p224, p256, p384, p521 := curves[0], curves[1], curves[2], curves[3]
	k := 2 + h%3
	switch h % 8 {
	case 0, 4:
		for i := 0; i < k; i++ {
			cs = append(cs, p256)
		}
		return cs, "same"
	case 1:
		for i := 0; i < k; i++ {
			cs = append(cs, p224)
		}
		return cs, "same"
	case 2, 6:
		for i := 0; i < k; i++ {
			if (i+h/8)%2 == 0 {
				cs = append(cs, p256)
			} else {
				cs = append(cs, p224)
			}
		}
		return cs, "mixed"
	case 3:
		return []curveInfo{p384, p384}, "same"
	case 5:
		return []curveInfo{p256, p384, p224}, "mixed"
	default: // 7
		if (h/8)%2 == 0 {
			return []curveInfo{p521, p521}, "same"
		}
		return []curveInfo{p521, p256, p384}, "mixed"
	}
}

// schedule builds the event list: the core steps of every session in the
// given interleaving shape, extra evaluations of round 4 at later points, and
// a final sweep consuming every round-3 message again in memory and through
// bytes.
func schedule(shape string, ss []*hsess, r *hxlib.Rng, h int) []event {
	k := len(ss)
	core := func(i int) []event {
		return []event{{sess: i, act: "g1"}, {sess: i, act: "e2", x: r.Bool()}, {sess: i, act: "g3", x: r.Bool(), y: r.Bool()},
			{sess: i, act: "e4", x: r.Bool(), y: r.Bool()}}
	}
	var per [][]event
	for i := 0; i < k; i++ {
		per = append(per, core(i))
	}
	var evs []event
	switch shape {
	case "sequential":
		for i := 0; i < k; i++ {
			evs = append(evs, per[i]...)
		}
	case "round-robin":
		for rd := 0; rd < 4; rd++ {
			for i := 0; i < k; i++ {
				evs = append(evs, per[i][rd])
			}
		}
	case "round-robin-reversed":
		for rd := 0; rd < 4; rd++ {
			for i := k - 1; i >= 0; i-- {
				evs = append(evs, per[i][rd])
			}
		}
	case "garbler-batch": // rounds 1-2 session by session, the garbler answers all, the evaluators finish in reverse
		for i := 0; i < k; i++ {
			evs = append(evs, per[i][0], per[i][1])
		}
		for i := 0; i < k; i++ {
			evs = append(evs, per[i][2])
		}
		for i := k - 1; i >= 0; i-- {
			evs = append(evs, per[i][3])
		}
	default: // uniformly random merge; some sessions evaluate round 4 twice
		for i := 0; i < k; i++ {
			if r.Intn(3) == 0 && fastCurve(ss[i].ci) {
				per[i] = append(per[i], event{sess: i, act: "e4", x: r.Bool(), y: r.Bool()})
			}
		}
		pos := make([]int, k)
		for {
			left := 0
			for i := 0; i < k; i++ {
				left += len(per[i]) - pos[i]
			}
			if left == 0 {
				break
			}
			c := r.Intn(left)
			for i := 0; i < k; i++ {
				n := len(per[i]) - pos[i]
				if c < n {
					evs = append(evs, per[i][pos[i]])
					pos[i]++
					break
				}
				c -= n
			}
		}
	}
	evs = disturb(evs, ss, r, h)
	// final sweep: every session's round-3 message is consumed again after
	// every other step of the history (failed ones included)
	for i := 0; i < k; i++ {
		if fastCurve(ss[i].ci) {
			evs = append(evs, event{sess: i, act: "e4"}, event{sess: i, act: "e4", x: true, y: true})
		} else {
			last := per[i][3]
			evs = append(evs, event{sess: i, act: "e4", x: !last.x, y: !last.y})
		}
	}
	return evs
}

// ---------------------------------------------------------------- failing steps

// what round 3 draws: 32 bytes of garbling key, 16 bytes for R, then one
// 16-byte label per input wire; the offsets around the boundaries
var g3Boundaries = []int{0, 31, 32, 47, 48, 64, -17, -1} // negative: from the end

var extraFaults = []string{"g3-foreign-msg", "e4-foreign-msg", "e4-foreign-state", "e2-malformed", "g3-malformed", "e4-malformed"}

// indexOf returns the position of the undisturbed step `act` of session i.
func indexOf(evs []event, i int, act string) int {
	for p, e := range evs {
		if e.sess == i && e.act == act && e.dk == "" {
			return p
		}
	}
	return len(evs)
}

// disturb inserts FAILING steps into the core schedule of history h: in every
// history the random source fails once in round 1, once in round 2 and twice
// in round 3 (seeded uniform offset inside what the round draws, and one of
// the boundaries of what round 3 draws), plus two of the six foreign /
// malformed classes in rotation.  A failing step goes either right before the
// undisturbed step of the same round of its session (which is then the retry)
// or at a seeded later point; wherever it goes, steps of other sessions
// follow.  Nothing is inserted before the inputs of the step exist.
func disturb(evs []event, ss []*hsess, r *hxlib.Rng, h int) []event {
	k := len(ss)
	type ins struct {
		pos int
		ev  event
	}
	var all []ins
	// place: lo = first position at which every input of the step exists
	place := func(ev event, lo int) {
		own := indexOf(evs, ev.sess, ev.act)
		pos := own
		if own < lo || r.Intn(2) == 0 {
			pos = lo + r.Intn(len(evs)-lo+1)
		}
		all = append(all, ins{pos, ev})
	}
	after := func(i int, act string) int { return indexOf(evs, i, act) + 1 }
	max := func(a, b int) int {
		if a > b {
			return a
		}
		return b
	}
	rngOff := func(total, kind int) int {
		lim := total // offsets 0 .. total-1: the source fails before the round has all it draws
		if kind == 2 {
			lim = total - 16 // a short read must be followed by another read
		}
		if lim < 1 {
			lim = 1
		}
		return r.Intn(lim)
	}
	other := func(i int) int { return (i + 1 + r.Intn(k-1)) % k }

	// random source failures, every round that draws randomness
	i1, i2, i3, i3b := r.Intn(k), r.Intn(k), r.Intn(k), r.Intn(k)
	kd := r.Intn(3)
	place(event{sess: i1, act: "g1", dk: "r", kind: kd, off: rngOff(ss[i1].n1, kd)}, 0)
	kd = r.Intn(3)
	place(event{sess: i2, act: "e2", x: r.Bool(), dk: "r", kind: kd, off: rngOff(ss[i2].n2, kd)}, after(i2, "g1"))
	kd = r.Intn(3)
	place(event{sess: i3, act: "g3", x: r.Bool(), y: r.Bool(), dk: "r", kind: kd, off: rngOff(ss[i3].n3, kd)}, after(i3, "e2"))
	kd = r.Intn(3)
	bo := g3Boundaries[h%len(g3Boundaries)]
	if bo < 0 {
		bo += ss[i3b].n3
	}
	if kd == 2 && bo > ss[i3b].n3-16 {
		kd = 1
	}
	place(event{sess: i3b, act: "g3", x: r.Bool(), y: r.Bool(), dk: "r", kind: kd, off: bo}, after(i3b, "e2"))

	// foreign and malformed messages
	for c := 0; c < 2; c++ {
		i := r.Intn(k)
		j := other(i)
		d1, d2, d3, _, _ := docSizes(ss[i].ci)
		// A foreign value goes through bytes only between sessions of one curve: the step encodes with the
		// curve of ITS session (Encode* of a value of a wider curve is outside the encoders' domain:
		// writeFixedBigInt), and the model's trip through bytes is the one of the consuming session.
		// Bytes of another curve's message are the decoders' business (proto mode, mismatch_decode-*).
		same := ss[i].ci.name == ss[j].ci.name
		switch extraFaults[(h+3*c)%len(extraFaults)] {
		case "g3-foreign-msg":
			place(event{sess: i, act: "g3", x: r.Bool(), y: r.Bool() && same, dk: "f", src: j}, max(after(i, "g1"), after(j, "e2")))
		case "e4-foreign-msg":
			place(event{sess: i, act: "e4", x: r.Bool(), y: r.Bool() && same, dk: "f", src: j}, max(after(i, "e2"), after(j, "g3")))
		case "e4-foreign-state":
			place(event{sess: i, act: "e4", x: r.Bool() && same, y: r.Bool(), dk: "s", src: j}, max(after(i, "g3"), after(j, "e2")))
		case "e2-malformed":
			place(event{sess: i, act: "e2", x: true, dk: "u", mu: mutation(r, d1, h)}, after(i, "g1"))
		case "g3-malformed":
			place(event{sess: i, act: "g3", x: r.Bool(), y: true, dk: "u", mu: mutation(r, d2, h)}, after(i, "e2"))
		default:
			place(event{sess: i, act: "e4", x: r.Bool(), y: true, dk: "u", mu: mutation(r, d3, h)}, after(i, "g3"))
		}
	}
	sort.SliceStable(all, func(a, b int) bool { return all[a].pos < all[b].pos })
	var out []event
	n := 0
	for p := 0; p <= len(evs); p++ {
		for n < len(all) && all[n].pos == p {
			out = append(out, all[n].ev)
			n++
		}
		if p < len(evs) {
			out = append(out, evs[p])
		}
	}
	return out
}

// mutation picks what happens to an encoding in transit (classes in rotation):
// cut to 0, 1, 10 bytes, to one byte less than the documented length, to a
// seeded length (mod the length: see mutateBytes), or one extra byte (zero /
// seeded).
func mutation(r *hxlib.Rng, docLen, class int) int {
	switch class % 9 {
	case 8:
		return 2 * (docLen - 1)
	case 0:
		return 0
	case 1:
		return 2 * 1
	case 2:
		return 2 * 10
	case 3:
		return 2 * r.Intn(1<<20)
	case 4:
		return 2*0 + 1
	case 5:
		return 2*r.Intn(256) + 1
	default:
		return 2 * (1 + r.Intn(4096))
	}
}

// ---------------------------------------------------------------- running one history

// histKind: the names that differ between the hist mode and the env mode
// (counter prefix, prefix of the oracle signatures).
type histKind struct {
	pfx string // "hist_" | "env_"
	sig string // "c18-history" | "c18-env"
}

var plainHist = histKind{pfx: "hist_", sig: "c18-history"}

// runHistory executes the events on the real code, one after the other, and
// observes the whole process after every step: status of the step and deep
// hash of every live object of every session (the returned lines, compared
// with Proc.runD / Proc.runE of the model), payload immutability, isolation
// and digests (oracle).  envs == nil: every step runs in the environment of the
// process; otherwise step t runs under envs[t] (GOMAXPROCS, collector setting),
// restored after the step.
func runHistory(o *hxlib.Out, hk histKind, ss []*hsess, evs []event, envs []envSpec, detail0 func() map[string]any) []string {
	cur := -1
	detail := func() map[string]any {
		dt := detail0()
		if envs != nil && cur >= 0 && cur < len(envs) {
			dt["env_of_step"] = envs[cur].String()
		}
		return dt
	}

	var steps []string
	lastG3 := -1 // step index of the latest round 3 of any session
	lastG3Sess := -1
	reported := map[string]bool{}
	g3Since := map[int]int{} // step of a round 3 whose random source failed -> successful round 3 since
	for t, e := range evs {
		s := ss[e.sess]
		mm := map[bool]string{false: "memory", true: "bytes"}
		if e.dk == "" && e.act == "e4" {
			// class of the consumption: was a round 3 of ANOTHER session run after this message was produced?
			after := "own-round3-latest"
			if lastG3 > s.prodStep[slM3] && lastG3Sess != e.sess {
				after = "after-foreign-round3"
			}
			o.Count(hk.pfx + "e4_msg3-" + mm[e.y] + "_" + after)
			o.Count(hk.pfx + "e4_session-" + mm[e.x])
		}
		if e.dk == "" && e.act == "g3" {
			o.Count(hk.pfx + "g3_session-" + mm[e.x] + "_msg2-" + mm[e.y])
		}
		if e.dk == "" && e.act == "e2" {
			o.Count(hk.pfx + "e2_msg1-" + mm[e.x])
		}
		cur = t
		var status, msg string
		if envs != nil {
			envs[t].around(func() { status, msg = s.exec(e, t, ss) })
		} else {
			status, msg = s.exec(e, t, ss)
		}
		if e.dk == "" && e.act == "g3" && status == "ok" {
			lastG3, lastG3Sess = t, e.sess
			for f := range g3Since {
				g3Since[f]++
				if g3Since[f] == 2 {
					o.Count(hk.pfx + "fault_g3_rng_then-two-round3")
				}
			}
		}
		if e.dk != "" {
			// classes of the failing steps
			class := e.act + "_" + map[string]string{"r": "rng", "f": "foreign-msg", "s": "foreign-state", "u": "malformed"}[e.dk]
			o.Count(hk.pfx + "fault_" + class + "_" + status)
			if e.dk == "r" {
				o.Count(fmt.Sprintf(hk.pfx+"fault_rng_kind%d", e.kind))
				if e.act == "g3" {
					region := "labels"
					if e.off < 32 {
						region = "key"
					} else if e.off < 48 {
						region = "r"
					}
					o.Count(hk.pfx + "fault_g3_rng_" + region)
					g3Since[t] = 0
				}
			}
			if e.dk == "u" {
				o.Count(hk.pfx + "fault_malformed_" + map[bool]string{true: "cut", false: "extended"}[e.mu%2 == 0])
			}
			own := indexOf(evs, e.sess, e.act)
			if own > t && own < len(evs) {
				o.Count(hk.pfx + "fault_before-own-step")
			} else {
				o.Count(hk.pfx + "fault_after-own-step")
			}
			for _, later := range evs[t+1:] {
				if later.sess != e.sess && later.dk == "" && later.act != "e4" {
					o.Count(hk.pfx + "fault_followed-by-round123-of-other-session")
					break
				}
			}
			for _, later := range evs[t+1:] {
				if later.sess != e.sess && later.dk == "" {
					o.Count(hk.pfx + "fault_followed-by-step-of-other-session")
					break
				}
			}
		}
		o.Count(hk.pfx + "steps")
		steps = append(steps, status+"/"+stateLine(ss))
		switch {
		case status == "panic":
			dt := detail()
			dt["step"] = t
			dt["event"] = e.String()
			dt["msg"] = msg
			dt["what"] = "step " + e.act + " crashes (disturbance " + e.dk + ")"
			failK(o, hk.sig+"-crash", dt)
		case e.dk == "" && status != "ok":
			dt := detail()
			dt["step"] = t
			dt["event"] = e.String()
			dt["status"] = status
			dt["msg"] = msg
			dt["what"] = "step " + e.act + " fails"
			failK(o, hk.sig+"-diverges", dt)
		case e.dk != "" && status != "err":
			dt := detail()
			dt["step"] = t
			dt["event"] = e.String()
			dt["status"] = status
			dt["what"] = "disturbed step " + e.act + " (" + e.dk + ") is not answered with an error"
			failK(o, hk.sig+"-fault-accepted", dt)
		}
		// payload immutability + isolation, judged on the real objects
		for j, q := range ss {
			for sl := 0; sl < nSlots; sl++ {
				if !q.has[sl] {
					continue
				}
				now := q.live(sl)
				key := fmt.Sprintf("%d.%d", j, sl)
				if now != q.prod[sl] && !reported[key] {
					reported[key] = true
					dt := detail()
					dt["step"] = t
					dt["event"] = e.String()
					dt["changed_session"] = j
					dt["changed_value"] = slotNames[sl]
					dt["produced_at_step"] = q.prodStep[sl]
					dt["hash_at_production"] = q.prod[sl]
					dt["hash_now"] = now
					rel := "own"
					if j != e.sess {
						rel = "other"
					}
					dt["what"] = slotNames[sl] + " of " + rel + " session changed by " + e.act
					if e.dk != "" {
						dt["what"] = slotNames[sl] + " of " + rel + " session changed by a FAILED " + e.act
					}
					failK(o, hk.sig+"-value-changed", dt)
				}
				if j == e.sess && e.dk == "" && q.prodStep[sl] == t && status == "ok" && now != q.ref[sl] {
					dt := detail()
					dt["step"] = t
					dt["event"] = e.String()
					dt["value"] = slotNames[sl]
					dt["hash_isolated_run"] = q.ref[sl]
					dt["hash_in_history"] = now
					dt["what"] = slotNames[sl] + " differs from the isolated run"
					failK(o, hk.sig+"-diverges", dt)
				}
			}
		}
		if e.act == "e4" && e.dk == "" && status == "ok" {
			if want := refDigest(s.a, s.b); s.out != want {
				dt := detail()
				dt["step"] = t
				dt["event"] = e.String()
				dt["got"] = hxlib.Hex(s.out[:])
				dt["want"] = hxlib.Hex(want[:])
				dt["what"] = "digest"
				failK(o, hk.sig+"-wrong-digest", dt)
			}
		}
	}
	return steps
}

// ---------------------------------------------------------------- the mode

func stateLine(ss []*hsess) string {
	var sb strings.Builder
	for i, s := range ss {
		if i > 0 {
			sb.WriteByte('|')
		}
		for sl := 0; sl < nSlots; sl++ {
			if sl > 0 {
				sb.WriteByte(',')
			}
			if s.has[sl] {
				sb.WriteString(s.live(sl))
			} else {
				sb.WriteByte('-')
			}
		}
	}
	return sb.String()
}

func histMode(args []string) int {
	var repo string
	cf, o := hxlib.ParseCommon("c18 hist", args, func(fs *flag.FlagSet) {
		fs.StringVar(&repo, "repo", "/repo", "repository tree")
	})
	defer o.Close()
	rng := hxlib.NewRng(cf.Seed)
	circ, err := loadCircuit(repo)
	if err != nil {
		failK(o, "c18-harness", map[string]any{"err": err.Error()})
		return 0
	}
	// the circuit for the `ceval` lines (Lean Circuit.compute)
	o.Op("cfull "+hxlib.CircLine(circ), fmt.Sprintf("cfull gates=%d wf=1 outdef=1", len(circ.Gates)))

	// Whether memory a library pools (sync.Pool) is handed out again depends on
	// when the collector runs and on which P the goroutine is scheduled.  A
	// history runs on one P with the collector off, so what the process does
	// is a function of the schedule alone (and a history replays exactly); the
	// collector runs between histories.
	defer debug.SetGCPercent(debug.SetGCPercent(-1))
	defer runtime.GOMAXPROCS(runtime.GOMAXPROCS(1))

	for h := 0; h < cf.N; h++ {
		r := rng.Fork()
		if cf.Only >= 0 && h != cf.Only {
			continue
		}
		runtime.GC()
		cs, cclass := curvesFor(h+int(cf.Seed%8), r)
		k := len(cs)
		shape := schedShapes[(h+int(cf.Seed/8))%len(schedShapes)]
		var ss []*hsess
		for i := 0; i < k; i++ {
			a, b := inputPair(r, h+i)
			ss = append(ss, &hsess{ci: cs[i], a: a, b: b, s1: r.U64(), s2: r.U64(), s3: r.U64()})
		}
		var names, inputs, tapes, sched []string
		for _, s := range ss {
			names = append(names, s.ci.name)
			inputs = append(inputs, hxlib.Hex(s.a[:])+"/"+hxlib.Hex(s.b[:]))
			tapes = append(tapes, fmt.Sprintf("%d/%d/%d", s.s1, s.s2, s.s3))
		}
		detail := func() map[string]any {
			return map[string]any{"history": h, "sessions": k, "curves": strings.Join(names, ","), "shape": shape,
				"schedule": strings.Join(sched, ","), "inputs_a/b": strings.Join(inputs, " "), "tapes": strings.Join(tapes, " "),
				"rerun": fmt.Sprintf("go run -tags verif ./cmd/c18 hist -repo %s -seed %d -n %d -tier %s -only %d", repo, cf.Seed, cf.N, cf.Tier, h)}
		}
		// the isolated runs (reference values = the model's round functions; how many bytes each round draws)
		bad := false
		for i, s := range ss {
			if err := s.refRun(); err != nil {
				dt := detail()
				dt["session"] = i
				dt["err"] = err.Error()
				dt["what"] = "isolated run"
				failK(o, "c18-session-error", dt)
				bad = true
			}
		}
		if bad {
			continue
		}
		evs := schedule(shape, ss, r, h+int(cf.Seed%24))
		for _, e := range evs {
			sched = append(sched, e.String())
		}
		o.Count(fmt.Sprintf("hist_k%d", k))
		o.Count("hist_curves_" + cclass)
		o.Count("hist_shape_" + shape)
		for _, s := range ss {
			o.Count("hist_sessions_" + s.ci.name)
		}

		var refs []string
		for _, s := range ss {
			refs = append(refs, strings.Join(s.ref[:], ","))
		}
		steps := runHistory(o, plainHist, ss, evs, nil, detail)
		o.Op(fmt.Sprintf("hist %d %s %s", k, strings.Join(refs, "|"), strings.Join(sched, ",")), "hist "+strings.Join(steps, ";"))
		// the digests obtained inside the history against the Lean evaluator
		for _, s := range ss {
			res := "no-digest"
			if s.has[slOut] {
				res = hxlib.Hex(s.out[:])
			}
			o.Op(fmt.Sprintf("ceval %s %s", hxlib.Hex(s.a[:]), hxlib.Hex(s.b[:])), res)
		}
	}
	o.Meta["cases"] = cf.N
	return 0
}

package main

// Back-end tie of C03 (T4 style): for generated programs, the gate list the
// REAL ssa.Program.Circuit emits for the program's SSA step list (cc.Gates
// BEFORE ConstPropagate / ShortCircuitXORZero / Prune / Compile, obtained by
// replaying ssa.Program.CompileCircuit with exported API only) must equal,
// gate for gate, the gate list of the Lean model `ssaCompile` of
// lean/MpcVerif/Model/SsaCircuit.lean on the dumped step list, under
// first-occurrence wire numbering (harness/cmd/c07 uses the same numbering for
// single builders).  Theorem C03_backend_correct (Props/C03Backend.lean) says
// the model's gate list computes ssaEval of the step list on every input; the
// optimisation passes are C09's subject.
//
//	c03 backend -seed S -n N -tier T -ops F -out F -meta F
//
// op line:     c03 BACKEND <gmw 0|1> <maxgates> ( SSA ( IN ( id bits )* ) step* )
// result line: G <nIn> <gates> <outs>         gates = <op><a>.<b>.<o> joined by ';'
//              G #<ngates> <checksum> <outs>  more than <maxgates> gates
//              G -                            Program.Circuit failed, or its gate
//                                             list is not in definition order (a
//                                             wire is read before the gate
//                                             driving it, or never driven)
//
// The Lean driver prints S / U:<reason> in place of G (inside / outside the
// hypothesis of the theorem); checks/C03.py strips and counts the tag.

import (
	"flag"
	"fmt"
	"os"
	"path/filepath"
	"strings"

	"github.com/markkurossi/mpc/circuit"
	"github.com/markkurossi/mpc/compiler"
	"github.com/markkurossi/mpc/compiler/circuits"
	"github.com/markkurossi/mpc/compiler/utils"

	"verifharness/hxlib"
)

type backendGate struct {
	op      circuit.Operation
	a, b, o int
}

type backendDump struct {
	nIn      int
	gates    []backendGate
	outs     []int
	straight bool
	err      string
}

// backendGates replays ssa.Program.CompileCircuit up to (not including) the
// optimisation passes and numbers the wires of cc.Gates canonically: input
// wires 0..nIn-1 (prog.InputWires order), every other wire at its first
// occurrence (A, B, O order), then the output wires.
func backendGates(src string, gmw bool) (sx string, ops map[string]int, reordered int, res backendDump) {
	defer func() {
		if e := recover(); e != nil {
			res.err = "panic: " + clip(fmt.Sprint(e), 200)
		}
	}()
	params := utils.NewParams()
	defer params.Close()
	if gmw {
		params.Target = utils.TargetGMW
	}
	prog, _, err := compiler.New(params).CompileSSA("{data}", strings.NewReader(src), nil)
	if err != nil {
		res.err = "ssa: " + clip(err.Error(), 200)
		return
	}
	d := &ssaDumper{ids: map[string]int{}, prog: prog, ops: map[string]int{}}
	sx, err = d.dump()
	ops = d.ops
	reordered = d.reordered
	if err != nil {
		sx = ""
		res.err = "dump: " + clip(err.Error(), 200)
		return
	}
	calloc := circuits.NewAllocator()
	cc, err := circuits.NewCompiler(params, calloc, prog.Inputs, prog.Outputs, prog.InputWires, prog.OutputWires)
	if err != nil {
		res.err = "error: " + clip(err.Error(), 200)
		return
	}
	if err := prog.DefineConstants(cc.ZeroWire(), cc.OneWire()); err != nil {
		res.err = "error: " + clip(err.Error(), 200)
		return
	}
	if err := prog.Circuit(cc); err != nil {
		res.err = "error: " + clip(err.Error(), 200)
		return
	}
	num := make(map[*circuits.Wire]int, len(cc.Gates)+len(cc.InputWires))
	for i, w := range cc.InputWires {
		num[w] = i
	}
	res.nIn = len(cc.InputWires)
	id := func(p *circuits.Wire) int {
		n, ok := num[p]
		if !ok {
			n = len(num)
			num[p] = n
		}
		return n
	}
	res.gates = make([]backendGate, 0, len(cc.Gates))
	res.straight = true
	for k, g := range cc.Gates {
		bg := backendGate{op: g.Op}
		bg.a = id(g.A)
		if g.Op != circuit.INV {
			bg.b = id(g.B)
		}
		bg.o = id(g.O)
		if bg.o != res.nIn+k || bg.a >= bg.o || bg.b >= bg.o {
			res.straight = false
		}
		res.gates = append(res.gates, bg)
	}
	for _, w := range cc.OutputWires {
		o, ok := num[w]
		if !ok {
			res.straight = false
			o = id(w)
		}
		res.outs = append(res.outs, o)
	}
	return
}

func backendOpCode(op circuit.Operation) uint64 {
	switch op {
	case circuit.XOR:
		return 0
	case circuit.XNOR:
		return 1
	case circuit.AND:
		return 2
	case circuit.OR:
		return 3
	}
	return 4
}

// backendSum: two polynomial hashes modulo 2^31-1 (lean/Driver/C03Backend.lean gateSum).
func backendSum(gs []backendGate) string {
	const p = 2147483647
	sum := func(m uint64) uint64 {
		h := uint64(7)
		for _, g := range gs {
			h = (h*m + backendOpCode(g.op)) % p
			h = (h*m + uint64(g.a)) % p
			h = (h*m + uint64(g.b)) % p
			h = (h*m + uint64(g.o)) % p
		}
		return h
	}
	return fmt.Sprintf("%d.%d", sum(1000003), sum(998244353))
}

func (b *backendDump) line(maxGates int) string {
	if b.err != "" || !b.straight {
		return "G -"
	}
	var sb strings.Builder
	var outs strings.Builder
	for i, o := range b.outs {
		if i > 0 {
			outs.WriteByte(',')
		}
		fmt.Fprintf(&outs, "%d", o)
	}
	if len(b.gates) > maxGates {
		return fmt.Sprintf("G #%d %s %s", len(b.gates), backendSum(b.gates), outs.String())
	}
	fmt.Fprintf(&sb, "G %d ", b.nIn)
	if len(b.gates) == 0 {
		sb.WriteByte('-')
	}
	for i, g := range b.gates {
		if i > 0 {
			sb.WriteByte(';')
		}
		fmt.Fprintf(&sb, "%s%d.%d.%d", hxlib.OpLetter[g.op], g.a, g.b, g.o)
	}
	sb.WriteByte(' ')
	sb.WriteString(outs.String())
	return sb.String()
}

func backendCase(o *hxlib.Out, name, src string, gmw bool, maxGates int) {
	sx, ops, reordered, res := backendGates(src, gmw)
	o.Count("programs")
	t := "yao"
	g := "0"
	if gmw {
		t, g = "gmw", "1"
	}
	o.Count("programs_" + t)
	if sx == "" {
		// no SSA / not serialisable (same reasons as the SSA-level tie): nothing to compare
		reason := strings.Fields(res.err)
		o.Count("skip_" + strings.Join(reason[:hxlib.MinInt(3, len(reason))], "_"))
		o.Count("skipped")
		return
	}
	if reordered > 0 {
		// the dump is a topological re-ordering of the real step list: the real
		// gate order follows the real step order (and is not in definition order)
		o.Count("skipped")
		o.Count("skip_use_before_def")
		return
	}
	for k, n := range ops {
		o.CountN("op_"+t+"_"+k, n)
	}
	line := res.line(maxGates)
	switch {
	case res.err != "":
		o.Count("circuit_failed")
	case !res.straight:
		o.Count("not_definition_order")
	default:
		o.Count("compared")
		o.CountN("gates", len(res.gates))
		if len(res.gates) > maxGates {
			o.Count("compared_by_checksum")
		}
	}
	_ = name
	o.Op("c03 BACKEND "+g+" "+fmt.Sprint(maxGates)+" "+sx, line)
}

func modeBackend(args []string) {
	var file string
	var gmwOnly bool
	cf, o := hxlib.ParseCommon("backend", args, func(fs *flag.FlagSet) {
		fs.StringVar(&file, "file", "", "compare one MPCL source file (replay helper)")
		fs.BoolVar(&gmwOnly, "gmw", false, "with -file: GMW target")
	})
	defer o.Close()
	maxGates := 40000
	if file != "" {
		b, err := os.ReadFile(file)
		if err != nil {
			fmt.Fprintln(realStdout, "read-error", err)
			os.Exit(2)
		}
		backendCase(o, file, string(b), gmwOnly, 1<<30)
		return
	}
	root := hxlib.NewRng(cf.Seed ^ 0xbac0e11d)
	repo := os.Getenv("MPCLDIR")
	idx := 0
	only := func() bool {
		idx++
		return cf.Only < 0 || cf.Only == idx-1
	}
	// the fixed witness / shipped programs, both targets
	for _, w := range witnesses {
		src := w.src
		if w.file != "" {
			b, err := os.ReadFile(filepath.Join(repo, w.file))
			if err != nil {
				continue
			}
			src = string(b)
		}
		for k, gmw := range []bool{false, true} {
			// the GMW (Goldschmidt) dividers have millions of gates at 64 bits:
			// a seed-dependent quarter of them in the quick tier
			heavy := gmw && (strings.Contains(src, "/") || strings.Contains(src, "%"))
			if heavy && cf.Tier != "thorough" && (uint64(idx+k)+cf.Seed)%4 != 0 {
				idx++
				o.Count("quick_tier_left_out_gmw_divider_programs")
				continue
			}
			if only() {
				backendCase(o, w.name, src, gmw, maxGates)
			}
		}
	}
	// operator x width grid (every multiplier / adder / comparator / divider
	// algorithm at large and odd widths): a seed-dependent third in the quick tier
	grid := gridPrograms()
	for i, g := range grid {
		r := root.Fork()
		if cf.Tier != "thorough" && (uint64(i)+cf.Seed)%3 != 0 {
			continue
		}
		gmw := r.Intn(3) == 0
		maxDivW := 33
		if cf.Tier == "thorough" {
			maxDivW = 65
		}
		if gmw && g.nz >= 0 && g.p.Main().Params[0].T.W > maxDivW {
			// GMW (Goldschmidt) divider: 9.4M gates at 101 bits
			gmw = false
			o.Count("gmw_divider_grid_programs_run_on_yao")
		}
		if only() {
			backendCase(o, g.name, g.p.Src(), gmw, maxGates)
		}
	}
	// generated programs
	for i := 0; i < cf.N; i++ {
		r := root.Fork()
		opts := genOpts{maxStmts: 5, maxDepth: 3}
		if r.Intn(2) == 0 {
			opts.small = true
			opts.maxIn = 12
		}
		if r.Intn(5) == 0 {
			opts.maxStmts = 8
		}
		gmw := r.Intn(4) == 0
		p := genProgram(r, opts)
		src := p.Src()
		if gmw && cf.Tier != "thorough" && (strings.Contains(src, "/") || strings.Contains(src, "%")) && r.Intn(4) != 0 {
			gmw = false
		}
		if only() {
			backendCase(o, fmt.Sprintf("gen-%d", i), src, gmw, maxGates)
		}
	}
}

package main

// c03 grid: operator x width grid.  Builder algorithms are width dependent
// (Karatsuba / array multiplier thresholds of circ_multiplier_params.go,
// dividers, adders, comparators, shifts), and the random generator keeps most
// widths small; the grid compiles, for every width of a fixed list that
// includes odd widths and the multiplier threshold boundaries, small programs
// whose operands are BOTH run-time values and evaluates them on boundary-biased
// and random inputs (no exhaustive evaluation at these widths).  Every
// (operator, width) cell reached is counted (`cell_<op>_w<width>`), and
// checks/C03.py obliges the full list.

import (
	"flag"
	"fmt"
	"math/big"
	"os"
	"strings"

	"verifharness/hxlib"
)

// widths of the arithmetic/comparison/shift programs: odd widths, powers of two
// and their neighbours, and both sides of every multiplier threshold boundary
// below 130 (15|16, 21|22, 36|37, 39|40, 41|42, 70|71, 79|80, 81|82)
var gridWidths = []int{15, 16, 17, 21, 22, 23, 31, 32, 33, 36, 37, 39, 40, 41, 42, 46, 50, 63, 64, 65, 70, 71,
	79, 80, 81, 82, 101, 127, 129, 130}

// widths of the divider programs (no thresholds there; odd, 2^k +- 1, large)
var gridDivWidths = []int{17, 23, 31, 33, 46, 63, 65, 101, 127}

func gv(name string, t *Ty) *Expr { return &Expr{K: "var", X: name, T: t} }
func gbin(op string, t *Ty, a, b *Expr) *Expr {
	return &Expr{K: "bin", X: op, T: t, A: a, B: b}
}
func gsh(left bool, a *Expr, k int) *Expr {
	return &Expr{K: "shift", Left: left, A: a, Sh: k, T: a.T}
}

type gridProg struct {
	name  string
	p     *Program
	cells []string
	nz    int // argument that must not be zero, -1
}

func gridMain(t *Ty, rets []*Expr) *Program {
	var rts []*Ty
	for _, e := range rets {
		rts = append(rts, e.T)
	}
	f := &Func{Name: "main", Index: 0, Params: []Param{{"a", t}, {"b", t}}, Results: rts,
		Body: []*Stmt{{K: "ret", Es: rets}}}
	return &Program{Funcs: []*Func{f}, Tags: map[string]bool{}}
}

func gridPrograms() []gridProg {
	var out []gridProg
	for _, w := range gridWidths {
		t := tUint(w)
		a, b := gv("a", t), gv("b", t)
		rets := []*Expr{gbin("mul", t, a, b), gbin("add", t, a, b), gbin("sub", t, a, b)}
		cells := []string{"mul", "add", "sub"}
		for _, op := range []string{"lt", "le", "gt", "ge", "eq", "ne"} {
			rets = append(rets, gbin(op, tyBool, a, b))
			cells = append(cells, "u"+op)
		}
		rets = append(rets, gsh(true, a, 1), gsh(true, a, w/2), gsh(false, a, 1), gsh(false, a, w-1))
		cells = append(cells, "shl", "ushr")
		out = append(out, gridProg{fmt.Sprintf("grid-u%d", w), gridMain(t, rets), cells, -1})
	}
	for _, w := range gridDivWidths {
		tu, ts := tUint(w), tInt(w)
		a, b := gv("a", tu), gv("b", tu)
		out = append(out, gridProg{fmt.Sprintf("grid-udiv%d", w),
			gridMain(tu, []*Expr{gbin("div", tu, a, b), gbin("mod", tu, a, b)}), []string{"udiv", "umod"}, 1})
		sa, sb := gv("a", ts), gv("b", ts)
		rets := []*Expr{gbin("div", ts, sa, sb), gbin("mod", ts, sa, sb), gbin("mul", ts, sa, sb)}
		cells := []string{"sdiv", "smod", "smul"}
		for _, op := range []string{"lt", "le", "gt", "ge"} {
			rets = append(rets, gbin(op, tyBool, sa, sb))
			cells = append(cells, "s"+op)
		}
		rets = append(rets, gsh(false, sa, 1), gsh(false, sa, w-1), gsh(false, sa, w/2))
		cells = append(cells, "sshr")
		out = append(out, gridProg{fmt.Sprintf("grid-s%d", w), gridMain(ts, rets), cells, 1})
	}
	return out
}

// gridCells lists every (operator, width) cell of the grid (for -cells).
func gridCells() []string {
	var cs []string
	for _, g := range gridPrograms() {
		w := g.p.Main().Params[0].T.W
		for _, c := range g.cells {
			cs = append(cs, fmt.Sprintf("cell_%s_w%d", c, w))
		}
	}
	return cs
}

func modeGrid(args []string) {
	var srcs, ssaPath string
	var listCells bool
	cf, o := hxlib.ParseCommon("grid", args, func(fs *flag.FlagSet) {
		fs.StringVar(&srcs, "srcs", "", "sidecar file")
		fs.StringVar(&ssaPath, "ssaops", "", "SSA-level op lines (one per case)")
		fs.BoolVar(&listCells, "cells", false, "print the cell list and exit")
	})
	defer o.Close()
	if listCells {
		fmt.Fprintln(realStdout, strings.Join(gridCells(), " "))
		return
	}
	defer openSSAOps(ssaPath)()
	sc := &sidecar{}
	if srcs != "" {
		sc.f, _ = os.Create(srcs)
		defer sc.f.Close()
	}
	root := hxlib.NewRng(cf.Seed)
	nb := 40
	if cf.Tier == "thorough" {
		nb = 160
	}
	for i, g := range gridPrograms() {
		r := root.Fork()
		if cf.Only >= 0 && i != cf.Only {
			continue
		}
		t := g.p.Main().Params[0].T
		w := t.W
		all := new(big.Int).Sub(new(big.Int).Lsh(big.NewInt(1), uint(w)), big.NewInt(1))
		var tuples [][]*big.Int
		var parts []string
		for k := 0; k < nb; k++ {
			var tup []*big.Int
			for j := 0; j < 2; j++ {
				var v *big.Int
				if k%2 == 0 {
					v = boundary(r, w)
				} else {
					v = new(big.Int).SetBytes(r.Bytes((w+7)/8 + 1))
					v.And(v, all)
				}
				if j == g.nz && v.Sign() == 0 {
					v = big.NewInt(int64(1 + r.Intn(9)))
				}
				tup = append(tup, v)
			}
			tuples = append(tuples, tup)
			parts = append(parts, tup[0].Text(16)+","+tup[1].Text(16))
		}
		var tags []string
		for _, c := range g.cells {
			tags = append(tags, fmt.Sprintf("grid_%s_w%d", c, w))
		}
		before := o.Counters["compile_failed"]
		runCase(o, sc, i, g.name, g.p.Src(), g.p.Sx(), "", tags, strings.Join(parts, ";"), tuples, false)
		if o.Counters["compile_failed"] == before {
			for _, c := range g.cells {
				o.Count(fmt.Sprintf("cell_%s_w%d", c, w))
			}
		}
	}
}

package main

// SSA-level tie of C03: the real compiler's SSA step list (ssa.Program.Steps
// after pkg.Compile, i.e. after peephole and GC) of the very program that is
// lowered to the circuit, serialised for the Lean SSA evaluator
// (lean/MpcVerif/Model/MpclSsa.lean, `ssaEval`).
//
//	( SSA ( IN ( id bits )* ) step* )
//	step ::= ( op ( arg* ) out )          out ::= ( id bits ) | -
//	arg  ::= ( v id bits )                a computed value
//	       | ( c valhex own alloc s|u bits )   an integer constant used as wires:
//	               value bits, the constant's own size (mpa TypeSize), the size of
//	               the instance that allocated the shared wires (0: never
//	               registered), signedness and size of THIS use
//	       | ( p hex bits )               any other constant (bool, zero arrays ...)
//	       | ( k n )                      a compile-time integer (shift count, bounds, element size)
//
// The constant-to-wires rule itself (ssa.Program.DefineConstants + the
// re-sizing in Program.Circuit) is modelled in Lean, not computed here.

import (
	"crypto/sha256"
	"fmt"
	"math/big"
	"strings"

	"github.com/markkurossi/mpc/circuit"
	"github.com/markkurossi/mpc/compiler"
	"github.com/markkurossi/mpc/compiler/mpa"
	"github.com/markkurossi/mpc/compiler/ssa"
	"github.com/markkurossi/mpc/compiler/utils"
	"github.com/markkurossi/mpc/types"
)

type ssaDumper struct {
	ids       map[string]int
	prog      *ssa.Program
	sb        strings.Builder
	ops       map[string]int
	reordered int
}

func (d *ssaDumper) id(v ssa.Value) int {
	k := fmt.Sprintf("%s@%d#%d", v.Name, v.Scope, v.Version)
	n, ok := d.ids[k]
	if !ok {
		n = len(d.ids)
		d.ids[k] = n
	}
	return n
}

func bitsOf(v ssa.Value, n int) *big.Int {
	r := new(big.Int)
	for i := 0; i < n; i++ {
		if v.Bit(types.Size(i)) {
			r.SetBit(r, i, 1)
		}
	}
	return r
}

func (d *ssaDumper) arg(v ssa.Value) (string, error) {
	if !v.Type.Concrete() {
		return "", fmt.Errorf("non-concrete operand")
	}
	switch v.Type.Type {
	case types.TBool, types.TInt, types.TUint, types.TArray, types.TStruct:
	default:
		return "", fmt.Errorf("operand type %s", v.Type.Type)
	}
	bits := int(v.Type.Bits)
	if !v.Const {
		return fmt.Sprintf("( v %d %d )", d.id(v), bits), nil
	}
	if mi, ok := v.ConstValue.(*mpa.Int); ok {
		alloc := 0
		if inst, ok := d.prog.Constants[v.Name]; ok {
			alloc = int(inst.Const.Type.Bits)
		}
		s := "u"
		if v.Type.Type == types.TInt {
			s = "s"
		}
		own := mi.TypeSize()
		n := bits
		if own > n {
			n = own
		}
		return fmt.Sprintf("( c %s %d %d %s %d )", bitsOf(v, n).Text(16), own, alloc, s, bits), nil
	}
	if _, ok := d.prog.Constants[v.Name]; !ok {
		return "", fmt.Errorf("unregistered non-integer constant")
	}
	return fmt.Sprintf("( p %s %d )", bitsOf(v, bits).Text(16), bits), nil
}

func (d *ssaDumper) konst(v ssa.Value) (string, error) {
	n, err := v.ConstInt()
	if err != nil {
		return "", err
	}
	if n < 0 {
		return "", fmt.Errorf("negative compile-time integer")
	}
	return fmt.Sprintf("( k %d )", n), nil
}

// positions of compile-time integer operands per opcode
var konstPos = map[ssa.Operand][]int{
	ssa.Lshift: {1}, ssa.Rshift: {1}, ssa.Srshift: {1}, ssa.Slice: {1, 2}, ssa.Amov: {2, 3}, ssa.Index: {1},
}

var ssaSupported = map[ssa.Operand]bool{
	ssa.Iadd: true, ssa.Uadd: true, ssa.Isub: true, ssa.Usub: true, ssa.Bor: true, ssa.Bxor: true, ssa.Band: true,
	ssa.Bclr: true, ssa.Imult: true, ssa.Umult: true, ssa.Idiv: true, ssa.Udiv: true, ssa.Imod: true, ssa.Umod: true,
	ssa.Concat: true, ssa.Lshift: true, ssa.Rshift: true, ssa.Srshift: true, ssa.Slice: true, ssa.Index: true,
	ssa.Ilt: true, ssa.Ult: true, ssa.Ile: true, ssa.Ule: true, ssa.Igt: true, ssa.Ugt: true, ssa.Ige: true,
	ssa.Uge: true, ssa.Eq: true, ssa.Neq: true, ssa.And: true, ssa.Or: true, ssa.Not: true, ssa.Mov: true,
	ssa.Smov: true, ssa.Amov: true, ssa.Phi: true, ssa.Ret: true, ssa.GC: true,
}

func (d *ssaDumper) dump() (string, error) {
	d.sb.WriteString("( SSA ( IN")
	for _, arg := range d.prog.Inputs {
		v := ssa.Value{Name: arg.Name, Scope: 1, Type: arg.Type}
		fmt.Fprintf(&d.sb, " ( %d %d )", d.id(v), arg.Type.Bits)
	}
	d.sb.WriteString(" )")
	// Program.Circuit is a dataflow lowering (values are wire objects), so a
	// step may use a value that a LATER step defines (a phi resolved lazily in a
	// block that is serialised later).  The sequential Lean evaluator gets the
	// steps in a stable topological order; `reordered` counts the moved steps.
	defined := map[int]bool{}
	for _, arg := range d.prog.Inputs {
		defined[d.id(ssa.Value{Name: arg.Name, Scope: 1, Type: arg.Type})] = true
	}
	type pending struct {
		text  string
		needs []int
		out   int
	}
	var waiting []pending
	emit := func(p pending) {
		d.sb.WriteString(p.text)
		if p.out >= 0 {
			defined[p.out] = true
		}
	}
	ready := func(p pending) bool {
		for _, n := range p.needs {
			if !defined[n] {
				return false
			}
		}
		return true
	}
	flush := func() {
		for progress := true; progress; {
			progress = false
			for i := 0; i < len(waiting); i++ {
				if ready(waiting[i]) {
					emit(waiting[i])
					waiting = append(waiting[:i], waiting[i+1:]...)
					progress = true
					i--
				}
			}
		}
	}
	for _, step := range d.prog.Steps {
		in := step.Instr
		name := in.Op.String()
		d.ops[name]++
		if !ssaSupported[in.Op] {
			return "", fmt.Errorf("opcode %s", name)
		}
		if in.Op == ssa.GC {
			continue
		}
		var sb strings.Builder
		p := pending{out: -1}
		fmt.Fprintf(&sb, " ( %s (", name)
		kp := konstPos[in.Op]
		for i, v := range in.In {
			isK := false
			for _, q := range kp {
				if q == i {
					isK = true
				}
			}
			var s string
			var err error
			if isK {
				s, err = d.konst(v)
			} else {
				s, err = d.arg(v)
				if !v.Const {
					p.needs = append(p.needs, d.id(v))
				}
			}
			if err != nil {
				return "", fmt.Errorf("%s: %v", name, err)
			}
			sb.WriteByte(' ')
			sb.WriteString(s)
		}
		if in.Op == ssa.Index {
			fmt.Fprintf(&sb, " ( k %d )", in.In[0].Type.ElementType.Bits)
		}
		sb.WriteString(" )")
		if in.Out != nil {
			if !in.Out.Type.Concrete() {
				return "", fmt.Errorf("%s: non-concrete result", name)
			}
			p.out = d.id(*in.Out)
			fmt.Fprintf(&sb, " ( %d %d ) )", p.out, in.Out.Type.Bits)
		} else {
			sb.WriteString(" - )")
		}
		p.text = sb.String()
		if in.Op != ssa.Ret && ready(p) && len(waiting) == 0 {
			emit(p)
			continue
		}
		if in.Op == ssa.Ret {
			flush()
			if !ready(p) || len(waiting) > 0 {
				return "", fmt.Errorf("undefined value reaches ret")
			}
			emit(p)
			continue
		}
		d.reordered++
		waiting = append(waiting, p)
		flush()
	}
	d.sb.WriteString(" )")
	return d.sb.String(), nil
}

func gateHash(c *circuit.Circuit) string {
	h := sha256.New()
	for _, g := range c.Gates {
		fmt.Fprintf(h, "%d %d %d %d\n", g.Op, g.Input0, g.Input1, g.Output)
	}
	return fmt.Sprintf("%d/%d/%x", c.NumGates, c.NumWires, h.Sum(nil)[:8])
}

// ssaOf compiles src to SSA with the same parameters as compileReal, lowers
// THAT program object to a circuit and checks that it is the circuit
// compiler.Compile delivered; returns the serialised SSA.
func ssaOf(src string, want *circuit.Circuit) (sx string, ops map[string]int, reordered int, err error) {
	defer func() {
		if e := recover(); e != nil {
			err = fmt.Errorf("panic: %v", e)
		}
	}()
	params := utils.NewParams()
	defer params.Close()
	prog, _, err := compiler.New(params).CompileSSA("{data}", strings.NewReader(src), nil)
	if err != nil {
		return "", nil, 0, err
	}
	d := &ssaDumper{ids: map[string]int{}, prog: prog, ops: map[string]int{}}
	sx, err = d.dump()
	if err != nil {
		return "", d.ops, 0, err
	}
	circ, err := prog.CompileCircuit(params)
	if err != nil {
		return "", d.ops, 0, fmt.Errorf("CompileCircuit: %v", err)
	}
	if gateHash(circ) != gateHash(want) {
		return "", d.ops, 0, fmt.Errorf("lowering the dumped program gives a different circuit")
	}
	return sx, d.ops, d.reordered, nil
}

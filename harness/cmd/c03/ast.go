package main

// Program AST of the C03 generator.  One AST, two renderings:
//   - Src():  MPCL source handed to the real compiler;
//   - Sx():   blank-separated S-expression tokens for the Lean reference
//             interpreter (lean/Driver/C03.lean documents the grammar).
// Surface sugar (`x += e`, `x++`, named results, typed literals `int8(3)`,
// bare loop variables) exists only in Src(); Sx() is the desugared form.

import (
	"fmt"
	"math/big"
	"strings"
)

type TyKind int

const (
	KBool TyKind = iota
	KInt
	KUint
	KArr
	KStruct
)

type Ty struct {
	K      TyKind
	W      int
	N      int
	Elem   *Ty
	Fields []*Ty
	Name   string // struct type name; arrays: name of a package-level `type Name [n]T` ("" = literal type)
}

var tyBool = &Ty{K: KBool}

func tInt(w int) *Ty  { return &Ty{K: KInt, W: w} }
func tUint(w int) *Ty { return &Ty{K: KUint, W: w} }
func tArr(n int, e *Ty) *Ty {
	return &Ty{K: KArr, N: n, Elem: e}
}

func (t *Ty) IsNum() bool    { return t.K == KInt || t.K == KUint }
func (t *Ty) IsScalar() bool { return t.K == KInt || t.K == KUint || t.K == KBool }
func (t *Ty) Signed() bool   { return t.K == KInt }

func (t *Ty) Bits() int {
	switch t.K {
	case KBool:
		return 1
	case KInt, KUint:
		return t.W
	case KArr:
		return t.N * t.Elem.Bits()
	default:
		n := 0
		for _, f := range t.Fields {
			n += f.Bits()
		}
		return n
	}
}

func (t *Ty) Eq(o *Ty) bool {
	if t.K != o.K {
		return false
	}
	switch t.K {
	case KBool:
		return true
	case KInt, KUint:
		return t.W == o.W
	case KArr:
		return t.N == o.N && t.Elem.Eq(o.Elem)
	default:
		return t.Name == o.Name
	}
}

func (t *Ty) Src() string {
	switch t.K {
	case KBool:
		return "bool"
	case KInt:
		return fmt.Sprintf("int%d", t.W)
	case KUint:
		return fmt.Sprintf("uint%d", t.W)
	case KArr:
		if t.Name != "" {
			return t.Name // package-level `type Name [n]T`
		}
		return fmt.Sprintf("[%d]%s", t.N, t.Elem.Src())
	default:
		return t.Name
	}
}

func (t *Ty) Sx() string {
	switch t.K {
	case KBool:
		return "b"
	case KInt:
		return fmt.Sprintf("i%d", t.W)
	case KUint:
		return fmt.Sprintf("u%d", t.W)
	case KArr:
		return fmt.Sprintf("( A %d %s )", t.N, t.Elem.Sx())
	default:
		var sb strings.Builder
		sb.WriteString("( S")
		for _, f := range t.Fields {
			sb.WriteByte(' ')
			sb.WriteString(f.Sx())
		}
		sb.WriteString(" )")
		return sb.String()
	}
}

// ---------------------------------------------------------------- expressions

type Expr struct {
	K     string // lit var ivar cvar bin shift not neg cast idx fld call (cvar: package-level constant)
	T     *Ty
	N     *big.Int // lit: wire pattern
	X     string   // var / ivar name; bin: operator
	A, B  *Expr
	Sh    int
	Left  bool
	Fi    int
	Fn    *Func
	Args  []*Expr
	Typed bool // lit / ivar: render as T(n) instead of n
}

var srcOp = map[string]string{
	"add": "+", "sub": "-", "mul": "*", "div": "/", "mod": "%", "and": "&", "or": "|", "xor": "^",
	"clr": "&^", "eq": "==", "ne": "!=", "lt": "<", "le": "<=", "gt": ">", "ge": ">=", "land": "&&", "lor": "||",
}

func (e *Expr) IsConst() bool { return e.K == "lit" || e.K == "ivar" || e.K == "cvar" }

func (e *Expr) Src() string {
	switch e.K {
	case "lit":
		var s string
		if e.T.K == KBool {
			if e.N.Sign() != 0 {
				return "true"
			}
			return "false"
		}
		if e.N.BitLen() > 8 && e.N.Bit(0) == 1 {
			s = "0x" + e.N.Text(16)
		} else {
			s = e.N.String()
		}
		if e.Typed {
			return e.T.Src() + "(" + s + ")"
		}
		return s
	case "var":
		return e.X
	case "ivar", "cvar":
		if e.Typed {
			return e.T.Src() + "(" + e.X + ")"
		}
		return e.X
	case "bin":
		return "(" + e.A.Src() + " " + srcOp[e.X] + " " + e.B.Src() + ")"
	case "shift":
		op := ">>"
		if e.Left {
			op = "<<"
		}
		return fmt.Sprintf("(%s %s %d)", e.A.Src(), op, e.Sh)
	case "not":
		return "!(" + e.A.Src() + ")"
	case "neg":
		return "-(" + e.A.Src() + ")"
	case "cast":
		return e.T.Src() + "(" + e.A.Src() + ")"
	case "idx":
		return e.A.Src() + "[" + e.B.Src() + "]"
	case "fld":
		return fmt.Sprintf("%s.f%d", e.A.Src(), e.Fi)
	case "call":
		var as []string
		for _, a := range e.Args {
			as = append(as, a.Src())
		}
		return e.Fn.Name + "(" + strings.Join(as, ", ") + ")"
	}
	panic("Expr.Src: " + e.K)
}

func (e *Expr) Sx() string {
	switch e.K {
	case "lit":
		return fmt.Sprintf("( L %s %s )", e.T.Sx(), e.N.String())
	case "var", "cvar":
		// a package-level constant is declared with the type it is used at
		return "( V " + e.X + " )"
	case "ivar":
		if e.T.K == KInt && e.T.W == 32 {
			return "( V " + e.X + " )"
		}
		return fmt.Sprintf("( C %s ( V %s ) )", e.T.Sx(), e.X)
	case "bin":
		return fmt.Sprintf("( B %s %s %s )", e.X, e.A.Sx(), e.B.Sx())
	case "shift":
		d := "r"
		if e.Left {
			d = "l"
		}
		return fmt.Sprintf("( SH %s %s %d )", d, e.A.Sx(), e.Sh)
	case "not":
		return "( N " + e.A.Sx() + " )"
	case "neg":
		return "( M " + e.A.Sx() + " )"
	case "cast":
		return fmt.Sprintf("( C %s %s )", e.T.Sx(), e.A.Sx())
	case "idx":
		return fmt.Sprintf("( I %s %s )", e.A.Sx(), e.B.Sx())
	case "fld":
		return fmt.Sprintf("( F %s %d )", e.A.Sx(), e.Fi)
	case "call":
		var sb strings.Builder
		fmt.Fprintf(&sb, "( K %d", e.Fn.Index)
		for _, a := range e.Args {
			sb.WriteByte(' ')
			sb.WriteString(a.Sx())
		}
		sb.WriteString(" )")
		return sb.String()
	}
	panic("Expr.Sx: " + e.K)
}

// ---------------------------------------------------------------- statements

type Acc struct {
	Idx *Expr // nil: field
	Fi  int
}

type LVal struct {
	X    string
	Path []Acc
	T    *Ty
}

func (l *LVal) Src() string {
	s := l.X
	for _, a := range l.Path {
		if a.Idx != nil {
			s += "[" + a.Idx.Src() + "]"
		} else {
			s += fmt.Sprintf(".f%d", a.Fi)
		}
	}
	return s
}

func (l *LVal) Sx() string {
	s := "( " + l.X
	for _, a := range l.Path {
		if a.Idx != nil {
			s += " ( i " + a.Idx.Sx() + " )"
		} else {
			s += fmt.Sprintf(" ( f %d )", a.Fi)
		}
	}
	return s + " )"
}

// AsExpr reads the l-value.
func (l *LVal) AsExpr(rootT *Ty) *Expr {
	e := &Expr{K: "var", X: l.X, T: rootT}
	for _, a := range l.Path {
		if a.Idx != nil {
			e = &Expr{K: "idx", A: e, B: a.Idx, T: e.T.Elem}
		} else {
			e = &Expr{K: "fld", A: e, Fi: a.Fi, T: e.T.Fields[a.Fi]}
		}
	}
	return e
}

type Stmt struct {
	K      string // decl define assign opassign incdec if for ret retnamed
	X      string
	T      *Ty
	E      *Expr
	Xs     []string
	LVs    []*LVal
	RootT  *Ty    // opassign / incdec: type of the root variable
	Op     string // opassign: operator name (add, sub, ..., shl, shr); incdec: add / sub
	Then   []*Stmt
	Else   []*Stmt
	ElseIf bool // Else is a single `if` statement rendered as `else if`
	// for
	Lo, Hi, Step int
	Cmp          string
	IncForm      int // 0: i++/i--  1: i = i + s  2: i += s
	Es           []*Expr
}

func indent(n int) string { return strings.Repeat("\t", n) }

func srcBlock(sb *strings.Builder, ss []*Stmt, ind int) {
	for _, s := range ss {
		s.src(sb, ind)
	}
}

func (s *Stmt) src(sb *strings.Builder, ind int) {
	in := indent(ind)
	switch s.K {
	case "decl":
		if s.E == nil {
			fmt.Fprintf(sb, "%svar %s %s\n", in, s.X, s.T.Src())
		} else {
			fmt.Fprintf(sb, "%svar %s %s = %s\n", in, s.X, s.T.Src(), s.E.Src())
		}
	case "define":
		fmt.Fprintf(sb, "%s%s := %s\n", in, strings.Join(s.Xs, ", "), s.E.Src())
	case "assign":
		var ls []string
		for _, l := range s.LVs {
			ls = append(ls, l.Src())
		}
		fmt.Fprintf(sb, "%s%s = %s\n", in, strings.Join(ls, ", "), s.E.Src())
	case "opassign":
		op := map[string]string{"add": "+=", "sub": "-=", "mul": "*=", "div": "/=", "or": "|=", "xor": "^=",
			"and": "&=", "shl": "<<=", "shr": ">>="}[s.Op]
		if s.Op == "shl" || s.Op == "shr" {
			fmt.Fprintf(sb, "%s%s %s %d\n", in, s.LVs[0].Src(), op, s.Lo)
		} else {
			fmt.Fprintf(sb, "%s%s %s %s\n", in, s.LVs[0].Src(), op, s.E.Src())
		}
	case "incdec":
		op := "++"
		if s.Op == "sub" {
			op = "--"
		}
		fmt.Fprintf(sb, "%s%s%s\n", in, s.LVs[0].Src(), op)
	case "if":
		fmt.Fprintf(sb, "%sif %s {\n", in, s.E.Src())
		srcBlock(sb, s.Then, ind+1)
		cur := s
		for cur.ElseIf {
			nx := cur.Else[0]
			fmt.Fprintf(sb, "%s} else if %s {\n", in, nx.E.Src())
			srcBlock(sb, nx.Then, ind+1)
			cur = nx
		}
		if len(cur.Else) > 0 {
			fmt.Fprintf(sb, "%s} else {\n", in)
			srcBlock(sb, cur.Else, ind+1)
		}
		fmt.Fprintf(sb, "%s}\n", in)
	case "for":
		var inc string
		abs := s.Step
		sign := "+"
		if abs < 0 {
			abs = -abs
			sign = "-"
		}
		switch {
		case s.IncForm == 0 && abs == 1:
			inc = s.X + sign + sign
		case s.IncForm == 1:
			inc = fmt.Sprintf("%s = %s %s %d", s.X, s.X, sign, abs)
		default:
			inc = fmt.Sprintf("%s %s= %d", s.X, sign, abs)
		}
		fmt.Fprintf(sb, "%sfor %s := %d; %s %s %d; %s {\n", in, s.X, s.Lo, s.X, srcOp[s.Cmp], s.Hi, inc)
		srcBlock(sb, s.Then, ind+1)
		fmt.Fprintf(sb, "%s}\n", in)
	case "ret":
		var es []string
		for _, e := range s.Es {
			es = append(es, e.Src())
		}
		fmt.Fprintf(sb, "%sreturn %s\n", in, strings.Join(es, ", "))
	case "retnamed":
		fmt.Fprintf(sb, "%sreturn\n", in)
	default:
		panic("Stmt.src: " + s.K)
	}
}

func sxBlock(ss []*Stmt) string {
	var sb strings.Builder
	sb.WriteString("(")
	for _, s := range ss {
		sb.WriteByte(' ')
		sb.WriteString(s.Sx())
	}
	sb.WriteString(" )")
	return sb.String()
}

func (s *Stmt) Sx() string {
	switch s.K {
	case "decl":
		if s.E == nil {
			return fmt.Sprintf("( D %s %s )", s.X, s.T.Sx())
		}
		return fmt.Sprintf("( D %s %s %s )", s.X, s.T.Sx(), s.E.Sx())
	case "define":
		return fmt.Sprintf("( DEF ( %s ) %s )", strings.Join(s.Xs, " "), s.E.Sx())
	case "assign":
		var ls []string
		for _, l := range s.LVs {
			ls = append(ls, l.Sx())
		}
		return fmt.Sprintf("( A ( %s ) %s )", strings.Join(ls, " "), s.E.Sx())
	case "opassign", "incdec":
		l := s.LVs[0]
		cur := l.AsExpr(s.RootT)
		var e *Expr
		switch s.Op {
		case "shl", "shr":
			e = &Expr{K: "shift", Left: s.Op == "shl", A: cur, Sh: s.Lo, T: cur.T}
		default:
			rhs := s.E
			if s.K == "incdec" {
				rhs = &Expr{K: "lit", T: cur.T, N: big.NewInt(1)}
			}
			e = &Expr{K: "bin", X: s.Op, A: cur, B: rhs, T: cur.T}
		}
		return fmt.Sprintf("( A ( %s ) %s )", l.Sx(), e.Sx())
	case "if":
		return fmt.Sprintf("( IF %s %s %s )", s.E.Sx(), sxBlock(s.Then), sxBlock(s.Else))
	case "for":
		return fmt.Sprintf("( FOR %s %d %s %d %d %s )", s.X, s.Lo, s.Cmp, s.Hi, s.Step, sxBlock(s.Then))
	case "ret":
		var sb strings.Builder
		sb.WriteString("( R")
		for _, e := range s.Es {
			sb.WriteByte(' ')
			sb.WriteString(e.Sx())
		}
		sb.WriteString(" )")
		return sb.String()
	case "retnamed":
		var sb strings.Builder
		sb.WriteString("( R")
		for _, x := range s.Xs {
			sb.WriteString(" ( V " + x + " )")
		}
		sb.WriteString(" )")
		return sb.String()
	}
	panic("Stmt.Sx: " + s.K)
}

// ---------------------------------------------------------------- functions, programs

type Param struct {
	Name string
	T    *Ty
}

type Func struct {
	Name    string
	Index   int
	Params  []Param
	Results []*Ty
	Named   []string // named results (then bare `return`), else nil
	Body    []*Stmt
}

func (f *Func) src(sb *strings.Builder) {
	var ps []string
	for _, p := range f.Params {
		ps = append(ps, p.Name+" "+p.T.Src())
	}
	var rs []string
	for i, r := range f.Results {
		if f.Named != nil {
			rs = append(rs, f.Named[i]+" "+r.Src())
		} else {
			rs = append(rs, r.Src())
		}
	}
	res := strings.Join(rs, ", ")
	if len(rs) > 1 || f.Named != nil {
		res = "(" + res + ")"
	}
	fmt.Fprintf(sb, "func %s(%s) %s {\n", f.Name, strings.Join(ps, ", "), res)
	srcBlock(sb, f.Body, 1)
	sb.WriteString("}\n")
}

func (f *Func) Sx() string {
	var sb strings.Builder
	fmt.Fprintf(&sb, "( FN %d (", len(f.Results))
	for _, p := range f.Params {
		fmt.Fprintf(&sb, " ( %s %s )", p.Name, p.T.Sx())
	}
	sb.WriteString(" ) (")
	// named results are ordinary zero-initialised variables
	for i, n := range f.Named {
		fmt.Fprintf(&sb, " ( D %s %s )", n, f.Results[i].Sx())
	}
	for _, s := range f.Body {
		sb.WriteByte(' ')
		sb.WriteString(s.Sx())
	}
	sb.WriteString(" ) )")
	return sb.String()
}

// Global is a package-level `var` / `const` declaration of package main.
type Global struct {
	Name     string
	T        *Ty      // untyped constants: the type of the contexts the generator uses it in
	Const    bool     // `const`
	Untyped  bool     // `const Name = n` (no type in the source)
	Init     *big.Int // nil: zero value (`var Name T`)
	MainOnly bool     // var referenced by main only (main may assign it)
	Last     bool     // declared after the functions in the source
}

func globalLit(t *Ty, n *big.Int) string {
	if t.K == KBool {
		if n.Sign() != 0 {
			return "true"
		}
		return "false"
	}
	if n.BitLen() > 8 && n.Bit(0) == 1 {
		return "0x" + n.Text(16)
	}
	return n.String()
}

func (gl *Global) Src() string {
	switch {
	case gl.Const && gl.Untyped:
		return fmt.Sprintf("const %s = %s\n", gl.Name, globalLit(gl.T, gl.Init))
	case gl.Const:
		return fmt.Sprintf("const %s %s = %s\n", gl.Name, gl.T.Src(), globalLit(gl.T, gl.Init))
	case gl.Init == nil:
		return fmt.Sprintf("var %s %s\n", gl.Name, gl.T.Src())
	}
	return fmt.Sprintf("var %s %s = %s\n", gl.Name, gl.T.Src(), globalLit(gl.T, gl.Init))
}

func (gl *Global) Sx() string {
	switch {
	case gl.Const:
		return fmt.Sprintf("( GC %s %s %s )", gl.Name, gl.T.Sx(), gl.Init.String())
	case gl.Init == nil:
		return fmt.Sprintf("( G %s %s )", gl.Name, gl.T.Sx())
	}
	return fmt.Sprintf("( G %s %s %s )", gl.Name, gl.T.Sx(), gl.Init.String())
}

type Program struct {
	Structs  []*Ty
	ArrTypes []*Ty     // package-level `type Name [n]T`
	Globals  []*Global // package-level var / const (empty: the program is serialised as before)
	Funcs    []*Func   // Funcs[len-1] is main
	Tags     map[string]bool
	Defect   string // known-defect probe class ("" for ordinary programs)
}

func (p *Program) Main() *Func { return p.Funcs[len(p.Funcs)-1] }

func (p *Program) Src() string {
	var sb strings.Builder
	sb.WriteString("package main\n\n")
	for _, s := range p.Structs {
		fmt.Fprintf(&sb, "type %s struct {\n", s.Name)
		for i, f := range s.Fields {
			fmt.Fprintf(&sb, "\tf%d %s\n", i, f.Src())
		}
		sb.WriteString("}\n\n")
	}
	for _, t := range p.ArrTypes {
		fmt.Fprintf(&sb, "type %s [%d]%s\n\n", t.Name, t.N, t.Elem.Src())
	}
	n := 0
	for _, gl := range p.Globals {
		if !gl.Last {
			sb.WriteString(gl.Src())
			n++
		}
	}
	if n > 0 {
		sb.WriteByte('\n')
	}
	// main first, helpers after (declaration order does not matter in MPCL)
	p.Main().src(&sb)
	for _, f := range p.Funcs[:len(p.Funcs)-1] {
		sb.WriteByte('\n')
		f.src(&sb)
	}
	for _, gl := range p.Globals {
		if gl.Last {
			sb.WriteByte('\n')
			sb.WriteString(gl.Src())
		}
	}
	return sb.String()
}

func (p *Program) Sx() string {
	var sb strings.Builder
	if len(p.Globals) > 0 {
		// ( PG main ( gdecl* ) func* ): lean/Driver/C03.lean, Model/MpclPkg.lean
		fmt.Fprintf(&sb, "( PG %d (", len(p.Funcs)-1)
		for _, gl := range p.Globals {
			sb.WriteByte(' ')
			sb.WriteString(gl.Sx())
		}
		sb.WriteString(" )")
		for _, f := range p.Funcs {
			sb.WriteByte(' ')
			sb.WriteString(f.Sx())
		}
		sb.WriteString(" )")
		return sb.String()
	}
	fmt.Fprintf(&sb, "( P %d", len(p.Funcs)-1)
	for _, f := range p.Funcs {
		sb.WriteByte(' ')
		sb.WriteString(f.Sx())
	}
	sb.WriteString(" )")
	return sb.String()
}

package main

// Typed random MPCL program generator for C03.  Every choice derives from
// the per-case Rng.  Only constructs whose meaning the documentation / the
// annotated test programs fix are produced; shapes on which the compiler is
// known to deviate are produced only in separately tagged probe programs
// (Program.Defect != "").  Of the classes below lit_signed_narrow,
// const_cast_shared, const_left_unsigned and named_result_zero are REPAIRED in
// /repo (see `repaired`): those shapes now occur in ordinary programs too.
//
//   lit_signed_narrow    intN (N < 32) operand against an untyped literal in
//                        / % < <= > >= (the literal is a 32-bit constant and
//                        the variable is zero- instead of sign-extended)
//   inner_shadow         `var x T` in an inner block re-declaring an outer x
//                        (MPCL has function-level scoping only)
//   cast_int_wider_uint  uintM(intN) with M > N (zero-extends)
//   const_cast_shared    T(c) with the top bit of the T-wide c set (e.g. uint2(3)):
//                        the shared constant `$c` gets T's width and a later
//                        plain `c` is sign-extended from it
//   const_signed_widening  T(c), T signed and wider than c's own 32/64-bit constant
//                        whose top bit is set (int40(0xffffffff)): sign-extended
//   const_left_unsigned  `c < x` (also <= > >=) with a literal on the left and x
//                        uintN, N >= 32: signed comparator
//   named_result_zero    a named result read before it is assigned (MPCL does
//                        not zero-initialise named results: undriven wires)
//
// genOpts.globals > 0 (mode `pkg`): the program also has package-level var /
// const / type declarations, used directly and shadowed by parameters and
// function-level locals (gen_pkg.go).  With globals == 0 no random draw and no
// output differs from the generator without that option.

import (
	"fmt"
	"math/big"
	"sort"
	"strings"

	"verifharness/hxlib"
)

type gvar struct {
	name       string
	t          *Ty
	assignable bool
	loop       bool
	lmax       int
	gl         *Global // package-level declaration (gen_pkg.go); nil for parameters and locals
}

type genOpts struct {
	small    bool   // total input bits small enough for exhaustive evaluation
	maxIn    int    // bound on total input bits when small
	defect   string // probe class
	maxStmts int
	maxDepth int
	globals  int // package-level declarations (gen_pkg.go): 0 none (the generator behaves exactly as before), 1 some, 2 dense
}

type gen struct {
	r           *hxlib.Rng
	p           *Program
	f           *Func
	vars        []gvar
	nameCtr     int
	iters       int // product of the enclosing loops' iteration counts
	cost        int // rough gate estimate so far
	opts        genOpts
	palette     []*Ty
	hit         map[string]bool // defect shapes actually emitted
	inBlock     int             // nesting depth of if/for blocks
	loops       int
	called      map[*Func]bool
	mustMix     []string        // variables the next returns should depend on
	frozen      map[string]bool // variables that must not be assigned right now
	constRet    bool            // every return of the current function returns literals
	shadows     map[string]bool // package-level names the current function has shadowed by a local
	forceShadow bool            // the next function-level `var` shadows a package-level name (gen_pkg.go)
	blocked     map[string]bool // declared names not usable as operands right now (they still shadow earlier entries)
}

const costBudget = 60000

func (g *gen) tag(s string) { g.p.Tags[s] = true }

func (g *gen) pct(n int) bool { return g.r.Intn(100) < n }

func (g *gen) pick(ws ...int) int {
	tot := 0
	for _, w := range ws {
		tot += w
	}
	x := g.r.Intn(tot)
	for i, w := range ws {
		if x < w {
			return i
		}
		x -= w
	}
	return len(ws) - 1
}

func (g *gen) randWidth() int {
	if g.opts.small {
		return 1 + g.r.Intn(6)
	}
	switch g.pick(46, 30, 14, 7, 3) {
	case 0:
		return 1 + g.r.Intn(8)
	case 1:
		return 9 + g.r.Intn(8)
	case 2:
		return []int{17, 24, 31, 32, 33, 20}[g.r.Intn(6)]
	case 3:
		return []int{34, 40, 48, 63, 64, 65}[g.r.Intn(6)]
	default:
		return []int{66, 100, 127, 128, 129, 130}[g.r.Intn(6)]
	}
}

func (g *gen) randNumTy() *Ty {
	w := g.randWidth()
	if g.r.Bool() {
		return tInt(w)
	}
	return tUint(w)
}

func (g *gen) paletteTy() *Ty {
	if g.pct(80) {
		return g.palette[g.r.Intn(len(g.palette))]
	}
	return g.randNumTy()
}

func (g *gen) scalarTy() *Ty {
	if g.pct(12) {
		return tyBool
	}
	return g.paletteTy()
}

func (g *gen) aggTy() *Ty {
	if len(g.p.ArrTypes) > 0 && g.pct(35) {
		return g.p.ArrTypes[g.r.Intn(len(g.p.ArrTypes))]
	}
	switch g.pick(55, 30, 15) {
	case 0:
		e := g.paletteTy()
		if g.pct(10) {
			e = tyBool
		}
		n := 1 + g.r.Intn(4)
		if e.Bits()*n > 96 {
			n = 2
		}
		return tArr(n, e)
	case 1:
		if len(g.p.Structs) > 0 {
			return g.p.Structs[g.r.Intn(len(g.p.Structs))]
		}
		return tArr(2+g.r.Intn(2), g.paletteTy())
	default:
		e := g.paletteTy()
		if e.Bits() > 16 {
			e = tUint(4)
		}
		return tArr(2, tArr(2+g.r.Intn(2), e))
	}
}

func (g *gen) anyTy() *Ty {
	if g.pct(22) {
		return g.aggTy()
	}
	return g.scalarTy()
}

func (g *gen) fresh() string {
	g.nameCtr++
	return fmt.Sprintf("v%d", g.nameCtr)
}

// ---------------------------------------------------------------- literals

func constBits(n *big.Int) int {
	bl := n.BitLen()
	switch {
	case bl <= 32:
		return 32
	case bl <= 64:
		return 64
	default:
		return bl
	}
}

// maxLit returns the largest literal usable for type t (non-negative for
// signed types), capped to 2^62.
func maxLit(t *Ty) *big.Int {
	w := t.W
	if t.Signed() {
		w--
	}
	if w > 62 {
		w = 62
	}
	m := new(big.Int).Lsh(big.NewInt(1), uint(w))
	return m.Sub(m, big.NewInt(1))
}

func (g *gen) litValue(t *Ty, nonzero bool) *big.Int {
	m := maxLit(t)
	var v *big.Int
	// 0 and 1 (identity / absorbing elements: `x + 0`, `0 - x`, `x * 1`, `x & 0`) are
	// where peephole rules of the front end live
	if !nonzero && g.pct(22) {
		if g.r.Bool() || m.Sign() == 0 {
			return big.NewInt(0)
		}
		return big.NewInt(1)
	}
	if g.opts.defect == "const_signed_widening" && t.Signed() && t.W > 32 && g.pct(50) {
		return big.NewInt([]int64{0x80000000, 0xffffffff, 0xfffffffe, 0x80000001, 0xc0000000}[g.r.Intn(5)])
	}
	switch g.pick(20, 15, 10, 10, 15, 30) {
	case 0:
		v = big.NewInt(int64(g.r.Intn(4)))
	case 1:
		v = new(big.Int).Set(m)
	case 2:
		v = new(big.Int).Sub(m, big.NewInt(1))
	case 3: // power of two
		if m.BitLen() > 0 {
			v = new(big.Int).Lsh(big.NewInt(1), uint(g.r.Intn(m.BitLen())))
		} else {
			v = big.NewInt(0)
		}
	case 4:
		v = big.NewInt(int64(g.r.Intn(17)))
	default:
		v = new(big.Int).SetUint64(g.r.U64())
	}
	if v.Sign() < 0 {
		v.SetInt64(0)
	}
	if v.Cmp(m) > 0 {
		v.And(v, m)
	}
	if nonzero && v.Sign() == 0 {
		if m.Sign() == 0 {
			return nil
		}
		v.SetInt64(1)
	}
	return v
}

// lit builds a literal operand for operator op (""= plain context).  The
// F1 shape (signed narrow operand vs untyped literal in / % < <= > >=) is
// avoided by rendering the literal as T(n), except in the probe class.
func (g *gen) lit(t *Ty, op string, nonzero bool) *Expr {
	if t.K == KBool {
		return &Expr{K: "lit", T: t, N: big.NewInt(int64(g.r.Intn(2)))}
	}
	v := g.litValue(t, nonzero)
	if v == nil {
		return nil
	}
	e := &Expr{K: "lit", T: t, N: v}
	g.typeConst(e, op)
	return e
}

func riskyOp(op string) bool {
	switch op {
	case "div", "mod", "lt", "le", "gt", "ge":
		return true
	}
	return false
}

// repaired lists the formerly deviating shapes the compiler handles since the
// `fix:` commits 4accfb7, 3c18dfa, dfc60cc, 86f919b of /repo: they are
// ordinary cases now (any disagreement on them is a violation).
var repaired = map[string]bool{"lit_signed_narrow": true, "const_cast_shared": true,
	"const_left_unsigned": true, "named_result_zero": true}

// shape decides whether a (formerly) deviating shape is emitted here.  A
// repaired shape appears in every program class (more densely in its old
// class) and is only counted; a still deviating one appears only in its probe
// class and marks the program (Program.Defect).
func (g *gen) shape(kind string, pctOrdinary int) bool {
	if repaired[kind] {
		if g.opts.defect == kind || g.pct(pctOrdinary) {
			g.tag("shape_" + kind)
			return true
		}
		return false
	}
	if g.opts.defect == kind {
		g.hit[kind] = true
		return true
	}
	return false
}

func (g *gen) typeConst(e *Expr, op string) {
	bits := 32
	if e.K == "lit" || e.K == "cvar" {
		bits = constBits(e.N)
	}
	if e.T.Signed() && e.T.W < bits && riskyOp(op) {
		if g.shape("lit_signed_narrow", 50) {
			return
		}
		e.Typed = true
		g.tag("typed_literal")
		return
	}
	if (g.pct(8) || ((g.opts.defect == "const_cast_shared" || g.opts.defect == "const_signed_widening") && g.pct(60))) && e.T.W <= 64 {
		// F5: a typed constant whose top bit is set narrows the shared constant
		// `$n` (ssa.Program.Constants is keyed by name); a later plain use of the
		// same number is then sign-extended from the narrow wires.  Only the
		// probe class emits such casts.
		kind := ""
		if e.K == "lit" || e.K == "cvar" {
			kind = constCastRisky(e.T, e.N)
		} else if !e.T.Signed() {
			kind = "const_cast_shared"
		}
		if kind != "" && !g.shape(kind, 50) {
			return
		}
		e.Typed = true
		g.tag("typed_literal")
	}
}

// constCastRisky: would the constant conversion T(n) meet a known defect?  The
// constant `$n` has its own default width cb (32, 64 or its bit length).
//   - "const_cast_shared": T narrower than cb and the T-wide pattern of n has
//     its top bit set: `$n` may get T's width and a later plain n is
//     sign-extended from it;
//   - "const_signed_widening": T signed and wider than cb and bit cb-1 of n set
//     (0xffffffff as int33): the cb-wide constant is sign-extended to T (the
//     compiler cannot tell 0xffffffff from int32(-1)).
func constCastRisky(t *Ty, n *big.Int) string {
	bl := n.BitLen()
	cb := constBits(n)
	switch {
	case t.W < cb && bl == t.W:
		return "const_cast_shared"
	case t.W > cb && t.Signed() && bl == cb:
		return "const_signed_widening"
	}
	return ""
}

func lit32(k int) *Expr { return &Expr{K: "lit", T: tInt(32), N: big.NewInt(int64(k))} }

// ---------------------------------------------------------------- leaves

func fitsLoop(t *Ty, lmax int) bool {
	if !t.IsNum() {
		return false
	}
	w := t.W
	if t.Signed() {
		w--
	}
	if w >= 31 {
		return true
	}
	return lmax < (1 << uint(w))
}

func log2floor(n int) int {
	k := 0
	for (1 << uint(k+1)) <= n {
		k++
	}
	return k
}

// indexFor returns an index expression valid for an array of n elements.
func (g *gen) indexFor(n int, d int) *Expr {
	// loop variables in range
	var loops []gvar
	for _, v := range g.vis() {
		if v.loop && v.lmax < n {
			loops = append(loops, v)
		}
	}
	if len(loops) > 0 && g.pct(60) {
		v := loops[g.r.Intn(len(loops))]
		g.tag("index_loopvar")
		if v.lmax+1 < n && g.pct(20) {
			g.tag("index_loopvar_plus")
			return &Expr{K: "bin", X: "add", T: tInt(32), A: &Expr{K: "ivar", X: v.name, T: tInt(32)}, B: lit32(1)}
		}
		return &Expr{K: "ivar", X: v.name, T: tInt(32)}
	}
	if n >= 2 && d > 0 && g.pct(25) {
		k := log2floor(n)
		it := tUint(k)
		e := g.num(it, d-1, false)
		if e != nil && !e.IsConst() {
			g.tag("index_variable")
			return e
		}
	}
	return lit32(g.r.Intn(n))
}

// paths enumerates readable places of type t reachable from variables.
func (g *gen) leaves(t *Ty, d int) []*Expr {
	var out []*Expr
	for _, v := range g.vis() {
		if v.loop {
			continue
		}
		ve := &Expr{K: "var", X: v.name, T: v.t}
		if v.t.Eq(t) {
			out = append(out, ve, ve) // direct variables twice as likely
		}
		switch v.t.K {
		case KArr:
			if v.t.Elem.Eq(t) {
				out = append(out, &Expr{K: "idx", A: ve, B: g.indexFor(v.t.N, d), T: t})
			} else if v.t.Elem.K == KArr && v.t.Elem.Elem.Eq(t) {
				in := &Expr{K: "idx", A: ve, B: g.indexFor(v.t.N, d), T: v.t.Elem}
				out = append(out, &Expr{K: "idx", A: in, B: g.indexFor(v.t.Elem.N, d), T: t})
			}
		case KStruct:
			for i, f := range v.t.Fields {
				fe := &Expr{K: "fld", A: ve, Fi: i, T: f}
				if f.Eq(t) {
					out = append(out, fe)
				} else if f.K == KArr && f.Elem.Eq(t) {
					out = append(out, &Expr{K: "idx", A: fe, B: g.indexFor(f.N, d), T: t})
				}
			}
		}
	}
	return out
}

func (g *gen) loopLeaf(t *Ty, op string) *Expr {
	var c []gvar
	for _, v := range g.vis() {
		if v.loop && fitsLoop(t, v.lmax) {
			c = append(c, v)
		}
	}
	if len(c) == 0 {
		return nil
	}
	v := c[g.r.Intn(len(c))]
	e := &Expr{K: "ivar", X: v.name, T: t}
	g.typeConst(e, op)
	g.tag("loopvar_operand")
	return e
}

func (g *gen) numVars() []gvar {
	var c []gvar
	for _, v := range g.vis() {
		if !v.loop && v.t.IsNum() {
			c = append(c, v)
		}
	}
	return c
}

func (g *gen) castOK(from, to *Ty) bool {
	if from.Signed() && !to.Signed() && to.W > from.W {
		if g.opts.defect == "cast_int_wider_uint" {
			return true
		}
		return false
	}
	return true
}

func (g *gen) mkCast(to *Ty, e *Expr) *Expr {
	from := e.T
	if from.Signed() && !to.Signed() && to.W > from.W {
		g.hit["cast_int_wider_uint"] = true
	}
	switch {
	case to.W > from.W && from.Signed() && to.Signed():
		g.tag("cast_sext")
	case to.W > from.W:
		g.tag("cast_zext")
	case to.W < from.W:
		g.tag("cast_trunc")
	default:
		g.tag("cast_samewidth")
	}
	return &Expr{K: "cast", T: to, A: e}
}

// nonConstLeaf: a leaf of numeric type t that is not a compile-time constant.
func (g *gen) nonConstLeaf(t *Ty, d int) *Expr {
	ls := g.leaves(t, d)
	if len(ls) > 0 && g.pct(85) {
		return ls[g.r.Intn(len(ls))]
	}
	// cast from some other numeric place
	nv := g.numVars()
	for try := 0; try < 6 && len(nv) > 0; try++ {
		v := nv[g.r.Intn(len(nv))]
		if v.t.Eq(t) {
			return &Expr{K: "var", X: v.name, T: v.t}
		}
		if g.castOK(v.t, t) {
			return g.mkCast(t, &Expr{K: "var", X: v.name, T: v.t})
		}
	}
	if len(ls) > 0 {
		return ls[g.r.Intn(len(ls))]
	}
	// any numeric leaf anywhere (array element / field)
	for _, v := range g.vis() {
		if v.loop {
			continue
		}
		var src *Expr
		ve := &Expr{K: "var", X: v.name, T: v.t}
		switch {
		case v.t.K == KArr && v.t.Elem.IsNum():
			src = &Expr{K: "idx", A: ve, B: lit32(g.r.Intn(v.t.N)), T: v.t.Elem}
		case v.t.K == KStruct:
			for i, f := range v.t.Fields {
				if f.IsNum() {
					src = &Expr{K: "fld", A: ve, Fi: i, T: f}
					break
				}
			}
		}
		if src != nil && g.castOK(src.T, t) {
			if src.T.Eq(t) {
				return src
			}
			return g.mkCast(t, src)
		}
	}
	return nil
}

// ---------------------------------------------------------------- numeric expressions

func (g *gen) charge(op string, t *Ty) bool {
	c := 0
	switch op {
	case "mul":
		c = t.W * t.W * 2
	case "div", "mod":
		c = t.W * t.W * 4
		if t.W < 32 {
			c = 32 * 32 * 4 // literal operands widen the divider
		}
	default:
		c = t.W * 2
	}
	c *= g.iters
	if g.cost+c > costBudget {
		return false
	}
	g.cost += c
	return true
}

// num generates an expression of numeric type t.  allowConst: the result may
// be a bare constant (only where the context types it).
func (g *gen) num(t *Ty, d int, allowConst bool) *Expr {
	if d <= 0 || g.pct(22) {
		if allowConst && g.pct(18) {
			if g.pct(30) {
				if e := g.loopLeaf(t, ""); e != nil {
					return e
				}
			}
			if e := g.litOrConst(t, "", false); e != nil {
				return e
			}
		}
		if e := g.nonConstLeaf(t, d); e != nil {
			return e
		}
		if allowConst {
			return g.lit(t, "", false)
		}
		return nil
	}
	switch g.pick(46, 9, 9, 4, 14, 8, 10) {
	case 0:
		op := []string{"add", "sub", "mul", "and", "or", "xor", "clr", "add", "sub"}[g.r.Intn(9)]
		if !g.charge(op, t) {
			op = "xor"
		}
		return g.binNum(t, op, d)
	case 1:
		op := []string{"div", "mod"}[g.r.Intn(2)]
		if !g.charge(op, t) {
			return g.binNum(t, "add", d)
		}
		return g.divNum(t, op, d)
	case 2:
		a := g.num(t, d-1, false)
		if a == nil {
			return nil
		}
		sh := []int{0, 1, t.W - 1, t.W, t.W + 1, g.r.Intn(t.W + 1), 1 + g.r.Intn(3)}[g.r.Intn(7)]
		if sh < 0 {
			sh = 0
		}
		left := g.r.Bool()
		switch {
		case left:
			g.tag("shl")
		case t.Signed():
			g.tag("shr_arith")
		default:
			g.tag("shr_logical")
		}
		if sh >= t.W {
			g.tag("shift_ge_width")
		}
		return &Expr{K: "shift", T: t, A: a, Sh: sh, Left: left}
	case 3:
		a := g.num(t, d-1, false)
		if a == nil {
			return nil
		}
		g.tag("neg")
		return &Expr{K: "neg", T: t, A: a}
	case 4:
		// cast from another numeric type
		from := g.paletteTy()
		if g.pct(30) {
			from = g.randNumTy()
		}
		if from.Eq(t) || !g.castOK(from, t) {
			return g.num(t, d-1, allowConst)
		}
		a := g.num(from, d-1, false)
		if a == nil {
			return g.nonConstLeaf(t, d)
		}
		return g.mkCast(t, a)
	case 5:
		if e := g.callExpr(t, d); e != nil {
			return e
		}
		return g.num(t, d-1, allowConst)
	default:
		if e := g.nonConstLeaf(t, d); e != nil {
			return e
		}
		return g.num(t, 0, allowConst)
	}
}

func (g *gen) binNum(t *Ty, op string, d int) *Expr {
	g.tag("op_" + op)
	a := g.num(t, d-1, false)
	if a == nil {
		return nil
	}
	var b *Expr
	if g.pct(28) {
		if g.pct(25) {
			b = g.loopLeaf(t, op)
		}
		if b == nil {
			b = g.litOrConst(t, op, false)
		}
		if b != nil {
			g.tag("literal_operand")
			if g.pct(25) { // constant on the left
				return &Expr{K: "bin", X: op, T: t, A: b, B: a}
			}
		}
	}
	if b == nil {
		b = g.num(t, d-1, false)
	}
	if b == nil {
		return a
	}
	return &Expr{K: "bin", X: op, T: t, A: a, B: b}
}

// divNum: `/` and `%` with a divisor that cannot be zero.
func (g *gen) divNum(t *Ty, op string, d int) *Expr {
	a := g.num(t, d-1, false)
	if a == nil {
		return nil
	}
	var b *Expr
	if g.pct(45) {
		b = g.litOrConst(t, op, true)
		if b != nil {
			g.tag("div_by_literal")
		}
	}
	if b == nil {
		x := g.num(t, d-1, false)
		if x == nil {
			return a
		}
		one := &Expr{K: "lit", T: t, N: big.NewInt(1)}
		if t.Signed() && t.W == 1 {
			// int1: the only literal is 0; use the operand itself or'ed with itself is no help
			return a
		}
		b = &Expr{K: "bin", X: "or", T: t, A: x, B: one}
		g.tag("div_by_nonzero_expr")
	}
	if t.Signed() {
		g.tag("op_s" + op)
	} else {
		g.tag("op_u" + op)
	}
	return &Expr{K: "bin", X: op, T: t, A: a, B: b}
}

func (g *gen) callExpr(t *Ty, d int) *Expr {
	var c []*Func
	for _, f := range g.p.Funcs {
		if f == g.f {
			break
		}
		if len(f.Results) == 1 && f.Results[0].Eq(t) {
			c = append(c, f)
		}
	}
	if len(c) == 0 || g.iters > 4 || d <= 0 {
		return nil
	}
	f := c[g.r.Intn(len(c))]
	args := g.callArgs(f, d)
	if args == nil {
		return nil
	}
	g.tag("call_in_expr")
	g.called[f] = true
	g.cost += 400 * g.iters
	return &Expr{K: "call", Fn: f, Args: args, T: t}
}

func (g *gen) callArgs(f *Func, d int) []*Expr {
	var args []*Expr
	for _, p := range f.Params {
		a := g.expr(p.T, d-1, false) // no constant arguments (the parameter would be const-bound)
		if a == nil {
			return nil
		}
		args = append(args, a)
	}
	return args
}

// ---------------------------------------------------------------- boolean expressions

func (g *gen) boolean(d int, allowConst bool) *Expr {
	if d <= 0 {
		ls := g.leaves(tyBool, 0)
		if len(ls) > 0 && g.pct(50) {
			return ls[g.r.Intn(len(ls))]
		}
		return g.cmp(1)
	}
	switch g.pick(12, 50, 8, 18, 5, 5, 2) {
	case 0:
		ls := g.leaves(tyBool, d)
		if len(ls) > 0 {
			return ls[g.r.Intn(len(ls))]
		}
		return g.cmp(d)
	case 1:
		return g.cmp(d)
	case 2:
		a := g.boolean(d-1, false)
		g.tag("not")
		return &Expr{K: "not", T: tyBool, A: a}
	case 3:
		op := []string{"land", "lor"}[g.r.Intn(2)]
		g.tag("op_" + op)
		return &Expr{K: "bin", X: op, T: tyBool, A: g.boolean(d-1, false), B: g.boolean(d-1, false)}
	case 4:
		op := []string{"eq", "ne"}[g.r.Intn(2)]
		g.tag("bool_" + op)
		return &Expr{K: "bin", X: op, T: tyBool, A: g.boolean(d-1, false), B: g.boolean(d-1, false)}
	case 5:
		if e := g.callExpr(tyBool, d); e != nil {
			return e
		}
		return g.cmp(d)
	default:
		if allowConst {
			return g.lit(tyBool, "", false)
		}
		return g.cmp(d)
	}
}

func (g *gen) cmp(d int) *Expr {
	// prefer a type that some variable has
	t := g.paletteTy()
	nv := g.numVars()
	if len(nv) > 0 && g.pct(60) {
		t = nv[g.r.Intn(len(nv))].t
	}
	op := []string{"eq", "ne", "lt", "le", "gt", "ge"}[g.r.Intn(6)]
	a := g.num(t, d-1, false)
	if a == nil {
		// no numeric place at all: compare booleans
		ls := g.leaves(tyBool, 0)
		if len(ls) == 0 {
			return &Expr{K: "lit", T: tyBool, N: big.NewInt(1)}
		}
		return &Expr{K: "bin", X: "eq", T: tyBool, A: ls[0], B: ls[len(ls)-1]}
	}
	var b *Expr
	probeLeft := g.opts.defect == "const_left_unsigned"
	if g.pct(35) || (probeLeft && g.pct(60)) {
		if g.pct(25) {
			b = g.loopLeaf(t, op)
		}
		if b == nil {
			b = g.litOrConst(t, op, false)
		}
		if b != nil {
			g.tag("cmp_literal")
			if g.pct(20) || probeLeft {
				// F6: the comparator's signedness follows the LEFT operand, and a
				// literal is a signed constant: `c < x` on uintN, N >= 32, compares
				// signed.  Only the probe class puts the constant first there.
				wide := !t.Signed() && t.W >= 32 && !b.Typed && op != "eq" && op != "ne"
				if !wide {
					g.tag("cmp_literal_left")
					a, b = b, a
				} else if g.shape("const_left_unsigned", 100) {
					a, b = b, a
				}
			}
		}
	}
	if b == nil {
		b = g.num(t, d-1, false)
	}
	if b == nil {
		b = a
	}
	if t.Signed() {
		g.tag("cmp_signed_" + op)
	} else {
		g.tag("cmp_unsigned_" + op)
	}
	return &Expr{K: "bin", X: op, T: tyBool, A: a, B: b}
}

// ---------------------------------------------------------------- any type

// expr generates an expression of type t (nil if impossible).
func (g *gen) expr(t *Ty, d int, allowConst bool) *Expr {
	switch {
	case t.K == KBool:
		return g.boolean(d, allowConst)
	case t.IsNum():
		return g.num(t, d, allowConst)
	}
	// aggregates: a place of that type or a call delivering it
	ls := g.leaves(t, d)
	if len(ls) > 0 && g.pct(85) {
		return ls[g.r.Intn(len(ls))]
	}
	if e := g.callExpr(t, d); e != nil {
		return e
	}
	if len(ls) > 0 {
		return ls[0]
	}
	return nil
}

// ---------------------------------------------------------------- statements

func (g *gen) declare(name string, t *Ty, assignable bool) {
	g.vars = append(g.vars, gvar{name: name, t: t, assignable: assignable})
}

// lvalues enumerates assignable places.
func (g *gen) lvalues() []*LVal {
	var out []*LVal
	for _, v := range g.vis() {
		if !v.assignable || v.loop || g.frozen[v.name] {
			continue
		}
		out = append(out, &LVal{X: v.name, T: v.t})
		switch v.t.K {
		case KArr:
			i := g.constIndex(v.t.N)
			out = append(out, &LVal{X: v.name, Path: []Acc{{Idx: i}}, T: v.t.Elem})
			if v.t.Elem.K == KArr {
				j := g.constIndex(v.t.Elem.N)
				out = append(out, &LVal{X: v.name, Path: []Acc{{Idx: g.constIndex(v.t.N)}, {Idx: j}}, T: v.t.Elem.Elem})
			}
		case KStruct:
			for i, f := range v.t.Fields {
				out = append(out, &LVal{X: v.name, Path: []Acc{{Fi: i}}, T: f})
				if f.K == KArr {
					out = append(out, &LVal{X: v.name, Path: []Acc{{Fi: i}, {Idx: g.constIndex(f.N)}}, T: f.Elem})
				}
			}
		}
	}
	return out
}

// constIndex: a compile-time constant index (literal or loop variable).
func (g *gen) constIndex(n int) *Expr {
	var loops []gvar
	for _, v := range g.vis() {
		if v.loop && v.lmax < n {
			loops = append(loops, v)
		}
	}
	if len(loops) > 0 && g.pct(70) {
		g.tag("store_index_loopvar")
		return &Expr{K: "ivar", X: loops[g.r.Intn(len(loops))].name, T: tInt(32)}
	}
	return lit32(g.r.Intn(n))
}

func rootType(g *gen, name string) *Ty {
	for i := len(g.vars) - 1; i >= 0; i-- {
		if g.vars[i].name == name {
			return g.vars[i].t
		}
	}
	return nil
}

func (g *gen) stmtDecl() []*Stmt {
	t := g.anyTy()
	name := g.fresh()
	// inner_shadow probe: re-declare an outer variable inside a block
	if g.opts.defect == "inner_shadow" && g.inBlock > 0 && g.pct(60) {
		var c []gvar
		for _, v := range g.vis() {
			if !v.loop && v.t.IsScalar() && v.assignable && v.gl == nil && !g.globalName(v.name) {
				c = append(c, v)
			}
		}
		if len(c) > 0 {
			v := c[g.r.Intn(len(c))]
			e := g.expr(v.t, g.opts.maxDepth, true)
			if e != nil {
				g.hit["inner_shadow"] = true
				g.declare(v.name, v.t, true)
				return []*Stmt{{K: "decl", X: v.name, T: v.t, E: e}}
			}
		}
	}
	shadow := false
	if g.opts.globals > 0 {
		if sn, st := g.shadowName(t); sn != "" {
			name, t, shadow = sn, st, true
		}
	}
	if t.IsScalar() {
		e := g.expr(t, g.opts.maxDepth, true)
		if e == nil {
			return nil
		}
		// `x := e`: only outside loop bodies (MPCL rejects a second `:=` of the
		// same name) and never for constants (they would stay untyped); a
		// package-level name is shadowed with `var` (MPCL reads `g := e` as an
		// assignment to the package-level g: "no new variables on left side of :=")
		if !shadow && g.pct(30) && !e.IsConst() && g.loops == 0 && t.K != KBool {
			g.tag("define")
			g.declare(name, t, true)
			return []*Stmt{{K: "define", Xs: []string{name}, E: e}}
		}
		g.tag("decl_init")
		g.declare(name, t, true)
		return []*Stmt{{K: "decl", X: name, T: t, E: e}}
	}
	// aggregates
	if g.pct(35) {
		if e := g.expr(t, 1, false); e != nil {
			g.tag("decl_agg_copy")
			g.declare(name, t, true)
			return []*Stmt{{K: "decl", X: name, T: t, E: e}}
		}
	}
	g.tag("decl_agg_zero")
	out := []*Stmt{{K: "decl", X: name, T: t}}
	g.declare(name, t, true)
	out = append(out, g.fillAgg(name, t)...)
	return out
}

// fillAgg assigns a few components of a fresh aggregate.
func (g *gen) fillAgg(name string, t *Ty) []*Stmt {
	var out []*Stmt
	n := 1 + g.r.Intn(2)
	for k := 0; k < n; k++ {
		var lv *LVal
		switch t.K {
		case KArr:
			if t.Elem.K == KArr {
				lv = &LVal{X: name, Path: []Acc{{Idx: lit32(g.r.Intn(t.N))}, {Idx: lit32(g.r.Intn(t.Elem.N))}}, T: t.Elem.Elem}
			} else {
				lv = &LVal{X: name, Path: []Acc{{Idx: lit32(g.r.Intn(t.N))}}, T: t.Elem}
			}
		case KStruct:
			i := g.r.Intn(len(t.Fields))
			f := t.Fields[i]
			if f.K == KArr {
				lv = &LVal{X: name, Path: []Acc{{Fi: i}, {Idx: lit32(g.r.Intn(f.N))}}, T: f.Elem}
			} else {
				lv = &LVal{X: name, Path: []Acc{{Fi: i}}, T: f}
			}
		}
		if lv == nil || !lv.T.IsScalar() {
			continue
		}
		e := g.expr(lv.T, g.opts.maxDepth-1, true)
		if e == nil {
			continue
		}
		out = append(out, &Stmt{K: "assign", LVs: []*LVal{lv}, E: e})
	}
	return out
}

func (g *gen) stmtAssign() []*Stmt {
	lvs := g.lvalues()
	if len(lvs) == 0 {
		return nil
	}
	lv := lvs[g.r.Intn(len(lvs))]
	if len(lv.Path) > 0 {
		g.tag("assign_component")
		if lv.Path[0].Idx == nil {
			g.tag("assign_field")
		} else {
			g.tag("assign_element")
		}
	}
	if lv.T.IsNum() && g.pct(25) {
		root := rootType(g, lv.X)
		if g.pct(15) {
			op := []string{"add", "sub"}[g.r.Intn(2)]
			g.tag("incdec")
			return []*Stmt{{K: "incdec", LVs: []*LVal{lv}, Op: op, RootT: root}}
		}
		op := []string{"add", "sub", "mul", "or", "xor", "and", "shl", "shr", "div"}[g.r.Intn(9)]
		g.tag("opassign_" + op)
		switch op {
		case "shl", "shr":
			return []*Stmt{{K: "opassign", LVs: []*LVal{lv}, Op: op, Lo: g.r.Intn(lv.T.W + 2), RootT: root}}
		case "div":
			if !g.charge("div", lv.T) {
				op = "add"
			} else {
				e := g.lit(lv.T, "div", true)
				if e == nil {
					return nil
				}
				return []*Stmt{{K: "opassign", LVs: []*LVal{lv}, Op: op, E: e, RootT: root}}
			}
		case "mul":
			if !g.charge("mul", lv.T) {
				op = "add"
			}
		}
		e := g.num(lv.T, g.opts.maxDepth-1, true)
		if e == nil {
			return nil
		}
		return []*Stmt{{K: "opassign", LVs: []*LVal{lv}, Op: op, E: e, RootT: root}}
	}
	// a whole scalar variable is never assigned a bare constant: the compiler
	// would bind the name to the constant and fold later uses (const folding is
	// property C12's subject; `var x uint8; x = 1; y := x | 2` is even rejected
	// with "invalid types: uint8 | int32")
	e := g.expr(lv.T, g.opts.maxDepth, len(lv.Path) > 0)
	if e == nil {
		return nil
	}
	if !lv.T.IsScalar() {
		// `x = x` style self copies are pointless; keep them rare but legal
		g.tag("assign_aggregate")
	}
	if e.IsConst() {
		g.tag("assign_constant")
	}
	return []*Stmt{{K: "assign", LVs: []*LVal{lv}, E: e}}
}

// simpleCond: a computed condition over one or two variables (`x > y`,
// `x <= 3`), different from the textual forms in avoid.
func (g *gen) simpleCond(avoid map[string]bool) *Expr {
	nv := g.numVars()
	for try := 0; try < 8; try++ {
		var c *Expr
		if len(nv) == 0 {
			c = g.boolean(1, false)
		} else {
			v := nv[g.r.Intn(len(nv))]
			op := []string{"lt", "le", "gt", "ge", "ne", "lt", "gt", "eq"}[g.r.Intn(8)]
			a := &Expr{K: "var", X: v.name, T: v.t}
			var b *Expr
			if g.pct(45) {
				var same []gvar
				for _, w := range nv {
					if w.name != v.name && w.t.Eq(v.t) {
						same = append(same, w)
					}
				}
				if len(same) > 0 {
					w := same[g.r.Intn(len(same))]
					b = &Expr{K: "var", X: w.name, T: w.t}
				}
			}
			if b == nil {
				b = g.litOrConst(v.t, op, false)
			}
			if b == nil {
				b = &Expr{K: "shift", Left: false, A: a, Sh: 1, T: v.t}
			}
			c = &Expr{K: "bin", X: op, T: tyBool, A: a, B: b}
		}
		if !avoid[c.Src()] {
			avoid[c.Src()] = true
			return c
		}
	}
	return g.cmp(2)
}

// stmtTwinIf: an if/else whose two branches each contain an else-less inner
// `if` assigning the SAME variable(s) the SAME value (a constant or another
// variable) under DIFFERENT computed conditions:
//
//	if C0 { [other assignments]; if C1 { r = V } } else { [other assignments]; if C2 { r = V } }
//
// Both branches leave r bound to a pending select with identical true/false
// values and different conditions; the merge must still build the outer phi
// (ssa.Bindings.Merge / Select.Equal).  Variants: one level deeper (the inner
// `if` wrapped in another `if`), several variables, early return after the
// assignment, other variables assigned in the two branches.
func (g *gen) stmtTwinIf(depth int, results []*Ty) []*Stmt {
	var cand []gvar
	for _, v := range g.vis() {
		if v.assignable && !v.loop && v.t.IsScalar() && !g.frozen[v.name] {
			cand = append(cand, v)
		}
	}
	if len(cand) == 0 {
		return nil
	}
	// prefer numeric targets (observable through every result type)
	pickVar := func() gvar {
		for try := 0; try < 4; try++ {
			v := cand[g.r.Intn(len(cand))]
			if v.t.IsNum() {
				return v
			}
		}
		return cand[g.r.Intn(len(cand))]
	}
	targets := []gvar{pickVar()}
	if len(cand) > 1 && g.pct(30) {
		w := pickVar()
		if w.name != targets[0].name {
			targets = append(targets, w)
			g.tag("twin_if_two_variables")
		}
	}
	frozenSave := g.frozen
	g.frozen = map[string]bool{}
	for k := range frozenSave {
		g.frozen[k] = true
	}
	defer func() { g.frozen = frozenSave }()
	// the common values
	var values []*Expr
	for _, tv := range targets {
		g.frozen[tv.name] = true
	}
	for _, tv := range targets {
		var val *Expr
		if g.pct(40) {
			var same []gvar
			for _, w := range g.vis() {
				if !w.loop && w.t.Eq(tv.t) && !g.frozen[w.name] {
					same = append(same, w)
				}
			}
			if len(same) > 0 {
				w := same[g.r.Intn(len(same))]
				val = &Expr{K: "var", X: w.name, T: w.t}
				g.frozen[w.name] = true
				g.tag("twin_if_value_variable")
			}
		}
		if val == nil {
			val = g.lit(tv.t, "", false)
			if val == nil {
				return nil
			}
			val.Typed = false
			// assigning retypes the constant to the variable's type: a literal whose
			// own 32/64-bit constant has the top bit set would be sign-extended
			// into a wider signed variable (C03-const-signed-widening)
			if tv.t.IsNum() && constCastRisky(tv.t, val.N) == "const_signed_widening" &&
				!g.shape("const_signed_widening", 0) {
				val.N = big.NewInt(int64(g.r.Intn(100)))
			}
			g.tag("twin_if_value_constant")
		}
		values = append(values, val)
	}
	avoid := map[string]bool{}
	c0 := g.simpleCond(avoid)
	// the early-return variant reads the targets right after the assignment: only
	// with variable values (a constant would stay bound to the name there)
	withReturn := g.loops == 0 && g.pct(25)
	for _, val := range values {
		if val.IsConst() {
			withReturn = false
		}
	}
	inner := func() []*Stmt {
		c := g.simpleCond(avoid)
		var body []*Stmt
		for i, tv := range targets {
			body = append(body, &Stmt{K: "assign", LVs: []*LVal{{X: tv.name, T: tv.t}}, E: values[i]})
		}
		if withReturn {
			save := len(g.vars)
			body = append(body, g.stmtReturn(results)...)
			g.vars = g.vars[:save]
		}
		st := &Stmt{K: "if", E: c, Then: body}
		if depth > 1 && g.pct(30) {
			g.tag("twin_if_deeper")
			st = &Stmt{K: "if", E: g.simpleCond(avoid), Then: []*Stmt{st}}
		}
		return []*Stmt{st}
	}
	branch := func() []*Stmt {
		save := len(g.vars)
		g.inBlock++
		var out []*Stmt
		innerFirst := g.pct(35)
		if innerFirst {
			out = append(out, inner()...)
		}
		// other variables assigned in this branch only
		n := g.r.Intn(3)
		if withReturn && innerFirst {
			n = 0
		}
		for i := 0; i < n; i++ {
			var s []*Stmt
			if g.pct(75) {
				s = g.stmtAssign()
			} else {
				s = g.stmtDecl()
			}
			if s != nil {
				g.tag("twin_if_mixed_assign")
				out = append(out, s...)
			}
		}
		if !innerFirst {
			out = append(out, inner()...)
		}
		g.inBlock--
		g.vars = g.vars[:save]
		return out
	}
	s := &Stmt{K: "if", E: c0}
	s.Then = branch()
	s.Else = branch()
	g.tag("twin_if_same_value")
	if withReturn {
		g.tag("twin_if_early_return")
	}
	for _, tv := range targets {
		g.mustMix = append(g.mustMix, tv.name)
	}
	return []*Stmt{s}
}

// stmtIf: the flag tells that both branches end in `return` (nothing may follow).
func (g *gen) stmtIf(depth int, results []*Ty) ([]*Stmt, bool) {
	c := g.boolean(g.opts.maxDepth, false)
	s := &Stmt{K: "if", E: c}
	g.tag("if")
	var thenRet, elseRet bool
	s.Then, thenRet = g.block(1+g.r.Intn(3), depth-1, results, g.pct(30))
	if g.pct(50) {
		if g.pct(25) && depth > 1 && !(thenRet && g.loops > 0) {
			g.tag("else_if")
			var inner []*Stmt
			inner, elseRet = g.stmtIf(depth-1, results)
			s.Else = inner
			s.ElseIf = true
		} else {
			g.tag("else")
			// inside a loop body at most one branch returns: a loop body that always
			// returns makes the compiler fail on the increment ("undefined variable 'i'")
			wantRet := g.pct(25) && !(thenRet && g.loops > 0)
			s.Else, elseRet = g.block(1+g.r.Intn(3), depth-1, results, wantRet)
		}
	}
	return []*Stmt{s}, thenRet && elseRet
}

func (g *gen) stmtFor(depth int, results []*Ty) []*Stmt {
	maxIt := 4
	if g.iters >= 4 {
		maxIt = 2
	}
	n := g.pick(5, 20, 35, 25, 15) // 0..4 iterations
	if n > maxIt {
		n = maxIt
	}
	s := &Stmt{K: "for", X: fmt.Sprintf("i%d", g.loops)}
	if g.loops > 0 {
		s.X = fmt.Sprintf("j%d", g.nameCtr)
		g.nameCtr++
	}
	step := 1
	if g.pct(20) {
		step = 2 + g.r.Intn(2)
	}
	lo := g.r.Intn(3)
	form := g.pick(30, 15, 15, 15, 10, 15)
	if (form == 3 || form == 1) && lo == 0 {
		lo = 1 // keep every bound non-negative (no negative literals)
	}
	last := lo + (n-1)*step
	lmax := last
	if n == 0 {
		lmax = lo
	}
	switch form {
	case 0: // i < hi
		s.Lo, s.Cmp, s.Hi, s.Step = lo, "lt", last+1, step
		if n == 0 {
			s.Hi = lo
		}
	case 1: // i <= hi
		s.Lo, s.Cmp, s.Hi, s.Step = lo, "le", last, step
		if n == 0 {
			s.Hi = lo - 1
		}
	case 2: // i != hi
		s.Lo, s.Cmp, s.Hi, s.Step = lo, "ne", last+step, step
		if n == 0 {
			s.Hi = lo
		}
	case 3: // downward, i > lo-1
		s.Lo, s.Cmp, s.Hi, s.Step = last, "gt", lo-1, -step
		if n == 0 {
			s.Lo, s.Hi = lo, lo
		}
	case 4: // downward, i >= lo
		s.Lo, s.Cmp, s.Hi, s.Step = last, "ge", lo, -step
		if n == 0 {
			s.Lo, s.Hi = lo, lo+1
		}
	default: // i < hi where hi is not hit exactly
		s.Lo, s.Cmp, s.Hi, s.Step = lo, "lt", last+1+g.r.Intn(step), step
		if n == 0 {
			s.Hi = lo
		}
	}
	if s.Lo > lmax {
		lmax = s.Lo
	}
	if s.Hi < 0 || s.Lo < 0 {
		return nil
	}
	s.IncForm = g.r.Intn(3)
	g.tag("for")
	g.tag(fmt.Sprintf("for_%s_step%d", s.Cmp, s.Step))
	g.tag(fmt.Sprintf("for_iters_%d", n))
	if g.loops > 0 {
		g.tag("for_nested")
	}
	save := len(g.vars)
	saveIt := g.iters
	g.vars = append(g.vars, gvar{name: s.X, t: tInt(32), loop: true, lmax: lmax})
	if n > 0 {
		g.iters *= n
	}
	g.loops++
	g.inBlock++
	s.Then, _ = g.stmts(1+g.r.Intn(3), depth-1, results, true)
	g.inBlock--
	g.loops--
	g.iters = saveIt
	g.vars = g.vars[:save]
	return []*Stmt{s}
}

func (g *gen) stmtMultiCall() []*Stmt {
	var c []*Func
	for _, f := range g.p.Funcs {
		if f == g.f {
			break
		}
		c = append(c, f)
	}
	if len(c) == 0 || g.iters > 2 {
		return nil
	}
	// prefer helpers not called yet
	f := c[g.r.Intn(len(c))]
	for _, h := range c {
		if !g.called[h] {
			f = h
		}
	}
	args := g.callArgs(f, g.opts.maxDepth)
	if args == nil {
		return nil
	}
	g.called[f] = true
	call := &Expr{K: "call", Fn: f, Args: args}
	g.cost += 400 * g.iters
	if len(f.Results) == 1 {
		call.T = f.Results[0]
		name := g.fresh()
		g.tag("call_decl")
		g.declare(name, call.T, true)
		if g.loops == 0 && g.pct(40) {
			return []*Stmt{{K: "define", Xs: []string{name}, E: call}}
		}
		return []*Stmt{{K: "decl", X: name, T: call.T, E: call}}
	}
	// assign to existing variables when possible
	if g.pct(40) {
		var lvs []*LVal
		used := map[string]bool{}
		ok := true
		for _, rt := range f.Results {
			var cand []gvar
			for _, v := range g.vis() {
				if v.assignable && !v.loop && v.t.Eq(rt) && !used[v.name] {
					cand = append(cand, v)
				}
			}
			if len(cand) == 0 {
				ok = false
				break
			}
			v := cand[g.r.Intn(len(cand))]
			used[v.name] = true
			lvs = append(lvs, &LVal{X: v.name, T: v.t})
		}
		if ok {
			g.tag("multi_assign")
			return []*Stmt{{K: "assign", LVs: lvs, E: call}}
		}
	}
	if g.loops > 0 {
		return nil
	}
	var xs []string
	for _, rt := range f.Results {
		n := g.fresh()
		xs = append(xs, n)
		g.declare(n, rt, true)
	}
	g.tag("multi_define")
	return []*Stmt{{K: "define", Xs: xs, E: call}}
}

// forceCall calls helper f and keeps the results in fresh variables.
func (g *gen) forceCall(f *Func) []*Stmt {
	args := g.callArgs(f, g.opts.maxDepth)
	if args == nil {
		return nil
	}
	g.called[f] = true
	g.cost += 400
	call := &Expr{K: "call", Fn: f, Args: args}
	if len(f.Results) == 1 {
		call.T = f.Results[0]
		name := g.fresh()
		g.declare(name, call.T, true)
		g.tag("call_decl")
		return []*Stmt{{K: "decl", X: name, T: call.T, E: call}}
	}
	var xs []string
	for _, rt := range f.Results {
		n := g.fresh()
		xs = append(xs, n)
		g.declare(n, rt, true)
	}
	g.tag("multi_define")
	return []*Stmt{{K: "define", Xs: xs, E: call}}
}

func (g *gen) stmtReturn(results []*Ty) []*Stmt {
	if g.f.Named != nil {
		return []*Stmt{{K: "retnamed", Xs: g.f.Named}}
	}
	// return f(..) delivering all results
	if len(results) >= 2 && g.pct(15) && g.iters <= 2 {
		for _, f := range g.p.Funcs {
			if f == g.f {
				break
			}
			if len(f.Results) != len(results) {
				continue
			}
			same := true
			for i := range results {
				if !f.Results[i].Eq(results[i]) {
					same = false
				}
			}
			if same {
				if args := g.callArgs(f, g.opts.maxDepth); args != nil {
					g.tag("return_call_multi")
					return []*Stmt{{K: "ret", Es: []*Expr{{K: "call", Fn: f, Args: args}}}}
				}
			}
		}
	}
	var pre []*Stmt
	var es []*Expr
	for _, rt := range results {
		var e *Expr
		if rt.IsScalar() && (g.constRet || g.pct(6)) {
			// `if c { return 1 }; return 2` (README 3party example): literal results
			e = g.lit(rt, "", false)
			g.tag("return_literal")
		}
		if e == nil {
			e = g.expr(rt, g.opts.maxDepth, true)
			if e != nil {
				e = g.mixLive(rt, e)
			}
		}
		if e == nil {
			// aggregate result without a source: make one
			name := g.fresh()
			pre = append(pre, &Stmt{K: "decl", X: name, T: rt})
			g.declare(name, rt, true)
			pre = append(pre, g.fillAgg(name, rt)...)
			e = &Expr{K: "var", X: name, T: rt}
		}
		es = append(es, e)
	}
	return append(pre, &Stmt{K: "ret", Es: es})
}

// mixLive makes a result depend on more of the computed state: up to three
// scalar variables (the most recently declared ones first) are folded into e.
// Without this most generated statements would be dead code and a
// miscompilation in them invisible.
func (g *gen) mixLive(t *Ty, e *Expr) *Expr {
	if e.IsConst() {
		return e
	}
	var cand []gvar
	vis := g.vis()
	for i := len(vis) - 1; i >= 0; i-- {
		v := vis[i]
		if v.loop || !v.t.IsScalar() {
			continue
		}
		cand = append(cand, v)
	}
	if len(cand) == 0 {
		return e
	}
	// variables that a statement shape wants observed (twin ifs) come first
	forced := 0
	for k := len(g.mustMix) - 1; k >= 0 && forced < 3; k-- {
		for i := forced; i < len(cand); i++ {
			if cand[i].name == g.mustMix[k] {
				cand[forced], cand[i] = cand[i], cand[forced]
				forced++
				break
			}
		}
	}
	n := 1 + g.r.Intn(3)
	if n < forced {
		n = forced
	}
	for k := 0; k < n && len(cand) > 0; k++ {
		// bias to recent variables
		idx := g.r.Intn(len(cand))
		if g.pct(60) {
			idx = g.r.Intn((len(cand) + 1) / 2)
		}
		if forced > 0 {
			idx = 0
			forced--
		}
		v := cand[idx]
		cand = append(cand[:idx], cand[idx+1:]...)
		ve := &Expr{K: "var", X: v.name, T: v.t}
		switch {
		case t.K == KBool && v.t.K == KBool:
			e = &Expr{K: "bin", X: []string{"eq", "ne"}[g.r.Intn(2)], T: tyBool, A: e, B: ve}
		case t.K == KBool && v.t.IsNum():
			// compare the variable with itself shifted: depends on its value
			c := &Expr{K: "bin", X: "ne", T: tyBool, A: ve, B: &Expr{K: "shift", Left: false, A: ve, Sh: 1, T: v.t}}
			e = &Expr{K: "bin", X: "ne", T: tyBool, A: e, B: c}
		case t.IsNum() && v.t.IsNum():
			var x *Expr
			if v.t.Eq(t) {
				x = ve
			} else if g.castOK(v.t, t) {
				x = g.mkCast(t, ve)
			} else {
				continue
			}
			op := []string{"add", "xor", "sub"}[g.r.Intn(3)]
			e = &Expr{K: "bin", X: op, T: t, A: e, B: x}
		}
	}
	g.tag("result_mixes_live_variables")
	return e
}

// stmts generates n statements in the current scope; the flag tells that the
// list ends in an if/else whose branches all return.
func (g *gen) stmts(n int, depth int, results []*Ty, inLoop bool) ([]*Stmt, bool) {
	var out []*Stmt
	for i := 0; i < n; i++ {
		var s []*Stmt
		term := false
		ws := []int{24, 28, 16, 9, 14, 9}
		if g.inBlock > 0 {
			ws = []int{10, 50, 16, 9, 10, 7} // inside blocks: mostly assignments to outer variables
		}
		switch g.pick(ws...) {
		case 5:
			if depth > 0 && g.iters <= 2 {
				s = g.stmtTwinIf(depth, results)
			}
		case 0:
			s = g.stmtDecl()
		case 1:
			s = g.stmtAssign()
		case 2:
			if depth > 0 {
				s, term = g.stmtIf(depth, results)
			}
		case 3:
			if depth > 0 && g.loops < 2 && g.iters <= 4 {
				s = g.stmtFor(depth, results)
			}
		case 4:
			s = g.stmtMultiCall()
		}
		if s == nil {
			s = g.stmtAssign()
		}
		out = append(out, s...)
		if term {
			g.tag("if_else_both_return")
			return out, true
		}
	}
	return out, false
}

// block: a nested block (own scope).  withReturn: ends with `return`.
func (g *gen) block(n int, depth int, results []*Ty, withReturn bool) ([]*Stmt, bool) {
	save := len(g.vars)
	g.inBlock++
	out, term := g.stmts(n, depth, results, false)
	if withReturn && !term {
		g.tag("early_return")
		if g.loops > 0 {
			g.tag("return_in_loop")
		}
		out = append(out, g.stmtReturn(results)...)
		term = true
	}
	g.inBlock--
	g.vars = g.vars[:save]
	return out, term
}

// ---------------------------------------------------------------- functions and programs

func (g *gen) function(name string, index int, params []Param, results []*Ty, named bool) *Func {
	f := &Func{Name: name, Index: index, Params: params, Results: results}
	g.f = f
	g.vars = nil
	g.mustMix = nil
	g.constRet = g.pct(7)
	g.nameCtr = 0
	g.iters = 1
	g.loops = 0
	g.inBlock = 0
	if g.opts.globals > 0 {
		g.enterFunction(name == "main")
	}
	for _, p := range params {
		g.declare(p.Name, p.T, true)
	}
	np := len(g.vars) // package-level names and parameters
	if named {
		for i := range results {
			f.Named = append(f.Named, fmt.Sprintf("r%d", i))
			g.declare(f.Named[i], results[i], true)
		}
		g.tag("named_results")
	}
	var body []*Stmt
	if named {
		// otherwise the results start as zero values (Go semantics; /repo 4accfb7)
		if !g.shape("named_result_zero", 40) {
			// like the shipped named_return*.mpcl programs: every named result is
			// assigned before anything reads it
			// (the results themselves are not readable yet: the initial values must not
			// depend on them)
			var hidden []gvar
			if g.opts.globals > 0 {
				// the results stay in g.vars - they SHADOW package-level declarations of
				// their names from the start of the function - and are only blocked as
				// operands (vis()); removing them would make a shadowed package-level
				// name look visible at its package-level type here
				g.blocked = map[string]bool{}
				for _, rn := range f.Named {
					g.blocked[rn] = true
				}
			} else {
				hidden = g.vars[np:]
				g.vars = g.vars[:np]
			}
			var pre []*Stmt
			for i, rn := range f.Named {
				e := g.expr(results[i], g.opts.maxDepth, false)
				if e == nil {
					// aggregate without a source: a fresh zero variable
					name := g.fresh()
					pre = append(pre, &Stmt{K: "decl", X: name, T: results[i]})
					g.declare(name, results[i], true)
					e = &Expr{K: "var", X: name, T: results[i]}
				}
				pre = append(pre, &Stmt{K: "assign", LVs: []*LVal{{X: rn, T: results[i]}}, E: e})
			}
			g.blocked = nil
			for i := range hidden {
				hidden[i].assignable = true
			}
			g.vars = append(g.vars, hidden...)
			body = pre
		}
	}
	if g.opts.globals > 0 {
		// dense class: shadow a package-level name at function level, then branch
		pre, term := g.scopePrefix(name == "main", results)
		body = append(body, pre...)
		if term {
			f.Body = body
			return f
		}
	}
	n := 1 + g.r.Intn(g.opts.maxStmts)
	more, term := g.stmts(n, 2, results, false)
	body = append(body, more...)
	if term {
		f.Body = body
		return f
	}
	// call the helpers nobody called yet (an uncalled function is not compiled)
	for _, h := range g.p.Funcs {
		if h == f || g.called[h] {
			continue
		}
		if name == "main" || g.pct(50) {
			if st := g.forceCall(h); st != nil {
				body = append(body, st...)
			}
		}
	}
	if named {
		// make sure every named result is assigned at least sometimes
		for i, rn := range f.Named {
			if g.pct(70) {
				if e := g.expr(results[i], g.opts.maxDepth, false); e != nil {
					body = append(body, &Stmt{K: "assign", LVs: []*LVal{{X: rn, T: results[i]}}, E: e})
				}
			}
		}
	}
	if !named && g.pct(15) {
		// final if/else with both branches returning
		g.tag("final_if_else_return")
		c := g.boolean(g.opts.maxDepth, false)
		th, _ := g.block(g.r.Intn(2), 1, results, true)
		el, _ := g.block(g.r.Intn(2), 1, results, true)
		body = append(body, &Stmt{K: "if", E: c, Then: th, Else: el})
	} else {
		body = append(body, g.stmtReturn(results)...)
	}
	f.Body = body
	return f
}

func (g *gen) helperParams() []Param {
	n := 1 + g.r.Intn(3)
	var ps []Param
	hasNum := false
	for i := 0; i < n; i++ {
		var t *Ty
		if g.pct(25) {
			t = g.aggTy()
		} else {
			t = g.scalarTy()
		}
		if t.IsNum() {
			hasNum = true
		}
		ps = append(ps, Param{Name: fmt.Sprintf("p%d", i), T: t})
	}
	if !hasNum {
		ps[0].T = g.paletteTy()
	}
	// helpers reuse the caller's names on purpose (call scoping)
	if g.pct(40) {
		names := []string{"a", "b", "c", "d"}
		for i := range ps {
			ps[i].Name = names[i]
		}
		g.tag("callee_reuses_caller_names")
	}
	return ps
}

func (g *gen) resultTys(max int, allowAgg bool) []*Ty {
	n := 1 + g.r.Intn(max)
	var rs []*Ty
	for i := 0; i < n; i++ {
		if allowAgg && g.pct(15) {
			rs = append(rs, g.aggTy())
		} else {
			rs = append(rs, g.scalarTy())
		}
	}
	return rs
}

func genProgram(r *hxlib.Rng, opts genOpts) *Program {
	p := &Program{Tags: map[string]bool{}}
	g := &gen{r: r, p: p, opts: opts, hit: map[string]bool{}, iters: 1, called: map[*Func]bool{}}
	// palette
	np := 1 + r.Intn(3)
	for i := 0; i < np; i++ {
		g.palette = append(g.palette, g.randNumTy())
	}
	if opts.defect == "const_left_unsigned" {
		g.palette = []*Ty{tUint([]int{32, 33, 40, 64}[r.Intn(4)])}
	}
	if opts.defect == "const_signed_widening" {
		g.palette = []*Ty{tInt([]int{33, 40, 48, 64}[r.Intn(4)])}
	}
	// struct types
	if g.pct(35) {
		ns := 1 + r.Intn(2)
		for i := 0; i < ns; i++ {
			st := &Ty{K: KStruct, Name: fmt.Sprintf("S%d", i)}
			nf := 1 + r.Intn(3)
			for k := 0; k < nf; k++ {
				var ft *Ty
				switch g.pick(65, 10, 25) {
				case 0:
					ft = g.paletteTy()
				case 1:
					ft = tyBool
				default:
					ft = tArr(2+r.Intn(2), g.paletteTy())
				}
				st.Fields = append(st.Fields, ft)
			}
			if st.Bits() > 200 {
				st.Fields = st.Fields[:1]
			}
			p.Structs = append(p.Structs, st)
			g.tag("struct")
		}
	}
	if opts.globals > 0 {
		g.genGlobals()
	}
	// helpers
	nh := g.pick(35, 35, 20, 10)
	if opts.defect == "named_result_zero" && nh == 0 {
		nh = 1
	}
	for i := 0; i < nh; i++ {
		f := g.function(fmt.Sprintf("f%d", i), i, g.helperParams(), g.resultTys(3, true),
			g.pct(12) || opts.defect == "named_result_zero")
		p.Funcs = append(p.Funcs, f)
	}
	// main
	var params []Param
	names := []string{"a", "b", "c", "d"}
	if opts.small {
		left := opts.maxIn
		n := 1 + r.Intn(3)
		for i := 0; i < n && left > 0; i++ {
			w := 1 + r.Intn(6)
			if w > left {
				w = left
			}
			var t *Ty
			switch g.pick(42, 42, 8, 8) {
			case 0:
				t = tInt(w)
			case 1:
				t = tUint(w)
			case 2:
				t = tyBool
			default:
				if w >= 2 {
					t = tArr(2, tUint(w/2))
				} else {
					t = tyBool
				}
			}
			left -= t.Bits()
			params = append(params, Param{Name: names[i], T: t})
		}
		// the small parameters join the palette so that they get used
		for _, pr := range params {
			if pr.T.IsNum() {
				g.palette = append(g.palette, pr.T)
			}
		}
	} else {
		n := 1 + r.Intn(4)
		for i := 0; i < n; i++ {
			var t *Ty
			if g.pct(15) {
				t = g.aggTy()
			} else {
				t = g.scalarTy()
			}
			params = append(params, Param{Name: names[i], T: t})
		}
	}
	hasNum := false
	for _, pr := range params {
		if pr.T.IsNum() {
			hasNum = true
		}
	}
	if !hasNum {
		params[0].T = g.palette[len(g.palette)-1]
		if opts.small && params[0].T.W > 6 {
			params[0].T = tUint(3)
		}
	}
	main := g.function("main", nh, params, g.resultTys(3, true), false)
	p.Funcs = append(p.Funcs, main)
	var hits []string
	for k := range g.hit {
		hits = append(hits, k)
	}
	sort.Strings(hits)
	p.Defect = strings.Join(hits, ",")
	if opts.globals > 0 {
		tagScopes(p)
	}
	return p
}

package main

// Tie of the Lean model of ssagen (`Mpc.Mpcl.Ssa.lower`,
// lean/MpcVerif/Model/MpclLower.lean) to the REAL ssagen.
//
//	c03 lower -seed S -n N -tier T -ops F -out F -meta F [-only K]
//
// Two program sources, both derived from the seed:
//   (a) N programs of the general generator (genProgram, same class schedule as
//       mode gen), filtered by the fragment predicate inFragment;
//   (b) 3N/5 programs of the focused generator (lowergen.go, genFragProgram),
//       built inside the fragment (each must pass inFragment: anything else is a
//       harness bug).
// For every in-fragment program the printed source goes through the real
// compiler (compileReal, ssaOf) and
//
//	op:     c03 LOWER <inputs> ( LOWER <program sx> <real ssa sx> )
//	result: outputs of the real CIRCUIT on the tuples (format of mode gen)
//
// The driver (lean/Driver/C03Lower.lean) lowers the program with the Lean model,
// evaluates lowered SSA, real SSA and the source interpreter on every tuple and
// prints the common outputs (+ an advisory ` #same|#drift ..` suffix), so an equal
// line is a four-way agreement.  A fragment program the real compiler rejects:
//
//	op:     c03 LOWERREJ <program sx>        result: compile-<error>
//
// (the driver answers lower-ok / lower-none: never equal).
//
// inFragment mirrors the success condition of `lower` (lowerE/lowerArgs/lowerCall/
// lowerS/lowerB/lowerFor/pathOff/progOk/RTree.mat) on the harness AST as Sx()
// serialises it; it is more conservative in a few places (reasons cast_of_constant,
// loop_too_long, struct types compared through the declared result types).

import (
	"fmt"
	"math/big"
	"sort"

	"verifharness/hxlib"
)

// ---------------------------------------------------------------- fragment predicate

type fbind struct {
	t     *Ty
	konst bool
	n     int64
}

type fexp struct {
	t     *Ty
	konst bool
	n     *big.Int
}

// fprog: per program state of the predicate: the verdict on every function that
// is reached by a call ("" = inside; callees are checked in their own scope, once:
// the verdict does not depend on the call site because arguments are never
// constants and their types must equal the parameter types).
type fprog struct {
	p      *Program
	callee map[*Func]string
	busy   map[*Func]bool
}

type fchk struct {
	pg     *fprog
	scopes []map[string]fbind
	f      *Func
}

func (c *fchk) push()                     { c.scopes = append(c.scopes, map[string]fbind{}) }
func (c *fchk) pop()                      { c.scopes = c.scopes[:len(c.scopes)-1] }
func (c *fchk) declare(x string, b fbind) { c.scopes[len(c.scopes)-1][x] = b }
func (c *fchk) find(x string) (fbind, bool) {
	for i := len(c.scopes) - 1; i >= 0; i-- {
		if b, ok := c.scopes[i][x]; ok {
			return b, true
		}
	}
	return fbind{}, false
}

// litOkGo mirrors `litOk` of Model/MpclLower.lean; the reason tells which
// conjunct failed.
func litOkGo(signed bool, w int, n *big.Int) string {
	if n.Sign() < 0 {
		return "literal_range"
	}
	lim := w
	if signed {
		lim = w - 1
	}
	if n.BitLen() > lim {
		return "literal_range"
	}
	cb := constBits(n)
	if signed && cb < w && n.Bit(cb-1) == 1 {
		return "const_signed_widening"
	}
	return ""
}

var binNumOps = map[string]bool{"add": true, "sub": true, "mul": true, "div": true, "mod": true, "and": true, "or": true,
	"xor": true, "clr": true}
var binCmpOps = map[string]bool{"lt": true, "le": true, "gt": true, "ge": true}

// tyEqGo mirrors `tyEq` (structural; the harness' Ty.Eq compares structs by name).
func tyEqGo(a, b *Ty) bool {
	if a.K != b.K {
		return false
	}
	switch a.K {
	case KBool:
		return true
	case KInt, KUint:
		return a.W == b.W
	case KArr:
		return a.N == b.N && tyEqGo(a.Elem, b.Elem)
	default:
		if len(a.Fields) != len(b.Fields) {
			return false
		}
		for i := range a.Fields {
			if !tyEqGo(a.Fields[i], b.Fields[i]) {
				return false
			}
		}
		return true
	}
}

// constIdx mirrors `constIdx`: a literal or a loop constant as Sx() serialises them.
func (c *fchk) constIdx(e *Expr) (int64, bool) {
	switch e.K {
	case "lit":
		if e.T.IsNum() && litOkGo(e.T.Signed(), e.T.W, e.N) == "" && e.N.IsInt64() {
			return e.N.Int64(), true
		}
	case "var", "ivar":
		if e.K == "ivar" && !(e.T.K == KInt && e.T.W == 32) {
			return 0, false // ( C T ( V i ) ): a folded conversion, not a bare constant
		}
		if b, ok := c.find(e.X); ok && b.konst {
			return b.n, true
		}
	}
	return 0, false
}

// calleeOK: is the body of fn inside the fragment when inlined.
func (pg *fprog) calleeOK(fn *Func) string {
	if why, ok := pg.callee[fn]; ok {
		return why
	}
	if pg.busy[fn] {
		return "recursion"
	}
	pg.busy[fn] = true
	why := pg.funcBody(fn)
	delete(pg.busy, fn)
	pg.callee[fn] = why
	return why
}

// funcBody mirrors lowerCall / lower on one function: parameters in a fresh scope,
// the body must return on every path.
func (pg *fprog) funcBody(f *Func) string {
	c := &fchk{pg: pg, f: f}
	c.push()
	for _, pr := range f.Params {
		c.declare(pr.Name, fbind{t: pr.T})
	}
	// named results are ordinary zero-initialised variables in Sx()
	for i, n := range f.Named {
		c.declare(n, fbind{t: f.Results[i]})
	}
	ret, why := c.block(f.Body)
	if why != "" {
		return why
	}
	if !ret {
		return "no_return_path"
	}
	return ""
}

// call mirrors lowerCall: the result types.
func (c *fchk) call(e *Expr) ([]*Ty, string) {
	fn := e.Fn
	if fn.Index >= c.f.Index {
		return nil, "recursion"
	}
	if len(e.Args) != len(fn.Params) {
		return nil, "call_arity"
	}
	for i, a := range e.Args {
		v, why := c.expr(a)
		if why != "" {
			return nil, why
		}
		if v.konst {
			return nil, "const_argument"
		}
		if !tyEqGo(v.t, fn.Params[i].T) {
			return nil, "type_mismatch"
		}
	}
	if why := c.pg.calleeOK(fn); why != "" {
		return nil, why
	}
	return fn.Results, ""
}

func (c *fchk) expr(e *Expr) (fexp, string) {
	switch e.K {
	case "lit":
		switch e.T.K {
		case KBool:
			return fexp{t: tyBool, konst: true, n: e.N}, ""
		case KInt, KUint:
			if why := litOkGo(e.T.Signed(), e.T.W, e.N); why != "" {
				return fexp{}, why
			}
			return fexp{t: e.T, konst: true, n: e.N}, ""
		}
		return fexp{}, "aggregate_literal"
	case "var":
		b, ok := c.find(e.X)
		if !ok {
			return fexp{}, "unbound_variable"
		}
		if b.konst {
			return fexp{t: tInt(32), konst: true, n: big.NewInt(b.n)}, ""
		}
		return fexp{t: b.t}, ""
	case "cvar":
		return fexp{}, "package_constant"
	case "ivar":
		b, ok := c.find(e.X)
		if !ok || !b.konst {
			return fexp{}, "unbound_variable"
		}
		n := big.NewInt(b.n)
		if e.T.K == KInt && e.T.W == 32 {
			return fexp{t: e.T, konst: true, n: n}, ""
		}
		// Sx: ( C T ( V i ) ): a folded constant conversion
		if !e.T.IsNum() {
			return fexp{}, "cast_bool"
		}
		if litOkGo(e.T.Signed(), e.T.W, n) != "" {
			return fexp{}, "loopvar_range"
		}
		return fexp{t: e.T, konst: true, n: n}, ""
	case "bin":
		a, why := c.expr(e.A)
		if why != "" {
			return fexp{}, why
		}
		b, why := c.expr(e.B)
		if why != "" {
			return fexp{}, why
		}
		if a.konst && b.konst {
			return fexp{}, "const_only_expr"
		}
		if !tyEqGo(a.t, b.t) {
			return fexp{}, "type_mismatch"
		}
		switch {
		case a.t.IsScalar() && (e.X == "eq" || e.X == "ne"):
			return fexp{t: tyBool}, ""
		case a.t.K == KBool && (e.X == "land" || e.X == "lor"):
			return fexp{t: tyBool}, ""
		case a.t.IsNum() && binCmpOps[e.X]:
			return fexp{t: tyBool}, ""
		case a.t.IsNum() && binNumOps[e.X]:
			return fexp{t: a.t}, ""
		}
		return fexp{}, "type_mismatch"
	case "shift":
		a, why := c.expr(e.A)
		if why != "" {
			return fexp{}, why
		}
		if a.konst {
			return fexp{}, "const_only_expr"
		}
		if !a.t.IsNum() || e.Sh < 0 {
			return fexp{}, "type_mismatch"
		}
		return fexp{t: a.t}, ""
	case "not":
		a, why := c.expr(e.A)
		if why != "" {
			return fexp{}, why
		}
		if a.konst {
			return fexp{}, "const_only_expr"
		}
		if a.t.K != KBool {
			return fexp{}, "type_mismatch"
		}
		return fexp{t: tyBool}, ""
	case "neg":
		a, why := c.expr(e.A)
		if why != "" {
			return fexp{}, why
		}
		if a.konst {
			return fexp{}, "const_only_expr"
		}
		if !a.t.IsNum() {
			return fexp{}, "type_mismatch"
		}
		return fexp{t: a.t}, ""
	case "cast":
		a, why := c.expr(e.A)
		if why != "" {
			return fexp{}, why
		}
		if !a.t.IsNum() || !e.T.IsNum() {
			return fexp{}, "cast_bool"
		}
		if a.konst {
			return fexp{}, "cast_of_constant" // `lower` folds it; not produced by the generators
		}
		if a.t.Signed() && !e.T.Signed() && a.t.W < e.T.W {
			return fexp{}, "cast_int_wider_uint"
		}
		return fexp{t: e.T}, ""
	case "idx":
		a, why := c.expr(e.A)
		if why != "" {
			return fexp{}, why
		}
		if a.konst || a.t.K != KArr {
			return fexp{}, "type_mismatch"
		}
		if k, ok := c.constIdx(e.B); ok {
			if k < 0 || k >= int64(a.t.N) {
				return fexp{}, "index_out_of_range"
			}
			return fexp{t: a.t.Elem}, ""
		}
		i, why := c.expr(e.B)
		if why != "" {
			return fexp{}, why
		}
		if i.konst {
			return fexp{}, "const_index_expr" // a[i+1], a[uint2(1)]: folded by the compiler, not by `lower`
		}
		if i.t.K != KUint {
			return fexp{}, "index_type"
		}
		if i.t.W >= 31 || 1<<uint(i.t.W) > a.t.N || a.t.Elem.Bits() == 0 {
			return fexp{}, "index_may_exceed"
		}
		return fexp{t: a.t.Elem}, ""
	case "fld":
		a, why := c.expr(e.A)
		if why != "" {
			return fexp{}, why
		}
		if a.konst || a.t.K != KStruct || e.Fi < 0 || e.Fi >= len(a.t.Fields) {
			return fexp{}, "type_mismatch"
		}
		return fexp{t: a.t.Fields[e.Fi]}, ""
	case "call":
		rs, why := c.call(e)
		if why != "" {
			return fexp{}, why
		}
		if len(rs) != 1 {
			return fexp{}, "multi_value_call_in_expr"
		}
		return fexp{t: rs[0]}, ""
	}
	return fexp{}, "expr_" + e.K
}

func cmpHolds(cmp string, a, b int64) bool {
	switch cmp {
	case "lt":
		return a < b
	case "le":
		return a <= b
	case "gt":
		return a > b
	case "ge":
		return a >= b
	case "ne":
		return a != b
	}
	return false
}

// desugared returns the right-hand side of `x op= e` / `x++` exactly as
// Stmt.Sx() serialises it.
func desugared(s *Stmt) *Expr {
	cur := s.LVs[0].AsExpr(s.RootT)
	switch s.Op {
	case "shl", "shr":
		return &Expr{K: "shift", Left: s.Op == "shl", A: cur, Sh: s.Lo, T: cur.T}
	}
	rhs := s.E
	if s.K == "incdec" {
		rhs = &Expr{K: "lit", T: cur.T, N: big.NewInt(1)}
	}
	return &Expr{K: "bin", X: s.Op, A: cur, B: rhs, T: cur.T}
}

// lvalType mirrors pathOff: the type of the component the path selects.
func (c *fchk) lvalType(lv *LVal) (*Ty, string) {
	b, ok := c.find(lv.X)
	if !ok || b.konst {
		return nil, "unbound_variable"
	}
	t := b.t
	for _, a := range lv.Path {
		if a.Idx != nil {
			if t.K != KArr {
				return nil, "type_mismatch"
			}
			k, ok := c.constIdx(a.Idx)
			if !ok {
				return nil, "store_index_not_constant"
			}
			if k < 0 || k >= int64(t.N) {
				return nil, "index_out_of_range"
			}
			t = t.Elem
		} else {
			if t.K != KStruct || a.Fi < 0 || a.Fi >= len(t.Fields) {
				return nil, "type_mismatch"
			}
			t = t.Fields[a.Fi]
		}
	}
	return t, ""
}

// assign mirrors `lowerS (.assign [lv] e)`: the value first, then assignVal.
func (c *fchk) assign(lv *LVal, e *Expr) string {
	v, why := c.expr(e)
	if why != "" {
		return why
	}
	t, why := c.lvalType(lv)
	if why != "" {
		return why
	}
	if !tyEqGo(t, v.t) {
		return "type_mismatch"
	}
	return ""
}

// stmt: does the statement return on every path; "" or the reason it is
// outside the fragment.
func (c *fchk) stmt(s *Stmt) (bool, string) {
	switch s.K {
	case "decl":
		if s.E != nil {
			v, why := c.expr(s.E)
			if why != "" {
				return false, why
			}
			if !tyEqGo(s.T, v.t) {
				return false, "type_mismatch"
			}
		}
		c.declare(s.X, fbind{t: s.T})
		return false, ""
	case "define":
		if len(s.Xs) != 1 {
			if s.E.K != "call" {
				return false, "multi_define_not_call"
			}
			rs, why := c.call(s.E)
			if why != "" {
				return false, why
			}
			if len(rs) != len(s.Xs) {
				return false, "assign_arity"
			}
			for i, x := range s.Xs {
				c.declare(x, fbind{t: rs[i]})
			}
			return false, ""
		}
		v, why := c.expr(s.E)
		if why != "" {
			return false, why
		}
		if v.konst {
			return false, "define_constant"
		}
		c.declare(s.Xs[0], fbind{t: v.t})
		return false, ""
	case "assign":
		if len(s.LVs) != 1 {
			if s.E.K != "call" {
				return false, "multi_assign_not_call"
			}
			rs, why := c.call(s.E)
			if why != "" {
				return false, why
			}
			if len(rs) != len(s.LVs) {
				return false, "assign_arity"
			}
			for i, lv := range s.LVs {
				t, why := c.lvalType(lv)
				if why != "" {
					return false, why
				}
				if !tyEqGo(t, rs[i]) {
					return false, "type_mismatch"
				}
			}
			return false, ""
		}
		return false, c.assign(s.LVs[0], s.E)
	case "opassign", "incdec":
		return false, c.assign(s.LVs[0], desugared(s))
	case "if":
		v, why := c.expr(s.E)
		if why != "" {
			return false, why
		}
		if v.konst {
			return false, "const_condition"
		}
		if v.t.K != KBool {
			return false, "type_mismatch"
		}
		c.push()
		rt, why := c.block(s.Then)
		c.pop()
		if why != "" {
			return false, why
		}
		c.push()
		rf, why := c.block(s.Else)
		c.pop()
		return rt && rf, why
	case "for":
		cur := int64(s.Lo)
		for n := 0; cmpHolds(s.Cmp, cur, int64(s.Hi)); n++ {
			if n >= 64 {
				return false, "loop_too_long"
			}
			if cur < 0 || cur >= 1<<31 {
				return false, "loop_range"
			}
			c.push()
			c.declare(s.X, fbind{konst: true, n: cur})
			ret, why := c.block(s.Then)
			c.pop()
			if why != "" {
				return false, why
			}
			if ret {
				return true, "" // `lower` stops unrolling (lowerFor, `none` bindings)
			}
			cur += int64(s.Step)
		}
		return false, ""
	case "ret", "retnamed":
		es := s.Es
		if s.K == "retnamed" {
			es = nil
			for _, x := range s.Xs {
				es = append(es, &Expr{K: "var", X: x})
			}
		}
		if len(es) == 1 && es[0].K == "call" {
			// `return f(..)`: all results of the call at once (retCallOf)
			rs, why := c.call(es[0])
			if why != "" {
				return false, why
			}
			if len(rs) != len(c.f.Results) {
				return false, "return_arity"
			}
			for i, t := range rs {
				if !tyEqGo(t, c.f.Results[i]) {
					return false, "type_mismatch"
				}
			}
			return true, ""
		}
		var vs []fexp
		for _, e := range es {
			v, why := c.expr(e)
			if why != "" {
				return false, why
			}
			vs = append(vs, v)
		}
		if len(vs) != len(c.f.Results) {
			return false, "return_arity"
		}
		for i, v := range vs {
			if !tyEqGo(v.t, c.f.Results[i]) {
				return false, "type_mismatch"
			}
		}
		return true, ""
	}
	return false, "stmt_" + s.K
}

func (c *fchk) block(ss []*Stmt) (bool, string) {
	for i, s := range ss {
		ret, why := c.stmt(s)
		if why != "" {
			return false, why
		}
		if ret {
			if i+1 < len(ss) {
				return false, "dead_code"
			}
			return true, ""
		}
	}
	return false, ""
}

// declNames: names declared by `var` / `:=` (declB), and whether a `:=` sits in a
// loop body (defineOkB).
func declNames(ss []*Stmt, inFor bool, names *[]string, defineInFor *bool) {
	for _, s := range ss {
		switch s.K {
		case "decl":
			*names = append(*names, s.X)
		case "define":
			*names = append(*names, s.Xs...)
			if inFor {
				*defineInFor = true
			}
		case "if":
			declNames(s.Then, inFor, names, defineInFor)
			declNames(s.Else, inFor, names, defineInFor)
		case "for":
			declNames(s.Then, true, names, defineInFor)
		}
	}
}

// loopOk mirrors `loopOkB`: a loop variable is neither the variable of an
// enclosing loop nor any other declared name.
func loopOk(ss []*Stmt, outer []string, others map[string]bool) bool {
	for _, s := range ss {
		switch s.K {
		case "if":
			if !loopOk(s.Then, outer, others) || !loopOk(s.Else, outer, others) {
				return false
			}
		case "for":
			if others[s.X] {
				return false
			}
			for _, o := range outer {
				if o == s.X {
					return false
				}
			}
			if !loopOk(s.Then, append(append([]string(nil), outer...), s.X), others) {
				return false
			}
		}
	}
	return true
}

// scopeOkGo mirrors `scopeOk` on one function.
func scopeOkGo(f *Func) string {
	var names []string
	for _, pr := range f.Params {
		names = append(names, pr.Name)
	}
	names = append(names, f.Named...)
	defineInFor := false
	declNames(f.Body, false, &names, &defineInFor)
	seen := map[string]bool{}
	for _, n := range names {
		if seen[n] {
			return "redeclared"
		}
		seen[n] = true
	}
	if !loopOk(f.Body, nil, seen) {
		return "loopvar_redeclared"
	}
	if defineInFor {
		return "define_in_for"
	}
	return ""
}

// callsBelow mirrors `callsOkFrom`: every call (of every function, called or not)
// targets a function with a smaller index.
func callsBelow(p *Program) bool {
	ok := true
	var we func(k int, e *Expr)
	we = func(k int, e *Expr) {
		if e == nil {
			return
		}
		if e.K == "call" {
			if e.Fn.Index >= k {
				ok = false
			}
			for _, a := range e.Args {
				we(k, a)
			}
		}
		we(k, e.A)
		we(k, e.B)
	}
	var wb func(k int, ss []*Stmt)
	wb = func(k int, ss []*Stmt) {
		for _, s := range ss {
			we(k, s.E)
			for _, e := range s.Es {
				we(k, e)
			}
			if (s.K == "opassign" || s.K == "incdec") && len(s.LVs) > 0 {
				we(k, s.LVs[0].AsExpr(s.RootT))
			}
			wb(k, s.Then)
			wb(k, s.Else)
		}
	}
	for i, f := range p.Funcs {
		if f.Index != i {
			return false
		}
		wb(i, f.Body)
	}
	return ok
}

// inFragment: is the program inside the fragment of `Ssa.lower` (then `lower`
// must succeed on p.Sx()); the reason is the first failing condition.
func inFragment(p *Program) (bool, string) {
	if len(p.Globals) > 0 {
		return false, "package_globals"
	}
	// progOk: all functions, called or not
	for _, f := range p.Funcs {
		if why := scopeOkGo(f); why != "" {
			return false, why
		}
	}
	if !callsBelow(p) {
		return false, "recursion"
	}
	pg := &fprog{p: p, callee: map[*Func]string{}, busy: map[*Func]bool{}}
	if why := pg.funcBody(p.Main()); why != "" {
		return false, why
	}
	return true, ""
}

// ---------------------------------------------------------------- features (by AST walk)

type featSet map[string]bool

func (fs featSet) expr(e *Expr) {
	if e == nil {
		return
	}
	switch e.K {
	case "lit":
		if e.T.IsNum() && e.T.W > 32 && constBits(e.N) < e.T.W {
			fs["literal_wide"] = true
		}
		if e.Typed {
			fs["typed_literal"] = true
		}
	case "ivar":
		fs["loopvar_operand"] = true
	case "bin":
		switch e.X {
		case "div", "mod":
			fs[e.X] = true
			if e.A.T != nil && e.A.T.Signed() {
				fs["s"+e.X] = true
			} else {
				fs["u"+e.X] = true
			}
		case "lt", "le", "gt", "ge":
			if t := e.A.T; t != nil && t.Signed() {
				fs["cmp_signed"] = true
			} else {
				fs["cmp_unsigned"] = true
			}
		case "land", "lor":
			fs["land_lor"] = true
		case "eq", "ne":
			if e.A.T != nil && e.A.T.K == KBool {
				fs["bool_eq"] = true
			} else {
				fs["cmp_eq"] = true
			}
		default:
			fs["op_"+e.X] = true
		}
		if e.A.IsConst() {
			fs["literal_left"] = true
		}
		if e.A.IsConst() || e.B.IsConst() {
			fs["literal_operand"] = true
		}
	case "shift":
		fs["shift"] = true
		if e.T != nil && e.Sh >= e.T.W {
			fs["shift_ge_width"] = true
		}
		switch {
		case e.Left:
			fs["shl"] = true
		case e.T != nil && e.T.Signed():
			fs["shr_arith"] = true
		default:
			fs["shr_logical"] = true
		}
	case "not":
		fs["not"] = true
	case "neg":
		fs["neg"] = true
	case "idx":
		switch {
		case e.B.K == "lit":
			fs["index_const"] = true
		case e.B.K == "ivar":
			fs["index_loopvar"] = true
		default:
			fs["index_variable"] = true
		}
		if e.A.K == "idx" || e.A.K == "fld" {
			fs["nested_read"] = true
		}
	case "fld":
		fs["field_read"] = true
		if e.A.K == "idx" || e.A.K == "fld" {
			fs["nested_read"] = true
		}
	case "call":
		fs["call"] = true
		if len(e.Fn.Results) == 1 {
			fs["call_one_result"] = true
		}
		for _, a := range e.Args {
			if a.T != nil && !a.T.IsScalar() {
				fs["agg_argument"] = true
			}
			if a.K == "call" {
				fs["call_as_argument"] = true
			}
			fs.expr(a)
		}
	case "cast":
		if from := e.A.T; from != nil {
			switch {
			case e.T.W > from.W && from.Signed() && e.T.Signed():
				fs["cast_sext"] = true
			case e.T.W > from.W:
				fs["cast_zext"] = true
			case e.T.W < from.W:
				fs["cast_trunc"] = true
			default:
				fs["cast_samewidth"] = true
			}
		}
	}
	fs.expr(e.A)
	fs.expr(e.B)
}

// block walks statements; ifDepth / inLoop: enclosing ifs / loops.  Returns
// whether the block returns on every path.
func (fs featSet) block(ss []*Stmt, ifDepth int, inLoop bool) bool {
	ret := false
	for _, s := range ss {
		switch s.K {
		case "decl":
			if s.T.K == KBool {
				fs["bool_var"] = true
			}
			if !s.T.IsScalar() {
				switch {
				case s.E == nil:
					fs["agg_zero"] = true
				case s.E.K == "call":
				default:
					fs["agg_copy"] = true
				}
				if s.T.K == KArr {
					fs["array"] = true
					if s.T.Elem.K != KArr && !s.T.Elem.IsScalar() || s.T.Elem.K == KArr {
						fs["nested_agg"] = true
					}
				} else {
					fs["struct"] = true
					for _, f := range s.T.Fields {
						if !f.IsScalar() {
							fs["nested_agg"] = true
						}
					}
				}
			}
			if s.E != nil && s.E.K == "call" {
				fs["call_decl"] = true
			}
			if s.E == nil {
				fs["decl_zero"] = true
			} else {
				fs["decl_init"] = true
				if s.E.IsConst() {
					fs["decl_constant"] = true
				}
			}
			fs.expr(s.E)
		case "define":
			fs["define"] = true
			if len(s.Xs) > 1 {
				fs["multi_define"] = true
			} else if s.E.K == "call" {
				fs["call_decl"] = true
			}
			fs.expr(s.E)
		case "assign":
			fs["assign"] = true
			if s.E.IsConst() {
				fs["assign_constant"] = true
			}
			if len(s.LVs) > 1 {
				fs["multi_assign"] = true
			}
			for _, lv := range s.LVs {
				fs.lval(lv, inLoop)
			}
			if len(s.LVs) == 1 && len(s.LVs[0].Path) == 0 && s.LVs[0].T != nil && !s.LVs[0].T.IsScalar() {
				fs["agg_copy"] = true
				if ifDepth > 0 {
					fs["agg_assigned_in_if"] = true
				}
			}
			fs.expr(s.E)
		case "opassign", "incdec":
			fs[s.K] = true
			fs.lval(s.LVs[0], inLoop)
			if len(s.LVs[0].Path) > 0 {
				fs["opassign_component"] = true
			}
			fs.expr(desugared(s))
		case "if":
			fs["if"] = true
			if len(s.Else) > 0 {
				fs["if_else"] = true
			} else {
				fs["if_no_else"] = true
			}
			if ifDepth > 0 {
				fs["if_nested"] = true
			}
			if inLoop {
				fs["if_in_for"] = true
			}
			fs.expr(s.E)
			rt := fs.block(s.Then, ifDepth+1, inLoop)
			rf := fs.block(s.Else, ifDepth+1, inLoop)
			switch {
			case rt && rf:
				fs["both_return"] = true
				ret = true
			case rt || rf:
				fs["one_branch_returns"] = true
			}
		case "for":
			fs["for"] = true
			if !cmpHolds(s.Cmp, int64(s.Lo), int64(s.Hi)) {
				fs["for_zero_iters"] = true
			}
			if inLoop {
				fs["for_nested"] = true
			}
			if ifDepth > 0 {
				fs["for_in_if"] = true
			}
			fs.block(s.Then, ifDepth, true)
		case "ret", "retnamed":
			ret = true
			if ifDepth > 0 {
				fs["early_return"] = true
			}
			if ifDepth > 1 {
				fs["nested_return"] = true
			}
			if inLoop {
				fs["return_in_loop"] = true
				if ifDepth == 0 {
					fs["loop_body_returns"] = true
				}
			}
			if s.K == "retnamed" {
				fs["named_results"] = true
			}
			if len(s.Es) > 1 {
				fs["two_results"] = true
			}
			if len(s.Es) == 1 && s.Es[0].K == "call" && len(s.Es[0].Fn.Results) > 1 {
				fs["return_call_multi"] = true
			}
			for _, e := range s.Es {
				if e.IsConst() {
					fs["return_constant"] = true
				}
				fs.expr(e)
			}
		}
	}
	return ret
}

// lval: features of an l-value path.
func (fs featSet) lval(lv *LVal, inLoop bool) {
	if len(lv.Path) == 0 {
		return
	}
	if lv.Path[0].Idx != nil {
		fs["elem_write"] = true
	} else {
		fs["field_write"] = true
	}
	if len(lv.Path) > 1 {
		fs["nested_write"] = true
	}
	for _, a := range lv.Path {
		if a.Idx != nil && a.Idx.K == "ivar" {
			fs["store_index_loopvar"] = true
		}
	}
	if inLoop {
		fs["component_write_in_loop"] = true
	}
}

func featuresOf(p *Program) []string {
	fs := featSet{}
	fs.block(p.Main().Body, 0, false)
	mainNames := map[string]bool{}
	for _, pr := range p.Main().Params {
		mainNames[pr.Name] = true
		if !pr.T.IsScalar() {
			fs["agg_param"] = true
		}
	}
	for _, rt := range p.Main().Results {
		if !rt.IsScalar() {
			fs["agg_result"] = true
		}
	}
	for _, f := range p.Funcs[:len(p.Funcs)-1] {
		hs := featSet{}
		hs.block(f.Body, 0, false)
		for k := range hs {
			fs[k] = true
		}
		fs["helper"] = true
		if hs["early_return"] {
			fs["callee_early_return"] = true
		}
		if hs["call"] {
			fs["callee_calls"] = true
		}
		if len(f.Results) > 1 {
			fs["callee_multi_result"] = true
		}
		if f.Named != nil {
			fs["callee_named_results"] = true
		}
		for _, pr := range f.Params {
			if mainNames[pr.Name] {
				fs["callee_reuses_caller_names"] = true
			}
			if !pr.T.IsScalar() {
				fs["callee_agg_param"] = true
			}
		}
		for _, rt := range f.Results {
			if !rt.IsScalar() {
				fs["callee_agg_result"] = true
			}
		}
	}
	var out []string
	for k := range fs {
		out = append(out, k)
	}
	sort.Strings(out)
	return out
}

// ---------------------------------------------------------------- the mode

// genClass copies the class schedule of modeGen.
func genClass(r *hxlib.Rng, tier string, exhLimit int) genOpts {
	opts := genOpts{maxStmts: 5, maxDepth: 3}
	cls := r.Intn(100)
	switch {
	case cls < 45:
		opts.small = true
		opts.maxIn = exhLimit
		if tier == "thorough" && r.Intn(8) == 0 {
			opts.maxIn = 16
		}
	case cls < 90:
	case cls < 93:
		opts.defect = "lit_signed_narrow"
		opts.small = r.Bool()
		opts.maxIn = exhLimit
	case cls < 94:
		opts.defect = "const_left_unsigned"
	case cls < 97:
		opts.defect = "inner_shadow"
		opts.small = r.Bool()
		opts.maxIn = exhLimit
	case cls < 98:
		opts.defect = "cast_int_wider_uint"
		opts.small = r.Bool()
		opts.maxIn = exhLimit
	case cls < 99:
		opts.defect = "const_cast_shared"
		if r.Intn(3) == 0 {
			opts.defect = "const_signed_widening"
		}
		opts.small = r.Bool()
		opts.maxIn = exhLimit
	default:
		opts.defect = "named_result_zero"
		opts.small = r.Bool()
		opts.maxIn = exhLimit
	}
	if r.Intn(5) == 0 {
		opts.maxStmts = 8
	}
	return opts
}

func modeLower(args []string) {
	cf, o := hxlib.ParseCommon("lower", args, nil)
	defer o.Close()
	// NewRng(s) and NewRng(s+1) are one step apart (splitmix64): fork once so that
	// different seeds give unrelated program sets (also unrelated to mode gen's)
	root := hxlib.NewRng(cf.Seed ^ 0x10e7).Fork()
	exhLimit, nb := 12, 24
	if cf.Tier == "thorough" {
		exhLimit, nb = 14, 48
	}
	tied := 0
	tie := func(r *hxlib.Rng, p *Program, origin string, idx int) {
		src, sx := p.Src(), p.Sx()
		res := compileReal(src)
		if res.circ == nil {
			o.Count("lower_compile_rejected")
			o.Op("c03 LOWERREJ "+sx, "compile-"+clip(res.err, 300))
			return
		}
		ssx, _, _, err := ssaOf(src, res.circ)
		if err != nil {
			o.Count("lower_ssa_skipped")
			o.Op("c03 SSASKIP "+clip(fmt.Sprint(err), 200), "skip")
			return
		}
		var tys []*Ty
		for _, pr := range p.Main().Params {
			tys = append(tys, pr.T)
		}
		spec, tuples, exh := inputsFor(r, tys, exhLimit, nb)
		o.Op("c03 LOWER "+spec+" ( LOWER "+sx+" "+ssx+" )", evalAll(res.circ, tuples))
		o.Count("lower_programs")
		o.Count("lower_programs_" + origin)
		o.CountN("lower_evaluations", len(tuples))
		o.CountN("lower_gates", res.circ.NumGates)
		if exh {
			o.Count("lower_programs_exhaustive")
		}
		for _, k := range featuresOf(p) {
			o.Count("lowfeat_" + k)
		}
		if tied < 3 {
			o.Sample(map[string]any{"mode": "lower", "origin": origin, "case": idx, "src": src, "inputs": clip(spec, 200)})
		}
		tied++
	}
	// (a) the general generator, filtered
	for i := 0; i < cf.N; i++ {
		r := root.Fork()
		if cf.Only >= 0 && i != cf.Only {
			continue
		}
		p := genProgram(r, genClass(r, cf.Tier, exhLimit))
		o.Count("lower_gen_total")
		ok, why := inFragment(p)
		if !ok {
			o.Count("lower_outside_" + why)
			continue
		}
		o.Count("lower_gen_inside")
		tie(r, p, "gen", i)
	}
	// (b) the focused generator
	nf := cf.N * 3 / 5
	for i := 0; i < nf; i++ {
		r := root.Fork()
		if cf.Only >= 0 && cf.N+i != cf.Only {
			continue
		}
		p := genFragProgram(r)
		o.Count("lower_frag_total")
		if ok, why := inFragment(p); !ok {
			o.Count("lower_frag_not_in_fragment")
			o.Fail("c03-lower-harness-bug", map[string]any{"what": "focused generator left the fragment", "reason": why,
				"case": cf.N + i, "seed": cf.Seed, "source": clip(p.Src(), 3000)})
			continue
		}
		tie(r, p, "frag", cf.N+i)
	}
}

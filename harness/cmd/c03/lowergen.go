package main

// Focused generator of the `c03 lower` tie: programs built INSIDE the
// fragment of `Mpc.Mpcl.Ssa.lower` (lean/MpcVerif/Model/MpclLower.lean) from
// the AST types of ast.go, so Src() / Sx() are those of the general generator.
//
//   - main with 1-3 parameters (bool / intN / uintN, in 45% of the programs also
//     an array or a struct; 65% of the programs have <= 12 input bits and are
//     evaluated exhaustively; otherwise widths 1..8, 16, 31, 32, 33, 40, 64), 1-2
//     results (scalars; arrays / structs in the aggregate class);
//   - 55% of the programs have 1-2 helper functions (scalar / array / struct
//     parameters, 1-3 results, named results, early returns) that main (and the
//     second helper) calls: in expressions, `var x T = f(..)`, `x := f(..)`,
//     `x, y := f(..)`, `a, b = f(..)`, parameter names reused;
//   - aggregate class (45%): `[n]T`, `[2][m]T`, struct types (scalar fields, an
//     array field), `var v A`, `var v A = w`, `v = w`, element / field reads with
//     literal, loop-variable and computed (uintK, 2^K <= n) indices, element /
//     field writes `v[k] = e`, `v[i][j] = e`, `s.f = e`, `s.f[k] = e`, `v[k] op= e`,
//     aggregates assigned in if / else (phi on the flattened value), `for` over
//     an array;
//   - `var x T = e`, `var x T`, `x := e` (outside loops), `x = e`, `x op= e`,
//     `x <<= k`, `x++`, if / else / else-if incl. nested, early `return` (both
//     branches, one branch, else-less, nested partial, inside a loop body),
//     for loops with 0..4 iterations (< <= != >, steps 1 2), loop variable as an
//     operand;
//   - all operators of the fragment; literals are non-negative, in range and
//     never the signed-widening shape (litOkGo); a literal / loop variable
//     occurs only next to a non-constant operand; conditions are never constant;
//     divisors are `(e | 1)` or a non-zero literal (the SSA code evaluates both
//     branches, so no path may divide by zero); never intN -> wider uintM;
//   - every path ends in `return`, nothing follows a statement that returns on
//     every path, all declared names are pairwise distinct, no `:=` in loops; a
//     loop whose body returns on every path has >= 1 iteration and is last.

import (
	"fmt"
	"math/big"

	"verifharness/hxlib"
)

type fvar struct {
	name string
	t    *Ty
	loop bool
	lmax int
}

type fgen struct {
	r       *hxlib.Rng
	vars    []fvar
	ctr     int
	loops   int
	iters   int
	cost    int
	inBlock int
	small   bool
	palette []*Ty
	results []*Ty
	// calls and aggregates
	prog    *Program
	funcs   []*Func // helpers this function may call
	aggs    []*Ty   // aggregate types of this program (empty: scalar class)
	calls   int
	named   []string
}

const fragBudget = 30000

func (g *fgen) pct(n int) bool { return g.r.Intn(100) < n }

func (g *fgen) pick(ws ...int) int {
	tot := 0
	for _, w := range ws {
		tot += w
	}
	x := g.r.Intn(tot)
	for i, w := range ws {
		if x < w {
			return i
		}
		x -= w
	}
	return len(ws) - 1
}

func (g *fgen) fresh(prefix string) string {
	g.ctr++
	return fmt.Sprintf("%s%d", prefix, g.ctr)
}

func (g *fgen) width() int {
	if g.small {
		if g.pct(12) {
			return []int{16, 32, 33, 40, 64}[g.r.Intn(5)]
		}
		return 1 + g.r.Intn(8)
	}
	switch g.pick(48, 14, 30, 8) {
	case 0:
		return 1 + g.r.Intn(8)
	case 1:
		return 16
	case 2:
		return []int{31, 32, 33, 40, 64}[g.r.Intn(5)]
	default:
		return 9 + g.r.Intn(15)
	}
}

func (g *fgen) numTy() *Ty {
	w := g.width()
	if g.r.Bool() {
		return tInt(w)
	}
	return tUint(w)
}

func (g *fgen) paletteTy() *Ty {
	if g.pct(85) {
		return g.palette[g.r.Intn(len(g.palette))]
	}
	return g.numTy()
}

func (g *fgen) scalarTy() *Ty {
	if g.pct(12) {
		return tyBool
	}
	return g.paletteTy()
}

func (g *fgen) charge(op string, t *Ty) bool {
	w := 1
	if t.IsNum() {
		w = t.W
	}
	c := w * 2
	switch op {
	case "mul":
		c = w * w * 2
	case "div", "mod":
		c = w * w * 4
		if w < 32 {
			c = 32 * 32 * 4 // literal operands widen the divider
		}
	}
	c *= g.iters
	if g.cost+c > fragBudget {
		return false
	}
	g.cost += c
	return true
}

// ---------------------------------------------------------------- constants

func (g *fgen) lit(t *Ty, nonzero bool) *Expr {
	m := maxLit(t)
	if nonzero && m.Sign() == 0 {
		return nil
	}
	var v *big.Int
	switch g.pick(14, 14, 14, 10, 10, 10, 28) {
	case 0:
		v = big.NewInt(int64(g.r.Intn(2)))
	case 1:
		v = big.NewInt(int64(g.r.Intn(4)))
	case 2:
		v = new(big.Int).Set(m)
	case 3:
		v = new(big.Int).Sub(m, big.NewInt(1))
	case 4:
		v = new(big.Int).Lsh(big.NewInt(1), uint(g.r.Intn(m.BitLen()+1)))
	case 5:
		v = big.NewInt(int64(g.r.Intn(17)))
	default:
		v = new(big.Int).SetUint64(g.r.U64())
	}
	if v.Sign() < 0 {
		v.SetInt64(0)
	}
	if v.Cmp(m) > 0 {
		v.And(v, m)
	}
	if litOkGo(t.Signed(), t.W, v) != "" {
		// the signed-widening shape ([2^31, 2^32) at a signed type wider than 32 bits)
		v = big.NewInt(int64(g.r.Intn(100)))
		v.And(v, m)
	}
	if nonzero && v.Sign() == 0 {
		v.SetInt64(1)
	}
	e := &Expr{K: "lit", T: t, N: v}
	if g.pct(8) {
		e.Typed = true
	}
	return e
}

func (g *fgen) loopLeaf(t *Ty) *Expr {
	var c []fvar
	for _, v := range g.vars {
		if v.loop && fitsLoop(t, v.lmax) {
			c = append(c, v)
		}
	}
	if len(c) == 0 {
		return nil
	}
	v := c[g.r.Intn(len(c))]
	return &Expr{K: "ivar", X: v.name, T: t, Typed: g.pct(12)}
}

// constOperand: a literal or a loop variable of type t.
func (g *fgen) constOperand(t *Ty, nonzero bool) *Expr {
	if !nonzero && g.pct(40) {
		if e := g.loopLeaf(t); e != nil {
			return e
		}
	}
	return g.lit(t, nonzero)
}

// ---------------------------------------------------------------- numeric expressions

func (g *fgen) numVars() []fvar {
	var c []fvar
	for _, v := range g.vars {
		if !v.loop && v.t.IsNum() {
			c = append(c, v)
		}
	}
	return c
}

// castTo converts e to t (never intN -> wider uintM directly: through uintN).
func (g *fgen) castTo(t *Ty, e *Expr) *Expr {
	from := e.T
	if from.Eq(t) {
		return e
	}
	if from.Signed() && !t.Signed() && t.W > from.W {
		e = &Expr{K: "cast", T: tUint(from.W), A: e}
	}
	return &Expr{K: "cast", T: t, A: e}
}

func (g *fgen) numLeaf(t *Ty) *Expr {
	if e := g.extraLeaf(t); e != nil {
		return e
	}
	var same []fvar
	for _, v := range g.vars {
		if !v.loop && v.t.Eq(t) {
			same = append(same, v)
		}
	}
	if len(same) > 0 && g.pct(85) {
		v := same[g.r.Intn(len(same))]
		return &Expr{K: "var", X: v.name, T: v.t}
	}
	nv := g.numVars() // never empty: some parameter is numeric
	v := nv[g.r.Intn(len(nv))]
	return g.castTo(t, &Expr{K: "var", X: v.name, T: v.t})
}

func (g *fgen) num(t *Ty, d int) *Expr {
	if d <= 0 || g.pct(22) {
		return g.numLeaf(t)
	}
	switch g.pick(42, 11, 11, 5, 16, 15) {
	case 0:
		op := []string{"add", "sub", "mul", "and", "or", "xor", "clr", "add", "sub"}[g.r.Intn(9)]
		if !g.charge(op, t) {
			op = "xor"
		}
		return g.binNum(t, op, d)
	case 1:
		op := []string{"div", "mod"}[g.r.Intn(2)]
		if (t.Signed() && t.W == 1) || !g.charge(op, t) {
			return g.binNum(t, "add", d)
		}
		return g.divNum(t, op, d)
	case 2:
		a := g.num(t, d-1)
		sh := []int{0, 1, t.W - 1, t.W, t.W + 1, g.r.Intn(t.W + 1), 1 + g.r.Intn(3)}[g.r.Intn(7)]
		return &Expr{K: "shift", T: t, A: a, Sh: sh, Left: g.r.Bool()}
	case 3:
		return &Expr{K: "neg", T: t, A: g.num(t, d-1)}
	case 4:
		from := g.paletteTy()
		if g.pct(30) {
			from = g.numTy()
		}
		if from.Eq(t) {
			return g.num(t, d-1)
		}
		g.charge("cast", t)
		return g.castTo(t, g.num(from, d-1))
	default:
		return g.numLeaf(t)
	}
}

func (g *fgen) binNum(t *Ty, op string, d int) *Expr {
	a := g.num(t, d-1)
	if g.pct(30) {
		if b := g.constOperand(t, false); b != nil {
			if g.pct(25) {
				return &Expr{K: "bin", X: op, T: t, A: b, B: a}
			}
			return &Expr{K: "bin", X: op, T: t, A: a, B: b}
		}
	}
	return &Expr{K: "bin", X: op, T: t, A: a, B: g.num(t, d-1)}
}

// divNum: `/` `%` with a divisor that is non-zero on every input.
func (g *fgen) divNum(t *Ty, op string, d int) *Expr {
	a := g.num(t, d-1)
	var b *Expr
	if g.pct(45) {
		b = g.lit(t, true)
	}
	if b == nil {
		one := &Expr{K: "lit", T: t, N: big.NewInt(1)}
		b = &Expr{K: "bin", X: "or", T: t, A: g.num(t, d-1), B: one}
	}
	if g.pct(8) && !b.IsConst() {
		// constant dividend
		if c := g.lit(t, false); c != nil {
			a = c
		}
	}
	return &Expr{K: "bin", X: op, T: t, A: a, B: b}
}

// ---------------------------------------------------------------- boolean expressions

func (g *fgen) boolLeaf() *Expr {
	var c []fvar
	for _, v := range g.vars {
		if !v.loop && v.t.K == KBool {
			c = append(c, v)
		}
	}
	if len(c) == 0 {
		return nil
	}
	v := c[g.r.Intn(len(c))]
	return &Expr{K: "var", X: v.name, T: tyBool}
}

func (g *fgen) boolean(d int) *Expr {
	if e := g.extraLeaf(tyBool); e != nil && g.pct(50) {
		return e
	}
	if d <= 0 {
		if e := g.boolLeaf(); e != nil && g.pct(50) {
			return e
		}
		return g.cmp(1)
	}
	switch g.pick(12, 46, 10, 22, 10) {
	case 0:
		if e := g.boolLeaf(); e != nil {
			return e
		}
		return g.cmp(d)
	case 1:
		return g.cmp(d)
	case 2:
		return &Expr{K: "not", T: tyBool, A: g.boolean(d - 1)}
	case 3:
		op := []string{"land", "lor"}[g.r.Intn(2)]
		return &Expr{K: "bin", X: op, T: tyBool, A: g.boolean(d - 1), B: g.boolean(d - 1)}
	default:
		op := []string{"eq", "ne"}[g.r.Intn(2)]
		return &Expr{K: "bin", X: op, T: tyBool, A: g.boolean(d - 1), B: g.boolean(d - 1)}
	}
}

func (g *fgen) cmp(d int) *Expr {
	t := g.paletteTy()
	if nv := g.numVars(); g.pct(70) {
		t = nv[g.r.Intn(len(nv))].t
	}
	g.charge("cmp", t)
	op := []string{"eq", "ne", "lt", "le", "gt", "ge", "lt", "ge"}[g.r.Intn(8)]
	a := g.num(t, d-1)
	if g.pct(35) {
		if b := g.constOperand(t, false); b != nil {
			if g.pct(25) {
				return &Expr{K: "bin", X: op, T: tyBool, A: b, B: a}
			}
			return &Expr{K: "bin", X: op, T: tyBool, A: a, B: b}
		}
	}
	return &Expr{K: "bin", X: op, T: tyBool, A: a, B: g.num(t, d-1)}
}

func (g *fgen) expr(t *Ty, d int) *Expr {
	if t.K == KBool {
		return g.boolean(d)
	}
	return g.num(t, d)
}

// ---------------------------------------------------------------- statements

func (g *fgen) declare(name string, t *Ty) {
	g.vars = append(g.vars, fvar{name: name, t: t})
}

// scoped generates a nested block: its declarations end with it.
func (g *fgen) scoped(f func() []*Stmt) []*Stmt {
	save := len(g.vars)
	g.inBlock++
	out := f()
	g.inBlock--
	g.vars = g.vars[:save]
	return out
}

func (g *fgen) stmtDecl(t *Ty) *Stmt {
	name := g.fresh("v")
	if g.pct(22) {
		g.declare(name, t)
		return &Stmt{K: "decl", X: name, T: t}
	}
	e := g.expr(t, 2+g.r.Intn(2))
	g.declare(name, t)
	if g.pct(25) && g.loops == 0 && t.K != KBool {
		return &Stmt{K: "define", Xs: []string{name}, E: e}
	}
	return &Stmt{K: "decl", X: name, T: t, E: e}
}

func (g *fgen) stmtAssign() *Stmt {
	var c []fvar
	for _, v := range g.vars {
		if !v.loop && v.t.IsScalar() {
			c = append(c, v)
		}
	}
	v := c[g.r.Intn(len(c))]
	if g.pct(50) { // bias to recent variables
		v = c[len(c)-1-g.r.Intn((len(c)+1)/2)]
	}
	lv := &LVal{X: v.name, T: v.t}
	if v.t.IsNum() && g.pct(30) {
		int1 := v.t.Signed() && v.t.W == 1
		if g.pct(20) && !int1 {
			return &Stmt{K: "incdec", LVs: []*LVal{lv}, Op: []string{"add", "sub"}[g.r.Intn(2)], RootT: v.t}
		}
		op := []string{"add", "sub", "mul", "or", "xor", "and", "shl", "shr", "div"}[g.r.Intn(9)]
		switch op {
		case "shl", "shr":
			return &Stmt{K: "opassign", LVs: []*LVal{lv}, Op: op, Lo: g.r.Intn(v.t.W + 2), RootT: v.t}
		case "div":
			if !int1 && g.charge("div", v.t) {
				if e := g.lit(v.t, true); e != nil {
					return &Stmt{K: "opassign", LVs: []*LVal{lv}, Op: op, E: e, RootT: v.t}
				}
			}
			op = "add"
		case "mul":
			if !g.charge("mul", v.t) {
				op = "add"
			}
		}
		var e *Expr
		if g.pct(35) {
			e = g.constOperand(v.t, false)
		}
		if e == nil {
			e = g.num(v.t, 2)
		}
		return &Stmt{K: "opassign", LVs: []*LVal{lv}, Op: op, E: e, RootT: v.t}
	}
	return &Stmt{K: "assign", LVs: []*LVal{lv}, E: g.expr(v.t, 2+g.r.Intn(2))}
}

func (g *fgen) stmtIf(depth int) *Stmt {
	s := &Stmt{K: "if", E: g.boolean(2)}
	s.Then = g.scoped(func() []*Stmt { return g.simple(1+g.r.Intn(2), depth-1) })
	if g.pct(50) {
		s.Else = g.scoped(func() []*Stmt {
			if depth > 1 && g.pct(25) {
				return []*Stmt{g.stmtIf(depth - 1)}
			}
			return g.simple(1+g.r.Intn(2), depth-1)
		})
		if len(s.Else) == 1 && s.Else[0].K == "if" && g.pct(70) {
			s.ElseIf = true
		}
	}
	return s
}

// stmtFor: bodyReturns: the body returns on every path (>= 1 iteration).
func (g *fgen) stmtFor(depth int, bodyReturns bool) *Stmt {
	n := g.pick(8, 20, 32, 25, 15) // iterations
	if g.iters >= 3 && n > 2 {
		n = 2
	}
	if bodyReturns && n == 0 {
		n = 1
	}
	step := 1
	if g.pct(20) {
		step = 2
	}
	lo := g.r.Intn(3)
	form := g.pick(55, 15, 15, 15)
	if (form == 1 || form == 3) && lo == 0 {
		lo = 1 // no negative bound
	}
	last := lo + (n-1)*step
	s := &Stmt{K: "for", X: g.fresh("i"), IncForm: g.r.Intn(3)}
	switch form {
	case 0:
		s.Lo, s.Cmp, s.Hi, s.Step = lo, "lt", last+1, step
		if n == 0 {
			s.Hi = lo
		}
	case 1:
		s.Lo, s.Cmp, s.Hi, s.Step = lo, "le", last, step
		if n == 0 {
			s.Hi = lo - 1
		}
	case 2:
		s.Lo, s.Cmp, s.Hi, s.Step = lo, "ne", last+step, step
		if n == 0 {
			s.Hi = lo
		}
	default:
		s.Lo, s.Cmp, s.Hi, s.Step = last, "gt", lo-1, -step
		if n == 0 {
			s.Lo, s.Hi = lo, lo
		}
	}
	lmax := s.Lo
	if last > lmax {
		lmax = last
	}
	save := len(g.vars)
	saveIt := g.iters
	g.vars = append(g.vars, fvar{name: s.X, t: tInt(32), loop: true, lmax: lmax})
	if n > 0 {
		g.iters *= n
	}
	g.loops++
	g.inBlock++
	nb := 1 + g.r.Intn(3)
	if bodyReturns {
		s.Then = append(g.simple(nb-1, depth-1), g.retStmt())
	} else if g.pct(12) && g.loops == 1 {
		// partial early return inside the loop body (never on every path)
		at := g.r.Intn(nb + 1)
		s.Then = g.simple(at, depth-1)
		s.Then = append(s.Then, &Stmt{K: "if", E: g.boolean(2),
			Then: g.scoped(func() []*Stmt { return []*Stmt{g.retStmt()} })})
		s.Then = append(s.Then, g.simple(nb-at, depth-1)...)
	} else {
		s.Then = g.simple(nb, depth-1)
	}
	g.inBlock--
	g.loops--
	g.iters = saveIt
	g.vars = g.vars[:save]
	return s
}

// simple: n statements none of which returns on every path.
func (g *fgen) simple(n int, depth int) []*Stmt {
	var out []*Stmt
	for i := 0; i < n; i++ {
		ws := []int{26, 30, 20, 14, 10}
		if g.inBlock > 0 {
			ws = []int{10, 55, 15, 10, 10}
		}
		k := g.pick(ws...)
		if depth <= 0 && (k == 2 || k == 3) {
			k = 1
		}
		if k == 3 && (g.loops >= 2 || g.iters > 4) {
			k = 1
		}
		if x := g.extraStmt(); x != nil {
			out = append(out, x...)
			continue
		}
		switch k {
		case 0:
			out = append(out, g.stmtDecl(g.scalarTy()))
		case 1:
			out = append(out, g.stmtAssign())
		case 2:
			out = append(out, g.stmtIf(depth))
		case 3:
			out = append(out, g.stmtFor(depth, false))
		default:
			out = append(out, g.stmtDecl(tyBool))
		}
	}
	return out
}

// mixLive folds up to three live scalar variables into a result.
func (g *fgen) mixLive(t *Ty, e *Expr) *Expr {
	var cand []fvar
	for i := len(g.vars) - 1; i >= 0; i-- {
		if !g.vars[i].loop && g.vars[i].t.IsScalar() {
			cand = append(cand, g.vars[i])
		}
	}
	n := 1 + g.r.Intn(3)
	for k := 0; k < n && len(cand) > 0; k++ {
		idx := g.r.Intn(len(cand))
		if g.pct(60) {
			idx = g.r.Intn((len(cand) + 1) / 2)
		}
		v := cand[idx]
		cand = append(cand[:idx], cand[idx+1:]...)
		ve := &Expr{K: "var", X: v.name, T: v.t}
		switch {
		case t.K == KBool && v.t.K == KBool:
			e = &Expr{K: "bin", X: []string{"eq", "ne"}[g.r.Intn(2)], T: tyBool, A: e, B: ve}
		case t.K == KBool && v.t.IsNum():
			c := &Expr{K: "bin", X: "ne", T: tyBool, A: ve, B: &Expr{K: "shift", A: ve, Sh: 1, T: v.t}}
			e = &Expr{K: "bin", X: "ne", T: tyBool, A: e, B: c}
		case t.IsNum() && v.t.IsNum():
			op := []string{"add", "xor", "sub"}[g.r.Intn(3)]
			e = &Expr{K: "bin", X: op, T: t, A: e, B: g.castTo(t, ve)}
		}
	}
	return e
}

func (g *fgen) retStmt() *Stmt {
	if g.named != nil {
		return &Stmt{K: "retnamed", Xs: g.named}
	}
	// return f(..): a helper with exactly these results delivers all of them
	if len(g.results) >= 2 && g.pct(30) {
		for _, f := range g.funcs {
			if len(f.Results) != len(g.results) {
				continue
			}
			same := true
			for i := range f.Results {
				if !tyEqGo(f.Results[i], g.results[i]) {
					same = false
				}
			}
			if same {
				if call := g.callOf(f, 2); call != nil {
					return &Stmt{K: "ret", Es: []*Expr{call}}
				}
			}
		}
	}
	s := &Stmt{K: "ret"}
	for _, rt := range g.results {
		if !rt.IsScalar() {
			s.Es = append(s.Es, g.aggValue(rt))
			continue
		}
		s.Es = append(s.Es, g.mixLive(rt, g.expr(rt, 2)))
	}
	return s
}

// tail: statements that return on EVERY path (and nothing after that).
func (g *fgen) tail(depth int) []*Stmt {
	out := g.simple(g.pick(35, 40, 25), depth)
	if depth <= 0 || g.pct(30) {
		return append(out, g.retStmt())
	}
	branch := func() []*Stmt { return g.scoped(func() []*Stmt { return g.tail(depth - 1) }) }
	plain := func(lo int) []*Stmt {
		return g.scoped(func() []*Stmt { return g.simple(lo+g.r.Intn(2), depth-1) })
	}
	switch g.pick(22, 30, 24, 24, 6) {
	case 4: // a loop whose body returns on every path (the first iteration returns)
		if g.loops == 0 {
			return append(out, g.stmtFor(depth, true))
		}
		return append(out, g.retStmt())
	case 0: // both branches return
		s := &Stmt{K: "if", E: g.boolean(2)}
		s.Then = branch()
		s.Else = branch()
		if len(s.Else) == 1 && s.Else[0].K == "if" && g.pct(70) {
			s.ElseIf = true
		}
		return append(out, s)
	case 1: // else-less early return
		s := &Stmt{K: "if", E: g.boolean(2)}
		s.Then = branch()
		out = append(out, s)
	case 2: // if / else, exactly one branch returns
		s := &Stmt{K: "if", E: g.boolean(2)}
		if g.r.Bool() {
			s.Then = branch()
			s.Else = plain(1)
		} else {
			s.Then = plain(1)
			s.Else = branch()
		}
		out = append(out, s)
	default: // nested partial return
		s := &Stmt{K: "if", E: g.boolean(2)}
		s.Then = g.scoped(func() []*Stmt {
			th := g.simple(g.r.Intn(2), depth-1)
			in := &Stmt{K: "if", E: g.boolean(2)}
			in.Then = g.scoped(func() []*Stmt { return g.tail(0) })
			if g.pct(35) {
				in.Else = plain(1)
			}
			th = append(th, in)
			return append(th, g.simple(g.r.Intn(2), depth-1)...)
		})
		switch g.pick(45, 30, 25) {
		case 1:
			s.Else = plain(1)
		case 2:
			s.Else = g.scoped(func() []*Stmt { return g.tail(0) })
		}
		out = append(out, s)
	}
	return append(out, g.tail(depth-1)...)
}

// ---------------------------------------------------------------- aggregates and calls

// aggVars: visible variables of exactly type t.
func (g *fgen) aggVars(t *Ty) []fvar {
	var c []fvar
	for _, v := range g.vars {
		if !v.loop && tyEqGo(v.t, t) {
			c = append(c, v)
		}
	}
	return c
}

// aggValue: an expression of the aggregate type t (a variable; every aggregate
// type in use has one: the generator declares `var z T` up front).
func (g *fgen) aggValue(t *Ty) *Expr {
	c := g.aggVars(t)
	if len(c) == 0 {
		panic("lowergen: no variable of type " + t.Src())
	}
	v := c[g.r.Intn(len(c))]
	return &Expr{K: "var", X: v.name, T: v.t}
}

// index: an index expression for an array of n elements: literal, loop variable
// in range, or computed of type uintK with 2^K <= n.
func (g *fgen) index(n int, allowVar bool) *Expr {
	var loops []fvar
	for _, v := range g.vars {
		if v.loop && v.lmax < n {
			loops = append(loops, v)
		}
	}
	if len(loops) > 0 && g.pct(55) {
		return &Expr{K: "ivar", X: loops[g.r.Intn(len(loops))].name, T: tInt(32)}
	}
	if allowVar && n >= 2 && g.pct(35) {
		k := log2floor(n)
		if k > 2 {
			k = 2
		}
		return g.num(tUint(k), 1)
	}
	return lit32(g.r.Intn(n))
}

// components: readable places of scalar type t inside aggregate variables.
func (g *fgen) components(t *Ty) []*Expr {
	var out []*Expr
	for _, v := range g.vars {
		if v.loop || v.t.IsScalar() {
			continue
		}
		ve := &Expr{K: "var", X: v.name, T: v.t}
		switch v.t.K {
		case KArr:
			if tyEqGo(v.t.Elem, t) {
				out = append(out, &Expr{K: "idx", A: ve, B: g.index(v.t.N, true), T: t})
			} else if v.t.Elem.K == KArr && tyEqGo(v.t.Elem.Elem, t) {
				in := &Expr{K: "idx", A: ve, B: g.index(v.t.N, false), T: v.t.Elem}
				out = append(out, &Expr{K: "idx", A: in, B: g.index(v.t.Elem.N, true), T: t})
			}
		case KStruct:
			for i, f := range v.t.Fields {
				fe := &Expr{K: "fld", A: ve, Fi: i, T: f}
				if tyEqGo(f, t) {
					out = append(out, fe)
				} else if f.K == KArr && tyEqGo(f.Elem, t) {
					out = append(out, &Expr{K: "idx", A: fe, B: g.index(f.N, true), T: t})
				}
			}
		}
	}
	return out
}

// callOf: a call of helper f with fresh argument expressions (never constants,
// exact parameter types), nil when an aggregate argument has no source.
func (g *fgen) callOf(f *Func, d int) *Expr {
	if g.calls >= 3 || g.iters > 2 {
		return nil
	}
	var args []*Expr
	for _, p := range f.Params {
		if p.T.IsScalar() {
			args = append(args, g.expr(p.T, d))
		} else {
			if len(g.aggVars(p.T)) == 0 {
				return nil
			}
			args = append(args, g.aggValue(p.T))
		}
	}
	g.calls++
	g.cost += 1500 * g.iters
	return &Expr{K: "call", Fn: f, Args: args}
}

// extraLeaf: a component read or a call of type t (nil: use the ordinary leaves).
func (g *fgen) extraLeaf(t *Ty) *Expr {
	if len(g.aggs) > 0 && g.pct(30) {
		if cs := g.components(t); len(cs) > 0 {
			return cs[g.r.Intn(len(cs))]
		}
	}
	if len(g.funcs) > 0 && g.pct(12) {
		var c []*Func
		for _, f := range g.funcs {
			if len(f.Results) == 1 && tyEqGo(f.Results[0], t) {
				c = append(c, f)
			}
		}
		if len(c) > 0 {
			if e := g.callOf(c[g.r.Intn(len(c))], 1); e != nil {
				e.T = t
				return e
			}
		}
	}
	return nil
}

// lvals: component l-values (literal / loop-variable indices only).
func (g *fgen) lvals() []*LVal {
	var out []*LVal
	ci := func(n int) *Expr { return g.index(n, false) }
	for _, v := range g.vars {
		if v.loop || v.t.IsScalar() {
			continue
		}
		switch v.t.K {
		case KArr:
			if v.t.Elem.IsScalar() {
				out = append(out, &LVal{X: v.name, Path: []Acc{{Idx: ci(v.t.N)}}, T: v.t.Elem})
			} else if v.t.Elem.K == KArr {
				out = append(out, &LVal{X: v.name, Path: []Acc{{Idx: ci(v.t.N)}, {Idx: ci(v.t.Elem.N)}}, T: v.t.Elem.Elem})
				out = append(out, &LVal{X: v.name, Path: []Acc{{Idx: ci(v.t.N)}}, T: v.t.Elem})
			}
		case KStruct:
			for i, f := range v.t.Fields {
				if f.K == KArr {
					out = append(out, &LVal{X: v.name, Path: []Acc{{Fi: i}, {Idx: ci(f.N)}}, T: f.Elem})
				} else {
					out = append(out, &LVal{X: v.name, Path: []Acc{{Fi: i}}, T: f})
				}
			}
		}
	}
	return out
}

func (g *fgen) rootT(name string) *Ty {
	for i := len(g.vars) - 1; i >= 0; i-- {
		if g.vars[i].name == name {
			return g.vars[i].t
		}
	}
	return nil
}

// extraStmt: a statement over aggregates or a call statement (nil: an ordinary one).
func (g *fgen) extraStmt() []*Stmt {
	if len(g.aggs) > 0 && g.pct(38) {
		switch g.pick(22, 48, 12, 18) {
		case 0: // var v A / var v A = w
			t := g.aggs[g.r.Intn(len(g.aggs))]
			name := g.fresh("v")
			st := &Stmt{K: "decl", X: name, T: t}
			if g.pct(50) {
				st.E = g.aggValue(t)
			}
			g.declare(name, t)
			return []*Stmt{st}
		case 1: // component store
			lvs := g.lvals()
			if len(lvs) == 0 {
				return nil
			}
			lv := lvs[g.r.Intn(len(lvs))]
			if !lv.T.IsScalar() {
				// a whole row of a 2-D array
				if len(g.aggVars(lv.T)) == 0 {
					return nil
				}
				return []*Stmt{{K: "assign", LVs: []*LVal{lv}, E: g.aggValue(lv.T)}}
			}
			if lv.T.IsNum() && g.pct(25) && !(lv.T.Signed() && lv.T.W == 1) {
				root := g.rootT(lv.X)
				if g.pct(30) {
					return []*Stmt{{K: "incdec", LVs: []*LVal{lv}, Op: []string{"add", "sub"}[g.r.Intn(2)], RootT: root}}
				}
				op := []string{"add", "sub", "or", "xor", "and", "shl", "shr"}[g.r.Intn(7)]
				if op == "shl" || op == "shr" {
					return []*Stmt{{K: "opassign", LVs: []*LVal{lv}, Op: op, Lo: g.r.Intn(lv.T.W + 2), RootT: root}}
				}
				return []*Stmt{{K: "opassign", LVs: []*LVal{lv}, Op: op, E: g.num(lv.T, 2), RootT: root}}
			}
			var e *Expr
			if lv.T.IsNum() && g.pct(20) {
				e = g.lit(lv.T, false) // a constant into a component
			}
			if e == nil {
				e = g.expr(lv.T, 2)
			}
			return []*Stmt{{K: "assign", LVs: []*LVal{lv}, E: e}}
		case 2: // v = w
			t := g.aggs[g.r.Intn(len(g.aggs))]
			c := g.aggVars(t)
			if len(c) < 2 {
				return nil
			}
			dst := c[g.r.Intn(len(c))]
			return []*Stmt{{K: "assign", LVs: []*LVal{{X: dst.name, T: t}}, E: g.aggValue(t)}}
		default: // for over an array
			if g.loops > 0 || g.iters > 1 {
				return nil
			}
			var arrs []fvar
			for _, v := range g.vars {
				if !v.loop && v.t.K == KArr && v.t.Elem.IsNum() {
					arrs = append(arrs, v)
				}
			}
			nv := g.numVars()
			if len(arrs) == 0 || len(nv) == 0 {
				return nil
			}
			a := arrs[g.r.Intn(len(arrs))]
			acc := nv[g.r.Intn(len(nv))]
			i := g.fresh("i")
			el := &Expr{K: "idx", A: &Expr{K: "var", X: a.name, T: a.t}, B: &Expr{K: "ivar", X: i, T: tInt(32)}, T: a.t.Elem}
			op := []string{"add", "xor", "sub"}[g.r.Intn(3)]
			body := []*Stmt{{K: "assign", LVs: []*LVal{{X: acc.name, T: acc.t}},
				E: &Expr{K: "bin", X: op, T: acc.t, A: &Expr{K: "var", X: acc.name, T: acc.t}, B: g.castTo(acc.t, el)}}}
			if g.pct(40) {
				body = append(body, &Stmt{K: "assign", LVs: []*LVal{{X: a.name, Path: []Acc{{Idx: &Expr{K: "ivar", X: i, T: tInt(32)}}}, T: a.t.Elem}},
					E: g.castTo(a.t.Elem, &Expr{K: "var", X: acc.name, T: acc.t})})
			}
			return []*Stmt{{K: "for", X: i, Lo: 0, Cmp: "lt", Hi: a.t.N, Step: 1, IncForm: g.r.Intn(3), Then: body}}
		}
	}
	if len(g.funcs) > 0 && g.pct(22) {
		f := g.funcs[g.r.Intn(len(g.funcs))]
		call := g.callOf(f, 2)
		if call == nil {
			return nil
		}
		if len(f.Results) == 1 {
			call.T = f.Results[0]
			name := g.fresh("v")
			g.declare(name, call.T)
			if g.loops == 0 && g.pct(40) {
				return []*Stmt{{K: "define", Xs: []string{name}, E: call}}
			}
			return []*Stmt{{K: "decl", X: name, T: call.T, E: call}}
		}
		if g.pct(45) {
			// a, b = f(..) into existing variables of the result types
			var lvs []*LVal
			used := map[string]bool{}
			ok := true
			for _, rt := range f.Results {
				var cand []fvar
				for _, v := range g.vars {
					if !v.loop && tyEqGo(v.t, rt) && !used[v.name] {
						cand = append(cand, v)
					}
				}
				if len(cand) == 0 {
					ok = false
					break
				}
				v := cand[g.r.Intn(len(cand))]
				used[v.name] = true
				lvs = append(lvs, &LVal{X: v.name, T: v.t})
			}
			if ok {
				return []*Stmt{{K: "assign", LVs: lvs, E: call}}
			}
		}
		if g.loops > 0 {
			g.calls--
			return nil
		}
		var xs []string
		for _, rt := range f.Results {
			n := g.fresh("v")
			xs = append(xs, n)
			g.declare(n, rt)
		}
		return []*Stmt{{K: "define", Xs: xs, E: call}}
	}
	return nil
}

// aggPalette: the aggregate types of an aggregate-class program.
func (g *fgen) aggPalette(p *Program) {
	elem := func() *Ty {
		if g.small {
			w := 1 + g.r.Intn(3)
			if g.r.Bool() {
				return tUint(w)
			}
			return tInt(w + 1)
		}
		if g.pct(10) {
			return tyBool
		}
		return g.paletteTy()
	}
	n := 1 + g.r.Intn(3)
	for i := 0; i < n; i++ {
		switch g.pick(50, 30, 20) {
		case 0:
			g.aggs = append(g.aggs, tArr(2+g.r.Intn(3), elem()))
		case 1:
			st := &Ty{K: KStruct, Name: fmt.Sprintf("S%d", len(p.Structs))}
			nf := 2 + g.r.Intn(2)
			for k := 0; k < nf; k++ {
				if k > 0 && g.pct(25) {
					st.Fields = append(st.Fields, tArr(2, elem()))
				} else if g.pct(15) {
					st.Fields = append(st.Fields, tyBool)
				} else {
					st.Fields = append(st.Fields, elem())
				}
			}
			p.Structs = append(p.Structs, st)
			g.aggs = append(g.aggs, st)
		default:
			e := elem()
			if e.Bits() > 8 {
				e = tUint(3)
			}
			g.aggs = append(g.aggs, tArr(2, tArr(2, e)))
		}
	}
}

// function generates one function with the given signature; helpers: callable functions.
func genFragFunc(r *hxlib.Rng, p *Program, small bool, palette []*Ty, aggs []*Ty, helpers []*Func, force []*Func,
	name string, index int, params []Param, results []*Ty, named bool) *Func {
	g := &fgen{r: r, iters: 1, small: small, palette: palette, aggs: aggs, funcs: helpers, prog: p, results: results}
	for _, pr := range params {
		g.declare(pr.Name, pr.T)
	}
	f := &Func{Name: name, Index: index, Params: params, Results: results}
	var pre []*Stmt
	if named {
		for i := range results {
			f.Named = append(f.Named, fmt.Sprintf("r%d", i))
			g.declare(f.Named[i], results[i])
		}
		g.named = f.Named
	}
	// every aggregate type in use has a variable
	need := append([]*Ty(nil), aggs...)
	for _, rt := range results {
		if !rt.IsScalar() {
			need = append(need, rt)
		}
	}
	for _, h := range helpers {
		for _, pr := range h.Params {
			if !pr.T.IsScalar() {
				need = append(need, pr.T)
			}
		}
	}
	for _, t := range need {
		if len(g.aggVars(t)) == 0 {
			nm := g.fresh("z")
			pre = append(pre, &Stmt{K: "decl", X: nm, T: t})
			g.declare(nm, t)
		}
	}
	if named {
		// as in the shipped named_return*.mpcl programs most named results are assigned early
		for i, rn := range f.Named {
			if g.pct(70) {
				var e *Expr
				if results[i].IsScalar() {
					e = g.expr(results[i], 2)
				} else {
					e = g.aggValue(results[i])
					if e.X == rn {
						continue
					}
				}
				pre = append(pre, &Stmt{K: "assign", LVs: []*LVal{{X: rn, T: results[i]}}, E: e})
			}
		}
	}
	// helpers nobody calls yet (an uncalled function is not compiled)
	for _, h := range force {
		call := g.callOf(h, 2)
		if call == nil {
			continue
		}
		if len(h.Results) == 1 {
			call.T = h.Results[0]
			nm := g.fresh("v")
			g.declare(nm, call.T)
			pre = append(pre, &Stmt{K: "decl", X: nm, T: call.T, E: call})
			continue
		}
		var xs []string
		for _, rt := range h.Results {
			nm := g.fresh("v")
			xs = append(xs, nm)
			g.declare(nm, rt)
		}
		pre = append(pre, &Stmt{K: "define", Xs: xs, E: call})
	}
	depth := 2
	if len(helpers) > 0 || name != "main" {
		depth = 1 + g.r.Intn(2)
	}
	f.Body = append(pre, append(g.simple(g.r.Intn(3), depth), g.tail(depth)...)...)
	return f
}

func genFragProgram(r *hxlib.Rng) *Program {
	p := &Program{Tags: map[string]bool{}}
	g := &fgen{r: r, iters: 1}
	g.small = g.pct(65)
	names := []string{"a", "b", "c"}
	var params []Param
	scalar := func(w int) *Ty {
		switch g.pick(10, 45, 45) {
		case 0:
			return tyBool
		case 1:
			return tInt(w)
		default:
			return tUint(w)
		}
	}
	aggClass := g.pct(45)
	withHelpers := g.pct(55)
	n := 1 + r.Intn(3)
	if g.small {
		left := 12
		for i := 0; i < n && left > 0; i++ {
			w := 1 + r.Intn(6)
			if g.pct(15) {
				w = 8
			}
			if w > left {
				w = left
			}
			t := scalar(w)
			left -= t.Bits()
			params = append(params, Param{Name: names[i], T: t})
		}
	} else {
		for i := 0; i < n; i++ {
			params = append(params, Param{Name: names[i], T: scalar(g.width())})
		}
	}
	hasNum := false
	for _, pr := range params {
		if pr.T.IsNum() {
			hasNum = true
			g.palette = append(g.palette, pr.T)
		}
	}
	if !hasNum {
		params[0].T = tUint(1 + r.Intn(4))
		g.palette = append(g.palette, params[0].T)
	}
	for k := r.Intn(3); k > 0; k-- {
		g.palette = append(g.palette, g.numTy())
	}
	if aggClass {
		g.aggPalette(p)
		// an aggregate parameter (small class: only if the input stays exhaustive)
		t := g.aggs[g.r.Intn(len(g.aggs))]
		bits := 0
		for _, pr := range params {
			bits += pr.T.Bits()
		}
		if g.pct(70) && (!g.small || bits+t.Bits() <= 12) && len(params) < 3 {
			params = append(params, Param{Name: names[len(params)], T: t})
		} else if g.pct(50) && (!g.small || bits-params[len(params)-1].T.Bits()+t.Bits() <= 12) && len(params) > 1 {
			params[len(params)-1].T = t
		}
		still := false
		for _, pr := range params {
			if pr.T.IsNum() {
				still = true
			}
		}
		if !still {
			params[0].T = g.palette[0]
		}
	}
	anyTy := func(allowAgg bool) *Ty {
		if allowAgg && len(g.aggs) > 0 && g.pct(30) {
			return g.aggs[g.r.Intn(len(g.aggs))]
		}
		return g.scalarTy()
	}
	// helpers
	var helpers []*Func
	if withHelpers {
		nh := 1 + g.pick(70, 30)
		for i := 0; i < nh; i++ {
			np := 1 + g.r.Intn(3)
			var hp []Param
			hnum := false
			for k := 0; k < np; k++ {
				t := anyTy(true)
				if t.IsNum() {
					hnum = true
				}
				nm := fmt.Sprintf("p%d", k)
				if g.pct(40) {
					nm = names[k] // helpers reuse the caller's names (call scoping)
				}
				hp = append(hp, Param{Name: nm, T: t})
			}
			if !hnum {
				hp[0].T = g.paletteTy()
			}
			nr := 1 + g.pick(50, 35, 15)
			var hr []*Ty
			for k := 0; k < nr; k++ {
				hr = append(hr, anyTy(k == 0 || g.pct(40)))
			}
			hpal := append([]*Ty(nil), g.palette...)
			for _, pr := range hp {
				if pr.T.IsNum() {
					hpal = append(hpal, pr.T, pr.T)
				}
			}
			h := genFragFunc(r, p, g.small, hpal, g.aggs, helpers, nil, fmt.Sprintf("f%d", i), i, hp, hr, g.pct(25))
			helpers = append(helpers, h)
			p.Funcs = append(p.Funcs, h)
		}
	}
	nres := 1
	if g.pct(35) {
		nres = 2
	}
	var results []*Ty
	for i := 0; i < nres; i++ {
		results = append(results, anyTy(true))
	}
	if len(helpers) > 0 && g.pct(25) {
		if h := helpers[g.r.Intn(len(helpers))]; len(h.Results) >= 2 {
			results = h.Results // `return f(..)` becomes possible
		}
	}
	// helpers no other helper calls: main calls them first
	called := map[*Func]bool{}
	var walkE func(e *Expr)
	walkE = func(e *Expr) {
		if e == nil {
			return
		}
		if e.K == "call" {
			called[e.Fn] = true
			for _, a := range e.Args {
				walkE(a)
			}
		}
		walkE(e.A)
		walkE(e.B)
	}
	var walkB func(ss []*Stmt)
	walkB = func(ss []*Stmt) {
		for _, s := range ss {
			walkE(s.E)
			for _, e := range s.Es {
				walkE(e)
			}
			walkB(s.Then)
			walkB(s.Else)
		}
	}
	for _, f := range helpers {
		walkB(f.Body)
	}
	var force []*Func
	for _, f := range helpers {
		if !called[f] {
			force = append(force, f)
		}
	}
	main := genFragFunc(r, p, g.small, g.palette, g.aggs, helpers, force, "main", len(helpers), params, results, false)
	p.Funcs = append(p.Funcs, main)
	return p
}

package main

// Focused generator of the `c03 lower` tie: programs built INSIDE the
// fragment of `Mpc.Mpcl.Ssa.lower` (lean/MpcVerif/Model/MpclLower.lean) from
// the AST types of ast.go, so Src() / Sx() are those of the general generator.
//
//   - one function, 1-3 scalar parameters (bool / intN / uintN; 65% of the
//     programs have <= 12 input bits and are evaluated exhaustively; otherwise
//     widths 1..8, 16, 31, 32, 33, 40, 64), 1-2 scalar results;
//   - `var x T = e`, `var x T`, `x := e` (outside loops), `x = e`, `x op= e`,
//     `x <<= k`, `x++`, if / else / else-if incl. nested, early `return` (both
//     branches, one branch, else-less, nested partial, inside a loop body),
//     for loops with 0..4 iterations (< <= != >, steps 1 2), loop variable as an
//     operand;
//   - all operators of the fragment; literals are non-negative, in range and
//     never the signed-widening shape (litOkGo); a literal / loop variable
//     occurs only next to a non-constant operand; conditions are never constant;
//     divisors are `(e | 1)` or a non-zero literal (the SSA code evaluates both
//     branches, so no path may divide by zero); never intN -> wider uintM;
//   - every path ends in `return`, nothing follows a statement that returns on
//     every path, all declared names are pairwise distinct, no `:=` in loops; a
//     loop whose body returns on every path has >= 1 iteration and is last.

import (
	"fmt"
	"math/big"

	"verifharness/hxlib"
)

type fvar struct {
	name string
	t    *Ty
	loop bool
	lmax int
}

type fgen struct {
	r       *hxlib.Rng
	vars    []fvar
	ctr     int
	loops   int
	iters   int
	cost    int
	inBlock int
	small   bool
	palette []*Ty
	results []*Ty
}

const fragBudget = 30000

func (g *fgen) pct(n int) bool { return g.r.Intn(100) < n }

func (g *fgen) pick(ws ...int) int {
	tot := 0
	for _, w := range ws {
		tot += w
	}
	x := g.r.Intn(tot)
	for i, w := range ws {
		if x < w {
			return i
		}
		x -= w
	}
	return len(ws) - 1
}

func (g *fgen) fresh(prefix string) string {
	g.ctr++
	return fmt.Sprintf("%s%d", prefix, g.ctr)
}

func (g *fgen) width() int {
	if g.small {
		if g.pct(12) {
			return []int{16, 32, 33, 40, 64}[g.r.Intn(5)]
		}
		return 1 + g.r.Intn(8)
	}
	switch g.pick(48, 14, 30, 8) {
	case 0:
		return 1 + g.r.Intn(8)
	case 1:
		return 16
	case 2:
		return []int{31, 32, 33, 40, 64}[g.r.Intn(5)]
	default:
		return 9 + g.r.Intn(15)
	}
}

func (g *fgen) numTy() *Ty {
	w := g.width()
	if g.r.Bool() {
		return tInt(w)
	}
	return tUint(w)
}

func (g *fgen) paletteTy() *Ty {
	if g.pct(85) {
		return g.palette[g.r.Intn(len(g.palette))]
	}
	return g.numTy()
}

func (g *fgen) scalarTy() *Ty {
	if g.pct(12) {
		return tyBool
	}
	return g.paletteTy()
}

func (g *fgen) charge(op string, t *Ty) bool {
	w := 1
	if t.IsNum() {
		w = t.W
	}
	c := w * 2
	switch op {
	case "mul":
		c = w * w * 2
	case "div", "mod":
		c = w * w * 4
		if w < 32 {
			c = 32 * 32 * 4 // literal operands widen the divider
		}
	}
	c *= g.iters
	if g.cost+c > fragBudget {
		return false
	}
	g.cost += c
	return true
}

// ---------------------------------------------------------------- constants

func (g *fgen) lit(t *Ty, nonzero bool) *Expr {
	m := maxLit(t)
	if nonzero && m.Sign() == 0 {
		return nil
	}
	var v *big.Int
	switch g.pick(14, 14, 14, 10, 10, 10, 28) {
	case 0:
		v = big.NewInt(int64(g.r.Intn(2)))
	case 1:
		v = big.NewInt(int64(g.r.Intn(4)))
	case 2:
		v = new(big.Int).Set(m)
	case 3:
		v = new(big.Int).Sub(m, big.NewInt(1))
	case 4:
		v = new(big.Int).Lsh(big.NewInt(1), uint(g.r.Intn(m.BitLen()+1)))
	case 5:
		v = big.NewInt(int64(g.r.Intn(17)))
	default:
		v = new(big.Int).SetUint64(g.r.U64())
	}
	if v.Sign() < 0 {
		v.SetInt64(0)
	}
	if v.Cmp(m) > 0 {
		v.And(v, m)
	}
	if litOkGo(t.Signed(), t.W, v) != "" {
		// the signed-widening shape ([2^31, 2^32) at a signed type wider than 32 bits)
		v = big.NewInt(int64(g.r.Intn(100)))
		v.And(v, m)
	}
	if nonzero && v.Sign() == 0 {
		v.SetInt64(1)
	}
	e := &Expr{K: "lit", T: t, N: v}
	if g.pct(8) {
		e.Typed = true
	}
	return e
}

func (g *fgen) loopLeaf(t *Ty) *Expr {
	var c []fvar
	for _, v := range g.vars {
		if v.loop && fitsLoop(t, v.lmax) {
			c = append(c, v)
		}
	}
	if len(c) == 0 {
		return nil
	}
	v := c[g.r.Intn(len(c))]
	return &Expr{K: "ivar", X: v.name, T: t, Typed: g.pct(12)}
}

// constOperand: a literal or a loop variable of type t.
func (g *fgen) constOperand(t *Ty, nonzero bool) *Expr {
	if !nonzero && g.pct(40) {
		if e := g.loopLeaf(t); e != nil {
			return e
		}
	}
	return g.lit(t, nonzero)
}

// ---------------------------------------------------------------- numeric expressions

func (g *fgen) numVars() []fvar {
	var c []fvar
	for _, v := range g.vars {
		if !v.loop && v.t.IsNum() {
			c = append(c, v)
		}
	}
	return c
}

// castTo converts e to t (never intN -> wider uintM directly: through uintN).
func (g *fgen) castTo(t *Ty, e *Expr) *Expr {
	from := e.T
	if from.Eq(t) {
		return e
	}
	if from.Signed() && !t.Signed() && t.W > from.W {
		e = &Expr{K: "cast", T: tUint(from.W), A: e}
	}
	return &Expr{K: "cast", T: t, A: e}
}

func (g *fgen) numLeaf(t *Ty) *Expr {
	var same []fvar
	for _, v := range g.vars {
		if !v.loop && v.t.Eq(t) {
			same = append(same, v)
		}
	}
	if len(same) > 0 && g.pct(85) {
		v := same[g.r.Intn(len(same))]
		return &Expr{K: "var", X: v.name, T: v.t}
	}
	nv := g.numVars() // never empty: some parameter is numeric
	v := nv[g.r.Intn(len(nv))]
	return g.castTo(t, &Expr{K: "var", X: v.name, T: v.t})
}

func (g *fgen) num(t *Ty, d int) *Expr {
	if d <= 0 || g.pct(22) {
		return g.numLeaf(t)
	}
	switch g.pick(42, 11, 11, 5, 16, 15) {
	case 0:
		op := []string{"add", "sub", "mul", "and", "or", "xor", "clr", "add", "sub"}[g.r.Intn(9)]
		if !g.charge(op, t) {
			op = "xor"
		}
		return g.binNum(t, op, d)
	case 1:
		op := []string{"div", "mod"}[g.r.Intn(2)]
		if (t.Signed() && t.W == 1) || !g.charge(op, t) {
			return g.binNum(t, "add", d)
		}
		return g.divNum(t, op, d)
	case 2:
		a := g.num(t, d-1)
		sh := []int{0, 1, t.W - 1, t.W, t.W + 1, g.r.Intn(t.W + 1), 1 + g.r.Intn(3)}[g.r.Intn(7)]
		return &Expr{K: "shift", T: t, A: a, Sh: sh, Left: g.r.Bool()}
	case 3:
		return &Expr{K: "neg", T: t, A: g.num(t, d-1)}
	case 4:
		from := g.paletteTy()
		if g.pct(30) {
			from = g.numTy()
		}
		if from.Eq(t) {
			return g.num(t, d-1)
		}
		g.charge("cast", t)
		return g.castTo(t, g.num(from, d-1))
	default:
		return g.numLeaf(t)
	}
}

func (g *fgen) binNum(t *Ty, op string, d int) *Expr {
	a := g.num(t, d-1)
	if g.pct(30) {
		if b := g.constOperand(t, false); b != nil {
			if g.pct(25) {
				return &Expr{K: "bin", X: op, T: t, A: b, B: a}
			}
			return &Expr{K: "bin", X: op, T: t, A: a, B: b}
		}
	}
	return &Expr{K: "bin", X: op, T: t, A: a, B: g.num(t, d-1)}
}

// divNum: `/` `%` with a divisor that is non-zero on every input.
func (g *fgen) divNum(t *Ty, op string, d int) *Expr {
	a := g.num(t, d-1)
	var b *Expr
	if g.pct(45) {
		b = g.lit(t, true)
	}
	if b == nil {
		one := &Expr{K: "lit", T: t, N: big.NewInt(1)}
		b = &Expr{K: "bin", X: "or", T: t, A: g.num(t, d-1), B: one}
	}
	if g.pct(8) && !b.IsConst() {
		// constant dividend
		if c := g.lit(t, false); c != nil {
			a = c
		}
	}
	return &Expr{K: "bin", X: op, T: t, A: a, B: b}
}

// ---------------------------------------------------------------- boolean expressions

func (g *fgen) boolLeaf() *Expr {
	var c []fvar
	for _, v := range g.vars {
		if !v.loop && v.t.K == KBool {
			c = append(c, v)
		}
	}
	if len(c) == 0 {
		return nil
	}
	v := c[g.r.Intn(len(c))]
	return &Expr{K: "var", X: v.name, T: tyBool}
}

func (g *fgen) boolean(d int) *Expr {
	if d <= 0 {
		if e := g.boolLeaf(); e != nil && g.pct(50) {
			return e
		}
		return g.cmp(1)
	}
	switch g.pick(12, 46, 10, 22, 10) {
	case 0:
		if e := g.boolLeaf(); e != nil {
			return e
		}
		return g.cmp(d)
	case 1:
		return g.cmp(d)
	case 2:
		return &Expr{K: "not", T: tyBool, A: g.boolean(d - 1)}
	case 3:
		op := []string{"land", "lor"}[g.r.Intn(2)]
		return &Expr{K: "bin", X: op, T: tyBool, A: g.boolean(d - 1), B: g.boolean(d - 1)}
	default:
		op := []string{"eq", "ne"}[g.r.Intn(2)]
		return &Expr{K: "bin", X: op, T: tyBool, A: g.boolean(d - 1), B: g.boolean(d - 1)}
	}
}

func (g *fgen) cmp(d int) *Expr {
	t := g.paletteTy()
	if nv := g.numVars(); g.pct(70) {
		t = nv[g.r.Intn(len(nv))].t
	}
	g.charge("cmp", t)
	op := []string{"eq", "ne", "lt", "le", "gt", "ge", "lt", "ge"}[g.r.Intn(8)]
	a := g.num(t, d-1)
	if g.pct(35) {
		if b := g.constOperand(t, false); b != nil {
			if g.pct(25) {
				return &Expr{K: "bin", X: op, T: tyBool, A: b, B: a}
			}
			return &Expr{K: "bin", X: op, T: tyBool, A: a, B: b}
		}
	}
	return &Expr{K: "bin", X: op, T: tyBool, A: a, B: g.num(t, d-1)}
}

func (g *fgen) expr(t *Ty, d int) *Expr {
	if t.K == KBool {
		return g.boolean(d)
	}
	return g.num(t, d)
}

// ---------------------------------------------------------------- statements

func (g *fgen) declare(name string, t *Ty) {
	g.vars = append(g.vars, fvar{name: name, t: t})
}

// scoped generates a nested block: its declarations end with it.
func (g *fgen) scoped(f func() []*Stmt) []*Stmt {
	save := len(g.vars)
	g.inBlock++
	out := f()
	g.inBlock--
	g.vars = g.vars[:save]
	return out
}

func (g *fgen) stmtDecl(t *Ty) *Stmt {
	name := g.fresh("v")
	if g.pct(22) {
		g.declare(name, t)
		return &Stmt{K: "decl", X: name, T: t}
	}
	e := g.expr(t, 2+g.r.Intn(2))
	g.declare(name, t)
	if g.pct(25) && g.loops == 0 && t.K != KBool {
		return &Stmt{K: "define", Xs: []string{name}, E: e}
	}
	return &Stmt{K: "decl", X: name, T: t, E: e}
}

func (g *fgen) stmtAssign() *Stmt {
	var c []fvar
	for _, v := range g.vars {
		if !v.loop {
			c = append(c, v)
		}
	}
	v := c[g.r.Intn(len(c))]
	if g.pct(50) { // bias to recent variables
		v = c[len(c)-1-g.r.Intn((len(c)+1)/2)]
	}
	lv := &LVal{X: v.name, T: v.t}
	if v.t.IsNum() && g.pct(30) {
		int1 := v.t.Signed() && v.t.W == 1
		if g.pct(20) && !int1 {
			return &Stmt{K: "incdec", LVs: []*LVal{lv}, Op: []string{"add", "sub"}[g.r.Intn(2)], RootT: v.t}
		}
		op := []string{"add", "sub", "mul", "or", "xor", "and", "shl", "shr", "div"}[g.r.Intn(9)]
		switch op {
		case "shl", "shr":
			return &Stmt{K: "opassign", LVs: []*LVal{lv}, Op: op, Lo: g.r.Intn(v.t.W + 2), RootT: v.t}
		case "div":
			if !int1 && g.charge("div", v.t) {
				if e := g.lit(v.t, true); e != nil {
					return &Stmt{K: "opassign", LVs: []*LVal{lv}, Op: op, E: e, RootT: v.t}
				}
			}
			op = "add"
		case "mul":
			if !g.charge("mul", v.t) {
				op = "add"
			}
		}
		var e *Expr
		if g.pct(35) {
			e = g.constOperand(v.t, false)
		}
		if e == nil {
			e = g.num(v.t, 2)
		}
		return &Stmt{K: "opassign", LVs: []*LVal{lv}, Op: op, E: e, RootT: v.t}
	}
	return &Stmt{K: "assign", LVs: []*LVal{lv}, E: g.expr(v.t, 2+g.r.Intn(2))}
}

func (g *fgen) stmtIf(depth int) *Stmt {
	s := &Stmt{K: "if", E: g.boolean(2)}
	s.Then = g.scoped(func() []*Stmt { return g.simple(1+g.r.Intn(2), depth-1) })
	if g.pct(50) {
		s.Else = g.scoped(func() []*Stmt {
			if depth > 1 && g.pct(25) {
				return []*Stmt{g.stmtIf(depth - 1)}
			}
			return g.simple(1+g.r.Intn(2), depth-1)
		})
		if len(s.Else) == 1 && s.Else[0].K == "if" && g.pct(70) {
			s.ElseIf = true
		}
	}
	return s
}

// stmtFor: bodyReturns: the body returns on every path (>= 1 iteration).
func (g *fgen) stmtFor(depth int, bodyReturns bool) *Stmt {
	n := g.pick(8, 20, 32, 25, 15) // iterations
	if g.iters >= 3 && n > 2 {
		n = 2
	}
	if bodyReturns && n == 0 {
		n = 1
	}
	step := 1
	if g.pct(20) {
		step = 2
	}
	lo := g.r.Intn(3)
	form := g.pick(55, 15, 15, 15)
	if (form == 1 || form == 3) && lo == 0 {
		lo = 1 // no negative bound
	}
	last := lo + (n-1)*step
	s := &Stmt{K: "for", X: g.fresh("i"), IncForm: g.r.Intn(3)}
	switch form {
	case 0:
		s.Lo, s.Cmp, s.Hi, s.Step = lo, "lt", last+1, step
		if n == 0 {
			s.Hi = lo
		}
	case 1:
		s.Lo, s.Cmp, s.Hi, s.Step = lo, "le", last, step
		if n == 0 {
			s.Hi = lo - 1
		}
	case 2:
		s.Lo, s.Cmp, s.Hi, s.Step = lo, "ne", last+step, step
		if n == 0 {
			s.Hi = lo
		}
	default:
		s.Lo, s.Cmp, s.Hi, s.Step = last, "gt", lo-1, -step
		if n == 0 {
			s.Lo, s.Hi = lo, lo
		}
	}
	lmax := s.Lo
	if last > lmax {
		lmax = last
	}
	save := len(g.vars)
	saveIt := g.iters
	g.vars = append(g.vars, fvar{name: s.X, t: tInt(32), loop: true, lmax: lmax})
	if n > 0 {
		g.iters *= n
	}
	g.loops++
	g.inBlock++
	nb := 1 + g.r.Intn(3)
	if bodyReturns {
		s.Then = append(g.simple(nb-1, depth-1), g.retStmt())
	} else if g.pct(12) && g.loops == 1 {
		// partial early return inside the loop body (never on every path)
		at := g.r.Intn(nb + 1)
		s.Then = g.simple(at, depth-1)
		s.Then = append(s.Then, &Stmt{K: "if", E: g.boolean(2),
			Then: g.scoped(func() []*Stmt { return []*Stmt{g.retStmt()} })})
		s.Then = append(s.Then, g.simple(nb-at, depth-1)...)
	} else {
		s.Then = g.simple(nb, depth-1)
	}
	g.inBlock--
	g.loops--
	g.iters = saveIt
	g.vars = g.vars[:save]
	return s
}

// simple: n statements none of which returns on every path.
func (g *fgen) simple(n int, depth int) []*Stmt {
	var out []*Stmt
	for i := 0; i < n; i++ {
		ws := []int{26, 30, 20, 14, 10}
		if g.inBlock > 0 {
			ws = []int{10, 55, 15, 10, 10}
		}
		k := g.pick(ws...)
		if depth <= 0 && (k == 2 || k == 3) {
			k = 1
		}
		if k == 3 && (g.loops >= 2 || g.iters > 4) {
			k = 1
		}
		switch k {
		case 0:
			out = append(out, g.stmtDecl(g.scalarTy()))
		case 1:
			out = append(out, g.stmtAssign())
		case 2:
			out = append(out, g.stmtIf(depth))
		case 3:
			out = append(out, g.stmtFor(depth, false))
		default:
			out = append(out, g.stmtDecl(tyBool))
		}
	}
	return out
}

// mixLive folds up to three live scalar variables into a result.
func (g *fgen) mixLive(t *Ty, e *Expr) *Expr {
	var cand []fvar
	for i := len(g.vars) - 1; i >= 0; i-- {
		if !g.vars[i].loop {
			cand = append(cand, g.vars[i])
		}
	}
	n := 1 + g.r.Intn(3)
	for k := 0; k < n && len(cand) > 0; k++ {
		idx := g.r.Intn(len(cand))
		if g.pct(60) {
			idx = g.r.Intn((len(cand) + 1) / 2)
		}
		v := cand[idx]
		cand = append(cand[:idx], cand[idx+1:]...)
		ve := &Expr{K: "var", X: v.name, T: v.t}
		switch {
		case t.K == KBool && v.t.K == KBool:
			e = &Expr{K: "bin", X: []string{"eq", "ne"}[g.r.Intn(2)], T: tyBool, A: e, B: ve}
		case t.K == KBool && v.t.IsNum():
			c := &Expr{K: "bin", X: "ne", T: tyBool, A: ve, B: &Expr{K: "shift", A: ve, Sh: 1, T: v.t}}
			e = &Expr{K: "bin", X: "ne", T: tyBool, A: e, B: c}
		case t.IsNum() && v.t.IsNum():
			op := []string{"add", "xor", "sub"}[g.r.Intn(3)]
			e = &Expr{K: "bin", X: op, T: t, A: e, B: g.castTo(t, ve)}
		}
	}
	return e
}

func (g *fgen) retStmt() *Stmt {
	s := &Stmt{K: "ret"}
	for _, rt := range g.results {
		s.Es = append(s.Es, g.mixLive(rt, g.expr(rt, 2)))
	}
	return s
}

// tail: statements that return on EVERY path (and nothing after that).
func (g *fgen) tail(depth int) []*Stmt {
	out := g.simple(g.pick(35, 40, 25), depth)
	if depth <= 0 || g.pct(30) {
		return append(out, g.retStmt())
	}
	branch := func() []*Stmt { return g.scoped(func() []*Stmt { return g.tail(depth - 1) }) }
	plain := func(lo int) []*Stmt {
		return g.scoped(func() []*Stmt { return g.simple(lo+g.r.Intn(2), depth-1) })
	}
	switch g.pick(22, 30, 24, 24, 6) {
	case 4: // a loop whose body returns on every path (the first iteration returns)
		if g.loops == 0 {
			return append(out, g.stmtFor(depth, true))
		}
		return append(out, g.retStmt())
	case 0: // both branches return
		s := &Stmt{K: "if", E: g.boolean(2)}
		s.Then = branch()
		s.Else = branch()
		if len(s.Else) == 1 && s.Else[0].K == "if" && g.pct(70) {
			s.ElseIf = true
		}
		return append(out, s)
	case 1: // else-less early return
		s := &Stmt{K: "if", E: g.boolean(2)}
		s.Then = branch()
		out = append(out, s)
	case 2: // if / else, exactly one branch returns
		s := &Stmt{K: "if", E: g.boolean(2)}
		if g.r.Bool() {
			s.Then = branch()
			s.Else = plain(1)
		} else {
			s.Then = plain(1)
			s.Else = branch()
		}
		out = append(out, s)
	default: // nested partial return
		s := &Stmt{K: "if", E: g.boolean(2)}
		s.Then = g.scoped(func() []*Stmt {
			th := g.simple(g.r.Intn(2), depth-1)
			in := &Stmt{K: "if", E: g.boolean(2)}
			in.Then = g.scoped(func() []*Stmt { return g.tail(0) })
			if g.pct(35) {
				in.Else = plain(1)
			}
			th = append(th, in)
			return append(th, g.simple(g.r.Intn(2), depth-1)...)
		})
		switch g.pick(45, 30, 25) {
		case 1:
			s.Else = plain(1)
		case 2:
			s.Else = g.scoped(func() []*Stmt { return g.tail(0) })
		}
		out = append(out, s)
	}
	return append(out, g.tail(depth-1)...)
}

func genFragProgram(r *hxlib.Rng) *Program {
	g := &fgen{r: r, iters: 1}
	g.small = g.pct(65)
	names := []string{"a", "b", "c"}
	var params []Param
	scalar := func(w int) *Ty {
		switch g.pick(10, 45, 45) {
		case 0:
			return tyBool
		case 1:
			return tInt(w)
		default:
			return tUint(w)
		}
	}
	n := 1 + r.Intn(3)
	if g.small {
		left := 12
		for i := 0; i < n && left > 0; i++ {
			w := 1 + r.Intn(6)
			if g.pct(15) {
				w = 8
			}
			if w > left {
				w = left
			}
			t := scalar(w)
			left -= t.Bits()
			params = append(params, Param{Name: names[i], T: t})
		}
	} else {
		for i := 0; i < n; i++ {
			params = append(params, Param{Name: names[i], T: scalar(g.width())})
		}
	}
	hasNum := false
	for _, pr := range params {
		if pr.T.IsNum() {
			hasNum = true
			g.palette = append(g.palette, pr.T)
		}
	}
	if !hasNum {
		params[0].T = tUint(1 + r.Intn(4))
		g.palette = append(g.palette, params[0].T)
	}
	for k := r.Intn(3); k > 0; k-- {
		g.palette = append(g.palette, g.numTy())
	}
	for _, pr := range params {
		g.declare(pr.Name, pr.T)
	}
	nres := 1
	if g.pct(35) {
		nres = 2
	}
	for i := 0; i < nres; i++ {
		g.results = append(g.results, g.scalarTy())
	}
	f := &Func{Name: "main", Index: 0, Params: params, Results: g.results}
	f.Body = append(g.simple(g.r.Intn(3), 2), g.tail(2)...)
	return &Program{Tags: map[string]bool{}, Funcs: []*Func{f}}
}

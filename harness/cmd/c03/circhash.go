package main

// c03 circhash [-slow]: compile every MPCL file of $MPCLDIR/testsuite and
// $MPCLDIR/apps/garbled/examples (input sizes of the first @Test vector, as
// testsuite_test.go) and print `<file> <gates> <wires> <sha256 of the gate
// list>`.  Used to see which circuits a compiler patch changes.

import (
	"crypto/sha256"
	"flag"
	"fmt"
	"io/fs"
	"os"
	"path/filepath"
	"sort"
	"strings"

	"github.com/markkurossi/mpc/circuit"
	"github.com/markkurossi/mpc/compiler"
	"github.com/markkurossi/mpc/compiler/utils"
)

func firstVectorSizes(file string) [][]int {
	params := utils.NewParams()
	defer params.Close()
	pkg, err := compiler.New(params).ParseFile(file)
	if err != nil {
		return nil
	}
	main, ok := pkg.Functions["main"]
	if !ok {
		return nil
	}
	for _, annotation := range main.Annotations {
		ann := strings.TrimSpace(annotation)
		if !strings.HasPrefix(ann, "@Test ") {
			continue
		}
		parts := reWhitespace.Split(ann, -1)
		var sizes [][]int
		for i := 1; i < len(parts); i++ {
			if parts[i] == "=" {
				break
			}
			s, err := circuit.InputSizes(strings.Split(parts[i], ","))
			if err != nil {
				return nil
			}
			sizes = append(sizes, s)
		}
		return sizes
	}
	return nil
}

func hashOne(file string) (line string) {
	defer func() {
		if e := recover(); e != nil {
			line = "panic " + clip(fmt.Sprint(e), 100)
		}
	}()
	params := utils.NewParams()
	defer params.Close()
	circ, _, err := compiler.New(params).CompileFile(file, firstVectorSizes(file))
	if err != nil {
		return "error " + clip(strings.ReplaceAll(err.Error(), "\n", " "), 100)
	}
	h := sha256.New()
	for _, g := range circ.Gates {
		fmt.Fprintf(h, "%d %d %d %d\n", g.Op, g.Input0, g.Input1, g.Output)
	}
	return fmt.Sprintf("%d %d %x", circ.NumGates, circ.NumWires, h.Sum(nil)[:8])
}

// examples that compile in seconds (the others build multi-million gate circuits)
var cheapExample = map[string]bool{"3party.mpcl": true, "add.mpcl": true, "aesblock.mpcl": true, "aesblock2.mpcl": true,
	"aescbc.mpcl": true, "aesexpand.mpcl": true, "and.mpcl": true, "chacha20block.mpcl": true, "credit.mpcl": true,
	"div.mpcl": true, "encrypt.mpcl": true, "hamming.mpcl": true, "hmac-sha256.mpcl": true, "millionaire.mpcl": true,
	"mult.mpcl": true, "poly1305.mpcl": true, "rps.mpcl": true, "sort.mpcl": true, "sub.mpcl": true}

func modeCircHash(args []string) {
	fl := flag.NewFlagSet("circhash", flag.ExitOnError)
	slow := fl.Bool("slow", false, "include testsuite/crypto/cipher")
	fl.Parse(args)
	repo := os.Getenv("MPCLDIR")
	var files []string
	for _, root := range []string{"testsuite", "apps/garbled/examples"} {
		filepath.WalkDir(filepath.Join(repo, root), func(path string, d fs.DirEntry, err error) error {
			if err == nil && !d.IsDir() && compiler.IsFilename(path) {
				files = append(files, path)
			}
			return nil
		})
	}
	sort.Strings(files)
	for _, f := range files {
		rel, _ := filepath.Rel(repo, f)
		b, _ := os.ReadFile(f)
		if strings.HasPrefix(rel, "apps/") && !cheapExample[filepath.Base(rel)] {
			continue
		}
		if strings.Contains(string(b), "crypto/sha512") || strings.Contains(rel, "ed25519") ||
			(!*slow && (strings.Contains(rel, "crypto/cipher") || strings.Contains(rel, "rsa"))) {
			continue
		}
		fmt.Fprintf(realStdout, "%s %s\n", rel, hashOne(f))
	}
}

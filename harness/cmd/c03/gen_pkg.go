package main

// Package-level declarations of package main in generated programs
// (genOpts.globals > 0; mode `pkg`): `var` (initialised / zero, scalars and
// aggregates), `const` (typed / untyped), `type Name [n]T`; used directly in
// main and in callees, shadowed by parameters, named results and function-level
// `var` locals of the same or another type, read and assigned before / inside /
// after data-dependent branches and unrolled loops (the ordinary statement
// generator does that: a package-level name is one more variable to it).
//
// Scoping both sides must agree on (Go; reference: lean/MpcVerif/Model/MpclPkg.lean):
// a name resolves to the innermost declaration - block locals, function-level
// locals / named results / parameters, package level last.  g.vars keeps the
// package-level names first, then the parameters, then the locals in
// declaration order; vis() hides an entry behind a later one of the same name.
//
// Kept out of the grammar, because neither the documentation nor a shipped test
// fixes it and the compiler is known to deviate from Go there:
//   - shadowing declarations inside if/for blocks (MPCL has function-level
//     scoping only: C03-inner-block-redeclaration) - shadows are declared at
//     function level;
//   - `g := e` for a package-level g (MPCL: assignment, "no new variables on
//     left side of :=") - shadows are declared with `var`;
//   - assignment to a package-level variable anywhere but in main, and any use
//     in a callee of a variable main assigns (Go: one shared store; MPCL: an
//     assignment in main is invisible to callees, one in a callee is
//     unconditional) - Global.MainOnly; the Lean side rejects such programs
//     (Pkg.ok, `bad-package`).

import (
	"fmt"
	"math/big"
)

// vis returns the variables visible by name at this point: an entry is hidden
// by a later entry of the same name; package-level constants are not variables
// (litOrConst uses them).
func (g *gen) vis() []gvar {
	if g.opts.globals == 0 {
		return g.vars
	}
	out := make([]gvar, 0, len(g.vars))
	for i, v := range g.vars {
		if v.gl != nil && v.gl.Const {
			continue
		}
		if g.blocked[v.name] {
			continue // declared (shadows earlier entries of its name) but not usable yet
		}
		if !g.hidden(i) {
			out = append(out, v)
		}
	}
	return out
}

func (g *gen) hidden(i int) bool {
	for j := i + 1; j < len(g.vars); j++ {
		if g.vars[j].name == g.vars[i].name {
			return true
		}
	}
	return false
}

func (g *gen) globalName(name string) bool {
	for _, gl := range g.p.Globals {
		if gl.Name == name {
			return true
		}
	}
	return false
}

// visGlobals: the package-level names (variables and constants) not shadowed here.
func (g *gen) visGlobals() []gvar {
	var out []gvar
	for i, v := range g.vars {
		if v.gl != nil && !g.hidden(i) {
			out = append(out, v)
		}
	}
	return out
}

// litOrConst: a literal operand, or a visible package-level constant of that type.
func (g *gen) litOrConst(t *Ty, op string, nonzero bool) *Expr {
	if g.opts.globals > 0 && t.IsNum() {
		var c []gvar
		for _, v := range g.visGlobals() {
			if v.gl.Const && v.t.Eq(t) && (!nonzero || v.gl.Init.Sign() != 0) {
				c = append(c, v)
			}
		}
		if len(c) > 0 && g.pct(45) {
			v := c[g.r.Intn(len(c))]
			e := &Expr{K: "cvar", X: v.name, T: t, N: v.gl.Init}
			g.typeConst(e, op)
			return e
		}
	}
	return g.lit(t, op, nonzero)
}

// enterFunction makes the package-level names visible in the function being
// generated (before its parameters, which may shadow them).
func (g *gen) enterFunction(isMain bool) {
	g.shadows = map[string]bool{}
	for _, gl := range g.p.Globals {
		if gl.MainOnly && !isMain {
			continue
		}
		g.vars = append(g.vars, gvar{name: gl.Name, t: gl.T, assignable: !gl.Const && gl.MainOnly && isMain, gl: gl})
	}
}

// shadowName decides whether the function-level `var` being generated takes the
// name of a visible package-level declaration (and with which type).
func (g *gen) shadowName(t *Ty) (string, *Ty) {
	if g.inBlock != 0 || g.loops != 0 {
		return "", nil
	}
	p := 18
	if g.opts.globals == 2 {
		p = 35
	}
	if !g.forceShadow && !g.pct(p) {
		return "", nil
	}
	c := g.visGlobals()
	if len(c) == 0 {
		return "", nil
	}
	v := c[g.r.Intn(len(c))]
	if g.pct(50) {
		t = v.t // same type as the package-level declaration
	}
	g.shadows[v.name] = true
	g.mustMix = append(g.mustMix, v.name)
	return v.name, t
}

// scopePrefix (dense class): the function starts with a function-level local
// shadowing a package-level name, followed by a data-dependent branch or a
// loop; the statement generator continues from there (the local is in mustMix:
// the results read it afterwards).
func (g *gen) scopePrefix(isMain bool, results []*Ty) ([]*Stmt, bool) {
	if g.opts.globals != 2 || !(isMain || g.pct(50)) {
		return nil, false
	}
	var out []*Stmt
	if g.pct(30) {
		// something first (may read the package-level name before it is shadowed)
		out = append(out, g.stmtDecl()...)
	}
	g.forceShadow = true
	out = append(out, g.stmtDecl()...)
	g.forceShadow = false
	var s []*Stmt
	term := false
	switch g.pick(55, 25, 20) {
	case 0:
		s, term = g.stmtIf(2, results)
	case 1:
		s = g.stmtTwinIf(2, results)
	default:
		s = g.stmtFor(2, results)
	}
	if s == nil {
		s, term = g.stmtIf(2, results)
	}
	out = append(out, s...)
	if term {
		g.tag("if_else_both_return")
	}
	return out, term
}

var (
	poolParamNames = []string{"a", "b", "c", "d", "p0", "p1", "p2"}
	poolOwnNames   = []string{"g0", "g1", "g2", "g3", "k0", "k1", "lim", "base", "cnt", "mask"}
)

// genGlobals creates the named array types and the package-level var / const
// declarations of the program.
func (g *gen) genGlobals() {
	p := g.p
	if g.pct(40) {
		na := 1 + g.r.Intn(2)
		for i := 0; i < na; i++ {
			e := g.paletteTy()
			n := 2 + g.r.Intn(3)
			if e.Bits()*n > 96 {
				n = 2
			}
			t := tArr(n, e)
			dup := false
			for _, o := range p.ArrTypes {
				if o.Eq(t) {
					dup = true // two named types of one structure are not mutually assignable in Go
				}
			}
			if dup {
				continue
			}
			t.Name = fmt.Sprintf("A%d", i)
			p.ArrTypes = append(p.ArrTypes, t)
			g.tag("pkg_named_array_type")
		}
	}
	n := 1 + g.r.Intn(3)
	if g.opts.globals == 2 {
		n = 2 + g.r.Intn(3)
	}
	used := map[string]bool{}
	for i := 0; i < n; i++ {
		var name string
		for try := 0; try < 20; try++ {
			switch g.pick(42, 6, 52) {
			case 0:
				name = poolParamNames[g.r.Intn(len(poolParamNames))]
			case 1:
				name = "r0"
			default:
				name = poolOwnNames[g.r.Intn(len(poolOwnNames))]
			}
			if !used[name] {
				break
			}
			name = ""
		}
		if name == "" {
			continue
		}
		used[name] = true
		gl := &Global{Name: name}
		switch g.pick(42, 20, 22, 16) {
		case 0: // var with initialiser
			gl.T = g.scalarTy()
			gl.Init = g.globalValue(gl.T)
		case 1: // zero value, any type
			if g.pct(50) {
				gl.T = g.aggTy()
			} else {
				gl.T = g.scalarTy()
			}
		case 2:
			gl.Const, gl.Untyped = true, true
			gl.T = g.paletteTy()
			gl.Init = g.constValue(gl.T)
		default:
			gl.Const = true
			gl.T = g.paletteTy()
			gl.Init = g.constValue(gl.T)
		}
		if !gl.Const {
			gl.MainOnly = g.pct(40)
		} else {
			// a constant may be declared after the functions using it; a variable may
			// not (MPCL: "undefined variable"; Go: any order - a compile-time rejection
			// that no documentation or shipped test speaks about, kept out of the grammar)
			gl.Last = g.pct(25)
		}
		p.Globals = append(p.Globals, gl)
	}
}

// constValue: the value of a package-level constant used at type t: a
// non-negative literal of at most 31 bits (its own constant is the 32-bit
// one, like the literals of typeConst).
func (g *gen) constValue(t *Ty) *big.Int {
	v := g.litValue(t, false)
	if v == nil {
		return big.NewInt(0)
	}
	if v.BitLen() > 31 {
		v = new(big.Int).And(v, big.NewInt(0x7fffffff))
	}
	if m := maxLit(t); v.Cmp(m) > 0 {
		v.And(v, m)
	}
	return v
}

// globalValue: the initialiser of a package-level variable of scalar type t.
func (g *gen) globalValue(t *Ty) *big.Int {
	if t.K == KBool {
		return big.NewInt(int64(g.r.Intn(2)))
	}
	v := g.litValue(t, false)
	if v == nil {
		return big.NewInt(0)
	}
	// a literal whose own 32/64-bit constant has the top bit set, given to a wider
	// signed type, is the known deviation C03-const-signed-widening
	if constCastRisky(t, v) == "const_signed_widening" {
		v = big.NewInt(int64(g.r.Intn(100)))
	}
	return v
}

// ---------------------------------------------------------------- measured coverage

// tagScopes walks the finished program with Go scoping and tags what the
// package-level names actually went through (counted as feat_pkg_*: the check
// obliges the classes it names, nothing is assumed from the generator's intent).
func tagScopes(p *Program) {
	gl := map[string]*Global{}
	for _, d := range p.Globals {
		gl[d.Name] = d
		switch {
		case d.Const && d.Untyped:
			p.Tags["pkg_const_untyped"] = true
		case d.Const:
			p.Tags["pkg_const_typed"] = true
		case d.Init == nil && !d.T.IsScalar():
			p.Tags["pkg_var_zero_aggregate"] = true
		case d.Init == nil:
			p.Tags["pkg_var_zero"] = true
		default:
			p.Tags["pkg_var_init"] = true
		}
		if d.Last {
			p.Tags["pkg_declared_after_functions"] = true
		}
	}
	for _, f := range p.Funcs {
		w := &swalk{p: p, gl: gl, sfx: "_callee", shadowed: map[string]*Ty{}, ifDone: map[string]bool{},
			forDone: map[string]bool{}, readGlobal: map[string]bool{}}
		if f == p.Main() {
			w.sfx = "_main"
		}
		w.push()
		for _, pr := range f.Params {
			w.declare(pr.Name, pr.T, "param")
		}
		for i, n := range f.Named {
			w.declare(n, f.Results[i], "result")
		}
		w.block(f.Body)
	}
}

type swalk struct {
	p          *Program
	gl         map[string]*Global
	sfx        string
	scopes     []map[string]*Ty
	shadowed   map[string]*Ty  // package-level names shadowed in this function -> type of the shadow
	ifDone     map[string]bool // ... and an if statement completed since
	forDone    map[string]bool // ... and a for statement completed since
	readGlobal map[string]bool // package-level names read in this function so far
	inIf       int
	inFor      int
}

func (w *swalk) tag(s string) {
	w.p.Tags["pkg_"+s] = true
	w.p.Tags["pkg_"+s+w.sfx] = true
}

func (w *swalk) push() { w.scopes = append(w.scopes, map[string]*Ty{}) }
func (w *swalk) pop()  { w.scopes = w.scopes[:len(w.scopes)-1] }

func (w *swalk) local(name string) bool { return w.localTy(name) != nil }

func (w *swalk) localTy(name string) *Ty {
	for i := len(w.scopes) - 1; i >= 0; i-- {
		if t := w.scopes[i][name]; t != nil {
			return t
		}
	}
	return nil
}

// resolve: the type of the declaration the name denotes here (innermost local,
// else the package level); nil if nothing declares it.
func (w *swalk) resolve(name string) *Ty {
	if t := w.localTy(name); t != nil {
		return t
	}
	if d := w.gl[name]; d != nil {
		return d.T
	}
	return nil
}

// use checks one use of a name at type t against the declaration it denotes
// HERE: the generator must never emit a name at the type of a declaration that
// is shadowed at this point (or not yet / no longer in scope).
func (w *swalk) use(name string, t *Ty) {
	d := w.resolve(name)
	switch {
	case d == nil:
		w.p.Tags["pkg_BUG_unbound_name"] = true
	case t != nil && !d.Eq(t):
		w.p.Tags["pkg_BUG_ill_scoped_use"] = true
	}
}

func (w *swalk) declare(name string, t *Ty, kind string) {
	again := w.scopes[len(w.scopes)-1][name] != nil
	w.scopes[len(w.scopes)-1][name] = t
	d := w.gl[name]
	if d == nil {
		return
	}
	if again {
		w.tag("BUG_redeclared_in_its_scope")
	}
	w.tag("shadow_by_" + kind)
	if d.Const {
		w.tag("shadow_of_const")
	}
	if t.Eq(d.T) {
		w.tag("shadow_same_type")
	} else {
		w.tag("shadow_other_type")
	}
	if w.readGlobal[name] {
		w.tag("read_before_shadow")
	}
	if w.inIf > 0 || w.inFor > 0 {
		w.tag("BUG_shadow_in_block")
	}
	w.shadowed[name] = t
	w.ifDone[name] = false
	w.forDone[name] = false
}

func (w *swalk) where(what string) {
	w.tag(what)
	if w.inIf > 0 {
		w.tag(what + "_in_if")
	}
	if w.inFor > 0 {
		w.tag(what + "_in_for")
	}
}

func (w *swalk) read(name string) {
	d := w.gl[name]
	if d == nil {
		return
	}
	if w.local(name) {
		w.where("shadow_read")
		if w.ifDone[name] {
			w.tag("shadow_read_after_if")
		}
		if w.forDone[name] {
			w.tag("shadow_read_after_for")
		}
		return
	}
	w.readGlobal[name] = true
	switch {
	case d.Const:
		w.where("const_read")
	case !d.T.IsScalar():
		w.where("var_aggregate_read")
	default:
		w.where("var_read")
	}
	if d.MainOnly && w.sfx != "_main" {
		w.tag("BUG_mainonly_in_callee")
	}
}

func (w *swalk) write(name string) {
	d := w.gl[name]
	if d == nil {
		return
	}
	if w.local(name) {
		w.where("shadow_assigned")
		return
	}
	w.where("var_assigned")
	if w.sfx != "_main" || d.Const || !d.MainOnly {
		w.tag("BUG_assignment_outside_class")
	}
}

func (w *swalk) expr(e *Expr) {
	if e == nil {
		return
	}
	switch e.K {
	case "var", "cvar":
		w.use(e.X, e.T)
		w.read(e.X)
	case "call":
		for _, a := range e.Args {
			w.expr(a)
		}
	default:
		w.expr(e.A)
		w.expr(e.B)
	}
}

func (w *swalk) lval(l *LVal, alsoRead bool) {
	t := w.resolve(l.X)
	for _, a := range l.Path {
		w.expr(a.Idx)
		switch {
		case t == nil:
		case a.Idx != nil && t.K == KArr:
			t = t.Elem
		case a.Idx == nil && t.K == KStruct && a.Fi < len(t.Fields):
			t = t.Fields[a.Fi]
		default:
			w.p.Tags["pkg_BUG_ill_scoped_use"] = true
			t = nil
		}
	}
	if t == nil && w.resolve(l.X) == nil {
		w.p.Tags["pkg_BUG_unbound_name"] = true
	} else if t != nil && l.T != nil && !t.Eq(l.T) {
		w.p.Tags["pkg_BUG_ill_scoped_use"] = true
	}
	if alsoRead || len(l.Path) > 0 {
		w.read(l.X)
	}
	w.write(l.X)
}

func (w *swalk) block(ss []*Stmt) {
	for _, s := range ss {
		w.stmt(s)
	}
}

func (w *swalk) stmt(s *Stmt) {
	switch s.K {
	case "decl":
		w.expr(s.E)
		w.declare(s.X, s.T, "local")
	case "define":
		w.expr(s.E)
		for i, x := range s.Xs {
			if w.gl[x] != nil && !w.local(x) {
				w.tag("BUG_define_of_package_name")
			}
			t := s.E.T
			if len(s.Xs) > 1 && s.E.Fn != nil && i < len(s.E.Fn.Results) {
				t = s.E.Fn.Results[i]
			}
			if t == nil {
				t = tyBool // unknown (never compared: the generator types every define)
				w.p.Tags["pkg_BUG_untyped_define"] = true
			}
			w.scopes[len(w.scopes)-1][x] = t
		}
	case "assign":
		w.expr(s.E)
		for _, l := range s.LVs {
			w.lval(l, false)
		}
	case "opassign", "incdec":
		w.expr(s.E)
		w.lval(s.LVs[0], true)
	case "if":
		w.expr(s.E)
		w.inIf++
		w.push()
		w.block(s.Then)
		w.pop()
		w.push()
		w.block(s.Else)
		w.pop()
		w.inIf--
		for n := range w.shadowed {
			w.ifDone[n] = true
		}
	case "for":
		w.inFor++
		w.push()
		w.scopes[len(w.scopes)-1][s.X] = tInt(32)
		w.block(s.Then)
		w.pop()
		w.inFor--
		for n := range w.shadowed {
			w.forDone[n] = true
		}
	case "ret":
		for _, e := range s.Es {
			w.expr(e)
		}
	case "retnamed":
		for _, x := range s.Xs {
			w.use(x, nil)
			w.read(x)
		}
	}
}

// illScoped: the scope-aware walk found a use of a name that does not denote,
// at that point, the declaration the generator meant (a generator defect: such
// a program is invalid MPCL and invalid in the reference alike).
func illScoped(p *Program) bool {
	for t := range p.Tags {
		if len(t) > 8 && t[:8] == "pkg_BUG_" {
			return true
		}
	}
	return false
}

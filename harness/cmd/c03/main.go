// Harness of property C03: the compiled circuit computes what the MPCL
// program means (translation validation against the Lean reference
// interpreter, lean/MpcVerif/Model/Mpcl.lean).
//
//	c03 gen       -seed S -n N -tier T -ops F -out F -meta F [-srcs F] [-defect D]
//	    random typed programs: the AST is printed as MPCL source for the real
//	    compiler (compiler.Compile + circuit.Compute) and serialised for the
//	    Lean driver; result line = outputs of the real circuit.
//	c03 pkg       as gen; every program has package-level var / const / type
//	    declarations of package main, shadowed by parameters and locals (gen_pkg.go)
//	c03 witness   the fixed programs (finding witnesses, shipped test programs)
//	c03 testsuite every `// @Test` vector of $MPCLDIR/testsuite through the real
//	    compiler, exactly as /repo/testsuite_test.go does (implementation-side oracle)
//	c03 src -file F -in v,v;v,v     compile one file and evaluate (replay helper)
package main

import (
	"bufio"
	"encoding/json"
	"flag"
	"fmt"
	"math/big"
	"os"
	"sort"
	"strings"

	"github.com/markkurossi/mpc/circuit"
	"github.com/markkurossi/mpc/compiler"
	"github.com/markkurossi/mpc/compiler/utils"

	"verifharness/hxlib"
)

func clip(s string, n int) string {
	if len(s) > n {
		return s[:n] + "..."
	}
	return s
}

type compiled struct {
	circ *circuit.Circuit
	err  string
}

// compileReal runs the real compiler API exactly as apps/garbled does
// (default parameters: Yao target, all optimisations).
func compileReal(src string) (res compiled) {
	defer func() {
		if e := recover(); e != nil {
			res = compiled{err: "panic: " + clip(fmt.Sprint(e), 300)}
		}
	}()
	params := utils.NewParams()
	defer params.Close()
	circ, _, err := compiler.New(params).Compile(src, nil)
	if err != nil {
		return compiled{err: "error: " + clip(err.Error(), 300)}
	}
	return compiled{circ: circ}
}

func computeReal(c *circuit.Circuit, in []*big.Int) (out []*big.Int, errs string) {
	defer func() {
		if e := recover(); e != nil {
			errs = "panic: " + clip(fmt.Sprint(e), 200)
		}
	}()
	// circuit.Compute wants one value per flattened argument: a struct
	// argument is given field by field (IOArg.Compound)
	var cp []*big.Int
	if len(in) != len(c.Inputs) {
		return nil, fmt.Sprintf("harness: %d arguments for %d inputs", len(in), len(c.Inputs))
	}
	for i, io := range c.Inputs {
		if len(io.Compound) == 0 {
			cp = append(cp, new(big.Int).Set(in[i]))
			continue
		}
		rest := new(big.Int).Set(in[i])
		for _, sub := range io.Compound {
			m := new(big.Int).Lsh(big.NewInt(1), uint(sub.Type.Bits))
			m.Sub(m, big.NewInt(1))
			cp = append(cp, new(big.Int).And(rest, m))
			rest.Rsh(rest, uint(sub.Type.Bits))
		}
	}
	out, err := c.Compute(cp)
	if err != nil {
		return nil, err.Error()
	}
	return out, ""
}

func hexOf(v *big.Int, bits int) string {
	if v.Sign() < 0 {
		m := new(big.Int).Lsh(big.NewInt(1), uint(bits))
		v = new(big.Int).Add(v, m)
	}
	return v.Text(16)
}

// ---------------------------------------------------------------- inputs

// leafWidths lists the scalar components of a type with their widths, in
// wire order.
func leafWidths(t *Ty, out []int) []int {
	switch t.K {
	case KBool:
		return append(out, 1)
	case KInt, KUint:
		return append(out, t.W)
	case KArr:
		for i := 0; i < t.N; i++ {
			out = leafWidths(t.Elem, out)
		}
		return out
	default:
		for _, f := range t.Fields {
			out = leafWidths(f, out)
		}
		return out
	}
}

func boundary(r *hxlib.Rng, w int) *big.Int {
	one := big.NewInt(1)
	all := new(big.Int).Sub(new(big.Int).Lsh(one, uint(w)), one)
	sign := new(big.Int).Lsh(one, uint(w-1))
	var v *big.Int
	switch r.Intn(12) {
	case 0:
		v = big.NewInt(0)
	case 1:
		v = big.NewInt(1)
	case 2:
		v = all // -1 / max unsigned
	case 3:
		v = sign // min signed
	case 4:
		v = new(big.Int).Sub(sign, one) // max signed
	case 5:
		v = new(big.Int).Sub(all, one) // -2
	case 6:
		v = new(big.Int).Add(sign, one) // min+1
	case 7:
		v = new(big.Int).SetBytes(r.Bytes((w+7)/8 + 1))
		v.And(v, new(big.Int).SetBytes([]byte(strings.Repeat("\x55", (w+7)/8+1))))
	case 8:
		v = big.NewInt(int64(r.Intn(8)))
	default:
		v = new(big.Int).SetBytes(r.Bytes((w+7)/8 + 1))
	}
	return v.And(v, all)
}

func boundaryArg(r *hxlib.Rng, t *Ty) *big.Int {
	v := new(big.Int)
	off := 0
	for _, w := range leafWidths(t, nil) {
		v.Or(v, new(big.Int).Lsh(boundary(r, w), uint(off)))
		off += w
	}
	return v
}

// inputsFor returns the op-line input spec and the tuples.
func inputsFor(r *hxlib.Rng, tys []*Ty, exhLimit, nBoundary int) (string, [][]*big.Int, bool) {
	total := 0
	for _, t := range tys {
		total += t.Bits()
	}
	if total <= exhLimit {
		var tuples [][]*big.Int
		for c := 0; c < 1<<uint(total); c++ {
			var tup []*big.Int
			x := c
			for _, t := range tys {
				w := t.Bits()
				tup = append(tup, big.NewInt(int64(x&((1<<uint(w))-1))))
				x >>= uint(w)
			}
			tuples = append(tuples, tup)
		}
		return "all", tuples, true
	}
	var tuples [][]*big.Int
	var parts []string
	for k := 0; k < nBoundary; k++ {
		var tup []*big.Int
		var hs []string
		for _, t := range tys {
			v := boundaryArg(r, t)
			tup = append(tup, v)
			hs = append(hs, v.Text(16))
		}
		tuples = append(tuples, tup)
		parts = append(parts, strings.Join(hs, ","))
	}
	return strings.Join(parts, ";"), tuples, false
}

func parseTuples(spec string) [][]*big.Int {
	var tuples [][]*big.Int
	for _, t := range strings.Split(spec, ";") {
		var tup []*big.Int
		for _, h := range strings.Split(t, ",") {
			v, ok := new(big.Int).SetString(h, 16)
			if !ok {
				v = new(big.Int)
			}
			tup = append(tup, v)
		}
		tuples = append(tuples, tup)
	}
	return tuples
}

// evalAll evaluates the compiled circuit on all tuples and renders the
// canonical result line.
func evalAll(c *circuit.Circuit, tuples [][]*big.Int) string {
	var sb strings.Builder
	for i, tup := range tuples {
		if i > 0 {
			sb.WriteByte(';')
		}
		out, errs := computeReal(c, tup)
		if errs != "" {
			sb.WriteString("X")
			continue
		}
		for k, v := range out {
			if k > 0 {
				sb.WriteByte(',')
			}
			sb.WriteString(hexOf(v, int(c.Outputs[k].Type.Bits)))
		}
	}
	return sb.String()
}

// ---------------------------------------------------------------- sidecar

type srcRec struct {
	Case    int      `json:"case"`
	Src     string   `json:"src"`
	Defect  string   `json:"defect"`
	Tags    []string `json:"tags"`
	Inputs  string   `json:"inputs"`
	NInputs int      `json:"n_inputs"`
	Exh     bool     `json:"exhaustive"`
	Name    string   `json:"name,omitempty"`
	Error   string   `json:"error,omitempty"`
}

type sidecar struct {
	f *os.File
}

func (s *sidecar) write(r srcRec) {
	if s == nil || s.f == nil {
		return
	}
	b, _ := json.Marshal(r)
	s.f.Write(b)
	s.f.Write([]byte("\n"))
}

// ---------------------------------------------------------------- gen mode

func runCase(o *hxlib.Out, sc *sidecar, idx int, name, src, sx, defect string, tags []string,
	spec string, tuples [][]*big.Int, exh bool) {

	op := "c03 " + spec + " " + sx
	res := compileReal(src)
	rec := srcRec{Case: idx, Src: src, Defect: defect, Tags: tags, NInputs: len(tuples), Exh: exh, Name: name}
	if !exh {
		rec.Inputs = spec
	} else {
		rec.Inputs = "all"
	}
	var line string
	if res.circ == nil {
		line = "compile-" + strings.ReplaceAll(res.err, "\n", " ")
		rec.Error = res.err
		o.Count("compile_failed")
	} else {
		line = evalAll(res.circ, tuples)
		o.CountN("gates", res.circ.NumGates)
		if res.circ.NumGates > 20000 {
			o.Count("circuits_over_20k_gates")
		}
	}
	sc.write(rec)
	o.Op(op, line)
	if ssaOps != nil {
		// SSA-level tie: one line per case, aligned with the op lines
		sline := "c03 SSASKIP no-circuit"
		if res.circ != nil {
			sx, ops, reord, err := ssaOf(src, res.circ)
			for k, n := range ops {
				o.CountN("ssaop_"+k, n)
			}
			if err != nil {
				reason := strings.Fields(err.Error())
				o.Count("ssa_skipped")
				o.Count("ssa_skip_" + strings.Join(reason[:hxlib.MinInt(3, len(reason))], "_"))
				sline = "c03 SSASKIP " + strings.ReplaceAll(err.Error(), "\n", " ")
			} else {
				o.Count("ssa_programs")
				if reord > 0 {
					o.Count("ssa_programs_with_use_before_def")
					o.CountN("ssa_steps_reordered", reord)
				}
				sline = "c03 SSA " + spec + " " + sx
			}
		}
		ssaOps.WriteString(sline)
		ssaOps.WriteByte('\n')
	}
	o.Count("programs")
	o.CountN("evaluations", len(tuples))
	if exh {
		o.Count("programs_exhaustive")
	}
	if defect != "" {
		o.Count("probe_" + defect)
	}
	for _, t := range tags {
		o.Count("feat_" + t)
	}
}

func tagsOf(p *Program) []string {
	var ts []string
	for k := range p.Tags {
		ts = append(ts, k)
	}
	sort.Strings(ts)
	return ts
}

// modeGen: mode `gen` (no package-level declarations: the programs and the
// random stream are those of every earlier run) and mode `pkg` (the same class
// schedule; every program has package-level var / const / type declarations,
// gen_pkg.go).
func modeGen(mode string, args []string) {
	var srcs, defect, ssaPath string
	cf, o := hxlib.ParseCommon(mode, args, func(fs *flag.FlagSet) {
		fs.StringVar(&srcs, "srcs", "", "sidecar file (JSON lines: source, tags per case)")
		fs.StringVar(&defect, "defect", "", "force a probe class")
		fs.StringVar(&ssaPath, "ssaops", "", "SSA-level op lines (one per case)")
	})
	defer o.Close()
	defer openSSAOps(ssaPath)()
	sc := &sidecar{}
	if srcs != "" {
		sc.f, _ = os.Create(srcs)
		defer sc.f.Close()
	}
	root := hxlib.NewRng(cf.Seed)
	if mode == "pkg" {
		// unrelated to mode gen's stream (NewRng(s) and NewRng(s+1) are one step apart)
		root = hxlib.NewRng(cf.Seed ^ 0x9c6b).Fork()
	}
	exhLimit, nb := 12, 24
	if cf.Tier == "thorough" {
		exhLimit, nb = 14, 48
	}
	for i := 0; i < cf.N; i++ {
		r := root.Fork()
		if cf.Only >= 0 && i != cf.Only {
			continue
		}
		opts := genOpts{maxStmts: 5, maxDepth: 3}
		if mode == "pkg" {
			opts.globals = 1
			if r.Intn(100) < 40 {
				opts.globals = 2
			}
		}
		cls := r.Intn(100)
		switch {
		case cls < 45:
			opts.small = true
			opts.maxIn = exhLimit
			if cf.Tier == "thorough" && r.Intn(8) == 0 {
				opts.maxIn = 16
			}
		case cls < 90:
		case cls < 93:
			opts.defect = "lit_signed_narrow"
			opts.small = r.Bool()
			opts.maxIn = exhLimit
		case cls < 94:
			opts.defect = "const_left_unsigned"
		case cls < 97:
			opts.defect = "inner_shadow"
			opts.small = r.Bool()
			opts.maxIn = exhLimit
		case cls < 98:
			opts.defect = "cast_int_wider_uint"
			opts.small = r.Bool()
			opts.maxIn = exhLimit
		case cls < 99:
			opts.defect = "const_cast_shared"
			if r.Intn(3) == 0 {
				opts.defect = "const_signed_widening"
			}
			opts.small = r.Bool()
			opts.maxIn = exhLimit
		default:
			opts.defect = "named_result_zero"
			opts.small = r.Bool()
			opts.maxIn = exhLimit
		}
		if defect != "" {
			opts.defect = defect
		}
		if r.Intn(5) == 0 {
			opts.maxStmts = 8
		}
		p := genProgram(r, opts)
		if opts.globals > 0 {
			// self-check of the generator: every finished program is re-validated by the
			// scope-aware walk (tagScopes); an ill-scoped one is dropped and generated
			// again (counted: the check reports the count, it must stay 0)
			for try := 0; try < 8 && illScoped(p); try++ {
				o.Count("generator_ill_scoped_regenerated")
				p = genProgram(r.Fork(), opts)
			}
		}
		var tys []*Ty
		for _, pr := range p.Main().Params {
			tys = append(tys, pr.T)
		}
		lim := exhLimit
		if opts.small && opts.maxIn > lim {
			lim = opts.maxIn
		}
		spec, tuples, exh := inputsFor(r, tys, lim, nb)
		runCase(o, sc, i, "", p.Src(), p.Sx(), p.Defect, tagsOf(p), spec, tuples, exh)
		if i < 3 {
			o.Sample(map[string]any{"case": i, "src": p.Src(), "inputs": clip(spec, 200)})
		}
	}
}

func modeSrc(args []string) {
	fs := flag.NewFlagSet("src", flag.ExitOnError)
	file := fs.String("file", "", "MPCL source file")
	in := fs.String("in", "", "hex tuples v,v;v,v")
	fs.Parse(args)
	b, err := os.ReadFile(*file)
	if err != nil {
		fmt.Fprintln(realStdout, "read-error", err)
		os.Exit(2)
	}
	res := compileReal(string(b))
	if res.circ == nil {
		fmt.Fprintln(realStdout, "compile-"+res.err)
		return
	}
	fmt.Fprintln(realStdout, evalAll(res.circ, parseTuples(*in)))
}

var realStdout *os.File

// ssaOps receives the SSA-level op lines (-ssaops F), nil when not requested.
var ssaOps *bufio.Writer

func openSSAOps(path string) func() {
	if path == "" {
		return func() {}
	}
	f, err := os.Create(path)
	if err != nil {
		panic(err)
	}
	ssaOps = bufio.NewWriterSize(f, 1<<20)
	return func() { ssaOps.Flush(); f.Close() }
}

func main() {
	if len(os.Args) < 2 {
		fmt.Fprintln(os.Stderr, "usage: c03 gen|witness|testsuite|src ...")
		os.Exit(2)
	}
	// the compiler logs errors and warnings to os.Stdout; keep ours clean
	realStdout = os.Stdout
	if dn, err := os.OpenFile(os.DevNull, os.O_WRONLY, 0); err == nil {
		os.Stdout = dn
	}
	switch os.Args[1] {
	case "gen", "pkg":
		modeGen(os.Args[1], os.Args[2:])
	case "witness":
		modeWitness(os.Args[2:])
	case "grid":
		modeGrid(os.Args[2:])
	case "testsuite":
		modeTestsuite(os.Args[2:])
	case "src":
		modeSrc(os.Args[2:])
	case "circhash":
		modeCircHash(os.Args[2:])
	case "backend":
		modeBackend(os.Args[2:])
	case "lower":
		modeLower(os.Args[2:])
	default:
		fmt.Fprintln(os.Stderr, "unknown mode", os.Args[1])
		os.Exit(2)
	}
}

package main

// Every `// @Test` vector shipped in $MPCLDIR/testsuite, run through the real
// compiler exactly as /repo/testsuite_test.go (testFile) does.  The root
// TestSuite of the pinned tree always fails because two sha512 circuit files
// were emptied, so these vectors guard nothing in the repository's own CI;
// here each file is judged on its own.  Files importing crypto/sha512 are
// skipped (counted).

import (
	"flag"
	"fmt"
	"io/fs"
	"math/big"
	"os"
	"path/filepath"
	"reflect"
	"regexp"
	"strings"

	"github.com/markkurossi/mpc"
	"github.com/markkurossi/mpc/circuit"
	"github.com/markkurossi/mpc/compiler"
	"github.com/markkurossi/mpc/compiler/utils"

	"verifharness/hxlib"
)

var reWhitespace = regexp.MustCompilePOSIX(`[[:space:]]+`)

func reverseHex(val string) string {
	var prefix string
	if strings.HasPrefix(val, "0x") {
		val = val[2:]
		prefix = "0x"
	}
	var result string
	for i := len(val) - 2; i >= 0; i -= 2 {
		result += val[i : i+2]
	}
	if len(val)%2 == 1 {
		result += val[0:1]
	}
	return prefix + result
}

// tvFile mirrors testsuite_test.go testFile; returns the number of vectors run.
func tvFile(o *hxlib.Out, file, rel string) (n int) {
	defer func() {
		if e := recover(); e != nil {
			o.Fail("c03-testvector-panic", map[string]any{"file": rel, "panic": clip(fmt.Sprint(e), 300)})
		}
	}()
	params := utils.NewParams()
	defer params.Close()
	cc := compiler.New(params)
	pkg, err := cc.ParseFile(file)
	if err != nil {
		o.Fail("c03-testvector-parse", map[string]any{"file": rel, "err": clip(err.Error(), 300)})
		return 0
	}
	main, ok := pkg.Functions["main"]
	if !ok {
		o.Fail("c03-testvector-parse", map[string]any{"file": rel, "err": "no main"})
		return 0
	}
	var lsb bool
	base := 10
	testNumber := 0
	for _, annotation := range main.Annotations {
		ann := strings.TrimSpace(annotation)
		if strings.HasPrefix(ann, "@Hex") {
			base = 16
			continue
		}
		if strings.HasPrefix(ann, "@LSB") {
			lsb = true
			continue
		}
		if !strings.HasPrefix(ann, "@Test ") {
			continue
		}
		parts := reWhitespace.Split(ann, -1)
		var inputValues [][]string
		var inputs []*big.Int
		var outputs []*big.Int
		var sep bool
		for i := 1; i < len(parts); i++ {
			part := parts[i]
			if part == "=" {
				sep = true
				continue
			}
			var iv []string
			for _, input := range strings.Split(part, ",") {
				var v *big.Int
				if input != "_" {
					v = new(big.Int)
					if base == 16 && lsb {
						input = reverseHex(input)
					}
					if _, ok := v.SetString(input, 0); !ok {
						o.Fail("c03-testvector-parse", map[string]any{"file": rel, "err": "invalid argument " + input})
						return n
					}
				}
				if sep {
					outputs = append(outputs, v)
				} else {
					iv = append(iv, input)
					inputs = append(inputs, v)
				}
			}
			inputValues = append(inputValues, iv) // as testsuite_test.go: also for result parts (empty)
		}
		var inputSizes [][]int
		for _, iv := range inputValues {
			sizes, err := circuit.InputSizes(iv)
			if err != nil {
				o.Fail("c03-testvector-parse", map[string]any{"file": rel, "err": err.Error()})
				return n
			}
			inputSizes = append(inputSizes, sizes)
		}
		circ, _, err := compiler.New(params).CompileFile(file, inputSizes)
		if err != nil {
			o.Fail("c03-testvector-compile", map[string]any{"file": rel, "test": testNumber, "err": clip(err.Error(), 300)})
			return n
		}
		results, err := circ.Compute(inputs)
		if err != nil {
			o.Fail("c03-testvector-compute", map[string]any{"file": rel, "test": testNumber, "err": err.Error()})
			return n
		}
		n++
		o.Count("testvectors")
		if len(results) != len(outputs) {
			o.Fail("c03-testvector", map[string]any{"file": rel, "test": testNumber, "vector": ann,
				"got": fmt.Sprint(results), "want": fmt.Sprint(outputs)})
			testNumber++
			continue
		}
		for idx := range results {
			out := circ.Outputs[idx]
			rr := mpc.Result(results[idx], out)
			re := mpc.Result(outputs[idx], out)
			if !reflect.DeepEqual(rr, re) {
				o.Fail("c03-testvector", map[string]any{"file": rel, "test": testNumber, "vector": ann, "result": idx,
					"got": clip(fmt.Sprint(rr), 200), "want": clip(fmt.Sprint(re), 200)})
			}
		}
		testNumber++
	}
	return n
}

func modeTestsuite(args []string) {
	var slow bool
	cf, o := hxlib.ParseCommon("testsuite", args, func(fs *flag.FlagSet) {
		fs.BoolVar(&slow, "slow", false, "also run the slow cipher tests")
	})
	defer o.Close()
	repo := os.Getenv("MPCLDIR")
	root := filepath.Join(repo, "testsuite")
	filepath.WalkDir(root, func(path string, d fs.DirEntry, err error) error {
		if err != nil || d.IsDir() || !compiler.IsFilename(path) {
			return nil
		}
		rel, _ := filepath.Rel(repo, path)
		b, err := os.ReadFile(path)
		if err != nil {
			return nil
		}
		if strings.Contains(string(b), "crypto/sha512") {
			o.Count("testfiles_skipped_sha512")
			return nil
		}
		if !slow && cf.Tier != "thorough" && strings.Contains(rel, "crypto/cipher") {
			o.Count("testfiles_skipped_slow")
			return nil
		}
		n := tvFile(o, path, rel)
		o.Count("testfiles")
		if n == 0 {
			o.Count("testfiles_without_vectors")
		}
		return nil
	})
}

package main

// Fixed programs of the C03 check: (a) the witnesses of the known deviations
// of the pinned compiler (each also stated in lean/MpcVerif/Props/C03.lean),
// (b) programs shipped with the repository (README examples and
// testsuite/lang files), read from the repository at run time and paired
// with their hand-written reference ASTs, evaluated on many more inputs than
// the shipped `@Test` vectors.

import (
	"flag"
	"math/big"
	"os"
	"path/filepath"
	"strings"

	"verifharness/hxlib"
)

type witness struct {
	name   string
	file   string // relative to $MPCLDIR (source is read from the repo) ...
	src    string // ... or literal source
	sx     string
	tys    []*Ty
	defect string
	nzArg  int // index of an argument that must not be zero (divisor), -1 if none
}

var witnesses = []witness{
	{name: "repaired-lit-signed-narrow", nzArg: -1, tys: []*Ty{tInt(8)},
		src: "package main\nfunc main(a int8) (bool, int8, int8) {\n\treturn a > 3, a / 3, a % 3\n}\n",
		sx:  "( P 0 ( FN 3 ( ( a i8 ) ) ( ( R ( B gt ( V a ) ( L i8 3 ) ) ( B div ( V a ) ( L i8 3 ) ) ( B mod ( V a ) ( L i8 3 ) ) ) ) ) )"},
	{name: "finding-inner-shadow", defect: "inner_shadow", nzArg: -1, tys: []*Ty{tInt(4), tyBool},
		src: "package main\nfunc main(a int4, b bool) (int4, int4) {\n\tvar q int4 = 1\n\tif b {\n\t\tvar q int4 = a\n\t\ta = q + q\n\t}\n\treturn q, a\n}\n",
		sx:  "( P 0 ( FN 2 ( ( a i4 ) ( b b ) ) ( ( D q i4 ( L i4 1 ) ) ( IF ( V b ) ( ( D q i4 ( V a ) ) ( A ( ( a ) ) ( B add ( V q ) ( V q ) ) ) ) ( ) ) ( R ( V q ) ( V a ) ) ) ) )"},
	{name: "finding-cast-int-wider-uint", defect: "cast_int_wider_uint", nzArg: -1, tys: []*Ty{tInt(4)},
		src: "package main\nfunc main(a int4) (uint8, int8) {\n\treturn uint8(a), int8(a)\n}\n",
		sx:  "( P 0 ( FN 2 ( ( a i4 ) ) ( ( R ( C u8 ( V a ) ) ( C i8 ( V a ) ) ) ) ) )"},
	{name: "finding-define-redeclared-rejected", defect: "define_redeclared_rejected", nzArg: -1, tys: []*Ty{tInt(4)},
		src: "package main\nfunc main(a int4) int4 {\n\tvar s int4\n\tfor i := 0; i < 2; i++ {\n\t\tx := a + s\n\t\ts = s + x\n\t}\n\treturn s\n}\n",
		sx:  "( P 0 ( FN 1 ( ( a i4 ) ) ( ( D s i4 ) ( FOR i 0 lt 2 1 ( ( DEF ( x ) ( B add ( V a ) ( V s ) ) ) ( A ( ( s ) ) ( B add ( V s ) ( V x ) ) ) ) ) ( R ( V s ) ) ) ) )"},
	{name: "repaired-named-result-zero", nzArg: -1, tys: []*Ty{tInt(8)},
		src: "package main\nfunc main(a int8) int8 {\n\treturn f(a)\n}\nfunc f(p int8) (r int8) {\n\tif p > int8(3) {\n\t\tr = p\n\t}\n\treturn\n}\n",
		sx:  "( P 1 ( FN 1 ( ( p i8 ) ) ( ( D r i8 ) ( IF ( B gt ( V p ) ( L i8 3 ) ) ( ( A ( ( r ) ) ( V p ) ) ) ( ) ) ( R ( V r ) ) ) ) ( FN 1 ( ( a i8 ) ) ( ( R ( K 0 ( V a ) ) ) ) ) )"},
	{name: "repaired-const-cast-shared", nzArg: -1, tys: []*Ty{tUint(8)},
		src: "package main\nfunc main(a uint8) (uint8, uint8) {\n\treturn uint8(uint2(a) & uint2(3)), a + 3\n}\n",
		sx:  "( P 0 ( FN 2 ( ( a u8 ) ) ( ( R ( C u8 ( B and ( C u2 ( V a ) ) ( L u2 3 ) ) ) ( B add ( V a ) ( L u8 3 ) ) ) ) ) )"},
	{name: "finding-const-signed-widening", defect: "const_signed_widening", nzArg: -1, tys: []*Ty{tInt(40)},
		src: "package main\nfunc main(a int40) (int40, int40) {\n\treturn a & 0xffffffff, a & int40(0xffffffff)\n}\n",
		sx:  "( P 0 ( FN 2 ( ( a i40 ) ) ( ( R ( B and ( V a ) ( L i40 4294967295 ) ) ( B and ( V a ) ( L i40 4294967295 ) ) ) ) ) )"},
	// guard: a positive literal >= 2^31 against a wider signed operand must stay positive (the narrower constant is
	// ZERO-padded by the comparator/divider builders; sign-extending it there would break this: the constant has no sign)
	{name: "guard-literal-topbit-vs-wider-signed", nzArg: -1, tys: []*Ty{tInt(40)},
		src: "package main\nfunc main(a int40) (bool, int40) {\n\treturn a > 3000000000, a / 4000000000\n}\n",
		sx:  "( P 0 ( FN 2 ( ( a i40 ) ) ( ( R ( B gt ( V a ) ( L i40 3000000000 ) ) ( B div ( V a ) ( L i40 4000000000 ) ) ) ) ) )"},
	{name: "repaired-const-left-unsigned", nzArg: -1, tys: []*Ty{tUint(32)},
		src: "package main\nfunc main(a uint32) (bool, bool) {\n\treturn 100 < a, a > 100\n}\n",
		sx:  "( P 0 ( FN 2 ( ( a u32 ) ) ( ( R ( B lt ( L u32 100 ) ( V a ) ) ( B gt ( V a ) ( L u32 100 ) ) ) ) ) )"},

	{name: "readme-millionaire", file: "apps/garbled/examples/millionaire.mpcl", nzArg: -1, tys: []*Ty{tInt(64), tInt(64)},
		sx: "( P 0 ( FN 1 ( ( a i64 ) ( b i64 ) ) ( ( IF ( B gt ( V a ) ( V b ) ) ( ( R ( L b 1 ) ) ) ( ( R ( L b 0 ) ) ) ) ) ) )"},
	{name: "readme-3party", file: "apps/garbled/examples/3party.mpcl", nzArg: -1, tys: []*Ty{tInt(64), tInt(64), tInt(64)},
		sx: "( P 0 ( FN 1 ( ( a i64 ) ( b i64 ) ( c i64 ) ) ( ( IF ( B gt ( V a ) ( V b ) ) ( ( IF ( B gt ( V a ) ( V c ) ) ( ( R ( L i32 0 ) ) ) ( ) ) ( R ( L i32 2 ) ) ) ( ) ) ( IF ( B gt ( V b ) ( V c ) ) ( ( R ( L i32 1 ) ) ) ( ) ) ( R ( L i32 2 ) ) ) ) )"},
	{name: "lang-divi", file: "testsuite/lang/divi.mpcl", nzArg: 1, tys: []*Ty{tInt(64), tInt(64)},
		sx: "( P 0 ( FN 1 ( ( a i64 ) ( b i64 ) ) ( ( R ( B div ( V a ) ( V b ) ) ) ) ) )"},
	{name: "lang-modi", file: "testsuite/lang/modi.mpcl", nzArg: 1, tys: []*Ty{tInt(64), tInt(64)},
		sx: "( P 0 ( FN 1 ( ( a i64 ) ( b i64 ) ) ( ( R ( B mod ( V a ) ( V b ) ) ) ) ) )"},
	{name: "lang-divu", file: "testsuite/lang/divu.mpcl", nzArg: 1, tys: []*Ty{tUint(64), tUint(64)},
		sx: "( P 0 ( FN 1 ( ( a u64 ) ( b u64 ) ) ( ( R ( B div ( V a ) ( V b ) ) ) ) ) )"},
	{name: "lang-modu", file: "testsuite/lang/modu.mpcl", nzArg: 1, tys: []*Ty{tUint(64), tUint(64)},
		sx: "( P 0 ( FN 1 ( ( a u64 ) ( b u64 ) ) ( ( R ( B mod ( V a ) ( V b ) ) ) ) ) )"},
	{name: "lang-sub", file: "testsuite/lang/sub.mpcl", nzArg: -1, tys: []*Ty{tUint(64), tUint(64)},
		sx: "( P 0 ( FN 1 ( ( a u64 ) ( b u64 ) ) ( ( R ( B sub ( V a ) ( V b ) ) ) ) ) )"},
	{name: "lang-add", file: "testsuite/lang/add.mpcl", nzArg: -1, tys: []*Ty{tUint(64), tUint(64)},
		sx: "( P 0 ( FN 1 ( ( a u64 ) ( b u64 ) ) ( ( R ( B add ( V a ) ( V b ) ) ) ) ) )"},
	{name: "lang-mult", file: "testsuite/lang/mult.mpcl", nzArg: -1, tys: []*Ty{tUint(64), tUint(64)},
		sx: "( P 0 ( FN 1 ( ( a u64 ) ( b u64 ) ) ( ( R ( B mul ( V a ) ( V b ) ) ) ) ) )"},
	{name: "lang-lshift64", file: "testsuite/lang/lshift64.mpcl", nzArg: -1, tys: []*Ty{tUint(64), tUint(64)},
		sx: "( P 0 ( FN 1 ( ( a u64 ) ( b u64 ) ) ( ( R ( SH l ( V a ) 64 ) ) ) ) )"},
	{name: "lang-rshift1", file: "testsuite/lang/rshift1.mpcl", nzArg: -1, tys: []*Ty{tUint(64), tUint(64)},
		sx: "( P 0 ( FN 1 ( ( a u64 ) ( b u64 ) ) ( ( R ( SH r ( V a ) 1 ) ) ) ) )"},
	{name: "lang-rshift64", file: "testsuite/lang/rshift64.mpcl", nzArg: -1, tys: []*Ty{tUint(64), tUint(64)},
		sx: "( P 0 ( FN 1 ( ( a u64 ) ( b u64 ) ) ( ( R ( SH r ( V a ) 64 ) ) ) ) )"},
	{name: "lang-test_ge", file: "testsuite/lang/test_ge.mpcl", nzArg: -1, tys: []*Ty{tUint(16), tUint(16)},
		sx: "( P 0 ( FN 1 ( ( a u16 ) ( b u16 ) ) ( ( R ( B ge ( V a ) ( V b ) ) ) ) ) )"},
	{name: "lang-test_lt", file: "testsuite/lang/test_lt.mpcl", nzArg: -1, tys: []*Ty{tUint(16), tUint(16)},
		sx: "( P 0 ( FN 1 ( ( a u16 ) ( b u16 ) ) ( ( R ( B lt ( V a ) ( V b ) ) ) ) ) )"},
	{name: "lang-for", file: "testsuite/lang/for.mpcl", nzArg: -1, tys: []*Ty{tUint(8), tUint(8)},
		sx: "( P 0 ( FN 1 ( ( a u8 ) ( b u8 ) ) ( ( D sum i32 ( L i32 0 ) ) ( FOR i 0 lt 5 1 ( ( A ( ( sum ) ) ( B add ( V sum ) ( V i ) ) ) ) ) ( R ( V sum ) ) ) ) )"},
	{name: "lang-array", file: "testsuite/lang/array.mpcl", nzArg: -1, tys: []*Ty{tInt(32), tInt(32)},
		sx: "( P 0 ( FN 1 ( ( a i32 ) ( b i32 ) ) ( ( D arr ( A 10 i32 ) ) ( FOR i 0 lt 10 1 ( ( A ( ( arr ( i ( V i ) ) ) ) ( V i ) ) ) ) ( D sum i32 ) ( FOR i 0 lt 10 1 ( ( A ( ( sum ) ) ( B add ( V sum ) ( I ( V arr ) ( V i ) ) ) ) ) ) ( R ( B add ( V sum ) ( V b ) ) ) ) ) )"},
	{name: "lang-assign2", file: "testsuite/lang/assign2.mpcl", nzArg: -1, tys: []*Ty{tInt(32), tInt(32)},
		sx: "( P 1 ( FN 2 ( ( a i32 ) ( b i32 ) ) ( ( IF ( B lt ( V a ) ( V b ) ) ( ( R ( V a ) ( V b ) ) ) ( ( R ( V b ) ( V a ) ) ) ) ) ) ( FN 2 ( ( a i32 ) ( b i32 ) ) ( ( DEF ( min max ) ( K 0 ( V a ) ( V b ) ) ) ( R ( V min ) ( V max ) ) ) ) )"},
	{name: "lang-named_return2", file: "testsuite/lang/named_return2.mpcl", nzArg: -1, tys: []*Ty{tInt(32), tInt(32)},
		sx: "( P 1 ( FN 3 ( ( a i32 ) ( b i32 ) ) ( ( D h0 i32 ) ( D h1 i32 ) ( D h2 i32 ) ( A ( ( h0 ) ) ( B add ( V a ) ( V b ) ) ) ( A ( ( h1 ) ) ( V a ) ) ( A ( ( h2 ) ) ( V b ) ) ( R ( V h0 ) ( V h1 ) ( V h2 ) ) ) ) ( FN 3 ( ( a i32 ) ( b i32 ) ) ( ( R ( K 0 ( V a ) ( V b ) ) ) ) ) )"},
	{name: "lang-var2", file: "testsuite/lang/var2.mpcl", nzArg: -1, tys: []*Ty{tInt(32), tInt(32)},
		sx: "( P 0 ( FN 1 ( ( a i32 ) ( b i32 ) ) ( ( D r i32 ( L i32 42 ) ) ( A ( ( r ) ) ( B add ( B add ( V r ) ( V a ) ) ( V b ) ) ) ( R ( V r ) ) ) ) )"},
	// package-level declarations (Model/MpclPkg.lean; Props/C03Pkg.lean pVar3, pShadow)
	{name: "lang-var3", file: "testsuite/lang/var3.mpcl", nzArg: -1, tys: []*Ty{tUint(32), tUint(32)},
		sx: "( PG 0 ( ( G base u32 42 ) ) ( FN 1 ( ( a u32 ) ( b u32 ) ) ( ( R ( B add ( B add ( V base ) ( V a ) ) ( V b ) ) ) ) ) )"},
	{name: "pkg-shadow-then-branch", nzArg: -1, tys: []*Ty{tInt(8), tInt(8)},
		src: "package main\n\nvar lim int8 = 100\n\nconst step = 3\n\nfunc clamp(v int8) int8 {\n\tif v > lim {\n\t\treturn lim\n\t}\n\treturn v\n}\n\n" +
			"func main(a, b int8) (int8, int8, int8) {\n\tt := lim\n\tvar lim int8 = a + step\n\tr := b\n\tif a > b {\n\t\tr = a\n\t\tlim = lim + 1\n\t}\n\treturn lim + r, clamp(b), t\n}\n",
		sx: "( PG 1 ( ( G lim i8 100 ) ( GC step i8 3 ) ) ( FN 1 ( ( v i8 ) ) ( ( IF ( B gt ( V v ) ( V lim ) ) ( ( R ( V lim ) ) ) ( ) ) ( R ( V v ) ) ) ) " +
			"( FN 3 ( ( a i8 ) ( b i8 ) ) ( ( DEF ( t ) ( V lim ) ) ( D lim i8 ( B add ( V a ) ( V step ) ) ) ( DEF ( r ) ( V b ) ) " +
			"( IF ( B gt ( V a ) ( V b ) ) ( ( A ( ( r ) ) ( V a ) ) ( A ( ( lim ) ) ( B add ( V lim ) ( L i8 1 ) ) ) ) ( ) ) " +
			"( R ( B add ( V lim ) ( V r ) ) ( K 0 ( V b ) ) ( V t ) ) ) ) )"},
}

func modeWitness(args []string) {
	var srcs, ssaPath string
	cf, o := hxlib.ParseCommon("witness", args, func(fs *flag.FlagSet) {
		fs.StringVar(&srcs, "srcs", "", "sidecar file")
		fs.StringVar(&ssaPath, "ssaops", "", "SSA-level op lines (one per case)")
	})
	defer o.Close()
	defer openSSAOps(ssaPath)()
	sc := &sidecar{}
	if srcs != "" {
		sc.f, _ = os.Create(srcs)
		defer sc.f.Close()
	}
	root := hxlib.NewRng(cf.Seed)
	repo := os.Getenv("MPCLDIR")
	for i, w := range witnesses {
		r := root.Fork()
		src := w.src
		if w.file != "" {
			b, err := os.ReadFile(filepath.Join(repo, w.file))
			if err != nil {
				o.Fail("c03-witness-file-missing", map[string]any{"file": w.file, "err": err.Error()})
				continue
			}
			src = string(b)
		}
		spec, tuples, exh := inputsFor(r, w.tys, 12, 64)
		if w.nzArg >= 0 && !exh {
			for _, t := range tuples {
				if t[w.nzArg].Sign() == 0 {
					t[w.nzArg] = big.NewInt(int64(1 + r.Intn(9)))
				}
			}
			var parts []string
			for _, t := range tuples {
				var hs []string
				for _, v := range t {
					hs = append(hs, v.Text(16))
				}
				parts = append(parts, strings.Join(hs, ","))
			}
			spec = strings.Join(parts, ";")
		}
		runCase(o, sc, i, w.name, src, w.sx, w.defect, []string{"witness"}, spec, tuples, exh)
	}
}

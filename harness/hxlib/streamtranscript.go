package hxlib

// Parser of the garbler->evaluator byte stream of one streaming session
// (ideal OT: the stream carries only Program.Stream's own messages).  Used
// to observe what the real allocator did: per garbled circuit the step
// number, gate count and max wire id + 1, how many gate records used the
// 16-bit and the 32-bit id encoding, and the wire ids of the return values.

import (
	"encoding/binary"
	"fmt"
)

// StreamGate is one parsed gate record of a streamed circuit.
type StreamGate struct {
	Op               int // circuit.Operation
	ATmp, BTmp, CTmp bool
	Wide             bool // 32-bit id encoding
	A, B, C          int
	Rows             [][]byte // table rows, 16 bytes each
}

// StreamCirc is one OpCircuit block: header fields and (with keepGates) its
// gate records.
type StreamCirc struct {
	Step, Gates, Tmp, NumWires int
	Recs                       []StreamGate
}

// StreamTranscript is the parsed garbler->evaluator stream of one session.
type StreamTranscript struct {
	Err      string
	Key      []byte
	InLabels [][]byte // the garbler's own input labels, as sent
	Circs    []StreamCirc
	RetIDs   []int
	Gates16  int
	Gates32  int
	NIn1     int
	NIn2     int
	NOut     int
}

type rd struct {
	b   []byte
	pos int
	err error
}

func (r *rd) need(n int) bool {
	if r.err != nil {
		return false
	}
	if r.pos+n > len(r.b) {
		r.err = fmt.Errorf("short stream at %d (+%d of %d)", r.pos, n, len(r.b))
		return false
	}
	return true
}
func (r *rd) u32() int {
	if !r.need(4) {
		return 0
	}
	v := binary.BigEndian.Uint32(r.b[r.pos:])
	r.pos += 4
	return int(v)
}
func (r *rd) u16() int {
	if !r.need(2) {
		return 0
	}
	v := binary.BigEndian.Uint16(r.b[r.pos:])
	r.pos += 2
	return int(v)
}
func (r *rd) u8() int {
	if !r.need(1) {
		return 0
	}
	v := r.b[r.pos]
	r.pos++
	return int(v)
}
func (r *rd) data() []byte {
	n := r.u32()
	if !r.need(n) {
		return nil
	}
	v := r.b[r.pos : r.pos+n]
	r.pos += n
	return v
}

// arg: name, type string, bits, compound count, compounds.  Returns bits.
func (r *rd) arg(depth int) int {
	r.data()
	r.data()
	bits := r.u32()
	n := r.u32()
	if depth > 8 || n > 1<<16 {
		r.err = fmt.Errorf("bad argument record")
		return 0
	}
	for i := 0; i < n && r.err == nil; i++ {
		r.arg(depth + 1)
	}
	return bits
}

// ParseStreamTranscript parses the bytes the streaming garbler sent (Duplex.AB.Rec
// of an ideal-OT session).  keepGates keeps every gate record with its rows.
func ParseStreamTranscript(b []byte, keepGates bool) *StreamTranscript {
	t := &StreamTranscript{}
	r := &rd{b: b}
	t.Key = append([]byte(nil), r.data()...)
	t.NIn1 = r.arg(0)
	t.NIn2 = r.arg(0)
	no := r.u32()
	for i := 0; i < no && r.err == nil; i++ {
		t.NOut += r.arg(0)
	}
	r.u32() // number of steps
	// garbler's input labels
	if r.need(16 * t.NIn1) {
		for i := 0; i < t.NIn1; i++ {
			t.InLabels = append(t.InLabels, append([]byte(nil), r.b[r.pos+16*i:r.pos+16*i+16]...))
		}
		r.pos += 16 * t.NIn1
	}
	for r.err == nil {
		op := r.u32()
		if r.err != nil {
			break
		}
		switch op {
		case 1: // OpCircuit
			c := StreamCirc{Step: r.u32(), Gates: r.u32(), Tmp: r.u32(), NumWires: r.u32()}
			for g := 0; g < c.Gates && r.err == nil; g++ {
				gop := r.u8()
				wide := gop&0x10 == 0
				if wide {
					t.Gates32++
				} else {
					t.Gates16++
				}
				nw, rows := 3, 0
				switch gop & 0x0f {
				case 0, 1: // XOR, XNOR
				case 2: // AND
					rows = 2
				case 3: // OR
					rows = 3
				case 4: // INV
					nw, rows = 2, 1
				default:
					r.err = fmt.Errorf("bad gate op %#x at %d", gop, r.pos)
				}
				var ids [3]int
				for k := 0; k < nw; k++ {
					if wide {
						ids[k] = r.u32()
					} else {
						ids[k] = r.u16()
					}
				}
				rec := StreamGate{Op: gop & 0x0f, ATmp: gop&0x80 != 0, BTmp: gop&0x40 != 0, CTmp: gop&0x20 != 0,
					Wide: wide, A: ids[0], B: ids[1], C: ids[2]}
				if nw == 2 {
					rec.B, rec.C = 0, ids[1]
				}
				if r.need(16 * rows) {
					if keepGates {
						for k := 0; k < rows; k++ {
							rec.Rows = append(rec.Rows, append([]byte(nil), r.b[r.pos+16*k:r.pos+16*k+16]...))
						}
					}
					r.pos += 16 * rows
				}
				if keepGates {
					c.Recs = append(c.Recs, rec)
				}
			}
			t.Circs = append(t.Circs, c)
		case 2: // OpReturn
			for i := 0; i < t.NOut; i++ {
				t.RetIDs = append(t.RetIDs, r.u32())
			}
			r.data() // result
			if r.err == nil && r.pos != len(r.b) {
				r.err = fmt.Errorf("%d trailing bytes", len(r.b)-r.pos)
			}
			if r.err != nil {
				t.Err = r.err.Error()
			}
			return t
		default:
			r.err = fmt.Errorf("unknown op %d at %d", op, r.pos)
		}
	}
	if r.err != nil {
		t.Err = r.err.Error()
	} else {
		t.Err = "no return record"
	}
	return t
}

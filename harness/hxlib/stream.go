package hxlib

// Streaming-mode two-party sessions on the real code, in process.
//
//	RunStreamSession   compiler.Compiler.Stream  <->  circuit.StreamEvaluator
//	                   over a Duplex (recording / fragmenting / mutating
//	                   transport), each party in its goroutine, panics
//	                   recovered, deadline -> Stalled.
//	StreamReference    the whole-circuit reference for the same source and
//	                   inputs: compiler.Compiler.Compile + Circuit.Compute.
//	CompileSSA         the SSA program the streaming garbler walks (after
//	                   Program.GC), structured.
//	RunStreamProgram   the same session for an (edited) *ssa.Program.
//	ParseStreamTranscript (streamtranscript.go) parses d.AB.Rec of an ideal-OT
//	                   session: key, input labels, every OpCircuit block (step,
//	                   gate count, max id, optionally every gate record with its
//	                   table rows), return wire ids.
//
// Used by the C05 check (streaming = whole circuit) and reusable by C04
// (what the evaluator sees in streaming mode: take d.AB.Rec) and C16
// (corruption: set d.AB.Mutate / d.BA.Mutate before the call).

import (
	"fmt"
	"io"
	"math/big"
	"strings"
	"time"

	"github.com/markkurossi/mpc/circuit"
	"github.com/markkurossi/mpc/compiler"
	"github.com/markkurossi/mpc/compiler/ssa"
	"github.com/markkurossi/mpc/compiler/utils"
	"github.com/markkurossi/mpc/ot"
	"github.com/markkurossi/mpc/p2p"
	"github.com/markkurossi/mpc/types"
)

// OTFactory returns the two parties' OT instances of one session (they may
// be the same object, e.g. NewIdealOT()).
type OTFactory func() (garbler ot.OT, evaluator ot.OT)

// IdealOTFactory: out-of-band ideal OT (labels travel over a Go channel).
func IdealOTFactory() (ot.OT, ot.OT) {
	o := NewIdealOT()
	return o, o
}

// COFactory returns a factory of Chou-Orlandi OT pairs seeded from r.
func COFactory(r *Rng) OTFactory {
	return func() (ot.OT, ot.OT) { return ot.NewCO(r.Fork()), ot.NewCO(r.Fork()) }
}

// StreamResult is the outcome of one streaming session.
type StreamResult struct {
	// Output types as returned to each party (garbler: Program.Outputs,
	// evaluator: what receiveArgument rebuilt from the wire).
	GOut, EOut circuit.IO
	// Output values as returned to each party (IO.Split of the raw result).
	GRes, ERes []*big.Int
	GErr, EErr error
	GPanic     any
	EPanic     any
	Stalled    bool
	// InputSizes is what was passed to the compiler (evaluator's sizes are
	// computed with circuit.InputSizes exactly as apps/garbled does and
	// handed over in process instead of Conn.SendInputSizes).
	InputSizes [][]int
}

// OK is true when both parties returned without error, panic or stall.
func (r *StreamResult) OK() bool {
	return !r.Stalled && r.GPanic == nil && r.EPanic == nil && r.GErr == nil && r.EErr == nil
}

// Status is a small enum for result lines.
func (r *StreamResult) Status() string {
	switch {
	case r.Stalled:
		return "stalled"
	case r.GPanic != nil || r.EPanic != nil:
		return "panic"
	case r.GErr != nil || r.EErr != nil:
		return "error"
	}
	return "ok"
}

// StreamParams are the compiler parameters used by every streaming / whole
// circuit compilation of the harness (the defaults of apps/garbled).
func StreamParams(rand io.Reader) *utils.Params {
	p := utils.NewParams()
	p.OptPruneGates = true
	if rand != nil {
		p.Config.Rand = rand
	}
	return p
}

// StreamInputSizes mirrors apps/garbled/streaming.go: both parties compute
// circuit.InputSizes of their own input strings.
func StreamInputSizes(gInputs, eInputs []string) ([][]int, error) {
	g, err := circuit.InputSizes(gInputs)
	if err != nil {
		return nil, err
	}
	e, err := circuit.InputSizes(eInputs)
	if err != nil {
		return nil, err
	}
	return [][]int{g, e}, nil
}

// RunStreamSession runs one streaming session of the MPCL program `source`:
// garbler = compiler.New(params).Stream(conn, ot, "{data}", source, gInputs,
// sizes), evaluator = circuit.StreamEvaluator(conn, ot, eInputs, nil, false).
// rand is the garbler's label randomness (env.Config.Rand; nil = crypto/rand;
// the 32-byte AES key of Program.Stream always comes from crypto/rand).
// d carries the bytes (d.A = garbler side); the caller may have installed
// Frag / Mutate on its links and can read d.AB.Rec / d.BA.Rec afterwards.
func RunStreamSession(source string, gInputs, eInputs []string, otf OTFactory, rand io.Reader, d *Duplex,
	deadline time.Duration) *StreamResult {

	res := &StreamResult{}
	sizes, err := StreamInputSizes(gInputs, eInputs)
	if err != nil {
		res.GErr = fmt.Errorf("input sizes: %w", err)
		res.EErr = res.GErr
		return res
	}
	res.InputSizes = sizes
	runStreamPair(res, func(cg *p2p.Conn, gOT ot.OT) (circuit.IO, []*big.Int, error) {
		params := StreamParams(rand)
		defer params.Close()
		return compiler.New(params).Stream(cg, gOT, "{data}", strings.NewReader(source), gInputs, sizes)
	}, eInputs, otf, d, deadline)
	return res
}

// RunStreamProgram runs a streaming session for an already compiled SSA
// program (ssa.Program.Stream directly), e.g. one obtained from CompileSSA
// whose Steps the caller has edited (used to attribute a mismatch to specific
// `gc` instructions).  The program must not have been streamed before.
func RunStreamProgram(prog *ssa.Program, gInputs, eInputs []string, otf OTFactory, rand io.Reader, d *Duplex,
	deadline time.Duration) *StreamResult {

	res := &StreamResult{}
	runStreamPair(res, func(cg *p2p.Conn, gOT ot.OT) (circuit.IO, []*big.Int, error) {
		params := StreamParams(rand)
		defer params.Close()
		input, err := prog.Inputs[0].Parse(gInputs)
		if err != nil {
			return nil, nil, err
		}
		return prog.Stream(cg, gOT, params, input, circuit.NewTiming())
	}, eInputs, otf, d, deadline)
	return res
}

func runStreamPair(res *StreamResult, garbler func(cg *p2p.Conn, gOT ot.OT) (circuit.IO, []*big.Int, error),
	eInputs []string, otf OTFactory, d *Duplex, deadline time.Duration) {

	if otf == nil {
		otf = IdealOTFactory
	}
	gOT, eOT := otf()
	gdone := make(chan struct{})
	edone := make(chan struct{})
	cg := p2p.NewConn(d.A)
	ce := p2p.NewConn(d.B)
	go func() {
		defer close(gdone)
		defer func() {
			if e := recover(); e != nil {
				res.GPanic = e
				d.Close()
			}
		}()
		res.GOut, res.GRes, res.GErr = garbler(cg, gOT)
		if res.GErr != nil {
			d.Close()
		}
	}()
	go func() {
		defer close(edone)
		defer func() {
			if e := recover(); e != nil {
				res.EPanic = e
				d.Close()
			}
		}()
		res.EOut, res.ERes, res.EErr = circuit.StreamEvaluator(ce, eOT, eInputs, nil, false)
		if res.EErr != nil {
			d.Close()
		}
	}()
	timer := time.After(deadline)
	for gdone != nil || edone != nil {
		select {
		case <-gdone:
			gdone = nil
		case <-edone:
			edone = nil
		case <-timer:
			res.Stalled = true
			d.Close()
			t2 := time.After(2 * time.Second)
			for gdone != nil || edone != nil {
				select {
				case <-gdone:
					gdone = nil
				case <-edone:
					edone = nil
				case <-t2:
					return
				}
			}
			return
		}
	}
	// both parties are done: stop the connections' writer goroutines
	cg.Close()
	ce.Close()
}

// WholeResult is the whole-circuit reference outcome.
type WholeResult struct {
	Circ  *circuit.Circuit
	Out   circuit.IO
	Res   []*big.Int
	Err   error
	Panic any
}

// StreamReference compiles `source` to ONE circuit with the same input sizes
// and evaluates it in the clear on the same inputs.
func StreamReference(source string, gInputs, eInputs []string) (w *WholeResult) {
	w = &WholeResult{}
	defer func() {
		if e := recover(); e != nil {
			w.Panic = e
		}
	}()
	sizes, err := StreamInputSizes(gInputs, eInputs)
	if err != nil {
		w.Err = err
		return
	}
	params := StreamParams(nil)
	defer params.Close()
	circ, _, err := compiler.New(params).Compile(source, sizes)
	if err != nil {
		w.Err = err
		return
	}
	w.Circ = circ
	if len(circ.Inputs) != 2 {
		w.Err = fmt.Errorf("%d parties", len(circ.Inputs))
		return
	}
	x, err := circ.Inputs[0].Parse(gInputs)
	if err != nil {
		w.Err = err
		return
	}
	y, err := circ.Inputs[1].Parse(eInputs)
	if err != nil {
		w.Err = err
		return
	}
	w.Out = circ.Outputs
	// Circuit.Compute wants one value per flattened (compound) argument.
	var flat []*big.Int
	for i, v := range []*big.Int{x, y} {
		arg := circ.Inputs[i]
		if len(arg.Compound) == 0 {
			flat = append(flat, v)
			continue
		}
		ofs := 0
		for _, c := range arg.Compound {
			part := new(big.Int)
			for b := 0; b < int(c.Type.Bits); b++ {
				part.SetBit(part, b, v.Bit(ofs+b))
			}
			ofs += int(c.Type.Bits)
			flat = append(flat, part)
		}
	}
	w.Res, w.Err = circ.Compute(flat)
	return
}

// CompileSSA returns the SSA program of `source` exactly as Compiler.Stream
// obtains it (pkg.Compile, which ends with Program.GC).
func CompileSSA(source string, sizes [][]int) (prog *ssa.Program, err error) {
	defer func() {
		if e := recover(); e != nil {
			err = fmt.Errorf("panic: %v", e)
		}
	}()
	params := StreamParams(nil)
	defer params.Close()
	prog, _, err = compiler.New(params).CompileSSA("{data}", strings.NewReader(source), sizes)
	return
}

// TypeDesc renders a type with everything a consumer of the result needs:
// printed form, bit size, and for arrays the element count and element type.
func TypeDesc(t types.Info) string {
	s := fmt.Sprintf("%s/%d", t.String(), t.Bits)
	if (t.Type == types.TArray || t.Type == types.TSlice) && t.ElementType != nil {
		s += fmt.Sprintf("/%d*(%s)", t.ArraySize, TypeDesc(*t.ElementType))
	}
	return s
}

// IODesc renders the types of an argument list.
func IODesc(a circuit.IO) string {
	if len(a) == 0 {
		return "-"
	}
	var s []string
	for _, x := range a {
		s = append(s, TypeDesc(x.Type))
	}
	return strings.Join(s, ",")
}

// IONames renders the names of an argument list.
func IONames(a circuit.IO) string {
	var s []string
	for _, x := range a {
		s = append(s, x.Name)
	}
	return strings.Join(s, ",")
}

package hxlib

import (
	"bufio"
	"encoding/hex"
	"encoding/json"
	"flag"
	"fmt"
	"os"
	"strings"

	"github.com/markkurossi/mpc/circuit"
	"github.com/markkurossi/mpc/types"
)

// ---------------------------------------------------------------- PRNG

// Rng is a splitmix64 generator: every random choice of a run derives from
// one seed so that a disagreement replays exactly.
type Rng struct{ s uint64 }

// NewRng derives the generator state from the seed through the splitmix64
// finaliser, so that the streams of different seeds are unrelated (with the
// plain `seed*golden + c` start the stream of seed s+1 was the stream of seed s
// shifted by one draw, and VERIF_SEED = 1, 2, 3 explored nearly the same cases).
func NewRng(seed uint64) *Rng {
	z := seed + 0x9E3779B97F4A7C15
	z = (z ^ (z >> 30)) * 0xBF58476D1CE4E5B9
	z = (z ^ (z >> 27)) * 0x94D049BB133111EB
	z ^= z >> 31
	return &Rng{s: z ^ 0x1234567}
}

func (r *Rng) U64() uint64 {
	r.s += 0x9E3779B97F4A7C15
	z := r.s
	z = (z ^ (z >> 30)) * 0xBF58476D1CE4E5B9
	z = (z ^ (z >> 27)) * 0x94D049BB133111EB
	return z ^ (z >> 31)
}
func (r *Rng) Intn(n int) int {
	if n <= 0 {
		return 0
	}
	return int(r.U64() % uint64(n))
}
func (r *Rng) Bool() bool { return r.U64()&1 == 1 }
func (r *Rng) Bytes(n int) []byte {
	b := make([]byte, n)
	for i := range b {
		b[i] = byte(r.U64())
	}
	return b
}

// Fork derives an independent generator (per case), so cases can be replayed
// alone.
func (r *Rng) Fork() *Rng { return NewRng(r.U64()) }

// Read implements io.Reader (a deterministic "random" source).
func (r *Rng) Read(p []byte) (int, error) {
	for i := range p {
		p[i] = byte(r.U64())
	}
	return len(p), nil
}

// Tape is an io.Reader over fixed bytes that records how much was consumed
// and fails when exhausted.
type Tape struct {
	Data []byte
	Pos  int
}

func (t *Tape) Read(p []byte) (int, error) {
	if t.Pos+len(p) > len(t.Data) {
		return 0, fmt.Errorf("tape exhausted")
	}
	copy(p, t.Data[t.Pos:t.Pos+len(p)])
	t.Pos += len(p)
	return len(p), nil
}

// ---------------------------------------------------------------- output

type Out struct {
	ops, out     *bufio.Writer
	fo, fu       *os.File
	metaPath     string
	Meta         map[string]any
	Counters     map[string]int
	OracleFails  []map[string]any
	Samples      []any
	maxFailsKept int
}

type CommonFlags struct {
	Seed  uint64
	N     int
	Ops   string
	OutF  string
	Meta  string
	Tier  string
	Only  int
	Extra string
}

func ParseCommon(name string, args []string, extra func(fs *flag.FlagSet)) (*CommonFlags, *Out) {
	fs := flag.NewFlagSet(name, flag.ExitOnError)
	cf := &CommonFlags{}
	fs.Uint64Var(&cf.Seed, "seed", 1, "seed")
	fs.IntVar(&cf.N, "n", 100, "number of cases")
	fs.StringVar(&cf.Ops, "ops", "", "ops file")
	fs.StringVar(&cf.OutF, "out", "", "impl output file")
	fs.StringVar(&cf.Meta, "meta", "", "meta json file")
	fs.StringVar(&cf.Tier, "tier", "quick", "tier")
	fs.IntVar(&cf.Only, "only", -1, "run only this case index")
	fs.StringVar(&cf.Extra, "extra", "", "property-specific option")
	if extra != nil {
		extra(fs)
	}
	fs.Parse(args)
	o := &Out{metaPath: cf.Meta, Meta: map[string]any{}, Counters: map[string]int{}, maxFailsKept: 20}
	var err error
	if cf.Ops != "" {
		o.fo, err = os.Create(cf.Ops)
		if err != nil {
			panic(err)
		}
		o.ops = bufio.NewWriterSize(o.fo, 1<<20)
	}
	if cf.OutF != "" {
		o.fu, err = os.Create(cf.OutF)
		if err != nil {
			panic(err)
		}
		o.out = bufio.NewWriterSize(o.fu, 1<<20)
	}
	return cf, o
}

// Op emits one op line and the implementation's canonical result line.
func (o *Out) Op(op, result string) {
	if o.ops != nil {
		o.ops.WriteString(op)
		o.ops.WriteByte('\n')
	}
	if o.out != nil {
		// cap pathological output
		if len(result) > 8<<20 {
			result = result[:8<<20] + "...TRUNCATED"
		}
		o.out.WriteString(result)
		o.out.WriteByte('\n')
	}
}

func (o *Out) Count(k string)         { o.Counters[k]++ }
func (o *Out) CountN(k string, n int) { o.Counters[k] += n }

// Fail records an implementation-side oracle failure (a concrete input on
// which the property fails on the real code).
func (o *Out) Fail(sig string, detail map[string]any) {
	o.Counters["oracle_fail"]++
	if len(o.OracleFails) < o.maxFailsKept {
		detail["sig"] = sig
		o.OracleFails = append(o.OracleFails, detail)
	}
}

func (o *Out) Sample(s any) {
	if len(o.Samples) < 5 {
		o.Samples = append(o.Samples, s)
	}
}

func (o *Out) Close() {
	if o.ops != nil {
		o.ops.Flush()
		o.fo.Close()
	}
	if o.out != nil {
		o.out.Flush()
		o.fu.Close()
	}
	if o.metaPath != "" {
		o.Meta["counters"] = o.Counters
		o.Meta["oracle_fails"] = o.OracleFails
		o.Meta["samples"] = o.Samples
		b, _ := json.MarshalIndent(o.Meta, "", " ")
		os.WriteFile(o.metaPath, b, 0o644)
	}
}

// Hex encodes bytes.
func Hex(b []byte) string { return hex.EncodeToString(b) }

// ---------------------------------------------------------------- circuits

var OpLetter = map[circuit.Operation]string{
	circuit.XOR: "x", circuit.XNOR: "n", circuit.AND: "a", circuit.OR: "o", circuit.INV: "i",
}

// CircLine renders a circuit in the line-protocol form
//
//	<numWires> <nIn> <nOut> <gate;gate;...>   with gate = <op><in0>.<in1>.<out>
func CircLine(c *circuit.Circuit) string {
	var sb strings.Builder
	fmt.Fprintf(&sb, "%d %d %d ", c.NumWires, c.Inputs.Size(), c.Outputs.Size())
	if len(c.Gates) == 0 {
		sb.WriteString("-")
	}
	for i, g := range c.Gates {
		if i > 0 {
			sb.WriteByte(';')
		}
		fmt.Fprintf(&sb, "%s%d.%d.%d", OpLetter[g.Op], g.Input0, g.Input1, g.Output)
	}
	return sb.String()
}

func UintIO(name string, bits int) circuit.IOArg {
	return circuit.IOArg{
		Name: name,
		Type: types.Info{Type: types.TUint, IsConcrete: true, Bits: types.Size(bits)},
	}
}

// GenOpts steers the random circuit generator.
type GenOpts struct {
	MaxGates   int
	MaxIn      int
	Mix        string // "uniform", "and", "orinv", "xnor", "free"
	AllowReuse bool   // allow a gate to overwrite an earlier non-input wire
	N0, N1     int    // fixed argument widths (0 = random in 1..MaxIn)
}

// GenCircuit builds a random well-formed circuit: every gate input is an
// input wire or the output of an earlier gate; fan-out, in0 == in1 and
// (optionally) overwriting of non-input wires all occur.  Two input
// arguments (garbler, evaluator).
func GenCircuit(r *Rng, o GenOpts) *circuit.Circuit {
	n0 := 1 + r.Intn(o.MaxIn)
	n1 := 1 + r.Intn(o.MaxIn)
	if o.N0 > 0 {
		n0 = o.N0
	}
	if o.N1 > 0 {
		n1 = o.N1
	}
	nin := n0 + n1
	ng := 1 + r.Intn(o.MaxGates)
	if r.Intn(4) == 0 {
		ng = 1 + r.Intn(4)
	}
	var gates []circuit.Gate
	defined := make([]int, 0, nin+ng)
	for i := 0; i < nin; i++ {
		defined = append(defined, i)
	}
	next := nin
	pick := func() int {
		// bias to recent wires for depth
		if r.Intn(3) == 0 && len(defined) > 4 {
			return defined[len(defined)-1-r.Intn(4)]
		}
		return defined[r.Intn(len(defined))]
	}
	var stats circuit.Stats
	for i := 0; i < ng; i++ {
		var op circuit.Operation
		switch o.Mix {
		case "and":
			op = []circuit.Operation{circuit.AND, circuit.AND, circuit.AND, circuit.XOR, circuit.INV}[r.Intn(5)]
		case "orinv":
			op = []circuit.Operation{circuit.OR, circuit.INV, circuit.OR, circuit.INV, circuit.AND}[r.Intn(5)]
		case "xnor":
			op = []circuit.Operation{circuit.XNOR, circuit.XNOR, circuit.XOR, circuit.AND, circuit.OR}[r.Intn(5)]
		case "free":
			op = []circuit.Operation{circuit.XNOR, circuit.XOR}[r.Intn(2)]
		default:
			op = circuit.Operation(r.Intn(5))
		}
		a := pick()
		b := pick()
		if r.Intn(8) == 0 {
			b = a
		}
		out := next
		if o.AllowReuse && r.Intn(10) == 0 && next > nin {
			out = nin + r.Intn(next-nin)
		} else {
			next++
			defined = append(defined, out)
		}
		g := circuit.Gate{Input0: circuit.Wire(a), Input1: circuit.Wire(b), Output: circuit.Wire(out), Op: op}
		if op == circuit.INV {
			g.Input1 = 0
		}
		gates = append(gates, g)
		stats[op]++
	}
	nout := 1 + r.Intn(MinInt(8, next-nin))
	c := &circuit.Circuit{
		NumGates: len(gates),
		NumWires: next,
		Inputs:   circuit.IO{UintIO("a", n0), UintIO("b", n1)},
		Outputs:  circuit.IO{UintIO("r", nout)},
		Gates:    gates,
		Stats:    stats,
	}
	return c
}

// GenParityCircuit builds a circuit whose 8 output bits are the XOR of the
// input bits i with i%8 == j (plus a final AND/OR mix so that tables are
// transmitted): every input bit of either party influences an output, so a
// wrong input label anywhere shows in the result.
func GenParityCircuit(r *Rng, n0, n1 int) *circuit.Circuit {
	nin := n0 + n1
	var gates []circuit.Gate
	var stats circuit.Stats
	acc := make([]int, 8)
	for j := 0; j < 8; j++ {
		acc[j] = j % nin
	}
	next := nin
	for i := 8; i < nin; i++ {
		g := circuit.Gate{Input0: circuit.Wire(acc[i%8]), Input1: circuit.Wire(i), Output: circuit.Wire(next), Op: circuit.XOR}
		gates = append(gates, g)
		stats[circuit.XOR]++
		acc[i%8] = next
		next++
	}
	// a non-free layer: t = acc0 AND acc1 (dropped), then outputs re-emitted
	// through XOR with (t XOR t) = 0 so that they stay the parities
	t := next
	gates = append(gates, circuit.Gate{Input0: circuit.Wire(acc[0]), Input1: circuit.Wire(acc[1]), Output: circuit.Wire(t), Op: circuit.AND})
	stats[circuit.AND]++
	next++
	z := next
	gates = append(gates, circuit.Gate{Input0: circuit.Wire(t), Input1: circuit.Wire(t), Output: circuit.Wire(z), Op: circuit.XOR})
	stats[circuit.XOR]++
	next++
	for j := 0; j < 8; j++ {
		gates = append(gates, circuit.Gate{Input0: circuit.Wire(acc[j]), Input1: circuit.Wire(z), Output: circuit.Wire(next), Op: circuit.XOR})
		stats[circuit.XOR]++
		next++
	}
	return &circuit.Circuit{
		NumGates: len(gates),
		NumWires: next,
		Inputs:   circuit.IO{UintIO("a", n0), UintIO("b", n1)},
		Outputs:  circuit.IO{UintIO("r", 8)},
		Gates:    gates,
		Stats:    stats,
	}
}

func MinInt(a, b int) int {
	if a < b {
		return a
	}
	return b
}

func BitsString(b []bool) string {
	var sb strings.Builder
	for _, x := range b {
		if x {
			sb.WriteByte('1')
		} else {
			sb.WriteByte('0')
		}
	}
	if len(b) == 0 {
		return "-"
	}
	return sb.String()
}

// RefEval is the harness's own 20-line reference evaluator.
func RefEval(c *circuit.Circuit, in []bool) []bool {
	w := make([]bool, c.NumWires)
	copy(w, in)
	for _, g := range c.Gates {
		a := w[g.Input0]
		var b bool
		if g.Op != circuit.INV {
			b = w[g.Input1]
		}
		var v bool
		switch g.Op {
		case circuit.XOR:
			v = a != b
		case circuit.XNOR:
			v = a == b
		case circuit.AND:
			v = a && b
		case circuit.OR:
			v = a || b
		case circuit.INV:
			v = !a
		}
		w[g.Output] = v
	}
	return w
}

package hxlib

import (
	"fmt"
	"io"
	"math/big"
	"time"

	"github.com/markkurossi/mpc/circuit"
	"github.com/markkurossi/mpc/env"
	"github.com/markkurossi/mpc/ot"
	"github.com/markkurossi/mpc/p2p"
)

// IdealOT transfers the chosen labels out of band (a Go channel), so that the
// connection carries only the garbled-circuit protocol's own messages.
type IdealOT struct {
	ch chan []ot.Wire
	// Sent / Got record what the sender offered and the receiver obtained.
	Sent [][]ot.Wire
	Got  [][]ot.Label
	// Notify, when set, receives one (non-blocking) signal per Send.
	Notify chan struct{}
}

func NewIdealOT() *IdealOT { return &IdealOT{ch: make(chan []ot.Wire, 16)} }

// InitSender flushes, as every real OT's InitSender does (the garbler relies
// on it to push the garbled tables out).
func (o *IdealOT) InitSender(io ot.IO) error   { return io.Flush() }
func (o *IdealOT) InitReceiver(io ot.IO) error { return nil }
func (o *IdealOT) Send(wires []ot.Wire) error {
	w := append([]ot.Wire(nil), wires...)
	o.Sent = append(o.Sent, w)
	if o.Notify != nil {
		select {
		case o.Notify <- struct{}{}:
		default:
		}
	}
	o.ch <- w
	return nil
}
func (o *IdealOT) Receive(flags []bool, result []ot.Label) error {
	select {
	case w := <-o.ch:
		if len(w) != len(flags) {
			return fmt.Errorf("ideal OT: %d wires, %d flags", len(w), len(flags))
		}
		for i, f := range flags {
			if f {
				result[i] = w[i].L1
			} else {
				result[i] = w[i].L0
			}
		}
		o.Got = append(o.Got, append([]ot.Label(nil), result...))
		return nil
	case <-time.After(20 * time.Second):
		return fmt.Errorf("ideal OT: timeout")
	}
}

// RecOT wraps a real OT and records the sender's wires and the receiver's
// labels.
type RecOT struct {
	ot.OT
	Sent  [][]ot.Wire
	Flags [][]bool
	Got   [][]ot.Label
}

func (o *RecOT) Send(wires []ot.Wire) error {
	o.Sent = append(o.Sent, append([]ot.Wire(nil), wires...))
	return o.OT.Send(wires)
}
func (o *RecOT) Receive(flags []bool, result []ot.Label) error {
	err := o.OT.Receive(flags, result)
	o.Flags = append(o.Flags, append([]bool(nil), flags...))
	o.Got = append(o.Got, append([]ot.Label(nil), result...))
	return err
}

// SessionResult is the outcome of one two-party session.
type SessionResult struct {
	GRes, ERes []*big.Int
	GErr, EErr error
	GPanic     any
	EPanic     any
	Stalled    bool
}

// RunSession runs circuit.Garbler and circuit.Evaluator over the duplex, each
// in its goroutine, with a deadline.  randG is the garbler's entropy source.
func RunSession(c *circuit.Circuit, x, y *big.Int, gOT, eOT ot.OT, randG io.Reader, d *Duplex,
	deadline time.Duration) *SessionResult {

	res := &SessionResult{}
	gdone := make(chan struct{})
	edone := make(chan struct{})
	cg := p2p.NewConn(d.A)
	ce := p2p.NewConn(d.B)
	go func() {
		defer close(gdone)
		defer func() {
			if e := recover(); e != nil {
				res.GPanic = e
				d.Close()
			}
		}()
		res.GRes, res.GErr = circuit.Garbler(&env.Config{Rand: randG}, cg, gOT, c, x, false)
		if res.GErr != nil {
			d.Close()
		}
	}()
	go func() {
		defer close(edone)
		defer func() {
			if e := recover(); e != nil {
				res.EPanic = e
				d.Close()
			}
		}()
		res.ERes, res.EErr = circuit.Evaluator(ce, eOT, c, y, false)
		if res.EErr != nil {
			d.Close()
		}
	}()
	timer := time.After(deadline)
	for gdone != nil || edone != nil {
		select {
		case <-gdone:
			gdone = nil
		case <-edone:
			edone = nil
		case <-timer:
			res.Stalled = true
			d.Close()
			// give the goroutines a moment to unwind
			t2 := time.After(2 * time.Second)
			for gdone != nil || edone != nil {
				select {
				case <-gdone:
					gdone = nil
				case <-edone:
					edone = nil
				case <-t2:
					return res
				}
			}
			return res
		}
	}
	return res
}

// BigsString renders a result vector canonically.
func BigsString(v []*big.Int) string {
	s := ""
	for i, x := range v {
		if i > 0 {
			s += ","
		}
		s += x.Text(16)
	}
	if len(v) == 0 {
		return "-"
	}
	return s
}

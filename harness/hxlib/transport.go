package hxlib

import (
	"errors"
	"io"
	"sync"
)

// Link is one direction of an in-memory byte pipe with an unbounded buffer
// (writes never block), a seeded read-fragmentation schedule, a record of
// everything written, and an optional in-transit mutation.
type Link struct {
	mu     sync.Mutex
	cond   *sync.Cond
	buf    []byte
	closed bool

	Rec    []byte // every byte written (before mutation)
	Chunks []int  // length of every Write call
	Frag   func() int
	// Mutate, if set, is applied to a copy of the written bytes; off is the
	// stream offset of p[0].
	Mutate func(off int64, p []byte)
	off    int64
	Reads  int
}

func NewLink() *Link {
	l := &Link{}
	l.cond = sync.NewCond(&l.mu)
	return l
}

func (l *Link) Write(p []byte) (int, error) {
	l.mu.Lock()
	defer l.mu.Unlock()
	if l.closed {
		return 0, io.ErrClosedPipe
	}
	l.Rec = append(l.Rec, p...)
	l.Chunks = append(l.Chunks, len(p))
	q := append([]byte(nil), p...)
	if l.Mutate != nil {
		l.Mutate(l.off, q)
	}
	l.off += int64(len(p))
	l.buf = append(l.buf, q...)
	l.cond.Broadcast()
	return len(p), nil
}

func (l *Link) Read(p []byte) (int, error) {
	l.mu.Lock()
	defer l.mu.Unlock()
	for len(l.buf) == 0 {
		if l.closed {
			return 0, io.EOF
		}
		l.cond.Wait()
	}
	n := len(p)
	if n > len(l.buf) {
		n = len(l.buf)
	}
	if l.Frag != nil {
		f := l.Frag()
		if f < 1 {
			f = 1
		}
		if f < n {
			n = f
		}
	}
	copy(p, l.buf[:n])
	l.buf = l.buf[n:]
	l.Reads++
	return n, nil
}

func (l *Link) Close() {
	l.mu.Lock()
	l.closed = true
	l.cond.Broadcast()
	l.mu.Unlock()
}

// Endpoint is one side of a duplex connection.
type Endpoint struct {
	R *Link
	W *Link
}

func (e *Endpoint) Read(p []byte) (int, error)  { return e.R.Read(p) }
func (e *Endpoint) Write(p []byte) (int, error) { return e.W.Write(p) }
func (e *Endpoint) Close() error {
	e.R.Close()
	e.W.Close()
	return nil
}

// Duplex is a pair of endpoints: A.W -> B.R is link AB, B.W -> A.R is link BA.
type Duplex struct {
	A, B   *Endpoint
	AB, BA *Link
}

// NewDuplex creates a connected pair.  With frag != nil both directions use
// read-fragmentation schedules derived from it.
func NewDuplex(frag *Rng) *Duplex {
	ab, ba := NewLink(), NewLink()
	if frag != nil {
		ab.Frag = FragSchedule(frag.Fork())
		ba.Frag = FragSchedule(frag.Fork())
	}
	return &Duplex{A: &Endpoint{R: ba, W: ab}, B: &Endpoint{R: ab, W: ba}, AB: ab, BA: ba}
}

func (d *Duplex) Close() {
	d.AB.Close()
	d.BA.Close()
}

// FragSchedule returns read sizes from 1 byte to whole buffer, in bursts.
func FragSchedule(r *Rng) func() int {
	mode, left := 0, 0
	return func() int {
		if left == 0 {
			mode = r.Intn(5)
			left = 1 + r.Intn(40)
		}
		left--
		switch mode {
		case 0:
			return 1
		case 1:
			return 1 + r.Intn(16)
		case 2:
			return 1 + r.Intn(4096)
		case 3:
			return 1 + r.Intn(1<<17)
		default:
			return 1 << 30
		}
	}
}

var ErrStalled = errors.New("stalled")

/-
C09: direct model of the optimisation passes of `compiler/circuits/compiler.go`
over the builder-level gate/wire graph (`circuits.Gate`, `circuits.Wire`):

* `constPropagate`      – `Compiler.ConstPropagate` (+ `Gate.ShortCircuit`,
                           `Gate.ReplaceInput`, `Wire.AddOutput/RemoveOutput/
                           DisconnectOutputs/SetValue`),
* `shortCircuitXORZero` – `Compiler.ShortCircuitXORZero` (+ `Gate.ResetOutput`,
                           `Allocator.Wire`),
* `prune`               – `Compiler.Prune` / `Gate.Prune`,
* `compile`             – `Compiler.Compile` (+ `Wire.Assign`, `Gate.Visit`,
                           `Gate.Assign`, `Gate.Compile`, the GMW level sort).

Wires and gates are array indices (the Go code uses pointers); everything the
Go code keeps per wire is kept here: the constant value, the output flag, the
fan-out *count* (`RemoveOutput` only decrements it), the input gate
(`gates[0]`) and the list of output gates (`gates[1:]`, stale entries stay,
exactly as in Go).  A Go panic is `none`.  Core Lean only.
-/
import MpcVerif.Model.Circuit
import MpcVerif.Model.Levels
import MpcVerif.Model.Equiv

namespace Mpc

/-- `circuits.WireValue` -/
inductive WVal where
  | unknown | zero | one
  deriving DecidableEq, Repr, Inhabited

/-- `circuits.Wire` (without the id, which only `Compile` uses). -/
structure BWire where
  value  : WVal := .unknown
  isOut  : Bool := false
  numOut : Nat := 0
  input  : Option Nat := none
  outs   : Array Nat := #[]
  deriving Repr, Inhabited

/-- `circuits.Gate`; `b` is ignored for `inv` (Go: `B == nil`). -/
structure BGate where
  op   : Op
  a    : Nat
  b    : Nat
  o    : Nat
  dead : Bool := false
  deriving Repr, Inhabited, DecidableEq

/-- The state of a `circuits.Compiler` between the passes.  Input wires are
the wires `0 .. nIn-1` (canonical numbering of the dump), `outputs` are
`cc.OutputWires`, `zero`/`one` are `cc.zeroWire`/`cc.oneWire`. -/
structure Graph where
  nIn     : Nat
  zero    : Nat
  one     : Nat
  outputs : List Nat
  wires   : Array BWire
  gates   : Array BGate
  deriving Repr, Inhabited

def BGate.toGate (g : BGate) : Gate := { op := g.op, in0 := g.a, in1 := g.b, out := g.o }

namespace Graph

@[inline] def wire (G : Graph) (w : Nat) : BWire := G.wires.getD w default
@[inline] def gate (G : Graph) (i : Nat) : BGate := G.gates.getD i default
@[inline] def wval (G : Graph) (w : Nat) : WVal := (G.wire w).value

/-- `Wire.SetValue` -/
def setValue (G : Graph) (w : Nat) (v : WVal) : Graph :=
  { G with wires := G.wires.modify w fun x => { x with value := v } }

/-- `Wire.AddOutput` -/
def addOutput (G : Graph) (w g : Nat) : Graph :=
  { G with wires := G.wires.modify w fun x => { x with outs := x.outs.push g, numOut := x.numOut + 1 } }

/-- `Wire.RemoveOutput`: only the counter is decremented; `0 - 1` overflows
the 29-bit counter and `SetNumOutputs` panics. -/
def removeOutput (G : Graph) (w : Nat) : Option Graph :=
  if (G.wire w).numOut = 0 then none
  else some { G with wires := G.wires.modify w fun x => { x with numOut := x.numOut - 1 } }

/-- `Wire.DisconnectOutputs` -/
def disconnectOutputs (G : Graph) (w : Nat) : Graph :=
  { G with wires := G.wires.modify w fun x => { x with numOut := 0, outs := #[] } }

def setA (G : Graph) (i w : Nat) : Graph :=
  { G with gates := G.gates.modify i fun g => { g with a := w } }
def setB (G : Graph) (i w : Nat) : Graph :=
  { G with gates := G.gates.modify i fun g => { g with b := w } }
def setO (G : Graph) (i w : Nat) : Graph :=
  { G with gates := G.gates.modify i fun g => { g with o := w } }

/-- `Gate.ReplaceInput(from, to)` on gate `h`. -/
def replaceInput (G : Graph) (h frm to : Nat) : Option Graph :=
  let g := G.gate h
  if g.a = frm then
    (G.removeOutput g.a).map fun G => (G.addOutput to h).setA h to
  else if g.op ≠ .inv ∧ g.b = frm then
    (G.removeOutput g.b).map fun G => (G.addOutput to h).setB h to
  else none

def replaceInputs (frm to : Nat) : List Nat → Graph → Option Graph
  | [], G => some G
  | h :: hs, G =>
    match G.replaceInput h frm to with
    | none => none
    | some G => replaceInputs frm to hs G

/-- `Gate.ShortCircuit(o)` on gate `i`. -/
def shortCircuit (G : Graph) (i o : Nat) : Option Graph :=
  let g := G.gate i
  if (G.wire g.o).isOut then some G
  else (replaceInputs g.o o (G.wire g.o).outs.toList G).map fun G => G.disconnectOutputs g.o

/-! ### ConstPropagate -/

/-- What the `switch g.Op` of `ConstPropagate` decides for a gate. -/
inductive CPAction where
  | none
  | set (v : WVal)
  | alias (toB : Bool)   -- `g.ShortCircuit(g.B)` (`toB`) or `g.ShortCircuit(g.A)`
  deriving DecidableEq, Repr

def cpRule (op : Op) (va vb : WVal) : CPAction :=
  match op with
  | .xor =>
    if (va = .zero ∧ vb = .zero) ∨ (va = .one ∧ vb = .one) then .set .zero
    else if (va = .zero ∧ vb = .one) ∨ (va = .one ∧ vb = .zero) then .set .one
    else if va = .zero then .alias true
    else if vb = .zero then .alias false
    else .none
  | .xnor =>
    if (va = .zero ∧ vb = .zero) ∨ (va = .one ∧ vb = .one) then .set .one
    else if (va = .zero ∧ vb = .one) ∨ (va = .one ∧ vb = .zero) then .set .zero
    else .none
  | .and =>
    if va = .zero ∨ vb = .zero then .set .zero
    else if va = .one ∧ vb = .one then .set .one
    else if va = .one then .alias true
    else if vb = .one then .alias false
    else .none
  | .or =>
    if va = .one ∨ vb = .one then .set .one
    else if va = .zero ∧ vb = .zero then .set .zero
    else if va = .zero then .alias true
    else if vb = .zero then .alias false
    else .none
  | .inv =>
    if va = .one then .set .zero
    else if va = .zero then .set .one
    else .none

/-- The `switch` part of one loop iteration. -/
def cpSwitch (G : Graph) (i : Nat) : Option Graph :=
  let g := G.gate i
  let va := G.wval g.a
  let vb := if g.op = .inv then WVal.unknown else G.wval g.b
  match cpRule g.op va vb with
  | .none => some G
  | .set v => some (G.setValue g.o v)
  | .alias true => G.shortCircuit i g.b
  | .alias false => G.shortCircuit i g.a

/-- The constant wire that replaces an input of value `v`. -/
def constWire (G : Graph) : WVal → Option Nat
  | .zero => some G.zero
  | .one => some G.one
  | .unknown => none

/-- `if g.A.Value() == Zero { g.A.RemoveOutput(g); g.A = cc.ZeroWire(); g.A.AddOutput(g) } else if One …` -/
def cpFixA (G : Graph) (i : Nat) : Option Graph :=
  let g := G.gate i
  match G.constWire (G.wval g.a) with
  | none => some G
  | some c => (G.removeOutput g.a).map fun G => (G.setA i c).addOutput c i

def cpFixB (G : Graph) (i : Nat) : Option Graph :=
  let g := G.gate i
  if g.op = .inv then some G else
  match G.constWire (G.wval g.b) with
  | none => some G
  | some c => (G.removeOutput g.b).map fun G => (G.setB i c).addOutput c i

/-- One iteration of the `for _, g := range cc.Gates` loop. -/
def cpStep (G : Graph) (i : Nat) : Option Graph :=
  (G.cpSwitch i).bind fun G => (G.cpFixA i).bind fun G => G.cpFixB i

def cpLoop : List Nat → Graph → Option Graph
  | [], G => some G
  | i :: is, G =>
    match G.cpStep i with
    | none => none
    | some G => cpLoop is G

/-- `Compiler.ConstPropagate` -/
def constPropagate (G : Graph) : Option Graph := cpLoop (List.range G.gates.size) G

/-! ### ShortCircuitXORZero -/

/-- `Allocator.Wire()`: a fresh wire (`Reset(UnassignedID)`); returns its index. -/
def freshWire (G : Graph) : Graph × Nat :=
  ({ G with wires := G.wires.push {} }, G.wires.size)

/-- One of the two `if` statements: `zeroSide` is the input tested for value
Zero, `other` the input whose producer is redirected.
`if zeroSide.Value() == Zero && !other.IsInput() && other.Input().O.NumOutputs() == 1 {
   other.Input().ResetOutput(g.O); g.O = cc.Calloc.Wire() }` -/
def scTry (G : Graph) (i zeroSide other : Nat) : Graph :=
  if G.wval zeroSide = .zero then
    match (G.wire other).input with
    | none => G
    | some p =>
      if (G.wire (G.gate p).o).numOut = 1 then
        let G := G.setO p (G.gate i).o
        let (G, w) := G.freshWire
        G.setO i w
      else G
  else G

def scStep (G : Graph) (i : Nat) : Graph :=
  if (G.gate i).op ≠ .xor then G else
  let G := G.scTry i (G.gate i).a (G.gate i).b
  G.scTry i (G.gate i).b (G.gate i).a

/-- `Compiler.ShortCircuitXORZero` -/
def shortCircuitXORZero (G : Graph) : Graph :=
  (List.range G.gates.size).foldl scStep G

/-! ### Prune -/

/-- `g.Dead = true` -/
def kill (G : Graph) (i : Nat) : Graph :=
  { G with gates := G.gates.modify i fun g => { g with dead := true } }

/-- `Gate.Prune` on gate `i`: a gate whose output wire is neither a circuit
output nor counted as used by any gate is dead; its inputs lose one user. -/
def pruneGate (G : Graph) (i : Nat) : Option Graph :=
  let g := G.gate i
  if g.dead || (G.wire g.o).isOut || decide ((G.wire g.o).numOut > 0) then some G
  else
    if g.op = .inv then (G.kill i).removeOutput g.a
    else ((G.kill i).removeOutput g.b).bind fun G => G.removeOutput g.a

def pruneLoop : List Nat → Graph → Option Graph
  | [], G => some G
  | i :: is, G =>
    match G.pruneGate i with
    | none => none
    | some G => pruneLoop is G

/-- `Compiler.Prune`: gates are visited from the last to the first; the
pruned gates are dropped from `cc.Gates` (here: flagged dead; every consumer
of `gates` skips dead gates, as `Gate.Visit/Assign/Compile` do). -/
def prune (G : Graph) : Option Graph := pruneLoop (List.range G.gates.size).reverse G

/-! ### Compile -/

/-- Mutable state of `Compiler.Compile`. -/
structure CState where
  ids      : Array (Option Nat)   -- `Wire.id` (none = UnassignedID)
  next     : Nat                  -- `cc.nextWireID`
  visited  : Array Bool           -- `Gate.Visited`
  level    : Array Nat            -- `Gate.Level`
  pending  : Array Nat            -- `cc.pending` (FIFO, `head` = consumed prefix)
  head     : Nat
  assigned : Array Nat            -- `cc.assigned`
  deriving Repr, Inhabited

def CState.isAssigned (st : CState) (w : Nat) : Bool := (st.ids.getD w none).isSome

/-- `Gate.Visit(cc, level)` -/
def visit (G : Graph) (st : CState) (h level : Nat) : CState :=
  let g := G.gate h
  if !g.dead && !st.visited.getD h true && st.isAssigned g.a &&
      (g.op == .inv || st.isAssigned g.b) then
    { st with visited := st.visited.setIfInBounds h true, level := st.level.setIfInBounds h level,
              pending := st.pending.push h }
  else st

/-- `Wire.Assign(cc, level)` -/
def assignWire (G : Graph) (st : CState) (w level : Nat) : CState :=
  if (G.wire w).isOut then st else
  let st := if st.isAssigned w then st
            else { st with ids := st.ids.setIfInBounds w (some st.next), next := st.next + 1 }
  (G.wire w).outs.foldl (fun st h => G.visit st h level) st

/-- `Gate.Assign(cc)` -/
def gateAssign (G : Graph) (st : CState) (h : Nat) : CState :=
  let g := G.gate h
  if g.dead then st else
  let st := G.assignWire st g.o (st.level.getD h 0 + 1)
  { st with assigned := st.assigned.push h }

/-- `for len(cc.pending) > 0 { gate := cc.pending[0]; cc.pending = cc.pending[1:]; gate.Assign(cc) }`;
every gate enters `pending` at most once, so `fuel = #gates + 1` suffices. -/
def drain (G : Graph) : Nat → CState → CState
  | 0, st => st
  | fuel + 1, st =>
    if h : st.head < st.pending.size then
      let g := st.pending[st.head]
      drain G fuel (G.gateAssign { st with head := st.head + 1 } g)
    else st

/-- `for _, w := range cc.OutputWires { if w.Assigned() { panic } else { w.SetID(cc.NextWireID()) } }`
(`cc.OutputsAssigned` is false in `CompileCircuit`). -/
def assignOutputs : List Nat → CState → Option CState
  | [], st => some st
  | w :: ws, st =>
    if st.isAssigned w then none
    else assignOutputs ws { st with ids := st.ids.setIfInBounds w (some st.next), next := st.next + 1 }

/-- `Gate.Compile`: the compiled gate. -/
def emitGate (G : Graph) (st : CState) (h : Nat) : Gate :=
  let g := G.gate h
  let id := fun w => (st.ids.getD w none).getD 0
  { op := g.op, in0 := id g.a, in1 := if g.op = .inv then 0 else id g.b, out := id g.o }

def compileState (G : Graph) : Option CState :=
  let n := G.gates.size
  let st0 : CState :=
    { ids := Array.replicate G.wires.size none, next := 0, visited := Array.replicate n false,
      level := Array.replicate n 0, pending := #[], head := 0, assigned := #[] }
  let st := (List.range G.nIn).foldl (fun st w => G.assignWire st w 0) st0
  let st := G.drain (n + 1) st
  if st.head < st.pending.size then none else
  assignOutputs G.outputs st

/-- `Compiler.Compile`; `gmw` = `cc.Params.Target == utils.TargetGMW`
(stable sort of `cc.assigned` by (Level, AND first)). -/
def compile (G : Graph) (gmw : Bool) : Option Circuit :=
  match G.compileState with
  | none => none
  | some st =>
    let gl := st.assigned.toList.map fun h => (G.emitGate st h, st.level.getD h 0)
    let gl := if gmw then compileSort gl else gl
    some { numWires := st.next, nIn := G.nIn, nOut := G.outputs.length, gates := gl.map Prod.fst }

/-- Inverse of the id assignment (untrusted helper: `compileChecks` validates it). -/
def mkInv (G : Graph) (st : CState) : Array (Option Nat) :=
  (List.range G.wires.size).foldl (fun inv w =>
    match st.ids.getD w none with
    | some k => inv.setIfInBounds k (some w)
    | none => inv) (Array.replicate st.next none)

/-- Validation of one run of `Compile` (the breadth-first id assignment is
not proved complete and injective in general; instead every run is checked):
* `inv` inverts the id assignment, inputs keep their index;
* every compiled gate is a live gate whose wires all have ids;
* the compiled circuit is single-assignment and topologically ordered
  (`absRun`), and every output id is an input or written by a compiled gate;
* output wire number `i` has id `numWires - nOut + i`. -/
def compileChecks (G : Graph) (st : CState) (C : Circuit) : Bool :=
  let inv := G.mkInv st
  let hasId := fun w => decide (w < G.wires.size) && (st.ids.getD w none).isSome
  decide (G.nIn ≤ st.next) && decide (G.outputs.length ≤ st.next) &&
  ((List.range G.wires.size).all fun w =>
    match st.ids.getD w none with
    | some k => decide (k < st.next) && (inv.getD k none == some w)
    | none => true) &&
  ((List.range G.nIn).all fun w => st.ids.getD w none == some w) &&
  (st.assigned.toList.all fun h =>
    decide (h < G.gates.size) && !(G.gate h).dead && hasId (G.gate h).a &&
    ((G.gate h).op == .inv || hasId (G.gate h).b) && hasId (G.gate h).o) &&
  (C.absRun #[]).isSome &&
  ((List.range G.outputs.length).all fun i =>
    let k := st.next - G.outputs.length + i
    decide (G.outputs.getD i 0 < G.wires.size) && (st.ids.getD (G.outputs.getD i 0) none == some k) &&
    (decide (k < G.nIn) || C.gates.any fun g => g.out == k))

/-- `Compile` with its run validated; this is what the tie compares with the
real `Compiler.Compile` output (gate for gate, same wire ids). -/
def compileChecked (G : Graph) (gmw : Bool) : Option Circuit :=
  match G.compileState, G.compile gmw with
  | some st, some C => if G.compileChecks st C then some C else none
  | _, _ => none

/-! ### Semantics of a builder-level graph -/

/-- The live gates in `cc.Gates` order. -/
def liveGates (G : Graph) : List Gate :=
  (G.gates.toList.filter fun g => !g.dead).map BGate.toGate

/-- Gate-by-gate evaluation in `cc.Gates` order; wires that nothing drives
read 0. -/
def evalStore (G : Graph) (x : List Bool) : Store Bool :=
  evalPlainGates G.liveGates (initStore G.wires.size false (x.take G.nIn))

/-- The input-to-output function of the graph: the values of `cc.OutputWires`. -/
def compute (G : Graph) (x : List Bool) : List Bool :=
  G.outputs.map (G.evalStore x).get

end Graph
end Mpc

/-
Executable model of `compiler/mpa/mpint.go` (multi-precision integers used by
the constant folder).  Core Lean only.

An `mpa.Int` has a type size `bits`, an `int64` (`i64`) and an optional
`*big.Int` (`values`).  Receivers with `bits ≤ 64` take the *small path*
(Go `int64` arithmetic followed by `setSmall`, which masks to `bits` bits);
the others take the *large path* (math/big for the bitwise operations, and
for `+ - * / %` a circuit that is built with the builders of
compiler/circuits and evaluated with `Circuit.Compute`).

The small path is modelled on `BitVec 64` with Go's wrap / truncated
division / shift semantics.  The large path is modelled at the arithmetic
level (what the adder / subtractor / multiplier / signed divider circuits
compute for the given operand widths); the builders themselves are the
subject of C07.  `Option` = a Go panic.
-/

namespace Mpc.Mpa

/-- `mpa.Int`. -/
structure MInt where
  bits : Nat
  i64 : BitVec 64 := 0#64
  big : Option Int := none
  deriving Repr, DecidableEq, Inhabited

namespace MInt

/-- `isSmall` -/
def isSmall (z : MInt) : Bool := z.bits ≤ 64

/-- `small()`: `values.Int64()` when the big value is set (math/big: low 64
bits of the magnitude, negated for negative values = the value mod 2^64). -/
def small (z : MInt) : BitVec 64 :=
  match z.big with
  | some v => BitVec.ofInt 64 v
  | none => z.i64

/-- `big()` (the caching write to `z.values` is not observable). -/
def bigv (z : MInt) : Int :=
  match z.big with
  | some v => v
  | none => z.i64.toInt

end MInt

/-- `mask := 0xffffffffffffffff >> (64 - bits)` -/
def mask (bits : Nat) : BitVec 64 := BitVec.allOnes 64 >>> (64 - bits)

/-- `setSmall`: panics for `bits > 64`. -/
def setSmall (bits : Nat) (x : BitVec 64) : Option MInt :=
  if bits > 64 then none else some { bits := bits, i64 := x &&& mask bits, big := none }

/-- Length of the value as an unsigned 64-bit number, at least 1 (the loop of
`NewInt`, `BitLen` and `Generator.Constant`). -/
def bitLen64 (v : BitVec 64) : Nat := if v.toNat = 0 then 1 else Nat.log2 v.toNat + 1

/-- `Generator.Constant` / `NewInt(x, 0)`: 32 / 64 / n sizing. -/
def constSize (minBits : Nat) : Nat :=
  if minBits > 64 then minBits else if minBits > 32 then 64 else 32

/-- `New(bits)`: panics on 0. -/
def new (bits : Nat) : Option MInt := if bits = 0 then none else some { bits := bits }

/-- `NewInt(x, bits)`; the value is NOT masked. -/
def newInt (x : BitVec 64) (bits : Nat) : MInt :=
  if bits = 0 then { bits := (if bitLen64 x > 32 then 64 else 32), i64 := x }
  else { bits := bits, i64 := x }

/-- `big.Int.BitLen` -/
def natBitLen (n : Nat) : Nat := if n = 0 then 0 else Nat.log2 n + 1

/-- `setBig` (the path of `Parse`): values that fit an `int64` become small
64-bit values, the others keep the big value with `bits = BitLen (+1)`. -/
def setBig (x : Int) : MInt :=
  if -(2 : Int) ^ 63 ≤ x ∧ x < (2 : Int) ^ 63 then
    { bits := 64, i64 := BitVec.ofInt 64 x, big := none }
  else
    let bl := natBitLen x.natAbs
    { bits := if x > 0 then bl + 1 else bl, i64 := 0#64, big := some x }

/-- Bit `i` of an integer in two's complement (math/big `Int.Bit`). -/
def intBit (v : Int) (i : Nat) : Bool := (v >>> i) % 2 == 1

namespace MInt

/-- `Bit(i)` -/
def bit (z : MInt) (i : Nat) : Bool :=
  if z.isSmall then (z.small.sshiftRight i).getLsbD 0 else intBit z.bigv i

/-- `BitLen()` -/
def bitLen (z : MInt) : Nat :=
  if z.isSmall then bitLen64 z.small else natBitLen z.bigv.natAbs

/-- `Sign()` -/
def sign (z : MInt) : Int :=
  if z.isSmall then (if z.small.toInt < 0 then -1 else if z.small.toInt > 0 then 1 else 0)
  else z.bigv.sign

/-- `Int64()`; `bits = 0` makes the shift count negative (Go run-time panic). -/
def int64 (z : MInt) : Option (BitVec 64) :=
  if z.isSmall then
    if z.bits = 0 then none else
    let v := z.small
    let signBit : BitVec 64 := 1#64 <<< (z.bits - 1)
    if z.bits = 64 ∨ v &&& signBit = 0#64 then some v
    else some (-((signBit <<< 1) - v))
  else some (BitVec.ofInt 64 z.bigv)

/-- `signed(bits-1)`: the magnitude with the sign taken from bit `bits-1`. -/
def signedVal (z : MInt) : Int :=
  let v := z.bigv
  if z.bits = 0 then v else
  let sign : Int := if intBit v (z.bits - 1) then -1 else 1
  if sign ≠ v.sign then -v else v

/-- `String()` as a number. -/
def value (z : MInt) : Int := z.bigv

end MInt

/-- Three-way comparison. -/
def cmpInt (a b : Int) : Int := if a < b then -1 else if a > b then 1 else 0

/-- `z.Cmp(x)` -/
def cmp (z x : MInt) : Option Int :=
  if z.isSmall ∧ x.isSmall then do
    let a ← z.int64
    let b ← x.int64
    pure (cmpInt a.toInt b.toInt)
  else some (cmpInt z.signedVal x.signedVal)

/-! ## Large path: what the evaluated circuits compute -/

/-- The `w` input wires fed by `Compute` from a big integer. -/
def wires (v : Int) (w : Nat) : Nat := (v % (2 ^ w : Nat)).toNat

/-- `bin(op)`: since repo d31d09e both operands are fed at the RESULT width
`nz = max(x.bits, y.bits, z.bits)` (`Compute` reads the bits of the big values:
zero extension, two's complement for negative values), so adder, subtractor and
(Karatsuba, `nz > 64`) multiplier are exact mod 2^nz and replace no declared
output wire.  (Before: operands at their own widths; adder / subtractor made
`Compile` panic "Output already assigned" for `nz > max(x.bits, y.bits) + 1`.) -/
def largeAdd (xb yb zb : Nat) (x y : Int) : Option MInt :=
  let nz := max (max xb yb) zb
  some { bits := nz, i64 := 0#64, big := some (((wires x nz + wires y nz) % 2 ^ nz : Nat) : Int) }

/-- `bin(NewSubtractor)` -/
def largeSub (xb yb zb : Nat) (x y : Int) : Option MInt :=
  let nz := max (max xb yb) zb
  some { bits := nz, i64 := 0#64,
         big := some ((((wires x nz : Nat) : Int) - (wires y nz : Nat)) % ((2 ^ nz : Nat) : Int)) }

/-- `bin(NewMultiplier(cc, 0, …))` -/
def largeMul (xb yb zb : Nat) (x y : Int) : Option MInt :=
  let nz := max (max xb yb) zb
  some { bits := nz, i64 := 0#64, big := some (((wires x nz * wires y nz) % 2 ^ nz : Nat) : Int) }

/-- Unsigned long division circuit (`NewUDividerLong`): by zero the quotient
is all ones and the remainder the dividend. -/
def udivC (m a b : Nat) : Nat := if b = 0 then 2 ^ m - 1 else a / b
def umodC (a b : Nat) : Nat := if b = 0 then a else a % b

/-- `NewIDivider` on `m`-bit operands (zero padded to `m` first): magnitudes
by two's complement negation, unsigned division, quotient negated when the
signs differ; the remainder is `|a| mod |b|`. -/
def idivC (m a b : Nat) : Nat × Nat :=
  let sa := a.testBit (m - 1)
  let sb := b.testBit (m - 1)
  let ma := if sa then (2 ^ m - a) % 2 ^ m else a
  let mb := if sb then (2 ^ m - b) % 2 ^ m else b
  let q0 := udivC m ma mb
  let q := if sa != sb then (2 ^ m - q0) % 2 ^ m else q0
  (q, umodC ma mb)

/-- `Compiler.SignPad`: the `xb` wires of `a` extended to `m` wires by repeating wire `xb-1`. -/
def signPad (a xb m : Nat) : Nat := if xb < m ∧ a.testBit (xb - 1) then a + (2 ^ m - 2 ^ xb) else a

/-- How `circuits.NewIDivider` brings its operands to a common width: `false` = `cc.ZeroPad` (repo HEAD),
`true` = `cc.SignPad` (repo commit 5531c24, which was taken out of the history again).  The check compares this
constant with the source of `NewIDivider` on every run (structural fact); the theorems hold for both values. -/
def idivSignPads : Bool := false

def padOperand (a xb m : Nat) : Nat := if idivSignPads then signPad a xb m else a

/-- Large `Div` / `Mod`: a signed divider for BOTH signednesses, result size
`max(x.bits, y.bits)`, operands fed at their own sizes. -/
def largeDivMod (xb yb : Nat) (x y : Int) : Nat × Nat × Nat :=
  let m := max xb yb
  let (q, r) := idivC m (padOperand (wires x xb) xb m) (padOperand (wires y yb) yb m)
  (m, q, r)

/-! ## Arithmetic methods `z.Op(x, y)`; `alias` says that `z` is `x` itself -/

/-- Since repo de91761 `Add` keeps the receiver's width like `Sub` and `Mul` (before: `z.bits = max(x.bits, y.bits)`). -/
def add (z x y : MInt) : Option MInt :=
  if z.isSmall then setSmall z.bits (x.small + y.small)
  else largeAdd x.bits y.bits z.bits x.bigv y.bigv

def sub (z x y : MInt) : Option MInt :=
  if z.isSmall then setSmall z.bits (x.small - y.small)
  else largeSub x.bits y.bits z.bits x.bigv y.bigv

def mul (z x y : MInt) : Option MInt :=
  if z.isSmall then setSmall z.bits (x.small * y.small)
  else largeMul x.bits y.bits z.bits x.bigv y.bigv

/-- Go `int64` division truncates toward zero and wraps for `MinInt64 / -1`. -/
def div (z x y : MInt) : Option MInt :=
  if z.isSmall then
    if y.small = 0#64 then setSmall z.bits (BitVec.allOnes 64)
    else setSmall z.bits (x.small.sdiv y.small)
  else
    let (m, q, _) := largeDivMod x.bits y.bits x.bigv y.bigv
    some { bits := m, i64 := z.i64, big := some (q : Int) }

/-- Go `%`: the remainder has the sign of the dividend. -/
def mod (z x y : MInt) : Option MInt :=
  if z.isSmall then
    if y.small = 0#64 then setSmall z.bits x.small
    else setSmall z.bits (x.small.srem y.small)
  else
    let (m, _, r) := largeDivMod x.bits y.bits x.bigv y.bigv
    some { bits := m, i64 := z.i64, big := some (r : Int) }

/-- math/big bitwise operations act on the infinite two's complement
representation: computed here on `w`-bit residues with `w` larger than both
magnitudes, then read back as a signed `w`-bit number. -/
def intBitwise (f : Nat → Nat → Nat) (a b : Int) : Int :=
  let w := max (natBitLen a.natAbs) (natBitLen b.natAbs) + 1
  let r := f (wires a w) (wires b w) % 2 ^ w
  if r ≥ 2 ^ (w - 1) then (r : Int) - ((2 ^ w : Nat) : Int) else (r : Int)

/-- Bitwise operations: `setSmall` of the `int64` operation, resp. math/big on
the big values (`z.bits` unchanged). -/
def bitwise (f64 : BitVec 64 → BitVec 64 → BitVec 64) (fnat : Nat → Nat → Nat) (z x y : MInt) : Option MInt :=
  if z.isSmall then setSmall z.bits (f64 x.small y.small)
  else some { z with big := some (intBitwise fnat x.bigv y.bigv) }

def and := bitwise (· &&& ·) (· &&& ·)
def or := bitwise (· ||| ·) (· ||| ·)
def xor := bitwise (· ^^^ ·) (· ^^^ ·)
/-- `x &^ y`; on residues `a &&& ~b = a ^^^ (a &&& b)`. -/
def andNot := bitwise (fun a b => a &&& ~~~b) (fun a b => a ^^^ (a &&& b))

/-- `Lsh`: large path shifts the big value and clears (`SetBit(i, 0)`) the bits
from `z.bits` up to the length of the shifted magnitude: for a non-negative
value this is the value mod 2^z.bits; for a negative big value (two's
complement `SetBit`) the cleared range is subtracted. -/
def lsh (z x : MInt) (n : Nat) : Option MInt :=
  if z.isSmall then setSmall z.bits (x.small <<< n)
  else
    let v := x.bigv <<< n
    if 0 ≤ v then some { z with big := some (v % ((2 ^ z.bits : Nat) : Int)) }
    else
    let l := natBitLen v.natAbs
    let v' := if l > z.bits then v - ((((v >>> z.bits) % ((2 ^ (l - z.bits) : Nat) : Int))) <<< z.bits) else v
    some { z with big := some v' }

/-- `Rsh`: arithmetic shift of the `int64` on the small path; on the large
path the size of `x` is taken over. -/
def rsh (z x : MInt) (n : Nat) (alias : Bool) : Option MInt :=
  if z.isSmall then setSmall z.bits (x.small.sshiftRight n)
  else some { bits := if alias then z.bits else x.bits, i64 := z.i64, big := some (x.bigv >>> n) }

end Mpc.Mpa

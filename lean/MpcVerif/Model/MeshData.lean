/-
Data layer over the mesh transition system (`Model/Mesh.lean`): per TCP
connection and direction the byte queue from the moment of the dial, so that
the DATA phase of a party may overlap the SETUP phase of the others.

Property C19: "the k-th connection at one end is the k-th at the other end:
data sent on it arrives there" - for data sent at any time after the sender's
own `Connect` returned, whatever the other parties are doing.  A party with
nothing left to accept (e.g. party 1) returns from `Connect` as soon as it has
dialled; what it sends right away reaches the listener's socket together with
(or directly behind) its hello, before the accepting party has called `Accept`.

Go code mirrored (p2p/network.go, p2p/protocol.go):
* `dial`: `net.Dial`, `NewConn(c)`, hello, `SetConn` - the socket exists from
  this step on and takes bytes;
* `acceptLoop`/`acceptConn`: `conn := NewConn(c)`; the three `Receive*` calls of
  the hello go through `conn.Fill`, i.e. one `Read` into `conn.ReadBuf` takes
  whatever the socket holds - the hello AND any payload bytes behind it; the
  very same `*Conn` (with its `ReadBuf`) is stored by `SetConn`/`addPeer`;
* `Conn.Fill` / `Conn.Receive*`: application receive = move bytes from the
  socket into `ReadBuf`, consume from `ReadBuf`;
* `Conn.Send*` + `Flush`: application send.

State on top of `Mesh.State`: `out p q k` / `inp p q k` = everything party p
has sent on / received from `Peers[q].Conns[k]` (application level); per
connection `cn` and receiving end p: `sock cn p` = bytes in the kernel socket
not yet read, `buf cn p` = bytes in the `ReadBuf` of the `*Conn` object that
the accept goroutine created for `cn` (or that `dial` created).  The bytes of
the setup protocol itself (hello, network info) are not payload and not
represented.

`DEv.evDrop` is NOT an event of the code as it is: it is `acceptConn` reading
the hello through a reader that is not the stored connection (a temporary
`Conn` / `bufio.Reader` on the raw `net.Conn`), kept only to state what that
would lose (Props/C19.lean, `C19_hello_reader_drops_early_data`).
Core Lean only.
-/
import MpcVerif.Model.Mesh

namespace Mpc.Mesh

/-- Point update of a per-connection queue table.  `noinline`: the new value is
evaluated once, when the table is updated (an inlined update lets the compiler
move the computation of `v` into the closure, where every later lookup repeats
it - exponentially along a chain of updates). -/
@[noinline] def updC (f : Conn → Nat → List Nat) (cn : Conn) (p : Nat) (v : List Nat) : Conn → Nat → List Nat :=
  fun c x => if c = cn ∧ x = p then v else f c x

/-- Point update of a per-slot sequence table (`upd3`, not inlined; see `updC`). -/
@[noinline] def updS (f : Nat → Nat → Nat → List Nat) (a b c : Nat) (v : List Nat) : Nat → Nat → Nat → List Nat :=
  fun x y z => if x = a ∧ y = b ∧ z = c then v else f x y z

structure DState where
  base : State
  /-- everything party p has sent on `Peers[q].Conns[k]` -/
  out  : Nat → Nat → Nat → List Nat
  /-- everything party p has received from `Peers[q].Conns[k]` -/
  inp  : Nat → Nat → Nat → List Nat
  /-- bytes in the socket of connection cn at party p's end, not yet read -/
  sock : Conn → Nat → List Nat
  /-- `ReadBuf` of the `*Conn` of connection cn at party p's end: read from the
  socket, not yet consumed -/
  buf  : Conn → Nat → List Nat

def dinit (c : Cfg) : DState where
  base := init c
  out := fun _ _ _ => []
  inp := fun _ _ _ => []
  sock := fun _ _ => []
  buf := fun _ _ => []

inductive DEv where
  /-- a setup event; for `accTake j i k`: the `Read` that fetches the hello also
  takes the first `r` payload bytes of the socket into the new `Conn`'s `ReadBuf` -/
  | ev (e : Ev) (r : Nat)
  /-- party p (its `Connect` has returned) sends `bs` on `Peers[q].Conns[k]` and flushes -/
  | send (p q k : Nat) (bs : List Nat)
  /-- party p (its `Connect` has returned) receives on `Peers[q].Conns[k]`:
  `Fill` moves `r` bytes from the socket to `ReadBuf`, then `n` bytes are consumed -/
  | recv (p q k r n : Nat)
  /-- as `ev`, but `accTake` reads the hello through a temporary reader: the
  `r` payload bytes read along are gone with it -/
  | evDrop (e : Ev) (r : Nat)

/-- Effect of a setup event on the byte queues: only `accTake` touches them. -/
def accFill (s : DState) (e : Ev) (r : Nat) (keep : Bool) : DState :=
  match e with
  | .accTake j i k =>
    let cn : Conn := ⟨i, j, k⟩
    -- (the `if` is on the value, not on the table: an `if` between two tables is
    -- compiled to a closure that recomputes the value at every lookup)
    let b : List Nat := if keep then s.buf cn j ++ (s.sock cn j).take r else s.buf cn j
    { s with buf := updC s.buf cn j b, sock := updC s.sock cn j ((s.sock cn j).drop r) }
  | _ => s

def dstep (c : Cfg) (s : DState) : DEv → Option DState
  | .ev e r => (step c s.base e).map fun b => { accFill s e r true with base := b }
  | .evDrop e r => (step c s.base e).map fun b => { accFill s e r false with base := b }
  | .send p q k bs =>
    if s.base.phase p = .done then
      match s.base.conn p q k with
      | some cn => some { s with out := updS s.out p q k (s.out p q k ++ bs),
                                 sock := updC s.sock cn q (s.sock cn q ++ bs) }
      | none => none
    else none
  | .recv p q k r n =>
    if s.base.phase p = .done then
      match s.base.conn p q k with
      | some cn =>
        let b := s.buf cn p ++ (s.sock cn p).take r
        some { s with inp := updS s.inp p q k (s.inp p q k ++ b.take n),
                      buf := updC s.buf cn p (b.drop n),
                      sock := updC s.sock cn p ((s.sock cn p).drop r) }
      | none => none
    else none

/-- Events of the code as it is. -/
def DEv.real : DEv → Bool
  | .ev e _ => e.real
  | .send .. => true
  | .recv .. => true
  | .evDrop .. => false

/-- Events of a variant whose `acceptConn` reads the hello through a temporary reader. -/
def DEv.dropping : DEv → Bool
  | .ev (.accTake ..) _ => false
  | .ev e _ => e.real
  | .evDrop (.accTake ..) _ => true
  | .evDrop .. => false
  | .send .. => true
  | .recv .. => true

def drun (c : Cfg) (s : DState) : List DEv → Option DState
  | [] => some s
  | e :: es => (dstep c s e).bind fun s' => drun c s' es

/-- Nothing of the stream towards p on its slot (q, k) is still under way. -/
def drained (s : DState) (p q k : Nat) : Bool :=
  s.sock (wire p q k) p == [] && s.buf (wire p q k) p == []

end Mpc.Mesh

/-
SHA-256 (FIPS 180-4), core Lean only.  *Executed* by the C06 driver for the
byte-exact comparison of the Chou-Orlandi key derivation `deriveMask`
(/repo/ot/co_helpers.go) with Go's crypto/sha256; no theorem depends on any
property of it (the KDF is an arbitrary function in every theorem).
-/
namespace Mpc.Sha256

def kTab : Array UInt32 := #[
  0x428a2f98, 0x71374491, 0xb5c0fbcf, 0xe9b5dba5, 0x3956c25b, 0x59f111f1, 0x923f82a4, 0xab1c5ed5,
  0xd807aa98, 0x12835b01, 0x243185be, 0x550c7dc3, 0x72be5d74, 0x80deb1fe, 0x9bdc06a7, 0xc19bf174,
  0xe49b69c1, 0xefbe4786, 0x0fc19dc6, 0x240ca1cc, 0x2de92c6f, 0x4a7484aa, 0x5cb0a9dc, 0x76f988da,
  0x983e5152, 0xa831c66d, 0xb00327c8, 0xbf597fc7, 0xc6e00bf3, 0xd5a79147, 0x06ca6351, 0x14292967,
  0x27b70a85, 0x2e1b2138, 0x4d2c6dfc, 0x53380d13, 0x650a7354, 0x766a0abb, 0x81c2c92e, 0x92722c85,
  0xa2bfe8a1, 0xa81a664b, 0xc24b8b70, 0xc76c51a3, 0xd192e819, 0xd6990624, 0xf40e3585, 0x106aa070,
  0x19a4c116, 0x1e376c08, 0x2748774c, 0x34b0bcb5, 0x391c0cb3, 0x4ed8aa4a, 0x5b9cca4f, 0x682e6ff3,
  0x748f82ee, 0x78a5636f, 0x84c87814, 0x8cc70208, 0x90befffa, 0xa4506ceb, 0xbef9a3f7, 0xc67178f2]

def h0 : Array UInt32 := #[
  0x6a09e667, 0xbb67ae85, 0x3c6ef372, 0xa54ff53a, 0x510e527f, 0x9b05688c, 0x1f83d9ab, 0x5be0cd19]

@[inline] def rotr (x : UInt32) (n : UInt32) : UInt32 := (x >>> n) ||| (x <<< (32 - n))

/-- Message padding: 0x80, zeros, 64-bit big-endian bit length. -/
def pad (msg : ByteArray) : ByteArray := Id.run do
  let mut m := msg.push 0x80
  for _ in [0:(119 - msg.size % 64) % 64] do
    m := m.push 0
  let bits := msg.size * 8
  for i in [0:8] do
    m := m.push (UInt8.ofNat ((bits >>> (8 * (7 - i))) % 256))
  return m

def compress (h : Array UInt32) (m : ByteArray) (ofs : Nat) : Array UInt32 := Id.run do
  let mut w : Array UInt32 := Array.replicate 64 0
  for t in [0:16] do
    let b := fun k => (m[ofs + 4 * t + k]!).toUInt32
    w := w.set! t ((b 0 <<< 24) ||| (b 1 <<< 16) ||| (b 2 <<< 8) ||| b 3)
  for t in [16:64] do
    let x := w[t - 15]!
    let y := w[t - 2]!
    let s0 := rotr x 7 ^^^ rotr x 18 ^^^ (x >>> 3)
    let s1 := rotr y 17 ^^^ rotr y 19 ^^^ (y >>> 10)
    w := w.set! t (w[t - 16]! + s0 + w[t - 7]! + s1)
  let mut a := h[0]!; let mut b := h[1]!; let mut c := h[2]!; let mut d := h[3]!
  let mut e := h[4]!; let mut f := h[5]!; let mut g := h[6]!; let mut hh := h[7]!
  for t in [0:64] do
    let s1 := rotr e 6 ^^^ rotr e 11 ^^^ rotr e 25
    let ch := (e &&& f) ^^^ ((~~~ e) &&& g)
    let t1 := hh + s1 + ch + kTab[t]! + w[t]!
    let s0 := rotr a 2 ^^^ rotr a 13 ^^^ rotr a 22
    let maj := (a &&& b) ^^^ (a &&& c) ^^^ (b &&& c)
    let t2 := s0 + maj
    hh := g; g := f; f := e; e := d + t1; d := c; c := b; b := a; a := t1 + t2
  return #[h[0]! + a, h[1]! + b, h[2]! + c, h[3]! + d, h[4]! + e, h[5]! + f, h[6]! + g, h[7]! + hh]

/-- SHA-256 digest (32 bytes). -/
def sum256 (msg : ByteArray) : ByteArray := Id.run do
  let m := pad msg
  let mut h := h0
  for blk in [0:m.size / 64] do
    h := compress h m (64 * blk)
  let mut out := ByteArray.emptyWithCapacity 32
  for i in [0:8] do
    let x := h[i]!
    out := out.push (x >>> 24).toUInt8
    out := out.push (x >>> 16).toUInt8
    out := out.push (x >>> 8).toUInt8
    out := out.push x.toUInt8
  return out

end Mpc.Sha256

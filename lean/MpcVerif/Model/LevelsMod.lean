/-
C10: the boundary of the level quantifier.

`Circuit.AssignLevels` (circuit/circuit.go) counts the AND depth of every wire
in a fixed-width unsigned integer (`type Level uint32`, scratch slice
`levels []Level`, `level++`): Go arithmetic wraps silently.  `Model/Levels.lean`
counts in `Nat`.  This file holds what is needed to state where the two meet:

* `assignLevelsModGo k` / `Circuit.assignLevelsMod k`: the same loop with the
  wire-level counter held in `k` bits (`level++` is `(level + 1) % 2^k`);
* `topoGo` / `topoCheck`: the linear-time predicate "the levels are a
  topological schedule of `gmw.Network.run`" that the harness evaluates on
  the REAL gate levels after `AssignLevels(TargetGMW)` and the driver on the
  model's levels: walking the gates in circuit order, every input wire of a
  gate carries a requirement `level of its producer (+1 when the producer is
  an AND)` that the gate's level must reach.  (`Network.run` evaluates, per
  level, the non-AND gates in circuit order and then the AND batch: a gate is
  evaluated after the producer of an input iff its level reaches that
  requirement.)
* `scheduleWith`: the evaluation order of `Network.run` for ANY level table
  (`Gmw.schedule` is the instance at `assignLevels true`);
* `chain d`: the family of extreme circuits, a dependent chain of `d` AND
  gates (AND depth `d`).
Core Lean only.
-/
import MpcVerif.Model.Levels
import MpcVerif.Model.Gmw

namespace Mpc

/-- GMW target: the output wire of an AND gate is one level deeper. -/
def andBump (g : Gate) : Nat := if g.op == .and then 1 else 0

/-- `AssignLevels(TargetGMW)` with the wire levels held in a `k`-bit unsigned
counter: `level++` wraps at `2^k` (Go unsigned arithmetic). -/
def assignLevelsModGo (k : Nat) : List Gate → Array Nat → Nat → List Nat × Nat
  | [], _, mx => ([], mx)
  | g :: gs, lv, mx =>
    let l0 := lv.getD g.in0 0
    let level := if g.op.binary then max l0 (lv.getD g.in1 0) else l0
    let out := (level + andBump g) % 2 ^ k
    let r := assignLevelsModGo k gs (lv.setIfInBounds g.out out) (max mx out)
    (level :: r.1, r.2)

def Circuit.assignLevelsMod (c : Circuit) (k : Nat) : List Nat × Nat :=
  assignLevelsModGo k c.gates (Array.replicate c.numWires 0) 0

/-- The level oracle.  `nd w` = the smallest level at which a consumer of wire
`w` may be evaluated (0 for wires no gate has produced yet). -/
def topoGo : List (Gate × Nat) → Array Nat → Bool
  | [], _ => true
  | a :: rest, nd =>
    a.1.ins.all (fun w => decide (nd.getD w 0 ≤ a.2)) &&
      topoGo rest (nd.setIfInBounds a.1.out (a.2 + andBump a.1))

def topoCheck (numWires : Nat) (gl : List (Gate × Nat)) : Bool :=
  topoGo gl (Array.replicate numWires 0)

namespace Gmw

/-- `Network.run` for a given level table `lv = (gate levels, Stats[NumLevels])`:
`rest[i]` then `ands[i]` for `i = 0 .. Stats[NumLevels]`. -/
def scheduleWith (c : Circuit) (lv : List Nat × Nat) : List Gate :=
  (List.range (lv.2 + 1)).flatMap fun i =>
    gatesAt (c.gates.zip lv.1) i false ++ gatesAt (c.gates.zip lv.1) i true

end Gmw

/-- `initStore` without the per-wire list walk (`List.getD` is linear): the
driver evaluates circuits with 2^16 and more input bits.  Equal to `initStore`
(`initStoreFast_eq`). -/
def initStoreFast {α : Type} (n : Nat) (d : α) (inputs : List α) : Store α :=
  let a := (inputs.take n).toArray
  a ++ Array.replicate (n - a.size) d

/-- `Circuit.compute` on the fast initial store (`computeFast_eq`). -/
def Circuit.computeFast (c : Circuit) (x : List Bool) : List Bool :=
  c.outputs (evalPlainGates c.gates (initStoreFast c.numWires false (x.take c.nIn)))

/-- Gate `j` of the AND chain: `w2 = w0 & w1`, `w(j+2) = w(j+1) & w1`. -/
def chainGate (j : Nat) : Gate := ⟨.and, if j = 0 then 0 else j + 1, 1, j + 2⟩

def chainGates (d : Nat) : List Gate := (List.range d).map chainGate

/-- A two-input circuit of AND depth `d`: `out = x & y & y & … & y`. -/
def chain (d : Nat) : Circuit := { numWires := d + 2, nIn := 2, nOut := 1, gates := chainGates d }

end Mpc

/-
C17, results of `Circuit.Compute` as values the caller owns (circuit/computer.go).

`Compute` allocates its wire buffer and every returned `*big.Int` itself
(`make([]byte, c.NumWires)`, `new(big.Int)` + `SetBit`): a call writes nothing
it does not own and what it returns is reachable from nowhere else.  The model
makes the memory explicit so that this can be STATED: a heap of result objects
(address = index), the objects lying in a scratch pool, and for every call of
the history the address its returned result points to.  `Impl.fresh` is the
code that exists; `Impl.pooled` is the variant whose result aliases scratch that
goes back to a pool when the call returns (the witness of Props/C17.lean).

Calls are atomic here: `Compute` writes no shared state (effect set `[]`, tied by
checks/C17.py), so every interleaving of the internal steps of concurrent calls
is a serial order of whole calls (the `compute` step of Model/Pool.lean).
Core Lean only.
-/
import MpcVerif.Model.Circuit

namespace Mpc.Pool.Res

/-- Little-endian bits to the number a `*big.Int` built with `SetBit` holds. -/
def bitsToNat : List Bool → Nat
  | [] => 0
  | b :: bs => (if b then 1 else 0) + 2 * bitsToNat bs

/-- Cut the output wires into the declared outputs (`for _, io := range c.Outputs`). -/
def splitBits : List Nat → List Bool → List (List Bool)
  | [], _ => []
  | w :: ws, bs => bs.take w :: splitBits ws (bs.drop w)

/-- The value `Compute` returns when run alone: one number per declared output. -/
def computeVal (c : Circuit) (widths : List Nat) (x : List Bool) : List Nat :=
  (splitBits widths (c.compute x)).map bitsToNat

inductive Impl | fresh | pooled
  deriving DecidableEq, Repr

structure St where
  /-- result objects; address = index -/
  heap : List (List Nat) := []
  /-- addresses of the scratch objects lying in the pool -/
  pool : List Nat := []
  /-- `rets[k]`: the address the result returned by call `k` points to -/
  rets : List Nat := []
  deriving Repr

/-- One `Compute` call on input `x`. -/
def call (impl : Impl) (c : Circuit) (widths : List Nat) (st : St) (x : List Bool) : St :=
  let v := computeVal c widths x
  match impl with
  | .fresh => { st with heap := st.heap ++ [v], rets := st.rets ++ [st.heap.length] }
  | .pooled =>
    match st.pool with
    | a :: rest =>   -- Get returns scratch `a`; the result is built in it; the deferred Put hands it back
      { heap := st.heap.set a v, pool := a :: rest, rets := st.rets ++ [a] }
    | [] =>          -- empty pool: new scratch, the result aliases it, Put
      { heap := st.heap ++ [v], pool := [st.heap.length], rets := st.rets ++ [st.heap.length] }

/-- A history of calls (the fold the property quantifies over). -/
def run (impl : Impl) (c : Circuit) (widths : List Nat) (st : St) (hist : List (List Bool)) : St :=
  hist.foldl (call impl c widths) st

/-- What the caller that kept the result of call `k` reads now. -/
def readRes (st : St) (k : Nat) : Option (List Nat) :=
  match st.rets[k]? with
  | some a => st.heap[a]?
  | none => none

/-! ### Trace replay (driver op `rhist`) -/

inductive Ev
  | call (id : Nat) (x : List Bool)
  | read (id : Nat)

structure Replay where
  st : St := {}
  ids : List (Nat × Nat) := []      -- harness call id ↦ index of the call in the history
  out : List (String × Nat × Option (List Nat)) := []

def Replay.step (c : Circuit) (widths : List Nat) (r : Replay) : Ev → Replay
  | .call id x =>
    let k := r.st.rets.length
    let st := call .fresh c widths r.st x
    { st := st, ids := (id, k) :: r.ids, out := ("C", id, readRes st k) :: r.out }
  | .read id =>
    match r.ids.lookup id with
    | some k => { r with out := ("V", id, readRes r.st k) :: r.out }
    | none => { r with out := ("V", id, none) :: r.out }

def replay (c : Circuit) (widths : List Nat) (evs : List Ev) : List (String × Nat × Option (List Nat)) :=
  (evs.foldl (Replay.step c widths) {}).out.reverse

end Mpc.Pool.Res

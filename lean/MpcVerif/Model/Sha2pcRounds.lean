/-
The four round functions of /repo/sha2pc (garbler.go, evaluator.go) as pure
functions over the payload structures of Model/Sha2pc.lean, on top of the
Chou-Orlandi model (Model/Co.lean: ot/co_helpers.go) and the garbling model
(Model/Garble.lean: circuit/garble.go, circuit/eval.go).  Core Lean only.

Randomness is an explicit argument (the values the Go code draws from its
`io.Reader`): the sender scalar and the session id in round 1, the 256
receiver scalars in round 2, the AES key, the offset R and the input labels in
round 3.  The elliptic curve is an abstract commutative group `G` with affine
coordinates; a coordinate pair that is not a curve point (`IsOnCurve` false)
is `ofPt = none`.  `crypto/elliptic` panics when such a pair reaches
`ScalarMult`/`Add`; every call site is preceded by `ensureOnCurve` (an error),
so no round returns `Res.panic` (`C18_rounds_no_crash`).
-/
import MpcVerif.Model.Sha2pc

namespace Mpc.Sha2pc
open Mpc.Co (Group)

/-- The curve as the round functions use it. -/
structure Crypto (G : Type) where
  Γ : Group G
  /-- base point -/
  g : G
  /-- `deriveMask` (SHA-256 of the coordinates and the index, first 16 bytes) -/
  kdf : G → Nat → Label
  /-- affine coordinates (`curve.ScalarBaseMult` etc. return them) -/
  toPt : G → Point
  /-- `IsOnCurve`: the group element with these coordinates, if any (the point
  at infinity has none) -/
  ofPt : Point → Option G
  ofPt_some : ∀ q p, ofPt q = some p → toPt p = q

/-- Everything fixed in one deployment: curve name/width, the group, the
embedded circuit and the key-to-hash map (AES-256 in the MMO construction of
circuit/garble.go). -/
structure Params (G : Type) where
  curve : Curve
  crypto : Crypto G
  circ : Circuit
  hashOf : Bytes → Hash Label

variable {G : Type}

def ptOf (K : Crypto G) (p : G) : Point := K.toPt p

/-- `GarblerRound1` for the sampled scalar `a` and session id `sid`. -/
def round1 (P : Params G) (a sid : Nat) : Round1 × GarblerSession :=
  let K := P.crypto
  let s := Co.senderSetup K.Γ K.g a
  let A := K.toPt s.A
  let I := K.toPt s.AaInv
  ({ sid := sid, curveName := P.curve.name, ax := A.x, ay := A.y },
   { sid := sid, curveName := P.curve.name, scalar := a, ax := A.x, ay := A.y, ainvx := I.x, ainvy := I.y })

/-- `EvaluatorRound2` (with `ot.BuildCOChoices`) for the evaluator's 32 input
bytes `b` and the sampled scalars. -/
def round2 (P : Params G) (msg : Round1) (b : Bytes) (scalars : List Nat) : Res (Round2 × EvaluatorSession) :=
  let K := P.crypto
  if msg.curveName ≠ P.curve.name then .error
  else
    let bits := bytesToBits b
    if bits.length ≠ nBits then .error
    else
      match K.ofPt ⟨msg.ax, msg.ay⟩ with
      | none => .error            -- ensureOnCurve(Ax, Ay)
      | some A =>
        let pts := (List.range nBits).map fun i =>
          K.toPt (Co.choicePoint K.Γ K.g A (scalars.getD i 0) (bits.getD i false))
        .ok ({ sid := msg.sid, curveName := P.curve.name, choices := pts },
             { sid := msg.sid, curveName := P.curve.name, ax := msg.ax, ay := msg.ay,
               scalars := (List.range nBits).map (fun i => scalars.getD i 0), bits := bits })

/-- `ot.EncryptCOCiphertexts`: `ensureOnCurve` for `A`, for `AaInv` and for
every choice point, equal counts; every failure is an error. -/
def encryptCO (K : Crypto G) (st : GarblerSession) (choices : List Point) (wires : Nat → Label × Label) (n : Nat) :
    Res (List (Label × Label)) :=
  match K.ofPt ⟨st.ax, st.ay⟩ with
  | none => .error
  | some A =>
    match K.ofPt ⟨st.ainvx, st.ainvy⟩ with
    | none => .error
    | some AaInv =>
      if choices.length ≠ n then .error
      else
        match choices.mapM K.ofPt with
        | none => .error
        | some pts =>
          match Co.encrypt K.Γ (fun _ => true) K.kdf { a := st.scalar, A := A, AaInv := AaInv } n
              (fun i => pts.getD i A) wires with
          | some cts => .ok cts
          | none => .error

/-- `GarblerRound3` for the garbler's input bytes `a`, the sampled AES key,
offset `r0` (before `SetS(true)`) and input zero-labels `inl`. -/
def round3 (P : Params G) (st : GarblerSession) (a : Bytes) (req : Round2) (key : Bytes) (r0 : Label)
    (inl : Nat → Label) : Res Round3 :=
  if req.sid ≠ st.sid then .error
  else
    let c := P.circ
    let Gd := c.garble (P.hashOf key) (setS r0) inl
    let bits := bytesToBits a
    if bits.length ≠ nBits then .error
    else
      let inputs := (List.range nBits).map fun i => (Gd.wires.get i).labelFor (bits.getD i false)
      let evalWires : Nat → Label × Label := fun i => ((Gd.wires.get (nBits + i)).l0, (Gd.wires.get (nBits + i)).l1)
      match encryptCO P.crypto st req.choices evalWires nBits with
      | .ok cts =>
        let hints := (List.range c.nOut).map fun i =>
          ((Gd.wires.get (c.numWires - c.nOut + i)).l0, (Gd.wires.get (c.numWires - c.nOut + i)).l1)
        .ok { sid := st.sid, key := key, tables := Gd.rows, inputs := inputs, hints := hints, cts := cts }
      | .error => .error
      | .panic => .panic

/-- `ot.DecryptCOCiphertexts`: `ensureOnCurve` for the stored `A` first. -/
def decryptCO (K : Crypto G) (st : EvaluatorSession) (cts : List (Label × Label)) : Res (List Label) :=
  match K.ofPt ⟨st.ax, st.ay⟩ with
  | none => .error
  | some A =>
    let count := st.bits.length
    if st.scalars.length ≠ count ∨ cts.length ≠ count then .error
    else .ok (Co.decrypt K.Γ K.kdf A count (fun i => st.scalars.getD i 0) (fun i => st.bits.getD i false) cts)

/-- The evaluator's wire array: `copy(wires[:256], GarblerInputs)`,
`copy(wires[256:], labels)`, the rest zero. -/
def evalStore (numWires : Nat) (inputs labels : List Label) : Store Label :=
  (Array.range numWires).map fun i =>
    if i < nBits then inputs.getD i 0#128 else labels.getD (i - nBits) 0#128

/-- `BitFromLabel` over all output wires. -/
def decodeOutputs (hints : List (Label × Label)) (ws : Store Label) (start : Nat) : Option (List Bool) :=
  (List.range hints.length).mapM fun i =>
    let h := hints.getD i (0#128, 0#128)
    (⟨h.1, h.2⟩ : WireL Label).bitFrom (ws.get (start + i))

/-- `EvaluatorRound4`.  (`Circuit.Eval` indexes `garbled[i]`; a table list
shorter than the gate list makes Go panic there, the model's `evalGarbled`
reports an error: decoded payloads always carry one row per gate.) -/
def round4 (P : Params G) (st : EvaluatorSession) (msg : Round3) : Res Bytes :=
  if st.scalars.length = 0 then .error
  else if msg.sid ≠ st.sid then .error
  else
    match decryptCO P.crypto st msg.cts with
    | .ok labels =>
      let c := P.circ
      let ws := evalStore c.numWires msg.inputs labels
      match c.evalGarbled (P.hashOf msg.key) msg.tables ws with
      | .error _ => .error
      | .ok out =>
        if msg.hints.length ≠ c.nOut then .error
        else
          match decodeOutputs msg.hints out (c.numWires - msg.hints.length) with
          | none => .error
          | some bits =>
            let bytes := bitsToBytes bits
            if bytes.length ≠ 32 then .error else .ok bytes
    | .error => .error
    | .panic => .panic

/-! ### the same rounds across a process restart: all state and messages as bytes -/

def countsOf (c : Circuit) : List Nat := c.gates.map fun g => g.op.rows

/-- Round 2 from the received bytes; returns the encoded message and the
encoded evaluator session. -/
def round2B (P : Params G) (r1b : Bytes) (b : Bytes) (scalars : List Nat) : Res (Bytes × Bytes) := do
  let msg ← decodeRound1 P.curve r1b
  let (m2, es) ← round2 P msg b scalars
  let r2b ← encodeRound2 P.curve m2
  let esb ← encodeEvaluatorSession P.curve es
  pure (r2b, esb)

/-- Round 3 from the stored session bytes and the received bytes. -/
def round3B (P : Params G) (gsb : Bytes) (a : Bytes) (r2b : Bytes) (key : Bytes) (r0 : Label) (inl : Nat → Label) :
    Res Bytes := do
  let st ← decodeGarblerSession P.curve gsb
  let req ← decodeRound2 P.curve r2b
  let m3 ← round3 P st a req key r0 inl
  encodeRound3 (countsOf P.circ) m3

/-- Round 4 from the stored session bytes and the received bytes. -/
def round4B (P : Params G) (esb : Bytes) (r3b : Bytes) : Res Bytes := do
  let st ← decodeEvaluatorSession P.curve esb
  let msg ← decodeRound3 (countsOf P.circ) r3b
  round4 P st msg

end Mpc.Sha2pc

/-
Width-indexed tables of the circuit builders (C08, width sweep).

A builder of compiler/circuits may pick its construction from a package-level
table keyed by the operand width.  The only such table of the code as it is:

  compiler/circuits/circ_multiplier_params.go   var multiplierArrayTresholds = map[int]int{16: 9, 17: 10, ...}
  compiler/circuits/circ_multiplier.go          NewMultiplier:
        if c.Params.Target == utils.TargetGMW { return NewWallaceMultiplier(c, x, y, z) }
        if arrayTreshold < 8 {
            arrayTreshold, ok = multiplierArrayTresholds[len(x)]
            if !ok { arrayTreshold = 21 }
        }
        return NewKaratsubaMultiplier(c, arrayTreshold, x, y, z)

A Go map is modelled as the list of its entries in the order the runtime hands
them over (`List (Nat × Nat)`, keys pairwise distinct).  What is logic is
whether a lookup depends on that order:

  * `lookup?` / `lookupD`     `v, ok := m[k]` — the lookup of the code as it is;
  * `nearest`                  a lookup by the CLOSEST key written as a best-so-far
                               loop over `range m` that replaces on a strictly smaller
                               distance (a design, not the code as it is): the first
                               entry of minimal distance in hand-over order wins;
  * `nearestTB`                the same with ties broken by the smaller key.

`kshape` is the recursion of NewKaratsubaMultiplier (which sub-multiplications
go to the array multiplier, with which operand / result lengths); the limit is
used by the code in the comparison `len(a) <= limit` only, so two limits with
equal `kshape` give the same gates.  `multClass` is what the harness observes
of the table through the public compile path: the limits `L` for which a
compilation with `Params.CircMultArrayTreshold = L` gives the byte-identical
circuit as the default parameters (op `mthr`).
-/

namespace Mpc.WT

/-- `v, ok := m[k]` on the entries in hand-over order: the first entry with key `k`. -/
def lookup? : List (Nat × Nat) → Nat → Option Nat
  | [], _ => none
  | (k', v) :: rest, k => if k' = k then some v else lookup? rest k

/-- `v, ok := m[k]; if !ok { v = d }` -/
def lookupD (tbl : List (Nat × Nat)) (k d : Nat) : Nat := (lookup? tbl k).getD d

/-- `distance := width - bits; if distance < 0 { distance = -distance }` -/
def dist (a b : Nat) : Nat := (a - b) + (b - a)

/-- lexicographic `<` on (distance, key) -/
def lexLt (a b : Nat × Nat) : Bool := a.1 < b.1 || (a.1 == b.1 && a.2 < b.2)

/-- One iteration of a best-so-far loop: the entry replaces the best one only when its rank is strictly smaller.
(Go: `if closest < 0 || distance < closest { closest = distance; treshold = tuned }` — the state is the best
entry itself: `closest` is its distance, `treshold` its value.) -/
def argminStep {α : Type} (rank : α → Nat × Nat) (st : Option α) (e : α) : Option α :=
  match st with
  | none => some e
  | some b => if lexLt (rank e) (rank b) then some e else some b

def argmin {α : Type} (rank : α → Nat × Nat) (l : List α) : Option α := l.foldl (argminStep rank) none

/-- rank of a table entry for the nearest-key loop: the distance only (ties: the entry handed over first stays) -/
def rankNear (bits : Nat) (e : Nat × Nat) : Nat × Nat := (dist e.1 bits, 0)

/-- rank with ties broken by the smaller key -/
def rankNearTB (bits : Nat) (e : Nat × Nat) : Nat × Nat := (dist e.1 bits, e.1)

/-- value of the closest key, best-so-far over the hand-over order, default `d` for the empty table -/
def nearest (tbl : List (Nat × Nat)) (bits d : Nat) : Nat := ((argmin (rankNear bits) tbl).map (·.2)).getD d

/-- value of the closest key, ties broken by the smaller key -/
def nearestTB (tbl : List (Nat × Nat)) (bits d : Nat) : Nat := ((argmin (rankNearTB bits) tbl).map (·.2)).getD d

/-- exact hit, otherwise the closest key -/
def lookupNearest (tbl : List (Nat × Nat)) (bits d : Nat) : Nat :=
  match lookup? tbl bits with
  | some v => v
  | none => nearest tbl bits d

/-- `arrayTreshold = 21` of NewMultiplier when the width is not in the table -/
def defaultTreshold : Nat := 21

/-- NewMultiplier with `arrayTreshold < 8` (the default parameters): the limit handed to NewKaratsubaMultiplier -/
def multLimit (tbl : List (Nat × Nat)) (w : Nat) : Nat := lookupD tbl w defaultTreshold

/-- NewKaratsubaMultiplier(limit, a, b, r) with `len(a) = len(b) = n` after ZeroPad and `len(r) = lr`: the operand /
result lengths of the array multipliers at the leaves of the recursion, in the order they are built (z0, z1, z2).
`fuel` bounds the recursion (the operand length decreases as long as it is above `limit >= 3`). -/
def kshape (limit : Nat) : Nat → Nat → Nat → List (Nat × Nat)
  | 0, n, lr => [(min n lr, lr)]
  | fuel + 1, n, lr =>
    let n := min n lr
    if n ≤ limit then [(n, lr)] else
    let mid := n / 2
    let hi := n - mid
    kshape limit fuel mid (min (2 * mid) lr) ++ kshape limit fuel (hi + 1) (min (2 * (hi + 1)) lr) ++
      kshape limit fuel hi (min (2 * hi) lr)

/-- the multiplier of `a * b` for `w`-bit operands and result under the default parameters -/
def multShape (tbl : List (Nat × Nat)) (w : Nat) : List (Nat × Nat) := kshape (multLimit tbl w) w w w

/-- the limits `lo ≤ L < lo + cnt` that give the multiplier of the default parameters.  `gmw`: NewMultiplier
returns the Wallace multiplier before it looks at the limit - every limit gives the same circuit. -/
def multClass (gmw : Bool) (tbl : List (Nat × Nat)) (w lo cnt : Nat) : List Nat :=
  ((List.range cnt).map (· + lo)).filter fun L => gmw || kshape L w w w == multShape tbl w

end Mpc.WT

/-
Model of `types.Info.InstantiateWithSizes` with struct members (property C13):

  types/types.go          Info (fields Type, IsConcrete, Bits, ArraySize, Offset,
                          ElementType, Struct), Info.Concrete,
                          Info.InstantiateWithSizes (all cases)
  compiler/ast/package.go the argument loop of Package.Compile (an argument
                          whose type is not Concrete() is instantiated from
                          MainInputSizes[idx]) and flattenStruct
  apps/garbled/main.go    sizes come from circuit.InputSizes(inputFlag)

Core Lean only.  `Model/IoArg.lean` keeps the leaf model (`Info`,
`instantiate`, `Arg.parse`, `inputSizes`); this file adds the type tree with
struct members and the path  text → InputSizes → InstantiateWithSizes →
flattenStruct → IOArg.Parse  of a `main` argument.
-/
import MpcVerif.Model.IoArg

namespace Mpc.IoArg

/-- `types.Info` with every field `InstantiateWithSizes` reads or writes.
`base`: `ElementType == nil` and `Type != TStruct`; `elem`: `ElementType != nil`
and `Type != TStruct`; `struct`: `Type == TStruct` with its `Struct` fields
(field names omitted).  `conc` is the field `IsConcrete`, `off` is `Offset`. -/
inductive Ty where
  | base (tag : Tag) (conc : Bool) (bits n off : Nat)
  | elem (tag : Tag) (conc : Bool) (bits n off : Nat) (el : Ty)
  | struct (conc : Bool) (bits n off : Nat) (fields : List Ty)
  deriving Repr, Inhabited

def Ty.bits : Ty → Nat
  | .base _ _ b _ _ => b
  | .elem _ _ b _ _ _ => b
  | .struct _ b _ _ _ => b

def Ty.off : Ty → Nat
  | .base _ _ _ _ o => o
  | .elem _ _ _ _ o _ => o
  | .struct _ _ _ o _ => o

/-- `i.Struct[idx].Type.Offset = structBits` -/
def Ty.setOff : Ty → Nat → Ty
  | .base t c b n _, o => .base t c b n o
  | .elem t c b n _ el, o => .elem t c b n o el
  | .struct c b n _ fs, o => .struct c b n o fs

mutual
/-- `Info.Concrete()`: `IsConcrete` unless the type is a struct; a struct is
concrete when every field is. -/
def Ty.concrete : Ty → Bool
  | .base _ c _ _ _ => c
  | .elem _ c _ _ _ _ => c
  | .struct _ _ _ _ fs => concreteAll fs
def concreteAll : List Ty → Bool
  | [] => true
  | f :: fs => f.concrete && concreteAll fs
end

mutual
/-- `Info.numSizes()` (commit 4a72a07): the number of input sizes the type
consumes in `InstantiateWithSizes`: a struct the sizes of its fields, every
other type one. -/
def Ty.numSizes : Ty → Nat
  | .base _ _ _ _ _ => 1
  | .elem _ _ _ _ _ _ => 1
  | .struct _ _ _ _ fs => numSizesAll fs
def numSizesAll : List Ty → Nat
  | [] => 0
  | f :: fs => f.numSizes + numSizesAll fs
end

mutual
/-- `Info.InstantiateWithSizes(sizes)`.  Errors: `.count` is "not enought
sizes for type", `.unsupported` every other returned error ("array element
type unspecified", "can't specify"), `.panic` a Go run-time panic (nil
`ElementType`, division by zero). -/
def Ty.inst : Ty → List Nat → Except Err Ty
  | .base tag c bits n off, sizes =>
    match sizes with
    | [] => .error .count
    | s :: _ =>
      match tag with
      | .bool => .ok (.base tag true bits n off)
      | .int | .uint | .float => .ok (.base tag true (if c then bits else s) n off)
      | .array | .slice => .error .panic            -- i.ElementType.Concrete() on nil
      | _ => .error .unsupported
  | .elem tag c bits n off el, sizes =>
    match sizes with
    | [] => .error .count
    | s :: _ =>
      match tag with
      | .bool => .ok (.elem tag true bits n off el)
      | .int | .uint | .float => .ok (.elem tag true (if c then bits else s) n off el)
      | .array =>
        if !el.concrete then .error .unsupported
        else if c then .ok (.elem tag true bits n off el)
        else if el.bits = 0 then .error .panic      -- Size(sizes[0]) / i.ElementType.Bits
        else .ok (.elem tag true (ceilDiv s el.bits * el.bits) (ceilDiv s el.bits) off el)
      | .slice =>
        if !el.concrete then .error .unsupported
        else if el.bits = 0 then .error .panic
        else .ok (.elem tag true (ceilDiv s el.bits * el.bits) (ceilDiv s el.bits) off el)
      | _ => .error .unsupported
  | .struct _ _ n off fs, sizes =>
    match sizes with
    | [] => .error .count
    | _ :: _ =>
      match instFields fs sizes 0 with
      | .error e => .error e
      | .ok (fs', total) => .ok (.struct true total n off fs')
/-- the `for idx := range i.Struct` loop (since commit 4a72a07): `sizes` is
`sizes[consumed:]`, the sizes that follow the ones consumed by the members
before this one; `acc` is `structBits`.  Before the commit member `idx`
received `sizes[idx:]`, see `instFieldsOld`. -/
def instFields : List Ty → List Nat → Nat → Except Err (List Ty × Nat)
  | [], _, acc => .ok ([], acc)
  | f :: fs, sizes, acc =>
    match sizes with
    | [] => .error .count                           -- consumed >= len(sizes)
    | _ :: _ =>
      match f.inst sizes with
      | .error e => .error e
      | .ok f' =>
        match instFields fs (sizes.drop f'.numSizes) (acc + f'.bits) with
        | .error e => .error e
        | .ok (fs', total) => .ok (f'.setOff acc :: fs', total)
end

/-! ### The struct loop BEFORE commit 4a72a07 (only for the negation witness
`C13_old_instantiate_nested_sizes_witness`): member `idx` received `sizes[idx:]`
also when an earlier member is a struct that had read several entries. -/

mutual
def Ty.instOld : Ty → List Nat → Except Err Ty
  | .struct _ _ n off fs, sizes =>
    match sizes with
    | [] => .error .count
    | _ :: _ =>
      match instFieldsOld fs sizes 0 with
      | .error e => .error e
      | .ok (fs', total) => .ok (.struct true total n off fs')
  | .base tag c bits n off, sizes => (Ty.base tag c bits n off).inst sizes
  | .elem tag c bits n off el, sizes => (Ty.elem tag c bits n off el).inst sizes
def instFieldsOld : List Ty → List Nat → Nat → Except Err (List Ty × Nat)
  | [], _, acc => .ok ([], acc)
  | f :: fs, sizes, acc =>
    match sizes with
    | [] => .error .count                           -- idx >= len(sizes)
    | _ :: rest =>
      match f.instOld sizes with
      | .error e => .error e
      | .ok f' =>
        match instFieldsOld fs rest (acc + f'.bits) with
        | .error e => .error e
        | .ok (fs', total) => .ok (f'.setOff acc :: fs', total)
end

/-! ## The argument loop of `Package.Compile` and `flattenStruct` -/

/-- `types.Info` as `IOArg.Parse` reads it (`Model/IoArg.lean`): a struct
element type is opaque (only its `Bits` are read). -/
def Ty.toInfo : Ty → Info
  | .base t _ b n _ => .base t b n
  | .elem t _ b n _ el => .elem t b n el.toInfo
  | .struct _ b n _ _ => .base .struct b n

mutual
/-- `flattenStruct`: the non-struct members in declaration order, nested
structs flattened. -/
def Ty.leaves : Ty → List Ty
  | .base t c b n o => [.base t c b n o]
  | .elem t c b n o el => [.elem t c b n o el]
  | .struct _ _ _ _ fs => leavesAll fs
def leavesAll : List Ty → List Ty
  | [] => []
  | f :: fs => f.leaves ++ leavesAll fs
end

/-- the `circuit.IOArg` of a `main` argument: `Type` and, for a struct, the
flattened `Compound`. -/
def Ty.toArg : Ty → Arg
  | .struct c b n o fs => .mk (Ty.struct c b n o fs).toInfo ((leavesAll fs).map fun l => .mk l.toInfo [])
  | t => .mk t.toInfo []

/-- argument loop of `Package.Compile`: a type that is not `Concrete()` is
instantiated from the sizes of this party's inputs. -/
def Ty.mainArgType (t : Ty) (sizes : List Nat) : Except Err Ty :=
  if t.concrete then .ok t else t.inst sizes

/-- the stage of the `main`-argument path that failed -/
inductive MainStage where
  | sizes | inst | parse
  deriving DecidableEq, Repr, Inhabited

/-- `circuit.InputSizes(inputs)` → compile → `circ.Inputs[0].Parse(inputs)`:
the instantiated argument and the value on its wires. -/
def mainArg (t : Ty) (ins : List StrFacts) : Except (MainStage × Err) (Arg × Int) :=
  match inputSizes ins with
  | .error e => .error (.sizes, e)
  | .ok sizes =>
    match t.mainArgType sizes with
    | .error e => .error (.inst, e)
    | .ok t' =>
      match t'.toArg.parse ins with
      | .error e => .error (.parse, e)
      | .ok z => .ok (t'.toArg, z)

end Mpc.IoArg

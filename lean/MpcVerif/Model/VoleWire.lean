/-
The writing half of `p2p.Conn` as `vole.Sender.Mul` / `vole.Receiver.Mul` use
it (`p2p/protocol.go`: `SendUint32`, `SendData`, `Flush`), with the size of
the write buffer a PARAMETER `cap` (`writeBufSize`, 64 KiB in the code).

`Mul` hands its packed vector (`32·m` bytes) to `SendData` and then calls
`Flush`.  `SendData` writes the 4-byte length and copies the payload into the
write buffer as much as fits at a time, flushing a full buffer to the writer
goroutine; the blocks the peer's `conn.Write` sees therefore depend on `cap`
and on what was pending before.  The byte STREAM does not: it is the pending
bytes, the length prefix, the payload — for every `cap`, every pending prefix,
every payload length (one block, exactly one block, many blocks).  This is
what makes the vector length of the property independent of the transport
buffers; `Props/C20.lean` states it for every call of every history.

Core Lean only.
-/
import MpcVerif.Model.Vole

namespace Mpc.Vole

/-- `SendUint32(val)`: `byte(uint32(val)>>24), …, byte(uint32(val))`. -/
def be32 (n : Nat) : List UInt8 :=
  [UInt8.ofNat (n / 2 ^ 24 % 256), UInt8.ofNat (n / 2 ^ 16 % 256), UInt8.ofNat (n / 2 ^ 8 % 256),
   UInt8.ofNat (n % 256)]

/-- The writing half of a connection: the blocks handed to the writer so far
(each one `conn.Write` call, oldest first) and `WriteBuf[:WritePos]`. -/
structure WConn where
  written : List (List UInt8)
  pending : List UInt8
  deriving Repr, DecidableEq

/-- Everything written or about to be written, in order: what the peer reads. -/
def WConn.stream (c : WConn) : List UInt8 := c.written.flatten ++ c.pending

/-- `Flush`: `if c.WritePos > 0 { toWriter <- WriteBuf[0:WritePos]; WritePos = 0 }`. -/
def WConn.flush (c : WConn) : WConn :=
  if c.pending.isEmpty then c else ⟨c.written ++ [c.pending], []⟩

/-- `SendUint32`: `if WritePos+4 > len(WriteBuf) { Flush() }`, then four bytes. -/
def WConn.sendUint32 (cap : Nat) (c : WConn) (n : Nat) : WConn :=
  let c := if c.pending.length + 4 > cap then c.flush else c
  ⟨c.written, c.pending ++ be32 n⟩

/-- The loop of `SendData`:
`for len(val) > 0 { if WritePos >= len(WriteBuf) { Flush() }; n := copy(WriteBuf[WritePos:], val); WritePos += n; val = val[n:] }`.
`fuel` bounds the iterations (every iteration copies at least one byte when
`cap ≥ 1`, so `val.length` is enough). -/
def sendLoop (cap : Nat) : Nat → WConn → List UInt8 → WConn
  | 0, c, _ => c
  | fuel + 1, c, val =>
    if val.isEmpty then c else
    let c := if c.pending.length ≥ cap then c.flush else c
    let n := cap - c.pending.length
    sendLoop cap fuel ⟨c.written, c.pending ++ val.take n⟩ (val.drop n)

/-- `SendData(val)`. -/
def WConn.sendData (cap : Nat) (c : WConn) (val : List UInt8) : WConn :=
  sendLoop cap val.length (c.sendUint32 cap val.length) val

/-- `SendData(msg); Flush()` — what both `Mul`s do with their packed vector. -/
def WConn.sendMsg (cap : Nat) (c : WConn) (msg : List UInt8) : WConn :=
  (c.sendData cap msg).flush

/-- The blocks written for one message on an idle connection. -/
def wireBlocks (cap : Nat) (msg : List UInt8) : List (List UInt8) :=
  ((⟨[], []⟩ : WConn).sendMsg cap msg).written

/-- The bytes on the wire for one message, computed THROUGH the block-wise
writer with buffer size `cap`. -/
def frame (cap : Nat) (msg : List UInt8) : List UInt8 := (wireBlocks cap msg).flatten

/-- The bytes one `Mul` call of vector length `m` puts on the wire for its
packed vector: nothing for the empty vector (`if m == 0 { return }`),
otherwise the framed message. -/
def wireOf (cap m : Nat) (msg : List UInt8) : List UInt8 :=
  if m = 0 then [] else frame cap msg

/-- Buffer invariant: no block and no pending data exceeds the buffer. -/
def WConn.WF (cap : Nat) (c : WConn) : Prop :=
  (∀ b ∈ c.written, b.length ≤ cap) ∧ c.pending.length ≤ cap

end Mpc.Vole

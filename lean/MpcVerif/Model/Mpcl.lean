/-
Reference semantics of the MPCL subset named by property C03 (core Lean only).

The subset: types `bool`, `intN`, `uintN`, fixed-size arrays, structs;
expressions: literals, variables, `+ - * / % & | ^ &^`, constant shifts,
comparisons, `&& || !`, unary minus, casts `intN(x)` / `uintN(x)`, indexing,
field access, calls (several results); statements: `var` / `:=`
declarations, assignment (also to array elements and struct fields),
`if / else` with early `return`, `for i := a; i <cmp> b; i += s` with
constant bounds, `return`.

The interpreter is a total big-step evaluator with fuel (structural recursion
on the fuel).  It is the ORACLE of the C03 translation validation: the Go
harness serialises the program it hands to the real compiler
(`compiler.Compiler.Compile`, /repo/compiler/compiler.go) and the driver
(`Driver/C03.lean`) runs `run` on the same program and inputs.

Where the semantics comes from (README "MPCL ... heavily inspired by Go",
/repo/testsuite/lang/*.mpcl `@Test` vectors):
  * arithmetic wraps modulo 2^N (add.mpcl, mult.mpcl, sub.mpcl);
  * signed `/` truncates toward zero (divi.mpcl), signed `%` is |a| mod |b|
    (modi.mpcl; NOT Go's `%`), unsigned `/ %` are floor div / mod (divu, modu);
  * `x << k`, `x >> k` with k >= width give 0 for unsigned (lshift64, rshift64);
    `>>` on signed is arithmetic (ssagen.go Binary.SSA: srshift);
  * comparisons are signed for intN, unsigned for uintN (test_*.mpcl, README
    millionaire example);
  * `for` is unrolled with the loop variable a compile-time int32 constant
    (for.mpcl, array.mpcl);
  * functions return several values, also through `if/else` early returns
    (assign2.mpcl) and named results (named_return*.mpcl).
Every ill-typed or undefined situation (width/sign mismatch, division by
zero, index out of range, missing variable, fuel exhausted) yields `none`; the
driver prints `model-error`, which never equals an implementation result.
-/

namespace Mpc.Mpcl

/-- MPCL types of the subset. -/
inductive Ty where
  | bool
  | int (w : Nat)
  | uint (w : Nat)
  | arr (n : Nat) (e : Ty)
  | struct (fs : List Ty)
  deriving Repr, Inhabited

/-- Run-time values.  `num s w v`: a `w`-bit pattern `v < 2^w`, signed iff `s`.
`agg`: array elements / struct fields / several call results, in order. -/
inductive Val where
  | bool (b : Bool)
  | num (signed : Bool) (w : Nat) (v : Nat)
  | agg (vs : List Val)
  deriving Repr, Inhabited

mutual
/-- Number of wires of a type (types.Info.Bits). -/
def Ty.bits : Ty → Nat
  | .bool => 1
  | .int w => w
  | .uint w => w
  | .arr n e => n * e.bits
  | .struct fs => bitsList fs
def bitsList : List Ty → Nat
  | [] => 0
  | t :: ts => t.bits + bitsList ts
end

mutual
/-- Zero value of a type (ast/ssagen.go `initValue`). -/
def Ty.zero : Ty → Val
  | .bool => .bool false
  | .int w => .num true w 0
  | .uint w => .num false w 0
  | .arr n e => .agg (List.replicate n e.zero)
  | .struct fs => .agg (zeroList fs)
def zeroList : List Ty → List Val
  | [] => []
  | t :: ts => t.zero :: zeroList ts
end

mutual
/-- Decode the wire pattern `n` (bit 0 = first wire) of an argument of type
`t`: array elements and struct fields are laid out in order, low bits first. -/
def Ty.decode : Ty → Nat → Val
  | .bool, n => .bool (n % 2 == 1)
  | .int w, n => .num true w (n % 2 ^ w)
  | .uint w, n => .num false w (n % 2 ^ w)
  | .arr k e, n => .agg ((List.range k).map fun i => e.decode (n >>> (i * e.bits)))
  | .struct fs, n => .agg (decodeList fs n)
def decodeList : List Ty → Nat → List Val
  | [], _ => []
  | t :: ts, n => t.decode n :: decodeList ts (n >>> t.bits)
end

mutual
/-- Wire pattern and width of a value (inverse of `decode`). -/
def Val.encode : Val → Nat × Nat
  | .bool b => (if b then 1 else 0, 1)
  | .num _ w v => (v % 2 ^ w, w)
  | .agg vs => encodeList vs
def encodeList : List Val → Nat × Nat
  | [] => (0, 0)
  | v :: vs =>
    let (a, wa) := v.encode
    let (b, wb) := encodeList vs
    (a + b <<< wa, wa + wb)
end

mutual
/-- Shape check used as a guard (the harness only emits well-typed programs;
a mismatch makes the interpreter answer `none`). -/
def Val.hasTy : Val → Ty → Bool
  | .bool _, .bool => true
  | .num s w v, .int w' => s && w == w' && decide (v < 2 ^ w)
  | .num s w v, .uint w' => !s && w == w' && decide (v < 2 ^ w)
  | .agg vs, .arr n e => vs.length == n && allHaveTy vs e
  | .agg vs, .struct fs => listHasTy vs fs
  | _, _ => false
def allHaveTy : List Val → Ty → Bool
  | [], _ => true
  | v :: vs, t => v.hasTy t && allHaveTy vs t
def listHasTy : List Val → List Ty → Bool
  | [], [] => true
  | v :: vs, t :: ts => v.hasTy t && listHasTy vs ts
  | _, _ => false
end

mutual
/-- Same shape (used on assignment: the new value must fit the old one). -/
def Val.sameShape : Val → Val → Bool
  | .bool _, .bool _ => true
  | .num s w _, .num s' w' _ => s == s' && w == w'
  | .agg vs, .agg ws => sameShapeList vs ws
  | _, _ => false
def sameShapeList : List Val → List Val → Bool
  | [], [] => true
  | v :: vs, w :: ws => v.sameShape w && sameShapeList vs ws
  | _, _ => false
end

/-! ### Fixed-width arithmetic on bit patterns -/

/-- Reduce modulo 2^w. -/
def wrap (w n : Nat) : Nat := n % 2 ^ w

/-- Two's complement reading of a `w`-bit pattern (`BitVec.toInt`). -/
def toInt (w v : Nat) : Int :=
  if 2 * v < 2 ^ w then (v : Int) else (v : Int) - ((2 ^ w : Nat) : Int)

/-- `w`-bit pattern of an integer (`BitVec.ofInt`). -/
def ofInt (w : Nat) (i : Int) : Nat := (i % ((2 ^ w : Nat) : Int)).toNat

inductive BinOp where
  | add | sub | mul | div | mod | band | bor | bxor | bclr
  | eq | ne | lt | le | gt | ge | land | lor
  deriving Repr, DecidableEq, Inhabited

/-- Binary operators on two `w`-bit operands of signedness `s`.
`/ %` by zero is undefined (`none`).  Signed `/` truncates toward zero, signed
`%` is `|a| mod |b|` (testsuite/lang/divi.mpcl, modi.mpcl;
circuits/circ_divider.go NewIDivider). -/
def arith (op : BinOp) (s : Bool) (w a b : Nat) : Option Val :=
  match op with
  | .add => some (.num s w (wrap w (a + b)))
  | .sub => some (.num s w (wrap w (2 ^ w - b + a)))
  | .mul => some (.num s w (wrap w (a * b)))
  | .div =>
    if b = 0 then none
    else some (.num s w (if s then ofInt w (Int.tdiv (toInt w a) (toInt w b)) else a / b))
  | .mod =>
    if b = 0 then none
    else some (.num s w (if s then wrap w ((toInt w a).natAbs % (toInt w b).natAbs) else a % b))
  | .band => some (.num s w (a &&& b))
  | .bor => some (.num s w (a ||| b))
  | .bxor => some (.num s w (a ^^^ b))
  | .bclr => some (.num s w (a &&& (2 ^ w - 1 - b)))
  | .eq => some (.bool (a == b))
  | .ne => some (.bool (a != b))
  | .lt => some (.bool (if s then decide (toInt w a < toInt w b) else decide (a < b)))
  | .le => some (.bool (if s then decide (toInt w a ≤ toInt w b) else decide (a ≤ b)))
  | .gt => some (.bool (if s then decide (toInt w b < toInt w a) else decide (b < a)))
  | .ge => some (.bool (if s then decide (toInt w b ≤ toInt w a) else decide (b ≤ a)))
  | .land => none
  | .lor => none

/-- Binary operator on values: both operands must have the same type
(ssa.Value.TypeCompatible); `== !=` also on booleans.  `&& ||` are handled by
the evaluator (short circuit). -/
def binop (op : BinOp) (x y : Val) : Option Val :=
  match x, y with
  | .num s w a, .num s' w' b => if s = s' ∧ w = w' then arith op s w a b else none
  | .bool a, .bool b =>
    match op with
    | .eq => some (.bool (a == b))
    | .ne => some (.bool (a != b))
    | .land => some (.bool (a && b))
    | .lor => some (.bool (a || b))
    | _ => none
  | _, _ => none

/-- `a op b` given the value of `a` and the (possibly undefined) value of `b`:
`&&` / `||` do not look at `b` when `a` decides (Go short circuit; expressions
have no side effects, so only definedness is affected). -/
def binE (op : BinOp) (va : Val) (rb : Option Val) : Option Val :=
  match op, va with
  | .land, .bool false => some (.bool false)
  | .lor, .bool true => some (.bool true)
  | _, _ => rb.bind (binop op va)

/-- Constant shifts (circuitgen.go Lshift / Rshift / Srshift): `<<` drops the
bits shifted out, `>>` is logical on uintN and arithmetic on intN; any shift
count is allowed. -/
def shiftVal (left : Bool) (x : Val) (k : Nat) : Option Val :=
  match x with
  | .num s w a =>
    some (.num s w
      (if left then wrap w (a <<< k)
       else if s then ofInt w ((toInt w a) >>> k) else a >>> k))
  | _ => none

/-- Unary minus: `0 - x` (ssagen.go Unary.SSA). -/
def negVal (x : Val) : Option Val :=
  match x with
  | .num s w a => some (.num s w (wrap w (2 ^ w - a)))
  | _ => none

def notVal (x : Val) : Option Val :=
  match x with
  | .bool b => some (.bool (!b))
  | _ => none

/-- Integer conversion: narrowing truncates; widening sign-extends a signed
source and zero-extends an unsigned one. -/
def castNum (s : Bool) (w v : Nat) (s' : Bool) (w' : Nat) : Val :=
  .num s' w' (if w' ≤ w then wrap w' v else if s then ofInt w' (toInt w v) else v)

def castVal (t : Ty) (x : Val) : Option Val :=
  match t, x with
  | .int w', .num s w v => some (castNum s w v true w')
  | .uint w', .num s w v => some (castNum s w v false w')
  | .bool, .bool b => some (.bool b)
  | _, _ => none

/-- Typed literal (the harness types every literal by its context). -/
def litVal (t : Ty) (n : Nat) : Option Val :=
  match t with
  | .bool => some (.bool (n != 0))
  | .int w => some (.num true w (wrap w n))
  | .uint w => some (.num false w (wrap w n))
  | _ => none

/-! ### Syntax -/

inductive Expr where
  | lit (t : Ty) (n : Nat)
  | var (x : String)
  | bin (op : BinOp) (a b : Expr)
  | shift (left : Bool) (a : Expr) (k : Nat)
  | not (a : Expr)
  | neg (a : Expr)
  | cast (t : Ty) (a : Expr)
  | idx (a i : Expr)
  | fld (a : Expr) (k : Nat)
  | call (f : Nat) (args : List Expr)
  deriving Repr, Inhabited

/-- One step of an l-value path: `[e]` or `.field`. -/
inductive Acc where
  | idx (e : Expr)
  | fld (k : Nat)
  deriving Repr, Inhabited

structure LVal where
  x : String
  path : List Acc
  deriving Repr, Inhabited

inductive Cmp where
  | lt | le | gt | ge | ne
  deriving Repr, DecidableEq, Inhabited

def Cmp.holds : Cmp → Int → Int → Bool
  | .lt, a, b => decide (a < b)
  | .le, a, b => decide (a ≤ b)
  | .gt, a, b => decide (b < a)
  | .ge, a, b => decide (b ≤ a)
  | .ne, a, b => decide (a ≠ b)

inductive Stmt where
  /-- `var x T` / `var x T = e` -/
  | decl (x : String) (t : Ty) (init : Option Expr)
  /-- `x := e` / `x, y := f(..)` -/
  | define (xs : List String) (e : Expr)
  /-- `lv = e` / `lv1, lv2 = f(..)` -/
  | assign (lvs : List LVal) (e : Expr)
  | ifte (c : Expr) (th el : List Stmt)
  /-- `for i := lo; i <cmp> hi; i += step { body }`; `i` is an int32 constant in the body -/
  | for (i : String) (lo : Int) (cmp : Cmp) (hi : Int) (step : Int) (body : List Stmt)
  /-- `return e1, .., en` (or a single call delivering all results) -/
  | ret (es : List Expr)
  deriving Repr, Inhabited

structure Func where
  params : List (String × Ty)
  nres : Nat
  body : List Stmt
  deriving Repr, Inhabited

abbrev Prog := List Func

/-! ### Environments: a stack of scopes (Go block scoping) -/

abbrev Scope := List (String × Val)
abbrev Env := List Scope

def Scope.lookup : Scope → String → Option Val
  | [], _ => none
  | (y, v) :: r, x => if x = y then some v else Scope.lookup r x

def Scope.set : Scope → String → Val → Option Scope
  | [], _, _ => none
  | (y, v) :: r, x, n =>
    if x = y then some ((y, n) :: r) else (Scope.set r x n).map ((y, v) :: ·)

def Env.lookup : Env → String → Option Val
  | [], _ => none
  | s :: r, x => match Scope.lookup s x with
    | some v => some v
    | none => Env.lookup r x

/-- Update the innermost binding of `x`. -/
def Env.set : Env → String → Val → Option Env
  | [], _, _ => none
  | s :: r, x, n => match Scope.set s x n with
    | some s' => some (s' :: r)
    | none => (Env.set r x n).map (s :: ·)

/-- Declare `x` in the innermost scope (shadows outer bindings). -/
def Env.declare : Env → String → Val → Env
  | [], x, v => [[(x, v)]]
  | s :: r, x, v => ((x, v) :: s) :: r

def Env.declareAll : Env → List String → List Val → Env
  | env, x :: xs, v :: vs => Env.declareAll (env.declare x v) xs vs
  | env, _, _ => env

/-- Replace the component at `path` (element / field indices) of `v`. -/
def Val.update : Val → List Nat → Val → Option Val
  | old, [], new => if old.sameShape new then some new else none
  | .agg vs, i :: p, new =>
    match vs[i]? with
    | some c => (Val.update c p new).map fun c' => .agg (vs.set i c')
    | none => none
  | _, _ :: _, _ => none

def Val.toIndex : Val → Option Nat
  | .num _ _ v => some v
  | _ => none

inductive Outcome where
  | normal (env : Env)
  | returned (vs : List Val)
  deriving Repr, Inhabited

/-- Leave a block scope. -/
def Outcome.pop : Outcome → Outcome
  | .normal env => .normal env.tail
  | r => r

/-- Loop variable value: an int32 constant (ssa.Generator.Constant). -/
def loopVal (i : Int) : Val := .num true 32 (ofInt 32 i)

/-- Several results of a call are delivered as one `agg`. -/
def packResults (nres : Nat) (rs : List Val) : Option Val :=
  let rs' := if rs.length = nres then rs else
    match rs with
    | [.agg vs] => vs
    | _ => rs
  if rs'.length ≠ nres then none
  else match rs' with
    | [r] => some r
    | _ => some (.agg rs')

/-- One step of an l-value path as an index. -/
def pathIdx (ev : Expr → Env → Option Val) (env : Env) (a : Acc) : Option Nat :=
  match a with
  | .idx e => (ev e env).bind Val.toIndex
  | .fld k => some k

/-- Resolve an l-value path to indices and store. -/
def assignTo (ev : Expr → Env → Option Val) (env : Env) (lv : LVal) (v : Val) : Option Env :=
  match env.lookup lv.x with
  | none => none
  | some root =>
    match lv.path.mapM (pathIdx ev env) with
    | none => none
    | some idxs =>
      match root.update idxs v with
      | none => none
      | some root' => env.set lv.x root'

def assignAll (ev : Expr → Env → Option Val) : Env → List LVal → List Val → Option Env
  | env, [], [] => some env
  | env, lv :: lvs, v :: vs => (assignTo ev env lv v).bind fun env' => assignAll ev env' lvs vs
  | _, _, _ => none

def bindParams : List (String × Ty) → List Val → Option Scope
  | [], [] => some []
  | (x, t) :: ps, v :: vs =>
    if v.hasTy t then (bindParams ps vs).map ((x, v) :: ·) else none
  | _, _ => none

/-! ### The interpreter -/

mutual

def evalE (P : Prog) : Nat → Expr → Env → Option Val
  | 0, _, _ => none
  | _ + 1, .lit t n, _ => litVal t n
  | _ + 1, .var x, env => env.lookup x
  | f + 1, .bin op a b, env => (evalE P f a env).bind fun va => binE op va (evalE P f b env)
  | f + 1, .shift l a k, env => (evalE P f a env).bind fun v => shiftVal l v k
  | f + 1, .not a, env => (evalE P f a env).bind notVal
  | f + 1, .neg a, env => (evalE P f a env).bind negVal
  | f + 1, .cast t a, env => (evalE P f a env).bind (castVal t)
  | f + 1, .idx a i, env =>
    match evalE P f a env, evalE P f i env with
    | some (.agg vs), some (.num _ _ k) => vs[k]?
    | _, _ => none
  | f + 1, .fld a k, env =>
    match evalE P f a env with
    | some (.agg vs) => vs[k]?
    | _ => none
  | f + 1, .call g args, env =>
    match P[g]? with
    | none => none
    | some fn =>
      match args.mapM (fun a => evalE P f a env) with
      | none => none
      | some vs =>
        -- `f(g(..))`: a single call argument delivering all parameters
        let vs := if vs.length = fn.params.length then vs else
          match vs with
          | [.agg ws] => ws
          | _ => vs
        match bindParams fn.params vs with
        | none => none
        | some sc =>
          match execB P f fn.body [sc] with
          | some (.returned rs) => packResults fn.nres rs
          | _ => none

def execS (P : Prog) : Nat → Stmt → Env → Option Outcome
  | 0, _, _ => none
  | _ + 1, .decl x t none, env => some (.normal (env.declare x t.zero))
  | f + 1, .decl x t (some e), env =>
    match evalE P f e env with
    | some v => if v.hasTy t then some (.normal (env.declare x v)) else none
    | none => none
  | f + 1, .define xs e, env =>
    match evalE P f e env with
    | none => none
    | some v =>
      match xs with
      | [x] => some (.normal (env.declare x v))
      | _ =>
        match v with
        | .agg vs => if xs.length = vs.length then some (.normal (env.declareAll xs vs)) else none
        | _ => none
  | f + 1, .assign lvs e, env =>
    match evalE P f e env with
    | none => none
    | some v =>
      match lvs with
      | [lv] => (assignTo (fun e env => evalE P f e env) env lv v).map .normal
      | _ =>
        match v with
        | .agg vs => (assignAll (fun e env => evalE P f e env) env lvs vs).map .normal
        | _ => none
  | f + 1, .ifte c th el, env =>
    match evalE P f c env with
    | some (.bool true) => (execB P f th ([] :: env)).map Outcome.pop
    | some (.bool false) => (execB P f el ([] :: env)).map Outcome.pop
    | _ => none
  | f + 1, .for i lo c hi st body, env => execFor P f i lo c hi st body env
  | f + 1, .ret es, env =>
    match es.mapM (fun e => evalE P f e env) with
    | some vs => some (.returned vs)
    | none => none

def execB (P : Prog) : Nat → List Stmt → Env → Option Outcome
  | 0, _, _ => none
  | _ + 1, [], env => some (.normal env)
  | f + 1, s :: ss, env =>
    match execS P f s env with
    | some (.normal env') => execB P f ss env'
    | r => r

/-- `for i := cur; i <c> hi; i += st { body }`: the body runs in a fresh scope
holding the loop constant. -/
def execFor (P : Prog) : Nat → String → Int → Cmp → Int → Int → List Stmt → Env → Option Outcome
  | 0, _, _, _, _, _, _, _ => none
  | f + 1, i, cur, c, hi, st, body, env =>
    if c.holds cur hi then
      match execB P f body ([(i, loopVal cur)] :: env) with
      | some (.normal env') => execFor P f i (cur + st) c hi st body env'.tail
      | r => r
    else some (.normal env)

end

/-- Run function `main` of `P` on argument values. -/
def run (P : Prog) (fuel : Nat) (main : Nat) (args : List Val) : Option (List Val) :=
  match P[main]? with
  | none => none
  | some fn =>
    match bindParams fn.params args with
    | none => none
    | some sc =>
      match execB P fuel fn.body [sc] with
      | some (.returned rs) =>
        match packResults fn.nres rs with
        | some (.agg vs) => if fn.nres = 1 then some [.agg vs] else some vs
        | some r => some [r]
        | none => none
      | _ => none

/-- Run on raw wire patterns, deliver raw wire patterns with widths. -/
def runRaw (P : Prog) (fuel : Nat) (main : Nat) (args : List Nat) : Option (List (Nat × Nat)) :=
  match P[main]? with
  | none => none
  | some fn =>
    if args.length ≠ fn.params.length then none else
    (run P fuel main ((fn.params.zip args).map fun (p, n) => p.2.decode n)).map
      fun rs => rs.map Val.encode

end Mpc.Mpcl

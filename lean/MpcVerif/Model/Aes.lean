/-
AES-128/192/256 block encryption and AES-CTR, core Lean only.

This is *executed* by the correspondence driver (byte-exact comparison with
Go's crypto/aes); no theorem depends on any property of it: in every theorem
the block cipher is a universally quantified function.
-/
namespace Mpc.Aes

def sboxData : Array UInt8 := #[
  0x63,0x7c,0x77,0x7b,0xf2,0x6b,0x6f,0xc5,0x30,0x01,0x67,0x2b,0xfe,0xd7,0xab,0x76,
  0xca,0x82,0xc9,0x7d,0xfa,0x59,0x47,0xf0,0xad,0xd4,0xa2,0xaf,0x9c,0xa4,0x72,0xc0,
  0xb7,0xfd,0x93,0x26,0x36,0x3f,0xf7,0xcc,0x34,0xa5,0xe5,0xf1,0x71,0xd8,0x31,0x15,
  0x04,0xc7,0x23,0xc3,0x18,0x96,0x05,0x9a,0x07,0x12,0x80,0xe2,0xeb,0x27,0xb2,0x75,
  0x09,0x83,0x2c,0x1a,0x1b,0x6e,0x5a,0xa0,0x52,0x3b,0xd6,0xb3,0x29,0xe3,0x2f,0x84,
  0x53,0xd1,0x00,0xed,0x20,0xfc,0xb1,0x5b,0x6a,0xcb,0xbe,0x39,0x4a,0x4c,0x58,0xcf,
  0xd0,0xef,0xaa,0xfb,0x43,0x4d,0x33,0x85,0x45,0xf9,0x02,0x7f,0x50,0x3c,0x9f,0xa8,
  0x51,0xa3,0x40,0x8f,0x92,0x9d,0x38,0xf5,0xbc,0xb6,0xda,0x21,0x10,0xff,0xf3,0xd2,
  0xcd,0x0c,0x13,0xec,0x5f,0x97,0x44,0x17,0xc4,0xa7,0x7e,0x3d,0x64,0x5d,0x19,0x73,
  0x60,0x81,0x4f,0xdc,0x22,0x2a,0x90,0x88,0x46,0xee,0xb8,0x14,0xde,0x5e,0x0b,0xdb,
  0xe0,0x32,0x3a,0x0a,0x49,0x06,0x24,0x5c,0xc2,0xd3,0xac,0x62,0x91,0x95,0xe4,0x79,
  0xe7,0xc8,0x37,0x6d,0x8d,0xd5,0x4e,0xa9,0x6c,0x56,0xf4,0xea,0x65,0x7a,0xae,0x08,
  0xba,0x78,0x25,0x2e,0x1c,0xa6,0xb4,0xc6,0xe8,0xdd,0x74,0x1f,0x4b,0xbd,0x8b,0x8a,
  0x70,0x3e,0xb5,0x66,0x48,0x03,0xf6,0x0e,0x61,0x35,0x57,0xb9,0x86,0xc1,0x1d,0x9e,
  0xe1,0xf8,0x98,0x11,0x69,0xd9,0x8e,0x94,0x9b,0x1e,0x87,0xe9,0xce,0x55,0x28,0xdf,
  0x8c,0xa1,0x89,0x0d,0xbf,0xe6,0x42,0x68,0x41,0x99,0x2d,0x0f,0xb0,0x54,0xbb,0x16]

@[inline] def sbox (b : UInt8) : UInt8 := sboxData[b.toNat]!

@[inline] def xtime (b : UInt8) : UInt8 :=
  let s := b <<< 1
  if b &&& 0x80 != 0 then s ^^^ 0x1b else s

/-- Expanded key as a flat byte array of 16*(rounds+1) bytes. -/
def expandKey (key : ByteArray) : ByteArray × Nat := Id.run do
  let nk := key.size / 4
  let rounds := nk + 6
  let total := 16 * (rounds + 1)
  let mut w : ByteArray := key
  let mut rcon : UInt8 := 1
  let mut i := nk
  while w.size < total do
    let p := w.size - 4
    let mut t0 := w[p]!
    let mut t1 := w[p+1]!
    let mut t2 := w[p+2]!
    let mut t3 := w[p+3]!
    if i % nk == 0 then
      let u0 := sbox t1 ^^^ rcon
      let u1 := sbox t2
      let u2 := sbox t3
      let u3 := sbox t0
      t0 := u0; t1 := u1; t2 := u2; t3 := u3
      rcon := xtime rcon
    else if nk > 6 && i % nk == 4 then
      t0 := sbox t0; t1 := sbox t1; t2 := sbox t2; t3 := sbox t3
    let q := w.size - 4 * nk
    w := w.push (w[q]! ^^^ t0)
    w := w.push (w[q+1]! ^^^ t1)
    w := w.push (w[q+2]! ^^^ t2)
    w := w.push (w[q+3]! ^^^ t3)
    i := i + 1
  return (w, rounds)

structure Cipher where
  rk : ByteArray
  rounds : Nat

def Cipher.new (key : ByteArray) : Option Cipher :=
  if key.size == 16 || key.size == 24 || key.size == 32 then
    let (rk, r) := expandKey key
    some { rk := rk, rounds := r }
  else none

def addRoundKey (s : ByteArray) (rk : ByteArray) (r : Nat) : ByteArray := Id.run do
  let mut o := s
  for i in [0:16] do
    o := o.set! i (s[i]! ^^^ rk[16*r+i]!)
  return o

def subShift (s : ByteArray) : ByteArray := Id.run do
  -- state is column-major: byte index = 4*col + row
  let mut o := s
  for c in [0:4] do
    for r in [0:4] do
      o := o.set! (4*c + r) (sbox s[4*((c + r) % 4) + r]!)
  return o

def mixColumns (s : ByteArray) : ByteArray := Id.run do
  let mut o := s
  for c in [0:4] do
    let a0 := s[4*c]!; let a1 := s[4*c+1]!; let a2 := s[4*c+2]!; let a3 := s[4*c+3]!
    let t := a0 ^^^ a1 ^^^ a2 ^^^ a3
    o := o.set! (4*c)   (a0 ^^^ t ^^^ xtime (a0 ^^^ a1))
    o := o.set! (4*c+1) (a1 ^^^ t ^^^ xtime (a1 ^^^ a2))
    o := o.set! (4*c+2) (a2 ^^^ t ^^^ xtime (a2 ^^^ a3))
    o := o.set! (4*c+3) (a3 ^^^ t ^^^ xtime (a3 ^^^ a0))
  return o

def Cipher.encryptBlock (c : Cipher) (blk : ByteArray) : ByteArray := Id.run do
  let mut s := addRoundKey blk c.rk 0
  for r in [1:c.rounds] do
    s := addRoundKey (mixColumns (subShift s)) c.rk r
  return addRoundKey (subShift s) c.rk c.rounds

/-- 128-bit big-endian conversions. -/
def bytesOfNat128 (n : Nat) : ByteArray := Id.run do
  let mut o := ByteArray.emptyWithCapacity 16
  for i in [0:16] do
    o := o.push (UInt8.ofNat ((n >>> (8 * (15 - i))) % 256))
  return o

def nat128OfBytes (b : ByteArray) (ofs : Nat := 0) : Nat := Id.run do
  let mut n := 0
  for i in [0:16] do
    n := (n <<< 8) ||| (b[ofs + i]!).toNat
  return n

def Cipher.encrypt128 (c : Cipher) (x : BitVec 128) : BitVec 128 :=
  BitVec.ofNat 128 (nat128OfBytes (c.encryptBlock (bytesOfNat128 x.toNat)))

/-- AES-CTR key stream (Go `cipher.NewCTR` with 16-byte IV): block i is
E(iv + i) with big-endian 128-bit increment. -/
def ctrStream (c : Cipher) (iv : BitVec 128) (nbytes : Nat) : ByteArray := Id.run do
  let mut o := ByteArray.emptyWithCapacity nbytes
  let mut ctr := iv
  let nblocks := (nbytes + 15) / 16
  for _ in [0:nblocks] do
    o := o ++ c.encryptBlock (bytesOfNat128 ctr.toNat)
    ctr := ctr + 1
  return o.extract 0 nbytes

def hexOfBytes (b : ByteArray) : String := Id.run do
  let hexd := "0123456789abcdef".toList.toArray
  let mut s := ""
  for x in b.toList do
    s := s.push hexd[(x.toNat / 16)]!
    s := s.push hexd[(x.toNat % 16)]!
  return s

def hexVal (c : Char) : Option Nat :=
  if '0' ≤ c ∧ c ≤ '9' then some (c.toNat - '0'.toNat)
  else if 'a' ≤ c ∧ c ≤ 'f' then some (c.toNat - 'a'.toNat + 10)
  else if 'A' ≤ c ∧ c ≤ 'F' then some (c.toNat - 'A'.toNat + 10)
  else none

def bytesOfHex (s : String) : Option ByteArray := Id.run do
  let cs := s.toList.toArray
  if cs.size % 2 != 0 then return none
  let mut o := ByteArray.emptyWithCapacity (cs.size / 2)
  for i in [0:cs.size / 2] do
    match hexVal cs[2*i]!, hexVal cs[2*i+1]! with
    | some a, some b => o := o.push (UInt8.ofNat (16*a + b))
    | _, _ => return none
  return some o

end Mpc.Aes

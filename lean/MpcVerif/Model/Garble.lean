/-
Garbling and garbled evaluation: model of `Gate.garbleInto`, `Circuit.Garble`
(circuit/garble.go) and `Circuit.Eval` (circuit/eval.go), generic in the label
algebra and in the two hash functions so that it can be instantiated at
`BitVec 128` + AES (executed, compared byte for byte with Go) and quantified
over in the theorems.  Core Lean only.
-/
import MpcVerif.Model.Circuit

namespace Mpc

/-- The algebra of wire labels: an elementary abelian 2-group with a
"select bit" that is additive.  `BitVec 128` with `msb` is the concrete
instance (ot.Label: D0 is the high word, S() is the top bit of D0). -/
class LabelAlg (L : Type) extends Inhabited L where
  xor  : L → L → L
  zero : L
  sbit : L → Bool
  xor_assoc : ∀ a b c : L, xor (xor a b) c = xor a (xor b c)
  xor_comm  : ∀ a b : L, xor a b = xor b a
  xor_self  : ∀ a : L, xor a a = zero
  xor_zero  : ∀ a : L, xor a zero = a
  sbit_xor  : ∀ a b : L, sbit (xor a b) = (sbit a != sbit b)
  default_eq : (default : L) = zero

namespace LabelAlg
variable {L : Type} [LabelAlg L]
instance : XorOp L := ⟨LabelAlg.xor⟩
theorem xor_def (a b : L) : a ^^^ b = LabelAlg.xor a b := rfl
end LabelAlg

open LabelAlg

/-- The two hash functions of the garbling scheme.
`h1 x i` is `encryptHalf`: π(K) ⊕ K with K = 2x ⊕ i;
`h2 a b t` is the pad of `encrypt`/`decrypt`: π(K) ⊕ K with K = 2a ⊕ 4b ⊕ t. -/
structure Hash (L : Type) where
  h1 : L → Nat → L
  h2 : L → L → Nat → L

structure WireL (L : Type) where
  l0 : L
  l1 : L
  deriving Repr, DecidableEq

instance {L : Type} [Inhabited L] : Inhabited (WireL L) := ⟨⟨default, default⟩⟩

variable {L : Type} [LabelAlg L]

/-- `idx(l0, l1)`. -/
def idx (a b : L) : Nat := (if sbit a then 2 else 0) + (if sbit b then 1 else 0)
/-- `idxUnary(l0)`. -/
def idxUnary (a : L) : Nat := if sbit a then 1 else 0

/-- `LabelForBit`. -/
def WireL.labelFor (w : WireL L) (b : Bool) : L := if b then w.l1 else w.l0

/-- `BitFromLabel`: `none` is the error branch. -/
def WireL.bitFrom [DecidableEq L] (w : WireL L) (l : L) : Option Bool :=
  if l = w.l0 then some false else if l = w.l1 then some true else none

/-- Table of four slots (the `[4]ot.Label` stack buffer); written
sequentially like the Go code. -/
abbrev Tab (L : Type) := Nat → L

def Tab.set (t : Tab L) (i : Nat) (v : L) : Tab L := fun j => if j = i then v else t j

/-- The label computation of one call of `Gate.garbleInto`: from the two input
wire pairs to the output wire pair and the transmitted rows of this gate. -/
def garbleCore (H : Hash L) (r : L) (op : Op) (a b : WireL L) (id : Nat) : WireL L × List L :=
  match op with
  | .xor =>
    let l0 := a.l0 ^^^ b.l0
    (⟨l0, l0 ^^^ r⟩, [])
  | .xnor =>
    let l0 := a.l0 ^^^ b.l0
    (⟨l0 ^^^ r, l0⟩, [])
  | .and =>
    let pa := sbit a.l0
    let pb := sbit b.l0
    let j0 := id
    let j1 := id + 1
    let tg0 := H.h1 a.l0 j0 ^^^ H.h1 a.l1 j0
    let tg := if pb then tg0 ^^^ r else tg0
    let wg0 := if pa then H.h1 a.l0 j0 ^^^ tg else H.h1 a.l0 j0
    let te := H.h1 b.l0 j1 ^^^ H.h1 b.l1 j1 ^^^ a.l0
    let we0 := if pb then H.h1 b.l0 j1 ^^^ te ^^^ a.l0 else H.h1 b.l0 j1
    let l0 := wg0 ^^^ we0
    (⟨l0, l0 ^^^ r⟩, [tg, te])
  | .or =>
    let z : L := LabelAlg.zero
    -- encrypt(..., c.L0/c.L1, ...) is called while c is still the zero wire
    let t : Tab L := fun _ => z
    let t := t.set (idx a.l0 b.l0) (H.h2 a.l0 b.l0 id ^^^ z)
    let t := t.set (idx a.l0 b.l1) (H.h2 a.l0 b.l1 id ^^^ z)
    let t := t.set (idx a.l1 b.l0) (H.h2 a.l1 b.l0 id ^^^ z)
    let t := t.set (idx a.l1 b.l1) (H.h2 a.l1 b.l1 id ^^^ z)
    let l0Index := idx a.l0 b.l0
    let c0 := if l0Index = 0 then t 0 else t 0 ^^^ r
    let c1 := if l0Index = 0 then t 0 ^^^ r else t 0
    let row := fun i => if i = l0Index then t i ^^^ c0 else t i ^^^ c1
    (⟨c0, c1⟩, [row 1, row 2, row 3])
  | .inv =>
    let z : L := LabelAlg.zero
    let t : Tab L := fun _ => z
    let t := t.set (idxUnary a.l0) (H.h2 a.l0 z id ^^^ z)
    let t := t.set (idxUnary a.l1) (H.h2 a.l1 z id ^^^ z)
    let l0Index := idxUnary a.l0
    let c0 := if l0Index = 0 then t 0 ^^^ r else t 0
    let c1 := if l0Index = 0 then t 0 else t 0 ^^^ r
    let row := fun i => if i = l0Index then t i ^^^ c1 else t i ^^^ c0
    (⟨c0, c1⟩, [row 1])

/-- One call of `Gate.garbleInto`: new wire store, new tweak counter, the
transmitted rows of this gate. -/
def garbleGate (H : Hash L) (r : L) (g : Gate) (ws : Store (WireL L)) (id : Nat) :
    Store (WireL L) × Nat × List L :=
  let c := garbleCore H r g.op (ws.get g.in0) (ws.get g.in1) id
  (ws.set g.out c.1, id + g.op.tweaks, c.2)

/-- The gate loop of `Circuit.Garble`. -/
def garbleGates (H : Hash L) (r : L) : List Gate → Store (WireL L) → Nat →
    Store (WireL L) × Nat × List (List L)
  | [], ws, id => (ws, id, [])
  | g :: gs, ws, id =>
    let (ws1, id1, rows) := garbleGate H r g ws id
    let (ws2, id2, rest) := garbleGates H r gs ws1 id1
    (ws2, id2, rows :: rest)

structure Garbled (L : Type) where
  r     : L
  wires : Store (WireL L)
  rows  : List (List L)

/-- `Circuit.Garble`: `r` is the offset *after* `SetS(true)`; `inl i` is the
random zero-label drawn for input wire `i` (`makeLabels`). -/
def Circuit.garble (c : Circuit) (H : Hash L) (r : L) (inl : Nat → L) : Garbled L :=
  let ws0 : Store (WireL L) :=
    (Array.range c.numWires).map fun i =>
      if i < c.nIn then ⟨inl i, inl i ^^^ r⟩ else default
  let (ws, _, rows) := garbleGates H r c.gates ws0 0
  { r := r, wires := ws, rows := rows }

inductive EvalErr where
  | andRowLen (len : Nat)
  | rowIndex (index len : Nat)
  | missingRows
  deriving Repr, DecidableEq

/-- The label computation of one iteration of `Circuit.Eval`. -/
def evalCore (H : Hash L) (op : Op) (row : List L) (a b : L) (id : Nat) : Except EvalErr L :=
  match op with
  | .xor | .xnor => .ok (a ^^^ b)
  | .and =>
    match row with
    | [tg, te] =>
      let wg := if sbit a then H.h1 a id ^^^ tg else H.h1 a id
      let we := if sbit b then H.h1 b (id + 1) ^^^ te ^^^ a else H.h1 b (id + 1)
      .ok (wg ^^^ we)
    | _ => .error (.andRowLen row.length)
  | .or =>
    let index := idx a b
    if index > 0 then
      if h : index - 1 < row.length then
        .ok (row[index - 1] ^^^ H.h2 a b id)
      else .error (.rowIndex (index - 1) row.length)
    else .ok ((LabelAlg.zero : L) ^^^ H.h2 a b id)
  | .inv =>
    let z : L := LabelAlg.zero
    let index := idxUnary a
    if index > 0 then
      if h : index - 1 < row.length then
        .ok (row[index - 1] ^^^ H.h2 a z id)
      else .error (.rowIndex (index - 1) row.length)
    else .ok (z ^^^ H.h2 a z id)

/-- One iteration of `Circuit.Eval`. -/
def evalGate (H : Hash L) (g : Gate) (row : List L) (ws : Store L) (id : Nat) :
    Except EvalErr (Store L × Nat) :=
  match evalCore H g.op row (ws.get g.in0) (ws.get g.in1) id with
  | .ok l => .ok (ws.set g.out l, id + g.op.tweaks)
  | .error e => .error e

/-- The gate loop of `Circuit.Eval`; `rows` is `garbled[i]` per gate. -/
def evalGates (H : Hash L) : List Gate → List (List L) → Store L → Nat →
    Except EvalErr (Store L × Nat)
  | [], _, ws, id => .ok (ws, id)
  | _ :: _, [], _, _ => .error .missingRows
  | g :: gs, row :: rows, ws, id =>
    match evalGate H g row ws id with
    | .error e => .error e
    | .ok (ws1, id1) => evalGates H gs rows ws1 id1

/-- Input encoding: the label of each input wire for the input bits. -/
def encodeInputs (c : Circuit) (G : Garbled L) (x : List Bool) : Store L :=
  (Array.range c.numWires).map fun i =>
    if i < c.nIn then (G.wires.get i).labelFor (x.getD i false) else default

def Circuit.evalGarbled (c : Circuit) (H : Hash L) (rows : List (List L)) (ws : Store L) :
    Except EvalErr (Store L) :=
  match evalGates H c.gates rows ws 0 with
  | .ok (ws, _) => .ok ws
  | .error e => .error e

end Mpc

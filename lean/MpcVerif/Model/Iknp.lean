/-
IKNP OT extension: byte-level model of /repo/ot/iknp.go
(`IKNPReceiver.receive`, `IKNPSender.send`, `createLabels`, the malicious-mode
wrappers `Receive`/`Send` as far as they touch the PRG streams, and the
packed-bit variants `ReceiveBits`/`SendBits`).  Core Lean only.

Representation.  A byte is `BitVec 8`, a buffer is an `Array` of bytes; every
buffer the Go code fills by loops is built here by `mk n f` ("byte k is f k").
A label is `BitVec 128` with `D0` the high and `D1` the low 64 bits (as in
Model/LabelBV.lean), so Go's `Label.Bit(i)` is bit `labelPos i`.

The 128 + 128 + 128 AES-CTR key streams (`g0/g1` of the receiver, `g0` of the
sender) are *arbitrary* byte streams `Nat → Nat → Byte` (column, position) and
every party's read position per column is explicit state (`RecvSt`, `SendSt`):
a call reads `byteRows` bytes per column and chunk and advances the position,
exactly like `prg(stream, buf[:byteRows])`.  The driver instantiates the
streams with Lean AES-CTR for the byte-exact comparison with Go; the theorems
quantify over all streams.
-/
namespace Mpc.Iknp

abbrev Byte := BitVec 8
abbrev Label := BitVec 128
abbrev Bytes := Array Byte
abbrev Words := Array (BitVec 64)

/-- `K`: number of base OTs / columns. -/
def K : Nat := 128
/-- `chunkByteRows = chunkSize / K = 8192 / 128`. -/
def chunkByteRows : Nat := 64
/-- `chunkRows = chunkByteRows * 8`. -/
def chunkRows : Nat := 512

/-- The buffer of `n` elements whose element `k` is `f k`. -/
def mk {α : Type} (n : Nat) (f : Nat → α) : Array α := (Array.range n).map f

/-- Byte `i` of a buffer (0 outside; every read of the model is in range, see
the `_get` lemmas in Proofs/Iknp.lean). -/
def bget (b : Bytes) (i : Nat) : Byte := b.getD i 0#8

/-- `b[s:]`. -/
def sliceFrom (b : Bytes) (s : Nat) : Bytes := mk (b.size - s) fun k => bget b (s + k)

/-- Go `xor(dst, src)`: the first `min len(dst) len(src)` bytes of `dst` are
XORed with `src`, the rest of `dst` is unchanged. -/
def xorBytes (dst src : Bytes) : Bytes :=
  mk dst.size fun k => if k < src.size then bget dst k ^^^ bget src k else bget dst k

/-- `prg(stream, buf[:len])` for a stream whose read position is `pos`. -/
def prgRead (S : Nat → Byte) (pos len : Nat) : Bytes := mk len fun t => S (pos + t)

/-- Position in `BitVec 128` of Go's label bit `j` (`Label.Bit`, `Label.SetBit`,
and the `D0/D1` masks of `createLabels`): bits 0..63 live in `D0` (high word). -/
def labelPos (j : Nat) : Nat := if j < 64 then j + 64 else j - 64

/-- `Label.Bit(i)` (Go panics for `i > 127`; all uses have `i < 128`). -/
def labelBit (l : Label) (i : Nat) : Bool := l.getLsbD (labelPos i)

/-- OR together the masks `1 <<< p j` of all `j < cnt` with `f j` set: the
`x |= mask` loops of the Go code. -/
def orBits {w : Nat} (p : Nat → Nat) (f : Nat → Bool) (cnt : Nat) : BitVec w :=
  (List.range cnt).foldl (fun a j => if f j then a ||| (1#w <<< p j) else a) 0#w

def labelOfBits (f : Nat → Bool) : Label := orBits labelPos f 128
def byteOfBits (f : Nat → Bool) : Byte := orBits id f 8

/-- `createLabels(l, buf, w)` with `len = len(l)`: label `i` (`i < min (8w) len`)
collects bit `i % 8` of byte `buf[j*w + i/8]` of every column `j` as its bit
`j`.  Returned as the list of labels written to `l[0..]`. -/
def createLabels (len : Nat) (buf : Bytes) (w : Nat) : List Label :=
  (List.range (min (w * 8) len)).map fun i =>
    labelOfBits fun j => (bget buf (j * w + i / 8)).getLsbD (i % 8)

/-- The `bbuf` of `receive`: choice bit `i` at `bbuf[i/8]` bit `i%8`. -/
def packBools (b : Array Bool) : Bytes :=
  mk ((b.size + 7) / 8) fun k => byteOfBits fun t => b.getD (8 * k + t) false

/-- Column-major matrix of `K` columns of `w` bytes from its columns. -/
def flat (w : Nat) (cols : Array Bytes) : Bytes :=
  mk (K * w) fun k => bget (cols.getD (k / w) #[]) (k % w)

/-- Read positions of the receiver's streams `g0[i]`, `g1[i]`. -/
structure RecvSt where
  p0 : Nat → Nat
  p1 : Nat → Nat

/-- Read positions of the sender's streams `g0[i]`. -/
structure SendSt where
  p : Nat → Nat

def RecvSt.init : RecvSt := ⟨fun _ => 0, fun _ => 0⟩
def SendSt.init : SendSt := ⟨fun _ => 0⟩
def RecvSt.adv (st : RecvSt) (d : Nat) : RecvSt := ⟨fun i => st.p0 i + d, fun i => st.p1 i + d⟩
def SendSt.adv (st : SendSt) (d : Nat) : SendSt := ⟨fun i => st.p i + d⟩

/-- The column loop of `receive` / `ReceiveBits`: for every column `i`
`chunk_i = G0_i`, `u_i = mask (G1_i xor chunk_i)` where `mask` is the XOR with
the choice bits (differs between the two callers).  Returns `(u, chunk)`. -/
def recvCols (R0 R1 : Nat → Nat → Byte) (st : RecvSt) (byteRows : Nat) (mask : Bytes → Bytes) :
    Bytes × Bytes :=
  let col0 : Array Bytes := mk K fun i => prgRead (R0 i) (st.p0 i) byteRows
  let ucol : Array Bytes := mk K fun i =>
    mask (xorBytes (prgRead (R1 i) (st.p1 i) byteRows) (col0.getD i #[]))
  (flat byteRows ucol, flat byteRows col0)

/-- Chunk loop of `IKNPReceiver.receive` from offset `ofs` (fuel = upper bound
on the number of iterations).  Returns the new stream state, the labels
written to `result[ofs:]` and the chunks passed to `SendData`. -/
def recvLoop (R0 R1 : Nat → Nat → Byte) (bbuf : Bytes) (n : Nat) :
    Nat → Nat → RecvSt → RecvSt × List Label × List Bytes
  | 0, _, st => (st, [], [])
  | fuel + 1, ofs, st =>
    if ofs < n then
      let rows := min chunkRows (n - ofs)
      let byteRows := (rows + 7) / 8
      let uc := recvCols R0 R1 st byteRows fun tmp => xorBytes tmp (sliceFrom bbuf (ofs / 8))
      let labels := createLabels (n - ofs) uc.2 byteRows
      let rest := recvLoop R0 R1 bbuf n fuel (ofs + rows) (st.adv byteRows)
      (rest.1, labels ++ rest.2.1, uc.1 :: rest.2.2)
    else (st, [], [])

/-- `IKNPReceiver.receive(b, result)`. -/
def receive (R0 R1 : Nat → Nat → Byte) (st : RecvSt) (b : Array Bool) :
    RecvSt × List Label × List Bytes :=
  recvLoop R0 R1 (packBools b) b.size b.size 0 st

/-- The `t` matrix of `send` / `SendBits` for one received chunk:
`t_i = G_i`, XORed with `chunk[i*byteRows:]` when `Delta.Bit(i) = 1`. -/
def sendCols (SS : Nat → Nat → Byte) (delta : Label) (st : SendSt) (chunk : Bytes) (byteRows : Nat) : Bytes :=
  flat byteRows <| mk K fun i =>
    let g := prgRead (SS i) (st.p i) byteRows
    if labelBit delta i then xorBytes g (sliceFrom chunk (i * byteRows)) else g

/-- Chunk loop of `IKNPSender.send(n)` over the incoming chunks.  `none`: an
error return (`ReceiveData` fails because nothing is left, invalid chunk
size), a chunk wider than the fixed `t` buffer (Go panics), or no progress
(empty chunk: Go would loop).  Returns the state, the labels, the unread chunks. -/
def sendLoop (SS : Nat → Nat → Byte) (delta : Label) (n : Nat) :
    Nat → Nat → SendSt → List Bytes → Option (SendSt × List Label × List Bytes)
  | 0, ofs, st, msgs => if ofs < n then none else some (st, [], msgs)
  | fuel + 1, ofs, st, msgs =>
    if ofs < n then
      match msgs with
      | [] => none
      | chunk :: more =>
        if chunk.size % K ≠ 0 then none else
        let byteRows := chunk.size / K
        if byteRows > chunkByteRows then none else
        let t := sendCols SS delta st chunk byteRows
        let labels := createLabels (n - ofs) t byteRows
        match sendLoop SS delta n fuel (ofs + byteRows * 8) (st.adv byteRows) more with
        | none => none
        | some rest => some (rest.1, labels ++ rest.2.1, rest.2.2)
    else some (st, [], msgs)

/-- `IKNPSender.send(n)`. -/
def send (SS : Nat → Nat → Byte) (delta : Label) (st : SendSt) (n : Nat) (msgs : List Bytes) :
    Option (SendSt × List Label × List Bytes) :=
  sendLoop SS delta n (n + 1) 0 st msgs

/-! ### Malicious mode (`Receive(.., true)` / `Send(n, true)`)

After the `n` transfers both sides run 256 more with random choices
`bcv = bits of b0 ++ bits of b1` (two labels from the receiver's random
source).  The consistency check computed from them is property C15; what
matters here is that the extra batch advances all streams on both sides. -/

def bcvOf (b0 b1 : Label) : Array Bool :=
  mk 256 fun i => if i < 128 then labelBit b0 i else labelBit b1 (i - 128)

def receiveMal (R0 R1 : Nat → Nat → Byte) (st : RecvSt) (b : Array Bool) (b0 b1 : Label) :
    RecvSt × List Label × List Bytes :=
  let r1 := receive R0 R1 st b
  let r2 := receive R0 R1 r1.1 (bcvOf b0 b1)
  (r2.1, r1.2.1, r1.2.2 ++ r2.2.2)

def sendMal (SS : Nat → Nat → Byte) (delta : Label) (st : SendSt) (n : Nat) (msgs : List Bytes) :
    Option (SendSt × List Label × List Bytes) :=
  match send SS delta st n msgs with
  | none => none
  | some r1 =>
    match send SS delta r1.1 256 r1.2.2 with
    | none => none
    | some r2 => some (r2.1, r1.2.1, r2.2.2)

/-! ### Packed-bit form -/

/-- Byte `t` (little endian) of a 64-bit word. -/
def wordByte (w : BitVec 64) (t : Nat) : Byte := (w >>> (8 * t)).setWidth 8

/-- The choice XOR of `ReceiveBits`: `words` whole 64-bit words of `tmp` are
XORed with `choices[wordOffset ..]`; bytes from `8*words` on are left alone.
(`tmp` is a full chunk-size buffer in Go, of which `byteRows` bytes are used:
with `8*words ≥ byteRows` every used byte is XORed.  The words read are
`choices[wordOffset .. wordOffset+words)`, inside the length-checked buffer.) -/
def xorWords (tmp : Bytes) (choices : Words) (wordOffset words : Nat) : Bytes :=
  mk tmp.size fun k =>
    if k < 8 * words then bget tmp k ^^^ wordByte (choices.getD (wordOffset + k / 8) 0#64) (k % 8)
    else bget tmp k

/-- `result[idx/64] |= 1 << (idx%64)`. -/
def setBit (r : Words) (idx : Nat) : Words :=
  r.modify (idx / 64) fun w => w ||| (1#64 <<< (idx % 64))

/-- Bit `idx` of a packed vector. -/
def bitAt (r : Words) (idx : Nat) : Bool := (r.getD (idx / 64) 0#64).getLsbD (idx % 64)

/-- `for row < rows { if bit(row) { result[ofs+row] = 1 } }`. -/
def orRows (r : Words) (ofs rows : Nat) (bit : Nat → Bool) : Words :=
  (List.range rows).foldl (fun r row => if bit row then setBit r (ofs + row) else r) r

/-- `words := (byteRows + 7) / 8` — the word count of `ReceiveBits` at /repo
HEAD (since 564d319). -/
def wordsHead (byteRows : Nat) : Nat := (byteRows + 7) / 8

/-- `words := byteRows / 8` — the word count of `ReceiveBits` BEFORE commit
564d319, which dropped the choices of a partial last word. -/
def wordsOld (byteRows : Nat) : Nat := byteRows / 8

/-- Chunk loop of `ReceiveBits(choices, result, n)`, with the word count
`words := wf byteRows` as a parameter (`wordsHead` = current code,
`wordsOld` = the code before 564d319). -/
def recvBitsLoop (wf : Nat → Nat) (R0 R1 : Nat → Nat → Byte) (choices : Words) (n : Nat) :
    Nat → Nat → RecvSt → Words → RecvSt × Words × List Bytes
  | 0, _, st, res => (st, res, [])
  | fuel + 1, ofs, st, res =>
    if ofs < n then
      let rows := min chunkRows (n - ofs)
      let byteRows := (rows + 7) / 8
      let wordOffset := ofs / 64
      let words := wf byteRows
      let uc := recvCols R0 R1 st byteRows fun tmp => xorWords tmp choices wordOffset words
      let labelsBuf := createLabels chunkRows uc.2 byteRows
      let res' := orRows res ofs rows fun row => labelBit (labelsBuf.getD row 0#128) 0
      let rest := recvBitsLoop wf R0 R1 choices n fuel (ofs + rows) (st.adv byteRows) res'
      (rest.1, rest.2.1, uc.1 :: rest.2.2)
    else (st, res, [])

/-- `IKNPReceiver.ReceiveBits(choices, result, n)` for a given word-count
rule; `none` = the buffer-length error returns. -/
def receiveBitsWith (wf : Nat → Nat) (R0 R1 : Nat → Nat → Byte) (st : RecvSt) (choices result : Words)
    (n : Nat) : Option (RecvSt × Words × List Bytes) :=
  if (n + 63) / 64 > choices.size then none
  else if (n + 63) / 64 > result.size then none
  else some (recvBitsLoop wf R0 R1 choices n n 0 st result)

/-- `IKNPReceiver.ReceiveBits` of /repo HEAD. -/
def receiveBits (R0 R1 : Nat → Nat → Byte) (st : RecvSt) (choices result : Words) (n : Nat) :
    Option (RecvSt × Words × List Bytes) :=
  receiveBitsWith wordsHead R0 R1 st choices result n

/-- `IKNPReceiver.ReceiveBits` as it was before 564d319 (kept only to state
what was wrong with it). -/
def receiveBitsOld (R0 R1 : Nat → Nat → Byte) (st : RecvSt) (choices result : Words) (n : Nat) :
    Option (RecvSt × Words × List Bytes) :=
  receiveBitsWith wordsOld R0 R1 st choices result n

/-- Chunk loop of `SendBits(n, result)`. -/
def sendBitsLoop (SS : Nat → Nat → Byte) (delta : Label) (n : Nat) :
    Nat → Nat → SendSt → Words → List Bytes → Option (SendSt × Words × List Bytes)
  | 0, ofs, st, res, msgs => if ofs < n then none else some (st, res, msgs)
  | fuel + 1, ofs, st, res, msgs =>
    if ofs < n then
      match msgs with
      | [] => none
      | chunk :: more =>
        if chunk.size % K ≠ 0 then none else
        let byteRows := chunk.size / K
        if byteRows > chunkByteRows then none else
        let rows := byteRows * 8
        let t := sendCols SS delta st chunk byteRows
        -- col0 := t[:byteRows]
        let maxRows := min rows (n - ofs)
        let res' := orRows res ofs maxRows fun row => (bget t (row / 8)).getLsbD (row % 8)
        sendBitsLoop SS delta n fuel (ofs + maxRows) (st.adv byteRows) res' more
    else some (st, res, msgs)

/-- `IKNPSender.SendBits(n, result)`. -/
def sendBits (SS : Nat → Nat → Byte) (delta : Label) (st : SendSt) (n : Nat) (result : Words)
    (msgs : List Bytes) : Option (SendSt × Words × List Bytes) :=
  if (n + 63) / 64 > result.size then none
  else sendBitsLoop SS delta n (n + 1) 0 st result msgs

/-! ### Sessions: any sequence of calls on one initialised pair -/

/-- One call on an initialised sender/receiver pair.  `b0 b1` are the two
labels the malicious-mode receiver draws for its random choice vector. -/
inductive Call where
  | labels (mal : Bool) (b : Array Bool) (b0 b1 : Label)
  | bits (n : Nat) (choices : Words)

/-- Outputs of a call: the label vectors, or the packed words. -/
structure CallOut where
  sentL : List Label := []
  rcvdL : List Label := []
  sentW : Words := #[]
  rcvdW : Words := #[]

/-- Receiver and sender run one call; everything the receiver passes to
`SendData` is delivered in order and must be consumed exactly (`[]` left).
The packed-bit form is run on zeroed result buffers of `(n+63)/64` words, as
`gmw` does.  Returns the new stream states, the outputs and the chunks. -/
def runCall (R0 R1 SS : Nat → Nat → Byte) (delta : Label) (rs : RecvSt) (ss : SendSt) :
    Call → Option (RecvSt × SendSt × CallOut × List Bytes)
  | .labels false b _ _ =>
    let r := receive R0 R1 rs b
    match send SS delta ss b.size r.2.2 with
    | some (ss', sent, []) => some (r.1, ss', { sentL := sent, rcvdL := r.2.1 }, r.2.2)
    | _ => none
  | .labels true b b0 b1 =>
    let r := receiveMal R0 R1 rs b b0 b1
    match sendMal SS delta ss b.size r.2.2 with
    | some (ss', sent, []) => some (r.1, ss', { sentL := sent, rcvdL := r.2.1 }, r.2.2)
    | _ => none
  | .bits n choices =>
    let zero : Words := mk ((n + 63) / 64) fun _ => 0#64
    match receiveBits R0 R1 rs choices zero n with
    | none => none
    | some r =>
      match sendBits SS delta ss n zero r.2.2 with
      | some (ss', sw, []) => some (r.1, ss', { sentW := sw, rcvdW := r.2.1 }, r.2.2)
      | _ => none

/-- A sequence of calls on one pair, starting from the given stream states. -/
def session (R0 R1 SS : Nat → Nat → Byte) (delta : Label) :
    RecvSt → SendSt → List Call → Option (List CallOut)
  | _, _, [] => some []
  | rs, ss, c :: cs =>
    match runCall R0 R1 SS delta rs ss c with
    | none => none
    | some (rs', ss', out, _) => (session R0 R1 SS delta rs' ss' cs).map (out :: ·)

end Mpc.Iknp

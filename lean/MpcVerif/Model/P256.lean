/-
NIST P-256 arithmetic on affine coordinate pairs, core Lean only.  *Executed*
by the C06 driver to reproduce the exact bytes of the Chou-Orlandi OT of
/repo/ot/co.go (Go: crypto/elliptic.P256 through the deprecated big.Int API);
no theorem depends on it — the theorems are about an arbitrary commutative
group (Model/Co.lean).  The curve constants are those of FIPS 186; the driver
of C18 carries its own copy of `p` and `b` for point decompression (it is an
executable root and cannot be imported).

A point is the pair `(x, y)` of its affine coordinates, the point at infinity
is `(0, 0)` exactly as the Go API encodes it.  Internally Jacobian coordinates
`(X, Y, Z)` with `x = X/Z²`, `y = Y/Z³`, `Z = 0` for infinity.
-/
namespace Mpc.P256

def p : Nat := 2 ^ 256 - 2 ^ 224 + 2 ^ 192 + 2 ^ 96 - 1
def b : Nat := 0x5ac635d8aa3a93e7b3ebbd55769886bc651d06b0cc53b0f63bce3c3e27d2604b
/-- Group order `N`. -/
def order : Nat := 0xffffffff00000000ffffffffffffffffbce6faada7179e84f3b9cac2fc632551
def gx : Nat := 0x6b17d1f2e12c4247f8bce6e563a440f277037d812deb33a0f4a13945d898c296
def gy : Nat := 0x4fe342e2fe1a7f9b8ee7eb4a7c0f9e162bce33576b315ececbb6406837bf51f5

abbrev Point := Nat × Nat
def infinity : Point := (0, 0)
def gen : Point := (gx, gy)

@[inline] def fadd (a c : Nat) : Nat := (a + c) % p
@[inline] def fsub (a c : Nat) : Nat := (a + p - c % p) % p
@[inline] def fmul (a c : Nat) : Nat := (a * c) % p

def powMod (base e m : Nat) : Nat := Id.run do
  let mut r := 1 % m
  let mut bb := base % m
  let mut e := e
  for _ in [0:e.log2 + 1] do
    if e % 2 = 1 then r := r * bb % m
    bb := bb * bb % m
    e := e / 2
  return r

def finv (a : Nat) : Nat := powMod a (p - 2) p

/-- `curve.IsOnCurve(x, y)`: coordinates in range and `y² = x³ − 3x + b`
(`(0,0)` is not on the curve). -/
def onCurve (P : Point) : Bool :=
  P.1 < p && P.2 < p && fmul P.2 P.2 == fadd (fsub (fmul (fmul P.1 P.1) P.1) (fmul 3 P.1)) b

structure Jac where
  x : Nat
  y : Nat
  z : Nat

def Jac.inf : Jac := ⟨1, 1, 0⟩

def toJac (P : Point) : Jac := if P = infinity then Jac.inf else ⟨P.1, P.2, 1⟩

def toAffine (J : Jac) : Point :=
  if J.z = 0 then infinity else
  let zi := finv J.z
  let zi2 := fmul zi zi
  (fmul J.x zi2, fmul J.y (fmul zi2 zi))

/-- Doubling for a = −3 (dbl-2001-b). -/
def jdouble (P : Jac) : Jac :=
  if P.z = 0 || P.y = 0 then Jac.inf else
  let delta := fmul P.z P.z
  let gamma := fmul P.y P.y
  let beta := fmul P.x gamma
  let alpha := fmul 3 (fmul (fsub P.x delta) (fadd P.x delta))
  let x3 := fsub (fmul alpha alpha) (fmul 8 beta)
  let z3 := fsub (fsub (fmul (fadd P.y P.z) (fadd P.y P.z)) gamma) delta
  let y3 := fsub (fmul alpha (fsub (fmul 4 beta) x3)) (fmul 8 (fmul gamma gamma))
  ⟨x3, y3, z3⟩

/-- General addition (handles infinity, equal and opposite points). -/
def jadd (P Q : Jac) : Jac :=
  if P.z = 0 then Q else if Q.z = 0 then P else
  let z1z1 := fmul P.z P.z
  let z2z2 := fmul Q.z Q.z
  let u1 := fmul P.x z2z2
  let u2 := fmul Q.x z1z1
  let s1 := fmul P.y (fmul Q.z z2z2)
  let s2 := fmul Q.y (fmul P.z z1z1)
  if u1 = u2 then
    if s1 = s2 then jdouble P else Jac.inf
  else
    let h := fsub u2 u1
    let r := fsub s2 s1
    let hh := fmul h h
    let hhh := fmul h hh
    let v := fmul u1 hh
    let x3 := fsub (fsub (fmul r r) hhh) (fmul 2 v)
    let y3 := fsub (fmul r (fsub v x3)) (fmul s1 hhh)
    let z3 := fmul (fmul P.z Q.z) h
    ⟨x3, y3, z3⟩

/-- `curve.Add`. -/
def add (P Q : Point) : Point := toAffine (jadd (toJac P) (toJac Q))

/-- `(x, P − y)` as computed by the Go code for `AaInv` (not reduced: for
`y = 0` this is `(x, p)`). -/
def negRaw (P : Point) : Point := (P.1, p - P.2)

/-- `curve.ScalarMult(x, y, k.Bytes())` / `ScalarBaseMult` for `k < order`:
double-and-add from the top bit. -/
def smul (k : Nat) (P : Point) : Point := Id.run do
  let J := toJac P
  let mut acc := Jac.inf
  for i in [0:k.log2 + 1] do
    let bit := k.log2 - i
    acc := jdouble acc
    if k.testBit bit then acc := jadd acc J
  if k = 0 then return infinity
  return toAffine acc

end Mpc.P256

/-
MIXED histories on one IKNP pair: honest malicious-mode label calls (with the
consistency check, `Kos.runKCall`) interleaved, in any order, with the other
call kinds the same pair offers - semi-honest label calls
(`IKNPSender.Send(n, false)` / `IKNPReceiver.Receive(b, result, false)`) and
packed-bit calls (`SendBits` / `ReceiveBits`), which are `Iknp.runCallB` of
property C06 (Model/IknpBuf.lean, reused by import).

"Honest executions never abort" is a statement about every honest execution;
the per-column PRG streams `g0`/`g1` of the two parties are shared by ALL call
kinds, so whether a malicious-mode call passes its check depends on every
earlier call of every kind having advanced the streams of BOTH parties by the
same amount in ALL 128 columns (a packed-bit call only uses column 0 of the
transposed matrix but must still advance all 128 streams).  `sessionM` threads
the stream positions `RecvSt` / `SendSt` and the parties' long-lived arrays
through the whole history.  Core Lean only.
-/
import MpcVerif.Model.KosBuf
namespace Mpc.Kos
open Mpc.Iknp Mpc.Clmul

/-- One call of a mixed history. -/
inductive MCall where
  /-- `Receive(b, result, true)` / `Send(n, true)`: with the consistency check -/
  | kos (c : KCall)
  /-- a semi-honest label call or a packed-bit call (`CallB.labels false ..` /
  `CallB.bits ..`; `CallB.labels true` is the check-less view of a malicious
  call and is not used here) -/
  | plain (c : CallB)

/-- What a call produced. -/
inductive MOut where
  | kos (r : RecvOut) (sent : List Label)
  | plain (o : CallOutB)

/-- One call on the pair; `none` = panic, error return or "OT extension check
failed". -/
def runMCall (store : Store) (bs : BitStore) (X : Label → Nat → Label) (R0 R1 SS : Nat → Nat → Byte) (delta : Label)
    (rs : RecvSt) (ss : SendSt) (ar : Arena) : MCall → Option (RecvSt × SendSt × Arena × MOut)
  | .kos c =>
    match runKCall store X R0 R1 SS delta rs ss ar.labels c with
    | none => none
    | some (rs', ss', labels', r, sent) => some (rs', ss', { ar with labels := labels' }, .kos r sent)
  | .plain c =>
    match runCallB store bs R0 R1 SS delta rs ss ar c with
    | none => none
    | some (rs', ss', ar', out, _) => some (rs', ss', ar', .plain out)

/-- A mixed history on one pair and one set of arrays. -/
def sessionM (store : Store) (bs : BitStore) (X : Label → Nat → Label) (R0 R1 SS : Nat → Nat → Byte) (delta : Label) :
    RecvSt → SendSt → Arena → List MCall → Option (List MOut)
  | _, _, _, [] => some []
  | rs, ss, ar, c :: cs =>
    match runMCall store bs X R0 R1 SS delta rs ss ar c with
    | none => none
    | some (rs', ss', ar', out) => (sessionM store bs X R0 R1 SS delta rs' ss' ar' cs).map (out :: ·)

end Mpc.Kos

/-
Circuit file formats: model of
  * `circuit/marshal.go`  (`Circuit.Marshal`, `marshalIOArg`, `marshalString`,
    `Circuit.MarshalBristol`),
  * `circuit/parser.go`   (`Seen`, `ParseMPCLC`, `parseIOArg`, `parseString`,
    `ParseBristol`, `readLine`),
  * `types/types.go`      (`Info.String`, `Type.String`, `Info.Concrete`),
  * `types/parse.go`      (`Parse`),
and of the part of `bufio.Reader` / `io.ReadFull` the parsers use.

Core Lean only.  Every function is total; an array access the Go code performs
is written with an explicit bound test whose failure is the outcome `panic`
(that is what the Go runtime does), a declared size above `cap` is the outcome
`oversize` (outside the property's scope: "declared sizes at most a million").
-/
import MpcVerif.Model.Circuit

namespace Mpc
namespace Fmt

abbrev Bytes := List UInt8

/-- Outcome classes of a parser other than success.  `error`: the Go function
returns a non-nil `error`.  `panic`: a Go run-time panic (index out of range).
`oversize`: a declared count/size/length above `cap` was read (out of the
property's scope, the harness does not offer such a file to the Go code).
`fuel`: the model's recursion bound was hit (shown unreachable). -/
inductive Err where
  | error | panic | oversize | fuel
  deriving DecidableEq, Repr, Inhabited

abbrev R (α : Type) := Except Err α

/-- The property's bound on declared sizes. -/
def cap : Nat := 1000000

/-- A count, size or length field has been read from the file. -/
def declare (n : Nat) : R Unit := if cap < n then .error .oversize else .ok ()

/-! ## Big-endian 32-bit fields (`encoding/binary`, `bo = binary.BigEndian`) -/

def u32 (n : Nat) : Bytes :=
  [UInt8.ofNat (n / 16777216 % 256), UInt8.ofNat (n / 65536 % 256),
   UInt8.ofNat (n / 256 % 256), UInt8.ofNat (n % 256)]

def be32 (b : Bytes) : Nat :=
  match b with
  | [a, b, c, d] => a.toNat * 16777216 + b.toNat * 65536 + c.toNat * 256 + d.toNat
  | _ => 0

/-! ## `bufio.Reader` over an `io.Reader` that may return short reads -/

/-- Configuration of the reader stack: the `bufio` buffer size (4096 in
`bufio.NewReader`) and the read-size oracle of the underlying `io.Reader`:
`oracle req k` is the number of bytes the `k`-th call `Read(p)` with
`len(p) = req` delivers (clamped to `1..req`, and to what is left).
`bytes.Reader` and `os.File` on a regular file deliver `req`. -/
structure RdCfg where
  bufSize : Nat
  oracle  : Nat → Nat → Nat

/-- `bytes.Reader` / regular file behind `bufio.NewReader`. -/
def RdCfg.std : RdCfg := ⟨4096, fun req _ => req⟩

/-- State: bytes buffered and not yet consumed (`b.buf[b.r:b.w]`), bytes the
underlying reader has not yet delivered, number of underlying reads so far. -/
structure Rd where
  buf  : Bytes
  rest : Bytes
  k    : Nat
  deriving Repr

def Rd.init (b : Bytes) : Rd := ⟨[], b, 0⟩

/-- The logical remaining stream. -/
def Rd.all (r : Rd) : Bytes := r.buf ++ r.rest

/-- Number of bytes one underlying `Read` with `len(p) = req` delivers. -/
def RdCfg.deliver (cfg : RdCfg) (req k : Nat) : Nat := max 1 (min (cfg.oracle req k) req)

/-- `(*bufio.Reader).Read(p)` with `len(p) = n > 0`.  `none` is `(0, io.EOF)`.
Buffered data: copy what is there (at most `n`).  Empty buffer: a request of at
least `bufSize` goes straight to the underlying reader, a smaller one fills the
buffer with ONE underlying read and copies from it.  In no case is a second
underlying read made: the result may be shorter than `n`. -/
def Rd.read (cfg : RdCfg) (n : Nat) (rd : Rd) : Option (Bytes × Rd) :=
  match rd.buf with
  | [] =>
    match rd.rest with
    | [] => none
    | _ :: _ =>
      if cfg.bufSize ≤ n then
        let m := cfg.deliver n rd.k
        some (rd.rest.take m, ⟨[], rd.rest.drop m, rd.k + 1⟩)
      else
        let m := cfg.deliver cfg.bufSize rd.k
        let d := rd.rest.take m
        some (d.take n, ⟨d.drop n, rd.rest.drop m, rd.k + 1⟩)
  | _ :: _ => some (rd.buf.take n, ⟨rd.buf.drop n, rd.rest, rd.k⟩)

/-- `io.ReadFull(r, buf)` with `len(buf) = n` (used by `binary.Read`): repeat
`Read` until `n` bytes have arrived; `none` is `io.EOF`/`io.ErrUnexpectedEOF`.
First argument: recursion bound (`n` suffices, every `Read` delivers ≥ 1). -/
def Rd.readFullAux (cfg : RdCfg) : Nat → Nat → Rd → Option (Bytes × Rd)
  | _, 0, rd => some ([], rd)
  | 0, _ + 1, _ => none
  | f + 1, n + 1, rd =>
    match rd.read cfg (n + 1) with
    | none => none
    | some (d, rd') =>
      match readFullAux cfg f (n + 1 - d.length) rd' with
      | none => none
      | some (d2, rd'') => some (d ++ d2, rd'')

def Rd.readFull (cfg : RdCfg) (n : Nat) (rd : Rd) : Option (Bytes × Rd) :=
  Rd.readFullAux cfg n n rd

/-- `binary.Read(r, bo, &x)` for an `n`-byte fixed-size value. -/
def readN (cfg : RdCfg) (n : Nat) (rd : Rd) : R (Bytes × Rd) :=
  match rd.readFull cfg n with
  | none => .error .error
  | some x => .ok x

def readU32 (cfg : RdCfg) (rd : Rd) : R (Nat × Rd) :=
  match readN cfg 4 rd with
  | .error e => .error e
  | .ok (b, rd) => .ok (be32 b, rd)

/-- The two code variants of `parseString` / the gate loop.  The code in /repo
is `Fix.both` since the commits 7309cfb (gate count guard) and a93bbfc
(`io.ReadFull`); `Fix.none` is the OLD code before them, kept so that the
defects it had stay stated (Props/C14.lean, `C14_old_…`).  The harness probes
which variant it is running against and the check requires `Fix.both`. -/
structure Fix where
  /-- `parseString` uses `io.ReadFull(r, buf)` (old: one `r.Read(buf)`). -/
  readFullStrings : Bool
  /-- `ParseMPCLC` tests `gate >= len(gates)` after `ReadByte`, before the
  `switch` (old: no test). -/
  guardGates : Bool

def Fix.none : Fix := ⟨false, false⟩
def Fix.both : Fix := ⟨true, true⟩

/-- `parseString` (circuit/parser.go): length, then `io.ReadFull(r, buf)`.
Old variant: ONE `r.Read(buf)` into a zeroed buffer of that length; a short
read left the tail zero and the stream position behind. -/
def parseString (cfg : RdCfg) (fx : Fix) (rd : Rd) : R (Bytes × Rd) :=
  match readU32 cfg rd with
  | .error e => .error e
  | .ok (n, rd) =>
    match declare n with
    | .error e => .error e
    | .ok () =>
      if n = 0 then .ok ([], rd)
      else if fx.readFullStrings then
        match rd.readFull cfg n with
        | none => .error .error
        | some (d, rd) => .ok (d, rd)
      else
        match rd.read cfg n with
        | none => .error .error
        | some (d, rd) => .ok (d ++ List.replicate (n - d.length) 0, rd)

/-! ## Type information and its text form (types/types.go, types/parse.go) -/

inductive TKind where
  | undefined | bool | int | uint | float | string | struct | array | slice | ptr | nil
  deriving DecidableEq, Repr, Inhabited

/-- `types.Info` as far as `String`, `Parse` and the marshaller read or write
it.  `concrete` is the value of `Info.Concrete()` (for a struct that is "all
fields concrete", which is `true` for the field-less struct `Parse` returns).
`bits` is `Info.Bits` (`types.Size`, an int32).  Not modelled: `ID`, `MinBits`,
`Struct` (beyond `Concrete()`), `Offset`. -/
inductive Info where
  | base (k : TKind) (concrete : Bool) (bits : Int)
  | arr (slice : Bool) (size : Nat) (bits : Int) (elem : Info)
  | ptr (bits : Int) (elem : Info)
  deriving DecidableEq, Repr, Inhabited

def Info.bits : Info → Int
  | .base _ _ b => b
  | .arr _ _ b _ => b
  | .ptr b _ => b

/-- `arg.Type.Bits = types.Size(ui32)` -/
def Info.setBits (b : Int) : Info → Info
  | .base k c _ => .base k c b
  | .arr s n _ e => .arr s n b e
  | .ptr _ e => .ptr b e

/-- Decimal digits of a natural number (`%d`), most significant first. -/
def decAux : Nat → Nat → Bytes → Bytes
  | 0, _, acc => acc
  | f + 1, n, acc =>
    let acc' := UInt8.ofNat (48 + n % 10) :: acc
    if n / 10 = 0 then acc' else decAux f (n / 10) acc'

def dec (n : Nat) : Bytes := decAux (n + 1) n []

def decInt (i : Int) : Bytes :=
  if i < 0 then 45 :: dec i.natAbs else dec i.natAbs

/-- `Type.String()`: the key of the `Types` map. -/
def kindName : TKind → Bytes
  | .undefined => [60, 85, 110, 100, 101, 102, 105, 110, 101, 100, 62]  -- "<Undefined>"
  | .bool      => [98, 111, 111, 108]                                    -- "bool"
  | .int       => [105, 110, 116]                                        -- "int"
  | .uint      => [117, 105, 110, 116]                                   -- "uint"
  | .float     => [102, 108, 111, 97, 116]                               -- "float"
  | .string    => [115, 116, 114, 105, 110, 103]                         -- "string"
  | .struct    => [115, 116, 114, 117, 99, 116]                          -- "struct"
  | .array     => [97, 114, 114, 97, 121]                                -- "array"
  | .slice     => [115, 108, 105, 99, 101]                               -- "slice"
  | .ptr       => [112, 116, 114]                                        -- "ptr"
  | .nil       => [110, 105, 108]                                        -- "nil"

/-- `Info.String()`. -/
def typeString : Info → Bytes
  | .arr false n _ e => 91 :: (dec n ++ 93 :: typeString e)    -- "[%d]%s"
  | .arr true _ _ e  => 91 :: 93 :: typeString e                -- "[]%s"
  | .ptr _ e         => 42 :: typeString e                      -- "*%s"
  | .base k c b      => if c then kindName k ++ decInt b else kindName k

def isDigit (b : UInt8) : Bool := 48 ≤ b && b ≤ 57
def isAlpha (b : UInt8) : Bool := (65 ≤ b && b ≤ 90) || (97 ≤ b && b ≤ 122)

/-- Value of a string of decimal digits. -/
def digitsVal (ds : Bytes) : Nat := ds.foldl (fun acc d => acc * 10 + (d.toNat - 48)) 0

/-- `strconv.ParseInt(s, 10, 32)` on a string already known to consist of
digits only (possibly empty ↦ not called): error above `2^31-1`. -/
def parseDigits31 (ds : Bytes) : Option Nat :=
  let v := digitsVal ds
  if v < 2147483648 then some v else none

/-- int32 wrap-around of `Size(a) * b`. -/
def wrap32 (x : Int) : Int := (x + 2147483648) % 4294967296 - 2147483648

/-- Split at every `'\n'` (the pieces do not contain it). -/
def splitNL : Bytes → Bytes → List Bytes
  | [], acc => [acc.reverse]
  | b :: t, acc => if b = 10 then acc.reverse :: splitNL t [] else splitNL t (b :: acc)

/-- One line matched by `reSized = ^([[:alpha:]]+)([[:digit:]]*)$` (Go compiles
POSIX patterns without `OneLine`, so `^`/`$` are line anchors and the leftmost
match is the first *line* of the text that has this shape). -/
def sizedParts (l : Bytes) : Option (Bytes × Bytes) :=
  let al := l.takeWhile isAlpha
  let r := l.dropWhile isAlpha
  if al ≠ [] ∧ r.all isDigit then some (al, r) else none

/-- One line matched by `reArr = ^\[([[:digit:]]*)\](.+)$`. -/
def arrParts (l : Bytes) : Option (Bytes × Bytes) :=
  match l with
  | 91 :: t =>
    let dg := t.takeWhile isDigit
    match t.dropWhile isDigit with
    | 93 :: rest => if rest ≠ [] then some (dg, rest) else none
    | _ => none
  | _ => none

/-- The `switch m[1]` of `types.Parse`. -/
def kindOfName (s : Bytes) : Option TKind :=
  if s = [98] ∨ s = [98, 111, 111, 108] then some .bool                      -- b, bool
  else if s = [105] ∨ s = [105, 110, 116] then some .int                      -- i, int
  else if s = [117] ∨ s = [117, 105, 110, 116] then some .uint                -- u, uint
  else if s = [115] ∨ s = [115, 116, 114, 105, 110, 103] then some .string    -- s, string
  else if s = [115, 116, 114, 117, 99, 116] then some .struct                 -- struct
  else none

/-- `types.Parse`.  `none` is a non-nil error.  The first argument bounds the
recursion on the element type (`val.length + 1` suffices: the element text is
strictly shorter). -/
def typeParseAux : Nat → Bytes → Option Info
  | 0, _ => none
  | f + 1, val =>
    if val = [98] ∨ val = [98, 111, 111, 108] then some (.base .bool true 1)   -- "b", "bool"
    else if val = [98, 121, 116, 101] then some (.base .uint true 8)            -- "byte"
    else if val = [114, 117, 110, 101] then some (.base .int true 32)           -- "rune"
    else
      let ls := splitNL val []
      match ls.findSome? sizedParts with
      | some (al, dg) =>
        match kindOfName al with
        | none => none
        | some k =>
          if dg = [] then some (.base k (k == .struct) 0)
          else
            match parseDigits31 dg with
            | none => none
            | some b => some (.base k true b)
      | none =>
        match ls.findSome? arrParts with
        | none => none
        | some (dg, rest) =>
          match typeParseAux f rest with
          | none => none
          | some el =>
            if dg = [] then some (.arr true 0 0 el)
            else
              match parseDigits31 dg with
              | none => none
              | some n => some (.arr false n (wrap32 (n * el.bits)) el)

def typeParse (val : Bytes) : Option Info := typeParseAux (val.length + 1) val

/-! ## Circuit files -/

/-- `circuit.IOArg`. -/
inductive IOArg where
  | mk (name : Bytes) (ty : Info) (compound : List IOArg)
  deriving Repr, Inhabited

def IOArg.name : IOArg → Bytes | .mk n _ _ => n
def IOArg.ty : IOArg → Info | .mk _ t _ => t
def IOArg.compound : IOArg → List IOArg | .mk _ _ c => c

/-- The fields of `circuit.Circuit` the two file formats carry. -/
structure PCircuit where
  numGates : Nat
  numWires : Nat
  inputs   : List IOArg
  outputs  : List IOArg
  gates    : List Gate
  deriving Repr, Inhabited

/-- `IO.Size()`: sum of the top-level `Type.Bits`. -/
def ioSize (io : List IOArg) : Int := (io.map fun a => a.ty.bits).foldl (· + ·) 0

/-- The circuit of Model/Circuit.lean (what `Garble`/`Eval`/`Compute` use). -/
def PCircuit.toCircuit (c : PCircuit) : Circuit :=
  { numWires := c.numWires, nIn := (ioSize c.inputs).toNat, nOut := (ioSize c.outputs).toNat,
    gates := c.gates }

def opCode : Op → UInt8
  | .xor => 0 | .xnor => 1 | .and => 2 | .or => 3 | .inv => 4

def opOfCode (b : UInt8) : Option Op :=
  if b = 0 then some .xor else if b = 1 then some .xnor else if b = 2 then some .and
  else if b = 3 then some .or else if b = 4 then some .inv else none

/-! ### `Circuit.Marshal` -/

/-- `uint32(x)` of a Go `int`/`Size`. -/
def u32i (i : Int) : Bytes := u32 (i % 4294967296).toNat

def marshalString (s : Bytes) : Bytes := u32 s.length ++ s

mutual
/-- `marshalIOArg`. -/
def marshalIOArg : IOArg → Bytes
  | .mk name ty comp =>
    marshalString name ++ (marshalString (typeString ty) ++ (u32i ty.bits ++
      (u32 comp.length ++ marshalIOArgs comp)))
def marshalIOArgs : List IOArg → Bytes
  | [] => []
  | a :: as => marshalIOArg a ++ marshalIOArgs as
end

def marshalGate (g : Gate) : Bytes :=
  match g.op with
  | .inv => opCode g.op :: (u32 g.in0 ++ u32 g.out)
  | _ => opCode g.op :: (u32 g.in0 ++ (u32 g.in1 ++ u32 g.out))

def marshalGates : List Gate → Bytes
  | [] => []
  | g :: gs => marshalGate g ++ marshalGates gs

/-- `MAGIC = 0x63726300`. -/
def magic : Nat := 0x63726300

/-- `Circuit.Marshal`. -/
def marshal (c : PCircuit) : Bytes :=
  u32 magic ++ (u32 c.numGates ++ (u32 c.numWires ++ (u32 c.inputs.length ++ (u32 c.outputs.length ++
    (marshalIOArgs c.inputs ++ (marshalIOArgs c.outputs ++ marshalGates c.gates))))))

/-! ### `ParseMPCLC` -/

mutual
/-- `parseIOArg`.  First argument: recursion bound (every call consumes at
least 16 bytes, so the stream length suffices). -/
def parseIOArg (cfg : RdCfg) (fx : Fix) : Nat → Rd → R (IOArg × Rd)
  | 0, _ => .error .fuel
  | f + 1, rd =>
    match parseString cfg fx rd with
    | .error e => .error e
    | .ok (name, rd) =>
      match parseString cfg fx rd with
      | .error e => .error e
      | .ok (t, rd) =>
        match readU32 cfg rd with
        | .error e => .error e
        | .ok (bits, rd) =>
          match declare bits with
          | .error e => .error e
          | .ok () =>
            match typeParse t with
            | none => .error .error
            | some ty =>
              match readU32 cfg rd with
              | .error e => .error e
              | .ok (nc, rd) =>
                match declare nc with
                | .error e => .error e
                | .ok () =>
                  match parseIOArgs cfg fx f nc rd with
                  | .error e => .error e
                  | .ok (comp, rd) => .ok (.mk name (ty.setBits bits) comp, rd)
/-- The loops `for i := 0; i < int(n); i++ { parseIOArg }`. -/
def parseIOArgs (cfg : RdCfg) (fx : Fix) : Nat → Nat → Rd → R (List IOArg × Rd)
  | _, 0, rd => .ok ([], rd)
  | 0, _ + 1, _ => .error .fuel
  | f + 1, n + 1, rd =>
    match parseIOArg cfg fx f rd with
    | .error e => .error e
    | .ok (a, rd) =>
      match parseIOArgs cfg fx f n rd with
      | .error e => .error e
      | .ok (as, rd) => .ok (a :: as, rd)
end

/-- `Seen.Get`: error outside `[0, len)`. -/
def seenGet (s : Store Bool) (w : Nat) : R Bool :=
  if w < s.size then .ok (s.get w) else .error .error

/-- `Seen.Set`. -/
def seenSet (s : Store Bool) (w : Nat) : R (Store Bool) :=
  if w < s.size then .ok (s.set w true) else .error .error

/-- The wire must be in range and already seen. -/
def needSeen (s : Store Bool) (w : Nat) : R Unit :=
  match seenGet s w with
  | .error e => .error e
  | .ok b => if b then .ok () else .error .error

/-- `make(Seen, numWires)` followed by the "mark input wires seen" loop. -/
def seenInit (nw : Nat) (inputWires : Int) : R (Store Bool) :=
  if (nw : Int) < inputWires then .error .error
  else .ok ((Array.range nw).map fun (i : Nat) => decide ((i : Int) < inputWires))

/-- The gate loop of `ParseMPCLC`, one record per iteration, starting at gate
index `gate`.  Returns the gates read and the final seen-set; the caller
compares the count with the header.  The store `gates[gate] = …` into the slice
of length `ng` is the bound test that yields `panic`; the "too many gates" test
in front of it makes it unreachable (old variant: no such test).  First argument:
recursion bound (every iteration consumes ≥ 1 byte). -/
def gateLoop (cfg : RdCfg) (fx : Fix) (ng : Nat) : Nat → Nat → Store Bool → Rd → R (List Gate × Store Bool)
  | 0, _, _, _ => .error .fuel
  | f + 1, gate, seen, rd =>
    match rd.read cfg 1 with            -- r.ReadByte()
    | none => .ok ([], seen)            -- io.EOF: break
    | some (opb, rd) =>
      if fx.guardGates ∧ ng ≤ gate then .error .error else
      match opOfCode (opb.headD 0) with
      | none => .error .error           -- unsupported gate type
      | some .inv =>
        match readN cfg 8 rd with
        | .error e => .error e
        | .ok (b, rd) =>
          let in0 := be32 (b.take 4)
          let out := be32 (b.drop 4)
          match needSeen seen in0 with
          | .error e => .error e
          | .ok () =>
            match seenSet seen out with
            | .error e => .error e
            | .ok seen =>
              if ng ≤ gate then .error .panic else
              match gateLoop cfg fx ng f (gate + 1) seen rd with
              | .error e => .error e
              | .ok (gs, seen) => .ok (⟨.inv, in0, 0, out⟩ :: gs, seen)
      | some op =>
        match readN cfg 12 rd with
        | .error e => .error e
        | .ok (b, rd) =>
          let in0 := be32 (b.take 4)
          let in1 := be32 ((b.drop 4).take 4)
          let out := be32 (b.drop 8)
          match needSeen seen in0 with
          | .error e => .error e
          | .ok () =>
            match needSeen seen in1 with
            | .error e => .error e
            | .ok () =>
              match seenSet seen out with
              | .error e => .error e
              | .ok seen =>
                if ng ≤ gate then .error .panic else
                match gateLoop cfg fx ng f (gate + 1) seen rd with
                | .error e => .error e
                | .ok (gs, seen) => .ok (⟨op, in0, in1, out⟩ :: gs, seen)

/-- "Check that all wires are seen." -/
def allSeen (s : Store Bool) : Bool := s.all id

/-- `ParseMPCLC` on the byte string `bytes` delivered through the reader stack
`cfg`.  The magic number is read and ignored (as in the Go code). -/
def parseMPCLC (cfg : RdCfg) (fx : Fix) (bytes : Bytes) : R PCircuit :=
  let fuel := bytes.length + 1
  match readN cfg 20 (Rd.init bytes) with
  | .error e => .error e
  | .ok (h, rd) =>
    let ng := be32 ((h.drop 4).take 4)
    let nw := be32 ((h.drop 8).take 4)
    let ni := be32 ((h.drop 12).take 4)
    let no := be32 ((h.drop 16).take 4)
    match declare ng, declare nw, declare ni, declare no with
    | .ok (), .ok (), .ok (), .ok () =>
      match parseIOArgs cfg fx fuel ni rd with
      | .error e => .error e
      | .ok (inputs, rd) =>
        match parseIOArgs cfg fx fuel no rd with
        | .error e => .error e
        | .ok (outputs, rd) =>
          match seenInit nw (ioSize inputs) with
          | .error e => .error e
          | .ok seen =>
            match gateLoop cfg fx ng fuel 0 seen rd with
            | .error e => .error e
            | .ok (gates, seen) =>
              if gates.length ≠ ng then .error .error
              else if ¬ allSeen seen then .error .error
              else .ok ⟨ng, nw, inputs, outputs, gates⟩
    | _, _, _, _ => .error .oversize

/-! ### Bristol format -/

def isAsciiSpace (b : UInt8) : Bool :=
  b = 9 || b = 10 || b = 11 || b = 12 || b = 13 || b = 32

/-- Leading part of `strings.TrimSpace`: ASCII white space and the UTF-8
encodings of U+0085, U+00A0, U+1680, U+2000–U+200A, U+2028, U+2029, U+202F,
U+205F, U+3000 (`unicode.IsSpace`); any other byte sequence (including invalid
UTF-8, which decodes to U+FFFD) stops the trimming. -/
def trimLeft : Bytes → Bytes
  | [] => []
  | a :: t =>
    if isAsciiSpace a then trimLeft t
    else
      match t with
      | b :: t2 =>
        if a = 0xC2 ∧ (b = 0x85 ∨ b = 0xA0) then trimLeft t2
        else
          match t2 with
          | c :: t3 =>
            if (a = 0xE1 ∧ b = 0x9A ∧ c = 0x80) ∨
               (a = 0xE2 ∧ b = 0x80 ∧ ((0x80 ≤ c ∧ c ≤ 0x8A) ∨ c = 0xA8 ∨ c = 0xA9 ∨ c = 0xAF)) ∨
               (a = 0xE2 ∧ b = 0x81 ∧ c = 0x9F) ∨
               (a = 0xE3 ∧ b = 0x80 ∧ c = 0x80) then trimLeft t3
            else a :: t
          | [] => a :: t
      | [] => a :: t

/-- Trailing part of `strings.TrimSpace`, on the reversed line. -/
def trimLeftRev : Bytes → Bytes
  | [] => []
  | a :: t =>
    if isAsciiSpace a then trimLeftRev t
    else
      match t with
      | b :: t2 =>
        if b = 0xC2 ∧ (a = 0x85 ∨ a = 0xA0) then trimLeftRev t2
        else
          match t2 with
          | c :: t3 =>
            if (c = 0xE1 ∧ b = 0x9A ∧ a = 0x80) ∨
               (c = 0xE2 ∧ b = 0x80 ∧ ((0x80 ≤ a ∧ a ≤ 0x8A) ∨ a = 0xA8 ∨ a = 0xA9 ∨ a = 0xAF)) ∨
               (c = 0xE2 ∧ b = 0x81 ∧ a = 0x9F) ∨
               (c = 0xE3 ∧ b = 0x80 ∧ a = 0x80) then trimLeftRev t3
            else a :: t
          | [] => a :: t
      | [] => a :: t

def trimSpace (l : Bytes) : Bytes := (trimLeftRev (trimLeft l).reverse).reverse

/-- `reParts.Split(line, -1)` with `reParts = [[:space:]]+` on a trimmed,
non-empty line: the maximal runs of non-space bytes. -/
def tokenize : Bytes → Bytes → List Bytes
  | [], acc => if acc = [] then [] else [acc.reverse]
  | b :: t, acc =>
    if isAsciiSpace b then (if acc = [] then tokenize t [] else acc.reverse :: tokenize t [])
    else tokenize t (b :: acc)

/-- The `'\n'`-terminated lines (`r.ReadString('\n')`); an unterminated tail is
returned together with `io.EOF`, which `readLine` turns into an error/EOF, so it
is never looked at. -/
def termLines : Bytes → Bytes → List Bytes
  | [], _ => []
  | b :: t, acc => if b = 10 then acc.reverse :: termLines t [] else termLines t (b :: acc)

/-- All results of successive `readLine` calls: trimmed, non-empty, split. -/
def readLines (bytes : Bytes) : List (List Bytes) :=
  (termLines bytes []).filterMap fun l =>
    let t := trimSpace l
    if t = [] then none
    else (let parts := tokenize t []; if parts = [] then none else some parts)

/-- Sign and digits of `strconv.Atoi` / `ParseInt(s, 10, _)`. -/
def signedDec (s : Bytes) : Option Int :=
  match s with
  | [] => none
  | c :: t =>
    if c = 43 then (if t ≠ [] ∧ t.all isDigit then some (digitsVal t) else none)
    else if c = 45 then (if t ≠ [] ∧ t.all isDigit then some (-(digitsVal t : Int)) else none)
    else if s.all isDigit then some (digitsVal s) else none

/-- `strconv.Atoi` (64-bit `int`). -/
def atoi (s : Bytes) : Option Int :=
  match signedDec s with
  | none => none
  | some v => if -9223372036854775808 ≤ v ∧ v ≤ 9223372036854775807 then some v else none

/-- `strconv.ParseInt(s, 10, 32)`. -/
def parseInt32 (s : Bytes) : Option Int :=
  match signedDec s with
  | none => none
  | some v => if -2147483648 ≤ v ∧ v ≤ 2147483647 then some v else none

/-- `strconv.ParseUint(s, 10, 32)` (no sign allowed). -/
def parseUint32 (s : Bytes) : Option Nat :=
  if s ≠ [] ∧ s.all isDigit then
    (let v := digitsVal s; if v < 4294967296 then some v else none)
  else none

/-- Operation names. -/
def opName : Op → Bytes
  | .xor => [88, 79, 82] | .xnor => [88, 78, 79, 82] | .and => [65, 78, 68]
  | .or => [79, 82] | .inv => [73, 78, 86]

def opOfName (s : Bytes) : Option Op :=
  if s = [88, 79, 82] then some .xor else if s = [88, 78, 79, 82] then some .xnor
  else if s = [65, 78, 68] then some .and else if s = [79, 82] then some .or
  else if s = [73, 78, 86] then some .inv else none

/-- `fmt.Sprintf("NI%d", i)` / `"NO%d"`. -/
def ioName (o : Bool) (i : Nat) : Bytes := 78 :: (if o then 79 else 73) :: dec i

def uintArg (o : Bool) (i : Nat) (bits : Int) : IOArg := .mk (ioName o i) (.base .uint true bits) []

/-- The `bits` tokens of the inputs/outputs line, numbered from `i`. -/
def bristolArgs (o : Bool) : Nat → List Bytes → R (List IOArg)
  | _, [] => .ok []
  | i, t :: ts =>
    match parseInt32 t with
    | none => .error .error
    | some b =>
      if b < 0 then .error .error
      else
        match bristolArgs o (i + 1) ts with
        | .error e => .error e
        | .ok as => .ok (uintArg o i b :: as)

/-- The loop over the `n1` input wires of a gate line: `line[2+i]` is an
indexing (bound test ↦ `panic`), `ParseUint`, `Seen.Get`, must be seen. -/
def bristolIns (line : List Bytes) (seen : Store Bool) : Nat → Nat → R (List Nat)
  | 0, _ => .ok []
  | n + 1, i =>
    match line[i]? with
    | none => .error .panic
    | some t =>
      match parseUint32 t with
      | none => .error .error
      | some v =>
        match needSeen seen v with
        | .error e => .error e
        | .ok () =>
          match bristolIns line seen n (i + 1) with
          | .error e => .error e
          | .ok vs => .ok (v :: vs)

/-- The loop over the `n2` output wires: `ParseUint`, `Seen.Set`. -/
def bristolOuts (line : List Bytes) : Nat → Nat → Store Bool → R (List Nat × Store Bool)
  | 0, _, seen => .ok ([], seen)
  | n + 1, i, seen =>
    match line[i]? with
    | none => .error .panic
    | some t =>
      match parseUint32 t with
      | none => .error .error
      | some v =>
        match seenSet seen v with
        | .error e => .error e
        | .ok seen =>
          match bristolOuts line n (i + 1) seen with
          | .error e => .error e
          | .ok (vs, seen) => .ok (v :: vs, seen)

/-- One gate line of `ParseBristol`. -/
def bristolGate (line : List Bytes) (seen : Store Bool) : R (Gate × Store Bool) :=
  if line.length < 3 then .error .error else
  match line[0]?, line[1]? with
  | some t0, some t1 =>
    match atoi t0 with
    | none => .error .error
    | some n1 =>
      if n1 < 0 then .error .error else
      match atoi t1 with
      | none => .error .error
      | some n2 =>
        if n2 < 0 then .error .error else
        if 2 + n1 + n2 + 1 ≠ (line.length : Int) then .error .error else
        match bristolIns line seen n1.toNat 2 with
        | .error e => .error e
        | .ok ins =>
          match bristolOuts line n2.toNat (2 + n1.toNat) seen with
          | .error e => .error e
          | .ok (outs, seen) =>
            match line[line.length - 1]? with
            | none => .error .panic
            | some nm =>
              match opOfName nm with
              | none => .error .error
              | some op =>
                if ins.length ≠ (if op.binary then 2 else 1) then .error .error
                else if outs.length ≠ 1 then .error .error
                else
                  match ins[0]?, outs[0]? with
                  | some i0, some o0 => .ok (⟨op, i0, if 1 < ins.length then ins.getD 1 0 else 0, o0⟩, seen)
                  | _, _ => .error .panic
  | _, _ => .error .panic

/-- The gate loop of `ParseBristol`; `gates[gate] = …` is guarded by the
"too many gates" test. -/
def bristolGates (ng : Nat) : List (List Bytes) → Nat → Store Bool → R (List Gate × Store Bool)
  | [], _, seen => .ok ([], seen)
  | line :: ls, gate, seen =>
    if ng ≤ gate then .error .error       -- "too many gates"
    else
      match bristolGate line seen with
      | .error e => .error e
      | .ok (g, seen) =>
        if ng ≤ gate then .error .panic else     -- gates[gate] = …
        match bristolGates ng ls (gate + 1) seen with
        | .error e => .error e
        | .ok (gs, seen) => .ok (g :: gs, seen)

/-- `ParseBristol`. -/
def parseBristol (bytes : Bytes) : R PCircuit :=
  match readLines bytes with
  | l1 :: rest1 =>
    if l1.length ≠ 2 then .error .error else
    match l1[0]?, l1[1]? with
    | some t0, some t1 =>
      match atoi t0 with
      | none => .error .error
      | some ng =>
        if ng < 0 ∨ 2147483647 < ng then .error .error else
        match declare ng.toNat with
        | .error e => .error e
        | .ok () =>
        match atoi t1 with
        | none => .error .error
        | some nw =>
          if nw < 0 ∨ 2147483647 < nw then .error .error else
          match declare nw.toNat with
          | .error e => .error e
          | .ok () =>
          match rest1 with
          | [] => .error .error
          | l2 :: rest2 =>
            match l2 with
            | [] => .error .panic             -- line[0]
            | t :: bitsI =>
              match atoi t with
              | none => .error .error
              | some niv =>
                if 1 + niv ≠ (l2.length : Int) then .error .error else
                match bristolArgs false 1 bitsI with
                | .error e => .error e
                | .ok inputs =>
                  if ioSize inputs = 0 then .error .error else     -- "no inputs defined"
                  match seenInit nw.toNat (ioSize inputs) with
                  | .error e => .error e
                  | .ok seen =>
                    match rest2 with
                    | [] => .error .error
                    | l3 :: rest3 =>
                      match l3 with
                      | [] => .error .panic
                      | t :: bitsO =>
                        match atoi t with
                        | none => .error .error
                        | some nov =>
                          if 1 + nov ≠ (l3.length : Int) then .error .error else
                          match bristolArgs true 1 bitsO with
                          | .error e => .error e
                          | .ok outputs =>
                            match bristolGates ng.toNat rest3 0 seen with
                            | .error e => .error e
                            | .ok (gates, seen) =>
                              if gates.length ≠ ng.toNat then .error .error
                              else if ¬ allSeen seen then .error .error
                              else .ok ⟨ng.toNat, nw.toNat, inputs, outputs, gates⟩
    | _, _ => .error .panic
  | [] => .error .error

/-! ### `Circuit.MarshalBristol` -/

def sp : UInt8 := 32
def nl : UInt8 := 10

def bristolBits : List IOArg → Bytes
  | [] => []
  | a :: as => sp :: (decInt a.ty.bits ++ bristolBits as)

def marshalBristolGate (g : Gate) : Bytes :=
  match g.op with
  | .inv => 49 :: sp :: 49 :: sp :: (dec g.in0 ++ sp :: (dec g.out ++ sp :: (opName g.op ++ [nl])))
  | _ => 50 :: sp :: 49 :: sp :: (dec g.in0 ++ sp :: (dec g.in1 ++ sp :: (dec g.out ++ sp :: (opName g.op ++ [nl]))))

def marshalBristolGates : List Gate → Bytes
  | [] => []
  | g :: gs => marshalBristolGate g ++ marshalBristolGates gs

/-- `Circuit.MarshalBristol`. -/
def marshalBristol (c : PCircuit) : Bytes :=
  dec c.numGates ++ sp :: (dec c.numWires ++ nl ::
    (dec c.inputs.length ++ (bristolBits c.inputs ++ nl ::
      (dec c.outputs.length ++ (bristolBits c.outputs ++ nl :: nl :: marshalBristolGates c.gates)))))

end Fmt
end Mpc

/-
The execution ENVIRONMENT as a parameter of "every execution" (property C18).
Core Lean only.

The Go round functions (sha2pc.GarblerRound1/3, EvaluatorRound2/4) are modelled
as PURE functions of (inputs, randomness, messages): `Rounds`, `SessCfg.rounds`
and everything proved about them have no environment parameter.  The real
functions run inside a Go runtime that is configured from outside the program
-- number of CPUs / GOMAXPROCS (a container CPU limit), collector setting
(GOGC), word size of the build -- and may consult it (runtime.GOMAXPROCS,
runtime.NumCPU, goroutines whose number depends on it, sync.Pool).  The
property quantifies over every execution, and a process restarted between two
rounds may come up in another environment.

This file makes the parameter explicit.  An IMPLEMENTATION is a family of round
functions indexed by the environment (`EnvCfg`); a history assigns an
environment to every single step (`EvE`), so that the environment may change
between any two rounds of any session; `Proc.runE` runs such a history on an
implementation.  The model of the rounds is the CONSTANT family
(`EnvCfg.const`): that is the explicit statement that the model has no
environment parameter.  Proofs/Sha2pcEnv.lean: if the implementation agrees
with the model in every environment that occurs in the history, the history is
the environment-free history `Proc.runD`, to which all theorems of Props/C18
apply.  That hypothesis is the ASSUMPTION about the real code; its tie is the
`env` mode of the harness (op `histe`): the same histories executed on the
real code with GOMAXPROCS / the collector set around every step, status and
process state after every step compared with `Proc.runE` of the constant
family.
-/
import MpcVerif.Model.Sha2pcProc

namespace Mpc.Sha2pc

/-- What the Go runtime is configured with while one round function runs. -/
structure Env where
  /-- GOMAXPROCS: the number of CPUs the process may use (what
  `runtime.GOMAXPROCS(0)` returns; `runtime.NumCPU` in a fresh process) -/
  procs : Nat
  /-- the collector setting GOGC in percent, `none` = off -/
  gc : Option Nat
  /-- word size of the build in bits (`strconv.IntSize`) -/
  wordBits : Nat
  deriving Repr, DecidableEq

/-- An implementation of the sessions' rounds: what is computed may depend on
the environment the step runs in. -/
abbrev EnvCfg (T : Ty) := Env → Cfg T

/-- The implementation that does not look at its environment. -/
def EnvCfg.const {T : Ty} (cfg : Cfg T) : EnvCfg T := fun _ => cfg

/-- One event of a history together with the environment it runs in. -/
structure EvE where
  ev : Ev
  env : Env
  deriving Repr, DecidableEq

/-- outcome of one step run in its environment -/
def Proc.stepResE {T : Ty} (impl : EnvCfg T) (st : Proc T) (e : EvE) : Option (Res (Sess T)) :=
  Proc.stepResD (impl e.env) st e.ev

/-- One step: the round functions are those of the step's environment. -/
def Proc.stepE {T : Ty} (impl : EnvCfg T) (st : Proc T) (e : EvE) : Proc T :=
  Proc.stepD (impl e.env) st e.ev

/-- A history in which every step has its own environment. -/
def Proc.runE {T : Ty} (impl : EnvCfg T) (st : Proc T) (sched : List EvE) : Proc T :=
  sched.foldl (Proc.stepE impl) st

/-- the events of the history without their environments -/
def eraseEnv (sched : List EvE) : List Ev := sched.map (·.ev)

/-- The implementation computes what the model computes in every environment
that occurs in the history.  (The assumption about the real code; decided on
the sampled environments by the `env` mode.) -/
def EnvCfg.AgreesOn {T : Ty} (impl : EnvCfg T) (cfg : Cfg T) (sched : List EvE) : Prop :=
  ∀ e ∈ sched, impl e.env = cfg

/-- The implementation does not depend on its environment at all. -/
def EnvCfg.Indep {T : Ty} (impl : EnvCfg T) : Prop := ∀ e e' : Env, impl e = impl e'

/-! ### a shape of environment dependence: work split over the CPUs

`splitMap w f dflt xs`: the items are processed by `w` workers, worker `k`
taking the `xs.length / w` consecutive items from `k * (xs.length / w)`; items
no worker takes keep the default value (a result slice allocated up front).
With the worker count taken from the environment this is a function of the
environment; it is the plain `map` exactly when no item is left over. -/

def splitMap {α β : Type} (w : Nat) (f : α → β) (dflt : β) (xs : List α) : List β :=
  let chunk := xs.length / w
  (xs.take (w * chunk)).map f ++ List.replicate (xs.length - w * chunk) dflt

end Mpc.Sha2pc

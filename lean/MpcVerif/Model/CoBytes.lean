/-
Byte-level model of the Chou-Orlandi OT protocol object `ot.CO`
(/repo/ot/co.go: InitSender/InitReceiver/Send/Receive on top of the helpers of
/repo/ot/co_helpers.go) over a `p2p.Conn`, on P-256.  Core Lean only.

It is the generic model `Co.senderSetupO / choicePointO / encryptO / decryptO`
(the functions the theorems C06_co_delivers and C06_iknp_over_co are about)
instantiated with
  * the P-256 operations of Model/P256.lean (`p256Ops`),
  * `valid := P256.onCurve` (`ensureOnCurve`),
  * `kdf := deriveMask` = first 16 bytes of SHA-256(x.Bytes() ‖ y.Bytes() ‖ be64 idx),
plus what only exists at the byte level: `crypto/rand.Int` on the parties'
random tapes, `big.Int.Bytes()` encodings, and the `SendData` framing of
`p2p.Conn` (4-byte big-endian length, then the bytes).  The driver prints the
two byte streams and the receiver's labels; the harness records the same from
the real code.
-/
import MpcVerif.Model.Co
import MpcVerif.Model.P256
import MpcVerif.Model.Sha256

namespace Mpc.CoBytes
open Mpc.Iknp (Label)

def p256Ops : Co.Ops P256.Point :=
  { add := P256.add, neg := P256.negRaw, zero := P256.infinity, smul := P256.smul }

/-- `big.Int.Bytes()`: minimal big-endian encoding (empty for 0). -/
def natBytes (n : Nat) : ByteArray := Id.run do
  let len := if n = 0 then 0 else n.log2 / 8 + 1
  let mut o := ByteArray.emptyWithCapacity len
  for i in [0:len] do
    o := o.push (UInt8.ofNat ((n >>> (8 * (len - 1 - i))) % 256))
  return o

/-- `big.Int.SetBytes`. -/
def beNat (b : ByteArray) : Nat := b.foldl (fun n x => n * 256 + x.toNat) 0

def beFixed (width n : Nat) : ByteArray := Id.run do
  let mut o := ByteArray.emptyWithCapacity width
  for i in [0:width] do
    o := o.push (UInt8.ofNat ((n >>> (8 * (width - 1 - i))) % 256))
  return o

/-- `deriveMask(x, y, id)`. -/
def deriveMask (P : P256.Point) (idx : Nat) : ByteArray :=
  Sha256.sum256 (natBytes P.1 ++ natBytes P.2 ++ beFixed 8 idx)

/-- The 16 mask bytes that meet the label, as a label. -/
def kdf (P : P256.Point) (idx : Nat) : Label :=
  BitVec.ofNat 128 (beNat ((deriveMask P idx).extract 0 16))

/-- `p2p.Conn.SendData`. -/
def frame (b : ByteArray) : ByteArray := beFixed 4 b.size ++ b

def labelBytes (l : Label) : ByteArray := beFixed 16 l.toNat

/-- `crypto/rand.Int(tape, N)` for the 256-bit group order: 32-byte candidates
until one is `< N`.  Returns the value and the new tape position; `none` when
the tape is exhausted. -/
def randInt (tape : ByteArray) : Nat → Nat → Option (Nat × Nat)
  | 0, _ => none
  | fuel + 1, pos =>
    if tape.size < pos + 32 then none
    else
      let v := beNat (tape.extract pos (pos + 32))
      if v < P256.order then some (v, pos + 32) else randInt tape fuel (pos + 32)

/-- Reads one `SendData` frame; `none` when the stream is short. -/
def readFrame (s : ByteArray) (pos : Nat) : Option (ByteArray × Nat) :=
  if s.size < pos + 4 then none
  else
    let len := beNat (s.extract pos (pos + 4))
    if s.size < pos + 4 + len then none else some (s.extract (pos + 4) (pos + 4 + len), pos + 4 + len)

structure Batch where
  flags : Array Bool
  wires : Array Co.Wire

structure State where
  s2r : ByteArray      -- everything the sender wrote
  r2s : ByteArray      -- everything the receiver wrote
  spos : Nat           -- sender's tape position
  rpos : Nat           -- receiver's tape position
  outs : List (List Label)

/-- Draw the receiver's scalars for `n` transfers. -/
def drawScalars (rtape : ByteArray) : Nat → Nat → Option (List Nat × Nat)
  | 0, pos => some ([], pos)
  | n + 1, pos =>
    match randInt rtape (rtape.size / 32 + 1) pos with
    | none => none
    | some (b, pos') =>
      match drawScalars rtape n pos' with
      | none => none
      | some (bs, pos'') => some (b :: bs, pos'')

/-- One `CO.Send(wires)` / `CO.Receive(flags, result)` pair.  `none` = one of
the parties returns an error (the state then holds what was written so far). -/
def batch (stape rtape : ByteArray) (st : State) (b : Batch) : State × Bool :=
  let n := b.flags.size
  -- sender: GenerateCOSenderSetup, send A
  match randInt stape (stape.size / 32 + 1) st.spos with
  | none => (st, false)
  | some (a, spos) =>
    let setup := Co.senderSetupO p256Ops P256.gen a
    let st := { st with spos := spos,
                        s2r := st.s2r ++ frame (natBytes setup.A.1) ++ frame (natBytes setup.A.2) }
    -- receiver: ReceiveBigInt x2 (the coordinates as sent), BuildCOChoices
    let A : P256.Point := (beNat (natBytes setup.A.1), beNat (natBytes setup.A.2))
    if !P256.onCurve A then (st, false) else
    match drawScalars rtape n st.rpos with
    | none => (st, false)
    | some (scalars, rpos) =>
      let sc := fun i => scalars.getD i 0
      let bits := fun i => b.flags.getD i false
      let point := fun i => Co.choicePointO p256Ops P256.gen A (sc i) (bits i)
      let r2s := (List.range n).foldl
        (fun acc i => acc ++ frame (natBytes (point i).1) ++ frame (natBytes (point i).2)) st.r2s
      let st := { st with rpos := rpos, r2s := r2s }
      -- sender: reads the points back (SetBytes), EncryptCOCiphertexts
      let rpoint := fun i => ((beNat (natBytes (point i).1), beNat (natBytes (point i).2)) : P256.Point)
      match Co.encryptO p256Ops P256.onCurve kdf setup n rpoint (fun i => b.wires.getD i (0#128, 0#128)) with
      | none => (st, false)
      | some cts =>
        let s2r := cts.foldl (fun acc ct => acc ++ frame (labelBytes ct.1) ++ frame (labelBytes ct.2)) st.s2r
        let st := { st with s2r := s2r }
        -- receiver: DecryptCOCiphertexts
        match Co.decryptO p256Ops P256.onCurve kdf A n sc bits cts with
        | none => (st, false)
        | some labels => ({ st with outs := st.outs ++ [labels] }, true)

def batches (stape rtape : ByteArray) : State → List Batch → State × Bool
  | st, [] => (st, true)
  | st, b :: bs =>
    match batch stape rtape st b with
    | (st', true) => batches stape rtape st' bs
    | (st', false) => (st', false)

/-- A whole session: `InitSender` sends the curve name, then the batches. -/
def session (stape rtape : ByteArray) (bs : List Batch) : State × Bool :=
  batches stape rtape
    { s2r := frame "P-256".toUTF8, r2s := ByteArray.empty, spos := 0, rpos := 0, outs := [] } bs

end Mpc.CoBytes

/-
Ownership protocol of the per-circuit garbling scratch pool: model of
`Circuit.garbleScratchPool`, `Circuit.Garble`, `Garbled.Release`
(circuit/garble.go), of the field `Circuit.garblePool`
(circuit/circuit.go, an `atomic.Pointer[sync.Pool]`) and of the way
`Circuit.Eval` (circuit/eval.go) and `Circuit.Compute` (circuit/computer.go)
touch shared state (they do not write any).

Goroutines are threads with a program counter; one `step?` is one atomic
action on the shared state.  `atomic.Pointer` (Load / CompareAndSwap) and
`sync.Pool` (Get / Put) are taken as linearizable objects: each of their
operations is one step.  Everything else a goroutine does between two such
operations touches only memory it owns; the writes of `Garble` into the
scratch it holds are nevertheless modelled as separate steps so that every
interleaving of other goroutines with a half-written scratch is covered.

The model is generic in the contents of a scratch buffer (`Mem`) and in what a
Garble call writes (`Params.prog`: the list of writes of the call with tape
and key `j`, each a function of the scratch's own current contents only — this
is the structural fact "Garble writes only through scratch.wires/slab/gates"
that `checks/C17.py` re-extracts from the Go source on every run).
Core Lean only.
-/
namespace Mpc.Pool

abbrev Tid := Nat
abbrev PoolId := Nat
abbrev ScratchId := Nat
abbrev HandleId := Nat

/-- Point update of a map. -/
def upd {α : Type} (f : Nat → α) (i : Nat) (v : α) : Nat → α :=
  fun x => if x = i then v else f x

/-- What the sequential code does to a scratch buffer.
`fresh` is what the pool's `New` returns (`make`d, zeroed buffers);
`prog j` is the sequence of writes of one `Garble(rand, key)` call whose random
tape and key are `j` (input-wire loop, then one write per gate: `wires[out]`,
`slab[...]`, `gates[i]`). -/
structure Params (Mem Job : Type) where
  fresh : Mem
  prog  : Job → List (Mem → Mem)

/-- Contents after the first `k` writes of job `j`, starting from `m`. -/
def runFrom {Mem Job : Type} (P : Params Mem Job) (j : Job) (k : Nat) (m : Mem) : Mem :=
  ((P.prog j).take k).foldl (fun m f => f m) m

/-- The single-goroutine result of `Garble` with tape/key `j` on a scratch
whose previous contents are `m`. -/
def seqGarble {Mem Job : Type} (P : Params Mem Job) (j : Job) (m : Mem) : Mem :=
  (P.prog j).foldl (fun m f => f m) m

/-- `circuit.Garbled`: the two unexported fields that tie it to the pool.
`Wires` and `Gates` alias the scratch's buffers, so "the data of the handle"
is the memory of `scratch`.  `job`, `init`, `user`, `putDone` are ghost:
the call that produced the handle, the contents its scratch had when
`pool.Get` returned it, the goroutine currently inside a method of this handle
(usage contract, see `step?`), and whether an in-progress `Release` has
already executed its `Put`. -/
structure Handle (Mem Job : Type) where
  scratch : Option ScratchId
  pool    : Option PoolId
  job     : Job
  init    : Mem
  user    : Option Tid
  putDone : Bool

/-- Program counter of a goroutine (with its locals). -/
inductive PC (Mem Job : Type) where
  /-- not inside any call on the circuit -/
  | idle
  /-- `Garble` → `garbleScratchPool`: about to `c.garblePool.Load()` -/
  | gLoad (j : Job)
  /-- Load gave nil; built `p := &sync.Pool{New: …}`; about to `CompareAndSwap(nil, p)` -/
  | gCas (j : Job) (p : PoolId)
  /-- CAS failed; about to `return c.garblePool.Load()` -/
  | gReload (j : Job)
  /-- `pool := p`; about to `pool.Get()` -/
  | gGet (j : Job) (p : PoolId)
  /-- holds scratch `s` (contents `m0` when obtained); `k` writes done -/
  | gRun (j : Job) (p : PoolId) (s : ScratchId) (m0 : Mem) (k : Nat)
  /-- `Release`: passed the `g.pool == nil` test; about to `g.pool.Put(g.scratch)` -/
  | rPut (h : HandleId)
  /-- `Release`: Put done; about to nil the fields -/
  | rClear (h : HandleId)

structure State (Mem Job : Type) where
  /-- `c.garblePool` -/
  poolPtr  : Option PoolId
  /-- number of `sync.Pool` objects allocated so far -/
  nPools   : Nat
  /-- contents of each `sync.Pool` object: the items a `Get` may return -/
  free     : PoolId → List ScratchId
  /-- number of `garbledScratch` objects allocated so far (by `New`) -/
  nScratch : Nat
  mem      : ScratchId → Mem
  nHandles : Nat
  handle   : HandleId → Option (Handle Mem Job)
  pc       : Tid → PC Mem Job

def init {Mem Job : Type} (P : Params Mem Job) : State Mem Job :=
  { poolPtr := none, nPools := 0, free := fun _ => [], nScratch := 0, mem := fun _ => P.fresh,
    nHandles := 0, handle := fun _ => none, pc := fun _ => .idle }

/-- Atomic actions; the nondeterminism of `sync.Pool.Get` (any cached item, or
a new one) is in the label. -/
inductive Action (Job : Type) where
  | callGarble (j : Job)
  | load
  | cas
  | reload
  | getFree (s : ScratchId)
  | getNew
  | write
  /-- an early-return path of Garble (`rand` fails, bad key, gate error):
  `pool.Put(scratch); return nil, err` -/
  | abort
  /-- `return &Garbled{R, Wires: wires, Gates: gates, scratch, pool}` -/
  | publish
  /-- a reader of `g.Wires` / `g.Gates` (Eval on the tables, serialisation) -/
  | read (h : HandleId)
  /-- `Circuit.Compute` / `Circuit.Eval` on caller-owned arguments: reads the
  immutable gate list, writes only its arguments and locals -/
  | compute
  | relBegin (h : HandleId)
  | relPut
  | relClear
  /-- `g2 := *g` (by-value copy of a Garbled); outside the usage contract -/
  | copyHandle (h : HandleId)

/-- One atomic step of goroutine `t`.  `none`: the action is not enabled.

`strict = true` is the usage contract of `Garbled` ("the Garbled must not be
used afterwards", a handle is used by one goroutine at a time, it is not
copied by value): a method on a handle starts only when no other goroutine is
inside one (`user = none`), `read` needs a live handle, `copyHandle` is
disabled.  `strict = false` drops these guards (used only to exhibit what
happens outside the contract). -/
def step? {Mem Job : Type} (P : Params Mem Job) (strict : Bool) (σ : State Mem Job) (t : Tid) :
    Action Job → Option (State Mem Job)
  | .callGarble j =>
    match σ.pc t with
    | .idle => some { σ with pc := upd σ.pc t (.gLoad j) }
    | _ => none
  | .load =>
    match σ.pc t with
    | .gLoad j =>
      match σ.poolPtr with
      | some p => some { σ with pc := upd σ.pc t (.gGet j p) }
      | none => some { σ with nPools := σ.nPools + 1, pc := upd σ.pc t (.gCas j σ.nPools) }
    | _ => none
  | .cas =>
    match σ.pc t with
    | .gCas j p =>
      match σ.poolPtr with
      | none => some { σ with poolPtr := some p, pc := upd σ.pc t (.gGet j p) }
      | some _ => some { σ with pc := upd σ.pc t (.gReload j) }
    | _ => none
  | .reload =>
    match σ.pc t with
    | .gReload j =>
      match σ.poolPtr with
      | some p => some { σ with pc := upd σ.pc t (.gGet j p) }
      | none => none      -- would be a nil *sync.Pool; `reload_enabled` shows it cannot happen
    | _ => none
  | .getFree x =>
    match σ.pc t with
    | .gGet j p =>
      if x ∈ σ.free p then
        some { σ with free := upd σ.free p ((σ.free p).erase x),
                      pc := upd σ.pc t (.gRun j p x (σ.mem x) 0) }
      else none
    | _ => none
  | .getNew =>
    match σ.pc t with
    | .gGet j p =>
      some { σ with nScratch := σ.nScratch + 1, mem := upd σ.mem σ.nScratch P.fresh,
                    pc := upd σ.pc t (.gRun j p σ.nScratch P.fresh 0) }
    | _ => none
  | .write =>
    match σ.pc t with
    | .gRun j p x m0 k =>
      match (P.prog j)[k]? with
      | some f => some { σ with mem := upd σ.mem x (f (σ.mem x)),
                                pc := upd σ.pc t (.gRun j p x m0 (k + 1)) }
      | none => none
    | _ => none
  | .abort =>
    match σ.pc t with
    | .gRun _ p x _ _ =>
      some { σ with free := upd σ.free p (x :: σ.free p), pc := upd σ.pc t .idle }
    | _ => none
  | .publish =>
    match σ.pc t with
    | .gRun j p x m0 k =>
      if k = (P.prog j).length then
        some { σ with nHandles := σ.nHandles + 1,
                      handle := upd σ.handle σ.nHandles
                        (some { scratch := some x, pool := some p, job := j, init := m0,
                                user := none, putDone := false }),
                      pc := upd σ.pc t .idle }
      else none
    | _ => none
  | .read h =>
    match σ.pc t, σ.handle h with
    | .idle, some H =>
      if strict && (H.user.isSome || !H.pool.isSome) then none else some σ
    | _, _ => none
  | .compute =>
    match σ.pc t with
    | .idle => some σ
    | _ => none
  | .relBegin h =>
    match σ.pc t, σ.handle h with
    | .idle, some H =>
      if strict && H.user.isSome then none
      else if H.pool.isSome then
        some { σ with handle := upd σ.handle h (some { H with user := some t }),
                      pc := upd σ.pc t (.rPut h) }
      else some σ      -- `if g == nil || g.pool == nil { return }`
    | _, _ => none
  | .relPut =>
    match σ.pc t with
    | .rPut h =>
      match σ.handle h with
      | some H =>
        match H.pool, H.scratch with
        | some p, some x =>
          some { σ with free := upd σ.free p (x :: σ.free p),
                        handle := upd σ.handle h (some { H with putDone := true }),
                        pc := upd σ.pc t (.rClear h) }
        | _, _ => none
      | none => none
    | _ => none
  | .relClear =>
    match σ.pc t with
    | .rClear h =>
      match σ.handle h with
      | some H =>
        some { σ with handle := upd σ.handle h
                        (some { H with scratch := none, pool := none, user := none, putDone := false }),
                      pc := upd σ.pc t .idle }
      | none => none
    | _ => none
  | .copyHandle h =>
    match σ.pc t, σ.handle h with
    | .idle, some H =>
      if strict then none
      else some { σ with nHandles := σ.nHandles + 1,
                         handle := upd σ.handle σ.nHandles (some { H with user := none }) }
    | _, _ => none

/-- What a reader of handle `h` sees. -/
def readVal {Mem Job : Type} (σ : State Mem Job) (h : HandleId) : Option Mem :=
  match σ.handle h with
  | some H => H.scratch.map σ.mem
  | none => none

/-- Run a schedule (list of (goroutine, action)); `none` if some action is not enabled. -/
def runSched {Mem Job : Type} (P : Params Mem Job) (strict : Bool) :
    State Mem Job → List (Tid × Action Job) → Option (State Mem Job)
  | σ, [] => some σ
  | σ, (t, a) :: rest =>
    match step? P strict σ t a with
    | some σ' => runSched P strict σ' rest
    | none => none

/-- States reachable from the initial state under the contract flag. -/
inductive Reachable {Mem Job : Type} (P : Params Mem Job) (strict : Bool) : State Mem Job → Prop where
  | init : Reachable P strict (init P)
  | step {σ σ' : State Mem Job} (t : Tid) (a : Action Job) :
      Reachable P strict σ → step? P strict σ t a = some σ' → Reachable P strict σ'

/-! ### Observable traces of a real run (used by `Driver/C17.lean`)

The stress harness logs, in one total order (an atomic sequence counter),
`G t h s p d`: goroutine `t` has got handle number `h` back from `Garble`, backed
by scratch object `s` of pool object `p`, contents digest `d` (logged after
the call returned);
`V t h d`: `t` re-read live handle `h` and saw digest `d`;
`R t h`: `t` is about to call `Release` on `h` (logged before the call);
`Q t h`: `t` is about to call `Release` on `h` a second time;
`A t`: a `Garble` call of `t` has returned an error (early-return path);
`C t`: `t` ran Eval / Compute on its own arguments.
Objects are numbered by first appearance.  `replay` runs each logged call as
the corresponding block of model steps at the position of its log entry, with
`Mem := Nat` (a digest) and the job "clear, then write digest d".  The logged
interval [G, R] of a handle lies inside its real ownership interval
[Get, Put], so a trace of a correct run is accepted and a trace in which two
logged intervals of one scratch overlap is a real double ownership. -/

inductive Ev where
  | garble (t h s p d : Nat)
  | verify (t h d : Nat)
  | release (t h : Nat)
  | release2 (t h : Nat)
  | abort (t : Nat)
  | compute (t : Nat)

/-- Trace instance: a scratch holds a digest; job `d` first clears, then writes `d`. -/
def traceParams : Params Nat Nat :=
  { fresh := 0, prog := fun d => [fun _ => 0, fun _ => d] }

abbrev TState := State Nat Nat

structure RState where
  σ        : TState
  /-- observed scratch number ↦ model scratch id (aborted calls use scratch
  objects that are never observed, so the two numberings differ) -/
  smap     : List (Nat × Nat) := []
  handles  : Nat := 0
  reused   : Nat := 0
  maxLive  : Nat := 0
  live     : Nat := 0
  releases : Nat := 0
  noops    : Nat := 0
  aborts   : Nat := 0
  verifies : Nat := 0

def liftErr (msg : String) : Option TState → Except String TState
  | some σ => .ok σ
  | none => .error msg

/-- The pool acquisition of one Garble call (`garbleScratchPool`), run as one block. -/
def replayAcquire (σ : TState) (t d : Nat) (p : Option Nat) : Except String TState := do
  let σ ← liftErr "thread-busy" (step? traceParams true σ t (.callGarble d))
  let first := σ.poolPtr.isNone
  let σ ← liftErr "load" (step? traceParams true σ t .load)
  let σ ← if first then liftErr "cas" (step? traceParams true σ t .cas) else pure σ
  match σ.pc t with
  | .gGet _ q => if p.getD q = q then pure σ else .error "pool-not-unique"
  | _ => .error "no-pool"

def replayEv (r : RState) : Ev → Except String RState
  | .garble t h s p d => do
    let σ ← replayAcquire r.σ t d (some p)
    let (σ, smap, fresh) ← match r.smap.lookup s with
      | some x => do
        let σ ← liftErr "scratch-not-free" (step? traceParams true σ t (.getFree x))
        pure (σ, r.smap, false)
      | none => do
        if s ≠ r.smap.length then .error "scratch-number" else
        let x := σ.nScratch
        let σ ← liftErr "get-new" (step? traceParams true σ t .getNew)
        pure (σ, r.smap ++ [(s, x)], true)
    let σ ← liftErr "write" (step? traceParams true σ t .write)
    let σ ← liftErr "write" (step? traceParams true σ t .write)
    if h ≠ σ.nHandles then .error "handle-number" else
    let σ ← liftErr "publish" (step? traceParams true σ t .publish)
    let live := r.live + 1
    pure { r with σ := σ, smap := smap, handles := σ.nHandles,
                  reused := r.reused + (if fresh then 0 else 1), live := live,
                  maxLive := max r.maxLive live }
  | .verify t h d => do
    let σ ← match r.σ.handle h with
      | some H => if !H.pool.isSome then .error "read-released"
                  else liftErr "read-not-allowed" (step? traceParams true r.σ t (.read h))
      | none => .error "unknown-handle"
    match readVal σ h with
    | some v => if v = d then pure { r with σ := σ, verifies := r.verifies + 1 }
                else .error "content-changed"
    | none => .error "read-released"
  | .release t h => do
    match r.σ.handle h with
    | some H => if !H.pool.isSome then .error "release-of-released" else pure ()
    | none => .error "unknown-handle"
    let σ ← liftErr "release-begin" (step? traceParams true r.σ t (.relBegin h))
    let σ ← liftErr "release-put" (step? traceParams true σ t .relPut)
    let σ ← liftErr "release-clear" (step? traceParams true σ t .relClear)
    pure { r with σ := σ, live := r.live - 1, releases := r.releases + 1 }
  | .release2 t h => do
    match r.σ.handle h with
    | some H => if H.pool.isSome then .error "second-release-of-live" else pure ()
    | none => .error "unknown-handle"
    let σ ← liftErr "release-begin" (step? traceParams true r.σ t (.relBegin h))
    match σ.pc t with
    | .idle => pure { r with σ := σ, noops := r.noops + 1 }
    | _ => .error "second-release-not-noop"
  | .abort t => do
    let σ ← replayAcquire r.σ t 0 none
    let p := σ.poolPtr.getD 0
    -- an early return happens after Get; which scratch it had is not observable:
    -- take a cached one if there is one (the last Put), else a new one
    let σ ← match σ.free p with
      | x :: _ => liftErr "get" (step? traceParams true σ t (.getFree x))
      | [] => liftErr "get" (step? traceParams true σ t .getNew)
    let σ ← liftErr "write" (step? traceParams true σ t .write)
    let σ ← liftErr "abort" (step? traceParams true σ t .abort)
    pure { r with σ := σ, aborts := r.aborts + 1 }
  | .compute t => do
    let σ ← liftErr "compute" (step? traceParams true r.σ t .compute)
    pure { r with σ := σ }

def replay : RState → Nat → List Ev → Except String RState
  | r, _, [] => .ok r
  | r, i, e :: es =>
    match replayEv r e with
    | .ok r' => replay r' (i + 1) es
    | .error m => .error s!"reject@{i}:{m}"

end Mpc.Pool

/-
Correlated OT (`COT`, /repo/ot/cot.go) and random OT (`ROT`, /repo/ot/rot.go)
on top of the IKNP extension, with the multi-instance tweakable
correlation-robust hash `MITCCRH` (/repo/ot/mitccrh.go).  Core Lean only.

The block cipher is a parameter `π : key → block → block` (AES-128 in the
driver, arbitrary in the theorems); `MITCCRH.Hash` maps block `x` under key
`k` to `x xor π k x`.
-/
import MpcVerif.Model.Iknp

namespace Mpc.Cot
open Mpc.Iknp (Label)

/-- `Iknp.mk` under a name that does not clash with structure constructors. -/
abbrev tab {α : Type} (n : Nat) (f : Nat → α) : Array α := Mpc.Iknp.mk n f

/-- `otBatchSize`. -/
def otBatchSize : Nat := 8

def lget (a : Array Label) (i : Nat) : Label := a.getD i 0#128

/-- State of a `MITCCRH`: the AES keys behind `ciphers` are kept instead of
the cipher objects. -/
structure Mitccrh where
  batchSize : Nat
  startPoint : Label
  gid : Nat
  keys : Array Label
  keyUsed : Nat

/-- `NewMITCCRH(s, batchSize)`. -/
def Mitccrh.new (s : Label) (batchSize : Nat) : Mitccrh :=
  { batchSize := batchSize, startPoint := s, gid := 0, keys := tab batchSize fun _ => 0#128,
    keyUsed := batchSize }

/-- `Label{D0: g, D1: 0}` for a `uint64` g. -/
def tweakKey (g : Nat) : Label := (BitVec.ofNat 128 (g % 2 ^ 64)) <<< 64

/-- `renewKeys`: key `i` is `Label{D0: gid+i} xor startPoint`. -/
def Mitccrh.renewKeys (m : Mitccrh) : Mitccrh :=
  { m with keys := tab m.batchSize fun i => tweakKey (m.gid + i) ^^^ m.startPoint,
           gid := (m.gid + m.batchSize) % 2 ^ 64, keyUsed := 0 }

/-- `MITCCRH.Hash(blks, k, h)`; `none` = one of its panics (including the
index-out-of-range on `m.ciphers[m.keyUsed+i]`). -/
def Mitccrh.hash (π : Label → Label → Label) (m : Mitccrh) (blks : Array Label) (k h : Nat) :
    Option (Mitccrh × Array Label) :=
  if k > m.batchSize then none
  else if m.batchSize % k ≠ 0 then none
  else if k * h ≠ blks.size then none
  else
    let m := if m.keyUsed = m.batchSize then m.renewKeys else m
    if m.keyUsed + k > m.batchSize then none
    else
      let out := tab blks.size fun idx =>
        let x := lget blks idx
        x ^^^ π (lget m.keys (m.keyUsed + idx / h)) x
      some ({ m with keyUsed := m.keyUsed + k }, out)

abbrev Wire := Label × Label

def wget (a : Array Wire) (i : Nat) : Wire := a.getD i (0#128, 0#128)

/-- The batch loop of `COT.Send` after the IKNP phase: `data` are the IKNP
sender labels.  Returns the labels passed to `SendLabel`, in order. -/
def cotSendLoop (π : Label → Label → Label) (delta : Label) (data : Array Label) (wires : Array Wire) (n : Nat) :
    Nat → Nat → Mitccrh → Array Label → Option (List Label)
  | 0, _, _, _ => some []
  | fuel + 1, i, m, pad =>
    if i < n then
      let cnt := min (i + otBatchSize) n - i
      let pad1 := tab (2 * otBatchSize) fun t =>
        if t / 2 < cnt then (if t % 2 = 0 then lget data (i + t / 2) else lget data (i + t / 2) ^^^ delta)
        else lget pad t
      match m.hash π pad1 otBatchSize 2 with
      | none => none
      | some (m', pad2) =>
        let pad3 := tab (2 * otBatchSize) fun t =>
          if t / 2 < cnt then
            lget pad2 t ^^^ (if t % 2 = 0 then (wget wires (i + t / 2)).1 else (wget wires (i + t / 2)).2)
          else lget pad2 t
        let sent := (List.range (2 * cnt)).map fun t => lget pad3 t
        match cotSendLoop π delta data wires n fuel (i + otBatchSize) m' pad3 with
        | none => none
        | some rest => some (sent ++ rest)
    else some []

/-- `COT.Send(wires)` after `iknpS.Send`: seed from the random source, then
the batch loop. -/
def cotSend (π : Label → Label → Label) (delta seed : Label) (data : Array Label) (wires : Array Wire) :
    Option (List Label) :=
  cotSendLoop π delta data wires wires.size wires.size 0 (Mitccrh.new seed otBatchSize)
    (tab (2 * otBatchSize) fun _ => 0#128)

/-- The batch loop of `COT.Receive` after the IKNP phase; `cts` are the labels
still to be read with `ReceiveLabel`.  `none`: a read fails. -/
def cotRecvLoop (π : Label → Label → Label) (flags : Array Bool) (n : Nat) :
    Nat → Nat → Mitccrh → Array Label → Array Label → List Label → Option (Array Label)
  | 0, _, _, _, result, _ => some result
  | fuel + 1, i, m, pad, result, cts =>
    if i < n then
      let cnt := min otBatchSize (n - i)
      -- copy(pad, result[i:])
      let pad1 := tab otBatchSize fun t => if i + t < result.size then lget result (i + t) else lget pad t
      match m.hash π pad1 otBatchSize 1 with
      | none => none
      | some (m', pad2) =>
        if cts.length < 2 * cnt then none else
        let result' := tab result.size fun j =>
          if i ≤ j ∧ j < i + cnt then
            (if flags.getD j false then cts.getD (2 * (j - i) + 1) 0#128 else cts.getD (2 * (j - i)) 0#128)
              ^^^ lget pad2 (j - i)
          else lget result j
        cotRecvLoop π flags n fuel (i + otBatchSize) m' pad2 result' (cts.drop (2 * cnt))
    else some result

/-- `COT.Receive(flags, result)` after `iknpR.Receive`; `result` holds the IKNP
receiver labels. -/
def cotRecv (π : Label → Label → Label) (seed : Label) (flags : Array Bool) (result : Array Label)
    (cts : List Label) : Option (Array Label) :=
  cotRecvLoop π flags flags.size flags.size 0 (Mitccrh.new seed otBatchSize)
    (tab otBatchSize fun _ => 0#128) result cts

/-- The batch loop of `ROT.Send`: the wires are *outputs*. -/
def rotSendLoop (π : Label → Label → Label) (delta : Label) (data : Array Label) (n : Nat) :
    Nat → Nat → Mitccrh → Array Label → Array Wire → Option (Array Wire)
  | 0, _, _, _, wires => some wires
  | fuel + 1, i, m, pad, wires =>
    if i < n then
      let cnt := min (i + otBatchSize) n - i
      let pad1 := tab (2 * otBatchSize) fun t =>
        if t / 2 < cnt then (if t % 2 = 0 then lget data (i + t / 2) else lget data (i + t / 2) ^^^ delta)
        else lget pad t
      match m.hash π pad1 otBatchSize 2 with
      | none => none
      | some (m', pad2) =>
        let wires' := tab wires.size fun j =>
          if i ≤ j ∧ j < i + cnt then (lget pad2 (2 * (j - i)), lget pad2 (2 * (j - i) + 1)) else wget wires j
        rotSendLoop π delta data n fuel (i + otBatchSize) m' pad2 wires'
    else some wires

def rotSend (π : Label → Label → Label) (delta seed : Label) (data : Array Label) (wires : Array Wire) :
    Option (Array Wire) :=
  rotSendLoop π delta data wires.size wires.size 0 (Mitccrh.new seed otBatchSize)
    (tab (2 * otBatchSize) fun _ => 0#128) wires

/-- The batch loop of `ROT.Receive`. -/
def rotRecvLoop (π : Label → Label → Label) (n : Nat) :
    Nat → Nat → Mitccrh → Array Label → Array Label → Option (Array Label)
  | 0, _, _, _, result => some result
  | fuel + 1, i, m, pad, result =>
    if i < n then
      let pad1 := tab otBatchSize fun t => if i + t < result.size then lget result (i + t) else lget pad t
      match m.hash π pad1 otBatchSize 1 with
      | none => none
      | some (m', pad2) =>
        -- copy(result[i:], pad)
        let result' := tab result.size fun j =>
          if i ≤ j ∧ j < i + otBatchSize then lget pad2 (j - i) else lget result j
        rotRecvLoop π n fuel (i + otBatchSize) m' pad2 result'
    else some result

def rotRecv (π : Label → Label → Label) (seed : Label) (flags : Array Bool) (result : Array Label) :
    Option (Array Label) :=
  rotRecvLoop π flags.size flags.size 0 (Mitccrh.new seed otBatchSize) (tab otBatchSize fun _ => 0#128) result

end Mpc.Cot

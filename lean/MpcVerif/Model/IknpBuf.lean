/-
IKNP OT extension, CALLER-PROVIDED OUTPUT BUFFERS: the destination side of
/repo/ot/iknp.go that Model/Iknp.lean abstracts away.

Model/Iknp.lean returns the labels of `receive` as a fresh list.  The Go code
does not: `IKNPReceiver.Receive(b, result, malicious)` transposes chunk by
chunk into the CALLER's slice (`createLabels(result[ofs:], chunk[:], byteRows)`),
`COT.Receive` / `ROT.Receive` pass their caller's slice through, and
`ReceiveBits` / `SendBits` set bits in the caller's packed words.  What such a
buffer holds before the call (a fresh `make`, the buffer of the previous call
on the same pair, a window of a larger array that was used for something
else) is part of "every call".  This file makes the buffer explicit:

* `createLabelsAt store l ofs buf w` is `createLabels(l[ofs:], buf, w)` on the
  array `l` as it is: positions `ofs ≤ p < ofs + min (8w) (len l - ofs)` are
  stored to, every other position keeps its content.  HOW a transposed label
  is stored is the parameter `store old new`: `Store.assign` (`l[i] = out[bit]`,
  the code of /repo) or `Store.orInto` (`l[i].D0 |= mask`: setting the bits
  directly in the destination) — the second is kept only to state what goes
  wrong with it on a buffer that is not zero.
* `receiveAt` / `receiveMalAt`: `receive` / `Receive(.., true)` on a caller's
  buffer.
* `Arena`, `BufSrc`, `CallB`, `runCallB`, `sessionB`: histories of calls on one
  initialised pair in which every call names its output buffer: a fresh
  allocation, or a window `[off, off+len)` of the party's long-lived array,
  either as the earlier calls left it (`pre = none`) or overwritten with
  arbitrary content first (`pre = some a`: ones, random bytes, ...).  The
  packed-bit calls take their two result buffers the same way.
* `BitStore`, `storeRows`, `receiveBitsS`, `sendBitsS`: the packed-bit form on
  the caller's words.  Since /repo 8f72c8a `SendBits` / `ReceiveBits` WRITE
  each of their `n` result bits (`|=` for a 1, `&^=` for a 0:
  `BitStore.write`); before that commit they only ORed the 1 bits in
  (`BitStore.orOnly`, which is `receiveBits` / `sendBits` of Model/Iknp.lean —
  the same thing on the zeroed buffers `Iknp.runCall` uses), kept only to
  state what was wrong with it.

Core Lean only.
-/
import MpcVerif.Model.Iknp
namespace Mpc.Iknp

/-- How a transposed label `new` is stored at a destination that holds `old`. -/
abbrev Store := Label → Label → Label
/-- `l[i] = out[bit]`: `createLabels` of /repo collects the 128 bits of a row
in a zeroed temporary and ASSIGNS it. -/
def Store.assign : Store := fun _ new => new
/-- `l[i].D0 |= mask` / `l[i].D1 |= mask` for every set bit: the bits are ORed
straight into the destination. -/
def Store.orInto : Store := fun old new => old ||| new

/-- Element `i` of a label array (every read of the model is in range). -/
def lgetA (a : Array Label) (i : Nat) : Label := a.getD i 0#128

/-- The transposed label of row `idx` of a chunk: bit `j` = bit `idx % 8` of
byte `buf[j*w + idx/8]` (as in `Iknp.createLabels`). -/
def rowLabel (buf : Bytes) (w idx : Nat) : Label :=
  labelOfBits fun j => (bget buf (j * w + idx / 8)).getLsbD (idx % 8)

/-- `createLabels(l[ofs:], buf, w)` executed on the array `l`. -/
def createLabelsAt (store : Store) (l : Array Label) (ofs : Nat) (buf : Bytes) (w : Nat) : Array Label :=
  mk l.size fun p =>
    if ofs ≤ p ∧ p < ofs + min (w * 8) (l.size - ofs) then store (lgetA l p) (rowLabel buf w (p - ofs))
    else lgetA l p

/-- Chunk loop of `IKNPReceiver.receive(b, result)` on the caller's `result`. -/
def recvLoopAt (store : Store) (R0 R1 : Nat → Nat → Byte) (bbuf : Bytes) (n : Nat) :
    Nat → Nat → RecvSt → Array Label → RecvSt × Array Label × List Bytes
  | 0, _, st, res => (st, res, [])
  | fuel + 1, ofs, st, res =>
    if ofs < n then
      let rows := min chunkRows (n - ofs)
      let byteRows := (rows + 7) / 8
      let uc := recvCols R0 R1 st byteRows fun tmp => xorBytes tmp (sliceFrom bbuf (ofs / 8))
      let res' := createLabelsAt store res ofs uc.2 byteRows
      let rest := recvLoopAt store R0 R1 bbuf n fuel (ofs + rows) (st.adv byteRows) res'
      (rest.1, rest.2.1, uc.1 :: rest.2.2)
    else (st, res, [])

/-- `IKNPReceiver.receive(b, result)`; `none` = `panic("len(b) != len(result)")`. -/
def receiveAt (store : Store) (R0 R1 : Nat → Nat → Byte) (st : RecvSt) (b : Array Bool) (result : Array Label) :
    Option (RecvSt × Array Label × List Bytes) :=
  if b.size ≠ result.size then none
  else some (recvLoopAt store R0 R1 (packBools b) b.size b.size 0 st result)

/-- A zeroed buffer: `make([]T, n)`. -/
def zerosL (n : Nat) : Array Label := mk n fun _ => 0#128
def zerosW (n : Nat) : Words := mk n fun _ => 0#64

/-- `Receive(b, result, true)` as far as the streams and buffers are
concerned: the payload goes to the caller's `result`, the 256 check rows to
`choiceVector := make([]Label, 256)`. -/
def receiveMalAt (store : Store) (R0 R1 : Nat → Nat → Byte) (st : RecvSt) (b : Array Bool) (b0 b1 : Label)
    (result : Array Label) : Option (RecvSt × Array Label × List Bytes) :=
  match receiveAt store R0 R1 st b result with
  | none => none
  | some r1 =>
    match receiveAt store R0 R1 r1.1 (bcvOf b0 b1) (zerosL 256) with
    | none => none
    | some r2 => some (r2.1, r1.2.1, r1.2.2 ++ r2.2.2)

/-! ### Packed-bit form on the caller's words -/

/-- How `SendBits` / `ReceiveBits` store a result bit. -/
inductive BitStore where
  /-- /repo HEAD (since 8f72c8a): `if bit == 1 { w |= m } else { w &^= m }`. -/
  | write
  /-- before 8f72c8a: `if bit == 1 { w |= m }` — a 0 result leaves the word alone. -/
  | orOnly

/-- `result[idx/64] &^= 1 << (idx%64)`. -/
def clearBit (r : Words) (idx : Nat) : Words :=
  r.modify (idx / 64) fun w => w &&& ~~~(1#64 <<< (idx % 64))

/-- `for row < rows { idx := ofs+row; if bit(row) { set idx } else { clear idx } }`
(`orOnly`: no else branch). -/
def storeRows (bs : BitStore) (r : Words) (ofs rows : Nat) (bit : Nat → Bool) : Words :=
  (List.range rows).foldl (fun r row =>
    if bit row then setBit r (ofs + row) else
      match bs with
      | .write => clearBit r (ofs + row)
      | .orOnly => r) r

/-- Chunk loop of `ReceiveBits(choices, result, n)` (word count of /repo HEAD,
`wordsHead`). -/
def recvBitsLoopS (bs : BitStore) (R0 R1 : Nat → Nat → Byte) (choices : Words) (n : Nat) :
    Nat → Nat → RecvSt → Words → RecvSt × Words × List Bytes
  | 0, _, st, res => (st, res, [])
  | fuel + 1, ofs, st, res =>
    if ofs < n then
      let rows := min chunkRows (n - ofs)
      let byteRows := (rows + 7) / 8
      let wordOffset := ofs / 64
      let words := wordsHead byteRows
      let uc := recvCols R0 R1 st byteRows fun tmp => xorWords tmp choices wordOffset words
      let labelsBuf := createLabels chunkRows uc.2 byteRows
      let res' := storeRows bs res ofs rows fun row => labelBit (labelsBuf.getD row 0#128) 0
      let rest := recvBitsLoopS bs R0 R1 choices n fuel (ofs + rows) (st.adv byteRows) res'
      (rest.1, rest.2.1, uc.1 :: rest.2.2)
    else (st, res, [])

/-- `IKNPReceiver.ReceiveBits(choices, result, n)`; `none` = the buffer-length
error returns. -/
def receiveBitsS (bs : BitStore) (R0 R1 : Nat → Nat → Byte) (st : RecvSt) (choices result : Words) (n : Nat) :
    Option (RecvSt × Words × List Bytes) :=
  if (n + 63) / 64 > choices.size then none
  else if (n + 63) / 64 > result.size then none
  else some (recvBitsLoopS bs R0 R1 choices n n 0 st result)

/-- Chunk loop of `SendBits(n, result)`. -/
def sendBitsLoopS (bs : BitStore) (SS : Nat → Nat → Byte) (delta : Label) (n : Nat) :
    Nat → Nat → SendSt → Words → List Bytes → Option (SendSt × Words × List Bytes)
  | 0, ofs, st, res, msgs => if ofs < n then none else some (st, res, msgs)
  | fuel + 1, ofs, st, res, msgs =>
    if ofs < n then
      match msgs with
      | [] => none
      | chunk :: more =>
        if chunk.size % K ≠ 0 then none else
        let byteRows := chunk.size / K
        if byteRows > chunkByteRows then none else
        let rows := byteRows * 8
        let t := sendCols SS delta st chunk byteRows
        let maxRows := min rows (n - ofs)
        let res' := storeRows bs res ofs maxRows fun row => (bget t (row / 8)).getLsbD (row % 8)
        sendBitsLoopS bs SS delta n fuel (ofs + maxRows) (st.adv byteRows) res' more
    else some (st, res, msgs)

/-- `IKNPSender.SendBits(n, result)`. -/
def sendBitsS (bs : BitStore) (SS : Nat → Nat → Byte) (delta : Label) (st : SendSt) (n : Nat) (result : Words)
    (msgs : List Bytes) : Option (SendSt × Words × List Bytes) :=
  if (n + 63) / 64 > result.size then none
  else sendBitsLoopS bs SS delta n (n + 1) 0 st result msgs

/-! ### Buffers of a history of calls -/

/-- `a[off : off+len]`. -/
def window {α : Type} (d : α) (a : Array α) (off len : Nat) : Array α := mk len fun k => a.getD (off + k) d

/-- The array `a` after the slice `a[off : off+len(w)]` was left as `w`. -/
def writeBack {α : Type} (d : α) (a : Array α) (off : Nat) (w : Array α) : Array α :=
  mk a.size fun p => if off ≤ p ∧ p < off + w.size then w.getD (p - off) d else a.getD p d

/-- The long-lived arrays of the two parties: the receiver's label array, the
receiver's and the sender's packed-bit arrays. -/
structure Arena where
  labels : Array Label
  rwords : Words
  swords : Words

/-- Where the output buffer of a call comes from.
`fresh`: a new zeroed allocation of exactly the needed length.
`arena pre off extra`: the slice `[off, off + needed + extra)` of the party's
array; `pre = some a` overwrites the whole array with `a` first (arbitrary
content), `pre = none` takes it as the earlier calls of the history left it. -/
inductive BufSrc (α : Type) where
  | fresh
  | arena (pre : Option (Array α)) (off extra : Nat)

/-- The underlying array, offset and length of the slice handed to the call;
`none`: the slice expression is out of range (Go panics). -/
def BufSrc.resolve {α : Type} (d : α) (cur : Array α) (need : Nat) : BufSrc α → Option (Array α × Nat × Nat)
  | .fresh => some (mk need fun _ => d, 0, need)
  | .arena pre off extra =>
    let a := pre.getD cur
    if off + need + extra ≤ a.size then some (a, off, need + extra) else none

/-- The party's array after the call. -/
def BufSrc.commit {α : Type} (d : α) (cur a : Array α) (off : Nat) (w : Array α) : BufSrc α → Array α
  | .fresh => cur
  | .arena _ _ _ => writeBack d a off w

/-- One call of a history, with its output buffers. -/
inductive CallB where
  | labels (mal : Bool) (b : Array Bool) (b0 b1 : Label) (buf : BufSrc Label)
  | bits (n : Nat) (choices : Words) (rbuf sbuf : BufSrc (BitVec 64))

/-- The call without its buffers. -/
def CallB.call : CallB → Call
  | .labels mal b b0 b1 _ => .labels mal b b0 b1
  | .bits n ch _ _ => .bits n ch

/-- Outputs of a call of a history: the sender's outputs, the content of the
receiver's slice after the call, and (packed-bit form) what the two slices
held before the call. -/
structure CallOutB where
  out : CallOut
  initRW : Words := #[]
  initSW : Words := #[]

/-- One call on the pair, writing into the named buffers. -/
def runCallB (store : Store) (bs : BitStore) (R0 R1 SS : Nat → Nat → Byte) (delta : Label) (rs : RecvSt) (ss : SendSt)
    (ar : Arena) : CallB → Option (RecvSt × SendSt × Arena × CallOutB × List Bytes)
  | .labels mal b b0 b1 buf =>
    match buf.resolve 0#128 ar.labels b.size with
    | none => none
    | some (a, off, len) =>
      let win := window 0#128 a off len
      let recv := if mal then receiveMalAt store R0 R1 rs b b0 b1 win else receiveAt store R0 R1 rs b win
      match recv with
      | none => none
      | some r =>
        match (if mal then sendMal SS delta ss b.size r.2.2 else send SS delta ss b.size r.2.2) with
        | some (ss', sent, []) =>
          some (r.1, ss', { ar with labels := buf.commit 0#128 ar.labels a off r.2.1 },
            { out := { sentL := sent, rcvdL := r.2.1.toList } }, r.2.2)
        | _ => none
  | .bits n choices rbuf sbuf =>
    let need := (n + 63) / 64
    match rbuf.resolve 0#64 ar.rwords need, sbuf.resolve 0#64 ar.swords need with
    | some (ra, roff, rlen), some (sa, soff, slen) =>
      let rwin := window 0#64 ra roff rlen
      let swin := window 0#64 sa soff slen
      match receiveBitsS bs R0 R1 rs choices rwin n with
      | none => none
      | some r =>
        match sendBitsS bs SS delta ss n swin r.2.2 with
        | some (ss', sw, []) =>
          some (r.1, ss',
            { ar with rwords := rbuf.commit 0#64 ar.rwords ra roff r.2.1,
                      swords := sbuf.commit 0#64 ar.swords sa soff sw },
            { out := { sentW := sw, rcvdW := r.2.1 }, initRW := rwin, initSW := swin }, r.2.2)
        | _ => none
    | _, _ => none

/-- A history of calls on one pair and one set of arrays. -/
def sessionB (store : Store) (bs : BitStore) (R0 R1 SS : Nat → Nat → Byte) (delta : Label) :
    RecvSt → SendSt → Arena → List CallB → Option (List CallOutB)
  | _, _, _, [] => some []
  | rs, ss, ar, c :: cs =>
    match runCallB store bs R0 R1 SS delta rs ss ar c with
    | none => none
    | some (rs', ss', ar', out, _) => (sessionB store bs R0 R1 SS delta rs' ss' ar' cs).map (out :: ·)

end Mpc.Iknp

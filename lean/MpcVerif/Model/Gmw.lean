/-
C10: executable model of the `gmw` package (gmw/bitvec.go, gmw/triples.go,
gmw/network.go, gmw/peer.go) – n-party GMW over XOR shares with Beaver
triples.  Core Lean only.

* bit vectors: `bit`, `setBit`, `xorBitvec`, `expand`, `expandClear`
* `Triples`: `EnsureCapacity`, `Clear`, `Append` (array level, with the
  capacity doubling and the shift-down of the source)
* `TriplePool.Get` as a loop over an arrival schedule (`poolGet`)
* offline phase: `tripleBatch` (cross terms from the bit-COT outputs)
* online phase: input sharing (`shareInput/receiveInput/setWires`), local
  XOR/XNOR/INV with the constant folded into party 0, level-wise Beaver AND
  (`andBatchFlush`, `broadcastXORs`), output reconstruction
* level schedule of `Network.run` (`blocks`), levels from
  `Circuit.assignLevels true` (Model/Levels.lean, `AssignLevels(TargetGMW)`).
-/
import MpcVerif.Model.Circuit
import MpcVerif.Model.Levels

namespace Mpc.Gmw

abbrev Word := BitVec 64
abbrev Words := Array Word

/-- `make([]T, n)` filled by index. -/
def mkA {α : Type} (n : Nat) (f : Nat → α) : Array α := (Array.range n).map f

/-- Word `i` of a slice; outside the slice `0` (the Go code either checks the
bound, as `bit` does, or the access is excluded by `Triples.WF`). -/
@[inline] def wget (v : Words) (i : Nat) : Word := v.getD i 0#64

/-! ### gmw/bitvec.go -/

/-- `bit(bitvec, i)`: `0` beyond the slice. -/
def bit (v : Words) (i : Nat) : Bool := (wget v (i / 64)).getLsbD (i % 64)

/-- `setBit(bitvec, i, b)`: grows the slice to `i/64+1` words when needed. -/
def setBit (v : Words) (i : Nat) (b : Bool) : Words :=
  let w := i / 64
  let v' : Words := if w < v.size then v else mkA (w + 1) (wget v)
  let m : Word := 1#64 <<< (i % 64)
  v'.setIfInBounds w (if b then wget v' w ||| m else wget v' w &&& ~~~m)

/-- `xorBitvec(result, bitvec)` (`len(bitvec) ≤ len(result)`, else Go panics). -/
def xorBitvec (result v : Words) : Words :=
  mkA result.size fun i => if i < v.size then wget result i ^^^ wget v i else wget result i

/-- `expand(bitvec, words)`. -/
def expand (v : Words) (words : Nat) : Words :=
  if words ≤ v.size then v else mkA words (wget v)

/-- `expandClear(bitvec, words)`: cleared, length `max len words`. -/
def expandClear (v : Words) (words : Nat) : Words :=
  mkA (max v.size words) fun _ => 0#64

/-- A 64-bit word from its bits, built as the Go loops do (`w |= 1 << ofs`). -/
def wordOfBits (f : Nat → Bool) : Word :=
  (List.range 64).foldl (fun acc k => if f k then acc ||| (1#64 <<< k) else acc) 0#64

/-! ### gmw/triples.go: Triples -/

/-- `gmw.Triples`. -/
structure Triples where
  words : Nat
  a : Words
  b : Words
  c : Words
  deriving Inhabited

def Triples.empty : Triples := ⟨0, #[], #[], #[]⟩

/-- What Go guarantees before slicing `src.A[:words]` (otherwise it panics). -/
def Triples.WF (t : Triples) : Prop := t.words ≤ t.a.size ∧ t.words ≤ t.b.size ∧ t.words ≤ t.c.size

instance (t : Triples) : Decidable t.WF := by unfold Triples.WF; infer_instance

/-- `for size = 2; size <= words; size *= 2 {}` -/
def capLoop : Nat → Nat → Nat → Nat
  | 0, size, _ => size
  | fuel + 1, size, words => if size ≤ words then capLoop fuel (2 * size) words else size

def capFor (words : Nat) : Nat := capLoop (words + 1) 2 words

/-- `Triples.EnsureCapacity(words)`. -/
def Triples.ensureCapacity (t : Triples) (words : Nat) : Triples :=
  let size := capFor words
  { t with a := expand t.a size, b := expand t.b size, c := expand t.c size }

/-- `Triples.Clear()`. -/
def Triples.clear (t : Triples) : Triples :=
  { words := 0, a := mkA t.a.size fun _ => 0#64, b := mkA t.b.size fun _ => 0#64, c := mkA t.c.size fun _ => 0#64 }

/-- `copy(dst[off:], src[lo:hi])` (`hi ≤ len(src)`; memmove semantics). -/
def copyW (dst : Words) (off : Nat) (src : Words) (lo hi : Nat) : Words :=
  mkA dst.size fun i => if off ≤ i ∧ i - off < hi - lo then wget src (lo + (i - off)) else wget dst i

/-- `clear(v[from:])`. -/
def clearFrom (v : Words) (frm : Nat) : Words :=
  mkA v.size fun i => if frm ≤ i then 0#64 else wget v i

/-- `triples.Append(src, n)`: returns the new destination, the new source and
the return value (`words * 64`). -/
def Triples.append (dst src : Triples) (n : Nat) : Triples × Triples × Nat :=
  let words := min ((n + 63) / 64) src.words
  let d := dst.ensureCapacity (dst.words + words)
  let dst' : Triples :=
    { words := dst.words + words
      a := copyW d.a dst.words src.a 0 words
      b := copyW d.b dst.words src.b 0 words
      c := copyW d.c dst.words src.c 0 words }
  let sh := fun (v : Words) => clearFrom (copyW v 0 v words v.size) (src.words - words)
  let src' : Triples := { words := src.words - words, a := sh src.a, b := sh src.b, c := sh src.c }
  (dst', src', words * 64)

/-- The logical content: the first `words` word triples. -/
def Triples.view (t : Triples) : List (Word × Word × Word) :=
  (List.range t.words).map fun i => (wget t.a i, wget t.b i, wget t.c i)

/-- A batch as `tripleBatch` hands it to the pool. -/
def Triples.ofList (l : List (Word × Word × Word)) : Triples :=
  { words := l.length, a := (l.map (·.1)).toArray, b := (l.map (·.2.1)).toArray, c := (l.map (·.2.2)).toArray }

/-! ### gmw/triples.go: TriplePool.Get -/

/-- The offline goroutine appends a batch: `Pool.triples.Append(batch, size)`
with `size = 64 * batch.Words` (`tripleBatch`; batch sizes are 4096, 8192). -/
def poolArrive (pool : Triples) (batch : Triples) : Triples :=
  (pool.append batch (batch.words * 64)).1

/-- `TriplePool.Get(count, triples)`.  `ticks` is the arrival schedule: the
batches the offline goroutine appends before each iteration of the consumer's
loop holds the lock.  An iteration that finds the pool empty is a
`pool.c.Wait()`.  `none`: the schedule ended while the consumer was still
waiting.  Result: pool, destination, unconsumed schedule. -/
def poolGet (count : Nat) : List (List Triples) → Nat → Triples → Triples →
    Option (Triples × Triples × List (List Triples))
  | [], ofs, pool, dst => if count ≤ ofs then some (pool, dst, []) else none
  | tick :: rest, ofs, pool, dst =>
    if count ≤ ofs then some (pool, dst, tick :: rest) else
    let pool := tick.foldl poolArrive pool
    if pool.words = 0 then poolGet count rest ofs pool dst
    else
      let r := dst.append pool (count - ofs)
      poolGet count rest (ofs + r.2.2) r.2.1 r.1

/-! ### gmw/triples.go: tripleBatch -/

/-- Everything `tripleBatch` reads at the parties, for one batch of `words`
words: local random shares and, per ordered pair, the outputs of the bit-COT.
`s p q` is `sBits` of `p`'s sender instance towards `q`, `delta p q` its
`Delta.Bit(0)`; `r p q` is `rBits` at `p` (receiver, choices `b p`) for `q`'s
sender instance. -/
structure BatchIn where
  a : Nat → Words
  b : Nat → Words
  s : Nat → Nat → Words
  r : Nat → Nat → Words
  delta : Nat → Nat → Bool

/-- `u = a ⊕ Δ` (all bits flipped when `Δ₀ = 1`). -/
def uOf (a : Words) (delta : Bool) (words : Nat) : Words :=
  mkA words fun w => if delta then wget a w ^^^ ~~~0#64 else wget a w

/-- sender term: `c[w] ^= sBits[w] ^ (u[w] & v[w])` -/
def senderTerm (c s u v : Words) : Words :=
  mkA c.size fun w => wget c w ^^^ (wget s w ^^^ (wget u w &&& wget v w))

/-- receiver term: `c[w] ^= rBits[w]` -/
def receiverTerm (c r : Words) : Words :=
  mkA c.size fun w => wget c w ^^^ wget r w

/-- The `c` share party `p` computes in `tripleBatch` (n parties, peers in id
order, sender term first towards larger ids, receiver term first otherwise). -/
def tripleBatchC (n words : Nat) (I : BatchIn) (p : Nat) : Words :=
  let c0 : Words := mkA words fun w => wget (I.a p) w &&& wget (I.b p) w
  (List.range n).foldl (fun c q =>
    if q = p then c else
      let u := uOf (I.a p) (I.delta p q) words
      let v := I.b q
      if p < q then receiverTerm (senderTerm c (I.s p q) u v) (I.r p q)
      else senderTerm (receiverTerm c (I.r p q)) (I.s p q) u v) c0

/-- The batch party `p` appends to its pool. -/
def tripleBatch (n words : Nat) (I : BatchIn) (p : Nat) : Triples :=
  { words := words, a := mkA words (wget (I.a p)), b := mkA words (wget (I.b p)), c := tripleBatchC n words I p }

/-! ### gmw/network.go: online phase -/

/-- One party (`gmw.Network` seen from `self`). -/
structure Party where
  id    : Nat
  wires : Store Bool      -- `nw.wires` (big.Int, bit per wire)
  pool  : Triples         -- `nw.Pool.triples`
  trip  : Triples         -- `nw.triples`
  deriving Inhabited

/-- XOR of a list of bits / words. -/
def xorB (l : List Bool) : Bool := l.foldl (fun a b => a != b) false
def xorW (l : List Word) : Word := l.foldl (fun a b => a ^^^ b) 0#64

/-- `setWires(o, input)`: bits `0..bits-1` of `input` onto the wires of
argument `o` (offset `ofs` = sum of the preceding arguments' sizes). -/
def setWires (w : Store Bool) (ofs bits input : Nat) : Store Bool :=
  (List.range bits).foldl (fun w i => w.set (ofs + i) (input.testBit i)) w

/-- Offset of party `p`'s argument. -/
def argOfs (sizes : List Nat) (p : Nat) : Nat := (sizes.take p).sum

/-- Input sharing as seen by party `p`: `rnd q p'` is the random share
(`big.Int.SetBytes(randBuf)`) party `q` sends to `p'`.  Party `p` stores what
it receives from every `q ≠ p` and keeps `x p ⊕ (⊕_{q ≠ p} rnd p q)`. -/
def shareInputs (numWires : Nat) (sizes : List Nat) (x : Nat → Nat) (rnd : Nat → Nat → Nat) (p : Nat) :
    Store Bool :=
  let n := sizes.length
  let w0 : Store Bool := Array.replicate numWires false
  let w1 := (List.range n).foldl (fun w q =>
    if q = p then w else setWires w (argOfs sizes q) (sizes.getD q 0) (rnd q p)) w0
  let shared := (List.range n).foldl (fun s q => if q = p then s else s ^^^ rnd p q) 0
  setWires w1 (argOfs sizes p) (sizes.getD p 0) (shared ^^^ x p)

/-- Gates the online phase evaluates (`default: gate %v not supported`). -/
def supported (g : Gate) : Bool := g.op != .or

/-- A non-AND gate at party `id`: XOR local; XNOR and INV flip at party 0
only.  (Unsupported gates leave the store unchanged here; `run` refuses the
circuit, as the Go loop returns an error when it reaches such a gate.) -/
def evalRest (id : Nat) (g : Gate) (w : Store Bool) : Store Bool :=
  let a := w.get g.in0
  let b := w.get g.in1
  match g.op with
  | .xor => w.set g.out (a != b)
  | .xnor => w.set g.out ((a != b) != (id == 0))
  | .inv => w.set g.out (a != (id == 0))
  | _ => w

/-- Step 1 of `andBatchFlush`: pack the shares of the AND inputs of the batch
into words (bit `i % 64` of word `i / 64` for gate `i`). -/
def packIn (w : Store Bool) (batch : Array Gate) (words : Nat) (second : Bool) : Words :=
  mkA words fun k => wordOfBits fun o =>
    let i := 64 * k + o
    if h : i < batch.size then w.get (if second then batch[i].in1 else batch[i].in0) else false

/-- `d = x ⊕ a`, `e = y ⊕ b` (local, masked).  The Go slices `nw.andD/andE`
keep the length of the largest batch so far (`expandClear`); the words beyond
`words` are zero at every party, are broadcast and XORed as zeros and never
read back – the model carries exactly `words` words. -/
def maskedDE (p : Party) (batch : Array Gate) (words : Nat) : Words × Words :=
  let x := packIn p.wires batch words false
  let y := packIn p.wires batch words true
  (mkA words fun k => wget x k ^^^ wget p.trip.a k, mkA words fun k => wget y k ^^^ wget p.trip.b k)

/-- `broadcastXORs` at party `id`: own vector, then XOR of what every other
peer sent, in peer order. -/
def openAt (id : Nat) (own : Words) (all : List (Nat × Words)) : Words :=
  all.foldl (fun acc q => if q.1 = id then acc else xorBitvec acc q.2) own

/-- Step 3: `z = c ⊕ (d & b) ⊕ (e & a)`, party 0 adds `d & e`. -/
def andZ (p : Party) (dOpen eOpen : Words) (words : Nat) : Words :=
  mkA words fun k =>
    let z := wget p.trip.c k ^^^ (wget dOpen k &&& wget p.trip.b k) ^^^ (wget eOpen k &&& wget p.trip.a k)
    if p.id = 0 then z ^^^ (wget dOpen k &&& wget eOpen k) else z

/-- Set the result wires: `wires[gate.Output] = bit(andZ, i)`. -/
def setOuts (w : Store Bool) (batch : List Gate) (z : Words) : Store Bool :=
  (batch.zipIdx).foldl (fun w gi => w.set gi.1.out (bit z gi.2)) w

/-- `andBatchFlush(batch)` at all parties.  `none`: a party's pool does not
hold `⌈|batch|/64⌉` words (the real `Pool.Get` would wait for the offline
phase; see `poolGet` for the loop and its independence of arrival timing). -/
def andStep (batch : List Gate) (ps : List Party) : Option (List Party) :=
  if batch.isEmpty then some ps else
  let words := (batch.length + 63) / 64
  if !ps.all (fun p => decide (words ≤ p.pool.words)) then none else
  let ba := batch.toArray
  -- nw.Pool.Get(len(batch), nw.triples)
  let ps1 := ps.map fun p =>
    let r := p.trip.append p.pool batch.length
    { p with trip := r.1, pool := r.2.1 }
  let des := ps1.map fun p => (p.id, maskedDE p ba words)
  let ds := des.map fun x => (x.1, x.2.1)
  let es := des.map fun x => (x.1, x.2.2)
  some <| ps1.map fun p =>
    let de := maskedDE p ba words
    let dOpen := openAt p.id de.1 ds
    let eOpen := openAt p.id de.2 es
    let z := andZ p dOpen eOpen words
    { p with wires := setOuts p.wires batch z, trip := p.trip.clear }

/-- Gates of level `i` in circuit order, AND gates or the rest. -/
def gatesAt (gl : List (Gate × Nat)) (i : Nat) (isAnd : Bool) : List Gate :=
  (gl.filter fun p => p.2 == i && ((p.1.op == .and) == isAnd)).map (·.1)

/-- `Network.run`: `rest[i]`, `ands[i]` for `i = 0 .. Stats[NumLevels]`, the
levels being those of `AssignLevels(TargetGMW)`. -/
def blocks (c : Circuit) : List (List Gate × List Gate) :=
  let lv := c.assignLevels true
  let gl := c.gates.zip lv.1
  (List.range (lv.2 + 1)).map fun i => (gatesAt gl i false, gatesAt gl i true)

/-- The evaluation order of `Network.run` as one gate list. -/
def schedule (c : Circuit) : List Gate := (blocks c).flatMap fun b => b.1 ++ b.2

def runBlocks : List (List Gate × List Gate) → List Party → Option (List Party)
  | [], ps => some ps
  | (rest, ands) :: bs, ps =>
    let ps1 := ps.map fun p => { p with wires := rest.foldl (fun w g => evalRest p.id g w) p.wires }
    match andStep ands ps1 with
    | none => none
    | some ps2 => runBlocks bs ps2

/-- Output exchange at party `id`: own output share XOR every peer's. -/
def outOpen (id : Nat) (own : List Bool) (all : List (Nat × List Bool)) : List Bool :=
  all.foldl (fun acc q => if q.1 = id then acc else List.zipWith (fun a b => a != b) acc q.2) own

inductive RunResult where
  | unsupported                      -- `gate OR not supported`
  | blocked                          -- a pool ran dry (the real code waits)
  | ok (parties : List Party) (outs : List (List Bool))

/-- The whole online phase for `n = sizes.length` parties: input sharing,
level-wise evaluation, output reconstruction.  `pools p` is the content of
party `p`'s triple pool. -/
def run (c : Circuit) (sizes : List Nat) (x : Nat → Nat) (rnd : Nat → Nat → Nat) (pools : Nat → Triples) :
    RunResult :=
  let n := sizes.length
  let ps0 := (List.range n).map fun p =>
    ({ id := p, wires := shareInputs c.numWires sizes x rnd p, pool := pools p, trip := Triples.empty } : Party)
  if !c.gates.all supported then .unsupported else
  match runBlocks (blocks c) ps0 with
  | none => .blocked
  | some ps =>
    let shares := ps.map fun p => (p.id, c.outputs p.wires)
    .ok ps (ps.map fun p => outOpen p.id (c.outputs p.wires) shares)

/-- Reconstruction of a wire: XOR of all parties' shares. -/
def recon (ps : List Party) (w : Nat) : Bool := xorB (ps.map fun p => p.wires.get w)

/-- All parties' inputs as the circuit's input bit list. -/
def inputBits (sizes : List Nat) (x : Nat → Nat) : List Bool :=
  (List.range sizes.length).flatMap fun p => (List.range (sizes.getD p 0)).map fun i => (x p).testBit i

end Mpc.Gmw

/-
Definedness of the gate inputs of a STREAM (property C04, streaming mode).

The streaming theorems of Props/C04.lean (`C04_stream_safe_accounting`,
`C04_stream_no_two_labels_of_a_wire`) speak about any stream of instruction
circuits over one wire store whose gate list is `wfFrom n · (· < nIn)`: every
gate input is a session input wire or the output of an earlier gate.  That
hypothesis is what `Program.Stream` has to establish when it builds the wire-id
lists `in` / `out` of every `Streaming.Garble` call (compiler/ssa/streamer.go:
operand padding, the `circ` arm padding every argument to the width the native
circuit declares; circuit/stream_garble.go `initCircuit`: wires below
`len(in)` are the instruction's inputs, the next ones are temporaries of THIS
instruction circuit).  A gate that reads a wire nothing wrote reads the zero
value of the garbler's table: both labels zero (`WireL` default).

`wfArr` is `wfFrom` with the set of defined wires kept in an array (the closure
chain of `wfFrom` is quadratic on the 10^5-gate streams of the native circuit
files); `Proofs/StreamDef.lean` proves them equal.  The driver op `c04def`
evaluates it on the gate list of every analysed real session (global wire ids
as they are, temporary wire `t` of instruction circuit `k` renamed to a number
of its own) and the harness compares it with its own verdict, obtained while it
re-derives every label of the stream.  Core Lean only.
-/
import MpcVerif.Model.Circuit

namespace Mpc

/-- `wfFrom` over an array of flags. -/
def wfArr (n : Nat) : List Gate → Array Bool → Bool
  | [], _ => true
  | g :: gs, d =>
    d.getD g.in0 false && (!g.op.binary || d.getD g.in1 false) &&
    decide (g.in0 < n) && (!g.op.binary || decide (g.in1 < n)) && decide (g.out < n) &&
    wfArr n gs (d.setIfInBounds g.out true)

/-- The flags of a fresh stream: the first `nIn` of `n` wires are defined. -/
def inputFlags (n nIn : Nat) : Array Bool := (Array.range n).map fun i => decide (i < nIn)

/-- Every gate input of the stream is a defined wire. -/
def streamDefined (n nIn : Nat) (gates : List Gate) : Bool := wfArr n gates (inputFlags n nIn)

/-- Result line of the driver op `c04def`. -/
def renderDef (n nIn : Nat) (gates : List Gate) : String :=
  s!"gates={gates.length} wires={n} inputs={nIn} defined={streamDefined n nIn gates}"

end Mpc

/-
Concrete label algebra: `ot.Label` as `BitVec 128` (D0 = high 64 bits,
D1 = low 64 bits; `S()` = most significant bit), and the AES-based hash
functions of circuit/garble.go.  Core Lean only.
-/
import MpcVerif.Model.Garble
import MpcVerif.Model.Aes

namespace Mpc

instance : LabelAlg (BitVec 128) where
  default := 0#128
  xor a b := a ^^^ b
  zero := 0#128
  sbit a := a.msb
  xor_assoc := BitVec.xor_assoc
  xor_comm := BitVec.xor_comm
  xor_self := by intro a; simp
  xor_zero := by intro a; simp
  sbit_xor := by intro a b; simp [BitVec.msb_xor, bne, Bool.xor]
  default_eq := rfl

/-- `ot.NewTweak(t)`: D1 = uint64(t), t a uint32. -/
def tweak (t : Nat) : BitVec 128 := BitVec.ofNat 128 (t % 2^32)

/-- `makeKHalf`: K = 2x ⊕ i (`Mul2` is a 128-bit left shift by one). -/
def makeKHalf (x : BitVec 128) (i : Nat) : BitVec 128 := (x <<< 1) ^^^ tweak i

/-- `makeK`: K = 2a ⊕ 4b ⊕ t. -/
def makeK (a b : BitVec 128) (t : Nat) : BitVec 128 := (a <<< 1) ^^^ (b <<< 2) ^^^ tweak t

/-- The hash functions of the scheme for an arbitrary block function `π`
(`alg.Encrypt`): `encryptHalf` and the pad of `encrypt`/`decrypt`. -/
def hashOf (π : BitVec 128 → BitVec 128) : Hash (BitVec 128) where
  h1 x i := let k := makeKHalf x i; π k ^^^ k
  h2 a b t := let k := makeK a b t; π k ^^^ k

def aesHash (c : Aes.Cipher) : Hash (BitVec 128) := hashOf c.encrypt128

/-- `r.SetS(true)`. -/
def setS (r : BitVec 128) : BitVec 128 := r ||| (1#128 <<< 127)

theorem setS_msb (r : BitVec 128) : (setS r).msb = true := by
  unfold setS
  have h : (1#128 <<< 127).msb = true := by decide
  simp only [BitVec.msb_or, h, Bool.or_true]

end Mpc

/-
C08  Compilation is deterministic — executable models of the places where the
MPCL compiler's result could depend on (a) the order in which a Go map hands
over its entries and (b) state kept by a `compiler.Compiler` between
compilations.  Core Lean only.

Go's map iteration order is runtime behaviour; what is logic is whether the
loop body's fold depends on the order of the list it is handed.  Every model
below therefore takes the map as the LIST of its entries in hand-over order;
the theorems (Props/C08.lean) quantify over all permutations of that list.

Map-range sites of the compile path (extracted on every run by
`harness/cmd/c08 facts`, compared with the table in checks/C08.py):

  compiler/ssa/program.go   Program.DefineConstants  range prog.Constants   → `sortConsts`, `defineConstants`
  types/types.go            Type.String              range Types            → `findKey`
  compiler/ssa/peephole.go  init                     range operands         → `findKey`
  compiler/ssa/instructions.go init                  range operands         → `maxLen`
  compiler/ssa/set.go       Set.Copy/Subtract/Array  range set              → `setCopy`, `setSubtract`, `sortByKey`
  compiler/utils/params.go  SaveSymbolIDs            range p.SymbolIDs      → `sortByKey` (collect keys, sort.Strings)
  compiler/ast/package.go   Package.SortedImports    range pkg.Imports      → `sortedImports` (collect keys, sort.Strings)
  compiler/ssa/streamer.go  Program.Stream           range istats           → diagnostics table only

`Package.Init` and `Compiler.parse` iterate `pkg.SortedImports()` since /repo
6aa1568 (`initPkg`, `parseImports`); before, they ranged over the map itself
(`initPkgOld`, `parseImportsOld`, kept for the refutations).  Since /repo
1e863b8 every compilation starts from an empty package table (`compile`);
before, parsed packages survived (`compileOld`).
-/

namespace Mpc.Det

/-! ## 1. collect-then-sort -/

/-- Byte-wise lexicographic `≤`: Go's `strings.Compare(a, b) <= 0` on the
UTF-8 bytes of the two strings. -/
def bytesLe : List Nat → List Nat → Bool
  | [], _ => true
  | _ :: _, [] => false
  | a :: as, b :: bs => if a < b then true else if b < a then false else bytesLe as bs

/-- A program constant as `DefineConstants` sees it: `Value.Name` (UTF-8
bytes) and the bit pattern it wires to the zero/one wires. -/
structure Const where
  name : List Nat
  bits : List Bool
deriving DecidableEq, Repr

def constLe (a b : Const) : Bool := bytesLe a.name b.name

/-- compiler/ssa/program.go `DefineConstants`, first half:

    for _, c := range prog.Constants { consts = append(consts, c.Const) }
    sort.Slice(consts, func(i, j) bool { return strings.Compare(consts[i].Name, consts[j].Name) == -1 })

`handed` is the map's content in hand-over order.  (`sort.Slice` is some
sorting algorithm; `C08_sorted_perm_unique` shows that for pairwise distinct
names EVERY sorted permutation is this list.) -/
def sortConsts (handed : List Const) : List Const := handed.mergeSort constLe

/-- `DefineConstants`, second half: `if prog.walloc.Allocated(c) { continue }; prog.walloc.SetWires(c, wires)`.
The allocator is keyed by the value (for constants: the name). -/
def allocConsts (sorted : List Const) (alloc : List (List Nat × List Bool)) : List (List Nat × List Bool) :=
  sorted.foldl (fun al c => if al.any (fun e => e.1 == c.name) then al else al ++ [(c.name, c.bits)]) alloc

def defineConstants (handed : List Const) : List (List Nat × List Bool) :=
  allocConsts (sortConsts handed) []

/-- Generic collect-then-sort by a natural-number key (`Set.Array`: sort by
`Value.ID`). -/
def sortByKey {α : Type} (key : α → Nat) (handed : List α) : List α :=
  handed.mergeSort (fun a b => decide (key a ≤ key b))

/-! ## 2. search for a value (Type.String, peephole init) -/

/-- types/types.go `Type.String`: `for k, v := range Types { if v == t { return k } }`
(and the same loop shape over `operands` in compiler/ssa/peephole.go init). -/
def findKey {κ υ : Type} [DecidableEq υ] (handed : List (κ × υ)) (t : υ) : Option κ :=
  match handed with
  | [] => none
  | (k, v) :: rest => if v = t then some k else findKey rest t

/-! ## 3. maximum (instructions.go init) -/

/-- compiler/ssa/instructions.go `init`: `for _, v := range operands { if len(v) > max { max = len(v) } }`. -/
def maxLen (handed : List Nat) : Nat :=
  handed.foldl (fun m v => if v > m then v else m) 0

/-! ## 4. Set.Copy / Set.Subtract (maps as lookup functions) -/

def setCopy {υ : Type} (handed : List (Nat × υ)) : Nat → Option υ :=
  handed.foldl (fun m kv => fun k => if k = kv.1 then some kv.2 else m k) (fun _ => none)

def setSubtract {υ : Type} (set : Nat → Option υ) (handedIds : List Nat) : Nat → Option υ :=
  handedIds.foldl (fun m i => fun k => if k = i then none else m k) set

/-! ## 5. Package.SortedImports, Package.Init -/

/-- Insertion into a sorted list / insertion sort: structurally recursive, so
that closed instances reduce in the kernel (`List.mergeSort` does not).  Which
algorithm is irrelevant: sorted permutations are unique
(`isort_perm_invariant`). -/
def insertBy {α : Type} (le : α → α → Bool) (a : α) : List α → List α
  | [] => [a]
  | b :: bs => if le a b then a :: b :: bs else b :: insertBy le a bs

def isort {α : Type} (le : α → α → Bool) : List α → List α
  | [] => []
  | a :: as => insertBy le a (isort le as)

/-- compiler/ast/package.go `Package.SortedImports`:

    for alias := range pkg.Imports { aliases = append(aliases, alias) }
    sort.Strings(aliases)

`le` is the order of `sort.Strings` (byte-wise for Go strings). -/
def sortedImports {ν : Type} (le : ν → ν → Bool) (handed : List ν) : List ν := isort le handed

/-- What Init needs to know of a package.  `imports` is `pkg.Imports` in the
order the map hands the aliases over; `nvars` the number of package-level
variable definitions (each emits a `mov` into the block `.name`; a block
without steps does not show in the listing); `nanon` how many of them are
initialised by `make(...)` (one anonymous SSA value `%_{0,n}` each, numbered by
the generator-wide counter `gen.versions["%_"]`). -/
structure Pkg (ν : Type) where
  name : ν
  imports : List ν
  nvars : Nat
  nanon : Nat
deriving Repr, DecidableEq

def getPkg {ν : Type} [DecidableEq ν] (lib : List (Pkg ν)) (n : ν) : Option (Pkg ν) :=
  lib.find? (fun p => p.name = n)

/-- Generator-side state threaded through `Package.Init`. -/
structure GenSt (ν : Type) where
  /-- packages whose `Initialized` flag is set -/
  initialized : List ν
  /-- emitted initialiser blocks: package, first anonymous value number used -/
  blocks : List (ν × Option Nat)
  /-- next anonymous value version -/
  anon : Nat
deriving Repr, DecidableEq

/-- One package's own block, after its imports: `.name` with its variable
definitions. -/
def emitBlock {ν : Type} (pk : Pkg ν) (st : GenSt ν) : GenSt ν :=
  if pk.nvars = 0 then st else
  { st with
    blocks := st.blocks ++ [(pk.name, if pk.nanon = 0 then none else some st.anon)],
    anon := st.anon + pk.nanon }

/-- compiler/ast/package.go `Package.Init` (since 6aa1568):

    if pkg.Initialized { return block }
    pkg.Initialized = true
    for _, alias := range pkg.SortedImports() { block = packages[alias].Init(...) }
    ... constants, types ...
    block = gen.NextBlock(block); block.Name = "." + pkg.Name
    for _, def := range pkg.Variables { block = def.SSA(block) }

The flag is set before the imports are visited, so import cycles terminate;
`fuel` (number of packages + 1 suffices) only makes the recursion structural.
A missing package is an error in the Go code; the model leaves the state
unchanged (callers pass closed libraries). -/
def initPkg {ν : Type} [DecidableEq ν] (le : ν → ν → Bool) : Nat → List (Pkg ν) → ν → GenSt ν → GenSt ν
  | 0, _, _, st => st
  | fuel + 1, lib, p, st =>
    if st.initialized.contains p then st else
    match getPkg lib p with
    | none => st
    | some pk =>
      let st1 : GenSt ν := { st with initialized := p :: st.initialized }
      let st2 := (sortedImports le pk.imports).foldl (fun s q => initPkg le fuel lib q s) st1
      emitBlock { pk with name := p } st2

/-- `Package.Init` BEFORE 6aa1568: `for alias, name := range pkg.Imports` —
the imports are visited in the order the map hands them over. -/
def initPkgOld {ν : Type} [DecidableEq ν] : Nat → List (Pkg ν) → ν → GenSt ν → GenSt ν
  | 0, _, _, st => st
  | fuel + 1, lib, p, st =>
    if st.initialized.contains p then st else
    match getPkg lib p with
    | none => st
    | some pk =>
      let st1 : GenSt ν := { st with initialized := p :: st.initialized }
      let st2 := pk.imports.foldl (fun s q => initPkgOld fuel lib q s) st1
      emitBlock { pk with name := p } st2

/-! ## 6. State kept between compilations (Compiler.packages) -/

/-- What is left in `Compiler.packages` after a compilation: the imported
packages with their `Initialized` flag and the `NumInstances` counters of their
functions.  The `main` package is re-created by every `compile`
(`ast.NewPackage("main", ...)`). -/
structure Cache (ν : Type) where
  initialized : List ν
  instances : ν → Nat

def Cache.empty {ν : Type} : Cache ν := { initialized := [], instances := fun _ => 0 }

/-- A program: its main package, the names of main's own functions, and the
function labels of one compilation in expansion order (every call is
inlined; each expansion takes the next instance number of that function). -/
structure Prog (ν : Type) where
  main : Pkg ν
  mainFuncs : List ν
  calls : List ν

structure Output (ν : Type) where
  initBlocks : List (ν × Option Nat)
  funcLabels : List (ν × Nat)
deriving DecidableEq, Repr

/-- compiler/ast/ssagen.go `Func.SSA`: `name#NumInstances`, `NumInstances++`. -/
def labelCalls {ν : Type} [DecidableEq ν] (calls : List ν) (inst : ν → Nat) : List (ν × Nat) × (ν → Nat) :=
  calls.foldl (fun (acc : List (ν × Nat) × (ν → Nat)) f =>
    (acc.1 ++ [(f, acc.2 f)], fun g => if g = f then acc.2 g + 1 else acc.2 g)) ([], inst)

/-- Parse + `Package.Compile` as far as the package state is concerned,
starting from the package table `cache`; `init` is the Init in force. -/
def compileFrom {ν : Type} [DecidableEq ν]
    (init : Nat → List (Pkg ν) → ν → GenSt ν → GenSt ν)
    (lib : List (Pkg ν)) (cache : Cache ν) (prog : Prog ν) : Output ν × Cache ν :=
  let mainName := prog.main.name
  let lib' := prog.main :: lib.filter (fun p => p.name ≠ mainName)
  let st0 : GenSt ν := { initialized := cache.initialized.filter (fun n => n ≠ mainName), blocks := [], anon := 0 }
  let st := init (lib'.length + 1) lib' mainName st0
  let inst0 : ν → Nat := fun f => if prog.mainFuncs.contains f then 0 else cache.instances f
  let (labels, inst1) := labelCalls prog.calls inst0
  ({ initBlocks := st.blocks, funcLabels := labels },
   { initialized := st.initialized.filter (fun n => n ≠ mainName),
     instances := fun f => if prog.mainFuncs.contains f then 0 else inst1 f })

/-- `Compiler.compile` / `CompileSSA` / `Stream` (since 1e863b8): the first
statement is `c.resetPackages()`, i.e. whatever earlier compilations left in
`c.packages` is dropped. -/
def compile {ν : Type} [DecidableEq ν] (le : ν → ν → Bool) (lib : List (Pkg ν)) (_cache : Cache ν) (prog : Prog ν) :
    Output ν × Cache ν :=
  compileFrom (initPkg le) lib Cache.empty prog

/-- `Compiler.compile` BEFORE 1e863b8 (and before 6aa1568): parsed packages
survive in `c.packages`, Init ranges over the map. -/
def compileOld {ν : Type} [DecidableEq ν] (lib : List (Pkg ν)) (cache : Cache ν) (prog : Prog ν) :
    Output ν × Cache ν :=
  compileFrom initPkgOld lib cache prog

/-- `k` compilations of the same program on one `Compiler`. -/
def compileRepeated {ν : Type} [DecidableEq ν] (le : ν → ν → Bool) (lib : List (Pkg ν)) (prog : Prog ν) :
    Nat → Cache ν → List (Output ν)
  | 0, _ => []
  | k + 1, cache =>
    let r := compile le lib cache prog
    r.1 :: compileRepeated le lib prog k r.2

/-- One use of a `Compiler`: a compilation that succeeds, or one that FAILS
after the imports were initialised and `callsDone` function instances were
expanded (undefined name in main, error inside an imported function, ...).  A
failing compilation returns early and leaves in `c.packages` whatever state it
had reached. -/
inductive Event (ν : Type) where
  | good (p : Prog ν)
  | failing (p : Prog ν) (callsDone : Nat)

/-- The package table after an event, for a given `compile`. -/
def stepWith {ν : Type} (comp : Cache ν → Prog ν → Output ν × Cache ν) (c : Cache ν) : Event ν → Cache ν
  | .good p => (comp c p).2
  | .failing p n => (comp c { p with calls := p.calls.take n }).2

def runHistoryWith {ν : Type} (comp : Cache ν → Prog ν → Output ν × Cache ν) (c : Cache ν) (h : List (Event ν)) : Cache ν :=
  h.foldl (stepWith comp) c

/-- The history of a `Compiler` under the code as it is. -/
def runHistory {ν : Type} [DecidableEq ν] (le : ν → ν → Bool) (lib : List (Pkg ν)) (c : Cache ν) (h : List (Event ν)) : Cache ν :=
  runHistoryWith (compile le lib) c h

/-- HYPOTHETICAL variant (not the code): the package table is dropped only
AFTER a successful code generation ("release the ASTs before the circuit is
built") instead of at the start.  A successful compilation then leaves an empty
table, a failing one leaves its state behind, and the next compilation starts
from it. -/
def compileResetOnSuccess {ν : Type} [DecidableEq ν] (le : ν → ν → Bool) (lib : List (Pkg ν)) (cache : Cache ν) (prog : Prog ν) :
    Output ν × Cache ν :=
  ((compileFrom (initPkg le) lib cache prog).1, Cache.empty)

/-- … and what a FAILING compilation leaves behind under that variant. -/
def stepResetOnSuccess {ν : Type} [DecidableEq ν] (le : ν → ν → Bool) (lib : List (Pkg ν)) (c : Cache ν) : Event ν → Cache ν
  | .good p => (compileResetOnSuccess le lib c p).2
  | .failing p n => (compileFrom (initPkg le) lib c { p with calls := p.calls.take n }).2

/-! ## 7. Compiler.parse / parsePkg: the package table is keyed by alias -/

/-- compiler/compiler.go `parse` + `parsePkg` (since 6aa1568):

    c.packages[pkg.Name] = pkg
    for _, alias := range pkg.SortedImports() { c.parsePkg(alias, pkg.Imports[alias], source) }

    parsePkg: if pkg, ok := c.packages[alias]; ok { return pkg }   // keyed by ALIAS, not by path

`files p` are the imports (alias, path) of the package at path `p` in
hand-over order, `cache` the alias→path table built so far. -/
def parseImports {α π : Type} [DecidableEq α] (le : α → α → Bool) :
    Nat → (π → List (α × π)) → List (α × π) → List (α × π) → List (α × π)
  | 0, _, _, cache => cache
  | fuel + 1, files, imports, cache =>
    (isort (fun a b => le a.1 b.1) imports).foldl (fun c ap =>
      if c.any (fun e => e.1 = ap.1) then c
      else parseImports le fuel files (files ap.2) (c ++ [ap])) cache

/-- `Compiler.parse` BEFORE 6aa1568: `for alias, name := range pkg.Imports`. -/
def parseImportsOld {α π : Type} [DecidableEq α] : Nat → (π → List (α × π)) → List (α × π) → List (α × π) → List (α × π)
  | 0, _, _, cache => cache
  | fuel + 1, files, imports, cache =>
    imports.foldl (fun c ap =>
      if c.any (fun e => e.1 = ap.1) then c
      else parseImportsOld fuel files (files ap.2) (c ++ [ap])) cache

/-- Which path an alias resolves to after parsing. -/
def resolve {α π : Type} [DecidableEq α] (cache : List (α × π)) (a : α) : Option π :=
  (cache.find? (fun e => e.1 = a)).map (·.2)

end Mpc.Det

/-
C08  Compilation is deterministic — executable models of the places where the
MPCL compiler's result could depend on (a) the order in which a Go map hands
over its entries and (b) state kept by a `compiler.Compiler` between
compilations.  Core Lean only.

Go's map iteration order is runtime behaviour; what is logic is whether the
loop body's fold depends on the order of the list it is handed.  Every model
below therefore takes the map as the LIST of its entries in hand-over order;
the theorems (Props/C08.lean) quantify over all permutations of that list.

Map-range sites of the compile path (extracted on every run by
`harness/cmd/c08 facts`, compared with the table in checks/C08.py):

  compiler/ssa/program.go   Program.DefineConstants  range prog.Constants   → `sortConsts`, `defineConstants`
  types/types.go            Type.String              range Types            → `findKey`
  compiler/ssa/peephole.go  init                     range operands         → `findKey`
  compiler/ssa/instructions.go init                  range operands         → `maxLen`
  compiler/ssa/set.go       Set.Copy/Subtract/Array  range set              → `setCopy`, `setSubtract`, `sortByKey`
  compiler/utils/params.go  SaveSymbolIDs            range p.SymbolIDs      → `sortByKey` (collect keys, sort.Strings)
  compiler/ast/package.go   Package.Init             range pkg.Imports      → `initPkg`      (NOT order independent)
  compiler/compiler.go      Compiler.parse           range pkg.Imports      → `parseImports` (order independent only if an alias names one path)
  compiler/ssa/streamer.go  Program.Stream           range istats           → diagnostics table only
-/

namespace Mpc.Det

/-! ## 1. collect-then-sort -/

/-- Byte-wise lexicographic `≤`: Go's `strings.Compare(a, b) <= 0` on the
UTF-8 bytes of the two strings. -/
def bytesLe : List Nat → List Nat → Bool
  | [], _ => true
  | _ :: _, [] => false
  | a :: as, b :: bs => if a < b then true else if b < a then false else bytesLe as bs

/-- A program constant as `DefineConstants` sees it: `Value.Name` (UTF-8
bytes) and the bit pattern it wires to the zero/one wires. -/
structure Const where
  name : List Nat
  bits : List Bool
deriving DecidableEq, Repr

def constLe (a b : Const) : Bool := bytesLe a.name b.name

/-- compiler/ssa/program.go `DefineConstants`, first half:

    for _, c := range prog.Constants { consts = append(consts, c.Const) }
    sort.Slice(consts, func(i, j) bool { return strings.Compare(consts[i].Name, consts[j].Name) == -1 })

`handed` is the map's content in hand-over order.  (`sort.Slice` is some
sorting algorithm; `C08_sorted_perm_unique` shows that for pairwise distinct
names EVERY sorted permutation is this list.) -/
def sortConsts (handed : List Const) : List Const := handed.mergeSort constLe

/-- `DefineConstants`, second half: `if prog.walloc.Allocated(c) { continue }; prog.walloc.SetWires(c, wires)`.
The allocator is keyed by the value (for constants: the name). -/
def allocConsts (sorted : List Const) (alloc : List (List Nat × List Bool)) : List (List Nat × List Bool) :=
  sorted.foldl (fun al c => if al.any (fun e => e.1 == c.name) then al else al ++ [(c.name, c.bits)]) alloc

def defineConstants (handed : List Const) : List (List Nat × List Bool) :=
  allocConsts (sortConsts handed) []

/-- Generic collect-then-sort by a natural-number key (`Set.Array`: sort by
`Value.ID`). -/
def sortByKey {α : Type} (key : α → Nat) (handed : List α) : List α :=
  handed.mergeSort (fun a b => decide (key a ≤ key b))

/-! ## 2. search for a value (Type.String, peephole init) -/

/-- types/types.go `Type.String`: `for k, v := range Types { if v == t { return k } }`
(and the same loop shape over `operands` in compiler/ssa/peephole.go init). -/
def findKey {κ υ : Type} [DecidableEq υ] (handed : List (κ × υ)) (t : υ) : Option κ :=
  match handed with
  | [] => none
  | (k, v) :: rest => if v = t then some k else findKey rest t

/-! ## 3. maximum (instructions.go init) -/

/-- compiler/ssa/instructions.go `init`: `for _, v := range operands { if len(v) > max { max = len(v) } }`. -/
def maxLen (handed : List Nat) : Nat :=
  handed.foldl (fun m v => if v > m then v else m) 0

/-! ## 4. Set.Copy / Set.Subtract (maps as lookup functions) -/

def setCopy {υ : Type} (handed : List (Nat × υ)) : Nat → Option υ :=
  handed.foldl (fun m kv => fun k => if k = kv.1 then some kv.2 else m k) (fun _ => none)

def setSubtract {υ : Type} (set : Nat → Option υ) (handedIds : List Nat) : Nat → Option υ :=
  handedIds.foldl (fun m i => fun k => if k = i then none else m k) set

/-! ## 5. Package.Init -/

/-- What Init needs to know of a package.  `imports` is `pkg.Imports` in the
order the map hands the aliases over; `nvars` the number of package-level
variable definitions (each emits a `mov` into the block `.name`; a block
without steps does not show in the listing); `nanon` how many of them are
initialised by `make(...)` (one anonymous SSA value `%_{0,n}` each, numbered by
the generator-wide counter `gen.versions["%_"]`). -/
structure Pkg (ν : Type) where
  name : ν
  imports : List ν
  nvars : Nat
  nanon : Nat
deriving Repr, DecidableEq

def getPkg {ν : Type} [DecidableEq ν] (lib : List (Pkg ν)) (n : ν) : Option (Pkg ν) :=
  lib.find? (fun p => p.name = n)

/-- Generator-side state threaded through `Package.Init`. -/
structure GenSt (ν : Type) where
  /-- packages whose `Initialized` flag is set -/
  initialized : List ν
  /-- emitted initialiser blocks: package, first anonymous value number used -/
  blocks : List (ν × Option Nat)
  /-- next anonymous value version -/
  anon : Nat
deriving Repr, DecidableEq

/-- compiler/ast/package.go `Package.Init`:

    if pkg.Initialized { return block }
    pkg.Initialized = true
    for alias, name := range pkg.Imports { block = packages[alias].Init(...) }
    ... constants, types ...
    block = gen.NextBlock(block); block.Name = "." + pkg.Name
    for _, def := range pkg.Variables { block = def.SSA(block) }

The flag is set before the imports are visited, so import cycles terminate;
`fuel` (number of packages + 1 suffices) only makes the recursion structural.
A missing package is an error in the Go code; the model leaves the state
unchanged (callers pass closed libraries). -/
def initPkg {ν : Type} [DecidableEq ν] : Nat → List (Pkg ν) → ν → GenSt ν → GenSt ν
  | 0, _, _, st => st
  | fuel + 1, lib, p, st =>
    if st.initialized.contains p then st else
    match getPkg lib p with
    | none => st
    | some pk =>
      let st1 : GenSt ν := { st with initialized := p :: st.initialized }
      let st2 := pk.imports.foldl (fun s q => initPkg fuel lib q s) st1
      if pk.nvars = 0 then st2 else
      { st2 with
        blocks := st2.blocks ++ [(p, if pk.nanon = 0 then none else some st2.anon)],
        anon := st2.anon + pk.nanon }

/-! ## 6. State kept between compilations (Compiler.packages) -/

/-- What survives a compilation inside `Compiler.packages`: the imported
packages stay cached together with their `Initialized` flag and the
`NumInstances` counters of their functions.  The `main` package is re-created
by every `compile` (`ast.NewPackage("main", ...)`). -/
structure Cache (ν : Type) where
  initialized : List ν
  instances : ν → Nat

def Cache.empty {ν : Type} : Cache ν := { initialized := [], instances := fun _ => 0 }

/-- A program: its main package, the names of main's own functions, and the
function labels of one compilation in expansion order (every call is
inlined; each expansion takes the next instance number of that function). -/
structure Prog (ν : Type) where
  main : Pkg ν
  mainFuncs : List ν
  calls : List ν

structure Output (ν : Type) where
  initBlocks : List (ν × Option Nat)
  funcLabels : List (ν × Nat)
deriving DecidableEq, Repr

/-- compiler/ast/ssagen.go `Func.SSA`: `name#NumInstances`, `NumInstances++`. -/
def labelCalls {ν : Type} [DecidableEq ν] (calls : List ν) (inst : ν → Nat) : List (ν × Nat) × (ν → Nat) :=
  calls.foldl (fun (acc : List (ν × Nat) × (ν → Nat)) f =>
    (acc.1 ++ [(f, acc.2 f)], fun g => if g = f then acc.2 g + 1 else acc.2 g)) ([], inst)

/-- `Compiler.compile` as far as the cross-compilation state is concerned. -/
def compile {ν : Type} [DecidableEq ν] (lib : List (Pkg ν)) (cache : Cache ν) (prog : Prog ν) :
    Output ν × Cache ν :=
  let mainName := prog.main.name
  let lib' := prog.main :: lib.filter (fun p => p.name ≠ mainName)
  let st0 : GenSt ν := { initialized := cache.initialized.filter (fun n => n ≠ mainName), blocks := [], anon := 0 }
  let st := initPkg (lib'.length + 1) lib' mainName st0
  let inst0 : ν → Nat := fun f => if prog.mainFuncs.contains f then 0 else cache.instances f
  let (labels, inst1) := labelCalls prog.calls inst0
  ({ initBlocks := st.blocks, funcLabels := labels },
   { initialized := st.initialized.filter (fun n => n ≠ mainName),
     instances := fun f => if prog.mainFuncs.contains f then 0 else inst1 f })

/-- `k` compilations of the same program on one `Compiler`. -/
def compileRepeated {ν : Type} [DecidableEq ν] (lib : List (Pkg ν)) (prog : Prog ν) :
    Nat → Cache ν → List (Output ν)
  | 0, _ => []
  | k + 1, cache =>
    let r := compile lib cache prog
    r.1 :: compileRepeated lib prog k r.2

/-- The proposed repair: `compile`/`CompileSSA`/`Stream` start from a fresh
`packages` map (no parsed package survives a compilation). -/
def compileFixed {ν : Type} [DecidableEq ν] (lib : List (Pkg ν)) (_cache : Cache ν) (prog : Prog ν) :
    Output ν × Cache ν :=
  ((compile lib Cache.empty prog).1, Cache.empty)

/-! ## 7. Compiler.parse / parsePkg: the package table is keyed by alias -/

/-- compiler/compiler.go `parse` + `parsePkg`:

    c.packages[pkg.Name] = pkg
    for alias, name := range pkg.Imports { c.parsePkg(alias, name, source) }

    parsePkg: if pkg, ok := c.packages[alias]; ok { return pkg }   // keyed by ALIAS, not by path

`files p` are the imports (alias, path) of the package at path `p` in
hand-over order, `cache` the alias→path table built so far. -/
def parseImports {α π : Type} [DecidableEq α] : Nat → (π → List (α × π)) → List (α × π) → List (α × π) → List (α × π)
  | 0, _, _, cache => cache
  | fuel + 1, files, imports, cache =>
    imports.foldl (fun c ap =>
      if c.any (fun e => e.1 = ap.1) then c
      else parseImports fuel files (files ap.2) (c ++ [ap])) cache

/-- Which path an alias resolves to after parsing. -/
def resolve {α π : Type} [DecidableEq α] (cache : List (α × π)) (a : α) : Option π :=
  (cache.find? (fun e => e.1 = a)).map (·.2)

end Mpc.Det

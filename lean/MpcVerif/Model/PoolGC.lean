/-
The scratch-pool protocol (`Model/Pool.lean`) seen together with the garbage
collector: which `*Garbled` headers are still reachable, and what a collector
may do to a garbling whose header is not.  (Used by C17 only.)

"A garbling stays valid until it is released" is a statement about the DATA of
a garbling — the wire pairs `g.Wires` and the tables `g.Gates`, slices into the
pooled scratch — whoever holds the `*Garbled` header.  The repository's own
callers keep the data and drop the header (`sha2pc.GarblerRound3` returns
`garbled.Gates` in its payload; `Garbler` hands `garbled.Wires` to the OT
sender), so a history has, beside the calls of `Model/Pool.lean`, two more
kinds of event:

* `dropHeader h`: the caller lets go of the `*Garbled` header of an unreleased
  garbling and keeps (copies of the slice headers of) `g.Wires` / `g.Gates`;
  from now on no method can be called on `h` (in particular no `Release`);
* a collection: the collector may run the finalizer of any object that has
  become unreachable.

`gstep?` is parametric in `fin`, whether `Circuit.Garble` attaches a finalizer
to the header it returns whose effect is `Release`.  The code as it is
(circuit/garble.go: `Garble` ends in `return &Garbled{…}, nil`; no
`runtime.SetFinalizer`, `runtime.AddCleanup` or weak pointer in the package —
re-extracted on every run by the effect-set facts of `checks/C17.py`) is
`fin = false`: there is NO collector transition, the only transitions that
`Put` are `Release` (`relPut`) and the error path of `Garble` (`abort`), and a
garbling whose header was dropped keeps its scratch forever ("skipping Release
just forgoes reuse").  `fin = true` is the contract-free variant used to
exhibit why the theorems need "no Put without an explicit Release by the
owner".  Core Lean only.
-/
import MpcVerif.Model.Pool

namespace Mpc.Pool

/-- Pool state plus the collector's view. -/
structure GState (Mem Job : Type) where
  σ : State Mem Job
  /-- `retained h = some x`: every reference to the `*Garbled` header `h` is
  gone, the caller still holds `g.Wires` / `g.Gates`, which alias the buffers
  of scratch `x` -/
  retained : HandleId → Option ScratchId

def ginit {Mem Job : Type} (P : Params Mem Job) : GState Mem Job :=
  { σ := init P, retained := fun _ => none }

inductive GAction (Job : Type) where
  /-- a step of `Model/Pool.lean` -/
  | base (a : Action Job)
  /-- drop the header of unreleased garbling `h`, keep its data -/
  | dropHeader (h : HandleId)
  /-- the collector runs the finalizer attached to header `h` -/
  | finalize (h : HandleId)

/-- The handle on whose HEADER an action is a method call or a dereference
(`g.Release()`, `*g`); `read` goes through the retained slices and needs no
header. -/
def usesHeader {Job : Type} : Action Job → Option HandleId
  | .relBegin h => some h
  | .copyHandle h => some h
  | _ => none

/-- One atomic step of goroutine `t` (for `finalize`: of the runtime's
finalizer goroutine `t`). -/
def gstep? {Mem Job : Type} (P : Params Mem Job) (fin : Bool) (γ : GState Mem Job) (t : Tid) :
    GAction Job → Option (GState Mem Job)
  | .base a =>
    let blocked := match usesHeader a with
      | some h => (γ.retained h).isSome
      | none => false
    if blocked then none
    else match step? P true γ.σ t a with
      | some σ' => some { γ with σ := σ' }
      | none => none
  | .dropHeader h =>
    match γ.σ.pc t, γ.σ.handle h with
    | .idle, some H =>
      if H.user.isSome || (γ.retained h).isSome || !H.pool.isSome then none
      else match H.scratch with
        | some x => some { γ with retained := upd γ.retained h (some x) }
        | none => none
    | _, _ => none
  | .finalize h =>
    if !fin then none            -- no finalizer is attached: the transition does not exist
    else match γ.retained h with
      | none => none             -- the header is reachable: the collector leaves it alone
      | some _ =>
        -- the finalizer is `(*Garbled).Release`
        match runSched P true γ.σ [(t, .relBegin h), (t, .relPut), (t, .relClear)] with
        | some σ' => some { γ with σ := σ' }
        | none => none

/-- What the holder of the retained slices of garbling `h` reads. -/
def retainedVal {Mem Job : Type} (γ : GState Mem Job) (h : HandleId) : Option Mem :=
  (γ.retained h).map γ.σ.mem

def grunSched {Mem Job : Type} (P : Params Mem Job) (fin : Bool) :
    GState Mem Job → List (Tid × GAction Job) → Option (GState Mem Job)
  | γ, [] => some γ
  | γ, (t, a) :: rest =>
    match gstep? P fin γ t a with
    | some γ' => grunSched P fin γ' rest
    | none => none

inductive GReachable {Mem Job : Type} (P : Params Mem Job) (fin : Bool) : GState Mem Job → Prop where
  | init : GReachable P fin (ginit P)
  | step {γ γ' : GState Mem Job} (t : Tid) (a : GAction Job) :
      GReachable P fin γ → gstep? P fin γ t a = some γ' → GReachable P fin γ'

/-- Finite runs (histories with header drops and collections). -/
inductive GSteps {Mem Job : Type} (P : Params Mem Job) (fin : Bool) :
    GState Mem Job → GState Mem Job → Prop where
  | refl (γ : GState Mem Job) : GSteps P fin γ γ
  | tail {γ γ' γ'' : GState Mem Job} (t : Tid) (a : GAction Job) :
      GSteps P fin γ γ' → gstep? P fin γ' t a = some γ'' → GSteps P fin γ γ''

/-! ### Observable traces with header drops and collection points

Beside the events of `Model/Pool.lean` the GC-history harness logs
`D t h`: goroutine `t` has dropped the header of garbling `h` and keeps only
its `Wires` / `Gates` slices (every later `V t h d` reads through those);
`K t`: `t` forced collections (`runtime.GC()`, then gave the finalizer
goroutine time to run).
In GC histories a scratch object is identified by the address of the wire
buffer `g.Wires` aliases (the retained slices keep it alive, so the number of
a live garbling's scratch cannot be recycled).  The replay runs the model of
the code as it is (`fin = false`): a collection enables nothing, a dropped
garbling keeps its scratch, so a later `G` on the same scratch is rejected
(`scratch-not-free`) and a changed digest of retained data is
`content-changed`. -/

inductive GEv where
  | base (e : Ev)
  | drop (t h : Nat)
  | collect (t : Nat)

structure GRState where
  r        : RState
  retained : HandleId → Option ScratchId := fun _ => none
  dropped  : Nat := 0
  collects : Nat := 0

def replayGEv (g : GRState) : GEv → Except String GRState
  | .base e => do
    -- a method call through a header that no longer exists is not a run
    match e with
    | .release _ h => if (g.retained h).isSome then .error "release-of-dropped" else pure ()
    | .release2 _ h => if (g.retained h).isSome then .error "release-of-dropped" else pure ()
    | _ => pure ()
    let r ← replayEv g.r e
    pure { g with r := r }
  | .drop t h =>
    match gstep? traceParams false { σ := g.r.σ, retained := g.retained } t (.dropHeader h) with
    | some γ => pure { g with retained := γ.retained, dropped := g.dropped + 1 }
    | none => .error "drop-not-allowed"
  | .collect t =>
    -- the collector may take any enabled `finalize` step: with `fin = false` there is none
    match g.r.σ.pc t with
    | .idle => pure { g with collects := g.collects + 1 }
    | _ => .error "thread-busy"

def replayG : GRState → Nat → List GEv → Except String GRState
  | g, _, [] => .ok g
  | g, i, e :: es =>
    match replayGEv g e with
    | .ok g' => replayG g' (i + 1) es
    | .error m => .error s!"reject@{i}:{m}"

end Mpc.Pool

/-
Programs in which ONE constant is used SEVERAL times (harness mode `uses`).  Core Lean only.
(Property C12: "the folded result AS SEEN BY THE REST OF THE PROGRAM".)

    c0 := T(a); c1 := T(b)            declarations (`:=`, or package-level `const c0 = T(a)`)
    f2 := c0 &^ c1                    folds: operands are variables bound to constants —
    f3 := c0 + c1                       declarations or the results of earlier folds
    f4 := f2 << 3
    r0 := c0 ^ x0; r2 := f2 + x2 …    every variable is also used with a run-time input

A variable bound to a constant holds an `ssa.Value` whose `ConstValue` is ONE `*mpa.Int`: every fold that
names the variable passes that object to `Binary.evalConst` (compiler/ast/eval.go), and the constant's
wires are made from it later, at circuit generation (`Program.DefineConstants`), after all folds.  Folding
is specified as a function of the operand VALUES (`Model/Fold.lean evalBin`); that this is all it does —
the binding of an operand still holds the declared constant afterwards — is a property of its own, and
`runUses` makes it a parameter (`WriteBack`) so that it can be stated and so that the model of a folder
that stores into an operand exists as well (`inPlaceLeft`, for the witness).  The driver instantiates
`pureFold`, the code as it is.
-/
import MpcVerif.Model.FoldTable

namespace Mpc.Fold
open Mpc.Mpa

/-- One fold `f := v_l op v_r` (`v_l << r`, `-v_l`): `l`, `r` are variable indices (declarations first,
then the results of the earlier folds); for a shift `r` is the literal count. -/
structure Use where
  op : Op
  l : Nat
  r : Nat
  deriving DecidableEq, Repr, Inhabited

/-- A variable bound to a constant: the Name `Generator.Constant` gave the constant when it was made (the
key of `gen.constants` and of the wire allocator — it is text, it does not follow the object) and the
constant, whose `mpa.Int` is an object that lives on. -/
abbrev Bound := String × CV

def getVar (env : List Bound) (i : Nat) : Res CV :=
  match env[i]? with
  | some c => .ok c.2
  | none => .error .compileError

/-- The right operand of a use: a literal count for the shifts, the left operand again for unary minus. -/
def Use.right (u : Use) (env : List Bound) : Res CV :=
  if u.op == .neg then getVar env u.l
  else if u.op.isShift then literal u.r
  else getVar env u.r

/-- What the fold computes from the constants its operands are bound to (`Binary.Eval` / `Unary.Eval`). -/
def Use.eval (u : Use) (env : List Bound) : Res CV := do
  let l ← getVar env u.l
  let r ← u.right env
  if u.op == .neg then negate l else evalBin u.op l r

/-- What the object of the LEFT operand holds after a fold: `op l r result ↦ l'`. -/
abbrev WriteBack := Op → CV → CV → CV → CV

/-- Folding as specified: operands are read only. -/
def pureFold : WriteBack := fun _ l _ _ => l

/-- A folder whose large-path `&^` computes into the big value of its left operand (`x.big().AndNot(x.big(),
y.big())`): the operand's object then holds the result's value; type and Name of its `ssa.Value` stay. -/
def inPlaceLeft : WriteBack := fun op l _ res =>
  match op, l, res with
  | .bclr, .int t v, .int _ rv => if t.bits > 64 then .int t { v with big := some rv.bigv } else l
  | _, _, _ => l

def setObj (env : List Bound) (i : Nat) (c : CV) : List Bound :=
  match env[i]? with
  | some b => env.set i (b.1, c)
  | none => env

/-- The bindings after a sequence of folds: every fold appends its result under the Name it has now; the
object of the left operand holds what the write-back policy leaves. -/
def runUses (nm : CV → String) (wb : WriteBack) (env : List Bound) : List Use → Res (List Bound)
  | [] => .ok env
  | u :: rest =>
    match u.eval env, getVar env u.l, u.right env with
    | .ok res, .ok l, .ok r => runUses nm wb (setObj env u.l (wb u.op l r res) ++ [(nm res, res)]) rest
    | .error e, _, _ => .error e
    | _, .error e, _ => .error e
    | _, _, .error e => .error e

/-- A `uses` program: type, declarations (value, form), folds, one consumer per variable. -/
structure UsesProg where
  k : Kind
  n : Nat
  decls : List (Int × Form)
  uses : List Use
  cons : List Consumer
  deriving Repr, Inhabited

def UsesProg.declared (nm : CV → String) (p : UsesProg) : Res (List Bound) :=
  p.decls.mapM (fun d => (typedConst p.k p.n d.1 d.2).map (fun c => (nm c, c)))

/-- What an instruction input bound to `c` reads at `n` wires of kind `k` (`cvSeen` with the Name the constant
was made with; the wires are made from the objects as they are at circuit generation). -/
def boundSeen (tbl : List Bound) (k : Kind) (n : Nat) (c : Bound) : Nat :=
  seenWires (·.1) (fun b => cvBits b.2) (fun b => cvWires b.2) tbl c n (cvOwn k n c.2) % 2 ^ n

/-- Output of one variable at `x = 0`: a bool is returned as it is; an integer constant goes through its
consumer (`^ x`, `+ x`, `x -`: `Value.TypeCompatible` of a constant and a run-time value needs
`CanAssignConst`, i.e. `MinBits ≤ n`) and is read from the program's constant table. -/
def varOutput (tbl : List Bound) (k : Kind) (n : Nat) (c : Bound) (cons : Consumer) : Res Nat :=
  match c.2 with
  | .bool b => .ok (if b then 1 else 0)
  | .int t _ => if n < t.minBits then .error .compileError else .ok (consumeAt0 cons n (boundSeen tbl k n c))

/-- Driver entry: the outputs of the constant variant at `x = 0`.  Registration order = variable order
(every `:=` / `const` registers its constant: `Assign.SSA`, `Package.defineConstant`); the first instance
of a Name is the table's entry. -/
def usesOutputs (nm : CV → String) (wb : WriteBack) (p : UsesProg) : Res (List Nat) := do
  let env ← p.declared nm
  let final ← runUses nm wb env p.uses
  let tbl := table (·.1) final
  (final.zip p.cons).mapM (fun (c, cons) => varOutput tbl p.k p.n c cons)

/-- What the run-time variant computes for the declared variable `i` at `x = 0`. -/
def UsesProg.runtimeDecl (p : UsesProg) (i : Nat) : Option Nat :=
  match p.decls[i]?, p.cons[i]? with
  | some d, some c => some (consumeAt0 c p.n (BitVec.ofInt p.n d.1).toNat)
  | _, _ => none

end Mpc.Fold

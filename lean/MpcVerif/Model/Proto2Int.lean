/-
The input-encoding layer of the two-party protocol (property C02): how the
`*big.Int` values that the public API accepts as a party's private input
become wire bits.

  circuit/garbler.go    Garbler:   `LabelForBit(wire, inputs.Bit(i) == 1)`  for i < Inputs[0].Type.Bits
  circuit/evaluator.go  Evaluator: `flags[i] = inputs.Bit(i) == 1`          for i < Inputs[1].Type.Bits
  circuit/computer.go   Compute:   `wires[w] = byte(inputs[idx].Bit(bit))`  per flattened argument
  circuit/ioarg.go      IOArg.Parse, compound case:
                        `result.SetBit(result, offset+i, input.Bit(i))`     per member

All four read an input through `big.Int.Bit`, which is defined for EVERY
integer: for a negative value it is the bit of the infinite two's-complement
representation (math/big: `nat.sub(x.abs, 1).bit(i) ^ 1`).  A negative
`*big.Int` is what `IOArg.Parse` returns for a non-compound argument given as
"-5" (`result.SetString(inputs[0], 0)`), and nothing bounds the magnitude by
the declared width: bits beyond the width are never read.

`Proto2.run2` takes bit lists; this file adds the integers in front of it.
The text -> integer step (`SetString`, array packing) is property C13's model
(`Model/IoArg.lean`).  Core Lean only.
-/
import MpcVerif.Model.Proto2

namespace Mpc

/-- `big.Int.Bit(i)`: for `x >= 0` the bit of the magnitude, for `x < 0`
(`x = -(n+1)`) the complement of the bit of `|x| - 1 = n`. -/
def bigIntBit (v : Int) (i : Nat) : Bool :=
  match v with
  | .ofNat n => n.testBit i
  | .negSucc n => !n.testBit i

/-- The `w` wire bits of one argument of declared width `w`:
`for i := 0; i < w; i++ { ... v.Bit(i) ... }`. -/
def bitsOfInt (w : Nat) (v : Int) : List Bool := (List.range w).map (bigIntBit v)

/-- The low `w` bits of a natural number. -/
def natBits (w n : Nat) : List Bool := (List.range w).map n.testBit

/-- What one gets from the machine words of `big.Int.Bits()` instead: the words
hold the ABSOLUTE value (`x.abs`), the sign is kept apart. -/
def absBits (w : Nat) (v : Int) : List Bool := (List.range w).map v.natAbs.testBit

/-- A party's argument as flattened members `(declared width, value)`: one
member for a plain argument, one per field for a struct
(`IOArg.Compound`).  `Circuit.Compute` takes exactly this list (its `inputs`
parallel to the flattened `args`). -/
abbrev ArgVals := List (Nat × Int)

def argWidth (a : ArgVals) : Nat := (a.map (·.1)).sum

/-- The wire bits of an argument: member after member, each `Bits` wide, bit
`i` of member `k` is `value_k.Bit(i)`.  For one member this is what
`Garbler`/`Evaluator` read from the value directly; for several it is what
they read from the packed value that `IOArg.Parse` builds with
`SetBit(offset+i, input.Bit(i))`; and it is the wire assignment of
`Circuit.Compute`. -/
def encodeArg (a : ArgVals) : List Bool := a.flatMap fun m => bitsOfInt m.1 m.2

/-- The packed non-negative value `IOArg.Parse` returns for a compound
argument. -/
def packArg (a : ArgVals) : Nat := packLE (encodeArg a)

/-- `Circuit.Compute(inputs)` followed by nothing else: the flattened
arguments of both parties give the input wires, the gates are evaluated, the
last wires are cut per declared output. -/
def Circuit2.computeInts (p : Circuit2) (xs ys : ArgVals) : List Bool :=
  p.c.compute (encodeArg (xs ++ ys))

variable {L : Type} [LabelAlg L]

/-- A complete session whose inputs are the integers handed to
`circuit.Garbler` / `circuit.Evaluator`. -/
def run2Int [DecidableEq L] (p : Circuit2) (mkH : List UInt8 → Hash L) (key : List UInt8) (r : L)
    (inl : Nat → L) (xs ys : ArgVals) (ot : OtFun L) : Except ProtoErr (List Nat × List Nat) :=
  run2 p mkH key r inl (encodeArg xs) (encodeArg ys) ot

end Mpc

/-
Executable model of the constant-folding path of the MPCL compiler and of the
meaning of the run-time instruction the compiler emits for the same operator.
Core Lean only.

Mirrors
  * compiler/lexer.go  (integer literal -> `mpa.Parse`)                `literal`
  * compiler/ssa/generator.go `Generator.Constant` (case *mpa.Int)     `constantMpa`
  * compiler/ast/eval.go `Call.Eval` (typed conversion of a constant)  `cast`
  * compiler/ast/eval.go `Unary.Eval`                                  `negate`, `evalNot`
  * compiler/ast/ssagen.go `Binary.resultType`, eval.go `evalConst`    `evalBin`
  * compiler/ast/ssagen.go `Return.SSA` (`CanAssign`) and
    ssa/program.go `DefineConstants` + ssa/value.go `isSet` +
    ssa/circuitgen.go `Mov`                                            `retSeen`, `constWires`
  * ssa/circuitgen.go per-instruction wiring + compiler/circuits       `circuitOp`, `circuitCmp`
    (bit-vector meaning; the builders are the subject of C07, the
    instruction selection is tied by the `rt` correspondence lines)
-/
import MpcVerif.Model.Mpa

namespace Mpc.Fold
open Mpc.Mpa

inductive Kind where
  | int | uint | bool
  deriving DecidableEq, Repr, Inhabited

/-- `types.Info` of an integer constant: kind, `Bits`, `MinBits`. -/
structure TInfo where
  kind : Kind
  bits : Nat
  minBits : Nat
  deriving DecidableEq, Repr, Inhabited

/-- A constant `ssa.Value`. -/
inductive CV where
  | int (t : TInfo) (v : MInt)
  | bool (b : Bool)
  deriving DecidableEq, Repr, Inhabited

inductive Err where
  | compileError   -- the compiler reports an error
  | panic          -- the compiler crashes
  deriving DecidableEq, Repr, Inhabited

abbrev Res := Except Err

def liftP {α} (o : Option α) : Res α :=
  match o with
  | some a => .ok a
  | none => .error .panic

/-- `Generator.Constant(value *mpa.Int, ti)`: the value is sized 32 / 64 / n
from its own bit length (`SetTypeSize`), the type is widened to that size,
`MinBits` is the bit length. -/
def constantMpa (val : MInt) (ti : Option TInfo) : Res CV :=
  let minBits := val.bitLen
  let bits := constSize minBits
  let kind := match ti with | some t => t.kind | none => Kind.int
  let tb := match ti with | some t => t.bits | none => 0
  let tb' := if tb < bits then bits else tb
  if minBits > tb' then .error .panic
  else .ok (.int ⟨kind, tb', minBits⟩ { val with bits := bits })

/-- Integer literal: lexer `mpa.Parse`, then `BasicLit.Eval` = `Constant(v, Undefined)`. -/
def literal (v : Nat) : Res CV := constantMpa (setBig v) none

/-- `Unary.Eval`, `UnaryMinus`: `r := NewInt(0, Type.Bits); Constant(r.Sub(r, val), Type)`. -/
def negate (c : CV) : Res CV :=
  match c with
  | .int t v => do
    let r := newInt 0#64 t.bits
    let d ← liftP (Mpa.sub r r v)
    constantMpa d (some t)
  | .bool _ => .error .compileError

/-- `Unary.Eval`, `UnaryNot`. -/
def evalNot (c : CV) : Res CV :=
  match c with
  | .bool b => .ok (.bool !b)
  | .int _ _ => .error .compileError

/-- `Call.Eval` for `intN(c)` / `uintN(c)`: only the type changes. -/
def cast (k : Kind) (n : Nat) (c : CV) : Res CV :=
  match c with
  | .int t v => .ok (.int ⟨k, n, if t.minBits > n then n else t.minBits⟩ v)
  | .bool _ => .error .compileError

inductive Op where
  | add | sub | mul | div | mod | band | bor | bxor | bclr | shl | shr
  | lt | le | gt | ge | eq | ne | neg | lnot | land | lor
  deriving DecidableEq, Repr, Inhabited

def Op.isCmp : Op → Bool
  | .lt | .le | .gt | .ge | .eq | .ne => true
  | _ => false

def Op.isShift : Op → Bool
  | .shl | .shr => true
  | _ => false

def Op.isArith : Op → Bool
  | .add | .sub | .mul | .div | .mod | .band | .bor | .bxor | .bclr => true
  | _ => false

def parseOp (s : String) : Option Op :=
  match s with
  | "+" => some .add | "-" => some .sub | "*" => some .mul | "/" => some .div | "%" => some .mod
  | "&" => some .band | "|" => some .bor | "^" => some .bxor | "&^" => some .bclr
  | "<<" => some .shl | ">>" => some .shr
  | "<" => some .lt | "<=" => some .le | ">" => some .gt | ">=" => some .ge | "==" => some .eq | "!=" => some .ne
  | "neg" => some .neg | "not" => some .lnot | "&&" => some .land | "||" => some .lor
  | _ => none

/-- The comparison result from `Cmp`'s -1/0/1 as `evalConst` tests it. -/
def cmpResult (op : Op) (c : Int) : Bool :=
  match op with
  | .eq => c == 0
  | .ne => c != 0
  | .lt => c == -1
  | .le => c != 1
  | .gt => c == 1
  | .ge => c != -1
  | _ => false

/-- `Binary.evalConst` (after `resultType`) on two constants. -/
def evalBin (op : Op) (l r : CV) : Res CV :=
  match l, r with
  | .bool a, .bool b =>
    match op with
    | .eq => .ok (.bool (a == b))
    | .ne => .ok (.bool (a != b))
    | .land => .ok (.bool (a && b))
    | .lor => .ok (.bool (a || b))
    | _ => .error .compileError
  | .int lt lv, .int rt rv =>
    if op.isCmp then do
      let c ← liftP (Mpa.cmp lv rv)
      .ok (.bool (cmpResult op c))
    else if op.isShift then do
      let z ← liftP (Mpa.new lt.bits)
      let cnt ← liftP rv.int64
      let res ← liftP (if op == .shl then Mpa.lsh z lv cnt.toNat else Mpa.rsh z lv cnt.toNat false)
      constantMpa res (some lt)
    else if op.isArith then
      -- `TypeCompatible` of two constants: same kind, the LEFT type wins
      if lt.kind ≠ rt.kind then .error .compileError else do
      let z ← liftP (Mpa.new lt.bits)
      let res ← liftP (match op with
        | .add => Mpa.add z lv rv
        | .sub => Mpa.sub z lv rv
        | .mul => Mpa.mul z lv rv
        | .div => Mpa.div z lv rv
        | .mod => Mpa.mod z lv rv
        | .band => Mpa.and z lv rv
        | .bor => Mpa.or z lv rv
        | .bxor => Mpa.xor z lv rv
        | _ => Mpa.andNot z lv rv)
      constantMpa res (some lt)
    else .error .compileError
  | _, _ => .error .compileError

/-- How a typed constant operand is written in the program text. -/
inductive Form where
  | pos    -- `T(v)`, v ≥ 0
  | cast   -- `T(-v)`: conversion of the folded untyped `-v`
  | neg    -- `-T(v)`: unary minus applied to the typed constant
  deriving DecidableEq, Repr, Inhabited

/-- The typed constant of value `a` (|a| given by the literal) in form `f`. -/
def typedConst (k : Kind) (n : Nat) (a : Int) (f : Form) : Res CV :=
  match f with
  | .pos => literal a.natAbs >>= cast k n
  | .cast => literal a.natAbs >>= negate >>= cast k n
  | .neg => literal a.natAbs >>= cast k n >>= negate

/-- The whole constant expression of one generated case. -/
def foldExpr (op : Op) (k : Kind) (n : Nat) (a b : Int) (af bf : Form) : Res CV :=
  if k == .bool then
    if op == .lnot then evalNot (.bool (a != 0))
    else evalBin op (.bool (a != 0)) (.bool (b != 0))
  else do
    let l ← typedConst k n a af
    if op == .neg then negate l
    else if op.isShift then do
      let r ← literal b.natAbs
      evalBin op l r
    else do
      let r ← typedConst k n b bf
      evalBin op l r

/-- The wires `DefineConstants` creates for an integer constant, as a number:
bit `i < Type.Bits` is `i < BitLen ∧ Bit(i)` (`ssa.isSet`). -/
def constWires (t : TInfo) (v : MInt) : Nat :=
  (if v.isSmall then v.small.toNat else wires v.bigv v.bitLen) % 2 ^ t.bits

/-- What `return c` delivers into a result of kind `k` and `n` bits:
`CanAssignConst` (needs `n ≥ MinBits`), then `mov` copies the low wires and
zero-fills. -/
def retSeen (k : Kind) (n : Nat) (c : CV) : Res Nat :=
  match c with
  | .bool b => if k == .bool then .ok (if b then 1 else 0) else .error .compileError
  | .int t v =>
    if k == .bool then .error .compileError
    else if n < t.minBits then .error .compileError
    else .ok (constWires t v % 2 ^ n)

/-! ## The run-time instruction (bit-vector meaning) -/

/-- `NewUDividerLong`: by zero the quotient is all ones, the remainder the dividend. -/
def udivBV {n : Nat} (x y : BitVec n) : BitVec n := if y = 0#n then BitVec.allOnes n else x / y
def umodBV {n : Nat} (x y : BitVec n) : BitVec n := if y = 0#n then x else x % y

/-- Magnitude by two's complement negation (`NewIDivider`). -/
def absBV {n : Nat} (x : BitVec n) : BitVec n := if x.msb then -x else x

/-- `NewIDivider`: quotient truncates toward zero (testsuite/lang/divi.mpcl). -/
def idivBV {n : Nat} (x y : BitVec n) : BitVec n :=
  let q0 := udivBV (absBV x) (absBV y)
  if x.msb != y.msb then -q0 else q0

/-- `NewIDivider`, remainder: `|x| mod |y|` (testsuite/lang/modi.mpcl). -/
def imodBV {n : Nat} (x y : BitVec n) : BitVec n := umodBV (absBV x) (absBV y)

/-- Integer-valued instructions (`iadd/uadd … srshift`, `isub $0 x`) on `n`-bit operands;
for the shifts `cnt` is the constant count. -/
def circuitOp {n : Nat} (op : Op) (signed : Bool) (x y : BitVec n) (cnt : Nat) : BitVec n :=
  match op with
  | .add => x + y
  | .sub => x - y
  | .mul => x * y
  | .div => if signed then idivBV x y else udivBV x y
  | .mod => if signed then imodBV x y else umodBV x y
  | .band => x &&& y
  | .bor => x ||| y
  | .bxor => x ^^^ y
  | .bclr => x &&& ~~~y
  | .shl => x <<< cnt
  | .shr => if signed then x.sshiftRight cnt else x >>> cnt
  | .neg => 0#n - x
  | _ => 0#n

/-- Comparison instructions (`ilt/ult … eq neq`). -/
def circuitCmp {n : Nat} (op : Op) (signed : Bool) (x y : BitVec n) : Bool :=
  match op with
  | .lt => if signed then x.slt y else x.ult y
  | .le => if signed then x.sle y else x.ule y
  | .gt => if signed then y.slt x else y.ult x
  | .ge => if signed then y.sle x else y.ule x
  | .eq => x == y
  | .ne => x != y
  | _ => false

/-- Boolean instructions (`eq neq and or not` on 1-bit values). -/
def circuitBool (op : Op) (a b : Bool) : Bool :=
  match op with
  | .eq => a == b
  | .ne => a != b
  | .land => a && b
  | .lor => a || b
  | .lnot => !a
  | _ => false

/-- Driver entry: result of the run-time variant `return a op b` as a number. -/
def circuitOpNat (op : Op) (k : Kind) (n : Nat) (a b : Int) : Nat :=
  if k == .bool then (if circuitBool op (a != 0) (b != 0) then 1 else 0)
  else
    let x := BitVec.ofInt n a
    let y := BitVec.ofInt n b
    if op.isCmp then (if circuitCmp op (k == .int) x y then 1 else 0)
    else (circuitOp op (k == .int) x y b.toNat).toNat

/-! ## The region covered by the theorems (decidable; evaluated by the driver)

`hyps op signed n l r` lists the hypotheses of the operator theorems of
Props/C12.lean that the operand constants `l`, `r` violate; the empty list
means that the theorem for `op` applies (`covered`).  The check uses it to
attribute every oracle failure on the unchanged tree to a named hypothesis. -/

/-- The low `n` wires of a constant. -/
def seenBV (n : Nat) (c : CV) : BitVec n :=
  match c with
  | .int t v => BitVec.ofNat n (constWires t v)
  | .bool b => BitVec.ofNat n (if b then 1 else 0)

/-- Operand of the small path: `mpa` size and type size in 1..64, type at least `n` bits. -/
def smallOperand (n : Nat) (c : CV) : Bool :=
  match c with
  | .int t v => decide (0 < v.bits ∧ v.bits ≤ 64 ∧ n ≤ t.bits ∧ t.bits ≤ 64)
  | .bool _ => false

/-- The `int64` holds exactly the sign (signed) resp. zero (unsigned) extension
of the `n` seen bits; an unsigned 64-bit value must not have bit 63 set (it
would be a negative `int64`). -/
def extended (signed : Bool) (n : Nat) (c : CV) : Bool :=
  match c with
  | .int _ v =>
    if signed then v.small == (seenBV n c).signExtend 64
    else v.small == (seenBV n c).setWidth 64 && !v.small.msb
  | .bool _ => false

/-- Non-negative operand held exactly. -/
def cleanNonneg (signed : Bool) (n : Nat) (c : CV) : Bool :=
  match c with
  | .int _ v => v.small == (seenBV n c).setWidth 64 && !v.small.msb && (!signed || !(seenBV n c).msb)
  | .bool _ => false

/-- `Int64()` (sign taken from the `mpa` size, not from the type) is the typed value. -/
def int64Agrees (signed : Bool) (n : Nat) (c : CV) : Bool :=
  match c with
  | .int _ v =>
    match v.int64 with
    | some i => if signed then i.toInt == (seenBV n c).toInt else i.toInt == ((seenBV n c).toNat : Int)
    | none => false
  | .bool _ => false

def mpaBits : CV → Nat
  | .int _ v => v.bits
  | .bool _ => 0

def sameKind : CV → CV → Bool
  | .int a _, .int b _ => a.kind == b.kind
  | .bool _, .bool _ => true
  | _, _ => false

def mpaOf : CV → MInt
  | .int _ v => v
  | .bool _ => { bits := 1 }

/-- `Cmp` (small: `Int64()`, large: `signed(bits-1)`) sees the typed values. -/
def cmpAgrees (signed : Bool) (n : Nat) (l r : CV) : Bool :=
  let typed (c : CV) : Int := if signed then (seenBV n c).toInt else ((seenBV n c).toNat : Int)
  if (mpaOf l).isSmall && (mpaOf r).isSmall then int64Agrees signed n l && int64Agrees signed n r
  else (mpaOf l).signedVal == typed l && (mpaOf r).signedVal == typed r

/-- The big image of the `mpa` value is the non-negative number the constant's wires show: `0 ≤ big() < 2^bits`
(true of every literal, of `-T(v)` and of every folded result for types wider than 64 bits; false for a
negative `int64` image such as the 64-bit fold of an untyped `-v`). -/
def imageExact (c : CV) : Bool :=
  match c with
  | .int _ v => decide (0 ≤ v.bigv ∧ v.bigv < ((2 ^ v.bits : Nat) : Int))
  | .bool _ => false

/-- Large `Rsh` is `big.Rsh` (logical on the image): right for an operand that fits `n` bits and, for `intN`,
is not negative. -/
def extendedWide (signed : Bool) (n : Nat) (c : CV) : Bool :=
  match c with
  | .int _ v => imageExact c && decide (v.bigv < ((2 ^ n : Nat) : Int)) && (!signed || !(seenBV n c).msb)
  | .bool _ => false

/-- Large `Div`/`Mod` build a SIGNED divider of `max(x.bits, y.bits)` bits whose operands are read as signed
numbers of their OWN sizes: right for non-negative operands below half their own size (and below 2^(n-1) for
`intN`); a zero divisor gives `m` ones instead of `n`. -/
def divWide (signed : Bool) (n : Nat) (l r : CV) : Bool :=
  let x := mpaOf l
  let y := mpaOf r
  imageExact l && imageExact r &&
  decide (x.bigv < ((2 ^ (x.bits - 1) : Nat) : Int) ∧ y.bigv < ((2 ^ (y.bits - 1) : Nat) : Int) ∧ y.bigv ≠ 0 ∧
          x.bigv < ((2 ^ n : Nat) : Int) ∧ y.bigv < ((2 ^ n : Nat) : Int)) &&
  (!signed || (!(seenBV n l).msb && !(seenBV n r).msb))

/-- Types of large-path operands: the left type (it fixes the receiver `mpa.New(Bits)`) wider than 64 bits and
at least `n` bits; the right type at least `n` bits unless it is a shift count. -/
def typesWide (op : Op) (n : Nat) (l r : CV) : Bool :=
  match l, r with
  | .int lt _, .int rt _ => decide (64 < lt.bits ∧ n ≤ lt.bits ∧ (op.isShift = true ∨ op = .neg ∨ n ≤ rt.bits))
  | _, _ => false

/-- Large path (`n > 64`): the hypotheses of the large-path theorems, by name. -/
def hypsWide (op : Op) (signed : Bool) (n : Nat) (l r : CV) : List String :=
  let h (name : String) (ok : Bool) : List String := if ok then [] else [name]
  h "wide-operand-type" (typesWide op n l r) ++
  (match op with
   | .add | .sub | .mul | .band | .bor | .bxor | .bclr =>
     h "wide-operand-image" (imageExact l && imageExact r) ++ h "kind" (sameKind l r)
   | .shl | .neg => h "wide-operand-image" (imageExact l)
   | .div | .mod => h "wide-signed-divider-at-operand-size" (divWide signed n l r) ++ h "kind" (sameKind l r)
   | .shr => h "wide-rsh-not-arithmetic" (extendedWide signed n l)
   | .lt | .le | .gt | .ge | .eq | .ne => h "wide-cmp-sign-from-operand-size" (cmpAgrees signed n l r)
   | _ => ["not-an-integer-operator"])

/-- Violated hypotheses of the theorem for `op` (integer operands, `n` bits). -/
def hyps (op : Op) (signed : Bool) (n : Nat) (l r : CV) : List String :=
  let h (name : String) (ok : Bool) : List String := if ok then [] else [name]
  if n > 64 then hypsWide op signed n l r else
  h "small-operands" (smallOperand n l && (op == .neg || smallOperand (if op.isShift then 0 else n) r)) ++
  (match op with
   | .add | .sub | .mul | .band | .bor | .bxor | .bclr => h "kind" (sameKind l r)
   | .div | .mod => h "nonneg-exact" (cleanNonneg signed n l && cleanNonneg signed n r) ++ h "kind" (sameKind l r)
   | .shl => []
   | .shr => h "extended" (extended signed n l)
   | .lt | .le | .gt | .ge | .eq | .ne => h "int64" (int64Agrees signed n l && int64Agrees signed n r)
   | .neg => []
   | _ => ["not-an-integer-operator"])

/-- The operands of one generated case as the compiler builds them. -/
def operands (op : Op) (k : Kind) (n : Nat) (a b : Int) (af bf : Form) : Res (CV × CV) := do
  let l ← typedConst k n a af
  if op == .neg then pure (l, l)
  else if op.isShift then do
    let r ← literal b.natAbs
    pure (l, r)
  else do
    let r ← typedConst k n b bf
    pure (l, r)

/-- Driver entry: violated hypotheses of one generated case, and whether the
operands hold the intended values at all (`operand-value`). -/
def caseHyps (op : Op) (k : Kind) (n : Nat) (a b : Int) (af bf : Form) : List String :=
  if k == .bool then [] else
  match operands op k n a b af bf with
  | .error _ => ["operand-error"]
  | .ok (l, r) =>
    (if seenBV n l == BitVec.ofInt n a && (op == .neg || op.isShift || seenBV n r == BitVec.ofInt n b)
     then [] else ["operand-value"]) ++ hyps op (k == .int) n l r

/-! ## Constants shared by name, used at a second width (`Program.Circuit`, repo 3c18dfa) -/

/-- `ssa.isSet` for an integer constant: bits at or above `BitLen` read as 0. -/
def isSetBit (v : MInt) (i : Nat) : Bool := decide (i < v.bitLen) && v.bit i

/-- The `n` wires of a constant operand whose name was first registered with another width: the bits come
from the constant's own value; above its own size (`mpa` size, capped at `n`) a `TInt` constant repeats
bit `own-1`, a `TUint` constant is zero. -/
def rewiden (signed : Bool) (n : Nat) (v : MInt) : Nat :=
  let own := min v.bits n
  (List.range n).foldl (fun acc i =>
    let src := if i ≥ own ∧ signed then own - 1 else i
    if decide (src < own) && isSetBit v src then acc + 2 ^ i else acc) 0

/-- Driver entry for the alias oracle: `T1(v) + y, T2(v2) + x` at `y = x = 0`; the first constant fixes the
wires of the shared name, the second is re-widened when the widths differ. -/
def aliasOutputs (k1 : Kind) (n1 : Nat) (k2 : Kind) (n2 : Nat) (v v2 : Int) : Res (Nat × Nat) := do
  let c1 ← typedConst k1 n1 v (if v < 0 then .cast else .pos)
  let c2 ← typedConst k2 n2 v2 (if v2 < 0 then .cast else .pos)
  match c1, c2 with
  | .int t1 m1, .int _ m2 =>
    let first := constWires t1 m1 % 2 ^ n1
    let second := if n1 = n2 then first else rewiden (k2 == .int) n2 m2
    pure (first, second)
  | _, _ => .error .compileError

end Mpc.Fold

/-
RSA-based 1-out-of-2 OT (/repo/ot/rsa.go: `RSA.Send`/`RSA.Receive` and the
single-transfer API `SenderXfer`/`ReceiverXfer`) over natural/integer
arithmetic.  Core Lean only.

Modelled, not verified: `math/big` (in particular `Exp(x, y, m)` with a
negative base `x`, which returns the non-negative residue of `x^y`), that the
`crypto/rsa` key satisfies the RSA relation, and the PKCS#1 block-type-1
framing of the 16-byte label (`enc`/`dec` below).
-/
namespace Mpc.RsaOt

/-- Receiver: `v = (x_b + k^e mod N) mod N`. -/
def receiverV (N e xb k : Nat) : Nat := (xb + k ^ e % N) % N

/-- Sender: `k_c = Exp(v − x_c, d, N)`; the base may be negative, the result
is the residue in `[0, N)`. -/
def senderKey (N d v x : Nat) : Nat := (((v : Int) - (x : Int)) % (N : Int)).toNat ^ d % N

/-- One transfer.  `enc m` is the integer of the padded block of message `m`
(`FromBytes(NewEncryptionBlock(BT1, size, m))`), `dec` its inverse on the
receiver's side (`Bytes()`, left-pad to the modulus size,
`ParseEncryptionBlock`; `none` = error).  Returns the receiver's output. -/
def transfer {M : Type} (N e d : Nat) (enc : M → Nat) (dec : Int → Option M)
    (x0 x1 k : Nat) (bit : Bool) (m0 m1 : M) : Option M :=
  let v := receiverV N e (if bit then x1 else x0) k
  let m0p := enc m0 + senderKey N d v x0
  let m1p := enc m1 + senderKey N d v x1
  dec (((if bit then m1p else m0p : Nat) : Int) - (k : Int))

end Mpc.RsaOt

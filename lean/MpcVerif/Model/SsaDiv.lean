/-
C09, target axis for programs that DIVIDE (core Lean only).

`Model/SsaCircuit.lean` models `ssa.Program.Circuit`; on the GMW target its
`udiv` / `umod` cases call `uDivider true = goldschmidt`
(`NewUDividerGoldschmidtFast`: zero pad, quotient ESTIMATE, correction step).
The quality of the estimate is a validated hypothesis (C07,
`goldschmidt-estimate-within-one`), so the C03 back-end theorem and
`C09_program_target_equiv` exclude division on the GMW target.

This file makes the dependence explicit:

* `dividerPad est` is `NewUDividerGoldschmidtFast` with the quotient estimator
  as a parameter (`goldschmidt = dividerPad goldEstimate`, by `rfl`);
  `compileOpE / compileStepsE / ssaCompileE / ssaCircuitEvalE est` is the GMW
  back end with that divider (`… goldEstimate = … true` of Model/SsaCircuit);
* `divInstances steps st` lists the DIVIDER INSTANCES of a run of the step list
  from the store `st`: for every `udiv` / `umod` step the common operand width
  and the two operand values `(n, A, B)`.  The hypothesis of
  `C09_program_target_equiv_div` is "the estimator is within one on every
  instance of this list"; the check evaluates it on the real compiled program
  for structured operand classes (harness/cmd/c09/divsweep.go);
* `divForm` gives the step list of each division-sweep program form, so that
  the driver evaluates the MEANING (`ssaEval`) and the instances of exactly the
  programs the harness compiles (op `div`).
-/
import MpcVerif.Model.SsaCircuit
import MpcVerif.Model.BuildersHist

namespace Mpc.SsaC
open Mpc Mpc.Bld Mpc.Mpcl.Ssa

/-- `NewUDividerGoldschmidtFast(cc, a, b, q, r)` with an explicit quotient
estimator: operands zero padded to the common width, estimate, correction
step. -/
def dividerPad (est : List Nat → List Nat → BM (List Nat)) (a b : List Nat) (nq nr : Nat) :
    BM (List Nat × List Nat) := do
  let p ← zeroPad a b
  dividerWith est p.1 p.2 nq nr

/-- `compileOp true` with the unsigned divider's estimator as a parameter. -/
def compileOpE (est : List Nat → List Nat → BM (List Nat)) (z : Nat) (op : SOp) (xs : List Opd) (ow : Nat) :
    BM (Option (List Nat)) :=
  if op = .udiv ∨ op = .umod then
    match xs with
    | [.wires x, .wires y] =>
      if op = .udiv then some' (do let d ← dividerPad est x y ow 0; pure d.1)
      else some' (do let d ← dividerPad est x y 0 ow; pure d.2)
    | _ => pure none
  else compileOp true z op xs ow

/-- `compileSteps true` with `compileOpE est`. -/
def compileStepsE (est : List Nat → List Nat → BM (List Nat)) (z o : Nat) :
    List SInstr → WEnv → BM (Option (List (List Nat)))
  | [], _ => pure none
  | i :: rest, env =>
    if i.op = .ret then
      match allSome (i.ins.map (operandWires z o env)), rest with
      | some xs, [] => some' (retBuses xs)
      | _, _ => pure none
    else
      match i.out with
      | none => pure none
      | some (id, ow) => do
        match allSome (i.ins.map (operand z o env)) with
        | none => pure none
        | some xs => do
          let r ← compileOpE est z i.op xs ow
          match r with
          | none => pure none
          | some ws => compileStepsE est z o rest ((id, ws) :: env)

def ssaCompileE (est : List Nat → List Nat → BM (List Nat)) (ins : List (Nat × Nat)) (steps : List SInstr) :
    Option (St × List (List Nat)) :=
  if nInputs ins = 0 then none else
  let s0 : St := { nIn := nInputs ins }
  let z := zeroWire s0
  let o := oneWire z.2
  let r := compileStepsE est z.1 o.1 steps (inputEnv ins 0 []) o.2
  r.1.map fun outs => (r.2, outs)

def ssaCircuitEvalE (est : List Nat → List Nat → BM (List Nat)) (ins : List (Nat × Nat)) (steps : List SInstr)
    (args : List Nat) : Option (List (Nat × Nat)) :=
  (ssaCompileE est ins steps).map fun (s, outs) =>
    let v := s.vals (inputBits ins args)
    outs.map fun ws => (toNat (ws.map fun w => v.getD w false), ws.length)

/-- The divider instance of one instruction on operand patterns `vals`: common
width (the operands are zero padded to it), dividend, divisor. -/
def divInstOf (op : SOp) (vals : List (Nat × Nat)) : List (Nat × Nat × Nat) :=
  if op = .udiv ∨ op = .umod then
    match vals with
    | [(a, wa), (b, wb)] => [(max wa wb, a, b)]
    | _ => []
  else []

/-- The divider instances of a run (`ssaRun`) of the step list. -/
def divInstances {σ : Type} [SStore σ] : List SInstr → σ → List (Nat × Nat × Nat)
  | [], _ => []
  | i :: rest, s =>
    let xs := i.ins.map (argVal s)
    if i.op = .ret then []
    else
      match i.out with
      | none => []
      | some (id, ow) =>
        match evalOp i.op xs ow with
        | none => []
        | some v => divInstOf i.op xs ++ divInstances rest (SStore.set s id v)

/-- The divider instances of the program on the arguments `args`. -/
def divInstancesOf (σ : Type) [SStore σ] (ins : List (Nat × Nat)) (steps : List SInstr) (args : List Nat) :
    List (Nat × Nat × Nat) :=
  match loadInputs ins args (SStore.empty : σ) with
  | some st => divInstances steps st
  | none => []

/-- Instruction set of `C09_program_target_equiv_div` on the GMW target: the
set of the C03 back-end theorem plus `udiv` / `umod` with at least one operand
bit (the signed dividers stay excluded). -/
def instrOKE (i : SInstr) : Bool :=
  if i.op = .udiv ∨ i.op = .umod then decide (0 < (i.ins.map argBits).foldl max 0)
  else instrOK true i

/-- Hypothesis of `C09_program_target_equiv_div_est` on the program: supported
instructions and the model applies. -/
def SupportedE (est : List Nat → List Nat → BM (List Nat)) (ins : List (Nat × Nat)) (steps : List SInstr) : Bool :=
  steps.all instrOKE && (ssaCompileE est ins steps).isSome

/-- The same for the code's divider (`ssaCompile true`). -/
def SupportedDiv (ins : List (Nat × Nat)) (steps : List SInstr) : Bool :=
  steps.all instrOKE && (ssaCompile true ins steps).isSome

/-! ### the division-sweep program forms (harness/cmd/c09/divsweep.go, `mkDivProgram`)

Arguments: `a` = id 0 (width `w`), `b` = id 1 (width `wb`).  These step lists
are this file's rendition of the MEANING of the generated MPCL programs (not
the compiler's SSA dump; C03 ties dumps). -/

def divForm (form : String) (w wb k : Nat) (xop : String) : Option (List (Nat × Nat) × List SInstr) :=
  let a : SArg := .var 0 w
  let b : SArg := .var 1 wb
  let ins := [(0, w), (1, wb)]
  match form with
  | "qr" => some (ins, [⟨.udiv, [a, b], some (2, w)⟩, ⟨.umod, [a, b], some (3, w)⟩, ⟨.ret, [.var 2 w, .var 3 w], none⟩])
  | "q" => some (ins, [⟨.udiv, [a, b], some (2, w)⟩, ⟨.ret, [.var 2 w], none⟩])
  | "r" => some (ins, [⟨.umod, [a, b], some (2, w)⟩, ⟨.ret, [.var 2 w], none⟩])
  | "mixed" => some (ins, [⟨.mov, [b], some (2, w)⟩, ⟨.udiv, [a, .var 2 w], some (3, w)⟩,
      ⟨.umod, [a, .var 2 w], some (4, w)⟩, ⟨.ret, [.var 3 w, .var 4 w], none⟩])
  | "nz" => some (ins, [⟨.bor, [b, .pat 1 w], some (2, w)⟩, ⟨.udiv, [a, .var 2 w], some (3, w)⟩,
      ⟨.umod, [a, .var 2 w], some (4, w)⟩, ⟨.ret, [.var 3 w, .var 4 w], none⟩])
  | "expr" => some (ins, [⟨.udiv, [a, b], some (2, w)⟩, ⟨.umod, [a, b], some (3, w)⟩,
      ⟨if xop == "xor" then .bxor else .add, [.var 2 w, .var 3 w], some (4, w)⟩, ⟨.ret, [.var 4 w], none⟩])
  | "const" => some (ins, [⟨.udiv, [a, .pat k w], some (2, w)⟩, ⟨.bxor, [a, b], some (3, w)⟩,
      ⟨.umod, [.var 3 w, .pat k w], some (4, w)⟩, ⟨.ret, [.var 2 w, .var 4 w], none⟩])
  | "two" => some (ins, [⟨.udiv, [a, b], some (2, w)⟩, ⟨.udiv, [.var 2 w, b], some (3, w)⟩,
      ⟨.umod, [.var 2 w, b], some (4, w)⟩, ⟨.ret, [.var 3 w, .var 4 w], none⟩])
  | "signed" => some (ins, [⟨.idiv, [a, b], some (2, w)⟩, ⟨.imod, [a, b], some (3, w)⟩,
      ⟨.ret, [.var 2 w, .var 3 w], none⟩])
  | _ => none

end Mpc.SsaC

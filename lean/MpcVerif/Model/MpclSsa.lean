/-
SSA-level semantics for property C03 (core Lean only).

`ssaEval` evaluates the real compiler's SSA step list (ssa.Program.Steps after
pkg.Compile: peephole + GC), as dumped by `harness/cmd/c03/ssadump.go`, on raw
wire patterns.  It mirrors /repo/compiler/ssa/circuitgen.go Program.Circuit
instruction by instruction, with every circuit builder (adder, subtractor,
multiplier, dividers, comparators, MUX, index; compiler/circuits/*.go) replaced
by the function it is meant to compute on the zero-padded operands (builder
exactness is property C07's subject).

Tie (checks/C03.py, three-way on every generated program and input):
    ssaEval (dumped SSA) x  =  Mpcl.runRaw (source AST) x  =  circuit.Compute x
A disagreement of the first two localises a defect to AST -> SSA (the front
end), of the last two to SSA -> circuit (or to this model of it).

A value is a wire pattern `< 2^bits`; undriven wires read 0, as in
circuit.Compute.
-/
import MpcVerif.Model.Mpcl

namespace Mpc.Mpcl.Ssa
open Mpc.Mpcl

/-- Operand of an SSA instruction. -/
inductive SArg where
  /-- a computed value: id, Type.Bits -/
  | var (id bits : Nat)
  /-- an integer constant used as wires: value bits, the constant's own size
  (mpa.Int.TypeSize), the size of the instance that allocated the shared wires
  `$n` (0: never registered), signedness and size of this use -/
  | const (val own alloc : Nat) (signed : Bool) (bits : Nat)
  /-- any other constant: its wire pattern -/
  | pat (val bits : Nat)
  /-- a compile-time integer (shift count, slice bounds, element size) -/
  | k (n : Nat)
  deriving Repr, Inhabited

inductive SOp where
  | add | sub | mul | udiv | umod | idiv | imod
  | band | bor | bxor | bclr
  | concat | lshift | rshift | srshift | slice | index
  | ilt | ult | ile | ule | igt | ugt | ige | uge | eq | neq
  | land | lor | lnot | mov | smov | amov | phi | ret
  deriving Repr, DecidableEq, Inhabited

structure SInstr where
  op : SOp
  ins : List SArg
  /-- result value: id, Type.Bits -/
  out : Option (Nat × Nat)
  deriving Repr, Inhabited

/-- Stores of computed values (id ↦ wire pattern). -/
class SStore (σ : Type) where
  empty : σ
  get : σ → Nat → Nat
  set : σ → Nat → Nat → σ

/-- The functional store (used in the theorems). -/
instance : SStore (Nat → Nat) where
  empty := fun _ => 0
  get s i := s i
  set s i v := fun j => if j = i then v else s j

/-- The array store (used by the driver); grows on demand. -/
def arrSet (a : Array Nat) (i v : Nat) : Array Nat :=
  if i < a.size then a.set! i v else (a ++ Array.replicate (i - a.size) 0).push v

instance : SStore (Array Nat) where
  empty := #[]
  get s i := s.getD i 0
  set := arrSet

/-- Wires of an integer constant operand (ssa.Program.DefineConstants for the
instance that allocated `$n`; the re-sizing of Program.Circuit for every other
size: bits from the value, signed constants extended from the constant's own
size; a constant nobody registered has undriven wires). -/
def constWires (val own alloc : Nat) (signed : Bool) (bits : Nat) : Nat :=
  if alloc = 0 then 0
  else if alloc = bits then val % 2 ^ bits
  else
    let own' := min own bits
    let low := val % 2 ^ own'
    if signed && own' > 0 && val.testBit (own' - 1) then low + (2 ^ bits - 2 ^ own') else low

/-- Value and width of an operand. -/
def argVal {σ : Type} [SStore σ] (s : σ) : SArg → Nat × Nat
  | .var id bits => (SStore.get s id, bits)
  | .const val own alloc sg bits => (constWires val own alloc sg bits, bits)
  | .pat val bits => (val % 2 ^ bits, bits)
  | .k n => (n, 0)

/-- Integer reduced to `w` bits. -/
def wrapI (w : Nat) (i : Int) : Nat := ofInt w i

/-- The function an instruction computes on its operand patterns `(value,
width)`; `ow` is the result width.  Operands of different widths are
zero-padded to the wider one (circuits.Compiler.ZeroPad), so signed operations
read the sign at the common width `m` (a narrower operand is non-negative
there; since /repo 86f919b the only narrower operands left are constants used
with wider variables). -/
def evalOp (op : SOp) (xs : List (Nat × Nat)) (ow : Nat) : Option Nat :=
  match op, xs with
  | .add, [(a, _), (b, _)] => some ((a + b) % 2 ^ ow)
  | .sub, [(a, _), (b, _)] => some ((2 ^ ow - b % 2 ^ ow + a) % 2 ^ ow)
  | .mul, [(a, _), (b, _)] => some ((a * b) % 2 ^ ow)
  | .udiv, [(a, _), (b, _)] => if b = 0 then none else some ((a / b) % 2 ^ ow)
  | .umod, [(a, _), (b, _)] => if b = 0 then none else some ((a % b) % 2 ^ ow)
  | .idiv, [(a, wa), (b, wb)] =>
    let m := max wa wb
    if b = 0 then none else some ((ofInt m (Int.tdiv (toInt m a) (toInt m b))) % 2 ^ ow)
  | .imod, [(a, wa), (b, wb)] =>
    let m := max wa wb
    if b = 0 then none else some (((toInt m a).natAbs % (toInt m b).natAbs) % 2 ^ ow)
  | .band, [(a, _), (b, _)] => some ((a &&& b) % 2 ^ ow)
  | .bor, [(a, _), (b, _)] => some ((a ||| b) % 2 ^ ow)
  | .bxor, [(a, _), (b, _)] => some ((a ^^^ b) % 2 ^ ow)
  | .bclr, [(a, wa), (b, wb)] => some ((a &&& (2 ^ (max wa wb) - 1 - b)) % 2 ^ ow)
  | .concat, [(a, wa), (b, _)] => some ((a + b <<< wa) % 2 ^ ow)
  | .lshift, [(a, _), (k, _)] => some ((a <<< k) % 2 ^ ow)
  | .rshift, [(a, _), (k, _)] => some ((a >>> k) % 2 ^ ow)
  | .srshift, [(a, wa), (k, _)] => some (wrapI ow ((toInt wa a) >>> k))
  | .slice, [(a, _), (from_, _), (to, _)] => some (((a >>> from_) % 2 ^ (to - from_)) % 2 ^ ow)
  | .index, [(arr, warr), (off, _), (idx, _), (size, _)] =>
    let n := if size = 0 then 0 else (warr - off) / size
    some (if idx < n then ((arr >>> (off + idx * size)) % 2 ^ size) % 2 ^ ow else 0)
  | .ilt, [(a, wa), (b, wb)] => let m := max wa wb; some (if toInt m a < toInt m b then 1 else 0)
  | .ile, [(a, wa), (b, wb)] => let m := max wa wb; some (if toInt m a ≤ toInt m b then 1 else 0)
  | .igt, [(a, wa), (b, wb)] => let m := max wa wb; some (if toInt m b < toInt m a then 1 else 0)
  | .ige, [(a, wa), (b, wb)] => let m := max wa wb; some (if toInt m b ≤ toInt m a then 1 else 0)
  | .ult, [(a, _), (b, _)] => some (if a < b then 1 else 0)
  | .ule, [(a, _), (b, _)] => some (if a ≤ b then 1 else 0)
  | .ugt, [(a, _), (b, _)] => some (if b < a then 1 else 0)
  | .uge, [(a, _), (b, _)] => some (if b ≤ a then 1 else 0)
  | .eq, [(a, _), (b, _)] => some (if a = b then 1 else 0)
  | .neq, [(a, _), (b, _)] => some (if a = b then 0 else 1)
  | .land, [(a, _), (b, _)] => some ((a &&& b) % 2)
  | .lor, [(a, _), (b, _)] => some ((a ||| b) % 2)
  | .lnot, [(a, _)] => some (2 ^ ow - 1 - a % 2 ^ ow)
  | .mov, [(a, _)] => some (a % 2 ^ ow)
  | .smov, [(a, wa)] => some (wrapI ow (toInt wa a))
  | .amov, [(v, _), (arr, _), (from_, _), (to, _)] =>
    some ((arr % 2 ^ from_ + (v % 2 ^ (to - from_)) <<< from_ + (arr >>> to) <<< to) % 2 ^ ow)
  | .phi, [(c, _), (t, _), (f, _)] => some ((if c % 2 = 1 then t else f) % 2 ^ ow)
  | _, _ => none

/-- Run the steps; `ret` delivers the outputs (pattern, width). -/
def ssaRun {σ : Type} [SStore σ] : List SInstr → σ → Option (List (Nat × Nat))
  | [], _ => none
  | i :: rest, s =>
    let xs := i.ins.map (argVal s)
    if i.op = .ret then some xs
    else
      match i.out with
      | none => none
      | some (id, ow) =>
        match evalOp i.op xs ow with
        | none => none
        | some v => ssaRun rest (SStore.set s id v)

/-- Straight-line execution without `ret` (used to reason about prefixes). -/
def ssaSteps {σ : Type} [SStore σ] : List SInstr → σ → Option σ
  | [], s => some s
  | i :: rest, s =>
    match i.out with
    | none => none
    | some (id, ow) =>
      match evalOp i.op (i.ins.map (argVal s)) ow with
      | none => none
      | some v => ssaSteps rest (SStore.set s id v)

def loadInputs {σ : Type} [SStore σ] : List (Nat × Nat) → List Nat → σ → Option σ
  | [], [], s => some s
  | (id, bits) :: is, v :: vs, s => loadInputs is vs (SStore.set s id (v % 2 ^ bits))
  | _, _, _ => none

/-- Evaluate a dumped SSA program: `ins` are the input values (id, width) in
argument order. -/
def ssaEval (σ : Type) [SStore σ] (ins : List (Nat × Nat)) (steps : List SInstr) (args : List Nat) :
    Option (List (Nat × Nat)) :=
  (loadInputs ins args (SStore.empty : σ)).bind (ssaRun steps)

end Mpc.Mpcl.Ssa

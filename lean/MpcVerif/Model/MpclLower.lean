/-
`Ssa.lower`: a Lean model of the AST -> SSA translation of the real compiler
(/repo/compiler/ast/ssagen.go, lrvalue.go) for the MPCL subset of property C03:
scalars, fixed-size arrays, structs (also nested), function calls with several
results (core Lean only: the driver `Driver/C03Lower.lean` executes it next to
the real ssagen on every run; `Proofs/MpclSsa.lean` proves it correct against
the reference interpreter).

Fragment (anything else makes `lower` answer `none`):

  types   T ::= bool | intN | uintN | [n]T | struct { T .. T }
  expr    e ::= x | n (integer literal typed by its context, 0 <= n, in range)
              | true | false | i (loop constant) | T(n) | T(i)
              | e + e | e - e | e * e | e / e | e % e | e & e | e | e | e ^ e | e &^ e
              | e << k | e >> k | e < e | e <= e | e > e | e >= e | e == e | e != e
              | e && e | e || e | !e | -e | T(e)            (operands: scalars)
              | e[k]   (k a literal or a loop constant, k < n)
              | e[e']  (e' of type uintK with 2^K <= n: never out of range)
              | e.f
              | f(e, .., e)  (one result; arguments are not constants)
  lval    l ::= x | l[k] | l.f
  stmt    s ::= var x T | var x T = e | x := e | l = e
              | x, .., y := f(e, .., e) | l, .., l = f(e, .., e)
              | if e { s* } [else { s* }] | for i := lo; i <cmp> hi; i += st { s* }
              | return e, .., e | return f(e, .., e)   (all results of f at once)
  func      ::= func(params T..) (results) { s* }   every path ends in a `return`;
              named results are `var r T` at the start of the body (harness
              desugaring, /repo 4accfb7: zero-initialised)
  program   ::= func*; a call targets a function with a smaller index (no recursion)

How ssagen.go is modelled (function by function):
  * Binary.SSA: operand code left to right, then ONE instruction chosen by the
    common operand type (the special cases of Binary.SSA for the constants 0, 1,
    2^k - `x + 0`, `x * 2^k = x << k`, .. - are DEAD code in /repo: `isPowerOf2`
    only accepts an `int64` ConstValue but ssa.Generator.Constant stores every
    integer constant as `*mpa.Int`; the real step lists show plain
    `uadd x $0`, `umult $2 x`, so they are not modelled) (`iadd/uadd` .., `idiv/udiv`, `ilt/ult` ..; `srshift`
    for `>>` on intN); an integer constant operand wider than the other
    operand adopts its type (`constArg`), otherwise it keeps its own 32/64-bit
    constant width (ssa.Generator.Constant) and the instruction has operands
    of different widths;
  * Unary.SSA: `-e` is `0 - e` with the int32 constant `$0`; `!e` is `not`;
  * Call.cast: `smov` iff both types are signed and the target is wider, else
    `mov`; a conversion of a constant is folded (ast/eval.go);
  * VariableDef.SSA / Assign.SSA / LRValue.Set: the value is moved into a
    fresh version of the variable; `var x T` moves the zero constant;
  * Index.constIndex: `slice a k*bits (k+1)*bits`; an index `>= n` is a compile
    error (`none`); Index.index: `index a 0 i bits`;
  * LookupVar / LRValue.RValue for `s.f`: `slice s off off+bits` with the field
    offset `off` (sum of the widths of the preceding fields);
  * Assign.SSA (Index l-value) / LRValue.Set (struct field): `amov v x from to`
    replaces the component's wires: directly in a fresh version of the root
    variable for a field, through an anonymous value and a `mov` for an array
    element (for the nested path `s.f[k] = v` the model emits ONE `amov` at the
    total offset where the real compiler emits slice + amov + amov: same value);
  * Call.SSA: the callee is INLINED: argument code, one `mov` per parameter
    into a fresh value bound to the parameter name in a NEW scope (the callee
    sees no caller variable), the callee's body, then its results selected
    along ITS branch structure (Func.SSA: Block.ReturnBinding); several results
    are delivered in order (`x, y := f(..)`, `a, b = f(..)`);
  * If.SSA + Bindings.Merge: the condition, then BOTH branches are generated;
    every variable whose binding differs is merged by `phi cond t f` (the real
    compiler creates the phi lazily at the first use, `Select.Value`; the model
    creates it at the merge: same value, the step lists differ in order and in
    phis of variables that are never read again); a branch that ends in
    `return` on every path contributes no bindings;
  * Return.SSA + Block.ReturnBinding: every result is moved into a fresh
    version of the result variable; the function result is selected along
    the branch structure by `phi branchcond t f` (`RTree`, `RTree.mat`);
  * For.SSA: the loop is unrolled, the loop variable is an int32 constant.

Deviations of the real compiler from the reference semantics are EXCLUDED
from the fragment by decidable conditions (ids in /verif/known_findings.json):
  * C03-cast-int-to-wider-uint: `uintM(e)`, e intN, M > N     (`lowerE`, cast)
  * C03-const-signed-widening: a literal whose own 32/64-bit constant has its
    top bit set, used at a wider signed type                   (`litOk`)
  * literal signedness: a literal at a signed type must be < 2^(N-1) (`litOk`)
  * C03-inner-block-redeclaration / C03-define-redeclared-rejected: in every
    function all names declared by parameters, `var`, `:=` are pairwise
    distinct, a loop variable is none of them and not the variable of an
    enclosing loop, no `:=` inside a `for` body                 (`scopeOk`)
Not in the fragment (no deviation known, just not modelled): `g(f(..))` with a
call delivering SEVERAL arguments at once, constant arguments of calls,
constant-only expressions (folding is C12's subject).
-/
import MpcVerif.Model.MpclSsa

namespace Mpc.Mpcl.Ssa
open Mpc.Mpcl

/-! ### Names -/

/-- What a name is bound to: a computed value (id, type) or a loop constant
(an int32 constant, `0 <= n < 2^31`). -/
inductive Bind where
  | val (id : Nat) (t : Ty)
  | konst (n : Nat)
  deriving Repr, Inhabited

abbrev NScope := List (String × Bind)
/-- A stack of scopes, like `Mpcl.Env` (the real compiler keeps ONE scope per
function; without re-declarations (`scopeOk`) the two cannot be told apart). -/
abbrev NEnv := List NScope

def NScope.find : NScope → String → Option Bind
  | [], _ => none
  | (y, b) :: r, x => if x = y then some b else NScope.find r x

def NScope.set : NScope → String → Bind → Option NScope
  | [], _, _ => none
  | (y, b) :: r, x, n =>
    if x = y then some ((y, n) :: r) else (NScope.set r x n).map ((y, b) :: ·)

def NEnv.find : NEnv → String → Option Bind
  | [], _ => none
  | s :: r, x => match NScope.find s x with
    | some b => some b
    | none => NEnv.find r x

def NEnv.set : NEnv → String → Bind → Option NEnv
  | [], _, _ => none
  | s :: r, x, n => match NScope.set s x n with
    | some s' => some (s' :: r)
    | none => (NEnv.set r x n).map (s :: ·)

def NEnv.declare : NEnv → String → Bind → NEnv
  | [], x, b => [[(x, b)]]
  | s :: r, x, b => ((x, b) :: s) :: r

/-! ### Types -/

def numTy : Ty → Option (Bool × Nat)
  | .int w => some (true, w)
  | .uint w => some (false, w)
  | _ => none

/-- Wires of a scalar type. -/
def sbits : Ty → Option Nat
  | .bool => some 1
  | .int w => some w
  | .uint w => some w
  | _ => none

mutual
def tyEq : Ty → Ty → Bool
  | .bool, .bool => true
  | .int a, .int b => a == b
  | .uint a, .uint b => a == b
  | .arr n e, .arr m e' => n == m && tyEq e e'
  | .struct fs, .struct gs => tyEqList fs gs
  | _, _ => false
def tyEqList : List Ty → List Ty → Bool
  | [], [] => true
  | t :: ts, u :: us => tyEq t u && tyEqList ts us
  | _, _ => false
end

/-! ### Constants -/

/-- Own width of an integer constant (ssa.Generator.Constant: 32, 64, or the
bit length). -/
def constBits (n : Nat) : Nat :=
  if n < 2 ^ 32 then 32 else if n < 2 ^ 64 then 64 else n.log2 + 1

/-- A non-negative literal `n` is usable at the integer type `(s, w)`: it is in
range (signed: below 2^(w-1)), and it is not the known deviation
C03-const-signed-widening (own constant narrower than a signed `w`, top bit of
the own constant set). -/
def litOk (s : Bool) (w n : Nat) : Bool :=
  decide (n < 2 ^ (if s then w - 1 else w)) &&
    !(s && decide (constBits n < w) && n.testBit (constBits n - 1))

/-- Operand for the integer constant `n` used at type `(s, w)`: wider constants
adopt the type (ast.Binary.SSA, LRValue.Set), narrower ones keep their own
size.  The wires are allocated for this size. -/
def constArg (n : Nat) (s : Bool) (w : Nat) : SArg :=
  let own := constBits n
  if w < own then .const n own w s w else .const n own own true own

def SArg.isConst : SArg → Bool
  | .var _ _ => false
  | _ => true

/-! ### Expressions -/

/-- Instruction and result type of `a op b` for operands of type `t`
(ast.Binary.SSA / resultType; the signed or unsigned instruction by the common
operand type). -/
def lowerBin (op : BinOp) (t : Ty) : Option (SOp × Ty) :=
  match t with
  | .bool =>
    match op with
    | .eq => some (.eq, .bool) | .ne => some (.neq, .bool)
    | .land => some (.land, .bool) | .lor => some (.lor, .bool)
    | _ => none
  | .int _ =>
    match op with
    | .add => some (.add, t) | .sub => some (.sub, t) | .mul => some (.mul, t)
    | .div => some (.idiv, t) | .mod => some (.imod, t)
    | .band => some (.band, t) | .bor => some (.bor, t) | .bxor => some (.bxor, t) | .bclr => some (.bclr, t)
    | .eq => some (.eq, .bool) | .ne => some (.neq, .bool)
    | .lt => some (.ilt, .bool) | .le => some (.ile, .bool) | .gt => some (.igt, .bool) | .ge => some (.ige, .bool)
    | _ => none
  | .uint _ =>
    match op with
    | .add => some (.add, t) | .sub => some (.sub, t) | .mul => some (.mul, t)
    | .div => some (.udiv, t) | .mod => some (.umod, t)
    | .band => some (.band, t) | .bor => some (.bor, t) | .bxor => some (.bxor, t) | .bclr => some (.bclr, t)
    | .eq => some (.eq, .bool) | .ne => some (.neq, .bool)
    | .lt => some (.ult, .bool) | .le => some (.ule, .bool) | .gt => some (.ugt, .bool) | .ge => some (.uge, .bool)
    | _ => none
  | _ => none

/-- Value of a constant operand (as produced by `lowerE`). -/
def constVal : SArg → Nat
  | .const v _ _ _ _ => v
  | .pat v _ => v
  | _ => 0

/-- A compile-time index: a literal or a loop constant (Index.constIndex,
Assign.SSA `ConstInt`). -/
def constIdx (nm : NEnv) : Expr → Option Nat
  | .lit t k =>
    match numTy t with
    | some (s, w) => if litOk s w k then some k else none
    | none => none
  | .var x =>
    match nm.find x with
    | some (.konst n) => some n
    | _ => none
  | _ => none

/-- `slice a from to` into a fresh value of `w = to - from` wires. -/
def sliceI (a : SArg) (off w id : Nat) : SInstr := ⟨.slice, [a, .k off, .k (off + w)], some (id, w)⟩

/-! ### Function results along the branch structure -/

/-- Where a block leaves: falls through, returns the values `(id, type)`, or
branches on the condition value `c`. -/
inductive RTree where
  | fall
  | ret (rs : List (Nat × Ty))
  | br (c : Nat) (t f : RTree)
  deriving Repr, Inhabited

/-- `t1` followed by `t2`. -/
def RTree.seq : RTree → RTree → RTree
  | .fall, t2 => t2
  | .ret rs, _ => .ret rs
  | .br c t f, t2 => .br c (t.seq t2) (f.seq t2)

/-- The leaf a store selects (`none`: falls through): wire patterns with their types. -/
def RTree.eval (st : Nat → Nat) : RTree → Option (List (Nat × Ty))
  | .fall => none
  | .ret rs => some (rs.map fun p => (st p.1, p.2))
  | .br c t f => if st c % 2 = 1 then t.eval st else f.eval st

def matPhis (c : Nat) : List (Nat × Ty) → List (Nat × Ty) → Nat → Option (List (Nat × Ty) × List SInstr × Nat)
  | [], [], k => some ([], [], k)
  | (i, t) :: r, (j, t') :: r', k =>
    if tyEq t t' then
      match matPhis c r r' (k + 1) with
      | some (rs, code, k') =>
        some ((k, t) :: rs, ⟨.phi, [.var c 1, .var i t.bits, .var j t.bits], some (k, t.bits)⟩ :: code, k')
      | none => none
    else none
  | _, _, _ => none

/-- Model of Block.ReturnBinding: select every result along the branches. -/
def RTree.mat : RTree → Nat → Option (List (Nat × Ty) × List SInstr × Nat)
  | .fall, _ => none
  | .ret rs, k => some (rs, [], k)
  | .br c t f, k =>
    match t.mat k with
    | some (rt, ct, k1) =>
      match f.mat k1 with
      | some (rf, cf, k2) =>
        match matPhis c rt rf k2 with
        | some (rs, cp, k3) => some (rs, ct ++ cf ++ cp, k3)
        | none => none
      | none => none
    | none => none

/-! ### Merging the bindings of two branches (Bindings.Merge) -/

def mergeB (c : Nat) : Bind → Bind → Nat → Option (Bind × List SInstr × Nat)
  | .val i t, .val j t', k =>
    if tyEq t t' then
      if i = j then some (.val i t, [], k)
      else some (.val k t, [⟨.phi, [.var c 1, .var i t.bits, .var j t.bits], some (k, t.bits)⟩], k + 1)
    else none
  | .konst n, .konst m, k => if n = m then some (.konst n, [], k) else none
  | _, _, _ => none

def mergeS (c : Nat) : NScope → NScope → Nat → Option (NScope × List SInstr × Nat)
  | [], [], k => some ([], [], k)
  | (x, b) :: r, (y, b') :: r', k =>
    if x = y then
      match mergeB c b b' k with
      | some (b2, c1, k1) =>
        match mergeS c r r' k1 with
        | some (r2, c2, k2) => some ((x, b2) :: r2, c1 ++ c2, k2)
        | none => none
      | none => none
    else none
  | _, _, _ => none

def mergeE (c : Nat) : NEnv → NEnv → Nat → Option (NEnv × List SInstr × Nat)
  | [], [], k => some ([], [], k)
  | s :: r, s' :: r', k =>
    match mergeS c s s' k with
    | some (s2, c1, k1) =>
      match mergeE c r r' k1 with
      | some (r2, c2, k2) => some (s2 :: r2, c1 ++ c2, k2)
      | none => none
    | none => none
  | _, _, _ => none

/-- Bindings after `if c { .. } else { .. }`: merged when both branches
continue (If.SSA "Both branches continue"), those of the continuing branch when
the other one returned on every path, none when both did. -/
def joinN (c : Nat) : Option NEnv → Option NEnv → Nat → Option (Option NEnv × List SInstr × Nat)
  | some nt, some nf, k =>
    match mergeE c nt nf k with
    | some (nm, cm, k') => some (some nm, cm, k')
    | none => none
  | some nt, none, k => some (some nt, [], k)
  | none, some nf, k => some (some nf, [], k)
  | none, none, k => some (none, [], k)

/-! ### Statements -/

/-- Result of lowering a block: the bindings with which execution continues
(`none`: every path returned, ssa.Block.Dead), where the block leaves, the code,
the next free value id. -/
structure LRes where
  nms : Option NEnv
  tree : RTree
  code : List SInstr
  next : Nat
  deriving Repr, Inhabited

/-- `mov` of an operand into a fresh value of width `w`. -/
def movI (a : SArg) (id w : Nat) : SInstr := ⟨.mov, [a], some (id, w)⟩

/-- The zero constant of a type (ast/ssagen.go initValue; an integer
constant is at least 32 bits wide; arrays and structs: all wires 0). -/
def zeroArg : Ty → SArg
  | .bool => .pat 0 1
  | .int w => .const 0 32 (max w 32) true (max w 32)
  | .uint w => .const 0 32 (max w 32) false (max w 32)
  | t => .pat 0 t.bits

/-- Leave a block scope (`Outcome.pop`). -/
def popN (nms : Option NEnv) : Option NEnv := nms.map List.tail

/-- Offset and type of the component an l-value path selects in a value of
type `t` (Assign.SSA: `offset += index.i * t.ElementType.Bits`; struct fields:
types.StructField.Type.Offset); an index `>= n` is a compile error. -/
def pathOff (nm : NEnv) : Ty → List Acc → Option (Nat × Ty)
  | t, [] => some (0, t)
  | .arr n e, .idx ie :: p =>
    match constIdx nm ie with
    | some k =>
      if k < n then
        match pathOff nm e p with
        | some (o, lt) => some (k * e.bits + o, lt)
        | none => none
      else none
    | none => none
  | .struct fs, .fld k :: p =>
    match fs[k]? with
    | some t =>
      match pathOff nm t p with
      | some (o, lt) => some (bitsList (fs.take k) + o, lt)
      | none => none
    | none => none
  | _, _ => none

/-- The instructions that store the operand `va` into the component `[off, off+w)`
of the root value `root` (`bits` wires), and the id of the new version of the
root variable: a whole variable gets a `mov` (LRValue.Set); a struct field an
`amov` into the new version (LRValue.Set, structField); an array element an
`amov` into an anonymous value which is then moved into the new version
(Assign.SSA, Index l-value: `gen.AnonVal`, `lrv.Set(val)`). -/
def storeCode (path : List Acc) (va root : SArg) (off w bits next : Nat) : List SInstr × Nat :=
  match path with
  | [] => ([movI va next bits], next)
  | .fld _ :: _ => ([⟨.amov, [va, root, .k off, .k (off + w)], some (next, bits)⟩], next)
  | .idx _ :: _ =>
    ([⟨.amov, [va, root, .k off, .k (off + w)], some (next, bits)⟩, movI (.var next bits) (next + 1) bits], next + 1)

/-- Model of LRValue.Set / Assign.SSA for one l-value. -/
def assignVal (nm : NEnv) (lv : LVal) (va : SArg) (tv : Ty) (next : Nat) : Option (NEnv × List SInstr × Nat) :=
  match nm.find lv.x with
  | some (.val id tx) =>
    match pathOff nm tx lv.path with
    | some (off, lt) =>
      if tyEq lt tv then
        let sc := storeCode lv.path va (.var id tx.bits) off lt.bits tx.bits next
        match nm.set lv.x (.val sc.2 tx) with
        | some nm' => some (nm', sc.1, sc.2 + 1)
        | none => none
      else none
    | none => none
  | _ => none

/-- `l1, .., ln = f(..)`: the results are stored one after the other. -/
def assignAllVals : NEnv → List LVal → List (Nat × Ty) → Nat → Option (NEnv × List SInstr × Nat)
  | nm, [], [], next => some (nm, [], next)
  | nm, lv :: lvs, (id, t) :: rs, next =>
    match assignVal nm lv (.var id t.bits) t next with
    | some (nm1, c1, n1) =>
      match assignAllVals nm1 lvs rs n1 with
      | some (nm2, c2, n2) => some (nm2, c1 ++ c2, n2)
      | none => none
    | none => none
  | _, _, _, _ => none

/-- `x1, .., xn := f(..)`: one `mov` per new variable. -/
def defineAllVals : NEnv → List String → List (Nat × Ty) → Nat → Option (NEnv × List SInstr × Nat)
  | nm, [], [], next => some (nm, [], next)
  | nm, x :: xs, (id, t) :: rs, next =>
    match defineAllVals (nm.declare x (.val next t)) xs rs (next + 1) with
    | some (nm2, c2, n2) => some (nm2, movI (.var id t.bits) next t.bits :: c2, n2)
    | none => none
  | _, _, _, _ => none

/-- Call.SSA "Define arguments": one `mov` per parameter into a fresh value
bound to the parameter's name. -/
def bindArgs : List (String × Ty) → List (SArg × Ty) → Nat → Option (NScope × List SInstr × Nat)
  | [], [], next => some ([], [], next)
  | (x, t) :: ps, (aa, ta) :: as, next =>
    if tyEq t ta then
      match bindArgs ps as (next + 1) with
      | some (sc, code, n2) => some ((x, .val next t) :: sc, movI aa next t.bits :: code, n2)
      | none => none
    else none
  | _, _, _ => none

/-- `return f(..)`: the single call that delivers all results. -/
def retCallOf : List Expr → Option (Nat × List Expr)
  | [.call g args] => some (g, args)
  | _ => none

/-- Return.SSA for the results of a call: every result is moved into a fresh
version of the result variable. -/
def retMovs : List (Nat × Ty) → Nat → List (Nat × Ty) × List SInstr × Nat
  | [], next => ([], [], next)
  | (id, t) :: rs, next =>
    let r := retMovs rs (next + 1)
    ((next, t) :: r.1, movI (.var id t.bits) next t.bits :: r.2.1, r.2.2)

mutual

/-- Model of Binary.SSA / Unary.SSA / Call.cast / VariableRef.SSA / BasicLit.SSA /
Index.SSA / Call.SSA (one result).  Result: operand, its type, the code, the
next free value id. -/
def lowerE (P : Prog) : Nat → NEnv → Expr → Nat → Option (SArg × Ty × List SInstr × Nat)
  | 0, _, _, _ => none
  | _ + 1, _, .lit t n, next =>
    match t with
    | .bool => some (.pat (if n = 0 then 0 else 1) 1, .bool, [], next)
    | .int w => if litOk true w n then some (constArg n true w, t, [], next) else none
    | .uint w => if litOk false w n then some (constArg n false w, t, [], next) else none
    | _ => none
  | _ + 1, nm, .var x, next =>
    match nm.find x with
    | some (.val id t) => some (.var id t.bits, t, [], next)
    | some (.konst n) => some (constArg n true 32, .int 32, [], next)
    | none => none
  | f + 1, nm, .bin op a b, next =>
    match lowerE P f nm a next with
    | some (aa, ta, ca, n1) =>
      match lowerE P f nm b n1 with
      | some (ba, tb, cb, n2) =>
        if aa.isConst && ba.isConst then none
        else if !tyEq ta tb then none
        else
          match lowerBin op ta with
          | some (sop, tr) => some (.var n2 tr.bits, tr, ca ++ cb ++ [⟨sop, [aa, ba], some (n2, tr.bits)⟩], n2 + 1)
          | none => none
      | none => none
    | none => none
  | f + 1, nm, .shift left a k, next =>
    match lowerE P f nm a next with
    | some (aa, ta, ca, n1) =>
      if aa.isConst then none else
      match numTy ta with
      | some (s, w) =>
        some (.var n1 w, ta,
          ca ++ [⟨if left then .lshift else if s then .srshift else .rshift, [aa, .k k], some (n1, w)⟩], n1 + 1)
      | none => none
    | none => none
  | f + 1, nm, .not a, next =>
    match lowerE P f nm a next with
    | some (aa, ta, ca, n1) =>
      if aa.isConst then none else
      match ta with
      | .bool => some (.var n1 1, .bool, ca ++ [⟨.lnot, [aa], some (n1, 1)⟩], n1 + 1)
      | _ => none
    | none => none
  | f + 1, nm, .neg a, next =>
    match lowerE P f nm a next with
    | some (aa, ta, ca, n1) =>
      if aa.isConst then none else
      match numTy ta with
      | some (_, w) =>
        some (.var n1 w, ta, ca ++ [⟨.sub, [.const 0 32 32 true 32, aa], some (n1, w)⟩], n1 + 1)
      | none => none
    | none => none
  | f + 1, nm, .cast t a, next =>
    match lowerE P f nm a next with
    | some (aa, ta, ca, n1) =>
      match numTy ta, numTy t with
      | some (s, w), some (s', w') =>
        if aa.isConst then
          -- constant conversion: folded
          if litOk s' w' (constVal aa) then some (constArg (constVal aa) s' w', t, ca, n1) else none
        else if s && !s' && decide (w < w') then none
        else some (.var n1 w', t,
          ca ++ [⟨if s && s' && decide (w < w') then .smov else .mov, [aa], some (n1, w')⟩], n1 + 1)
      | _, _ => none
    | none => none
  | f + 1, nm, .idx a i, next =>
    match lowerE P f nm a next with
    | some (aa, .arr n e, ca, n1) =>
      if aa.isConst then none else
      match constIdx nm i with
      | some k =>
        -- Index.constIndex
        if k < n then some (.var n1 e.bits, e, ca ++ [sliceI aa (k * e.bits) e.bits n1], n1 + 1) else none
      | none =>
        -- Index.index: the index type cannot exceed the array
        match lowerE P f nm i n1 with
        | some (ia, .uint w, ci, n2) =>
          if ia.isConst then none
          else if 2 ^ w ≤ n ∧ 0 < e.bits then
            some (.var n2 e.bits, e, ca ++ ci ++ [⟨.index, [aa, .k 0, ia, .k e.bits], some (n2, e.bits)⟩], n2 + 1)
          else none
        | _ => none
    | _ => none
  | f + 1, nm, .fld a k, next =>
    match lowerE P f nm a next with
    | some (aa, .struct fs, ca, n1) =>
      if aa.isConst then none else
      match fs[k]? with
      | some t => some (.var n1 t.bits, t, ca ++ [sliceI aa (bitsList (fs.take k)) t.bits n1], n1 + 1)
      | none => none
    | _ => none
  | f + 1, nm, .call g args, next =>
    match lowerCall P f nm g args next with
    | some ([(id, t)], code, n1) => some (.var id t.bits, t, code, n1)
    | _ => none

/-- Arguments of a call, left to right; constants are not in the fragment. -/
def lowerArgs (P : Prog) : Nat → NEnv → List Expr → Nat → Option (List (SArg × Ty) × List SInstr × Nat)
  | 0, _, _, _ => none
  | _ + 1, _, [], next => some ([], [], next)
  | f + 1, nm, e :: es, next =>
    match lowerE P f nm e next with
    | some (aa, t, ce, n1) =>
      if aa.isConst then none else
      match lowerArgs P f nm es n1 with
      | some (as, cs, n2) => some ((aa, t) :: as, ce ++ cs, n2)
      | none => none
    | none => none

/-- Model of Call.SSA + Func.SSA: the callee is inlined; its results are
selected along its branch structure. -/
def lowerCall (P : Prog) : Nat → NEnv → Nat → List Expr → Nat → Option (List (Nat × Ty) × List SInstr × Nat)
  | 0, _, _, _, _ => none
  | f + 1, nm, g, args, next =>
    match P[g]? with
    | none => none
    | some fn =>
      match lowerArgs P f nm args next with
      | none => none
      | some (avs, ca, n1) =>
        match bindArgs fn.params avs n1 with
        | none => none
        | some (sc, cb, n2) =>
          match lowerB P f [sc] n2 fn.body with
          | none => none
          | some r =>
            match r.tree.mat r.next with
            | some (rs, cm, n3) =>
              if rs.length = fn.nres then some (rs, ca ++ cb ++ r.code ++ cm, n3) else none
            | none => none

/-- Model of Return.SSA: every result is moved into a fresh version of the
result variable. -/
def lowerRet (P : Prog) : Nat → NEnv → List Expr → Nat → Option (List (Nat × Ty) × List SInstr × Nat)
  | 0, _, _, _ => none
  | _ + 1, _, [], next => some ([], [], next)
  | f + 1, nm, e :: es, next =>
    match lowerE P f nm e next with
    | some (aa, t, ce, n1) =>
      match lowerRet P f nm es (n1 + 1) with
      | some (rs, cs, n2) => some ((n1, t) :: rs, (ce ++ [movI aa n1 t.bits]) ++ cs, n2)
      | none => none
    | none => none

/-- Model of VariableDef.SSA, Assign.SSA, If.SSA, For.SSA, Return.SSA. -/
def lowerS (P : Prog) : Nat → NEnv → Nat → Stmt → Option LRes
  | 0, _, _, _ => none
  | _ + 1, nm, next, .decl x t none =>
    some ⟨some (nm.declare x (.val next t)), .fall, [movI (zeroArg t) next t.bits], next + 1⟩
  | f + 1, nm, next, .decl x t (some e) =>
    match lowerE P f nm e next with
    | some (aa, te, ce, n1) =>
      if tyEq t te then some ⟨some (nm.declare x (.val n1 t)), .fall, ce ++ [movI aa n1 t.bits], n1 + 1⟩ else none
    | none => none
  | f + 1, nm, next, .define [x] e =>
    match lowerE P f nm e next with
    | some (aa, te, ce, n1) =>
      if aa.isConst then none
      else some ⟨some (nm.declare x (.val n1 te)), .fall, ce ++ [movI aa n1 te.bits], n1 + 1⟩
    | none => none
  | f + 1, nm, next, .define (x :: y :: xs) (.call g args) =>
    match lowerCall P f nm g args next with
    | some (rs, cc, n1) =>
      match defineAllVals nm (x :: y :: xs) rs n1 with
      | some (nm', cd, n2) => some ⟨some nm', .fall, cc ++ cd, n2⟩
      | none => none
    | none => none
  | f + 1, nm, next, .assign [lv] e =>
    match lowerE P f nm e next with
    | some (aa, te, ce, n1) =>
      match assignVal nm lv aa te n1 with
      | some (nm', ca, n2) => some ⟨some nm', .fall, ce ++ ca, n2⟩
      | none => none
    | none => none
  | f + 1, nm, next, .assign (l1 :: l2 :: lvs) (.call g args) =>
    match lowerCall P f nm g args next with
    | some (rs, cc, n1) =>
      match assignAllVals nm (l1 :: l2 :: lvs) rs n1 with
      | some (nm', ca, n2) => some ⟨some nm', .fall, cc ++ ca, n2⟩
      | none => none
    | none => none
  | f + 1, nm, next, .ifte c th el =>
    match lowerE P f nm c next with
    | some (.var cid _, .bool, cc, n1) =>
      match lowerB P f ([] :: nm) n1 th with
      | some rt =>
        match lowerB P f ([] :: nm) rt.next el with
        | some rf =>
          match joinN cid (popN rt.nms) (popN rf.nms) rf.next with
          | some (nms', cm, n4) =>
            some ⟨nms', .br cid rt.tree rf.tree, cc ++ rt.code ++ rf.code ++ cm, n4⟩
          | none => none
        | none => none
      | none => none
    | _ => none
  | f + 1, nm, next, .for i lo c hi st body => lowerFor P f i lo c hi st body nm next
  | f + 1, nm, next, .ret es =>
    match retCallOf es with
    | some (g, args) =>
      -- `return f(..)`: one or several results at once
      match lowerCall P f nm g args next with
      | some (rs, cc, n1) =>
        let m := retMovs rs n1
        some ⟨none, .ret m.1, cc ++ m.2.1, m.2.2⟩
      | none => none
    | none =>
      match lowerRet P f nm es next with
      | some (rs, code, n1) => some ⟨none, .ret rs, code, n1⟩
      | none => none
  | _ + 1, _, _, _ => none

/-- Model of List.SSA: statements after a block that returned on every path
are not in the fragment (the real compiler drops them with a warning). -/
def lowerB (P : Prog) : Nat → NEnv → Nat → List Stmt → Option LRes
  | 0, _, _, _ => none
  | _ + 1, nm, next, [] => some ⟨some nm, .fall, [], next⟩
  | f + 1, nm, next, s :: ss =>
    match lowerS P f nm next s with
    | some r1 =>
      match r1.nms with
      | some nm1 =>
        match lowerB P f nm1 r1.next ss with
        | some r2 => some ⟨r2.nms, r1.tree.seq r2.tree, r1.code ++ r2.code, r2.next⟩
        | none => none
      | none => match ss with
        | [] => some r1
        | _ => none
    | none => none

/-- Model of For.SSA: the body is generated once per iteration with the loop
variable bound to the int32 constant `cur` (which must be in `0 .. 2^31-1`). -/
def lowerFor (P : Prog) : Nat → String → Int → Cmp → Int → Int → List Stmt → NEnv → Nat → Option LRes
  | 0, _, _, _, _, _, _, _, _ => none
  | f + 1, i, cur, c, hi, st, body, nm, next =>
    if c.holds cur hi then
      if 0 ≤ cur ∧ cur < 2 ^ 31 then
        match lowerB P f ([(i, .konst cur.toNat)] :: nm) next body with
        | some r1 =>
          match popN r1.nms with
          | some nm1 =>
            match lowerFor P f i (cur + st) c hi st body nm1 r1.next with
            | some r2 => some ⟨r2.nms, r1.tree.seq r2.tree, r1.code ++ r2.code, r2.next⟩
            | none => none
          | none => some ⟨none, r1.tree, r1.code, r1.next⟩
        | none => none
      else none
    else some ⟨some nm, .fall, [], next⟩

end

/-! ### Scoping side condition -/

mutual
/-- Names declared by `var` and `:=`, syntactically. -/
def declS : Stmt → List String
  | .decl x _ _ => [x]
  | .define xs _ => xs
  | .assign _ _ => []
  | .ifte _ th el => declB th ++ declB el
  | .for _ _ _ _ _ body => declB body
  | .ret _ => []
def declB : List Stmt → List String
  | [] => []
  | s :: ss => declS s ++ declB ss
end

mutual
/-- No `:=` inside a `for` body (`inFor`). -/
def defineOkS (inFor : Bool) : Stmt → Bool
  | .define _ _ => !inFor
  | .ifte _ th el => defineOkB inFor th && defineOkB inFor el
  | .for _ _ _ _ _ body => defineOkB true body
  | _ => true
def defineOkB (inFor : Bool) : List Stmt → Bool
  | [] => true
  | s :: ss => defineOkS inFor s && defineOkB inFor ss
end

mutual
/-- A loop variable is neither the variable of an enclosing loop (`outer`) nor any
other name of the function (`others`); loops one after the other may use the same
name (For.SSA re-evaluates the init statement; the name stays bound after the loop,
which the reference semantics cannot observe when nothing else has that name). -/
def loopOkS (outer others : List String) : Stmt → Bool
  | .ifte _ th el => loopOkB outer others th && loopOkB outer others el
  | .for i _ _ _ _ body => !outer.contains i && !others.contains i && loopOkB (i :: outer) others body
  | _ => true
def loopOkB (outer others : List String) : List Stmt → Bool
  | [] => true
  | s :: ss => loopOkS outer others s && loopOkB outer others ss
end

def noDup : List String → Bool
  | [] => true
  | x :: xs => !xs.contains x && noDup xs

/-- MPCL has function-level scoping (known deviations
C03-inner-block-redeclaration, C03-define-redeclared-rejected): the model is
faithful only where no name is declared twice (loop variables: not twice in
nested loops, never the name of a parameter or of a `var` / `:=`). -/
def scopeOk (fn : Func) : Bool :=
  let names := fn.params.map (·.1) ++ declB fn.body
  noDup names && loopOkB [] names fn.body && defineOkB false fn.body

/-! ### No recursion: a call targets a function with a smaller index -/

mutual
def callsBelowE (k : Nat) : Expr → Bool
  | .bin _ a b => callsBelowE k a && callsBelowE k b
  | .shift _ a _ => callsBelowE k a
  | .not a => callsBelowE k a
  | .neg a => callsBelowE k a
  | .cast _ a => callsBelowE k a
  | .idx a i => callsBelowE k a && callsBelowE k i
  | .fld a _ => callsBelowE k a
  | .call g args => decide (g < k) && callsBelowEs k args
  | _ => true
def callsBelowEs (k : Nat) : List Expr → Bool
  | [] => true
  | e :: es => callsBelowE k e && callsBelowEs k es
end

mutual
def callsBelowS (k : Nat) : Stmt → Bool
  | .decl _ _ none => true
  | .decl _ _ (some e) => callsBelowE k e
  | .define _ e => callsBelowE k e
  | .assign _ e => callsBelowE k e
  | .ifte c th el => callsBelowE k c && callsBelowB k th && callsBelowB k el
  | .for _ _ _ _ _ body => callsBelowB k body
  | .ret es => callsBelowEs k es
def callsBelowB (k : Nat) : List Stmt → Bool
  | [] => true
  | s :: ss => callsBelowS k s && callsBelowB k ss
end

def callsOkFrom (k : Nat) : List Func → Bool
  | [] => true
  | fn :: r => callsBelowB k fn.body && callsOkFrom (k + 1) r

/-- Every function satisfies the scoping condition and only calls functions
declared before it. -/
def progOk (P : Prog) : Bool := P.all scopeOk && callsOkFrom 0 P

/-! ### Whole programs -/

def lowerParams : List (String × Ty) → Nat → NScope × List (Nat × Nat)
  | [], _ => ([], [])
  | (x, t) :: ps, i =>
    let r := lowerParams ps (i + 1)
    ((x, .val i t) :: r.1, (i, t.bits) :: r.2)

/-- `lower fuel P main`: the SSA program (inputs, steps) of the model of ssagen
for the function `main` of `P` with all calls inlined (fuel: nesting depth +
statements + loop iterations + expression depth, as in the interpreter). -/
def lower (fuel : Nat) (P : Prog) (main : Nat) : Option (List (Nat × Nat) × List SInstr) :=
  if !progOk P then none else
  match P[main]? with
  | none => none
  | some fn =>
    let pr := lowerParams fn.params 0
    match lowerB P fuel [pr.1] fn.params.length fn.body with
    | some r =>
      match r.tree.mat r.next with
      | some (rs, cm, _) =>
        if rs.length = fn.nres then
          some (pr.2, r.code ++ cm ++ [⟨.ret, rs.map fun p => .var p.1 p.2.bits, none⟩])
        else none
      | none => none
    | none => none

/-! ### Totality of the emitted code -/

/-- An instruction that cannot fail: right number of operands, a result, not a
division. -/
def instrTotal (i : SInstr) : Bool :=
  i.out.isSome &&
  match i.op, i.ins with
  | .add, [_, _] | .sub, [_, _] | .mul, [_, _] | .band, [_, _] | .bor, [_, _] | .bxor, [_, _] | .bclr, [_, _]
  | .lshift, [_, _] | .rshift, [_, _] | .srshift, [_, _]
  | .ilt, [_, _] | .ult, [_, _] | .ile, [_, _] | .ule, [_, _] | .igt, [_, _] | .ugt, [_, _] | .ige, [_, _] | .uge, [_, _]
  | .eq, [_, _] | .neq, [_, _] | .land, [_, _] | .lor, [_, _]
  | .lnot, [_] | .mov, [_] | .smov, [_] | .phi, [_, _, _]
  | .slice, [_, _, _] | .index, [_, _, _, _] | .amov, [_, _, _, _] => true
  | _, _ => false

/-- A division / modulo instruction (fails on a zero divisor only). -/
def instrDiv (i : SInstr) : Bool :=
  i.out.isSome &&
  match i.op, i.ins with
  | .udiv, [_, _] | .idiv, [_, _] | .umod, [_, _] | .imod, [_, _] => true
  | _, _ => false

/-- The instructions `lower` emits before the final `ret` (`allowDiv = false`:
none of them can fail). -/
def instrOk (allowDiv : Bool) (i : SInstr) : Bool := instrTotal i || (allowDiv && instrDiv i)

mutual
/-- No `/` and `%` in an expression (the bodies of called functions are covered
by `noDivP`). -/
def noDivE : Expr → Bool
  | .bin op a b => op != .div && op != .mod && noDivE a && noDivE b
  | .shift _ a _ => noDivE a
  | .not a => noDivE a
  | .neg a => noDivE a
  | .cast _ a => noDivE a
  | .idx a i => noDivE a && noDivE i
  | .fld a _ => noDivE a
  | .call _ args => noDivEs args
  | _ => true
def noDivEs : List Expr → Bool
  | [] => true
  | e :: es => noDivE e && noDivEs es
end

mutual
def noDivS : Stmt → Bool
  | .decl _ _ none => true
  | .decl _ _ (some e) => noDivE e
  | .define _ e => noDivE e
  | .assign _ e => noDivE e
  | .ifte c th el => noDivE c && noDivB th && noDivB el
  | .for _ _ _ _ _ body => noDivB body
  | .ret es => noDivEs es
def noDivB : List Stmt → Bool
  | [] => true
  | s :: ss => noDivS s && noDivB ss
end

/-- No `/` and `%` anywhere in the program. -/
def noDivP (P : Prog) : Bool := P.all fun fn => noDivB fn.body

end Mpc.Mpcl.Ssa

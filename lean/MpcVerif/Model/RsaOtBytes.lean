/-
RSA OT (/repo/ot/rsa.go) as the code computes it: the INTEGERS that travel and
their byte strings.  Model/RsaOt.lean states one transfer over an abstract
message framing `enc`/`dec` and with `k ^ e % N` written as a power; this file
adds what the byte-exact comparison with the Go code needs and what the
theorems about "every randomness" need:

* `powMod`: `big.Int.Exp(a, e, N)` as square-and-multiply (executable for
  2048-bit operands; `Proofs/RsaOtBytes.lean`: `powMod a e N = a ^ e % N`).
* `Wire`, `wire` / `wireX`: the three integers of one transfer — `v` (receiver
  to sender) and the two transfer messages `m0p`, `m1p` (sender to receiver).
  The transfer messages are SUMS OVER THE INTEGERS, `m_c' = pad(m_c) + k_c`
  (`mpint.Add(mpint.FromBytes(m0), k0)`: no reduction), and the receiver
  subtracts over the integers (`mpint.Sub(mbp, k)`): `wire` does exactly that.
  `wireModN` is the variant whose sender reduces the sums mod `N` (kept only to
  state what goes wrong with it: the receiver still subtracts over the
  integers, so `pad(m_b) + k ≥ N` yields a negative number).
* bytes: `fromBytes` (`big.Int.SetBytes`), `natBytes` (`big.Int.Bytes`: the
  minimal big-endian string of the ABSOLUTE value), `pkcs1Pad` / `pkcs1Parse`
  (`pkcs1.NewEncryptionBlock(BT1, ..)` / `pkcs1.ParseEncryptionBlock`),
  `receiveBlock` (the receiver's `make([]byte, messageSize)`, left-padded copy
  and parse; a value longer than `messageSize` makes the slice expression
  `mbBytes[ofs:]` panic).
* `XferIn`, `xferB`, `sessionOut`: one transfer / a batch of transfers of
  `RSA.Send`/`RSA.Receive` (and of the `SenderXfer`/`ReceiverXfer` API) with
  ALL randomness explicit: the sender's `x0`, `x1` (any `messageSize` bytes:
  they may exceed `N`), the receiver's `k` (`rand.Int(rand, N)`).

Core Lean only.
-/
import MpcVerif.Model.RsaOt
namespace Mpc.RsaOt

/-! ### Modular exponentiation -/

/-- Right-to-left square and multiply; the first argument bounds the number of
exponent bits that are looked at. -/
def powModFuel : Nat → Nat → Nat → Nat → Nat
  | 0, _, _, N => 1 % N
  | f + 1, a, e, N =>
    if e = 0 then 1 % N
    else
      let h := powModFuel f (a * a % N) (e / 2) N
      if e % 2 = 1 then a * h % N else h

/-- `Exp(a, e, N)` for `a ≥ 0`: `a ^ e mod N`. -/
def powMod (a e N : Nat) : Nat := powModFuel e a e N

/-- Receiver: `v = Mod(Add(xb, Exp(k, e, N)), N)`. -/
def receiverVX (N e xb k : Nat) : Nat := (xb + powMod k e N) % N

/-- Sender: `k_c = Exp(Sub(v, x_c), d, N)` (`math/big`: the result is the
residue in `[0, N)` also for a negative base). -/
def senderKeyX (N d v x : Nat) : Nat := powMod (((v : Int) - (x : Int)) % (N : Int)).toNat d N

/-! ### The integers on the wire -/

/-- What one transfer puts on the wire. -/
structure Wire where
  v : Nat
  m0p : Nat
  m1p : Nat
deriving DecidableEq, Repr

/-- One transfer: `p0`, `p1` are the integers of the two padded messages.  The
sums are over the integers, as in the code. -/
def wire (N e d p0 p1 x0 x1 k : Nat) (bit : Bool) : Wire :=
  let v := receiverV N e (if bit then x1 else x0) k
  { v := v, m0p := p0 + senderKey N d v x0, m1p := p1 + senderKey N d v x1 }

/-- `wire`, executable. -/
def wireX (N e d p0 p1 x0 x1 k : Nat) (bit : Bool) : Wire :=
  let v := receiverVX N e (if bit then x1 else x0) k
  { v := v, m0p := p0 + senderKeyX N d v x0, m1p := p1 + senderKeyX N d v x1 }

/-- The variant in which the SENDER reduces the transfer messages mod `N`
("they are elements of Z_N") while the receiver keeps subtracting over the
integers.  Not the code of /repo. -/
def wireModN (N e d p0 p1 x0 x1 k : Nat) (bit : Bool) : Wire :=
  let w := wire N e d p0 p1 x0 x1 k bit
  { w with m0p := w.m0p % N, m1p := w.m1p % N }

/-- `wireModN`, executable. -/
def wireModNX (N e d p0 p1 x0 x1 k : Nat) (bit : Bool) : Wire :=
  let w := wireX N e d p0 p1 x0 x1 k bit
  { w with m0p := w.m0p % N, m1p := w.m1p % N }

/-- The integer the receiver unpads: `Sub(m_b', k)`. -/
def Wire.received (w : Wire) (k : Nat) (bit : Bool) : Int :=
  ((if bit then w.m1p else w.m0p : Nat) : Int) - (k : Int)

/-! ### Bytes -/

/-- A byte string (values `< 256`). -/
abbrev Octets := List Nat

/-- `big.Int.SetBytes`: the big-endian value. -/
def fromBytes (bs : Octets) : Nat := bs.reverse.foldr (fun b acc => b + 256 * acc) 0

/-- Little-endian base-256 digits, no trailing zero. -/
def leBytesFuel : Nat → Nat → Octets
  | 0, _ => []
  | f + 1, n => if n = 0 then [] else (n % 256) :: leBytesFuel f (n / 256)

/-- `big.Int.Bytes` of a non-negative value: minimal big-endian string (empty
for 0). -/
def natBytes (n : Nat) : Octets := (leBytesFuel n n).reverse

/-- `pkcs1.NewEncryptionBlock(pkcs1.BT1, size, m)`:
`00 01 FF..FF 00 m` with at least 8 bytes `FF`; `none` = "data too long". -/
def pkcs1Pad (size : Nat) (m : Octets) : Option Octets :=
  if size < m.length + 11 then none
  else some (0 :: 1 :: (List.replicate (size - 3 - m.length) 255 ++ 0 :: m))

/-- What follows the first zero byte. -/
def afterZero : Octets → Option Octets
  | [] => none
  | b :: t => if b = 0 then some t else afterZero t

/-- `pkcs1.ParseEncryptionBlock`. -/
def pkcs1Parse (block : Octets) : Option Octets :=
  if block.length < 4 then none
  else if block.getD 0 0 ≠ 0 then none
  else if block.getD 1 0 ≠ 1 ∧ block.getD 1 0 ≠ 2 then none
  else afterZero (block.drop 2)

/-- How the receiver's last step ends. -/
inductive Outcome where
  /-- the unpadded message -/
  | ok (m : Octets)
  /-- `ParseEncryptionBlock` returns an error -/
  | err
  /-- `copy(mbBytes[ofs:], ..)` with `ofs < 0`: run-time panic -/
  | panic
deriving DecidableEq, Repr

def Outcome.toOption : Outcome → Option Octets
  | .ok m => some m
  | _ => none

/-- The receiver's last step on the integer `z = Sub(m_b', k)`:
`mbBytes := make([]byte, size)`, the bytes of `|z|` copied right-aligned, then
`ParseEncryptionBlock`. -/
def receiveBlock (size : Nat) (z : Int) : Outcome :=
  let bs := natBytes z.natAbs
  if size < bs.length then .panic
  else match pkcs1Parse (List.replicate (size - bs.length) 0 ++ bs) with
    | some m => .ok m
    | none => .err

/-- The framing of Model/RsaOt.lean for messages in `size`-byte blocks. -/
def encB (size : Nat) (m : Octets) : Nat := fromBytes ((pkcs1Pad size m).getD [])
def decB (size : Nat) (z : Int) : Option Octets := (receiveBlock size z).toOption

/-! ### Transfers with all randomness explicit -/

/-- One transfer: the receiver's choice, the sender's two messages, the
sender's random `x0`, `x1` (`RandomData(rand, messageSize)` as integers: any
value below `256 ^ messageSize`) and the receiver's `k` (`rand.Int(rand, N)`). -/
structure XferIn where
  bit : Bool
  m0 : Octets
  m1 : Octets
  x0 : Nat
  x1 : Nat
  k : Nat

/-- The message the receiver asked for. -/
def XferIn.chosen (t : XferIn) : Octets := if t.bit then t.m1 else t.m0

/-- One iteration of `RSA.Send` / `RSA.Receive` given how the three wire
integers are made: `none` = the sender's `NewEncryptionBlock` fails ("data too
long": nothing is sent). -/
def xferWith (mk : Nat → Nat → Nat → Nat → Nat → Bool → Wire) (size : Nat) (t : XferIn) : Option (Wire × Outcome) :=
  match pkcs1Pad size t.m0, pkcs1Pad size t.m1 with
  | some b0, some b1 =>
    let w := mk (fromBytes b0) (fromBytes b1) t.x0 t.x1 t.k t.bit
    some (w, receiveBlock size (w.received t.k t.bit))
  | _, _ => none

/-- One transfer of /repo (specification form and executable form). -/
def xferB (N e d size : Nat) (t : XferIn) : Option (Wire × Outcome) := xferWith (wire N e d) size t
def xferX (N e d size : Nat) (t : XferIn) : Option (Wire × Outcome) := xferWith (wireX N e d) size t
/-- One transfer with the mod-`N` sender. -/
def xferModN (N e d size : Nat) (t : XferIn) : Option (Wire × Outcome) := xferWith (wireModN N e d) size t
def xferModNX (N e d size : Nat) (t : XferIn) : Option (Wire × Outcome) := xferWith (wireModNX N e d) size t

/-- A batch (`RSA.Send(wires)` / `RSA.Receive(flags, result)`): what the
receiver ends with at every position; `none` = some transfer did not deliver a
message (error return or panic: the batch stops there). -/
def sessionOut (N e d size : Nat) : List XferIn → Option (List Octets)
  | [] => some []
  | t :: ts =>
    match xferB N e d size t with
    | some (_, .ok m) => (sessionOut N e d size ts).map (m :: ·)
    | _ => none

end Mpc.RsaOt

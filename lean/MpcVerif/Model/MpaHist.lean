/-
HISTORIES of `mpa.Int` calls that share operands (compiler/mpa/mpint.go).  Core Lean only.

An `*mpa.Int` is an object: the folder hands the SAME object to several calls (a constant bound to a
variable is the left operand of one fold, the right operand of the next and is read again when the
constant wires are made), and the methods have the signature `z.Op(x, y)` in which receiver and operands
may be one object (`Unary.Eval`: `r.Sub(r, val)`; `x op x`).  The contract every caller relies on:

    a call WRITES ONLY ITS RECEIVER.  Whatever objects are passed as operands hold, after the call, the
    value (size, int64, big value) they held before it.

`Model/Mpa.lean` is a model of single calls as pure functions `z x y ↦ z'`; this file makes the contract
explicit as a machine on REGISTERS (one register = one `*mpa.Int` object) so that the correspondence can
check it: a step names its receiver (a fresh `mpa.New(bits)`, which becomes a new register, or an
existing register — possibly the one of `x`, of `y`, or of both) and its operand registers, and `step`
writes the receiver's register and NOTHING else.  The driver (`c12 mpah`) prints every register after
every step; the harness prints what the real objects hold after the real call.
-/
import MpcVerif.Model.Mpa

namespace Mpc.MpaHist
open Mpc.Mpa

/-- The exported methods of `mpa.Int` that take operands. -/
inductive HOp where
  | add | sub | mul | div | mod | and | or | xor | andNot | lsh | rsh | cmp
  deriving DecidableEq, Repr, Inhabited

/-- The receiver of a call: `mpa.New(bits)` (a new object) or an existing object. -/
inductive Recv where
  | fresh (bits : Nat)
  | reg (i : Nat)
  deriving DecidableEq, Repr, Inhabited

/-- One call `z.Op(x, y)` (`z.Lsh(x, n)`, `z.Rsh(x, n)`, `x.Cmp(y)`). -/
structure Step where
  op : HOp
  n : Nat
  z : Recv
  x : Nat
  y : Nat
  deriving DecidableEq, Repr, Inhabited

/-- The receiver after the call, from the values receiver and operands hold BEFORE it (`alias`: the
receiver is the object of `x`, which `Rsh` tests with `z != x`). -/
def call (op : HOp) (n : Nat) (alias : Bool) (z x y : MInt) : Option MInt :=
  match op with
  | .add => Mpa.add z x y
  | .sub => Mpa.sub z x y
  | .mul => Mpa.mul z x y
  | .div => Mpa.div z x y
  | .mod => Mpa.mod z x y
  | .and => Mpa.and z x y
  | .or => Mpa.or z x y
  | .xor => Mpa.xor z x y
  | .andNot => Mpa.andNot z x y
  | .lsh => Mpa.lsh z x n
  | .rsh => Mpa.rsh z x n alias
  | .cmp => some z

/-- One step on the registers: the receiver's register is written (appended when it is a new object),
every other register keeps its value.  `none` = the call panics. -/
def step (regs : List MInt) (s : Step) : Option (List MInt) := do
  let x ← regs[s.x]?
  let y ← regs[s.y]?
  if s.op = .cmp then
    let _ ← Mpa.cmp x y
    pure regs
  else
    match s.z with
    | .fresh b => do
      let z ← Mpa.new b
      let r ← call s.op s.n false z x y
      pure (regs ++ [r])
    | .reg i => do
      let z ← regs[i]?
      let r ← call s.op s.n (i == s.x) z x y
      pure (regs.set i r)

/-- A history of calls. -/
def run (regs : List MInt) : List Step → Option (List MInt)
  | [] => some regs
  | s :: rest => (step regs s).bind (fun regs' => run regs' rest)

/-- The register states after every step of a history, up to the first panic (driver). -/
def trace (regs : List MInt) : List Step → List (Option (List MInt))
  | [] => []
  | s :: rest =>
    match step regs s with
    | none => [none]
    | some regs' => some regs' :: trace regs' rest

/-- Does the step write register `j`? -/
def Step.writes (s : Step) (j : Nat) : Bool := s.op != .cmp && s.z == .reg j

end Mpc.MpaHist

/-
C01 at the boundaries of "every circuit": the places where the list model of
`Circuit.Garble` (Model/Garble.lean) meets the buffers and counters of the
code (circuit/garble.go):

* the per-gate stack table `[4]ot.Label` and the `(start, count)` slice of it
  that `Gate.garbleInto` returns (`garbleSlots`, `Op.start`): AND rows are
  slots 0..1, row-reduced OR rows are slots 1..3 and the INV row is slot 1 -
  slot 0 of OR / INV is the dropped all-zero row;
* the table slab of `garbleScratchPool` (`slabSize` = 2 per AND, 3 per OR, 1
  per INV) and the running offset `slabOff` of the gate loop: gate `i` owns
  `slab[slabOff i : slabOff i + count i]` (`slabView`);
* the `uint32` tweak counter `id` (`tweaksU32`);
* single-pass, constant-stack versions of the gate loops (`garbleGatesTR`,
  `Circuit.garbleTR`, `encodeInputsFast`, `plainEvalFast`) which the driver
  executes on circuits with 2^16 .. 2^22 table labels / gates / wires, and the
  running digests / row counts the driver prints for them.

Everything here is proved equal to the list model for EVERY circuit in
Proofs/GarbleBig.lean; nothing depends on a size.  Core Lean only.
-/
import MpcVerif.Model.Garble
import MpcVerif.Model.LabelBV

namespace Mpc
open LabelAlg

variable {L : Type} [LabelAlg L]

/-! ### The stack table of one `garbleInto` call -/

/-- `start` of the slice `table[start : start+count]` that `garbleInto`
returns (`count` is `Op.rows`). -/
def Op.start : Op → Nat
  | .or | .inv => 1
  | _ => 0

/-- The slots of the `[4]ot.Label` stack table that one call of
`Gate.garbleInto` writes (slots the call does not write are shown as zero; in
the code they keep what an earlier gate left there, and they are outside
`[start, start+count)`). -/
def garbleSlots (H : Hash L) (r : L) (op : Op) (a b : WireL L) (id : Nat) : Tab L :=
  match op with
  | .xor | .xnor => fun _ => LabelAlg.zero
  | .and =>
    let pb := sbit b.l0
    let j0 := id
    let j1 := id + 1
    let tg0 := H.h1 a.l0 j0 ^^^ H.h1 a.l1 j0
    let tg := if pb then tg0 ^^^ r else tg0
    let te := H.h1 b.l0 j1 ^^^ H.h1 b.l1 j1 ^^^ a.l0
    let t : Tab L := fun _ => LabelAlg.zero
    (t.set 0 tg).set 1 te
  | .or =>
    let z : L := LabelAlg.zero
    let t : Tab L := fun _ => z
    let t := t.set (idx a.l0 b.l0) (H.h2 a.l0 b.l0 id ^^^ z)
    let t := t.set (idx a.l0 b.l1) (H.h2 a.l0 b.l1 id ^^^ z)
    let t := t.set (idx a.l1 b.l0) (H.h2 a.l1 b.l0 id ^^^ z)
    let t := t.set (idx a.l1 b.l1) (H.h2 a.l1 b.l1 id ^^^ z)
    let l0Index := idx a.l0 b.l0
    let c0 := if l0Index = 0 then t 0 else t 0 ^^^ r
    let c1 := if l0Index = 0 then t 0 ^^^ r else t 0
    fun i => if i < 4 then (if i = l0Index then t i ^^^ c0 else t i ^^^ c1) else z
  | .inv =>
    let z : L := LabelAlg.zero
    let t : Tab L := fun _ => z
    let t := t.set (idxUnary a.l0) (H.h2 a.l0 z id ^^^ z)
    let t := t.set (idxUnary a.l1) (H.h2 a.l1 z id ^^^ z)
    let l0Index := idxUnary a.l0
    let c0 := if l0Index = 0 then t 0 ^^^ r else t 0
    let c1 := if l0Index = 0 then t 0 else t 0 ^^^ r
    fun i => if i < 2 then (if i = l0Index then t i ^^^ c1 else t i ^^^ c0) else z

/-- `table[from : from+count]`. -/
def tabSlice (t : Tab L) (start count : Nat) : List L :=
  (List.range count).map fun k => t (start + k)

/-! ### The table slab -/

/-- `slabSize` of `garbleScratchPool`: 2 labels per AND, 3 per OR, 1 per INV. -/
def slabSize (gs : List Gate) : Nat := (gs.map fun g => g.op.rows).sum

/-- `slabOff` of the gate loop of `Circuit.Garble` when it reaches gate `i`. -/
def slabOff (gs : List Gate) (i : Nat) : Nat := slabSize (gs.take i)

/-- The slab after the gate loop: the rows of all gates, one after the other. -/
def Garbled.slab (G : Garbled L) : List L := G.rows.flatten

/-- `slab[off : off+count]`. -/
def slabView (slab : List L) (off count : Nat) : List L := (slab.drop off).take count

/-- Transmitted rows per gate kind (AND, OR, INV, XOR, XNOR) of a list of
per-gate tables: what the harness counts on the real `Garbled.Gates`. -/
def rowsOfKind (k : Op) (gs : List Gate) (rows : List (List L)) : Nat :=
  ((gs.zip rows).map fun p => if p.1.op = k then p.2.length else 0).sum

/-- The same count from the circuit alone. -/
def rowsOfKindSpec (k : Op) (gs : List Gate) : Nat :=
  (gs.map fun g => if g.op = k then g.op.rows else 0).sum

/-! ### The `uint32` tweak counter -/

/-- Total number of tweaks a gate list consumes (Nat counter of the model). -/
def tweakTotal (gs : List Gate) : Nat := (gs.map fun g => g.op.tweaks).sum

/-- The counter `id` of `Circuit.Garble` / `Circuit.Eval` as the code keeps it:
a `uint32` that wraps. -/
def tweaksU32 (gs : List Gate) (id : Nat) : Nat :=
  gs.foldl (fun id g => (id + g.op.tweaks) % 2 ^ 32) id

/-- The counter when the gate loop reaches gate `i`, for all `i` at once. -/
def tweakPrefix (gs : List Gate) : Array Nat :=
  (gs.foldl (fun (acc : Array Nat × Nat) g => (acc.1.push acc.2, acc.2 + g.op.tweaks)) (#[], 0)).1

/-! ### The local step of one gate -/

/-- What `Gate.garbleInto` does at gate `i`, read off the FINAL wire store of
a garbling: `garbleCore` on the pairs of the gate's input wires with the tweak
the counter has when the loop reaches the gate.  For circuits in which every
gate writes a fresh wire (`Circuit.singleAssign`) this is the gate's output
pair and its table (`C01_garble_local`). -/
def Circuit.localStep (c : Circuit) (H : Hash L) (r : L) (wires : Store (WireL L)) (i : Nat) :
    WireL L × List L :=
  let g := c.gates.getD i default
  garbleCore H r g.op (wires.get g.in0) (wires.get g.in1) (tweakTotal (c.gates.take i))

/-- Every gate writes a fresh wire above all wires written before and above
its own inputs (what the compiler emits; the extreme circuits of the harness). -/
def Circuit.singleAssign (c : Circuit) : Prop :=
  c.gates.Pairwise (fun g g' => g.out < g'.out) ∧
  ∀ g ∈ c.gates, g.in0 < g.out ∧ g.in1 < g.out ∧ g.out < c.numWires

/-! ### Constant-stack gate loops (executed by the driver on big circuits) -/

/-- `garbleGates` with the rows accumulated in reverse (tail recursive). -/
def garbleGatesTR (H : Hash L) (r : L) : List Gate → Store (WireL L) → Nat → List (List L) →
    Store (WireL L) × Nat × List (List L)
  | [], ws, id, acc => (ws, id, acc.reverse)
  | g :: gs, ws, id, acc =>
    let (ws1, id1, rows) := garbleGate H r g ws id
    garbleGatesTR H r gs ws1 id1 (rows :: acc)

/-- `Circuit.garble` on the tail-recursive gate loop. -/
def Circuit.garbleTR (c : Circuit) (H : Hash L) (r : L) (inl : Nat → L) : Garbled L :=
  let ws0 : Store (WireL L) :=
    (Array.range c.numWires).map fun i =>
      if i < c.nIn then ⟨inl i, inl i ^^^ r⟩ else default
  let (ws, _, rows) := garbleGatesTR H r c.gates ws0 0 []
  { r := r, wires := ws, rows := rows }

/-- `encodeInputs` without the per-wire list walk. -/
def encodeInputsFast (c : Circuit) (G : Garbled L) (x : List Bool) : Store L :=
  let xa := x.toArray
  (Array.range c.numWires).map fun i =>
    if i < c.nIn then (G.wires.get i).labelFor (xa.getD i false) else default

/-- `initStore` without the per-wire list walk. -/
def initStoreFast {α : Type} (n : Nat) (d : α) (inputs : List α) : Store α :=
  let a := inputs.toArray
  (Array.range n).map fun i => a.getD i d

def Circuit.plainEvalFast (c : Circuit) (x : List Bool) : Store Bool :=
  evalPlainGates c.gates (initStoreFast c.numWires false (x.take c.nIn))

def Circuit.computeFast (c : Circuit) (x : List Bool) : List Bool :=
  c.outputs (c.plainEvalFast x)

/-! ### Running digests (concrete labels) -/

/-- Multiplier of the running digest (odd). -/
def digMul : BitVec 128 := 0x9E3779B97F4A7C15F39CC0605CEDC835#128

/-- One step of the running digest: `d * M + x + 1  (mod 2^128)`; order
sensitive, so a shifted or dropped label changes every later value. -/
def dig (d x : BitVec 128) : BitVec 128 := d * digMul + x + 1#128

/-- Digest of a wire-pair store, in wire order. -/
def digWires (ws : Store (WireL (BitVec 128))) : BitVec 128 :=
  ws.foldl (fun d w => dig (dig d w.l0) w.l1) 0#128

/-- Digest of a label store, in wire order. -/
def digLabels (ws : Store (BitVec 128)) : BitVec 128 :=
  ws.foldl dig 0#128

/-- Digest of the per-gate tables, in gate order; after each gate its row
count is mixed in, so moving a row from one gate to the next is seen. -/
def digRows (rows : List (List (BitVec 128))) : BitVec 128 :=
  rows.foldl (fun d row => dig (row.foldl dig d) (BitVec.ofNat 128 row.length)) 0#128

end Mpc

/-
C01, the random stream of `Circuit.Garble` (circuit/garble.go) and the INPUT
WIDTH of a circuit.

`Circuit.garble` (Model/Garble.lean) takes the offset `r` and the zero-labels
`inl i` of the input wires as given.  The code draws them from ONE stream of
label randomness: slot 0 is `R` (then `SetS(true)`), slot `i + 1` is the
zero-label of input wire `i` (`ot.NewLabel` / `makeLabels`, 16 bytes each), so
a garbling consumes `1 + nIn` slots and fails when the source runs short.  How
the bytes are fetched - one `Read` per label, or any number of labels per
`Read` - is not visible in the result: `drawBatched` is the read loop of a
garbler that fetches at most `b` labels per read, and for every `b > 0` it
yields the same `1 + nIn` labels (Proofs/GarbleTape.lean).

Nothing here depends on a size: the input width `nIn` is arbitrary.  The
driver executes `garbleSlotsTR` on circuits with 7 .. 2^20 input wires
(harness/cmd/c01/ext.go, dimension `inputs`).  Core Lean only.
-/
import MpcVerif.Model.GarbleBig

namespace Mpc
open LabelAlg

variable {L : Type} [LabelAlg L]

/-- `Circuit.Garble` on the slots of its random stream: `slot 0` is `R` before
`SetS(true)` (`fixS`), `slot (i+1)` the zero-label of input wire `i`. -/
def Circuit.garbleSlots (c : Circuit) (H : Hash L) (fixS : L → L) (slot : Nat → L) : Garbled L :=
  c.garble H (fixS (slot 0)) (fun i => slot (i + 1))

/-- The same on the constant-stack gate loop (executed by the driver). -/
def Circuit.garbleSlotsTR (c : Circuit) (H : Hash L) (fixS : L → L) (slot : Nat → L) : Garbled L :=
  c.garbleTR H (fixS (slot 0)) (fun i => slot (i + 1))

/-- Number of stream slots (labels of 16 bytes) one garbling consumes. -/
def Circuit.slotsUsed (c : Circuit) : Nat := 1 + c.nIn

/-- `Circuit.Garble(rand, key)` on a finite stream of labels: `none` is the
error return when the source runs short (the slots read before are consumed). -/
def Circuit.garbleTape (c : Circuit) (H : Hash L) (fixS : L → L) (tape : List L) : Option (Garbled L) :=
  if tape.length < c.slotsUsed then none
  else some (c.garbleSlots H fixS (fun k => tape.getD k default))

/-- The read loop of a garbler that fetches its `n` labels in batches of at
most `b` labels per read (`b = 1`: one `Read` per label, the code as it is);
`fuel` bounds the number of reads (each read fetches at least one label). -/
def drawBatchedF {α : Type} (b : Nat) : Nat → Nat → List α → List α
  | 0, _, _ => []
  | fuel + 1, n, tape =>
    if n = 0 ∨ b = 0 then []
    else tape.take (min b n) ++ drawBatchedF b fuel (n - min b n) (tape.drop (min b n))

def drawBatched {α : Type} (b : Nat) (n : Nat) (tape : List α) : List α := drawBatchedF b n n tape

end Mpc

/-
The two-party protocol (Model/Proto2.lean) run over two `p2p.Conn` connections
(Model/Conn.lean): every flight of typed messages goes through the send half of
the sender's connection (64 KiB write buffer with automatic flushes, writer
goroutine under an arbitrary schedule), arrives as a byte stream at a transport
that fragments reads in an arbitrary way, and is taken apart again by the typed
receives of the receiver's connection (1 MiB read window, `Fill`).  The receive
half of each party persists over the whole session (read window, number of
transport reads, `Stats.Recvd`).

Flights (circuit/garbler.go, circuit/evaluator.go):

  0  G -> E   key, gate count, per gate row count + rows, garbler's input
              labels; flushed by `oti.InitSender`
  1  E -> G   offset, count; `Flush`
  2  E -> G   output labels; `Flush`
  3  G -> E   result bytes; `Flush`

The oblivious transfer is the parameter `ot` as in `run2` (its own traffic is
property C06).  The receiver asks for the kinds of values the sender sent: that
the two functions agree on the message grammar is `evaluatorRecv1_flight1` at
message level and the call-sequence facts of the check.  Core Lean only.
-/
import MpcVerif.Model.Proto2
import MpcVerif.Model.Conn
import MpcVerif.Model.LabelBV

namespace Mpc
open Conn

/-- A protocol message as a typed value of the connection layer
(`SendData` / `SendUint32` / `SendLabel`). -/
def Msg.toVal : Msg (BitVec 128) → Val
  | .data bs => .data (ByteArray.mk bs.toArray)
  | .u32 n => .u32 n
  | .label l => .label l.toNat

/-- Back from a received typed value. -/
def Msg.ofVal : Val → Option (Msg (BitVec 128))
  | .data d => some (.data d.data.toList)
  | .u32 n => some (.u32 n)
  | .label n => some (.label (BitVec.ofNat 128 n))
  | _ => none

/-- Domain guard of the typed API for a protocol message: counts below 2^32,
payloads shorter than 2^32 bytes (labels are 128-bit by type).  Outside it the
Go code truncates (`uint32(val)`). -/
def Msg.Fits : Msg (BitVec 128) → Prop
  | .data bs => bs.length < 2 ^ 32
  | .u32 n => n < 2 ^ 32
  | .label _ => True

/-- What is outside the message-level model: the writer-goroutine schedule of
the sending connection during each flight and the read fragmentation of the
transport in each direction (the size the transport returns on its i-th
`Read`, counted per direction over the whole session). -/
structure ConnEnv where
  sch : Nat → Sched
  fragGE : Frag
  fragEG : Frag

inductive SessErr where
  | proto (e : ProtoErr)
  | conn (e : Conn.Err)
  | badValue
  deriving DecidableEq, Repr

/-- The bytes a party hands to its transport for one flight: the typed sends
into the write buffer (automatic flushes whenever a value does not fit into
the rest of the 64 KiB buffer), the final `Flush`, and the writer goroutine
writing every queued buffer. -/
def flightBytes (sch : Sched) (ms : List (Msg (BitVec 128))) : ByteArray :=
  joinB ((Sender.init.run sch (ms.map fun m => Op.send m.toVal)).close sch).wire

/-- More bytes have reached the transport the connection reads from. -/
def Conn.Recv.feed (r : Recv) (b : ByteArray) : Recv := { r with pend := r.pend ++ b }

/-- The receiver's side of one flight: the bytes arrive at its transport, the
matching typed receives take them from the read window under the
fragmentation `frag`. -/
def recvFlight (frag : Frag) (r : Recv) (bytes : ByteArray) (ms : List (Msg (BitVec 128))) :
    Except SessErr (List (Msg (BitVec 128)) × Recv) :=
  match (r.feed bytes).recvAll frag (ms.map fun m => m.toVal.kind) with
  | (vs, r', none) =>
    match vs.mapM Msg.ofVal with
    | some ms' => .ok (ms', r')
    | none => .error .badValue
  | (_, _, some e) => .error (.conn e)

/-- A complete session over two connections.  Returns (garbler's results,
evaluator's results), the final state of the evaluator's receive half and of
the garbler's receive half. -/
def run2Conn (p : Circuit2) (mkH : List UInt8 → Hash (BitVec 128)) (key : List UInt8)
    (r : BitVec 128) (inl : Nat → BitVec 128) (x y : List Bool) (ot : OtFun (BitVec 128))
    (env : ConnEnv) : Except SessErr ((List Nat × List Nat) × Recv × Recv) :=
  let G := p.c.garble (mkH key) r inl
  -- flight 0, garbler -> evaluator
  let f0 := garblerFlight1 p key G x
  match recvFlight env.fragGE (Recv.init ByteArray.empty) (flightBytes (env.sch 0) f0) f0 with
  | .error e => .error e
  | .ok (m0, rE) =>
    match evaluatorRecv1 p m0 with
    | .error e => .error (.proto e)
    | .ok (key', rows, inLabels, _) =>
      -- flight 1, evaluator -> garbler: wire offset and count; garbler checks them
      let f1 : List (Msg (BitVec 128)) := [.u32 p.n0, .u32 p.n1]
      match recvFlight env.fragEG (Recv.init ByteArray.empty) (flightBytes (env.sch 1) f1) f1 with
      | .error e => .error e
      | .ok ([.u32 offset, .u32 count], rG) =>
        if !p.acceptsOtRange offset count then .error (.proto (.otRange offset count)) else
        let sendWires := (List.range count).map fun i => G.wires.get (offset + i)
        let flags := (List.range p.n1).map fun i => y.getD i false
        let otl := ot sendWires flags
        match evaluatorEval p (mkH key') rows inLabels otl with
        | .error e => .error (.proto e)
        | .ok outLabels =>
          -- flight 2, evaluator -> garbler: output labels; garbler decodes
          let f2 : List (Msg (BitVec 128)) := outLabels.map .label
          match recvFlight env.fragEG rG (flightBytes (env.sch 2) f2) f2 with
          | .error e => .error e
          | .ok (m2, rG') =>
            match recvLabels p.c.nOut m2 with
            | .error e => .error (.proto e)
            | .ok (labels, _) =>
              match garblerDecode p G 0 labels with
              | .error e => .error (.proto e)
              | .ok bits =>
                let result := packLE bits
                -- flight 3, garbler -> evaluator: result.Bytes()
                let f3 : List (Msg (BitVec 128)) := [.data (natToBytesBE result)]
                match recvFlight env.fragGE rE (flightBytes (env.sch 3) f3) f3 with
                | .error e => .error e
                | .ok ([.data bs], rE') =>
                  .ok ((splitNat p.outWidths result, splitNat p.outWidths (bytesToNatBE bs)), rE', rG')
                | .ok _ => .error (.proto .desync)
      | .ok _ => .error (.proto .desync)

end Mpc

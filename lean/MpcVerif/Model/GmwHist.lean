/-
C10: session HISTORIES on one connected `gmw.Network` – several consecutive
`Network.Run` calls (gmw/network.go) on the same Network object.  Core Lean
only.

What a `gmw.Network` keeps from one `Run` to the next (struct `Network`):

* `Pool` (`TriplePool`): the triples not yet consumed – the next run continues
  at the stream position the previous one stopped at;
* `triples`: cleared at the end of every `andBatchFlush` (`Words = 0`);
* `wires` (`*big.Int`): NEVER reset – `Run` overwrites the input wires
  (`setWires`) and every gate output; a wire that the new circuit neither
  reads as input nor assigns keeps the bit of an earlier run, and bits at
  indices `≥ NumWires` of the new circuit stay where they are;
* `andD/andE/andZ`: `expandClear`ed for every batch (length of the largest
  batch so far, all zero) – carried as exactly `words` words by `Gmw.maskedDE`;
* `circ`, `self.input`, `self.randBuf`, `self.shared`, `output`: assigned by
  every `Run` before they are read;
* the per-level gate lists `ands`/`rest` of `run` are locals, rebuilt from the
  circuit of THIS call.

`runFrom` is `Gmw.run` started from such a state instead of a fresh one;
`runHist` folds it over a list of calls.
-/
import MpcVerif.Model.Gmw

namespace Mpc.Gmw

/-- `nw.wires.SetBit` on a `big.Int` that already holds the bits of the
earlier runs: the store grows to `numWires` when the new circuit is larger and
is never truncated. -/
def growWires (w : Store Bool) (numWires : Nat) : Store Bool :=
  if numWires ≤ w.size then w else mkA numWires fun i => w.get i

/-- Input sharing of `Network.run` on top of the wire store `w0` the party
holds when `Run` is called (`Gmw.shareInputs` is the case `w0 = 0`). -/
def shareInputsFrom (w0 : Store Bool) (sizes : List Nat) (x : Nat → Nat) (rnd : Nat → Nat → Nat) (p : Nat) :
    Store Bool :=
  let n := sizes.length
  let w1 := (List.range n).foldl (fun w q =>
    if q = p then w else setWires w (argOfs sizes q) (sizes.getD q 0) (rnd q p)) w0
  let shared := (List.range n).foldl (fun s q => if q = p then s else s ^^^ rnd p q) 0
  setWires w1 (argOfs sizes p) (sizes.getD p 0) (shared ^^^ x p)

/-- `Network.Run(input, circ)` at all parties, started from the parties'
current state `ps` (pool position, `nw.triples`, stale `nw.wires`). -/
def runFrom (c : Circuit) (sizes : List Nat) (x : Nat → Nat) (rnd : Nat → Nat → Nat) (ps : List Party) :
    RunResult :=
  let ps0 := ps.map fun p =>
    { p with wires := shareInputsFrom (growWires p.wires c.numWires) sizes x rnd p.id }
  if !c.gates.all supported then .unsupported else
  match runBlocks (blocks c) ps0 with
  | none => .blocked
  | some ps1 =>
    let shares := ps1.map fun p => (p.id, c.outputs p.wires)
    .ok ps1 (ps1.map fun p => outOpen p.id (c.outputs p.wires) shares)

/-- The parties right after `Connect`: `wires = new(big.Int)`, `triples =
new(Triples)`, the pool as filled by the offline phase. -/
def fresh (n : Nat) (pools : Nat → Triples) : List Party :=
  (List.range n).map fun p => ({ id := p, wires := #[], pool := pools p, trip := Triples.empty } : Party)

/-- One `Run` call of a history: the circuit, the argument sizes of its
parties (`circ.Inputs[p].Type.Bits`), the inputs and the sharing randomness. -/
structure Call where
  c     : Circuit
  sizes : List Nat
  x     : Nat → Nat
  rnd   : Nat → Nat → Nat

/-- Consecutive `Run` calls on one Network: the state after a call is the
state the next call starts from.  The history stops at the first call that
does not return normally (`gate OR not supported`: the Go call returns an
error half-way through the level loop). -/
def runHist : List Call → List Party → List RunResult
  | [], _ => []
  | k :: ks, ps =>
    match runFrom k.c k.sizes k.x k.rnd ps with
    | .ok ps' outs => .ok ps' outs :: runHist ks ps'
    | r => [r]

end Mpc.Gmw

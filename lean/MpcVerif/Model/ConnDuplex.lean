/-
A whole `p2p.Conn` (BOTH halves at once) over a full-duplex, buffering stream
transport, with transport faults on the send direction (/repo/p2p/protocol.go).
Core Lean only.  Used by C11 only.

`Model/Conn.lean` models the send half (`Sender`/`FSender`) and the receive
half (`Recv`) of a `Conn` separately.  The only thing of a `Conn` that both
halves reach is the transport `c.conn` itself.  Here one endpoint of a
connection is a `Local`: its send half, its receive half, and the state of the
transport endpoint as both halves see it (closed locally or not, what the peer
has written so far, whether the peer has closed).  A session of one endpoint is
a list of events `Ev` in which local typed sends / flushes / writer-goroutine
iterations / typed receives / `Close` and the peer's activity (`peerWrite`,
`peerClose`) are interleaved IN ANY ORDER; every send-side event carries its own
fault pattern and writer schedule, so the send direction may fail in any way at
any time.

`Sess` puts two `Local`s back to back over two independent byte queues
(`A→B`, `B→A`) with the semantics of a stream socket: what was written before
a close stays readable; a `Write` towards an endpoint that has closed fails -
at once or after `grace` more `Write`s have been accepted and discarded (TCP:
the first write after the peer's close still succeeds).  Each side of a `Sess`
is by construction a `Local` run (`Sess.step` is defined through `Local.run`).
-/
import MpcVerif.Model.Conn

namespace Mpc.Conn

/-- Errors a typed receive can report in a session. -/
inductive RErr where
  | eof         -- the peer has closed and everything it wrote has been consumed (io.EOF)
  | wouldBlock  -- nothing to read and the peer has not closed (a blocking transport would wait)
  | closed      -- the local transport endpoint has been closed (net.ErrClosed)
  | bufFull
  | stuck
  deriving DecidableEq, Inhabited, Repr

/-- What one event returns to the caller. -/
inductive Obs where
  | sent (ok : Bool)     -- a typed send / Flush / NeedSpace returned (`ok` = nil error)
  | got (v : Val)        -- a typed receive returned `v`
  | rerr (e : RErr)      -- a typed receive failed
  | closed (ok : Bool)   -- `Close` returned
  | skip                 -- nothing observable (peer / writer-goroutine events; receive on a dead half)
  deriving DecidableEq, Inhabited

/-- One event at an endpoint.  `op`, `writer`, `close` act on the send half
under the fault pattern `fault` (indexed by the number of `conn.Write` calls so
far, as in `FSender`) and the writer schedule `sch`. -/
inductive Ev where
  | op (fault : Fault) (sch : Sched) (o : Op)
  | writer (fault : Fault) (j : Nat)
  | close (fault : Fault) (sch : Sched)
  | recv (k : Kind)
  | peerWrite (b : ByteArray)
  | peerClose

/-- events of the send half that leave the transport endpoint open -/
def Ev.isSend : Ev → Bool
  | .op .. => true
  | .writer .. => true
  | _ => false

def Ev.isClose : Ev → Bool
  | .close .. => true
  | _ => false

/-- The receive side of an endpoint: the receive half of the `Conn`
(`rcv.pend` = everything the transport has accepted from the peer so far),
`dead` = a typed receive has failed (the state of the receive half after a
failed receive is not modelled: no receive follows), `epClosed` = the local
transport endpoint has been closed, `closes` = how often, `inClosed` = the
peer has closed its endpoint. -/
structure RSide where
  rcv : Recv := {}
  dead : Bool := false
  epClosed : Bool := false
  closes : Nat := 0
  inClosed : Bool := false
  deriving Inhabited

/-- What the transport's error means: `Fill` got an error from `conn.Read`. -/
def classify (epClosed inClosed : Bool) : Err → RErr
  | .eof => if epClosed then .closed else if inClosed then .eof else .wouldBlock
  | .bufFull => .bufFull
  | .stuck => .stuck

/-- One typed receive.  A locally closed endpoint delivers nothing more (only
the read window can still serve).  On an error everything the transport held
has been read into the window before `Read` reported the error (`Fill` reads
until satisfied), which is what `Stats.Recvd` counts. -/
def RSide.recv (frag : Frag) (k : Kind) (s : RSide) : RSide × Obs :=
  if s.dead then (s, .skip) else
  let view := if s.epClosed then s.rcv.pend.extract 0 s.rcv.pos else s.rcv.pend
  match ({ s.rcv with pend := view }).recvVal frag k with
  | .ok (v, r) => ({ s with rcv := { r with pend := s.rcv.pend } }, .got v)
  | .error e =>
    ({ s with dead := true,
              rcv := { s.rcv with recvd := s.rcv.recvd + (view.size - s.rcv.pos),
                                  pos := s.rcv.pos + (view.size - s.rcv.pos) } },
     .rerr (classify s.epClosed s.inClosed e))

def RSide.peerWrite (b : ByteArray) (s : RSide) : RSide :=
  { s with rcv := { s.rcv with pend := s.rcv.pend ++ b } }

def RSide.peerClose (s : RSide) : RSide := { s with inClosed := true }

/-- One endpoint: send half + receive side. -/
structure Local where
  snd : FSender := {}
  r : RSide := {}
  deriving Inhabited

def Local.init : Local := {}

/-- Install the new state of the send half.  `wc = false` is the code as it
is: nothing but the send half changes.  `wc = true` is a writer goroutine that
CLOSES THE TRANSPORT when a `Write` fails (only used by the witness
`C11_closing_writer_couples_directions_witness`). -/
def Local.sendEffect (wc : Bool) (l : Local) (snd' : FSender) : Local :=
  if wc && snd'.werr && !l.snd.werr then
    { snd := snd', r := { l.r with epClosed := true, closes := l.r.closes + 1 } }
  else { l with snd := snd' }

/-- One event.  `Close` closes the transport only on its success path
(`closer.Close()` after the drain, when `writerErr == nil`). -/
def Local.step (wc : Bool) (frag : Frag) (l : Local) : Ev → Local × Obs
  | .op f sch o =>
    let res := l.snd.step f sch o
    (l.sendEffect wc res.1, .sent res.2)
  | .writer f j => (l.sendEffect wc (l.snd.writerSteps f j), .skip)
  | .close f sch =>
    let res := l.snd.close f sch
    let l' := l.sendEffect wc res.1
    (if res.2 then { l' with r := { l'.r with epClosed := true, closes := l'.r.closes + 1 } } else l',
     .closed res.2)
  | .recv k =>
    let res := l.r.recv frag k
    ({ l with r := res.1 }, res.2)
  | .peerWrite b => ({ l with r := l.r.peerWrite b }, .skip)
  | .peerClose => ({ l with r := l.r.peerClose }, .skip)

/-- A session of one endpoint: final state and what every event returned. -/
def Local.run (wc : Bool) (frag : Frag) : Local → List Ev → Local × List Obs
  | l, [] => (l, [])
  | l, e :: es =>
    let r1 := l.step wc frag e
    let r2 := Local.run wc frag r1.1 es
    (r2.1, r1.2 :: r2.2)

/-- what the typed receives returned -/
def recvObs : List Obs → List Obs
  | [] => []
  | .got v :: os => .got v :: recvObs os
  | .rerr e :: os => .rerr e :: recvObs os
  | _ :: os => recvObs os

/-- The session as the receive direction sees it: local send-half events erased. -/
def recvView : List Ev → List Ev
  | [] => []
  | e :: es => if e.isSend then recvView es else e :: recvView es

/-! ## Two endpoints back to back -/

/-- Outcome of the `i`-th `Write` of an endpoint `x` whose peer is `y`, when
`base` `Write`s were made before: a locally closed endpoint rejects every
`Write`; towards a closed peer `grace` more `Write`s are accepted (and
discarded), later ones fail having written nothing. -/
def linkFault (xClosed yClosed : Bool) (grace base : Nat) : Fault := fun i =>
  if xClosed then some 0
  else if yClosed then (if i - base < grace then none else some 0)
  else none

/-- no writer iteration while the sender's operation runs (the harness
transport holds every `Write` until the `Flush` that queued it has returned) -/
def lazySched : Sched := fun _ => 0

inductive Act where
  | op (o : Op)
  | recv (k : Kind)
  | close

/-- Result of one action of endpoint `x` (peer `y`). -/
structure SideRes where
  x : Local
  y : Local
  grace : Nat
  disc : Nat
  obsX : List Obs
  obsY : List Obs

/-- hand the chunks `x` has written to `y` (or to nobody when `y` has closed) -/
def deliver (fragY : Frag) (y : Local) (grace disc : Nat) (chunks : List ByteArray)
    (closeAfter : Bool) : Local × Nat × Nat × List Obs :=
  let fin := if closeAfter then [Ev.peerClose] else []
  if y.r.epClosed then
    let r := y.run false fragY fin
    (r.1, grace - chunks.length, disc + (joinB chunks).size, r.2)
  else
    let r := y.run false fragY (chunks.map Ev.peerWrite ++ fin)
    (r.1, grace, disc, r.2)

def sideStep (fragX fragY : Frag) (x y : Local) (grace disc : Nat) : Act → SideRes
  | .recv k =>
    let r := x.run false fragX [.recv k]
    { x := r.1, y := y, grace := grace, disc := disc, obsX := r.2, obsY := [] }
  | .op o =>
    let base := x.snd.wire.length
    let f := linkFault x.r.epClosed y.r.epClosed grace base
    let r1 := x.run false fragX [.op f lazySched o]
    let r2 := r1.1.run false fragX [.writer f r1.1.snd.queue.length]
    let chunks := (r2.1.snd.wire.drop base).filter (fun c => c.size != 0)
    let d := deliver fragY y grace disc chunks false
    { x := r2.1, y := d.1, grace := d.2.1, disc := d.2.2.1, obsX := r1.2 ++ r2.2, obsY := d.2.2.2 }
  | .close =>
    let base := x.snd.wire.length
    let f := linkFault x.r.epClosed y.r.epClosed grace base
    let r1 := x.run false fragX [.close f lazySched]
    let chunks := (r1.1.snd.wire.drop base).filter (fun c => c.size != 0)
    let d := deliver fragY y grace disc chunks (r1.2 == [Obs.closed true])
    { x := r1.1, y := d.1, grace := d.2.1, disc := d.2.2.1, obsX := r1.2, obsY := d.2.2.2 }

/-- Two endpoints `a`, `b`; `graceAB` = `Write`s of `a` still accepted after
`b` closed, `discAB` = bytes accepted from `a` and discarded; `obsA/obsB` =
what every event of each side returned (in that side's order). -/
structure Sess where
  a : Local := {}
  b : Local := {}
  graceAB : Nat := 0
  graceBA : Nat := 0
  discAB : Nat := 0
  discBA : Nat := 0
  obsA : List Obs := []
  obsB : List Obs := []

/-- one step of the session script: `(true, act)` = endpoint `b` acts -/
def Sess.step (fragA fragB : Frag) (s : Sess) (st : Bool × Act) : Sess :=
  if st.1 then
    let r := sideStep fragB fragA s.b s.a s.graceBA s.discBA st.2
    { s with b := r.x, a := r.y, graceBA := r.grace, discBA := r.disc,
             obsB := s.obsB ++ r.obsX, obsA := s.obsA ++ r.obsY }
  else
    let r := sideStep fragA fragB s.a s.b s.graceAB s.discAB st.2
    { s with a := r.x, b := r.y, graceAB := r.grace, discAB := r.disc,
             obsA := s.obsA ++ r.obsX, obsB := s.obsB ++ r.obsY }

def Sess.run (fragA fragB : Frag) (s : Sess) (script : List (Bool × Act)) : Sess :=
  script.foldl (Sess.step fragA fragB) s

end Mpc.Conn

/-
Model of the input/output value encoding of markkurossi/mpc (property C13):

  circuit/ioarg.go   IO.Split, IOArg.Set/set, setArray, setIntArray, setInt,
                     setBool, IOArg.Parse, Sizes, bitLen, InputSizes
  result.go          mpc.Result (mpc.Results applies it per output)
  types/types.go     Info (fields Type, Bits, ArraySize, ElementType),
                     Info.InstantiateWithSizes (int/uint/array/slice cases)
  types/parse.go     types.Parse (type names)

Core Lean only.  `*big.Int` values are `Int` (or `Nat` where the Go code can
only produce non-negative numbers: a result built by `SetBit`/`Or` from 0).
`big.Int.SetString(s, 0)` is *given*: the model receives its outcome
(`StrFacts.num`) together with the facts about the string that the Go code
reads (`StrFacts`).  Go `int`/`types.Size` quantities are `Nat` (negative
sizes are not modelled).
-/
namespace Mpc.IoArg

/-! ## types/types.go -/

/-- `types.Type` -/
inductive Tag where
  | undefined | bool | int | uint | float | string | struct | array | slice | ptr | nil
  deriving DecidableEq, Repr, Inhabited

/-- `types.Info`, the fields the anchored code reads.  `base` has
`ElementType == nil`, `elem` carries `*ElementType`. -/
inductive Info where
  | base (tag : Tag) (bits arraySize : Nat)
  | elem (tag : Tag) (bits arraySize : Nat) (el : Info)
  deriving Repr, Inhabited, DecidableEq

def Info.tag : Info → Tag
  | .base t _ _ => t
  | .elem t _ _ _ => t

def Info.bits : Info → Nat
  | .base _ b _ => b
  | .elem _ b _ _ => b

def Info.arraySize : Info → Nat
  | .base _ _ n => n
  | .elem _ _ n _ => n

/-- `circuit.IOArg` (Name omitted): `Type` and `Compound`. -/
inductive Arg where
  | mk (ty : Info) (compound : List Arg)
  deriving Repr, Inhabited

def Arg.ty : Arg → Info
  | .mk t _ => t

def Arg.compound : Arg → List Arg
  | .mk _ c => c

/-- Error kinds (by the message prefix of the Go `fmt.Errorf`), and `panic`
for a Go run-time panic (nil `ElementType`, division by zero, negative bit
index, `reflect.SliceOf(nil)`). -/
inductive Err where
  | count           -- "invalid amount of arguments"
  | input           -- "invalid input"
  | boolConst       -- "invalid bool constant"
  | tooMany         -- "too many values for input"
  | unsupported     -- "unsupported input type"
  | unsupportedElem -- "unsupported array element type"
  | atoi            -- strconv.Atoi range error (InputSizes)
  | panic
  deriving DecidableEq, Repr, Inhabited

/-! ## big.Int primitives used by the code -/

/-- `big.Int.SetBit(x, i, b)` on a non-negative `x`. -/
def setBit (n i : Nat) (b : Bool) : Nat :=
  if n.testBit i = b then n else n ^^^ (1 <<< i)

/-- `for i := 0; i < n; i++ { r.SetBit(r, off+i, f(i)) }` -/
def writeBits (r off n : Nat) (f : Nat → Bool) : Nat :=
  (List.range n).foldl (fun r i => setBit r (off + i) (f i)) r

/-- `big.Int.Bit(i)`: two's complement bit of a possibly negative value
(math/big: for negative x the bit of `|x|-1` inverted). -/
def ibit : Int → Nat → Bool
  | .ofNat n, i => n.testBit i
  | .negSucc n, i => !n.testBit i

/-- `new(big.Int).And(x, mask)` with `mask = 2^w - 1`: the low `w` bits of the
two's complement form. -/
def lowBits : Int → Nat → Nat
  | .ofNat n, w => n % 2 ^ w
  | .negSucc n, w => 2 ^ w - 1 - n % 2 ^ w

/-- `big.Int.Rsh` (arithmetic shift). -/
def rsh : Int → Nat → Int
  | .ofNat n, k => .ofNat (n >>> k)
  | .negSucc n, k => .negSucc (n >>> k)

/-- `big.Int.Lsh`. -/
def lsh (z : Int) (k : Nat) : Int := z * (2 ^ k : Nat)

/-- `big.Int.BitLen()` (of the absolute value). -/
def natBitLen (n : Nat) : Nat := if n = 0 then 0 else n.log2 + 1
def bitLength (z : Int) : Nat := natBitLen z.natAbs

/-- `big.Int.Uint64()`: low 64 bits of the absolute value. -/
def toUint64 (z : Int) : Nat := z.natAbs % 2 ^ 64

/-- Go conversion of an unsigned `w`-bit pattern to the signed type. -/
def toSigned (w n : Nat) : Int :=
  if n < 2 ^ (w - 1) then (n : Int) else (n : Int) - (2 ^ w : Nat)

/-- `intW(x.Int64())`: `Int64()` is `x` wrapped to 64 bits, the conversion to
`intW` (W ∈ 8,16,32,64) keeps the low `W` bits. -/
def toIntW (w : Nat) (z : Int) : Int := toSigned w (lowBits z w)

/-- The wire view of a value: the bits `0..n-1` that the garbler/evaluator
read with `big.Int.Bit`. -/
def wire (z : Int) (n : Nat) : List Bool := (List.range n).map (ibit z)

/-! ## The string facts the code reads -/

/-- What `IOArg.Parse` / `InputSizes` look at in an input string. -/
structure StrFacts where
  /-- `"0","f","false"` → `some false`; `"1","t","true"` → `some true` -/
  boolLit : Option Bool
  /-- the string is `"_"` -/
  underscore : Bool
  /-- `strings.HasPrefix(s, "0x")` -/
  hex0x : Bool
  /-- `len(s)` -/
  len : Nat
  /-- `reHexInput.FindStringSubmatch(s)`: `(strconv.Atoi(m[1]), len(m[2]))`,
  the first component `none` when Atoi reports a range error -/
  reHex : Option (Option Nat × Nat)
  /-- `new(big.Int).SetString(s, 0)` — given, not modelled -/
  num : Option Int
  deriving Repr, Inhabited

def isDigit (c : Char) : Bool := '0' ≤ c && c ≤ '9'
def isXDigit (c : Char) : Bool :=
  isDigit c || ('a' ≤ c && c ≤ 'f') || ('A' ≤ c && c ≤ 'F')

def digitsVal (cs : List Char) : Nat :=
  cs.foldl (fun a c => 10 * a + (c.toNat - '0'.toNat)) 0

/-- POSIX regexp `^([[:digit:]]+)x([[:xdigit:]]*)$` followed by
`strconv.Atoi(m[1])` (range error above `2^63-1`). -/
def matchReHex (cs : List Char) : Option (Option Nat × Nat) :=
  let ds := cs.takeWhile isDigit
  match cs.dropWhile isDigit with
  | 'x' :: rest =>
    if ds.isEmpty || !rest.all isXDigit then none
    else
      let v := digitsVal ds
      some (if v < 2 ^ 63 then some v else none, rest.length)
  | _ => none

/-- The facts of a concrete string; `num` is supplied by the caller. -/
def StrFacts.ofString (s : String) (num : Option Int) : StrFacts :=
  { boolLit :=
      if s == "0" || s == "f" || s == "false" then some false
      else if s == "1" || s == "t" || s == "true" then some true
      else none
    underscore := s == "_"
    hex0x := s.startsWith "0x"
    len := s.utf8ByteSize
    reHex := matchReHex s.toList
    num := num }

/-! ## IOArg.Parse -/

/-- The element loop of `Parse`:
`for i < count { next := (val >> (count-i-1)*elSize) & mask; result |= next << i*elSize }` -/
def packElems (val : Int) (count elSize : Nat) : Nat :=
  (List.range count).foldl
    (fun r i => r ||| (lowBits (rsh val ((count - i - 1) * elSize)) elSize <<< (i * elSize))) 0

/-- `IOArg.Parse` for `len(io.Compound) == 0` and exactly one input. -/
def parseLeaf (t : Info) (st : StrFacts) : Except Err Int :=
  match t.tag with
  | .int | .uint =>
    match st.num with
    | some v => .ok v
    | none => .error .input
  | .bool =>
    match st.boolLit with
    | some false => .ok 0
    | some true => .ok 1
    | none => .error .boolConst
  | .array | .slice =>
    match t with
    | .base _ _ _ => .error .panic            -- io.Type.ElementType.Bits on nil
    | .elem tag _ arraySize el =>
      let elSize := el.bits
      if tag = .array ∧ arraySize = 0 then .ok 0
      else
        match st.num with
        | none => .error .input
        | some val =>
          let bitLen := if st.hex0x then (st.len - 2) * 4 else bitLength val
          if elSize = 0 then .error .panic      -- bitLen / elSize
          else
            let valElCount := bitLen / elSize + (if bitLen % elSize ≠ 0 then 1 else 0)
            let count := if tag = .slice then valElCount else arraySize
            if valElCount > count then .error .tooMany
            else
              let pad := count - valElCount
              .ok (packElems (lsh val (pad * elSize)) count elSize)
  | _ => .error .unsupported

/-- Copy loop of the compound branch:
`for i < arg.Type.Bits { result.SetBit(result, offset+i, input.Bit(i)) }` -/
def copyBits (r : Nat) (input : Int) (off n : Nat) : Nat :=
  writeBits r off n (ibit input)

mutual
/-- `IOArg.Parse` -/
def Arg.parse : Arg → List StrFacts → Except Err Int
  | .mk t [], ins =>
    match ins with
    | [st] => parseLeaf t st
    | _ => .error .count
  | .mk _ (m :: ms), ins =>
    if ins.length ≠ (m :: ms).length then .error .count
    else
      match parseMembers (m :: ms) ins 0 0 with
      | .ok r => .ok (r : Nat)
      | .error e => .error e
/-- the `for idx, arg := range io.Compound` loop of `Parse`; `ins` is
`inputs[idx:]`, each member receives `inputs[idx:idx+1]` -/
def parseMembers : List Arg → List StrFacts → Nat → Nat → Except Err Nat
  | [], _, _, r => .ok r
  | a :: as, ins, off, r =>
    match a.parse (ins.take 1) with
    | .error e => .error e
    | .ok input => parseMembers as (ins.drop 1) (off + a.ty.bits) (copyBits r input off a.ty.bits)
end

/-! ## IOArg.Set -/

/-- The dynamic Go values (`interface{}`) that `Set` / `Sizes` distinguish. -/
inductive GoVal where
  | nil
  | bool (b : Bool)
  /-- `int8 … uint64`: signedness, width, mathematical value -/
  | num (signed : Bool) (w : Nat) (v : Int)
  /-- `[]byte` -/
  | bytes (bs : List Nat)
  /-- any other dynamic type (`string`, `int`, `*big.Int`, …) -/
  | other
  deriving Repr, Inhabited, DecidableEq

/-- `uint64(v)` for the integer kinds: sign extension to 64 bits. -/
def ival (v : Int) : Nat := lowBits v 64

/-- bit `i` that `setInt` writes for `uint64(val)` = `iv`: the two's complement
form, sign-extended above bit 63 (`negative`: a signed kind with `v < 0`). -/
def setIntBit (iv : Nat) (negative : Bool) (i : Nat) : Bool :=
  if i < 64 then iv.testBit i else negative

/-- `setInt` (since commit 95af76e): writes exactly `t.Bits` bits at `ofs`;
returns `ofs + t.Bits`. -/
def setInt (t : Info) (r : Nat) (val : GoVal) (ofs : Nat) : Except Err (Nat × Nat) :=
  match val with
  | .num s _ v => .ok (writeBits r ofs t.bits (setIntBit (ival v) (s && decide (v < 0))), ofs + t.bits)
  | _ => .error .input

/-- `setBool` -/
def setBool (r : Nat) (val : GoVal) (ofs : Nat) : Except Err (Nat × Nat) :=
  match val with
  | .bool b => .ok (setBit r ofs b, ofs + 1)
  | _ => .error .input

/-- the `[]byte` loop of `setIntArray` (the error of `setInt` is ignored by
the Go code; a `uint8` never produces one) -/
def setBytes (el : Info) (r : Nat) (bs : List Nat) (ofs : Nat) : Nat × Nat :=
  bs.foldl (fun (p : Nat × Nat) b => (writeBits p.1 p.2 el.bits (setIntBit (b % 256) false), p.2 + el.bits)) (r, ofs)

/-- `setArray` + `setIntArray`: returns (element count, result, ofs). -/
def setArray (el : Info) (r : Nat) (val : GoVal) (ofs : Nat) : Except Err (Nat × Nat × Nat) :=
  match el.tag with
  | .int | .uint =>
    match val with
    | .bytes bs =>
      if el.bits < 8 then .error .input
      else
        let p := setBytes el r bs ofs
        .ok (bs.length, p.1, p.2)
    | .nil => .ok (0, r, ofs)
    | _ => .error .input
  | _ => .error .unsupportedElem

/-- `IOArg.set` for `len(io.Compound) == 0` and exactly one input. -/
def setLeaf (t : Info) (r : Nat) (val : GoVal) (ofs : Nat) : Except Err (Nat × Nat) :=
  match t.tag with
  | .int | .uint => setInt t r val ofs
  | .bool => setBool r val ofs
  | .array =>
    if t.arraySize = 0 then .ok (r, ofs)
    else
      match t with
      | .base _ _ _ => .error .panic
      | .elem _ _ count el =>
        match setArray el r val ofs with
        | .error e => .error e
        | .ok (c, r', _) =>
          if c > count then .error .tooMany else .ok (r', ofs + count * el.bits)
  | .slice =>
    match t with
    | .base _ _ _ => .error .panic
    | .elem _ _ count el =>
      match setArray el r val ofs with
      | .error e => .error e
      | .ok (c, r', ofs') =>
        if c > count then .error .tooMany else .ok (r', ofs')
  | _ => .error .unsupported

mutual
/-- `IOArg.set` -/
def Arg.setAt : Arg → Nat → List GoVal → Nat → Except Err (Nat × Nat)
  | .mk t [], r, vals, ofs =>
    match vals with
    | [v] => setLeaf t r v ofs
    | _ => .error .count
  | .mk _ (m :: ms), r, vals, ofs =>
    if vals.length ≠ (m :: ms).length then .error .count
    else setMembers (m :: ms) r vals ofs
def setMembers : List Arg → Nat → List GoVal → Nat → Except Err (Nat × Nat)
  | [], r, _, ofs => .ok (r, ofs)
  | a :: as, r, vals, ofs =>
    match a.setAt r (vals.take 1) ofs with
    | .error e => .error e
    | .ok (r', ofs') => setMembers as r' (vals.drop 1) ofs'
end

/-- `IOArg.Set(nil, inputs)` -/
def Arg.set (a : Arg) (vals : List GoVal) : Except Err Nat :=
  match a.setAt 0 vals 0 with
  | .ok (r, _) => .ok r
  | .error e => .error e

/-! ## Sizes / bitLen / InputSizes -/

/-- `for i := 63; i > 0; i-- { if v&(1<<i) != 0 { return i+1 } }; return 1`
(loop bound after commit 485d3fb; before it was `i > 1`, see `bitLenOld` in
Proofs/IoArg.lean) -/
def bitLenFrom (v : Nat) : Nat → Nat
  | 0 => 1
  | i + 1 => if v.testBit (i + 1) then i + 2 else bitLenFrom v i

/-- `circuit.bitLen(v uint64)` -/
def bitLen (v : Nat) : Nat := bitLenFrom v 63

/-- one element of `circuit.Sizes` -/
def sizeOf1 : GoVal → Except Err Nat
  | .nil => .ok 0
  | .bool _ => .ok 1
  | .num _ _ v => .ok (bitLen (ival v))
  | .bytes bs => .ok (bs.length * 8)
  | .other => .error .unsupported

/-- `circuit.Sizes` -/
def sizes (vals : List GoVal) : Except Err (List Nat) := vals.mapM sizeOf1

/-- one element of `circuit.InputSizes` -/
def inputSize1 (st : StrFacts) : Except Err Nat :=
  if st.underscore then .ok 0
  else if st.boolLit.isSome then .ok 1
  else if st.hex0x then .ok ((st.len - 2) * 4)
  else
    match st.reHex with
    | some (some count, l2) => .ok (count * l2 * 4)
    | some (none, _) => .error .atoi
    | none =>
      match st.num with
      | some v => .ok (bitLength v)
      | none => .error .input

/-- `circuit.InputSizes` -/
def inputSizes (ins : List StrFacts) : Except Err (List Nat) := ins.mapM inputSize1

/-! ## IO.Split -/

/-- `IO.Split`: consecutive groups of `arg.Type.Bits` bits. -/
def split : List Nat → Int → Nat → List Nat
  | [], _, _ => []
  | n :: ns, z, bit => writeBits 0 0 n (fun i => ibit z (bit + i)) :: split ns z (bit + n)

/-! ## Info.InstantiateWithSizes (types/types.go), int/uint/array/slice cases
with a concrete element type; `concrete` is `i.Concrete()`. -/

def ceilDiv (a b : Nat) : Nat := a / b + (if a % b ≠ 0 then 1 else 0)

def instantiate (t : Info) (concrete : Bool) (size : Nat) : Except Err Info :=
  match t with
  | .base tag bits n =>
    match tag with
    | .bool => .ok t
    | .int | .uint | .float => .ok (.base tag (if concrete then bits else size) n)
    | .array | .slice => .error .panic
    | _ => .error .unsupported
  | .elem tag bits n el =>
    match tag with
    | .bool => .ok t
    | .int | .uint | .float => .ok (.elem tag (if concrete then bits else size) n el)
    | .array =>
      if concrete then .ok t
      else if el.bits = 0 then .error .panic
      else .ok (.elem tag (ceilDiv size el.bits * el.bits) (ceilDiv size el.bits) el)
    | .slice =>
      if el.bits = 0 then .error .panic
      else .ok (.elem tag (ceilDiv size el.bits * el.bits) (ceilDiv size el.bits) el)
    | _ => .error .unsupported

/-! ## mpc.Result -/

/-- The Go value returned by `mpc.Result`. -/
inductive RVal where
  | str (s : String)
  | u (w : Nat) (v : Nat)          -- uint8/16/32/64
  | i (w : Nat) (v : Int)          -- int8/16/32/64
  /-- `*big.Int` (for a wide `TUint`, and a wide non-negative `TInt`, the argument pointer itself) -/
  | big (v : Int)
  | bool (b : Bool)
  /-- slice built by reflection; the string names the element type -/
  | slice (elemType : String) (vs : List RVal)
  /-- default branch: `fmt.Sprintf("%v (%s)", result, output.Type)` -/
  | fmt (v : Int)
  deriving Repr, Inhabited

/-- `unicode.IsPrint(r)` for `r < 256` (Latin-1 table of package unicode). -/
def isPrintLatin1 (r : Nat) : Bool :=
  (0x20 ≤ r && r ≤ 0x7e) || (0xa1 ≤ r && r ≤ 0xff && r ≠ 0xad)

def hexDigit (n : Nat) : Char := "0123456789abcdef".toList.getD n '0'

/-- `fmt.Sprintf("\\u%04x", r)` for `r < 256` -/
def escapeRune (r : Nat) : String :=
  String.ofList ['\\', 'u', '0', '0', hexDigit (r / 16), hexDigit (r % 16)]

/-- the `TString` loop of `Result` -/
def decodeString (z : Int) (bits : Nat) : String :=
  (List.range (bits / 8)).foldl (fun s i =>
    let r := lowBits (rsh z (i * 8)) 8
    if isPrintLatin1 r then s.push (Char.ofNat r) else s ++ escapeRune r) ""

def widthClass (bits : Nat) : Nat :=
  if bits ≤ 8 then 8 else if bits ≤ 16 then 16 else if bits ≤ 32 then 32 else if bits ≤ 64 then 64 else 0

/-- reflect element type chosen by the explicit cases of the element-type
switch; `none` is the `default:` branch. -/
def elemTypeName (el : Info) : Option String :=
  match el.tag with
  | .string => some "string"
  | .uint => some (if widthClass el.bits = 0 then "big" else s!"uint{widthClass el.bits}")
  | .int => some (if widthClass el.bits = 0 then "big" else s!"int{widthClass el.bits}")
  | .bool => some "bool"
  | _ => none

/-- name of the dynamic Go type of a value returned by `Result` -/
def rvalTypeName : RVal → String
  | .str _ => "string"
  | .u w _ => s!"uint{w}"
  | .i w _ => s!"int{w}"
  | .big _ => "big"
  | .bool _ => "bool"
  | .slice n _ => "[]" ++ n
  | .fmt _ => "string"

/-- the element type of the result slice; `zero` is
`Result(new(big.Int), IOArg{Type: *ElementType})`, which the `default:` branch
evaluates to obtain the type (commit 74f1961) and which may panic. -/
def elemName (el : Info) (zero : Except Err (RVal × Int)) : Except Err String :=
  match elemTypeName el with
  | some n => .ok n
  | none =>
    match zero with
    | .ok (v, _) => .ok (rvalTypeName v)
    | .error e => .error e

/-- the element decoder's value (its `*big.Int` is a fresh temporary) -/
def dropCell : Except Err (RVal × Int) → Except Err RVal
  | .ok (v, _) => .ok v
  | .error e => .error e

/-- `mpc.Result(result, output)` with the `*big.Int` argument as a mutable
cell: returns the Go value and the content of the cell afterwards. -/
def result : Info → Int → Except Err (RVal × Int)
  | t, z =>
    match t.tag with
    | .string => .ok (.str (decodeString z t.bits), z)
    | .uint =>
      if widthClass t.bits = 0 then .ok (.big z, z)
      else .ok (.u (widthClass t.bits) (toUint64 z % 2 ^ widthClass t.bits), z)
    | .int =>
      if t.bits = 0 then .error .panic           -- result.Bit(-1)
      else
        -- result = new(big.Int).Sub(tmp, result); result.Neg(result): a fresh value
        -- (commit 66e4e03; before it the Sub ran in place, see `resultIntOld`)
        let z' := if ibit z (t.bits - 1) then -((2 ^ t.bits : Nat) - z) else z
        if widthClass t.bits = 0 then .ok (.big z', z)
        else .ok (.i (widthClass t.bits) (toIntW (widthClass t.bits) z'), z)
    | .bool => .ok (.bool (toUint64 z != 0), z)
    | .array | .slice =>
      match t with
      | .base _ _ _ => .error .panic
      | .elem _ _ count el =>
        match elemName el (result el 0) with
        | .error e => .error e
        | .ok name =>
          let elSize := el.bits
          let vs : Except Err (List RVal) := (List.range count).mapM (fun i =>
            dropCell (result el (lowBits (rsh z (i * elSize)) elSize)))
          match vs with
          | .ok vs => .ok (.slice name vs, z)
          | .error e => .error e
    | _ => .ok (.fmt z, z)

/-! ## types.Parse (types/parse.go) — type names

The result keeps `IsConcrete` as a Boolean next to the `Info`. -/

def isAlpha (c : Char) : Bool := ('a' ≤ c && c ≤ 'z') || ('A' ≤ c && c ≤ 'Z')

/-- `strconv.ParseInt(s, 10, 32)` on a digit string -/
def parseInt32 (cs : List Char) : Option Nat :=
  let v := digitsVal cs
  if v < 2 ^ 31 then some v else none

/-- the `reSized` branch: `^([[:alpha:]]+)([[:digit:]]*)$` -/
def parseSized (cs : List Char) : Option (Except Unit (Info × Bool)) :=
  let name := cs.takeWhile isAlpha
  let ds := cs.dropWhile isAlpha
  if name.isEmpty || !ds.all isDigit then none
  else
    let tag : Option Tag :=
      match String.ofList name with
      | "b" | "bool" => some .bool
      | "i" | "int" => some .int
      | "u" | "uint" => some .uint
      | "s" | "string" => some .string
      | "struct" => some .struct
      | _ => none
    match tag with
    | none => some (.error ())
    | some tag =>
      if ds.isEmpty then some (.ok (.base tag 0 0, false))
      else
        match parseInt32 ds with
        | none => some (.error ())
        | some b => some (.ok (.base tag b 0, true))

/-- `types.Parse`; fuel bounds the `[n]` nesting depth (the string length
suffices). -/
def parseType : Nat → List Char → Except Unit (Info × Bool)
  | 0, _ => .error ()
  | fuel + 1, cs =>
    match String.ofList cs with
    | "b" | "bool" => .ok (.base .bool 1 0, true)
    | "byte" => .ok (.base .uint 8 0, true)
    | "rune" => .ok (.base .int 32 0, true)
    | _ =>
      match parseSized cs with
      | some r => r
      | none =>
        -- reArr: `^\[([[:digit:]]*)\](.+)$`
        match cs with
        | '[' :: rest =>
          let ds := rest.takeWhile isDigit
          match rest.dropWhile isDigit with
          | ']' :: elS =>
            if elS.isEmpty then .error ()
            else
              match parseType fuel elS with
              | .error e => .error e
              | .ok (el, _) =>
                if ds.isEmpty then .ok (.elem .slice 0 0 el, true)
                else
                  match parseInt32 ds with
                  | none => .error ()
                  | some n => .ok (.elem .array (n * el.bits) n el, true)
          | _ => .error ()
        | _ => .error ()

end Mpc.IoArg

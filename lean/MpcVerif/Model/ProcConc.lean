/-
C08  Compilation is deterministic — PROCESS STATE, CONCURRENT history elements.

`Model/ProcState.lean` and `Model/ProcSteps.lean` model a process whose history
is a SEQUENCE of steps, each a function `Req → σ → Out × σ` that runs to its
end before the next one starts.  "Repeated compilations … in the process" is
wider: a process (a server, parallel tests) may run several steps AT THE SAME
TIME, each with its own `Compiler` and `Params`; what they share is the process
state.  Here a step is a sequence of atomic MICRO-STEPS over the shared state

    micro : ρ → σ → ο × σ

and a concurrent history element is a list of such tasks run under a SCHEDULE
(which task makes its next micro-step); every interleaving of the tasks is a
schedule.  Core Lean only.

1. `concurrent micro sched tasks s`: the outputs of every task and the state
   afterwards; `solo`: a task alone.
2. `microNow` — the code as it is: the micro-steps of a step of every kind
   (fold and name a wide constant; make the input wires on a NEW allocator; run
   the program) neither read nor write the process state.  `assembleK` puts the
   pieces of a step together; alone, the pieces are `stepNowK`'s output.
3. `microScratch` — a package-level scratch cell that every constant's name is
   written to and read back from (`strconv.AppendInt(buf[:1], v, 10)` into a
   shared buffer, then `string(...)`): invisible to sequential histories (every
   task writes before it reads), visible to an interleaving.
-/
import MpcVerif.Model.ProcSteps

namespace Mpc.PSt

/-! ## 1. Tasks, schedules, interleavings -/

/-- One atomic micro-step: a request served on the shared process state. -/
abbrev Micro (σ ρ ο : Type) := ρ → σ → ο × σ

/-- A running task: the micro-steps still to make, the outputs so far. -/
structure Task (ρ ο : Type) where
  todo : List ρ
  done : List ο

/-- A task run to its end without interruption (from state `s`). -/
def runTodo {σ ρ ο : Type} (micro : Micro σ ρ ο) : List ρ → σ → List ο × σ
  | [], s => ([], s)
  | r :: rs, s =>
    let a := micro r s
    let b := runTodo micro rs a.2
    (a.1 :: b.1, b.2)

/-- The outputs of a task ALONE in a process in state `s`. -/
def solo {σ ρ ο : Type} (micro : Micro σ ρ ο) (t : List ρ) (s : σ) : List ο := (runTodo micro t s).1

/-- Task `i` makes its next micro-step (nothing happens if it has finished or
does not exist). -/
def stepTask {σ ρ ο : Type} (micro : Micro σ ρ ο) : Nat → List (Task ρ ο) → σ → List (Task ρ ο) × σ
  | _, [], s => ([], s)
  | 0, t :: ts, s =>
    match t.todo with
    | [] => (t :: ts, s)
    | r :: rest =>
      let a := micro r s
      (⟨rest, t.done ++ [a.1]⟩ :: ts, a.2)
  | i + 1, t :: ts, s =>
    let a := stepTask micro i ts s
    (t :: a.1, a.2)

/-- What is left when the schedule ends runs to the end, task after task. -/
def drain {σ ρ ο : Type} (micro : Micro σ ρ ο) : List (Task ρ ο) → σ → List (List ο) × σ
  | [], s => ([], s)
  | t :: ts, s =>
    let a := runTodo micro t.todo s
    let b := drain micro ts a.2
    ((t.done ++ a.1) :: b.1, b.2)

def runSched {σ ρ ο : Type} (micro : Micro σ ρ ο) : List Nat → List (Task ρ ο) → σ → List (List ο) × σ
  | [], ts, s => drain micro ts s
  | i :: sched, ts, s =>
    let a := stepTask micro i ts s
    runSched micro sched a.1 a.2

/-- A concurrent history element: the tasks start together; `sched` names the
task that moves next.  Every interleaving of the tasks' micro-steps is the run
of some schedule; the empty schedule is "one task after the other". -/
def concurrent {σ ρ ο : Type} (micro : Micro σ ρ ο) (sched : List Nat) (tasks : List (List ρ)) (s : σ) :
    List (List ο) × σ :=
  runSched micro sched (tasks.map fun t => ⟨t, []⟩) s

/-- A history whose elements are concurrent (a sequential step = an element of
one task): the outputs of every task of every element. -/
def runElements {σ ρ ο : Type} (micro : Micro σ ρ ο) : σ → List (List Nat × List (List ρ)) → List (List (List ο))
  | _, [] => []
  | s, e :: rest =>
    let a := concurrent micro e.1 e.2 s
    a.1 :: runElements micro a.2 rest

/-! ## 2. The code as it is: micro-steps of the step kinds -/

inductive MReq where
  /-- fold a wide constant expression and name the constant (`Generator.Constant`) -/
  | fold (f : FoldReq)
  /-- `NewProgram` on a new allocator + `Wire.Assign` of the input wires -/
  | wires (args : List Nat)
  /-- run the program on the inputs (session / Compute) -/
  | run (p : Prog) (ins : List Nat)

inductive Piece where
  | const (v : Nat)
  | wires (ids : List Nat) (n : Nat)
  | vals (vs : List Nat)
deriving DecidableEq, Repr

/-- The code as it is: no micro-step reads or writes the process state. -/
def microNow {σ : Type} : Micro σ MReq Piece
  | .fold f, s => (.const (foldNow f), s)
  | .wires args, s => (.wires (compileAlloc args WAlloc.empty).1.1 (compileAlloc args WAlloc.empty).1.2, s)
  | .run p ins, s => (.vals (runVals p ins), s)

/-- The micro-steps of a step of each kind. -/
def microsK {π : Type} (r : Req π) : List MReq :=
  match r.kind with
  | .compile | .roundtrip => r.prog.src.map .fold ++ [.wires r.prog.args]
  | .compute | .garble => r.prog.src.map .fold ++ [.wires r.prog.args, .run r.prog r.ins]
  | .stream => [.run r.prog r.ins]
  | .ssa => []

def Piece.const? : Piece → Option Nat
  | .const v => some v
  | _ => none

def Piece.ids? : Piece → Option (List Nat)
  | .wires ids _ => some ids
  | _ => none

def Piece.inw? : Piece → Option Nat
  | .wires _ n => some n
  | _ => none

def Piece.vals? : Piece → Option (List Nat)
  | .vals v => some v
  | _ => none

/-- The output of a step from the pieces its micro-steps produced. -/
def assembleK (ps : List Piece) : Out :=
  { consts := ps.filterMap Piece.const?
    inIds := (ps.filterMap Piece.ids?).flatten
    inw := (ps.filterMap Piece.inw?).head?
    vals := (ps.filterMap Piece.vals?).flatten }

/-! ## 3. A package-level scratch cell for the names of constants -/

/-- Naming a constant through a shared buffer: `put v` formats the value into the
buffer (`strconv.AppendInt(buf[:1], v, 10)`), `get` takes the buffer's content
as the name (`string(...)`). -/
inductive ScReq where
  | put (v : Nat)
  | get
deriving DecidableEq, Repr

/-- The process state is the buffer's content; a `get` yields a name. -/
def microScratch : Micro Nat ScReq (Option Nat)
  | .put v, _ => (none, v)
  | .get, cell => (some cell, cell)

/-- A compilation as far as the names of its constants go: per constant a `put`
and a `get`. -/
def nameTask : List Nat → List ScReq
  | [] => []
  | v :: vs => .put v :: .get :: nameTask vs

/-- The names a task produced. -/
def namesOf (outs : List (Option Nat)) : List Nat := outs.filterMap id

end Mpc.PSt

/-
C08  Compilation is deterministic — PROCESS STATE, ALL STEP KINDS.

`Model/ProcState.lean` models a process whose history consists of
compilations.  "Repeated compilations … in the process" is wider: before a
compilation the process may have served STREAMING sessions
(`Compiler.Stream` / `StreamFile`, compiler/ssa/streamer.go `Program.Stream`:
the SSA program is garbled instruction by instruction, values die and their
wires are recycled by `gc` → `WireAllocator.GCWires`), obtained SSA programs
(`CompileSSA`), evaluated / garbled / marshalled / parsed circuits.  All of
these run code of the compile path and may write the process state.  Here a
history step has a KIND and every kind is a function

    step : Req → σ → Out × σ

of the request (kind, program, parameters, inputs) and the process state.
Core Lean only.

1. Programs as far as modelled: main's argument widths and return values
   `arg` / `arg ^ (A op B)` with a wide constant fold (`PSt.FoldReq`).  Running
   such a program (streaming session, `Circuit.Compute`, Garbler/Evaluator)
   gives `arg ^ foldNow …` per return value; compiling it gives the folded
   constants of the listing and a circuit whose input wires take the ids
   `0 … Σ bits − 1` (observable as `NumWires − NumGates`).

2. The wire allocator (compiler/ssa/wire_allocator.go) as far as the input
   wires go: `NewProgram` takes a wire array per argument from
   `freeWires[bits]` (most recently freed first) or makes unassigned wires;
   `Program.Stream` numbers the input wires with `NextWireID()`; `gc` of an
   argument (`GCWires`) resets its wires to their assigned ids and pushes the
   array onto `freeWires[bits]`; `circuits.Compiler.Compile` gives an input wire
   the next id ONLY IF it is unassigned (`Wire.Assign`).

3. `stepNowK` — the code as it is: `NewWireAllocator` makes a new allocator for
   every program, nothing of it is reachable after the step; the process state
   is handed on untouched by every kind.

4. `stepPool keep` — a process-wide allocator pool (the state): a program takes
   the pooled allocator and hands it back (`Release`) with its free lists kept
   (`keep = true`) or emptied (`keep = false`).
-/
import MpcVerif.Model.ProcState

namespace Mpc.PSt

/-! ## 1. Step kinds, programs, requests, outputs -/

/-- What a process does: `compile` (Compile / CompileFile), `stream` (a streaming
garbler session: Stream / StreamFile / CompileSSA + Program.Stream), `compute`
(Compile + Circuit.Compute), `garble` (Compile + Garbler/Evaluator session),
`roundtrip` (Compile + Marshal + Parse + Marshal), `ssa` (CompileSSA only). -/
inductive Kind where
  | compile | stream | compute | garble | roundtrip | ssa
deriving DecidableEq, Repr

/-- One return value of main: `arg` or `arg ^ (A op B)`. -/
structure Ret where
  arg : Nat
  fold : Option FoldReq
deriving DecidableEq, Repr

structure Prog where
  /-- bit widths of main's arguments -/
  args : List Nat
  rets : List Ret
deriving DecidableEq, Repr

/-- The wide folds of the program in listing order (`PSt.Src`). -/
def Prog.src (p : Prog) : Src := p.rets.filterMap (·.fold)

structure Req (π : Type) where
  kind : Kind
  prog : Prog
  par : π
  /-- the parties' inputs, one value per argument of main (kinds that run the program) -/
  ins : List Nat
  /-- streaming sessions: the arguments whose values die, in the order of their `gc` instructions -/
  dies : List Nat

structure Out where
  /-- folded wide constants of the SSA listing (kinds that compile a circuit) -/
  consts : List Nat
  /-- ids of the circuit's input wires, argument by argument (kinds that compile a circuit) -/
  inIds : List Nat
  /-- number of ids the input wires TOOK from the circuit's id counter = `NumWires − NumGates` -/
  inw : Option Nat
  /-- results (kinds that run the program) -/
  vals : List Nat
deriving DecidableEq, Repr

abbrev KStep (σ π : Type) := Req π → σ → Out × σ

/-- The process state after a history of steps of all kinds. -/
def runHistoryK {σ π : Type} (step : KStep σ π) (st : σ) (h : List (Req π)) : σ :=
  h.foldl (fun s r => (step r s).2) st

/-- The outputs of all steps of a history, in order. -/
def outputsAlongK {σ π : Type} (step : KStep σ π) : σ → List (Req π) → List Out
  | _, [] => []
  | st, r :: rest => (step r st).1 :: outputsAlongK step (step r st).2 rest

/-- Results of running the program on the inputs: `ins[arg] ^ fold`, in the
argument's width. -/
def runVals (p : Prog) (ins : List Nat) : List Nat :=
  p.rets.map fun r =>
    ((ins.getD r.arg 0) ^^^ ((r.fold.map foldNow).getD 0)) % 2 ^ (p.args.getD r.arg 0)

/-! ## 2. The wire allocator, input wires only -/

/-- A `[]*circuits.Wire`: the id of each wire, `none` = `UnassignedID`. -/
abbrev WireArr := List (Option Nat)

/-- `WireAllocator.freeWires`: the freed arrays of all widths, most recently
freed first (`freeWires[bits]` is a stack per width: `newWires` takes the most
recently freed array of the width). -/
structure WAlloc where
  free : List WireArr
deriving DecidableEq, Repr

def WAlloc.empty : WAlloc := ⟨[]⟩

/-- Take the most recently freed array of `bits` wires. -/
def popWidth (bits : Nat) : List WireArr → Option (WireArr × List WireArr)
  | [] => none
  | a :: t =>
    if a.length = bits then some (a, t)
    else match popWidth bits t with
      | some (r, t') => some (r, a :: t')
      | none => none

/-- wire_allocator.go `newWires`. -/
def newWires (bits : Nat) (al : WAlloc) : WireArr × WAlloc :=
  match popWidth bits al.free with
  | some (a, rest) => (a, ⟨rest⟩)
  | none => (List.replicate bits none, al)

/-- ssa/program.go `NewProgram`: `walloc.Wires(arg)` for every argument. -/
def newProgram : List Nat → WAlloc → List WireArr × WAlloc
  | [], al => ([], al)
  | b :: t, al =>
    let a := newWires b al
    let r := newProgram t a.2
    (a.1 :: r.1, r.2)

/-- circuits/compiler.go `Compile`: `Wire.Assign` over the input wires — an
unassigned wire takes `NextWireID()`, an assigned wire KEEPS its id and takes
nothing from the counter.  Result: the ids and the counter afterwards. -/
def assignInputs : List (Option Nat) → Nat → List Nat × Nat
  | [], n => ([], n)
  | none :: t, n => let r := assignInputs t (n + 1); (n :: r.1, r.2)
  | some i :: t, n => let r := assignInputs t n; (i :: r.1, r.2)

/-- streamer.go `Program.Stream`: `w.SetID(prog.walloc.NextWireID())` for every
input wire, whatever id it had. -/
def numberFrom : List WireArr → Nat → List WireArr
  | [], _ => []
  | a :: t, n => ((List.range a.length).map fun i => some (n + i)) :: numberFrom t (n + a.length)

/-- `GCWires` of an argument: the wires are reset to `base + i`; `base` is the
id wire 0 had when the array was handed out (`alloc.base`), or, if that was
unassigned, the id it has now. -/
def gcReset (atAlloc now : WireArr) : WireArr :=
  let base := match atAlloc.head? with
    | some (some b) => b
    | _ => (now.head?.getD none).getD 0
  (List.range now.length).map fun i => some (base + i)

/-- A streaming session as far as the allocator goes: `NewProgram`, numbering of
the input wires, `gc` of the dying arguments in order (each pushes its array). -/
def streamAlloc (args dies : List Nat) (al : WAlloc) : WAlloc :=
  let p := newProgram args al
  let numbered := numberFrom p.1 0
  dies.foldl (fun al k =>
    match p.1[k]?, numbered[k]? with
    | some a0, some a => ⟨gcReset a0 a :: al.free⟩
    | _, _ => al) p.2

/-- A whole-circuit compilation as far as the allocator goes: `NewProgram`, then
`circuits.Compiler.Compile` assigns the input wires (no `gc` in this mode). -/
def compileAlloc (args : List Nat) (al : WAlloc) : (List Nat × Nat) × WAlloc :=
  let p := newProgram args al
  (assignInputs p.1.flatten 0, p.2)

/-! ## 3. The step of every kind -/

/-- Output of the kinds that compile a circuit, on the allocator `al`. -/
def compileOut (p : Prog) (al : WAlloc) : Out × WAlloc :=
  let c := compileAlloc p.args al
  ({ consts := p.src.map foldNow, inIds := c.1.1, inw := some c.1.2, vals := [] }, c.2)

def runOut (p : Prog) (ins : List Nat) : Out :=
  { consts := [], inIds := [], inw := none, vals := runVals p ins }

/-- A step on the allocator `al` (which the program takes and, afterwards, leaves
behind). -/
def stepOn {π : Type} (r : Req π) (al : WAlloc) : Out × WAlloc :=
  match r.kind with
  | .compile | .roundtrip => compileOut r.prog al
  | .compute | .garble =>
    let c := compileOut r.prog al
    ({ c.1 with vals := runVals r.prog r.ins }, c.2)
  | .stream => (runOut r.prog r.ins, streamAlloc r.prog.args r.dies al)
  -- CompileSSA: `NewProgram` takes the allocator; nothing ever hands it back
  | .ssa => ({ consts := [], inIds := [], inw := none, vals := [] }, WAlloc.empty)

/-- The code as it is: every program gets a NEW allocator (`NewWireAllocator`),
which is garbage after the step; no kind writes the process state. -/
def stepNowK {σ π : Type} : KStep σ π :=
  fun r st => ((stepOn r WAlloc.empty).1, st)

/-- A process-wide allocator pool: the state IS the pooled allocator.  Every
program takes it and hands it back; `Release` keeps the free lists (`keep`) or
empties them. -/
def stepPool {π : Type} (keep : Bool) : KStep WAlloc π :=
  fun r al =>
    let s := stepOn r al
    (s.1, if keep then s.2 else WAlloc.empty)

end Mpc.PSt

/-
Boolean circuits and plain evaluation: model of `circuit.Circuit`,
`circuit.Gate` and `Circuit.Compute` (circuit/computer.go).
Core Lean only.
-/
namespace Mpc

/-- Wire store: a fixed-size array indexed by wire number.  `get` outside the
array returns the default and `set` outside is a no-op; the Go code panics
there, and every theorem carries the well-formedness guard that excludes it. -/
abbrev Store (α : Type) := Array α

namespace Store
variable {α : Type}

@[inline] def get [Inhabited α] (s : Store α) (i : Nat) : α := s.getD i default
@[inline] def set (s : Store α) (i : Nat) (v : α) : Store α := s.setIfInBounds i v

@[simp] theorem size_set (s : Store α) (i : Nat) (v : α) : (s.set i v).size = s.size := by
  simp [set]

theorem get_set_eq [Inhabited α] (s : Store α) (i : Nat) (v : α) (h : i < s.size) :
    (s.set i v).get i = v := by
  simp [get, set, Array.getD, h]

theorem get_set_ne [Inhabited α] (s : Store α) (i j : Nat) (v : α) (h : i ≠ j) :
    (s.set i v).get j = s.get j := by
  simp only [get, set, Array.getD_eq_getD_getElem?]
  rw [Array.getElem?_setIfInBounds_ne h]

theorem get_set [Inhabited α] (s : Store α) (i j : Nat) (v : α) (h : i < s.size) :
    (s.set i v).get j = if i = j then v else s.get j := by
  by_cases hij : i = j
  · subst hij; simp [get_set_eq _ _ _ h]
  · simp [hij, get_set_ne _ _ _ _ hij]

end Store

inductive Op where
  | xor | xnor | and | or | inv
  deriving DecidableEq, Repr, Inhabited

structure Gate where
  op  : Op
  in0 : Nat
  in1 : Nat      -- ignored for `inv`
  out : Nat
  deriving DecidableEq, Repr, Inhabited

/-- A circuit: `nIn` input bits on wires `0..nIn-1`, the outputs are the last
`nOut` wires. -/
structure Circuit where
  numWires : Nat
  nIn      : Nat
  nOut     : Nat
  gates    : List Gate
  deriving Repr, Inhabited

def Op.binary : Op → Bool
  | .inv => false
  | _ => true

/-- Truth table of a gate. -/
def Op.eval : Op → Bool → Bool → Bool
  | .xor,  a, b => a != b
  | .xnor, a, b => a == b
  | .and,  a, b => a && b
  | .or,   a, b => a || b
  | .inv,  a, _ => !a

/-- Number of garbled rows transmitted for a gate. -/
def Op.rows : Op → Nat
  | .xor | .xnor => 0
  | .and => 2
  | .or => 3
  | .inv => 1

/-- Tweak increments consumed by a gate. -/
def Op.tweaks : Op → Nat
  | .xor | .xnor => 0
  | .and => 2
  | .or | .inv => 1

/-- Well-formedness relative to a set of already defined wires (as a
decidable function): every input of a gate is defined, all indices are in
range; the output becomes defined. -/
def wfFrom (n : Nat) : List Gate → (Nat → Bool) → Bool
  | [], _ => true
  | g :: gs, d =>
    d g.in0 && (!g.op.binary || d g.in1) &&
    decide (g.in0 < n) && (!g.op.binary || decide (g.in1 < n)) && decide (g.out < n) &&
    wfFrom n gs (fun w => w == g.out || d w)

/-- Set of wires defined after running the gates. -/
def definedAfter : List Gate → (Nat → Bool) → (Nat → Bool)
  | [], d => d
  | g :: gs, d => definedAfter gs (fun w => w == g.out || d w)

def Circuit.inputDefined (c : Circuit) : Nat → Bool := fun w => decide (w < c.nIn)

/-- `WF`: inputs fit, every gate input is an input wire or the output of an
earlier gate, all indices < numWires (this is what `ParseMPCLC` enforces with
its `seen` set), and no gate overwrites an input wire (the garbler hands out
input labels from the wire table *after* garbling, so a circuit that
overwrites an input wire cannot be used through the library's API; the
compiler never produces one). -/
def Circuit.WF (c : Circuit) : Bool :=
  decide (c.nIn ≤ c.numWires) && decide (c.nOut ≤ c.numWires) &&
  wfFrom c.numWires c.gates c.inputDefined &&
  c.gates.all (fun g => decide (c.nIn ≤ g.out))

def Circuit.defined (c : Circuit) : Nat → Bool := definedAfter c.gates c.inputDefined

/-- All output wires are defined. -/
def Circuit.outputsDefined (c : Circuit) : Bool :=
  (List.range c.nOut).all fun i => c.defined (c.numWires - c.nOut + i)

/-- One step of `Circuit.Compute`'s gate loop. -/
def Gate.evalPlain (g : Gate) (w : Store Bool) : Store Bool :=
  w.set g.out (g.op.eval (w.get g.in0) (w.get g.in1))

def evalPlainGates (gs : List Gate) (w : Store Bool) : Store Bool :=
  gs.foldl (fun w g => g.evalPlain w) w

/-- Initial wire store: input bits on the first wires, zero elsewhere
(`make([]byte, NumWires)`). -/
def initStore {α : Type} (n : Nat) (d : α) (inputs : List α) : Store α :=
  (Array.range n).map fun i => inputs.getD i d

def Circuit.plainEval (c : Circuit) (x : List Bool) : Store Bool :=
  evalPlainGates c.gates (initStore c.numWires false (x.take c.nIn))

/-- Output bits, in wire order (the last `nOut` wires). -/
def Circuit.outputs (c : Circuit) (w : Store Bool) : List Bool :=
  (List.range c.nOut).map fun i => w.get (c.numWires - c.nOut + i)

def Circuit.compute (c : Circuit) (x : List Bool) : List Bool :=
  c.outputs (c.plainEval x)

end Mpc

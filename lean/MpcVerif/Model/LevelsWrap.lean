/-
C09: where the level model (`Model/Levels.lean`, levels in `Nat`) meets the
code (`circuits.Gate.Level`, a fixed-width Go integer).

* `wrapLv k` / `compileSortW k`: `Compiler.Compile`'s stable sort by
  `(Level, AND first)` when the level of a gate is held in a `k`-bit unsigned
  field (`Gate.Visit`: `g.Level = level` truncates to `level mod 2^k`).  With
  unbounded levels this is `compileSort`; the two agree while every level is
  below `2^k` (`wrapLv_id`, `C09_levels_bounded`) and differ beyond
  (`C09_wrapped_levels_not_topological`).
* `invChain n`: the family of extreme circuits, a dependent chain of `n` INV
  gates (depth `n`), with its breadth-first levels `0, 1, …, n-1`.
* `initStoreArr` / `Circuit.computeArr`: `Circuit.compute` without the
  per-wire walk of the input list (`initStore` uses `List.getD`, quadratic for
  the extreme-shape programs with 10^5 input bits the driver evaluates);
  equal to `Circuit.compute` (`computeArr_eq`).
Core Lean only.
-/
import MpcVerif.Model.Levels

namespace Mpc

/-- The gate levels as a `k`-bit unsigned field holds them. -/
def wrapLv (k : Nat) (l : List (Gate × Nat)) : List (Gate × Nat) :=
  l.map fun p => (p.1, p.2 % 2 ^ k)

/-- `Compiler.Compile`'s level sort with a `k`-bit level field. -/
def compileSortW (k : Nat) (l : List (Gate × Nat)) : List (Gate × Nat) :=
  compileSort (wrapLv k l)

/-- Gate `j` of the INV chain: wire `j+1 = ¬ wire j`. -/
def invChainGate (j : Nat) : Gate := ⟨.inv, j, j, j + 1⟩

def invChainGates (n : Nat) : List Gate := (List.range n).map invChainGate

/-- A one-input circuit of depth `n`: `out = ¬¬…¬x` (`n` negations). -/
def invChain (n : Nat) : Circuit :=
  { numWires := n + 1, nIn := 1, nOut := 1, gates := invChainGates n }

/-- `initStore` through an array (linear). -/
def initStoreArr {α : Type} (n : Nat) (d : α) (inputs : List α) : Store α :=
  let a := (inputs.take n).toArray
  a ++ Array.replicate (n - a.size) d

/-- `Circuit.compute` on the array-built initial store. -/
def Circuit.computeArr (c : Circuit) (x : List Bool) : List Bool :=
  c.outputs (evalPlainGates c.gates (initStoreArr c.numWires false (x.take c.nIn)))

end Mpc

/-
Streaming mode, compile side: model of

  * `Program.GC` (compiler/ssa/program.go): the backward pass that inserts
    `gc` instructions, with its DIRECT-alias table;
  * `WireAllocator` (compiler/ssa/wire_allocator.go): `AssignedIDs`,
    `GCWires`, `newIDs` and the per-size free lists of wire-id slices;
  * the id rewiring of `Program.Stream` (compiler/ssa/streamer.go) for
    concat / lshift / rshift / srshift / slice / mov / smov / amov, which
    garble nothing and copy input wire ids into the output value's id slice.

The step list is what `ssa.Program.Steps` holds; values are identified twice,
exactly as in the Go code: `Program.GC` uses `Value.ID`, the allocator uses
`Value.Equal` (Const, Name, Scope, Version, PtrInfo), here `key`.
Core Lean only.
-/
namespace Mpc.Gc

/-- SSA operands as far as GC and the streamer distinguish them.  `circ` is
every operand that is garbled as a circuit (uadd, umult, phi, index, ...). -/
inductive Op where
  | concat | lshift | rshift | srshift | slice | mov | smov | amov | ret | gc | circ
  deriving DecidableEq, Repr, Inhabited

/-- `case Concat, Lshift, Rshift, Srshift, Slice, Mov, Smov, Amov:` in
`Program.GC` (since 0c2f851): "Output is an alias for all non-const inputs". -/
def Op.gcAlias : Op → Bool
  | .concat | .lshift | .rshift | .srshift | .slice | .mov | .smov | .amov => true
  | _ => false

/-- The `case` list of `Program.GC` BEFORE 0c2f851 (no `Concat`). -/
def Op.gcAliasOld : Op → Bool
  | .lshift | .rshift | .srshift | .slice | .mov | .smov | .amov => true
  | _ => false

/-- Operands for which `Program.Stream` copies wire ids instead of garbling. -/
def Op.rewires : Op → Bool
  | .concat | .lshift | .rshift | .srshift | .slice | .mov | .smov | .amov => true
  | _ => false

/-- One `ssa.Value` occurrence. -/
structure Arg where
  const  : Bool
  id     : Nat      -- Value.ID
  key    : Nat      -- identity for the allocator's hash lookup
  bits   : Nat      -- Type.Bits
  signed : Bool     -- Type.Type == TInt
  cint   : Nat      -- ConstInt() of a constant (shift count, slice bound); else 0
  hash   : Nat := 0 -- Value.HashCode() % len(walloc.hash): the allocator's bucket
  mpa    : Bool := false      -- constant whose ConstValue is an *mpa.Int
  own    : Nat := 0           -- ... its own size (mpa.Int.TypeSize())
  vbits  : List Bool := []    -- ... its own bits Value.Bit(0 .. own-1)
  deriving DecidableEq, Repr, Inhabited

structure Step where
  op  : Op
  ins : List Arg      -- Instr.In; for `gc` the single value Instr.GC
  out : Option Arg
  deriving DecidableEq, Repr, Inhabited

def gcStep (a : Arg) : Step := { op := .gc, ins := [a], out := none }

def Step.outId (s : Step) : Option Nat := s.out.map (·.id)

/-- Does the step read (non-constant) value `v`? -/
def Step.reads (s : Step) (v : Nat) : Bool := s.ins.any fun a => !a.const && a.id == v

/-- The `aliases` table of `Program.GC`: outputs of alias operands that have
`v` among their non-constant inputs. -/
def aliasesOf (prog : List Step) (v : Nat) : List Nat :=
  prog.filterMap fun s => if s.op.gcAlias && s.reads v then s.outId else none

/-- The same table before 0c2f851. -/
def aliasesOfOld (prog : List Step) (v : Nat) : List Nat :=
  prog.filterMap fun s => if s.op.gcAliasOld && s.reads v then s.outId else none

/-- The values reached by the recursion of the `aliasLive` closure of
`Program.GC` from value `v`: direct aliases and, recursively, theirs.
`aliasLive(v)` = "some value of this list is in `set`".  The Go recursion
terminates because a value is defined before it is used (no alias cycles);
here `fuel` bounds the depth, and `Program length` is enough
(`Proofs/Gc.lean: closure_covers`). -/
def aliasClosure (dir : Nat → List Nat) : Nat → Nat → List Nat
  | 0, _ => []
  | fuel + 1, v =>
    let d := dir v
    d ++ d.flatMap (aliasClosure dir fuel)

/-- The `set` bit set of `Program.GC`. -/
abbrev Live := List Nat

/-- The loop over `step.Instr.In` of one backward iteration: emits the `gc`
steps (in scan order) and marks the inputs live. -/
def scanIns (al : Nat → List Nat) : List Arg → Live → Live × List Step
  | [], live => (live, [])
  | a :: as, live =>
    if a.const then scanIns al as live
    else
      let dead := !live.contains a.id && !(al a.id).any live.contains
      let r := scanIns al as (a.id :: live)
      (r.1, if dead then gcStep a :: r.2 else r.2)

/-- The backward loop of `Program.GC` as a right fold: result steps (in
program order) and the set of values live before the first step.  Go appends
the `gc` steps and then the step to a list that is reversed at the end, so in
program order the step comes first and its `gc`s follow in reverse scan
order. -/
def gcBack (al : Nat → List Nat) (retLive : Live) : List Step → List Step × Live
  | [] => ([], retLive)
  | s :: rest =>
    let r := gcBack al retLive rest
    let sc := scanIns al s.ins r.2
    let live := match s.out with
      | some o => sc.1.filter (· != o.id)
      | none => sc.1
    (s :: (sc.2.reverse ++ r.1), live)

/-- `Program.GC` with the alias table as a parameter.  `none` = the two panics
(empty program, last instruction is not `ret`).  The return values are live
at the end. -/
def gcPassWith (al : Nat → List Nat) (prog : List Step) : Option (List Step) :=
  match prog.getLast? with
  | none => none
  | some last =>
    if last.op != .ret then none
    else some (gcBack al (last.ins.map (·.id)) prog).1

/-- The gc-insertion part of `Program.GC` (0c2f851): an input is dead only if
neither it nor any direct or indirect alias (through the eight rewiring
operands) is live. -/
def gcInsert (prog : List Step) : Option (List Step) :=
  gcPassWith (aliasClosure (aliasesOf prog) prog.length) prog

/-! ### `Program.defineBeforeUse` (73f8795)

`defAt`: value id ↦ index of the (last) step whose output it is; `emit i`:
unless already emitted, mark `i`, first emit the defining step of every
non-constant input, then append step `i`.  The Go recursion terminates because
a step is marked before its inputs are followed; here `fuel` bounds the depth
(a chain of distinct unmarked steps has at most `prog.length` members). -/

def defAt (prog : List Step) (v : Nat) : Option Nat :=
  (prog.zipIdx.filter fun p => p.1.outId == some v).getLast?.map (·.2)

structure EmitSt where
  emitted : List Nat := []
  out     : List Step := []
  deriving Repr

/-- The loop over `Instr.In` of `emit`: follow the defining step of every
non-constant input with `k` (= `emit` with less fuel). -/
def followIns (k : Nat → EmitSt → EmitSt) (prog : List Step) (ins : List Arg) (st : EmitSt) : EmitSt :=
  ins.foldl (fun st a =>
    if a.const then st
    else match defAt prog a.id with
      | some j => k j st
      | none => st) st

def emit (prog : List Step) : Nat → Nat → EmitSt → EmitSt
  | 0, _, st => st
  | fuel + 1, i, st =>
    if st.emitted.contains i then st
    else
      match prog[i]? with
      | none => st
      | some s =>
        let st1 := followIns (emit prog fuel) prog s.ins { st with emitted := i :: st.emitted }
        { st1 with out := st1.out ++ [s] }

def defineBeforeUse (prog : List Step) : List Step :=
  ((List.range prog.length).foldl (fun st i => emit prog (prog.length + 1) i st) {}).out

/-- `Program.GC` as it is: `defineBeforeUse`, then the gc insertion. -/
def gcPass (prog : List Step) : Option (List Step) := gcInsert (defineBeforeUse prog)

/-- `Program.GC` BEFORE 0c2f851: the table of DIRECT aliases through seven
operands (no `concat`).  Kept for the two negation witnesses. -/
def gcPassOld (prog : List Step) : Option (List Step) := gcPassWith (aliasesOfOld prog) prog

/-! ## Well-formedness of a step list (checked on every real compilation) -/

def outs (l : List Step) : List Nat := l.filterMap Step.outId

/-- Definition before use, as a check on every suffix: a value read by a step
is not the output of that step or of a later one. -/
def dbu : List Step → Bool
  | [] => true
  | s :: rest => s.ins.all (fun a => a.const || !(outs (s :: rest)).contains a.id) && dbu rest

/-- Executable form of the hypotheses of the safety theorem: single
assignment and definition before use (`Proofs/Gc.lean: WF` adds "no `gc`
yet"). -/
def wfSteps (prog : List Step) : Bool :=
  dbu prog && decide ((outs prog).Nodup) && prog.all (·.op != .gc)

/-! ## Wire allocator and id rewiring -/

/-- `allocByValue`.  `wires` are the ids of `circuits.Wire` objects (program
inputs, `{zero}`, `{one}`, constants); `ids` is the id slice that
`AssignedIDs` hands out and that the streamer overwrites in place. -/
structure Entry where
  key   : Nat
  base  : Option Nat          -- none = UnassignedID
  wires : Option (Array Nat)
  ids   : Option (Array Nat)
  deriving Repr, Inhabited

/-- `WireAllocator.lookup` on one bucket chain (newest header first): the
first header with the key; when it is found at depth 3 or deeper (`count > 2`)
it is moved to the head of the chain ("MRU in the hash bucket"). -/
def chainLookup (c : List Entry) (k : Nat) : Option Entry × List Entry :=
  match c.findIdx? (·.key == k), c.find? (·.key == k) with
  | some i, some e => if i + 1 > 2 then (some e, e :: c.eraseP (·.key == k)) else (some e, c)
  | _, _ => (none, c)

/-- `WireAllocator.remove` on one bucket chain: unlink the first header with
the key. -/
def chainRemove (c : List Entry) (k : Nat) : Option Entry × List Entry :=
  (c.find? (·.key == k), c.eraseP (·.key == k))

/-- `WireAllocator`: `hash` (bucket number ↦ chain of headers), `freeIDs` (per
size a stack of recycled slices; a recycled slice holds `base .. base+n-1`, so
its base represents it), `nextWireID`.  `freeWires`/`freeHdrs` never influence
ids after `NewProgram` and are not modelled. -/
structure WAlloc where
  tab   : List (Nat × List Entry)
  free  : List (Nat × List Nat)   -- size ↦ stack of bases (head = top)
  next  : Nat
  panic : Bool := false
  deriving Repr, Inhabited

def WAlloc.chain (st : WAlloc) (h : Nat) : List Entry :=
  match st.tab.find? (·.1 == h) with
  | some p => p.2
  | none => []

def WAlloc.setChain (st : WAlloc) (h : Nat) (c : List Entry) : WAlloc :=
  { st with tab := (h, c) :: st.tab.filter (·.1 != h) }

/-- `walloc.lookup(hash, v)` (with its move-to-front side effect). -/
def WAlloc.lookup (st : WAlloc) (h key : Nat) : WAlloc × Option Entry :=
  let r := chainLookup (st.chain h) key
  (st.setChain h r.2, r.1)

/-- `alloc.next = walloc.hash[hash]; walloc.hash[hash] = alloc`. -/
def WAlloc.insert (st : WAlloc) (h : Nat) (e : Entry) : WAlloc := st.setChain h (e :: st.chain h)

/-- In-place update of a header (Go mutates the `*allocByValue`). -/
def WAlloc.update (st : WAlloc) (h : Nat) (e : Entry) : WAlloc :=
  st.setChain h ((st.chain h).map fun x => if x.key == e.key then e else x)

/-- `newIDs`: pop a recycled slice of exactly this size if there is one. -/
def WAlloc.popFree (st : WAlloc) (bits : Nat) : WAlloc × Option Nat :=
  match st.free.find? (·.1 == bits) with
  | some (_, b :: bs) =>
    ({ st with free := (bits, bs) :: st.free.filter (·.1 != bits) }, some b)
  | _ => (st, none)

def WAlloc.pushFree (st : WAlloc) (bits base : Nat) : WAlloc :=
  let old := match st.free.find? (·.1 == bits) with
    | some (_, bs) => bs
    | none => []
  { st with free := (bits, base :: old) :: st.free.filter (·.1 != bits) }

def idRange (base n : Nat) : Array Nat := (Array.range n).map (base + ·)

/-- `WireAllocator.AssignedIDs`. -/
def WAlloc.assignedIDs (st : WAlloc) (h key bits : Nat) : WAlloc × Array Nat :=
  match st.lookup h key with
  | (st, some e) =>
    match e.ids with
    | some ids => (st, ids)
    | none =>
      -- `alloc.ids = walloc.newIDs(bits)` (consumes a recycled slice), then
      -- filled from the wires' ids
      let st := (st.popFree bits).1
      let ids := (e.wires.getD #[]).extract 0 bits
      (st.update h { e with ids := some ids }, ids)
  | (st, none) =>
    if bits == 0 then
      (st.insert h { key := key, base := some st.next, wires := none, ids := some #[] }, #[])
    else
      match st.popFree bits with
      | (st, some base) =>
        let ids := idRange base bits
        (st.insert h { key := key, base := some base, wires := none, ids := some ids }, ids)
      | (st, none) =>
        let ids := idRange st.next bits
        ({ st with next := st.next + bits }.insert h
          { key := key, base := some st.next, wires := none, ids := some ids }, ids)

/-- Store rewired ids back (the Go code writes through the shared slice; no
lookup happens). -/
def WAlloc.setIds (st : WAlloc) (h key : Nat) (ids : Array Nat) : WAlloc :=
  st.setChain h ((st.chain h).map fun x => if x.key == key then { x with ids := some ids } else x)

/-- `WireAllocator.GCWires`: the value's header is unlinked from its bucket;
its id slice is reset to `base .. base+len-1` and pushed on the free list of
its size. -/
def WAlloc.gcWires (st : WAlloc) (h key : Nat) : WAlloc :=
  match chainRemove (st.chain h) key with
  | (none, _) => { st with panic := true }
  | (some e, c) =>
    let st := st.setChain h c
    let base := match e.wires with
      | some w => if w.size > 0 then some (e.base.getD (w.getD 0 0)) else e.base
      | none => e.base
    match e.ids with
    | some ids => if ids.size > 0 then st.pushFree ids.size (base.getD (ids.getD 0 0)) else st
    | none => st

/-- What is observable of one streamed program on the wire. -/
structure Trace where
  circs  : List (Nat × Nat) := []     -- (step index, max wire id + 1) per garbled circuit
  retIds : List Nat := []
  deriving Repr, Inhabited

def getId (w : Array Nat) (i : Nat) (pad : Nat) : Nat := w.getD i pad

def lastD (w : Array Nat) (pad : Nat) : Nat := if w.size > 0 then w.getD (w.size - 1) pad else pad

/-- The wires of one input value, with the "const values are cast to
different value sizes" adaptation of `Program.Stream`: an `*mpa.Int` constant
used at a width other than the one its wires were allocated for gets the
`{zero}` / `{one}` wire per bit of its OWN value, signed constants extended
from their own size (since b2bd1e4, as `Program.Circuit`); anything else is
padded from the allocated wires.  `{one}` is allocated right after `{zero}`. -/
def inputWires (st : WAlloc) (zw : Nat) (a : Arg) : WAlloc × Array Nat :=
  let (st, w) := st.assignedIDs a.hash a.key a.bits
  if w.size != a.bits then
    if a.const && a.mpa then
      let o := min a.own a.bits
      (st, (Array.range a.bits).map fun b =>
        let src := if o ≤ b && a.signed then o - 1 else b
        if decide (src < o) && a.vbits.getD src false then zw + 1 else zw)
    else
      let pad := if a.signed && w.size > 0 then lastD w zw else zw
      (st, (Array.range a.bits).map fun b => getId w b pad)
  else (st, w)

def allInputWires (zw : Nat) : List Arg → WAlloc → WAlloc × List (Array Nat)
  | [], st => (st, [])
  | a :: as, st =>
    let (st, w) := inputWires st zw a
    let (st, ws) := allInputWires zw as st
    (st, w :: ws)

def cintAt (ins : List Arg) (i : Nat) : Nat := (ins.getD i default).cint

/-- The id rewiring of one rewiring operand; `out` is the freshly assigned id
slice of the output value, `ws` the input wires. -/
def rewire (op : Op) (ins : List Arg) (ws : List (Array Nat)) (out : Array Nat) (obits zw : Nat) : Array Nat :=
  let w0 := ws.getD 0 #[]
  let w1 := ws.getD 1 #[]
  match op with
  | .concat =>
    (Array.range out.size).map fun b =>
      if b < w0.size then getId w0 b zw else getId w1 (b - w0.size) zw
  | .lshift =>
    let c := cintAt ins 1
    (Array.range out.size).map fun b =>
      if c ≤ b ∧ b - c < w0.size then getId w0 (b - c) zw else zw
  | .rshift =>
    let c := cintAt ins 1
    (Array.range out.size).map fun b => getId w0 (b + c) zw
  | .srshift =>
    let c := cintAt ins 1
    (Array.range out.size).map fun b => getId w0 (b + c) (lastD w0 zw)
  | .slice =>
    let frm := cintAt ins 1
    let to := cintAt ins 2
    (Array.range out.size).map fun b =>
      if b < to - frm then getId w0 (frm + b) zw else getId out b zw
  | .mov =>
    (Array.range out.size).map fun b => if b < obits then getId w0 b zw else getId out b zw
  | .smov =>
    (Array.range out.size).map fun b =>
      if b < obits then getId w0 b (lastD w0 zw) else getId out b zw
  | .amov =>
    let frm := cintAt ins 2
    let to := cintAt ins 3
    (Array.range out.size).map fun b =>
      if b < obits then
        (if b < frm ∨ to ≤ b then getId w1 b zw else getId w0 (b - frm) zw)
      else getId out b zw
  | _ => out

def arrMax (l : Array Nat) : Nat := l.foldl max 0

/-- One iteration of the step loop of `Program.Stream`. -/
def streamStep (zw : Nat) (idx : Nat) (s : Step) (st : WAlloc) (tr : Trace) : WAlloc × Trace :=
  match s.op with
  | .gc =>
    match s.ins with
    | a :: _ => (st.gcWires a.hash a.key, tr)
    | [] => (st, tr)
  | _ =>
    let (st, ws) := allInputWires zw s.ins st
    let (st, out) := match s.out with
      | some o => st.assignedIDs o.hash o.key o.bits
      | none => (st, #[])
    match s.op with
    | .ret => (st, { tr with retIds := tr.retIds ++ (ws.map Array.toList).flatten })
    | .circ =>
      let m := max ((ws.map arrMax).foldl max 0) (arrMax out)
      (st, { tr with circs := tr.circs ++ [(idx, m + 1)] })
    | op =>
      match s.out with
      | some o => (st.setIds o.hash o.key (rewire op s.ins ws out o.bits zw), tr)
      | none => (st, tr)

def streamSteps (zw : Nat) : List Step → Nat → WAlloc → Trace → WAlloc × Trace
  | [], _, st, tr => (st, tr)
  | s :: rest, idx, st, tr =>
    let (st, tr) := streamStep zw idx s st tr
    streamSteps zw rest (idx + 1) st tr

/-- A constant of `Program.Constants`: allocator key, bucket and its bits (LSB
first). -/
structure ConstDef where
  key  : Nat
  hash : Nat := 0
  bits : List Bool
  deriving Repr

/-- A program input: allocator key, bit size, bucket. -/
structure InputDef where
  key  : Nat
  bits : Nat
  hash : Nat := 0
  deriving Repr

/-- `NewProgram`: every program input is a value with unassigned wires
(`walloc.Wires`: lookup, then a new header at the head of its bucket); the
head of `Program.Stream` numbers the wires consecutively from 0. -/
def mkIn : List InputDef → Nat → WAlloc → WAlloc
  | [], _, st => st
  | i :: r, ofs, st =>
    let st := match st.lookup i.hash i.key with
      | (st, some _) => st
      | (st, none) => st.insert i.hash { key := i.key, base := none, wires := some (idRange ofs i.bits), ids := none }
    mkIn r (ofs + i.bits) st

/-- `DefineConstants`: `Allocated` (a lookup), then `SetWires` (a lookup and a
new header whose ids are the `{zero}` / `{one}` wire per bit). -/
def mkConsts (zw one : Nat) : List ConstDef → WAlloc → WAlloc
  | [], st => st
  | c :: r, st =>
    match st.lookup c.hash c.key with
    | (st, some _) => mkConsts zw one r st
    | (st, none) =>
      let st := (st.lookup c.hash c.key).1
      let w := (c.bits.map fun b => if b then one else zw).toArray
      mkConsts zw one r (st.insert c.hash { key := c.key, base := w[0]?, wires := some w, ids := some w })

/-- `NewProgram` + the head of `Program.Stream`: the two program inputs get
wire ids `0 ..`, then `{zero}` and `{one}` are allocated (`AssignedWires`: one
header and one garbled circuit each, step 0; `zk`/`ok` are their allocator keys
and buckets), then `DefineConstants`. -/
def initAlloc (inputs : List InputDef) (consts : List ConstDef) (zk : Nat × Nat := (1000000, 1000000))
    (ok : Nat × Nat := (1000001, 1000001)) : WAlloc × Nat × Trace :=
  let nIn := (inputs.map (·.bits)).sum
  let zw := nIn
  let one := nIn + 1
  let st : WAlloc := { tab := [], free := [], next := nIn + 2 }
  let st := mkIn inputs 0 st
  let st := ((st.lookup zk.2 zk.1).1).insert zk.2
    { key := zk.1, base := some zw, wires := some #[zw], ids := some #[zw] }
  let st := ((st.lookup ok.2 ok.1).1).insert ok.2
    { key := ok.1, base := some one, wires := some #[one], ids := some #[one] }
  (mkConsts zw one consts st, zw, { circs := [(0, zw + 1), (0, one + 1)] })

/-- The ids the streaming garbler uses for a GC'd program: the trace. -/
def streamTrace (inputs : List InputDef) (consts : List ConstDef) (steps : List Step)
    (zk : Nat × Nat := (1000000, 1000000)) (ok : Nat × Nat := (1000001, 1000001)) : WAlloc × Trace :=
  let (st, zw, tr) := initAlloc inputs consts zk ok
  streamSteps zw steps 0 st tr

/-! ## Constants used at a second width

Constants are shared by name; `DefineConstants` allocates wires for the FIRST
instance.  When the same constant is used at another width the wires are
adapted.  Between 3c18dfa and b2bd1e4 the two modes differed: `Program.Circuit` took the
bits from the constant's own value (extending signed constants from the
constant's own size) while `Program.Stream` still adapted the first instance's
wires.  Since b2bd1e4 both use `padFromOwn` (`inputWires` above). -/

/-- `Program.Stream` BEFORE b2bd1e4: the bit VALUES carried by the wires padded
from the first instance. -/
def padFromFirst (w : List Bool) (signed : Bool) (bits : Nat) : List Bool :=
  (List.range bits).map fun b =>
    if b < w.length then w.getD b false
    else if signed && decide (w.length > 0) then w.getD (w.length - 1) false else false

/-- `Program.Circuit` since 3c18dfa and `Program.Stream` since b2bd1e4: `v` are the bits of the constant's own
value, `own` its own size. -/
def padFromOwn (v : List Bool) (own : Nat) (signed : Bool) (bits : Nat) : List Bool :=
  let o := min own bits
  (List.range bits).map fun b =>
    let src := if o ≤ b && signed then o - 1 else b
    decide (src < o) && v.getD src false

end Mpc.Gc

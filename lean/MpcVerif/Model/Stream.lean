/-
Streaming mode, wire side: model of `Streaming.Garble` / `Streaming.garbleGate`
(circuit/stream_garble.go) and of the gate loop of `StreamEvaluator`
(circuit/stream_evaluator.go):

  * the gate record: op byte (operation in the low nibble, flags
    0x80 / 0x40 / 0x20 = input0 / input1 / output is a temporary wire,
    0x10 = 16-bit wire ids), two or three wire ids (16 or 32 bit, big endian),
    then the table rows (AND 2, OR 3, INV 1; 16 bytes each);
  * wire addressing: circuit wire `w` is the global wire `in[w]` for
    `w < len(in)`, the global wire `out[w - (NumWires - len(out))]` for the
    last `len(out)` wires, otherwise the temporary `tmp[w]`;
  * label computation: the generic `garbleCore` / `evalCore` of Model/Garble.lean
    (the same half-gates AND, row-reduced OR / INV), with the tweak counter
    kept in the `Streaming` object (`stream.id`) and, on the other side, in
    one variable declared before the main loop of `StreamEvaluator`: it runs
    over the whole stream and is carried from one circuit to the next.

Core Lean only.
-/
import MpcVerif.Model.Garble

namespace Mpc.Stream
open Mpc LabelAlg

/-- `ot.Label.Bytes` / `SetBytes`: 16 bytes, big endian. -/
class LabelBytes (L : Type) where
  toBytes : L → List Nat
  ofBytes : List Nat → L
  length_toBytes : ∀ l, (toBytes l).length = 16
  ofBytes_toBytes : ∀ l, ofBytes (toBytes l) = l

/-- `k` bytes, big endian (`bo.PutUint16` / `bo.PutUint32`, `Label.Bytes`). -/
def beBytes : Nat → Nat → List Nat
  | 0, _ => []
  | k + 1, n => beBytes k (n / 256) ++ [n % 256]

def beVal (bs : List Nat) : Nat := bs.foldl (fun acc b => acc * 256 + b) 0

/-- The concrete instance that is executed and compared with Go. -/
instance labelBytesBV : LabelBytes (BitVec 128) where
  toBytes l := beBytes 16 l.toNat
  ofBytes bs := BitVec.ofNat 128 (beVal bs)
  length_toBytes := by
    intro l
    simp [beBytes]
  ofBytes_toBytes := by
    intro l
    apply BitVec.eq_of_toNat_eq
    have h := l.isLt
    simp only [beBytes, beVal, List.nil_append, List.cons_append, List.foldl_cons, List.foldl_nil,
      BitVec.toNat_ofNat]
    omega

structure GateRec (L : Type) where
  op   : Op
  aTmp : Bool
  bTmp : Bool
  cTmp : Bool
  a    : Nat
  b    : Nat      -- 0 for INV (never assigned in `garbleGate`)
  c    : Nat
  rows : List L

def opCode : Op → Nat
  | .xor => 0 | .xnor => 1 | .and => 2 | .or => 3 | .inv => 4

def codeOp : Nat → Option Op
  | 0 => some .xor | 1 => some .xnor | 2 => some .and | 3 => some .or | 4 => some .inv
  | _ => none

def GateRec.short {L : Type} (g : GateRec L) : Bool :=
  decide (g.a ≤ 0xffff) && decide (g.b ≤ 0xffff) && decide (g.c ≤ 0xffff)

def opByte (op : Op) (aTmp bTmp cTmp short : Bool) : Nat :=
  opCode op + (if aTmp then 128 else 0) + (if bTmp then 64 else 0) + (if cTmp then 32 else 0) +
    (if short then 16 else 0)

variable {L : Type}

/-- The tail of `Streaming.garbleGate`: op byte, ids, rows. -/
def encodeRec [LabelBytes L] (g : GateRec L) : List Nat :=
  let w := if g.short then 2 else 4
  let ids := if g.op = .inv then beBytes w g.a ++ beBytes w g.c
    else beBytes w g.a ++ (beBytes w g.b ++ beBytes w g.c)
  opByte g.op g.aTmp g.bTmp g.cTmp g.short :: (ids ++ g.rows.flatMap LabelBytes.toBytes)

def takeN (k : Nat) (bs : List Nat) : Option (List Nat × List Nat) :=
  if bs.length < k then none else some (bs.take k, bs.drop k)

def takeRows [LabelBytes L] : Nat → List Nat → Option (List L × List Nat)
  | 0, bs => some ([], bs)
  | n + 1, bs =>
    match takeN 16 bs with
    | none => none
    | some (x, rest) =>
      match takeRows n rest with
      | none => none
      | some (rows, rest) => some (LabelBytes.ofBytes x :: rows, rest)

/-- The gate-record parser of `StreamEvaluator` (`ReceiveByte`, flags,
`recvWire` = `ReceiveUint16` / `ReceiveUint32`, `tableCount` labels);
`none` = "invalid operation" or a short stream. -/
def decodeRec [LabelBytes L] (bs : List Nat) : Option (GateRec L × List Nat) :=
  match bs with
  | [] => none
  | opb :: rest =>
    let aTmp := opb / 128 % 2 == 1
    let bTmp := opb / 64 % 2 == 1
    let cTmp := opb / 32 % 2 == 1
    let short := opb / 16 % 2 == 1
    match codeOp (opb % 16) with
    | none => none
    | some op =>
      let w := if short then 2 else 4
      match takeN w rest with
      | none => none
      | some (xa, rest) =>
        if op = .inv then
          match takeN w rest with
          | none => none
          | some (xc, rest) =>
            match takeRows op.rows rest with
            | none => none
            | some (rows, rest) =>
              some ({ op := op, aTmp := aTmp, bTmp := bTmp, cTmp := cTmp, a := beVal xa, b := 0,
                      c := beVal xc, rows := rows }, rest)
        else
          match takeN w rest with
          | none => none
          | some (xb, rest) =>
            match takeN w rest with
            | none => none
            | some (xc, rest) =>
              match takeRows op.rows rest with
              | none => none
              | some (rows, rest) =>
                some ({ op := op, aTmp := aTmp, bTmp := bTmp, cTmp := cTmp, a := beVal xa, b := beVal xb,
                        c := beVal xc, rows := rows }, rest)

def encodeRecs [LabelBytes L] (rs : List (GateRec L)) : List Nat := rs.flatMap encodeRec

def decodeRecs [LabelBytes L] : Nat → List Nat → Option (List (GateRec L) × List Nat)
  | 0, bs => some ([], bs)
  | n + 1, bs =>
    match decodeRec bs with
    | none => none
    | some (g, rest) =>
      match decodeRecs n rest with
      | none => none
      | some (gs, rest) => some (g :: gs, rest)

/-! ## Wire stores and addressing -/

/-- A store indexed by arbitrary wire ids (the Go code grows `wires` in 64k
pages on demand): association list, newest binding first. -/
abbrev AStore (α : Type) := List (Nat × α)

def AStore.get {α : Type} [Inhabited α] (s : AStore α) (i : Nat) : α :=
  match s.find? (·.1 == i) with
  | some p => p.2
  | none => default

def AStore.set {α : Type} (s : AStore α) (i : Nat) (v : α) : AStore α := (i, v) :: s

/-- The two wire arrays of `Streaming` / `StreamEval`. -/
structure SStore (α : Type) where
  glob : AStore α
  tmp  : AStore α

def SStore.empty {α : Type} : SStore α := ⟨[], []⟩

/-- A wire location: (is temporary, index). -/
abbrev Loc := Bool × Nat

def SStore.get {α : Type} [Inhabited α] (s : SStore α) (l : Loc) : α :=
  if l.1 then s.tmp.get l.2 else s.glob.get l.2

def SStore.set {α : Type} (s : SStore α) (l : Loc) (v : α) : SStore α :=
  if l.1 then { s with tmp := s.tmp.set l.2 v } else { s with glob := s.glob.set l.2 v }

def SStore.getGlob {α : Type} [Inhabited α] (s : SStore α) (i : Nat) : α := s.get (false, i)
def SStore.setGlob {α : Type} (s : SStore α) (i : Nat) (v : α) : SStore α := s.set (false, i) v

/-- `initCircuit`: the id maps of one streamed circuit. -/
structure SCtx where
  ins      : List Nat
  outs     : List Nat
  numWires : Nat

def SCtx.firstTmp (cx : SCtx) : Nat := cx.ins.length
def SCtx.firstOut (cx : SCtx) : Nat := cx.numWires - cx.outs.length

/-- `Streaming.Get` / `Streaming.Set` addressing. -/
def SCtx.locate (cx : SCtx) (w : Nat) : Loc :=
  if w < cx.firstTmp then (false, cx.ins.getD w 0)
  else if cx.firstOut ≤ w then (false, cx.outs.getD (w - cx.firstOut) 0)
  else (true, w)

variable [LabelAlg L]

/-- `Streaming.garbleGate`: labels, store update, tweak counter, record. -/
def streamGarbleGate (H : Hash L) (r : L) (cx : SCtx) (g : Gate) (st : SStore (WireL L)) (id : Nat) :
    SStore (WireL L) × Nat × GateRec L :=
  let la := cx.locate g.in0
  let lb : Loc := if g.op.binary then cx.locate g.in1 else (false, 0)
  let a := st.get la
  let b : WireL L := if g.op.binary then st.get lb else default
  let c := garbleCore H r g.op a b id
  let lc := cx.locate g.out
  (st.set lc c.1, id + g.op.tweaks,
   { op := g.op, aTmp := la.1, bTmp := lb.1, cTmp := lc.1, a := la.2, b := lb.2, c := lc.2, rows := c.2 })

def streamGarbleFrom (H : Hash L) (r : L) (cx : SCtx) : List Gate → SStore (WireL L) → Nat →
    SStore (WireL L) × List (GateRec L)
  | [], st, _ => (st, [])
  | g :: gs, st, id =>
    let (st1, id1, rec) := streamGarbleGate H r cx g st id
    let (st2, recs) := streamGarbleFrom H r cx gs st1 id1
    (st2, rec :: recs)

/-- `Streaming.Garble`: the tweak counter `stream.id` is carried over from the
previous call and returned for the next one. -/
def streamGarble (H : Hash L) (r : L) (cx : SCtx) (gs : List Gate) (st : SStore (WireL L)) (id : Nat) :
    SStore (WireL L) × Nat × List (GateRec L) :=
  let res := streamGarbleFrom H r cx gs st id
  (res.1, id + (gs.map (fun g => g.op.tweaks)).sum, res.2)

def GateRec.la (g : GateRec L) : Loc := (g.aTmp, g.a)
def GateRec.lb (g : GateRec L) : Loc := (g.bTmp, g.b)
def GateRec.lc (g : GateRec L) : Loc := (g.cTmp, g.c)

/-- One iteration of the gate loop of `StreamEvaluator`. -/
def streamEvalGate (H : Hash L) (g : GateRec L) (st : SStore L) (id : Nat) : Except EvalErr (SStore L × Nat) :=
  let a := st.get g.la
  let b : L := if g.op.binary then st.get g.lb else default
  match evalCore H g.op g.rows a b id with
  | .ok l => .ok (st.set g.lc l, id + g.op.tweaks)
  | .error e => .error e

def streamEvalFrom (H : Hash L) : List (GateRec L) → SStore L → Nat → Except EvalErr (SStore L × Nat)
  | [], st, id => .ok (st, id)
  | g :: gs, st, id =>
    match streamEvalGate H g st id with
    | .error e => .error e
    | .ok (st1, id1) => streamEvalFrom H gs st1 id1

/-- The gate loop of one `OpCircuit` block of `StreamEvaluator`; `id` is the
evaluator's stream-wide tweak counter. -/
def streamEval (H : Hash L) (gs : List (GateRec L)) (st : SStore L) (id : Nat) :
    Except EvalErr (SStore L × Nat) :=
  streamEvalFrom H gs st id

/-- Plain semantics of a streamed gate on the two-level store. -/
def streamPlainGate (cx : SCtx) (g : Gate) (st : SStore Bool) : SStore Bool :=
  let a := st.get (cx.locate g.in0)
  let b := if g.op.binary then st.get (cx.locate g.in1) else false
  st.set (cx.locate g.out) (g.op.eval a b)

def streamPlain (cx : SCtx) (gs : List Gate) (st : SStore Bool) : SStore Bool :=
  gs.foldl (fun st g => streamPlainGate cx g st) st

end Mpc.Stream

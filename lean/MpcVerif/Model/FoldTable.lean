/-
Executable model of the CONSTANT TABLE of one compiled program: how several
constants coexist.  Core Lean only.  (Property C12: "the folded result AS SEEN
BY THE REST OF THE PROGRAM".)

A constant `ssa.Value` has no storage of its own.  Its identity is its Name:

  * compiler/ssa/generator.go `Generator.Constant`: `Name = "$" + value` (decimal
    text of the `mpa.Int`, `$true` / `$false` for a bool)                       `cvName`
  * generator.go `AddConstant`: `gen.constants[c.Name]` keeps the instance
    that was registered FIRST, later ones only count                             `register`, `table`
  * ssa/program.go `DefineConstants`: one set of wires per entry, `Type.Bits`
    of the registered instance wide, bit i = `isSet` of ITS value                `cvWires`
  * ssa/wire_allocator.go `lookup` via `Value.Equal` (Const, Name, Scope,
    Version — all equal for two constants of one Name)                          `lookup`
  * ssa/circuitgen.go `Program.Circuit`: an instruction input that is a
    constant takes the wires of its Name when their number is the input's
    `Type.Bits`, and is otherwise re-built from the input's own value
    (`rewiden`, Model/Fold.lean)                                                `seenWires`

Everything is parametric in the naming function, so that the theorems of
Props/C12.lean can say for WHICH naming functions every constant is seen with
its own bits (`C12_const_table_exact_iff`).  The driver (`multi`, `ident` op
lines) instantiates it with `cvName`, the naming of the code as it is.
-/
import MpcVerif.Model.Fold

namespace Mpc.Fold
open Mpc.Mpa

/-! ## The table, for any kind of constant `α` and any naming -/

section Generic
variable {α : Type}

/-- `AddConstant`: the first instance of a name stays. -/
def register (nm : α → String) (tbl : List α) (c : α) : List α :=
  if tbl.any (fun e => nm e == nm c) then tbl else tbl ++ [c]

/-- `gen.constants` after the registrations `regs` (in program order), as the
list of the kept instances. -/
def table (nm : α → String) (regs : List α) : List α := regs.foldl (register nm) []

/-- The entry a use of `c` finds (`walloc.lookup`: equality of the Names). -/
def lookup (nm : α → String) (tbl : List α) (c : α) : Option α := tbl.find? (fun e => nm e == nm c)

/-- The wires an instruction input `c` of `n` wires gets: those of the entry of
its name when there are `n` of them, else `own` (re-built from `c`'s own value). -/
def seenWires (nm : α → String) (bits wires : α → Nat) (tbl : List α) (c : α) (n own : Nat) : Nat :=
  match lookup nm tbl c with
  | some e => if bits e = n then wires e else own
  | none => own

end Generic

/-! ## The compiler's constants -/

/-- `Generator.Constant`: the Name. -/
def cvName : CV → String
  | .int _ v => "$" ++ toString v.value
  | .bool b => if b then "$true" else "$false"

/-- `Type.Bits` of the registered instance. -/
def cvBits : CV → Nat
  | .int t _ => t.bits
  | .bool _ => 1

/-- The wires `DefineConstants` creates for the registered instance. -/
def cvWires : CV → Nat
  | .int t v => constWires t v
  | .bool b => if b then 1 else 0

/-- An input constant re-built from its own value at `n` wires. -/
def cvOwn (k : Kind) (n : Nat) : CV → Nat
  | .int _ v => rewiden (k == .int) n v
  | .bool b => if b then 1 else 0

/-- What the instruction `c ⊕ x` (`x` a run-time value of kind `k`, `n` bits; the constant input is
retyped to `x`'s type) reads for `c` in a program whose table is `tbl`. -/
def cvSeen (nm : CV → String) (tbl : List CV) (k : Kind) (n : Nat) (c : CV) : Nat :=
  seenWires nm cvBits cvWires tbl c n (cvOwn k n c) % 2 ^ n

/-! ## Programs of several constant expressions (harness mode `multi`) -/

inductive Consumer where
  | xor | add | sub
  deriving DecidableEq, Repr, Inhabited

/-- One item: the typed constant `T(a)` (`op = none`) or the folded `T(a) op T(b)` / `T(a) << b` / `-T(a)`,
consumed as `E ^ x`, `E + x` or `x - E` with a run-time `x` of the same type. -/
structure Item where
  op : Option Op
  k : Kind
  n : Nat
  a : Int
  b : Int
  af : Form
  bf : Form
  cons : Consumer
  deriving Repr, Inhabited

/-- The constant the item's expression denotes. -/
def Item.result (it : Item) : Res CV :=
  match it.op with
  | none => typedConst it.k it.n it.a it.af
  | some op => foldExpr op it.k it.n it.a it.b it.af it.bf

/-- The constants the item registers, in order.  `vars = false`: `r := E ⊕ x` registers the value of `E`
(`Binary.value`: `AddConstant` of the evaluated operand).  `vars = true`: `ca := T(a); cb := T(b);
s := ca op cb; r := s ⊕ x` — every definition registers its constant first (`Assign.SSA`). -/
def Item.registrations (it : Item) (vars : Bool) : Res (List CV) := do
  let s ← it.result
  if !vars then pure [s] else
  match it.op with
  | none => pure [s]
  | some op => do
    let l ← typedConst it.k it.n it.a it.af
    if op == .neg || op.isShift then pure [l, s]
    else do
      let r ← typedConst it.k it.n it.b it.bf
      pure [l, r, s]

/-- All registrations of a program, in program order. -/
def registrations (vars : Bool) : List Item → Res (List CV)
  | [] => pure []
  | it :: rest => do
    let a ← it.registrations vars
    let b ← registrations vars rest
    pure (a ++ b)

/-- What the consumer returns at `x = 0` when it reads the `n` wires `w` for the constant. -/
def consumeAt0 (c : Consumer) (n w : Nat) : Nat :=
  match c with
  | .xor | .add => w
  | .sub => (2 ^ n - w) % 2 ^ n

/-- Output of the item at `x = 0`. -/
def Item.output (nm : CV → String) (tbl : List CV) (it : Item) : Res Nat := do
  let s ← it.result
  pure (consumeAt0 it.cons it.n (cvSeen nm tbl it.k it.n s))

/-- Driver entry: the outputs of the constant variant of a `multi` program at `x = 0`, under naming `nm`. -/
def multiOutputs (nm : CV → String) (vars : Bool) (items : List Item) : Res (List Nat) := do
  let regs ← registrations vars items
  let tbl := table nm regs
  items.mapM (Item.output nm tbl)

/-- What the run-time variant computes for the item at `x = 0`. -/
def Item.runtime (it : Item) : Nat :=
  consumeAt0 it.cons it.n (match it.op with
    | none => (BitVec.ofInt it.n it.a).toNat
    | some op => circuitOpNat op it.k it.n it.a it.b)

/-- Driver entry (`ident`): do the constants `Generator.Constant` builds for the `n`-bit patterns of
`v1`, `v2` in the two types share a Name? -/
def identSame (nm : CV → String) (k1 : Kind) (n1 : Nat) (v1 : Int) (k2 : Kind) (n2 : Nat) (v2 : Int) : Res Bool := do
  let c1 ← constantMpa (setBig (v1 % ((2 ^ n1 : Nat) : Int))) (some ⟨k1, n1, n1⟩)
  let c2 ← constantMpa (setBig (v2 % ((2 ^ n2 : Nat) : Int))) (some ⟨k2, n2, n2⟩)
  pure (nm c1 == nm c2)

/-- Driver entry (`multiwhy`): why item `it` of a program with table `tbl` may be seen differently in
company than alone.  `rewidened-sign-from-own-size`: its name was registered with another width, so the
input is re-built from its own value, and `rewiden` sign-extends a non-negative `TInt` constant from bit
`own - 1` of its own size (finding C12-rewidened-constant-sign-from-mpa-size).  `shares-wires-of-another-
constant`: the entry of its name has the same width but other wires (impossible under an injective naming,
`C12_constants_see_own_bits`). -/
def Item.cause (nm : CV → String) (tbl : List CV) (it : Item) : Res String := do
  let s ← it.result
  match s with
  | .bool _ => pure "none"
  | .int t v =>
    match lookup nm tbl s with
    | none => pure "unregistered"
    | some e =>
      if cvBits e = it.n then
        pure (if cvWires e % 2 ^ it.n = constWires t v % 2 ^ it.n then "none" else "shares-wires-of-another-constant")
      else if rewiden (it.k == .int) it.n v % 2 ^ it.n = wires v.value it.n then pure "none"
      else if it.k == .int && decide (0 ≤ v.value) && v.bit (min v.bits it.n - 1) then
        pure "rewidened-sign-from-own-size"
      else pure "rewidened-other"

def multiCause (nm : CV → String) (vars : Bool) (items : List Item) (idx : Nat) : Res String := do
  let regs ← registrations vars items
  match items[idx]? with
  | some it => it.cause nm (table nm regs)
  | none => pure "no-such-item"

/-! ## Two naming functions on values, for the theorems -/

def hexDigits (n : Nat) : String := String.ofList (Nat.toDigits 16 n)

/-- The naming of the code as it is, on a non-negative value. -/
def decName (v : Nat) : String := "$" ++ toString v

/-- A naming that switches to hexadecimal above 64 bits. -/
def mixedName (v : Nat) : String := if v < 2 ^ 64 then "$" ++ toString v else "$" ++ hexDigits v

/-- `mixedName` as a naming of constants (what `cvName` would be if `Generator.Constant` spelled wide values in
hexadecimal). -/
def cvNameMixed : CV → String
  | .int _ v => if v.value < 0 then "$" ++ toString v.value else mixedName v.value.toNat
  | .bool b => if b then "$true" else "$false"

end Mpc.Fold

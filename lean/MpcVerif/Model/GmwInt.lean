/-
C10: the INPUT-ENCODING layer of the GMW online phase - how the `*big.Int` a
party hands to `gmw.Network.Run` becomes its share of its input wires.

  apps/garbled/gmw.go  gmwMode:  `input, err := circ.Inputs[party].Parse(inputFlag)`
                                 `result, err := nw.Run(input, circ, verbose)`
  gmw/network.go       Run:      `nw.self.input = input`, `nw.self.shared = big.NewInt(0)`
  gmw/peer.go          shareInput (per peer):
                                 `share := new(big.Int).SetBytes(p.randBuf)`   -- non-negative
                                 `p.shared.Xor(p.shared, share)`
  gmw/network.go       run:      `self.shared.Xor(self.shared, self.input)`    -- math/big Int.Xor
                                 `nw.setWires(self, self.shared)`
                       setWires: `nw.wires.SetBit(nw.wires, ofs+i, input.Bit(i))` for i < Inputs[id].Type.Bits
                       receiveInput: `input := new(big.Int).SetBytes(data)`; `nw.setWires(o, input)`

`IOArg.Parse` returns a NEGATIVE `*big.Int` for a scalar argument written as
"-5" (`SetString(s, 0)`, signed and unsigned types alike), a value of any
magnitude for a long literal; nothing between `Parse` and `Run` reduces it to
the declared width.  `Int.Xor` and `Int.Bit` are both defined on every integer
with the semantics of the infinite two's complement, so the bits a party
shares are those of `input mod 2^Bits` whatever the sign and magnitude.

`Gmw.run` / `Gmw.runFrom` / `Gmw.runHist` take natural numbers; this file puts
the integers in front of them, mirroring the two `math/big` functions the Go
code applies to the input.  `bigIntBit`, `bitsOfInt`, `encodeArg`, `packArg`
are those of `Model/Proto2Int.lean` (property C02: `Circuit.Compute` and
`IOArg.Parse` read integers with the same `Bit`).  Core Lean only.
-/
import MpcVerif.Model.GmwHist
import MpcVerif.Model.Proto2Int

namespace Mpc.Gmw

/-- `math/big` `(*Int).Xor(x, y)`, sign-magnitude as in the Go source:
both non-negative: `x.abs xor y.abs`;
both negative: `(x.abs - 1) xor (y.abs - 1)`, non-negative;
one negative (say `y`): `-((x.abs xor (y.abs - 1)) + 1)`.
(`Int.negSucc n` is `-(n + 1)`: `abs - 1 = n`.) -/
def bigIntXor : Int → Int → Int
  | .ofNat m, .ofNat n => .ofNat (m ^^^ n)
  | .negSucc m, .negSucc n => .ofNat (m ^^^ n)
  | .ofNat m, .negSucc n => .negSucc (m ^^^ n)
  | .negSucc m, .ofNat n => .negSucc (m ^^^ n)

/-- `setWires(o, input)` with `input` a `*big.Int` of any sign:
`nw.wires.SetBit(nw.wires, ofs+i, input.Bit(i))`. -/
def setWiresInt (w : Store Bool) (ofs bits : Nat) (input : Int) : Store Bool :=
  (List.range bits).foldl (fun w i => w.set (ofs + i) (bigIntBit input i)) w

/-- The same loop reading an arbitrary bit function of the integer (the
instance `bigIntBit` is the code; `fun v i => v.natAbs.testBit i` is what the
machine words of `big.Int.Bits()` hold). -/
def setWiresWith (bitOf : Int → Nat → Bool) (w : Store Bool) (ofs bits : Nat) (input : Int) : Store Bool :=
  (List.range bits).foldl (fun w i => w.set (ofs + i) (bitOf input i)) w

/-- Input sharing at party `p` whose own input is the integer `x p`: shares
received from the peers are `SetBytes` values (non-negative, `rnd q p`), the
own share is `Xor(Xor-of-sent-shares, input)` read with `Bit`. -/
def shareInputsFromInt (w0 : Store Bool) (sizes : List Nat) (x : Nat → Int) (rnd : Nat → Nat → Nat) (p : Nat) :
    Store Bool :=
  let n := sizes.length
  let w1 := (List.range n).foldl (fun w q =>
    if q = p then w else setWires w (argOfs sizes q) (sizes.getD q 0) (rnd q p)) w0
  let shared := (List.range n).foldl (fun s q => if q = p then s else s ^^^ rnd p q) 0
  setWiresInt w1 (argOfs sizes p) (sizes.getD p 0) (bigIntXor (Int.ofNat shared) (x p))

/-- `Network.Run(input, circ)` at all parties from the state `ps`, inputs as
integers (`Gmw.runFrom` with the integer input layer). -/
def runFromInt (c : Circuit) (sizes : List Nat) (x : Nat → Int) (rnd : Nat → Nat → Nat) (ps : List Party) :
    RunResult :=
  let ps0 := ps.map fun p =>
    { p with wires := shareInputsFromInt (growWires p.wires c.numWires) sizes x rnd p.id }
  if !c.gates.all supported then .unsupported else
  match runBlocks (blocks c) ps0 with
  | none => .blocked
  | some ps1 =>
    let shares := ps1.map fun p => (p.id, c.outputs p.wires)
    .ok ps1 (ps1.map fun p => outOpen p.id (c.outputs p.wires) shares)

/-- The first call on a freshly connected network. -/
def runInt (c : Circuit) (sizes : List Nat) (x : Nat → Int) (rnd : Nat → Nat → Nat) (pools : Nat → Triples) :
    RunResult :=
  runFromInt c sizes x rnd (fresh sizes.length pools)

/-- One `Run` call of a history with integer inputs. -/
structure CallInt where
  c     : Circuit
  sizes : List Nat
  x     : Nat → Int
  rnd   : Nat → Nat → Nat

def runHistInt : List CallInt → List Party → List RunResult
  | [], _ => []
  | k :: ks, ps =>
    match runFromInt k.c k.sizes k.x k.rnd ps with
    | .ok ps' outs => .ok ps' outs :: runHistInt ks ps'
    | r => [r]

/-- The non-negative residue `v mod 2^w`: the natural number whose low `w`
bits are the `w` wire bits of `v`. -/
def residue (w : Nat) (v : Int) : Nat := (v % 2 ^ w).toNat

/-- The natural-number inputs that `Gmw.run` sees for the integer inputs `x`. -/
def natInputs (sizes : List Nat) (x : Nat → Int) : Nat → Nat := fun p => residue (sizes.getD p 0) (x p)

def CallInt.toCall (k : CallInt) : Call := { c := k.c, sizes := k.sizes, x := natInputs k.sizes k.x, rnd := k.rnd }

/-- All parties' integer inputs as the circuit's input bit list: party after
party, `sizes[p]` bits each, bit `i` is `(x p).Bit(i)` - what
`Circuit.Compute` puts on the input wires for the same values. -/
def inputBitsInt (sizes : List Nat) (x : Nat → Int) : List Bool :=
  (List.range sizes.length).flatMap fun p => bitsOfInt (sizes.getD p 0) (x p)

/-- The value `IOArg.Parse` hands to `Run` for an argument given member by
member (`ArgVals` of Model/Proto2Int.lean): a non-compound argument is the
parsed integer itself (any sign and magnitude), a compound one is packed with
`SetBit(offset+i, member.Bit(i))` into a non-negative value. -/
def partyValue (a : ArgVals) : Int :=
  match a with
  | [m] => m.2
  | a => Int.ofNat (packArg a)

/-- The argument sizes (`circ.Inputs[p].Type.Bits`) of `n` parties. -/
def argSizes (n : Nat) (args : Nat → ArgVals) : List Nat := (List.range n).map fun p => argWidth (args p)

/-- A run whose inputs are given as every party's flattened members. -/
def runArgs (c : Circuit) (n : Nat) (args : Nat → ArgVals) (rnd : Nat → Nat → Nat) (pools : Nat → Triples) :
    RunResult :=
  runInt c (argSizes n args) (fun p => partyValue (args p)) rnd pools

/-! The variant a reader of `big.Int.Bits()` would implement: the own share is
read from the magnitude words of the XORed value. -/

def absBit (v : Int) (i : Nat) : Bool := v.natAbs.testBit i

def shareInputsFromAbs (w0 : Store Bool) (sizes : List Nat) (x : Nat → Int) (rnd : Nat → Nat → Nat) (p : Nat) :
    Store Bool :=
  let n := sizes.length
  let w1 := (List.range n).foldl (fun w q =>
    if q = p then w else setWires w (argOfs sizes q) (sizes.getD q 0) (rnd q p)) w0
  let shared := (List.range n).foldl (fun s q => if q = p then s else s ^^^ rnd p q) 0
  setWiresWith absBit w1 (argOfs sizes p) (sizes.getD p 0) (bigIntXor (Int.ofNat shared) (x p))

def runAbs (c : Circuit) (sizes : List Nat) (x : Nat → Int) (rnd : Nat → Nat → Nat) (pools : Nat → Triples) :
    RunResult :=
  let ps0 := (fresh sizes.length pools).map fun p =>
    { p with wires := shareInputsFromAbs (growWires p.wires c.numWires) sizes x rnd p.id }
  if !c.gates.all supported then .unsupported else
  match runBlocks (blocks c) ps0 with
  | none => .blocked
  | some ps1 =>
    let shares := ps1.map fun p => (p.id, c.outputs p.wires)
    .ok ps1 (ps1.map fun p => outOpen p.id (c.outputs p.wires) shares)

end Mpc.Gmw

/-
Garbling HISTORIES on one circuit value, as a single caller makes them
(C01): a sequence of calls of `Circuit.Garble` — successful ones, and ones that
FAIL part-way because the random source errors or runs short (before `R`,
after `R` inside the k-th input label) or the key is refused — interleaved with
evaluations of garblings that are still live (several at the same time) and
with `Garbled.Release` calls in any order.

Every call is run as a block of atomic steps of goroutine 0 of the ownership
model `Model/Pool.lean` (which is not changed): a history is a particular
schedule of that model, so everything proved about reachable states holds
after every history.

* successful Garble  = callGarble, Load, (CompareAndSwap on first use), Get,
  every write of the call, publish;
* FAILED Garble      = callGarble, Load, (CAS), Get, the first `k` writes of the
  call, then the error return: its only lasting effect is on the pool —
  exactly ONE `Put` of the scratch it got (`Action.abort`);
* evaluation of a live garbling = `read h`;
* Release            = relBegin, relPut, relClear (a second Release of the same
  handle: relBegin only, the `g.pool == nil` early return).

`dbl = true` is the defective variant of the error return in which the scratch
is `Put` a second time (an explicit Put on the error path plus a deferred one);
it exists only to state what the property excludes (`Props/C01Hist.lean`,
`C01_history_double_put_breaks`).  Core Lean only.
-/
import MpcVerif.Model.Pool

namespace Mpc.Pool
variable {Mem Job : Type}

/-- One call of a garbling history.  `s` is the choice `sync.Pool.Get` makes:
`some x` a cached scratch, `none` a new one (`New`). -/
inductive HEv (Job : Type) where
  /-- `g, err := c.Garble(rand, key)` with `err == nil`; the handle gets the next number -/
  | garble (j : Job) (s : Option ScratchId)
  /-- `c.Garble(rand, key)` returning an error after `k` writes into the scratch -/
  | fail (j : Job) (k : Nat) (s : Option ScratchId)
  /-- `c.Eval(key, labels, g.Gates)` with labels taken from `g.Wires` of live handle `h` -/
  | eval (h : HandleId)
  /-- `g.Release()` on handle `h` -/
  | release (h : HandleId)

/-- `pool := c.garbleScratchPool(); scratch := pool.Get()` -/
def acquireSched (σ : State Mem Job) (j : Job) (s : Option ScratchId) : List (Tid × Action Job) :=
  [(0, .callGarble j), (0, .load)] ++ (if σ.poolPtr.isNone then [(0, .cas)] else []) ++
    [(0, match s with | some x => .getFree x | none => .getNew)]

/-- The block of atomic steps of one call. -/
def evSched (P : Params Mem Job) (σ : State Mem Job) : HEv Job → List (Tid × Action Job)
  | .garble j s => acquireSched σ j s ++ List.replicate (P.prog j).length (0, .write) ++ [(0, .publish)]
  | .fail j k s => acquireSched σ j s ++ List.replicate k (0, .write) ++ [(0, .abort)]
  | .eval h => [(0, .read h)]
  | .release h =>
    match σ.handle h with
    | some H => if H.pool.isSome then [(0, .relBegin h), (0, .relPut), (0, .relClear)] else [(0, .relBegin h)]
    | none => [(0, .relBegin h)]

/-- A second `Put` of the scratch that was just put (the head of the installed
pool's free list). -/
def putAgain (σ : State Mem Job) : State Mem Job :=
  match σ.poolPtr with
  | some p =>
    match σ.free p with
    | x :: rest => { σ with free := upd σ.free p (x :: x :: rest) }
    | [] => σ
  | none => σ

/-- One call.  `none`: the call is not possible in this state (unknown handle,
evaluation of a released garbling, a scratch that is not cached, `k` beyond the
number of writes of the call). -/
def runEvWith (dbl : Bool) (P : Params Mem Job) (σ : State Mem Job) (e : HEv Job) : Option (State Mem Job) :=
  match runSched P true σ (evSched P σ e), e with
  | some σ', .fail _ _ _ => some (if dbl then putAgain σ' else σ')
  | r, _ => r

def runHistWith (dbl : Bool) (P : Params Mem Job) : State Mem Job → List (HEv Job) → Option (State Mem Job)
  | σ, [] => some σ
  | σ, e :: es =>
    match runEvWith dbl P σ e with
    | some σ' => runHistWith dbl P σ' es
    | none => none

/-- The code as it is: a failed Garble puts its scratch back exactly once. -/
abbrev runEv (P : Params Mem Job) := runEvWith false P
abbrev runHist (P : Params Mem Job) := runHistWith false P

/-- The choice the executed model makes for `Get`: the most recently `Put`
scratch if one is cached, else a new one.  (What `sync.Pool.Get` returns is
unspecified; the theorems quantify over every choice, the result of a call
does not depend on it.) -/
def pickFree (σ : State Mem Job) : Option ScratchId :=
  match σ.poolPtr with
  | some p => (σ.free p).head?
  | none => none

/-- Handle `h` is live: produced, not released. -/
def liveHandle (σ : State Mem Job) (h : HandleId) : Bool :=
  match σ.handle h with
  | some H => H.pool.isSome
  | none => false

/-- Number of live handles that are backed by scratch `x`. -/
def ownersOf (σ : State Mem Job) (x : ScratchId) : Nat :=
  ((List.range σ.nHandles).filter fun h =>
    match σ.handle h with
    | some H => H.pool.isSome && H.scratch == some x
    | none => false).length

end Mpc.Pool

/-
Model of the circuit builders of `compiler/circuits` (property C07).

A builder is a program in the monad `BM` over the builder state `St`, which
mirrors `circuits.Compiler`: the list of emitted gates (`cc.Gates`) and the
three lazily created constant wires (`invI0Wire`, `zeroWire`, `oneWire`).
Go wires are pointers; here a wire is a natural number.  Input wire `i` is
number `i`; every emitted gate drives a fresh wire whose number is
`nIn + (number of gates emitted before)`.  This is exactly the canonical
numbering "by first occurrence" that the harness applies to the real
`cc.Gates` (harness/cmd/c07), so the gate list produced here can be compared
literally with the one produced by the Go builder (correspondence T4).

Go builders receive pre-allocated result wires `z` and connect gates to them
(or overwrite `z[i]` with the zero wire); here a builder *returns* the list of
result wires.  Under first-occurrence numbering both formulations give the
same gate list; wires that Go allocates but never connects do not appear in
either.

Core Lean only.
-/
import MpcVerif.Model.Circuit

namespace Mpc.Bld
open Mpc

/-- Builder state: `circuits.Compiler` reduced to what determines the gates. -/
structure St where
  nIn   : Nat
  gates : Array Gate := #[]
  inv0  : Option Nat := none   -- cc.invI0Wire
  zero  : Option Nat := none   -- cc.zeroWire
  one   : Option Nat := none   -- cc.oneWire
  deriving Inhabited

/-- Number of the next fresh wire. -/
def St.next (s : St) : Nat := s.nIn + s.gates.size

/-- The builder monad (state passing). -/
def BM (α : Type) := St → α × St

instance : Monad BM where
  pure a := fun s => (a, s)
  bind m f := fun s => f (m s).1 (m s).2

@[simp] theorem pure_run {α} (a : α) (s : St) : (pure a : BM α) s = (a, s) := rfl
@[simp] theorem bind_run {α β} (m : BM α) (f : α → BM β) (s : St) :
    (m >>= f) s = f (m s).1 (m s).2 := rfl

/-- `cc.AddGate(cc.Calloc.BinaryGate(op, a, b, o))` with `o` a fresh wire. -/
def gate (op : Op) (a b : Nat) : BM Nat := fun s =>
  (s.next, { s with gates := s.gates.push ⟨op, a, b, s.next⟩ })

/-- `Compiler.InvI0Wire` (compiler.go): cached `INV(input[0])`. -/
def invI0Wire : BM Nat := fun s =>
  match s.inv0 with
  | some w => (w, s)
  | none =>
    let r := gate .inv 0 0 s
    (r.1, { r.2 with inv0 := some r.1 })

/-- `Compiler.ZeroWire`: cached `AND(input[0], INV(input[0]))`. -/
def zeroWire : BM Nat := fun s =>
  match s.zero with
  | some w => (w, s)
  | none =>
    let i := invI0Wire s
    let r := gate .and 0 i.1 i.2
    (r.1, { r.2 with zero := some r.1 })

/-- `Compiler.OneWire`: cached `XOR(input[0], INV(input[0]))`. -/
def oneWire : BM Nat := fun s =>
  match s.one with
  | some w => (w, s)
  | none =>
    let i := invI0Wire s
    let r := gate .xor 0 i.1 i.2
    (r.1, { r.2 with one := some r.1 })

/-- `Compiler.INV`: `XOR(i, OneWire())` (the one wire is created first). -/
def inv (i : Nat) : BM Nat := do
  let o ← oneWire
  gate .xor i o

/-- `Compiler.OR`: `(a⊕b)⊕(a∧b)`. -/
def or (a b : Nat) : BM Nat := do
  let x ← gate .xor a b
  let n ← gate .and a b
  gate .xor x n

/-- `Compiler.ID`: `XOR(i, ZeroWire())`. -/
def idGate (i : Nat) : BM Nat := do
  let z ← zeroWire
  gate .xor i z

/-- `Compiler.ZeroPad`: no zero wire is requested when the lengths agree. -/
def zeroPad (x y : List Nat) : BM (List Nat × List Nat) :=
  if x.length = y.length then pure (x, y) else do
    let z ← zeroWire
    let m := max x.length y.length
    pure (x ++ List.replicate (m - x.length) z, y ++ List.replicate (m - y.length) z)

/-- Sign extension of a bus to `n` wires: the most significant wire is
repeated (`Compiler.signExtend`; buses are non-empty). -/
def signExt (w : List Nat) (n : Nat) : List Nat := w ++ List.replicate (n - w.length) (w.getLastD 0)

/-- `Compiler.SignPad`: both buses sign-extended to the common width. -/
def signPad (x y : List Nat) : List Nat × List Nat :=
  (signExt x (max x.length y.length), signExt y (max x.length y.length))

/-- `Compiler.Pad`. -/
def pad (x : List Nat) (n : Nat) : BM (List Nat) :=
  if x.length ≥ n then pure x else do
    let z ← zeroWire
    pure (x ++ List.replicate (n - x.length) z)

/-- `k` copies of the zero wire ("set all leftover bits to zero"); no zero
wire is requested for `k = 0`. -/
def zeros (k : Nat) : BM (List Nat) :=
  if k = 0 then pure [] else do
    let z ← zeroWire
    pure (List.replicate k z)

/-! ### circ_adder.go -/

/-- One step of the ripple loop of `NewAdder`: `NewFullAdder(a, b, cin, s, cout)`;
with `cout = nil` (last position, carry dropped) only the two sum gates. -/
def fullAdder (a b cin : Nat) (wantCout : Bool) : BM (Nat × Nat) := do
  let w1 ← gate .xor b cin
  let s ← gate .xor a w1
  if wantCout then
    let w2 ← gate .xor a cin
    let w3 ← gate .and w1 w2
    let cout ← gate .xor cin w3
    pure (s, cout)
  else
    pure (s, cin)

/-- The loop `for i := 1; i < len(x); i++` of `NewAdder` over the remaining
operand bits; `keep` = the final carry is wired to `z[len(x)]`. -/
def rippleAdd : List (Nat × Nat) → Nat → Bool → BM (List Nat)
  | [], cin, keep => pure (if keep then [cin] else [])
  | (a, b) :: rest, cin, keep => do
    let r ← fullAdder a b cin (!rest.isEmpty || keep)
    let t ← rippleAdd rest r.2 keep
    pure (r.1 :: t)

/-- First position of `NewAdder` (`NewHalfAdder`, with a carry wire unless the
operands are one bit wide and the carry is dropped) followed by the loop. -/
def rippleAdderBody (a b : Nat) (rest : List (Nat × Nat)) (keep : Bool) : BM (List Nat) := do
  let s ← gate .xor a b
  if rest.isEmpty && !keep then pure [s] else do
    let c ← gate .and a b
    let t ← rippleAdd rest c keep
    pure (s :: t)

/-- `NewAdder` for the Yao target (ripple carry). -/
def rippleAdder (x y : List Nat) (nz : Nat) : BM (List Nat) := do
  let p ← zeroPad x y
  let x := p.1.take nz
  let y := p.2.take nz
  let keep := decide (x.length < nz)
  match x.zip y with
  | [] => zeros nz
  | (a, b) :: rest => do
    let body ← rippleAdderBody a b rest keep
    let z ← zeros (nz - (x.length + 1))
    pure (body ++ z)

/-- `ceil(log2 n)` as computed by `NewKoggeStoneAdder`. -/
def ceilLog2 (n : Nat) : Nat := if n ≤ 1 then 0 else Nat.log2 (n - 1) + 1

/-! Kogge-Stone prefix network, shared by the adder and the subtractor.  A
position carries a pair `(p, g)` of wires (propagate, generate). -/

/-- Pre-processing of `NewKoggeStoneAdder`: `p_i = x_i ⊕ y_i`, `g_i = x_i ∧ y_i`. -/
def ksPre : List (Nat × Nat) → BM (List (Nat × Nat))
  | [] => pure []
  | (a, b) :: r => do
    let p ← gate .xor a b
    let g ← gate .and a b
    let t ← ksPre r
    pure ((p, g) :: t)

/-- Black cells of one adder stage, for the positions `i ≥ shift`: the input is
`((p_i, g_i), (p_{i-shift}, g_{i-shift}))`. -/
def ksCellsA : List ((Nat × Nat) × (Nat × Nat)) → BM (List (Nat × Nat))
  | [] => pure []
  | ((pi, gi), (pj, gj)) :: r => do
    let andG ← gate .and pi gj
    let np ← gate .and pi pj
    let ng ← gate .xor gi andG
    let t ← ksCellsA r
    pure ((np, ng) :: t)

/-- Cells of one subtractor stage (same function, other gate order). -/
def ksCellsS : List ((Nat × Nat) × (Nat × Nat)) → BM (List (Nat × Nat))
  | [] => pure []
  | ((pi, gi), (pj, gj)) :: r => do
    let pg ← gate .and pi gj
    let ng ← gate .xor gi pg
    let np ← gate .and pi pj
    let t ← ksCellsS r
    pure ((np, ng) :: t)

/-- One stage of the prefix network: positions below `shift` keep their pair,
position `i ≥ shift` is combined with position `i - shift`. -/
def ksStage (cells : List ((Nat × Nat) × (Nat × Nat)) → BM (List (Nat × Nat))) (shift : Nat)
    (pg : List (Nat × Nat)) : BM (List (Nat × Nat)) := do
  let hi ← cells ((pg.drop shift).zip pg)
  pure (pg.take shift ++ hi)

/-- `k` stages with shifts `shift, 2·shift, 4·shift, …`. -/
def ksStages (cells : List ((Nat × Nat) × (Nat × Nat)) → BM (List (Nat × Nat))) :
    Nat → Nat → List (Nat × Nat) → BM (List (Nat × Nat))
  | 0, _, pg => pure pg
  | k + 1, shift, pg => do
    let pg' ← ksStage cells shift pg
    ksStages cells k (2 * shift) pg'

/-- Post-processing of the adder for the positions `i ≥ 1`:
`z_i = (x_i ⊕ y_i) ⊕ g_{i-1}`. -/
def ksPostA : List (Nat × Nat) → List Nat → BM (List Nat)
  | (a, b) :: r, c :: cs => do
    let xr ← gate .xor a b
    let w ← gate .xor xr c
    let t ← ksPostA r cs
    pure (w :: t)
  | _, _ => pure []

/-- Width of the prefix network of `NewKoggeStoneAdder/Subtractor`:
`max(len x, len y)`, plus one if the result is wider, truncated to `len z`. -/
def ksWidth (nx ny nz : Nat) : Nat :=
  if nz > max nx ny then max nx ny + 1 else nz

/-- `NewKoggeStoneAdder` with an explicit number of prefix stages (the Go code
uses `ceil(log2 n)`, `ksAdder` below). -/
def ksAdderWith (stages : Nat) (x y : List Nat) (nz : Nat) : BM (List Nat) := do
  let n0 := max x.length y.length
  let n1 := if nz > n0 then n0 + 1 else n0
  let x ← pad x n1
  let y ← pad y n1
  let n := if x.length > nz then nz else n1
  let xy := (x.take n).zip (y.take n)
  let pg ← ksPre xy
  let pg ← ksStages ksCellsA stages 1 pg
  match xy with
  | [] => zeros nz
  | (a, b) :: rest => do
    let z0 ← gate .xor a b
    let zs ← ksPostA rest (pg.map Prod.snd)
    let zr ← zeros (nz - n)
    pure (z0 :: zs ++ zr)

/-- `NewKoggeStoneAdder`: `numStages = ceil(log2 n)`. -/
def ksAdder (x y : List Nat) (nz : Nat) : BM (List Nat) :=
  ksAdderWith (ceilLog2 (ksWidth x.length y.length nz)) x y nz

/-- `NewAdder`. -/
def newAdder (gmw : Bool) (x y : List Nat) (nz : Nat) : BM (List Nat) :=
  if gmw then ksAdder x y nz else rippleAdder x y nz

/-! ### circ_subtractor.go -/

/-- `NewFullSubtractor(y[i], x[i], cin, z[i], cout)` as called by
`NewSubtractor` ("note y-x here"): `x`, `y` are the minuend / subtrahend bits
of `NewSubtractor`. -/
def fullSub (x y cin : Nat) (wantCout : Bool) : BM (Nat × Nat) := do
  let w1 ← gate .xnor x cin
  let d ← gate .xnor y w1
  if wantCout then
    let w2 ← gate .xor y cin
    let w3 ← gate .and w1 w2
    let cout ← gate .xor w3 cin
    pure (d, cout)
  else
    pure (d, cin)

/-- Loop of `NewSubtractor`; `keep` = the final borrow is wired to `z[len(x)]`. -/
def rippleSub : List (Nat × Nat) → Nat → Bool → BM (List Nat)
  | [], cin, keep => pure (if keep then [cin] else [])
  | (a, b) :: rest, cin, keep => do
    let r ← fullSub a b cin (!rest.isEmpty || keep)
    let t ← rippleSub rest r.2 keep
    pure (r.1 :: t)

/-- `NewSubtractor` for the Yao target.  Result bits above `len(x)+1` are
copies of the final borrow `z[len(x)]` (the sign of the difference). -/
def rippleSubtractor (x y : List Nat) (nz : Nat) : BM (List Nat) := do
  let p ← zeroPad x y
  let x := p.1.take nz
  let y := p.2.take nz
  let keep := decide (x.length < nz)
  let cin ← zeroWire
  let body ← rippleSub (x.zip y) cin keep
  pure (body ++ List.replicate (nz - (x.length + 1)) (body.getLastD 0))

/-- Bitwise preparation of `NewKoggeStoneSubtractor`: `bInv = INV(y_i)`,
`p_i = x_i ⊕ bInv`, `g_i = x_i ∧ bInv`. -/
def ksPreS : List (Nat × Nat) → BM (List (Nat × Nat))
  | [] => pure []
  | (a, b) :: r => do
    let bInv ← inv b
    let p ← gate .xor a bInv
    let g ← gate .and a bInv
    let t ← ksPreS r
    pure ((p, g) :: t)

/-- Sum bits of the subtractor for the positions `i ≥ 1`: `z_i = pInit_i ⊕ g_{i-1}`. -/
def ksPostS : List Nat → List Nat → BM (List Nat)
  | p :: r, c :: cs => do
    let w ← gate .xor p c
    let t ← ksPostS r cs
    pure (w :: t)
  | _, _ => pure []

/-- `NewKoggeStoneSubtractor` with an explicit number of prefix stages. -/
def ksSubtractorWith (stages : Nat) (x y : List Nat) (nz : Nat) : BM (List Nat) := do
  let n0 := max x.length y.length
  let n1 := if nz > n0 then n0 + 1 else n0
  let x ← pad x n1
  let y ← pad y n1
  let n := if x.length > nz then nz else n1
  let xy := (x.take n).zip (y.take n)
  let pg ← ksPreS xy
  match pg with
  | [] => zeros nz
  | (p0, g0) :: rest => do
    -- carry-in 1 of the two's complement: g_0 := g_0 ⊕ p_0
    let w ← gate .xor g0 p0
    let pgN ← ksStages ksCellsS stages 1 ((p0, w) :: rest)
    let z0 ← inv p0
    let zs ← ksPostS (rest.map Prod.fst) (pgN.map Prod.snd)
    let z := z0 :: zs
    -- leftover bits: copies of z[n-1] (the borrow)
    pure (z ++ List.replicate (nz - n) (z.getLastD 0))

/-- `NewKoggeStoneSubtractor`: `for step := 1; step < n; step *= 2`. -/
def ksSubtractor (x y : List Nat) (nz : Nat) : BM (List Nat) :=
  ksSubtractorWith (ceilLog2 (ksWidth x.length y.length nz)) x y nz

/-- `NewSubtractor`. -/
def newSubtractor (gmw : Bool) (x y : List Nat) (nz : Nat) : BM (List Nat) :=
  if gmw then ksSubtractor x y nz else rippleSubtractor x y nz

/-! ### circ_mux.go -/

/-- Loop body of `NewMUX` over the (padded) value bits: `(t, f)` pairs. -/
def muxBits (cond : Nat) : List (Nat × Nat) → BM (List Nat)
  | [] => pure []
  | (t, f) :: rest => do
    let w1 ← gate .xor f t
    let w2 ← gate .and w1 cond
    let o ← gate .xor w2 f
    let r ← muxBits cond rest
    pure (o :: r)

/-- `NewMUX(cond, t, f, out)`; `none` = the Go builder returns an error
(`len(out) ≠ max(len t, len f)`). -/
def newMUX (cond : Nat) (t f : List Nat) (nz : Nat) : BM (Option (List Nat)) := do
  let p ← zeroPad t f
  if p.1.length ≠ nz then pure none else do
    let r ← muxBits cond (p.1.zip p.2)
    pure (some r)

/-! ### circ_comparators.go -/

/-- The carry chain shared by `uintComparator` and `intComparator`. -/
def cmpChain : List (Nat × Nat) → Nat → BM Nat
  | [], cin => pure cin
  | (x, y) :: rest, cin => do
    let w1 ← gate .xnor cin y
    let w2 ← gate .xor cin x
    let w3 ← gate .and w1 w2
    let cout ← gate .xor cin w3
    cmpChain rest cout

/-- `uintComparator(cin, x, y, r)`: `x > y` for `cin = 0`, `x ≥ y` for `cin = 1`. -/
def uintComparator (cin : Nat) (x y : List Nat) : BM (List Nat) := do
  let p ← zeroPad x y
  let r ← cmpChain (p.1.zip p.2) cin
  pure [r]

/-- `intComparator` after the operands have been brought to a common width:
the carry chain, then the sign-bit MUX. -/
def intComparatorCore (cin : Nat) (x y : List Nat) : BM (List Nat) := do
  let cout ← cmpChain (x.zip y) cin
  let sx := x.getLastD 0
  let sy := y.getLastD 0
  let cond ← gate .xor sx sy
  -- NewMUX(cond, [negBit], [cout], r)
  let w1 ← gate .xor cout sy
  let w2 ← gate .and w1 cond
  let o ← gate .xor w2 cout
  pure [o]

/-- `intComparator(cin, x, y, r)`: the operands are ZERO padded (`cc.ZeroPad`). -/
def intComparator (cin : Nat) (x y : List Nat) : BM (List Nat) := do
  let p ← zeroPad x y
  intComparatorCore cin p.1 p.2

/-- PROPOSED REPAIR, not the code: `intComparator` with the operands sign
extended (`cc.SignPad`, hooks/c07-intcomparator-signpad.patch). -/
def intComparatorSignPad (cin : Nat) (x y : List Nat) : BM (List Nat) :=
  let p := signPad x y
  intComparatorCore cin p.1 p.2

inductive CmpKind where
  | gt | ge | lt | le
  deriving DecidableEq, Repr

/-- `New{Uint,Int}{Gt,Ge,Lt,Le}Comparator`: the constant wire is requested
first, `Lt`/`Le` swap the operands. -/
def comparator (signed : Bool) (k : CmpKind) (x y : List Nat) : BM (List Nat) := do
  let cin ← (match k with
    | .gt | .lt => zeroWire
    | .ge | .le => oneWire)
  let (a, b) := (match k with
    | .gt | .ge => (x, y)
    | .lt | .le => (y, x))
  if signed then intComparator cin a b else uintComparator cin a b

/-- PROPOSED REPAIR, not the code: the signed comparators over
`intComparatorSignPad`. -/
def comparatorSignPad (k : CmpKind) (x y : List Nat) : BM (List Nat) := do
  let cin ← (match k with
    | .gt | .lt => zeroWire
    | .ge | .le => oneWire)
  let (a, b) := (match k with
    | .gt | .ge => (x, y)
    | .lt | .le => (y, x))
  intComparatorSignPad cin a b

/-- One round of the AND tree of `NewEqComparator`. -/
def andPairs : List Nat → BM (List Nat)
  | a :: b :: rest => do
    let f ← gate .and a b
    let r ← andPairs rest
    pure (f :: r)
  | l => pure l

/-- `for len(flags) > 2 { ... }`; `fuel` bounds the number of rounds. -/
def andTree : Nat → List Nat → BM (List Nat)
  | 0, l => pure l
  | fuel + 1, l =>
    if l.length > 2 then do
      let l' ← andPairs l
      andTree fuel l'
    else pure l

def xnorBits : List (Nat × Nat) → BM (List Nat)
  | [] => pure []
  | (a, b) :: rest => do
    let f ← gate .xnor a b
    let r ← xnorBits rest
    pure (f :: r)

/-- `NewEqComparator`. -/
def eqComparator (x y : List Nat) : BM (List Nat) := do
  let p ← zeroPad x y
  match p.1.zip p.2 with
  | [(a, b)] => do
    let r ← gate .xnor a b
    pure [r]
  | l => do
    let flags ← xnorBits l
    let fl ← andTree flags.length flags
    let r ← gate .and (fl.getD 0 0) (fl.getD 1 0)
    pure [r]

/-- `NewNeqComparator`. -/
def neqComparator (x y : List Nat) : BM (List Nat) := do
  let e ← eqComparator x y
  let r ← inv (e.getD 0 0)
  pure [r]

/-- `NewLogicalAND`. -/
def logicalAnd (x y : List Nat) : BM (List Nat) := do
  let r ← gate .and (x.getD 0 0) (y.getD 0 0)
  pure [r]

/-- `NewLogicalOR`. -/
def logicalOr (x y : List Nat) : BM (List Nat) := do
  let r ← or (x.getD 0 0) (y.getD 0 0)
  pure [r]

/-- `NewBitSetTest`. -/
def bitSetTest (x : List Nat) (index : Nat) : BM (List Nat) := do
  let w ← zeroWire
  if index < x.length then
    let r ← gate .xor (x.getD index 0) w
    pure [r]
  else pure [w]

/-- `NewBitClrTest`. -/
def bitClrTest (x : List Nat) (index : Nat) : BM (List Nat) := do
  let w ← oneWire
  if index < x.length then
    let r ← gate .xor (x.getD index 0) w
    pure [r]
  else pure [w]

/-! ### circ_binary.go -/

def bitwise (f : Nat → Nat → BM Nat) : List (Nat × Nat) → BM (List Nat)
  | [] => pure []
  | (a, b) :: rest => do
    let o ← f a b
    let r ← bitwise f rest
    pure (o :: r)

/-- Common prologue of `NewBinaryAND/OR/XOR/Clear`: pad, truncate to `len(r)`.
Result bits above `max(len x, len y)` are left unconnected by the Go code; the
model (and the theorems) cover `nz ≤ max(len x, len y)`. -/
def binaryOp (f : Nat → Nat → BM Nat) (x y : List Nat) (nz : Nat) : BM (List Nat) := do
  let p ← zeroPad x y
  bitwise f ((p.1.take nz).zip (p.2.take nz))

def binaryAnd := binaryOp (gate .and)
def binaryOr := binaryOp or
def binaryXor := binaryOp (gate .xor)
def binaryClear := binaryOp (fun a b => do let w ← inv b; gate .and a w)

/-! ### circ_index.go -/

/-- The array operand split into its `k` elements of `size` wires. -/
def chunks {α : Type} (size : Nat) : Nat → List α → List (List α)
  | 0, _ => []
  | k + 1, l => l.take size :: chunks size k (l.drop size)

/-- `newIndex(cc, bit, length, size, array, index, def, out)`; the array is
passed as its list of elements (`array[:size]` is the first element,
`array[:length*size]` the first `length` elements, `array[length*size:]` the
rest). -/
def newIndexRec (index dflt : List Nat) : Nat → Nat → List (List Nat) → BM (List Nat)
  | 0, _, els => do
    let fVal := els.getD 0 dflt
    let tVal := if els.length > 1 then els.getD 1 dflt else dflt
    muxBits (index.getD 0 0) (tVal.zip fVal)
  | bit + 1, length, els => do
    let n := els.length
    let length := length / 2
    let fArray := if n > length then els.take length else els
    if bit + 1 ≥ index.length then
      newIndexRec index dflt bit length fArray
    else do
      let fVal ← newIndexRec index dflt bit length fArray
      let tVal ← (if n > length then
          newIndexRec index dflt bit length (els.drop length)
        else pure dflt)
      muxBits (index.getD (bit + 1) 0) (tVal.zip fVal)

/-- `bits` and `length` of `NewIndex`: `for length = 2; length < n; length *= 2 { bits++ }`. -/
def indexBits : Nat → Nat → Nat → Nat → Nat × Nat
  | 0, _, bits, length => (bits, length)
  | fuel + 1, n, bits, length =>
    if length < n then indexBits fuel n (bits + 1) (length * 2) else (bits, length)

/-- `NewIndex(cc, size, array, index, out)` with `len(out) = size`,
`size ∣ len(array)`. -/
def newIndex (size : Nat) (array index : List Nat) : BM (List Nat) := do
  let n := array.length / size
  if n = 0 then zeros size else do
    let bl := indexBits n n 1 2
    let z ← zeroWire
    let dflt := List.replicate size z
    newIndexRec index dflt (bl.1 - 1) bl.2 (chunks size n array)

/-! ### circ_hamming.go -/

/-- One round of the adder tree of `Hamming`. -/
def hammingRound (gmw : Bool) : List (List Nat) → BM (List (List Nat))
  | a :: b :: rest => do
    let s ← newAdder gmw a b (a.length + 1)
    let r ← hammingRound gmw rest
    pure (s :: r)
  | l => pure l

def hammingTree (gmw : Bool) : Nat → List (List Nat) → BM (List (List Nat))
  | 0, l => pure l
  | fuel + 1, l =>
    if l.length > 2 then do
      let l' ← hammingRound gmw l
      hammingTree gmw fuel l'
    else pure l

def xorBits : List (Nat × Nat) → BM (List (List Nat))
  | [] => pure []
  | (a, b) :: rest => do
    let w ← gate .xor a b
    let r ← xorBits rest
    pure ([w] :: r)

/-- `Hamming(cc, a, b, r)`. -/
def hamming (gmw : Bool) (a b : List Nat) (nz : Nat) : BM (List Nat) := do
  let p ← zeroPad a b
  let arr ← xorBits (p.1.zip p.2)
  let arr ← hammingTree gmw arr.length arr
  if arr.length = 1 then do
    -- one bit inputs: the distance is the single XOR bit (added to zero)
    let z ← zeroWire
    newAdder gmw (arr.getD 0 []) [z] nz
  else
    newAdder gmw (arr.getD 0 []) (arr.getD 1 []) nz

/-! ### circ_multiplier.go -/

/-- `NewHalfAdder` with a carry wire. -/
def halfAdder (a b : Nat) : BM (Nat × Nat) := do
  let s ← gate .xor a b
  let c ← gate .and a b
  pure (s, c)

/-- `NewFullAdder` with a carry wire. -/
def fullAdder' (a b cin : Nat) : BM (Nat × Nat) := fullAdder a b cin true

/-! `NewArrayMultiplier`, as structural recursion over the rows of the array
(row `j` adds `x · y_j · 2^j` to the running sum). -/

/-- The AND row `x_i ∧ y_j` for all `i`. -/
def amAnds (yj : Nat) : List Nat → BM (List Nat)
  | [] => pure []
  | xb :: xs => do
    let a ← gate .and xb yj
    let r ← amAnds yj xs
    pure (a :: r)

/-- Adder cells `i ≥ 1` of an intermediate row: full adder `(ands_i, sums_i, c)`,
half adder `(ands_i, c)` where `sums` has run out (first row: `sums` has one
element less).  Returns the sum bits and the last carry. -/
def amRowCells : List Nat → List Nat → Nat → BM (List Nat × Nat)
  | [], _, c => pure ([], c)
  | a :: as, [], c => do
    let r ← halfAdder a c
    let t ← amRowCells as [] r.2
    pure (r.1 :: t.1, t.2)
  | a :: as, sm :: sms, c => do
    let r ← fullAdder' a sm c
    let t ← amRowCells as sms r.2
    pure (r.1 :: t.1, t.2)

/-- One intermediate row: returns the result bit `z[j]` and the new sums
("new sums with carry as the highest bit"). -/
def amRow : List Nat → List Nat → BM (Nat × List Nat)
  | a0 :: as, s0 :: ss => do
    let r ← halfAdder a0 s0
    let t ← amRowCells as ss r.2
    pure (r.1, t.1 ++ [t.2])
  | _, sums => pure (0, sums)

/-- The intermediate rows `j = 1 .. len(y)-2`. -/
def amRows (x : List Nat) : List Nat → List Nat → BM (List Nat × List Nat)
  | [], sums => pure ([], sums)
  | yj :: ys, sums => do
    let ands ← amAnds yj x
    let r ← amRow ands sums
    let t ← amRows x ys r.2
    pure (r.1 :: t.1, t.2)

/-- Cells `i ≥ 1` of the final row: the AND gate is emitted for every `i`, the
adder only while the result position exists (`lim` positions left). -/
def amFinalCells (yl : Nat) : List Nat → List Nat → Nat → Nat → BM (List Nat × Nat)
  | [], _, c, _ => pure ([], c)
  | xb :: xs, sums, c, lim => do
    let a ← gate .and xb yl
    match lim with
    | 0 => amFinalCells yl xs sums.tail c 0
    | lim + 1 => do
      let r ← (match sums with
        | [] => halfAdder a c
        | sm :: _ => fullAdder' a sm c)
      let t ← amFinalCells yl xs sums.tail r.2 lim
      pure (r.1 :: t.1, t.2)

/-- The final row `j = len(y)-1`: result bits `z[j ..]` as far as they exist
(`lim = len(z) - j` positions), including the last carry when `lim > len(x)`. -/
def amFinal (yl : Nat) (x sums : List Nat) (lim : Nat) : BM (List Nat) :=
  match x, sums with
  | x0 :: xs, s0 :: ss => do
    let a ← gate .and x0 yl
    match lim with
    | 0 => do
      let _ ← amFinalCells yl xs ss 0 0
      pure []
    | lim + 1 => do
      let r ← halfAdder a s0
      let t ← amFinalCells yl xs ss r.2 lim
      pure (r.1 :: t.1 ++ (if lim ≥ x.length then [t.2] else []))
  | _, _ => pure []

/-- `NewArrayMultiplier`. -/
def arrayMultiplier (x y : List Nat) (nz : Nat) : BM (List Nat) := do
  let p ← zeroPad x y
  let x := p.1.take nz
  let y := p.2.take nz
  match x, y with
  | [x0], y0 :: _ => do
    -- one bit multiplication is AND
    let w ← gate .and x0 y0
    let zs ← zeros (nz - 1)
    pure (w :: zs)
  | x0 :: xs, y0 :: ys => do
    let n := x.length
    let row0 ← amAnds y0 (x0 :: xs)
    let mid ← amRows x ys.dropLast row0.tail
    let fin ← amFinal (ys.getLastD 0) x mid.2 (nz - (n - 1))
    let zs ← zeros (nz - 2 * n)
    pure (row0.headD 0 :: mid.1 ++ fin ++ zs)
  | _, _ => zeros nz

/-- `Compiler.ShiftLeft(w, size, count)`. -/
def shiftLeft (w : List Nat) (size count : Nat) : BM (List Nat) := do
  let lo ← zeros count
  let mid := if count < size then w.take (size - count) else []
  let hi ← zeros (size - (count + w.length))
  pure ((lo ++ mid ++ hi).take size)

/-- `NewKaratsubaMultiplier` (`fuel` bounds the recursion depth; the Go
recursion terminates for `limit ≥ 3`). -/
def karatsuba (gmw : Bool) (limit : Nat) : Nat → List Nat → List Nat → Nat → BM (Option (List Nat))
  | 0, _, _, _ => pure none
  | fuel + 1, a, b, nr => do
    let p ← zeroPad a b
    let a := p.1.take nr
    let b := p.2.take nr
    if a.length ≤ limit then (do let r ← arrayMultiplier a b nr; pure (some r)) else do
    let mid := a.length / 2
    let aLow := a.take mid
    let aHigh := a.drop mid
    let bLow := b.take mid
    let bHigh := b.drop mid
    let some z0 ← karatsuba gmw limit fuel aLow bLow (min (max aLow.length bLow.length * 2) nr) | pure none
    let aSumLen := max aLow.length aHigh.length + 1
    let aSum ← newAdder gmw aLow aHigh aSumLen
    let bSumLen := max bLow.length bHigh.length + 1
    let bSum ← newAdder gmw bLow bHigh bSumLen
    let some z1 ← karatsuba gmw limit fuel aSum bSum (min (max aSumLen bSumLen * 2) nr) | pure none
    let some z2 ← karatsuba gmw limit fuel aHigh bHigh (min (max aHigh.length bHigh.length * 2) nr) | pure none
    let sub1 ← newSubtractor gmw z1 z2 nr
    let sub2 ← newSubtractor gmw sub1 z0 nr
    let shift1 ← shiftLeft z2 nr (mid * 2)
    let shift2 ← shiftLeft sub2 nr mid
    let add1 ← newAdder gmw shift1 shift2 nr
    let r ← newAdder gmw add1 z0 nr
    pure (some r)

/-- `multiplierArrayTresholds` (circ_multiplier_params.go) for widths below
275 (the harness compares widths up to 130); default 21. -/
def multiplierArrayThreshold (n : Nat) : Nat :=
  if n = 16 then 9 else if n = 17 ∨ n = 18 then 10 else if n = 19 ∨ n = 20 then 11
  else if n = 21 then 12 else if 37 ≤ n ∧ n ≤ 39 then 19 else if n = 40 ∨ n = 41 then 12
  else if 71 ≤ n ∧ n ≤ 79 then 19 else if n = 80 ∨ n = 81 then 12
  else if 139 ≤ n ∧ n ≤ 159 then 19 else if 160 ≤ n ∧ n ≤ 162 then 12 else 21

/-! `NewWallaceMultiplier`, as structural recursion: partial products into
columns, rounds of 3:2 / 2:2 compression column by column, final Kogge-Stone
addition of the two remaining rows. -/

/-- Partial products of one multiplicand bit: `AND(a_i, b_j)` for all `j`. -/
def wlRow (ai : Nat) : List Nat → BM (List Nat)
  | [] => pure []
  | bj :: bs => do
    let w ← gate .and ai bj
    let r ← wlRow ai bs
    pure (w :: r)

/-- Append the entries of `ws` to the columns `i, i+1, …`. -/
def addAt {α : Type} : Nat → List (List α) → List α → List (List α)
  | 0, c :: cs, w :: ws => (c ++ [w]) :: addAt 0 cs ws
  | 0, cs, [] => cs
  | 0, [], _ :: _ => []
  | i + 1, c :: cs, ws => c :: addAt i cs ws
  | _ + 1, [], _ => []

/-- "1. Partial Product Generation": row `i` goes to the columns `i + j`. -/
def wlPP (b : List Nat) : List Nat → Nat → List (List Nat) → BM (List (List Nat))
  | [], _, cols => pure cols
  | ai :: as, i, cols => do
    let row ← wlRow ai b
    wlPP b as (i + 1) (addAt i cols row)

/-- One column of a reduction round: full adders on triples, a half adder on a
remaining pair, a remaining single wire is passed through.  Returns the wires
that stay in the column and the carries for the next column. -/
def wlReduceCol : List Nat → BM (List Nat × List Nat)
  | a :: b :: c :: rest => do
    let r ← fullAdder' a b c
    let t ← wlReduceCol rest
    pure (r.1 :: t.1, r.2 :: t.2)
  | [a, b] => do
    let r ← halfAdder a b
    pure ([r.1], [r.2])
  | [a] => pure ([a], [])
  | [] => pure ([], [])

/-- One reduction round over all columns; `cin` are the carries of the previous
column (they precede the column's own outputs).  The carries of the last column
are dropped. -/
def wlRound : List (List Nat) → List Nat → BM (List (List Nat))
  | [], _ => pure []
  | col :: rest, cin => do
    let r ← wlReduceCol col
    let t ← wlRound rest r.2
    pure ((cin ++ r.1) :: t)

/-- Maximal column height. -/
def maxH (cols : List (List Nat)) : Nat := cols.foldl (fun m c => max m c.length) 0

/-- "2. Wallace Tree Reduction": rounds until every column has at most two
wires (`fuel` bounds the number of rounds; the height shrinks every round). -/
def wlLoop : Nat → List (List Nat) → BM (List (List Nat))
  | 0, cols => pure cols
  | fuel + 1, cols =>
    if maxH cols ≤ 2 then pure cols else do
      let cols' ← wlRound cols []
      wlLoop fuel cols'

/-- "3. Prepare rows for final addition": first and second wire of every
column, the zero wire where missing. -/
def wlRows : List (List Nat) → BM (List Nat × List Nat)
  | [] => pure ([], [])
  | col :: rest => do
    let r1 ← (match col with
      | w :: _ => pure w
      | [] => zeroWire)
    let r2 ← (match col with
      | _ :: w :: _ => pure w
      | _ => zeroWire)
    let t ← wlRows rest
    pure (r1 :: t.1, r2 :: t.2)

/-- `NewWallaceMultiplier`. -/
def wallace (a b : List Nat) (nr : Nat) : BM (List Nat) := do
  let a ← pad a nr
  let b ← pad b nr
  let a := a.take nr
  let b := b.take nr
  let cols ← wlPP b a 0 (List.replicate (2 * nr) [])
  let cols ← wlLoop (2 * nr + 8) cols
  let rows ← wlRows (cols.take nr)
  ksAdder rows.1 rows.2 nr

/-- `NewMultiplier(c, arrayTreshold = 0, x, y, z)`. -/
def newMultiplier (gmw : Bool) (x y : List Nat) (nz : Nat) : BM (Option (List Nat)) :=
  if gmw then do
    let r ← wallace x y nz
    pure (some r)
  else karatsuba false (multiplierArrayThreshold x.length) (2 * (max x.length y.length) + 8) x y nz

/-! ### circ_divider.go -/

/-- Loop of `NewUDividerLong` over the dividend bits from the most significant
one (`as.length` is the index `i` of the head).  `r` is the running remainder
(`len(a)` wires), `nq` the number of quotient wires.  Returns the quotient bits
(little endian, positions `< nq`) and the final remainder wires. -/
def divLongLoop (gmw : Bool) (b : List Nat) (nq : Nat) : List Nat → List Nat → BM (List Nat × List Nat)
  | [], r => pure ([], r)
  | ai :: as, r => do
    -- r << 1, r[0] = a[i]
    let r1 := ai :: r.dropLast
    -- r - b with one extra bit: the borrow says r < b
    let diff ← newSubtractor gmw r1 b (r1.length + 1)
    let borrow := diff.getLastD 0
    let qbit ← (if as.length < nq then do
        let z ← zeroWire
        let o ← oneWire
        muxBits borrow [(z, o)]
      else pure [])
    let nr ← muxBits borrow (r1.zip diff.dropLast)
    let t ← divLongLoop gmw b nq as nr
    pure (t.1 ++ qbit, t.2)

/-- `NewUDividerLong(cc, a, b, q, rret)`; result bits above the operand width
are the zero wire.  Returns `(q, rret)`. -/
def uDividerLong (gmw : Bool) (a b : List Nat) (nq nr : Nat) : BM (List Nat × List Nat) := do
  let p ← zeroPad a b
  let r0 ← zeros p.1.length
  let t ← divLongLoop gmw p.2 nq p.1.reverse r0
  -- "set extra quotient / remainder bits to zero"
  let zq ← zeros (nq - p.1.length)
  let zr ← zeros (nr - p.1.length)
  pure (t.1 ++ zq, t.2.take nr ++ zr)

/-! ### circ_gmw_divider.go -/

/-- `muxResult(cc, cond, t, f, out)`: select into the first
`min(len out, len t)` result wires, zero-fill the rest. -/
def muxResult (cond : Nat) (t f : List Nat) (nout : Nat) : BM (List Nat) := do
  let k := min nout t.length
  let m ← muxBits cond ((t.take k).zip (f.take k))
  let z ← zeros (nout - k)
  pure (m ++ z)

/-- "4. Parallelized Correction Logic" of `NewUDividerGoldschmidtFast`: from the
quotient estimate `q` (with `len q = len a = len b = n`) compute `r = a - q·b`
on `n+2` bits (the product on `n+1` bits, fix c150b71), `q ± 1`, `r ± b`, and
select by the sign of `r` and of `r - b`. -/
def goldCorrection (a b q : List Nat) (nq nr : Nat) : BM (List Nat × List Nat) := do
  let n := a.length
  let qbLong ← wallace q b (2 * n)
  let qb := qbLong.take (n + 1)
  let r ← ksSubtractor a qb (n + 2)
  let o1 ← oneWire
  let qMinus1 ← ksSubtractor q [o1] n
  let o2 ← oneWire
  let qPlus1 ← ksAdder q [o2] n
  let rPlusB ← ksAdder (r.take n) b n
  let rMinusB ← ksSubtractor (r.take n) b (n + 1)
  let isNeg := r.getD (n + 1) 0
  let isGe ← inv (rMinusB.getD n 0)
  let qHigh ← muxBits isGe (qPlus1.zip q)
  let rHigh ← muxBits isGe ((rMinusB.take n).zip (r.take n))
  let qF ← muxResult isNeg qMinus1 qHigh nq
  let rF ← muxResult isNeg rPlusB rHigh nr
  pure (qF, rF)

/-- OLD DEFINITION, not the code: the correction step as it was before 776d360
(the product `q·b` truncated to `n` bits, `r` on `n+1` bits, sign read from
`r[n]`).  Kept only to state the old negation witness
(`C07_goldschmidt_correction_old_wrong`, driver op `corrstep`). -/
def goldCorrectionOld (a b q : List Nat) (nq nr : Nat) : BM (List Nat × List Nat) := do
  let n := a.length
  let qbLong ← wallace q b (2 * n)
  let qb := qbLong.take n
  let r ← ksSubtractor a qb (n + 1)
  let o1 ← oneWire
  let qMinus1 ← ksSubtractor q [o1] n
  let o2 ← oneWire
  let qPlus1 ← ksAdder q [o2] n
  let rPlusB ← ksAdder (r.take n) b n
  let rMinusB ← ksSubtractor (r.take n) b (n + 1)
  let isNeg := r.getD n 0
  let isGe ← inv (rMinusB.getD n 0)
  let qHigh ← muxBits isGe (qPlus1.zip q)
  let rHigh ← muxBits isGe ((rMinusB.take n).zip (r.take n))
  let qF ← muxResult isNeg qMinus1 qHigh nq
  let rF ← muxResult isNeg rPlusB rHigh nr
  pure (qF, rF)

/-- `bits.Len`. -/
def bitsLen (x : Nat) : Nat := if x = 0 then 0 else Nat.log2 x + 1

def iterationsForWidth (n : Nat) : Nat := if n ≤ 1 then 1 else bitsLen (n - 1) + 1

def iterationsForWidthWithSeed (n m : Nat) : Nat :=
  if n ≤ 1 then 1 else
    let correctBits := if m - 1 < 1 then 1 else m - 1
    let needed := (n + correctBits - 1) / correctBits
    if needed ≤ 1 then 2 else bitsLen (needed - 1) + 1

/-- `l[lo:hi]`. -/
def slice (l : List Nat) (lo hi : Nat) : List Nat := (l.drop lo).take (hi - lo)

/-- The quotient estimate of `NewUDividerGoldschmidtFast` (MSB detection, log
shifter, reciprocal ROM seed, Goldschmidt iterations): returns the `n` wires
`qCurr[n-1 : 2n-1]`.  Loop based; only the gate list is claimed (T4), the
quality of the estimate is a validated hypothesis. -/
def goldEstimate (a b : List Nat) : BM (List Nat) := do
  let n := a.length
  let av := a.toArray
  let bv := b.toArray
  let useROM := decide (n ≥ 4)
  let m := if 8 ≥ n then n - 1 else 8
  -- DetectMSB
  let mut msb : Array Nat := Array.replicate n 0
  let mut seen ← zeroWire
  for k in [0:n] do
    let i := n - 1 - k
    let notSeen ← inv seen
    let w ← gate .and bv[i]! notSeen
    msb := msb.set! i w
    let tmp ← or seen bv[i]!
    seen := tmp
  -- shift signals
  let shiftBits := bitsLen (n - 1)
  let mut sh : Array Nat := #[]
  for bIdx in [0:shiftBits] do
    let mut acc ← zeroWire
    for i in [0:n] do
      if ((n - 1 - i) >>> bIdx) % 2 = 1 then
        let tmp ← or acc msb[i]!
        acc := tmp
    sh := sh.push acc
  -- ApplyLogShifter
  let shifter := fun (inw : Array Nat) (width : Nat) => (do
    let mut cur := inw
    for bI in [0:sh.size] do
      let sa := 2 ^ bI
      let mut nxt : Array Nat := #[]
      for i in [0:width] do
        let shifted ← (if i ≥ sa then pure cur[i - sa]! else zeroWire)
        let w1 ← gate .xor cur[i]! shifted
        let w2 ← gate .and w1 sh[bI]!
        let o ← gate .xor w2 cur[i]!
        nxt := nxt.push o
      cur := nxt
    pure cur : BM (Array Nat))
  let bNorm ← shifter bv n
  let mut aPadded : Array Nat := #[]
  for i in [0:2 * n] do
    if i < n then aPadded := aPadded.push av[i]!
    else
      let z ← zeroWire
      aPadded := aPadded.push z
  let aNorm2n ← shifter aPadded (2 * n)
  let W := n + 1
  let z0 ← zeroWire
  let o0 ← oneWire
  let twoConst := List.replicate n z0 ++ [o0]
  let qWidth := 2 * n
  let mut bCurr : List Nat := []
  let mut qCurr : List Nat := []
  let mut iters := 0
  if useROM then
    -- NewReciprocalROM
    let numEntries := 2 ^ (m - 1)
    let mut table : Array (List Nat) := #[]
    for i in [0:numEntries] do
      let v := (numEntries * numEntries) / (numEntries + i)
      let mut ws : List Nat := []
      for k in [0:m] do
        let w ← (if (v >>> k) % 2 = 1 then oneWire else zeroWire)
        ws := ws ++ [w]
      table := table.push ws
    let mut cur := table
    for level in [0:m - 1] do
      let sel := bNorm[n - m + level]!
      let mut nxt : Array (List Nat) := #[]
      for pr in [0:cur.size / 2] do
        let o ← muxBits sel (cur[pr * 2 + 1]!.zip cur[pr * 2]!)
        nxt := nxt.push o
      cur := nxt
    let recip := cur[0]!
    let bNormW ← pad bNorm.toList W
    let bSeedProd ← wallace bNormW recip (W + m)
    bCurr := slice bSeedProd (m - 1) (m - 1 + W)
    let qSeedProd ← wallace aNorm2n.toList recip (qWidth + m)
    qCurr := slice qSeedProd (m - 1) (m - 1 + qWidth)
    iters := iterationsForWidthWithSeed n m
  else
    let bp ← pad bNorm.toList W
    bCurr := bp
    qCurr := aNorm2n.toList
    iters := iterationsForWidth n
  for _i in [0:iters] do
    let f ← ksSubtractor twoConst bCurr W
    let fN := f.take n
    let bProd ← wallace bCurr fN (2 * W)
    bCurr := slice bProd (n - 1) (n - 1 + W)
    let qProd ← wallace qCurr fN (qWidth + n)
    qCurr := slice qProd (n - 1) (n - 1 + qWidth)
  pure (slice qCurr (n - 1) (2 * n - 1))

/-- `NewUDividerGoldschmidtFast(cc, a, b, qFinal, rFinal)`. -/
def goldschmidt (a b : List Nat) (nq nr : Nat) : BM (List Nat × List Nat) := do
  let p ← zeroPad a b
  let q ← goldEstimate p.1 p.2
  goldCorrection p.1 p.2 q nq nr

/-- `NewUDivider`: Goldschmidt on the GMW target, long division otherwise. -/
def uDivider (gmw : Bool) (a b : List Nat) (nq nr : Nat) : BM (List Nat × List Nat) :=
  if gmw then goldschmidt a b nq nr else uDividerLong false a b nq nr

/-- `NewIDivider` after the operands have been brought to a common width:
magnitudes, unsigned division, sign of the quotient. -/
def iDividerCore (gmw : Bool) (a b : List Nat) (nq nr : Nat) : BM (List Nat × List Nat) := do
  let zero ← zeroWire
  let neg0 := zero
  -- if a is negative: neg = !neg, a = -a
  let neg1 ← inv neg0
  let a1 ← newSubtractor gmw [zero] a a.length
  let sa := a.getLastD 0
  let neg2 ← muxBits sa [(neg1, neg0)]
  let a2 ← muxBits sa (a1.zip a)
  let neg2w := neg2.getD 0 0
  -- if b is negative: neg = !neg, b = -b
  let neg3 ← inv neg2w
  let b1 ← newSubtractor gmw [zero] b b.length
  let sb := b.getLastD 0
  let neg4 ← muxBits sb [(neg3, neg2w)]
  let b2 ← muxBits sb (b1.zip b)
  if nq = 0 then
    uDivider gmw a2 b2 0 nr
  else do
    let d ← uDivider gmw a2 b2 nq nr
    let q1 ← newSubtractor gmw [zero] d.1 nq
    let q ← muxBits (neg4.getD 0 0) (q1.zip d.1)
    pure (q, d.2)

/-- `NewIDivider(cc, a, b, q, r)`: the operands are ZERO padded to the common
width (`cc.ZeroPad`), the magnitudes divided by `NewUDivider`. -/
def iDivider (gmw : Bool) (a b : List Nat) (nq nr : Nat) : BM (List Nat × List Nat) := do
  let p ← zeroPad a b
  iDividerCore gmw p.1 p.2 nq nr

/-- PROPOSED REPAIR, not the code: `NewIDivider` with the operands sign extended
(`cc.SignPad`, hooks/c07-idivider-signpad.patch), Yao target. -/
def iDividerSignPad (a b : List Nat) (nq nr : Nat) : BM (List Nat × List Nat) :=
  let p := signPad a b
  iDividerCore false p.1 p.2 nq nr

/-! ### Semantics -/

/-- Value list after the gates: the value of wire `w` is at index `w`. -/
def step (v : Array Bool) (g : Gate) : Array Bool :=
  v.push (g.op.eval (v.getD g.in0 false) (v.getD g.in1 false))

def evalGates (gs : List Gate) (v : Array Bool) : Array Bool := gs.foldl step v

/-- All wire values of the state's circuit on input bits `inp`. -/
def St.vals (s : St) (inp : List Bool) : Array Bool := evalGates s.gates.toList inp.toArray

/-- Value of wire `w`. -/
def St.val (s : St) (inp : List Bool) (w : Nat) : Bool := (s.vals inp).getD w false

/-- Little-endian bits to number. -/
def toNat : List Bool → Nat
  | [] => 0
  | b :: bs => b.toNat + 2 * toNat bs

/-- Two's complement value of a little-endian bit list. -/
def toInt (bs : List Bool) : Int :=
  if bs.getLastD false then (toNat bs : Int) - 2 ^ bs.length else toNat bs

/-- Bits of `x` (little endian, `n` of them). -/
def ofNat : Nat → Nat → List Bool
  | 0, _ => []
  | n + 1, x => (x % 2 == 1) :: ofNat n (x / 2)

/-! ### Whole-circuit drivers: what the harness builds -/

/-- `ret`: every result wire is passed through `cc.ID` to a fresh output
wire (compiler/ssa/circuitgen.go). -/
def retWires : List Nat → BM (List Nat)
  | [] => pure []
  | w :: ws => do
    let o ← idGate w
    let r ← retWires ws
    pure (o :: r)

/-- Initial state of the harness: inputs `x ‖ y ‖ w`; with `pro` the zero and
one wires are created first, as `ssa.Program.CompileCircuit` does. -/
def initSt (nIn : Nat) (pro : Bool) : St :=
  let s : St := { nIn := nIn }
  if pro then (oneWire (zeroWire s).2).2 else s

def inputWires (ofs n : Nat) : List Nat := (List.range n).map (· + ofs)

/-- Run a two-operand builder the way the harness does and return the final
state together with the output wires. -/
def runBuilder (b : List Nat → List Nat → BM (List Nat)) (pro : Bool) (nx ny : Nat) :
    St × List Nat :=
  let s0 := initSt (nx + ny) pro
  let r := b (inputWires 0 nx) (inputWires nx ny) s0
  let o := retWires r.1 r.2
  (o.2, o.1)

/-- Three-operand variant (`NewMUX`: condition `w`): inputs `x ‖ y ‖ w`. -/
def evalBuilder3 (b : List Nat → List Nat → List Nat → BM (List Nat)) (pro : Bool) (x y w : List Bool) :
    List Bool :=
  let s0 := initSt (x.length + y.length + w.length) pro
  let r := b (inputWires 0 x.length) (inputWires x.length y.length)
    (inputWires (x.length + y.length) w.length) s0
  let o := retWires r.1 r.2
  o.1.map (o.2.val (x ++ y ++ w))

/-- Output bits of a built circuit on the operand bits `x ‖ y`. -/
def evalBuilder (b : List Nat → List Nat → BM (List Nat)) (pro : Bool) (x y : List Bool) : List Bool :=
  let r := runBuilder b pro x.length y.length
  r.2.map (r.1.val (x ++ y))

end Mpc.Bld

/-
Carry-less multiplication: model of /repo/ot/mul128_generic.go (`clmul64`,
`mul128Generic`), /repo/ot/mul128.go + mul128_amd64.{go,s} (`mul128`; the
assembly computes the same product with three PCLMULQDQ, modelled here as
`mul128Karatsuba`) and /repo/ot/gf128.go (`vectorInnPrdtSumNoRed`).
Core Lean only.

A label is `BitVec 128` with Go's `D0` the HIGH and `D1` the LOW 64 bits (as in
Model/Iknp.lean and Model/LabelBV.lean).  In `mul128` the polynomial
coefficient of `X^j` of a label is Go's `Label.Bit(j)`: bit `j` of `D0` for
`j < 64`, bit `j - 64` of `D1` otherwise, i.e. `Iknp.labelBit l j`.
-/
import MpcVerif.Model.Iknp
namespace Mpc.Clmul
open Mpc.Iknp (Label labelBit)

abbrev W64 := BitVec 64

/-- One iteration `i` of the loop of `clmul64`:
`if (b>>i)&1 != 0 { if i == 0 { lo ^= a } else { lo ^= a << i; hi ^= a >> (64 - i) } }`. -/
def clmulStep (a b : W64) (s : W64 × W64) (i : Nat) : W64 × W64 :=
  if b.getLsbD i then
    if i = 0 then (s.1 ^^^ a, s.2)
    else (s.1 ^^^ (a <<< i), s.2 ^^^ (a >>> (64 - i)))
  else s

/-- The state `(lo, hi)` of `clmul64` after the iterations `0 .. cnt-1`. -/
def clmulLoop (a b : W64) : Nat → W64 × W64
  | 0 => (0#64, 0#64)
  | i + 1 => clmulStep a b (clmulLoop a b i) i

/-- `clmul64(a, b) (lo, hi)`: `for i := 0; i < 64; i++`. -/
def clmul64 (a b : W64) : W64 × W64 := clmulLoop a b 64

/-- `l.D0`. -/
def d0 (l : Label) : W64 := l.extractLsb' 64 64
/-- `l.D1`. -/
def d1 (l : Label) : W64 := l.extractLsb' 0 64
/-- `Label{D0: x, D1: y}`. -/
def ofD (x y : W64) : Label := x ++ y

/-- The unreduced 256-bit product `(lo, hi)`. -/
abbrev P := Label × Label

/-- `mul128Generic(a, b) (lo, hi)`. -/
def mul128Generic (a b : Label) : P :=
  let a0 := d0 a; let a1 := d1 a
  let b0 := d0 b; let b1 := d1 b
  let p00 := clmul64 a0 b0
  let p01 := clmul64 a0 b1
  let p10 := clmul64 a1 b0
  let p11 := clmul64 a1 b1
  let midLo := p01.1 ^^^ p10.1
  let midHi := p01.2 ^^^ p10.2
  (ofD p00.1 (p00.2 ^^^ midLo), ofD (midHi ^^^ p11.1) p11.2)

/-- The algorithm of `mul128CLMUL` (mul128_amd64.s): `PSHUFB` with the mask
`00 01 .. 0f` is the identity; `z0 = a0*b0`, `z2 = a1*b1`,
`z1 = (a0^a1)*(b0^b1) ^ z0 ^ z2` (each `PCLMULQDQ` a 64x64 carry-less product,
128-bit register = `(low lane, high lane)`), `lo = z0 ^ (z1 << 64)`,
`hi = z2 ^ (z1 >> 64)` (`PSLLDQ/PSRLDQ $8`).  Low lane = `D0`. -/
def mul128Karatsuba (a b : Label) : P :=
  let a0 := d0 a; let a1 := d1 a
  let b0 := d0 b; let b1 := d1 b
  let z0 := clmul64 a0 b0
  let z2 := clmul64 a1 b1
  let zm := clmul64 (a0 ^^^ a1) (b0 ^^^ b1)
  let z1 : W64 × W64 := (zm.1 ^^^ z0.1 ^^^ z2.1, zm.2 ^^^ z0.2 ^^^ z2.2)
  (ofD z0.1 (z0.2 ^^^ z1.1), ofD (z2.1 ^^^ z1.2) z2.2)

/-- `mul128(a, b)`: `mul128Generic` (build tag `!amd64 || !gc`) or the CLMUL
assembly (`amd64 && gc`); both compute `mul128Generic` (the assembly: theorem
`mul128Karatsuba_eq` for its algorithm, the correspondence run for its bytes). -/
def mul128 (a b : Label) : P := mul128Generic a b

/-- `r1.Xor(lo); r2.Xor(hi)` on a pair of labels. -/
def pxor (p q : P) : P := (p.1 ^^^ q.1, p.2 ^^^ q.2)

def pzero : P := (0#128, 0#128)

/-- `for i := 0; i < n; i++ { acc ^= f(i) }` on pairs. -/
def psum : Nat → (Nat → P) → P
  | 0, _ => pzero
  | i + 1, f => pxor (psum i f) (f i)

/-- The same on single labels. -/
def lsum : Nat → (Nat → Label) → Label
  | 0, _ => 0#128
  | i + 1, f => lsum i f ^^^ f i

def lget (a : Array Label) (i : Nat) : Label := a.getD i 0#128

/-- `vectorInnPrdtSumNoRed(a, b)`: `n = min(len(a), len(b))`, XOR of the
unreduced products `mul128(a[i], b[i])`. -/
def innerNoRed (a b : Array Label) : P :=
  psum (min a.size b.size) fun i => mul128 (lget a i) (lget b i)

end Mpc.Clmul

/-
Model/GmwMsgs.lean - the message transcript of the online phase of one `Run`
(gmw/network.go `Network.run`, gmw/peer.go `shareInput`, `SendBitvec2`,
`Network.sendOutput`; p2p/protocol.go `SendData` = 4-byte length + bytes,
`SendUint32` = 4 bytes, `SendLabel` = 16 bytes).  Core Lean only.  Used by
property C10 only (degenerate session shapes: arguments of 0 bits, circuits
without AND gates / gates / outputs).
-/
namespace Mpc.Gmw

/-- One message of the online phase on the connection `src → dst`: `bytes` =
what `p2p.Conn` writes for it (length prefix included). -/
structure Msg where
  src   : Nat
  dst   : Nat
  phase : Nat
  bytes : Nat
  deriving DecidableEq, Repr

/-- `for _, peer := range nw.peers { if peer.id == self.id { continue } ... }` -/
def peersOf (n p : Nat) : List Nat := (List.range n).filter (· != p)

/-- One round of `Network.run`: every party sends ONE message to every peer
(and posts one receive for every peer). -/
def round (n phase : Nat) (bytes : Nat → Nat) : List Msg :=
  (List.range n).flatMap fun p => (peersOf n p).map fun q => ⟨p, q, phase, bytes p⟩

/-- `shareInput`: `SendData(randBuf)`, `len(randBuf) = (Bits+7)/8`: a 4-byte
length and the share - for an argument of 0 bits the 4-byte length alone. -/
def inputBytes (sizes : List Nat) (p : Nat) : Nat := 4 + (sizes.getD p 0 + 7) / 8

def inputMsgs (sizes : List Nat) : List Msg := round sizes.length 0 (inputBytes sizes)

/-- `andBatchFlush`: `nw.andD / andE` keep the length of the largest batch so
far (`expandClear`); `SendBitvec2` = length + two vectors, two words a label. -/
def openBytes (len : Nat) : Nat := 4 + 32 * ((len + 1) / 2)

def openMsgs (n : Nat) : Nat → Nat → List Nat → List Msg
  | _, _, [] => []
  | k, len, w :: ws => round n (k + 1) (fun _ => openBytes (max len w)) ++ openMsgs n (k + 1) (max len w) ws

/-- The messages of one first `Run` on a connected network: input shares, one
opening per non-empty AND batch (`batchWords` in level order), output shares
(`outLen p` = `len(nw.output.Bytes())` of party `p`'s output share). -/
def transcript (sizes : List Nat) (batchWords : List Nat) (outLen : Nat → Nat) : List Msg :=
  inputMsgs sizes ++ openMsgs sizes.length 0 0 batchWords ++
    round sizes.length (batchWords.length + 1) (fun p => 4 + outLen p)

/-- `Stats().Sent` of party `p`'s online connections over the run. -/
def sentBytes (t : List Msg) (p : Nat) : Nat := ((t.filter fun m => m.src == p).map (·.bytes)).sum

end Mpc.Gmw


/-
Executable model of the connection layer `p2p.Conn` (/repo/p2p/protocol.go,
/repo/p2p/pipe.go).  Core Lean only.

Go `Conn` has two disjoint halves that share no field:

* the send half  `WriteBuf/WritePos/toWriter/fromWriter/Stats.Sent/Stats.Flushed`
  (model: `Sender`) — typed sends into a 64 KiB write buffer with auto-flush,
  a writer goroutine fed through a channel of buffers;
* the receive half `ReadBuf/ReadStart/ReadEnd/Stats.Recvd` (model: `Recv`) —
  typed receives from a read window that `Fill` compacts and refills from a
  transport which fragments reads arbitrarily.

Bytes are `ByteArray` so that the very same definitions run on multi-megabyte
payloads in the driver (`Driver/C11.lean`) and are the subject of the theorems
(`Props/C11.lean`).
-/

namespace Mpc.Conn

/-- `writeBufSize` in protocol.go -/
def writeBufSize : Nat := 65536
/-- `readBufSize` in protocol.go -/
def readBufSize : Nat := 1048576
/-- `numBuffers` in protocol.go -/
def numBuffers : Nat := 3

/-! ## Wire encoding (the specification side) -/

/-- `k` big-endian bytes of `n` (low `8k` bits; Go: `byte((uint32(val) >> s) & 0xff)`). -/
def beList : Nat → Nat → List UInt8
  | 0, _ => []
  | k + 1, n => beList k (n / 256) ++ [UInt8.ofNat (n % 256)]

def be (k n : Nat) : ByteArray := (beList k n).toByteArray

/-- big-endian value of a byte list (Go: `val <<= 8; val |= uint32(b)`). -/
def decodeList (l : List UInt8) : Nat := l.foldl (fun a x => a * 256 + x.toNat) 0

def decodeBE (b : ByteArray) : Nat := decodeList b.data.toList

/-- The typed values of the protocol.  `str` is a string (Go: `SendString` is
`SendData([]byte(s))`), `label` an `ot.Label` as a 128-bit number
(`D0·2^64 + D1`, sent as 16 big-endian bytes by `Label.Bytes`). -/
inductive Val where
  | byte (b : UInt8)
  | u16 (n : Nat)
  | u32 (n : Nat)
  | data (d : ByteArray)
  | str (d : ByteArray)
  | label (n : Nat)
  | sizes (l : List Nat)
  deriving DecidableEq, Inhabited

inductive Kind where
  | byte | u16 | u32 | data | str | label | sizes
  deriving DecidableEq, Inhabited, Repr

def Val.kind : Val → Kind
  | .byte _ => .byte | .u16 _ => .u16 | .u32 _ => .u32 | .data _ => .data
  | .str _ => .str | .label _ => .label | .sizes _ => .sizes

/-- Domain of the typed API: outside it the Go code silently truncates
(`uint32(val)`, `SendUint16` keeps 16 bits) and the theorems say nothing. -/
def Val.Valid : Val → Prop
  | .byte _ => True
  | .u16 n => n < 2 ^ 16
  | .u32 n => n < 2 ^ 32
  | .data d => d.size < 2 ^ 32
  | .str d => d.size < 2 ^ 32
  | .label n => n < 2 ^ 128
  | .sizes l => l.length < 2 ^ 32 ∧ ∀ x ∈ l, x < 2 ^ 32

def encSizes : List Nat → ByteArray
  | [] => ByteArray.empty
  | x :: xs => be 4 x ++ encSizes xs

/-- Wire format of one value. -/
def Val.encode : Val → ByteArray
  | .byte b => [b].toByteArray
  | .u16 n => be 2 n
  | .u32 n => be 4 n
  | .data d => be 4 d.size ++ d
  | .str d => be 4 d.size ++ d
  | .label n => be 16 n
  | .sizes l => be 4 l.length ++ encSizes l

def encodeVals : List Val → ByteArray
  | [] => ByteArray.empty
  | v :: vs => v.encode ++ encodeVals vs

/-- Concatenation of a chunk list. -/
def joinB : List ByteArray → ByteArray
  | [] => ByteArray.empty
  | c :: cs => c ++ joinB cs

/-! ## Send half -/

/-- Sender-side operations: typed sends, `Flush`, `NeedSpace n`. -/
inductive Op where
  | send (v : Val)
  | flush
  | needSpace (n : Nat)
  deriving Inhabited

def Op.encode : Op → ByteArray
  | .send v => v.encode
  | _ => ByteArray.empty

def encodeAll : List Op → ByteArray
  | [] => ByteArray.empty
  | o :: os => o.encode ++ encodeAll os

def opsVals : List Op → List Val
  | [] => []
  | .send v :: os => v :: opsVals os
  | _ :: os => opsVals os

/-- State of the send half.
`cur` = `WriteBuf[0:WritePos]`; `queue` = buffers handed to the writer
goroutine through `toWriter` and not yet written (oldest first; Go channels are
FIFO); `wire` = the argument of every completed `conn.Write`, in order;
`sent`, `flushed` = `Stats.Sent`, `Stats.Flushed`. -/
structure Sender where
  cur : ByteArray := ByteArray.empty
  queue : List ByteArray := []
  wire : List ByteArray := []
  sent : Nat := 0
  flushed : Nat := 0
  deriving Inhabited

def Sender.init : Sender := {}

/-- One iteration of `for buf := range c.toWriter { c.conn.Write(buf); … }`. -/
def Sender.writerStep (s : Sender) : Sender :=
  match s.queue with
  | [] => s
  | h :: t => { s with queue := t, wire := s.wire ++ [h] }

def Sender.writerSteps : Nat → Sender → Sender
  | 0, s => s
  | k + 1, s => writerSteps k s.writerStep

/-- `Conn.Flush`.  `k` is the number of writer-goroutine iterations the
scheduler lets happen while `Flush` runs; `next := <-c.fromWriter` blocks while
all `numBuffers` buffers are queued, which forces at least
`queue.length + 1 - numBuffers` of them. -/
def Sender.flush (k : Nat) (s : Sender) : Sender :=
  if s.cur.size = 0 then s else
    let s1 : Sender := { s with sent := s.sent + s.cur.size, queue := s.queue ++ [s.cur],
                                cur := ByteArray.empty }
    let s2 := s1.writerSteps (max k (s1.queue.length + 1 - numBuffers))
    { s2 with flushed := s2.flushed + 1 }

/-- A writer schedule: how many writer iterations happen during the `i`-th
successful flush (indexed by `Stats.Flushed`).  Every schedule is allowed. -/
abbrev Sched := Nat → Nat

def Sender.flushS (sch : Sched) (s : Sender) : Sender := s.flush (sch s.flushed)

/-- `if c.WritePos+n > len(c.WriteBuf) { c.Flush() }` — `NeedSpace` and the
prologue of `SendByte/SendUint16/SendUint32/SendLabel`. -/
def Sender.reserve (sch : Sched) (n : Nat) (s : Sender) : Sender :=
  if s.cur.size + n > writeBufSize then s.flushS sch else s

/-- copy into `WriteBuf[WritePos:]`, advance `WritePos`. -/
def Sender.put (b : ByteArray) (s : Sender) : Sender := { s with cur := s.cur ++ b }

def Sender.sendByte (sch : Sched) (v : UInt8) (s : Sender) : Sender :=
  (s.reserve sch 1).put [v].toByteArray

def Sender.sendU16 (sch : Sched) (n : Nat) (s : Sender) : Sender :=
  (s.reserve sch 2).put (be 2 n)

def Sender.sendU32 (sch : Sched) (n : Nat) (s : Sender) : Sender :=
  (s.reserve sch 4).put (be 4 n)

def Sender.sendLabel (sch : Sched) (n : Nat) (s : Sender) : Sender :=
  (s.reserve sch 16).put (be 16 n)

/-- The copy loop of `SendData`: `for len(val) > 0 { if WritePos >= len(WriteBuf)
{Flush}; n := copy(WriteBuf[WritePos:], val); WritePos += n; val = val[n:] }`.
`off` = bytes of `val` already copied.  The `n = 0` exit is unreachable (after
the conditional flush there is room); Go would spin there. -/
def Sender.sendDataLoop (sch : Sched) (val : ByteArray) (off : Nat) (s : Sender) : Sender :=
  if _h : off < val.size then
    let s := if s.cur.size ≥ writeBufSize then s.flushS sch else s
    let n := min (writeBufSize - s.cur.size) (val.size - off)
    if _hn : n = 0 then s else
      sendDataLoop sch val (off + n) (s.put (val.extract off (off + n)))
  else s
termination_by val.size - off
decreasing_by simp only [n, s] at _hn; omega

def Sender.sendData (sch : Sched) (val : ByteArray) (s : Sender) : Sender :=
  (s.sendU32 sch val.size).sendDataLoop sch val 0

def Sender.sendSizes (sch : Sched) (l : List Nat) (s : Sender) : Sender :=
  l.foldl (fun s x => s.sendU32 sch x) (s.sendU32 sch l.length)

def Sender.sendVal (sch : Sched) (s : Sender) : Val → Sender
  | .byte b => s.sendByte sch b
  | .u16 n => s.sendU16 sch n
  | .u32 n => s.sendU32 sch n
  | .data d => s.sendData sch d
  | .str d => s.sendData sch d
  | .label n => s.sendLabel sch n
  | .sizes l => s.sendSizes sch l

def Sender.step (sch : Sched) (s : Sender) : Op → Sender
  | .send v => s.sendVal sch v
  | .flush => s.flushS sch
  | .needSpace n => s.reserve sch n

def Sender.run (sch : Sched) (ops : List Op) (s : Sender) : Sender :=
  ops.foldl (Sender.step sch) s

/-- `Conn.Close`: `Flush`, `close(toWriter)`, then `for range fromWriter` waits
until the writer goroutine has written every queued buffer and exited. -/
def Sender.close (sch : Sched) (s : Sender) : Sender :=
  let s := s.flushS sch
  s.writerSteps s.queue.length

/-- All chunks handed over so far, in order. -/
def Sender.chunks (s : Sender) : List ByteArray := s.wire ++ s.queue

/-- Everything accepted by the send half so far, in order. -/
def Sender.stream (s : Sender) : ByteArray := joinB s.chunks ++ s.cur

/-! ## Physical buffer ring (send half, with aliasing) -/

/-- Send half with the `numBuffers` physical write buffers made explicit.
`getB mem i` = the bytes written into physical buffer `i` since it was last handed
to the sender (`WriteBuf[0:WritePos]` for the current one); `cur` = the buffer
`c.WriteBuf` aliases; `toW` = the `toWriter` channel: slice headers
(buffer, length) - the bytes are read from `mem` only when the writer
goroutine calls `conn.Write`; `fromW` = the `fromWriter` channel; `wids` = which physical buffer each
completed `conn.Write` was given (compared with the Go code's buffer
identities by the driver). -/
structure Ring where
  mem : Array ByteArray := Array.replicate numBuffers ByteArray.empty
  cur : Nat := 0
  toW : List (Nat × Nat) := []
  fromW : List Nat := [1, 2]
  wire : List ByteArray := []
  wids : List Nat := []
  sent : Nat := 0
  flushed : Nat := 0

def Ring.init : Ring := {}

/-- content of physical buffer `i` -/
def getB (m : Array ByteArray) (i : Nat) : ByteArray := m.getD i ByteArray.empty

/-- overwrite physical buffer `i` -/
def upd (m : Array ByteArray) (i : Nat) (v : ByteArray) : Array ByteArray := m.setIfInBounds i v

/-- `_, err := c.conn.Write(buf); c.fromWriter <- buf[0:cap(buf)]` -/
def Ring.writerStep (r : Ring) : Ring :=
  match r.toW with
  | [] => r
  | (i, len) :: t => { r with toW := t, wire := r.wire ++ [(getB r.mem i).extract 0 len],
                              wids := r.wids ++ [i], fromW := r.fromW ++ [i] }

def Ring.writerSteps : Nat → Ring → Ring
  | 0, r => r
  | k + 1, r => writerSteps k r.writerStep

/-- `Conn.Flush` on the ring: queue the slice `WriteBuf[0:WritePos]`, take the
next free buffer from `fromWriter` (blocks while that channel is empty, i.e.
until the writer goroutine has returned one), `WritePos = 0`. -/
def Ring.flush (k : Nat) (r : Ring) : Ring :=
  if (getB r.mem r.cur).size = 0 then r else
    let r1 : Ring := { r with sent := r.sent + (getB r.mem r.cur).size,
                              toW := r.toW ++ [(r.cur, (getB r.mem r.cur).size)] }
    let r2 := r1.writerSteps (max k (if r1.fromW.isEmpty then 1 else 0))
    match r2.fromW with
    | [] => r2   -- unreachable: a writer step always returns a buffer
    | i :: t => { r2 with fromW := t, cur := i, mem := upd r2.mem i ByteArray.empty,
                          flushed := r2.flushed + 1 }

def Ring.flushS (sch : Sched) (r : Ring) : Ring := r.flush (sch r.flushed)

def Ring.put (b : ByteArray) (r : Ring) : Ring :=
  { r with mem := upd r.mem r.cur (getB r.mem r.cur ++ b) }

def Ring.reserve (sch : Sched) (n : Nat) (r : Ring) : Ring :=
  if (getB r.mem r.cur).size + n > writeBufSize then r.flushS sch else r

def Ring.sendDataLoop (sch : Sched) (val : ByteArray) (off : Nat) (r : Ring) : Ring :=
  if _h : off < val.size then
    let r := if (getB r.mem r.cur).size ≥ writeBufSize then r.flushS sch else r
    let n := min (writeBufSize - (getB r.mem r.cur).size) (val.size - off)
    if _hn : n = 0 then r else
      sendDataLoop sch val (off + n) (r.put (val.extract off (off + n)))
  else r
termination_by val.size - off
decreasing_by simp only [n, r] at _hn; omega

def Ring.sendBE (sch : Sched) (k n : Nat) (r : Ring) : Ring := (r.reserve sch k).put (be k n)

def Ring.sendVal (sch : Sched) (r : Ring) : Val → Ring
  | .byte b => (r.reserve sch 1).put [b].toByteArray
  | .u16 n => r.sendBE sch 2 n
  | .u32 n => r.sendBE sch 4 n
  | .data d => (r.sendBE sch 4 d.size).sendDataLoop sch d 0
  | .str d => (r.sendBE sch 4 d.size).sendDataLoop sch d 0
  | .label n => r.sendBE sch 16 n
  | .sizes l => l.foldl (fun r x => r.sendBE sch 4 x) (r.sendBE sch 4 l.length)

def Ring.step (sch : Sched) (r : Ring) : Op → Ring
  | .send v => r.sendVal sch v
  | .flush => r.flushS sch
  | .needSpace n => r.reserve sch n

def Ring.run (sch : Sched) (ops : List Op) (r : Ring) : Ring := ops.foldl (Ring.step sch) r

/-- What the ring state means as a value-level sender state. -/
def Ring.abs (r : Ring) : Sender :=
  { cur := getB r.mem r.cur, queue := r.toW.map (fun p => (getB r.mem p.1).extract 0 p.2),
    wire := r.wire, sent := r.sent, flushed := r.flushed }

/-- `Conn.Close` on the ring. -/
def Ring.close (sch : Sched) (r : Ring) : Ring :=
  let r := r.flushS sch
  r.writerSteps r.toW.length

/-! ## Receive half -/

inductive Err where
  | eof       -- transport returned io.EOF
  | bufFull   -- Fill(n) with n > readBufSize (Go: Read into an empty slice, spins)
  | stuck     -- unreachable exits of totalised loops
  deriving DecidableEq, Inhabited, Repr

/-- A fragmentation oracle: the size the transport is willing to return on its
`i`-th `Read` call (clamped to `1 .. min(len(p), bytes remaining)`). -/
abbrev Frag := Nat → Nat

def mix64 (h : UInt64) (a b : Nat) : UInt64 :=
  let h := (h ^^^ UInt64.ofNat a) * 0x100000001b3
  (h ^^^ UInt64.ofNat b) * 0x100000001b3

/-- State of the receive half plus the transport's read side.
`buf` = `ReadBuf[0:ReadEnd]`, `rs` = `ReadStart` (so `ReadEnd = buf.size`);
`pend`/`pos` = the byte stream the transport delivers and how much of it has
been read; `nread` = number of `Read` calls; `recvd` = `Stats.Recvd`;
`rlog` = running digest of `(len(p), n)` of every `Read` (only used to compare
the exact read pattern with the Go code). -/
structure Recv where
  buf : ByteArray := ByteArray.empty
  rs : Nat := 0
  pend : ByteArray := ByteArray.empty
  pos : Nat := 0
  nread : Nat := 0
  recvd : Nat := 0
  rlog : UInt64 := 0xcbf29ce484222325
  deriving Inhabited

def Recv.init (stream : ByteArray) : Recv := { pend := stream }

/-- `ReadBuf[ReadStart:ReadEnd]` -/
def Recv.window (r : Recv) : ByteArray := r.buf.extract r.rs r.buf.size
/-- bytes the transport has not delivered yet -/
def Recv.pending (r : Recv) : ByteArray := r.pend.extract r.pos r.pend.size
/-- everything not yet consumed by a typed receive -/
def Recv.unread (r : Recv) : ByteArray := r.window ++ r.pending

/-- The `for c.ReadStart+n > c.ReadEnd { got, err := c.conn.Read(c.ReadBuf[c.ReadEnd:]); … }`
loop of `Fill`. -/
def Recv.fillLoop (frag : Frag) (n : Nat) (r : Recv) : Except Err Recv :=
  if r.rs + n > r.buf.size then
    let cap := readBufSize - r.buf.size
    let rem := r.pend.size - r.pos
    if _hr : rem = 0 then .error .eof
    else if _hc : cap = 0 then .error .bufFull
    else
      let got := min (max 1 (frag r.nread)) (min cap rem)
      fillLoop frag n { r with buf := r.buf ++ r.pend.extract r.pos (r.pos + got),
                               pos := r.pos + got, nread := r.nread + 1,
                               recvd := r.recvd + got, rlog := mix64 r.rlog cap got }
  else .ok r
termination_by r.pend.size - r.pos
decreasing_by omega

/-- `Conn.Fill`: compact the window to the start of the buffer, then read
until `n` bytes are available. -/
def Recv.fill (frag : Frag) (n : Nat) (r : Recv) : Except Err Recv :=
  let r := if r.rs < r.buf.size then { r with buf := r.buf.extract r.rs r.buf.size, rs := 0 }
           else { r with buf := ByteArray.empty, rs := 0 }
  r.fillLoop frag n

/-- `if c.ReadStart+n > c.ReadEnd { c.Fill(n) }` -/
def Recv.ensure (frag : Frag) (n : Nat) (r : Recv) : Except Err Recv :=
  if r.rs + n > r.buf.size then r.fill frag n else .ok r

/-- the `n` bytes at `ReadStart`; `ReadStart += n`. -/
def Recv.take (n : Nat) (r : Recv) : ByteArray × Recv :=
  (r.buf.extract r.rs (r.rs + n), { r with rs := r.rs + n })

def Recv.recvByte (frag : Frag) (r : Recv) : Except Err (UInt8 × Recv) :=
  match r.ensure frag 1 with
  | .error e => .error e
  | .ok r => .ok (r.buf[r.rs]!, { r with rs := r.rs + 1 })

/-- `ReceiveUint16/ReceiveUint32/ReceiveLabel`: `k` big-endian bytes. -/
def Recv.recvBE (frag : Frag) (k : Nat) (r : Recv) : Except Err (Nat × Recv) :=
  match r.ensure frag k with
  | .error e => .error e
  | .ok r => let (b, r) := r.take k; .ok (decodeBE b, r)

/-- The copy loop of `ReceiveData` (`result` preallocated in Go, grown here). -/
def Recv.recvDataLoop (frag : Frag) (len : Nat) (read : Nat) (acc : ByteArray) (r : Recv) :
    Except Err (ByteArray × Recv) :=
  if _h : read < len then
    match (if r.rs ≥ r.buf.size then r.fill frag (min (len - read) readBufSize) else .ok r) with
    | .error e => .error e
    | .ok r =>
      let avail := min (r.buf.size - r.rs) (len - read)
      if _ha : avail = 0 then .error .stuck else
        recvDataLoop frag len (read + avail) (acc ++ r.buf.extract r.rs (r.rs + avail))
          { r with rs := r.rs + avail }
  else .ok (acc, r)
termination_by len - read
decreasing_by omega

def Recv.recvData (frag : Frag) (r : Recv) : Except Err (ByteArray × Recv) :=
  match r.recvBE frag 4 with
  | .error e => .error e
  | .ok (len, r) => r.recvDataLoop frag len 0 ByteArray.empty

/-- the `for i := 0; i < count; i++ { ReceiveUint32 }` loop of `ReceiveInputSizes`. -/
def Recv.recvSizesLoop (frag : Frag) : Nat → Recv → Except Err (List Nat × Recv)
  | 0, r => .ok ([], r)
  | k + 1, r =>
    match r.recvBE frag 4 with
    | .error e => .error e
    | .ok (v, r) =>
      match recvSizesLoop frag k r with
      | .error e => .error e
      | .ok (vs, r) => .ok (v :: vs, r)

def Recv.recvSizes (frag : Frag) (r : Recv) : Except Err (List Nat × Recv) :=
  match r.recvBE frag 4 with
  | .error e => .error e
  | .ok (count, r) => r.recvSizesLoop frag count

def Recv.recvVal (frag : Frag) (r : Recv) : Kind → Except Err (Val × Recv)
  | .byte => match r.recvByte frag with
    | .error e => .error e | .ok (b, r) => .ok (.byte b, r)
  | .u16 => match r.recvBE frag 2 with
    | .error e => .error e | .ok (n, r) => .ok (.u16 n, r)
  | .u32 => match r.recvBE frag 4 with
    | .error e => .error e | .ok (n, r) => .ok (.u32 n, r)
  | .data => match r.recvData frag with
    | .error e => .error e | .ok (d, r) => .ok (.data d, r)
  | .str => match r.recvData frag with
    | .error e => .error e | .ok (d, r) => .ok (.str d, r)
  | .label => match r.recvBE frag 16 with
    | .error e => .error e | .ok (n, r) => .ok (.label n, r)
  | .sizes => match r.recvSizes frag with
    | .error e => .error e | .ok (l, r) => .ok (.sizes l, r)

/-- A sequence of typed receives.  Returns the values received, the state
after the last successful receive, and the error that stopped it (if any). -/
def Recv.recvAll (frag : Frag) : List Kind → Recv → List Val × Recv × Option Err
  | [], r => ([], r, none)
  | k :: ks, r =>
    match r.recvVal frag k with
    | .error e => ([], r, some e)
    | .ok (v, r) =>
      let (vs, r', e) := recvAll frag ks r
      (v :: vs, r', e)

/-! ## Send half with transport faults (writer goroutine error path)

`writer()`:  `if c.writerErr == nil { _, err := c.conn.Write(buf); if err != nil
{ c.writerErr = err } }; c.fromWriter <- buf[0:cap(buf)]` - the goroutine keeps
taking buffers after an error but does not write them any more (f07ee15).  `Flush()`: `Sent += WritePos; toWriter <- buf;
next := <-fromWriter; if c.writerErr != nil { return c.writerErr }` - on that
path `WriteBuf`/`WritePos` are left unchanged and `next` is dropped.
`Close()`: `if err := c.Flush(); err != nil { return err }` (no drain, the
transport is not closed), otherwise drain and `return c.writerErr`. -/

/-- Outcome of the `i`-th `conn.Write`: `none` = every byte written, `nil`
error; `some k` = an error after `min k len` bytes were written (io.Writer
contract: a short write returns a non-nil error). -/
abbrev Fault := Nat → Option Nat

/-- State of the send half with faults.  `handed` (ghost) = every buffer the
writer goroutine took from `toWriter`, in order; `wire` = the bytes each
`conn.Write` actually wrote; `free` = buffers in `fromWriter`; `werr` =
`c.writerErr != nil`. -/
structure FSender where
  cur : ByteArray := ByteArray.empty
  queue : List ByteArray := []
  handed : List ByteArray := []
  wire : List ByteArray := []
  free : Nat := numBuffers - 1
  sent : Nat := 0
  flushed : Nat := 0
  werr : Bool := false
  deriving Inhabited

def FSender.init : FSender := {}

/-- One iteration of the writer goroutine (since /repo f07ee15):
`for buf := range c.toWriter { if c.writerErr == nil { _, err := c.conn.Write(buf);
if err != nil { c.writerErr = err } }; c.fromWriter <- buf[0:cap(buf)] }` -
after a failed `Write` later buffers are taken and returned but not written.
The fault oracle is indexed by the number of `Write` calls made so far. -/
def FSender.writerStep (fault : Fault) (s : FSender) : FSender :=
  match s.queue with
  | [] => s
  | h :: t =>
    if s.werr then { s with queue := t, handed := s.handed ++ [h], free := s.free + 1 }
    else
      match fault s.wire.length with
      | none => { s with queue := t, handed := s.handed ++ [h], wire := s.wire ++ [h], free := s.free + 1 }
      | some k => { s with queue := t, handed := s.handed ++ [h], wire := s.wire ++ [h.extract 0 k],
                           free := s.free + 1, werr := true }

/-- The writer iteration as it was before f07ee15 (`_, err := c.conn.Write(buf);
if err != nil { c.writerErr = err }` unconditionally): it kept writing after a
failed `Write`.  Only used by the witness `C11_old_writer_gap_witness`. -/
def FSender.writerStepOld (fault : Fault) (s : FSender) : FSender :=
  match s.queue with
  | [] => s
  | h :: t =>
    match fault s.wire.length with
    | none => { s with queue := t, handed := s.handed ++ [h], wire := s.wire ++ [h], free := s.free + 1 }
    | some k => { s with queue := t, handed := s.handed ++ [h], wire := s.wire ++ [h.extract 0 k],
                         free := s.free + 1, werr := true }

def FSender.writerSteps (fault : Fault) : Nat → FSender → FSender
  | 0, s => s
  | k + 1, s => writerSteps fault k (s.writerStep fault)

/-- `c.Stats.Sent.Add(uint64(c.WritePos)); c.toWriter <- c.WriteBuf[0:c.WritePos]` -/
def FSender.handOver (s : FSender) : FSender :=
  { s with sent := s.sent + s.cur.size, queue := s.queue ++ [s.cur] }

/-- `next := <-c.fromWriter; if c.writerErr != nil { return c.writerErr };
c.WriteBuf = next; c.WritePos = 0; c.Stats.Flushed.Add(1)` - on the error path
`WriteBuf/WritePos` stay as they are and `next` is dropped. -/
def FSender.takeNext (s : FSender) : FSender × Bool :=
  if s.werr then ({ s with free := s.free - 1 }, false)
  else ({ s with free := s.free - 1, cur := ByteArray.empty, flushed := s.flushed + 1 }, true)

/-- `Conn.Flush` with its error path; the result flag is `err == nil`.
`<-c.fromWriter` blocks while that channel is empty, which forces a writer
iteration. -/
def FSender.flush (fault : Fault) (k : Nat) (s : FSender) : FSender × Bool :=
  if s.cur.size = 0 then (s, true) else
    (s.handOver.writerSteps fault (max k (if s.handOver.free = 0 then 1 else 0))).takeNext

def FSender.flushS (fault : Fault) (sch : Sched) (s : FSender) : FSender × Bool :=
  s.flush fault (sch s.flushed)

def FSender.reserve (fault : Fault) (sch : Sched) (n : Nat) (s : FSender) : FSender × Bool :=
  if s.cur.size + n > writeBufSize then s.flushS fault sch else (s, true)

def FSender.put (b : ByteArray) (s : FSender) : FSender := { s with cur := s.cur ++ b }

/-- `SendByte/SendUint16/SendUint32/SendLabel`: `if WritePos+k > len { if err := Flush(); err != nil { return err } }; copy`. -/
def FSender.sendBytes (fault : Fault) (sch : Sched) (b : ByteArray) (s : FSender) : FSender × Bool :=
  match s.reserve fault sch b.size with
  | (s, false) => (s, false)
  | (s, true) => (s.put b, true)

def FSender.sendDataLoop (fault : Fault) (sch : Sched) (val : ByteArray) (off : Nat) (s : FSender) :
    FSender × Bool :=
  if _h : off < val.size then
    match (if s.cur.size ≥ writeBufSize then s.flushS fault sch else (s, true)) with
    | (s, false) => (s, false)
    | (s, true) =>
      let n := min (writeBufSize - s.cur.size) (val.size - off)
      if _hn : n = 0 then (s, false) else
        sendDataLoop fault sch val (off + n) (s.put (val.extract off (off + n)))
  else (s, true)
termination_by val.size - off
decreasing_by omega

def FSender.sendData (fault : Fault) (sch : Sched) (val : ByteArray) (s : FSender) : FSender × Bool :=
  match s.sendBytes fault sch (be 4 val.size) with
  | (s, false) => (s, false)
  | (s, true) => s.sendDataLoop fault sch val 0

def FSender.sendSizesLoop (fault : Fault) (sch : Sched) : List Nat → FSender → FSender × Bool
  | [], s => (s, true)
  | x :: xs, s =>
    match s.sendBytes fault sch (be 4 x) with
    | (s, false) => (s, false)
    | (s, true) => sendSizesLoop fault sch xs s

def FSender.sendVal (fault : Fault) (sch : Sched) (s : FSender) : Val → FSender × Bool
  | .byte b => s.sendBytes fault sch [b].toByteArray
  | .u16 n => s.sendBytes fault sch (be 2 n)
  | .u32 n => s.sendBytes fault sch (be 4 n)
  | .data d => s.sendData fault sch d
  | .str d => s.sendData fault sch d
  | .label n => s.sendBytes fault sch (be 16 n)
  | .sizes l =>
    match s.sendBytes fault sch (be 4 l.length) with
    | (s, false) => (s, false)
    | (s, true) => s.sendSizesLoop fault sch l

def FSender.step (fault : Fault) (sch : Sched) (s : FSender) : Op → FSender × Bool
  | .send v => s.sendVal fault sch v
  | .flush => s.flushS fault sch
  | .needSpace n => s.reserve fault sch n

/-- A caller that stops at the first error: returns the state, the number of
operations that succeeded and whether all did. -/
def FSender.run (fault : Fault) (sch : Sched) : List Op → FSender → FSender × Nat × Bool
  | [], s => (s, 0, true)
  | o :: os, s =>
    match s.step fault sch o with
    | (s, false) => (s, 0, false)
    | (s, true) =>
      let (s', n, ok) := run fault sch os s
      (s', n + 1, ok)

/-- `Conn.Close` with its error paths. -/
def FSender.close (fault : Fault) (sch : Sched) (s : FSender) : FSender × Bool :=
  match s.flushS fault sch with
  | (s, false) => (s, false)
  | (s, true) =>
    let s := s.writerSteps fault s.queue.length
    (s, !s.werr)

end Mpc.Conn

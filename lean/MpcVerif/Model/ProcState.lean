/-
C08  Compilation is deterministic — PROCESS STATE.

`Model/Determinism.lean` models what a `compiler.Compiler` keeps between
compilations.  This file models what the PROCESS keeps: package-level
variables of the compile path, i.e. every cache-like facility (memoised
circuits, "last used" slots, interned tables).  Core Lean only.

A compilation step is a function of (source, parameters, process state):

    step : Src → Par → St → Out × St

The property demands that `Out` does not depend on `St` for every state the
process can be in after ANY history of earlier compilations.

1. The code as it is (`stepNow`): no package-level variable of the compile
   path is written by a compilation (the list of package-level variables is
   pinned by a structural fact of checks/C08.py on every run), so the step
   neither reads nor changes the state.  What the step computes for the
   facility at hand — constant folding of wide (> 64 bit) integer expressions,
   compiler/ast/eval.go `Binary.evalConst` → compiler/mpa `Int.Div/Mod/Mul/Add/
   Sub`, which BUILD a circuit and evaluate it at compile time — is modelled
   value-exactly with `Model/Mpa.lean` (`foldNow`), so the harness can compare
   the folded constants of whole histories of real compilations with the model
   (op `phist`).

2. A memoising facility in general (`Facility`, `serve`): a table in the
   process state, keyed by `key request`, holding the object `build request`;
   bounded by `cap` entries (cap = 1: a "last object" slot).  A hit uses the
   STORED object for the NEW request.  Props/C08.lean proves: if `build`
   factors through `key` the output equals the uncached one after every
   history; if two requests share a key but the stored object of one gives a
   different result for the other, there is a history after which the output
   differs.

3. The divider facility (`mpa.Int.Div/Mod`): the object is the divider circuit,
   determined by the declared operand widths (`x.bits`, `y.bits`);
   `Circuit.Compute` feeds each operand at the DECLARED width of the circuit
   it is given.  `dividerByMax` keys the table by `max x.bits y.bits` (not
   injective), `dividerByWidths` by the pair.
-/
import MpcVerif.Model.Mpa

namespace Mpc.PSt

/-! ## 1. Constant folds of wide integers (the code as it is) -/

inductive FoldOp where
  | div | mod | mul | add | sub
deriving DecidableEq, Repr

/-- One constant fold `A op B` in a context of type `uint<w>` (`w > 64`),
`x`, `y` the values of the two literals. -/
structure FoldReq where
  w : Nat
  op : FoldOp
  x : Nat
  y : Nat
deriving DecidableEq, Repr

/-- Width of a constant operand: compiler/ssa/generator.go `Generator.Constant`
sets `val.SetTypeSize(bits)` with `bits` = 32 / 64 / `BitLen` (for more than 64
bits). -/
def operandBits (v : Nat) : Nat := Mpa.constSize (Mpa.natBitLen v)

/-- The divider circuit `mpa.Int.Div/Mod` build: determined by the declared
widths of its two inputs (`newIOArg("x", TInt, x.bits)`, `newIOArg("y", TInt,
y.bits)`; outputs `max x.bits y.bits` wide). -/
structure DivCirc where
  xb : Nat
  yb : Nat
deriving DecidableEq, Repr

def buildDivider (r : FoldReq) : DivCirc := ⟨operandBits r.x, operandBits r.y⟩

/-- `circ.Compute([x.big(), y.big()])` on a divider circuit: the operands are
read at the widths the CIRCUIT declares; quotient and remainder of the signed
divider (`Mpa.largeDivMod`). -/
def evalDivider (c : DivCirc) (x y : Nat) : Nat × Nat :=
  let (_, q, r) := Mpa.largeDivMod c.xb c.yb (x : Int) (y : Int)
  (q, r)

def bigOf : Option Mpa.MInt → Nat
  | some m => (m.big.getD 0).toNat
  | none => 0

/-- The folded constant as it is printed in the SSA listing (`$<decimal>`),
code as it is: every fold builds its own circuit. -/
def foldNow (r : FoldReq) : Nat :=
  match r.op with
  | .div => (evalDivider (buildDivider r) r.x r.y).1
  | .mod => (evalDivider (buildDivider r) r.x r.y).2
  | .mul => bigOf (Mpa.largeMul (operandBits r.x) (operandBits r.y) r.w (r.x : Int) (r.y : Int))
  | .add => bigOf (Mpa.largeAdd (operandBits r.x) (operandBits r.y) r.w (r.x : Int) (r.y : Int))
  | .sub => bigOf (Mpa.largeSub (operandBits r.x) (operandBits r.y) r.w (r.x : Int) (r.y : Int))

/-- A source as far as the constant folder is concerned: its wide folds in
listing order. -/
abbrev Src := List FoldReq

/-- A compilation step as a function of (source, parameters, process state). -/
abbrev Step (σ π ο : Type) := Src → π → σ → ο × σ

/-- The code as it is: the compile path has no package-level variable that a
compilation writes, the state is handed on untouched and never looked at. -/
def stepNow {σ π : Type} : Step σ π (List Nat) :=
  fun src _ st => (src.map foldNow, st)

/-- The process state after a history of compilations. -/
def runHistory {σ π ο : Type} (step : Step σ π ο) (st : σ) (h : List (Src × π)) : σ :=
  h.foldl (fun s sp => (step sp.1 sp.2 s).2) st

/-- The outputs of all compilations of a history, in order. -/
def outputsAlong {σ π ο : Type} (step : Step σ π ο) : σ → List (Src × π) → List ο
  | _, [] => []
  | st, sp :: rest => (step sp.1 sp.2 st).1 :: outputsAlong step (step sp.1 sp.2 st).2 rest

/-! ## 2. A memoising facility in the process state -/

/-- A facility that builds an object for a request and uses it to answer the
request.  `key` is what a memo table would be indexed by. -/
structure Facility (ρ κ ω ο : Type) where
  key : ρ → κ
  build : ρ → ω
  use : ω → ρ → ο

abbrev Table (κ ω : Type) := List (κ × ω)

def lookup {κ ω : Type} [DecidableEq κ] (k : κ) : Table κ ω → Option ω
  | [] => none
  | (k', o) :: t => if k' = k then some o else lookup k t

/-- The answer without any table: build, use. -/
def direct {ρ κ ω ο : Type} (F : Facility ρ κ ω ο) (r : ρ) : ο := F.use (F.build r) r

/-- One request served through the table (at most `cap` entries, most recent
first; `cap = 1` is a "last object" slot).  A hit uses the STORED object. -/
def serve {ρ κ ω ο : Type} [DecidableEq κ] (F : Facility ρ κ ω ο) (cap : Nat) (tbl : Table κ ω) (r : ρ) :
    ο × Table κ ω :=
  match lookup (F.key r) tbl with
  | some o => (F.use o r, tbl)
  | none => (F.use (F.build r) r, ((F.key r, F.build r) :: tbl).take cap)

/-- A compilation = its requests to the facility, in order. -/
def compileMemo {ρ κ ω ο : Type} [DecidableEq κ] (F : Facility ρ κ ω ο) (cap : Nat) :
    List ρ → Table κ ω → List ο × Table κ ω
  | [], t => ([], t)
  | r :: rs, t =>
    let a := serve F cap t r
    let b := compileMemo F cap rs a.2
    (a.1 :: b.1, b.2)

/-- The table after a history of compilations. -/
def runMemoHistory {ρ κ ω ο : Type} [DecidableEq κ] (F : Facility ρ κ ω ο) (cap : Nat)
    (h : List (List ρ)) (t : Table κ ω) : Table κ ω :=
  h.foldl (fun t reqs => (compileMemo F cap reqs t).2) t

/-- Every entry of the table was built for a request with that key. -/
def Sound {ρ κ ω ο : Type} (F : Facility ρ κ ω ο) (t : Table κ ω) : Prop :=
  ∀ k o, (k, o) ∈ t → ∃ r, F.key r = k ∧ F.build r = o

/-- The object is a function of the key. -/
def Factors {ρ κ ω ο : Type} (F : Facility ρ κ ω ο) : Prop :=
  ∀ a b, F.key a = F.key b → F.build a = F.build b

/-! ## 3. The divider of mpa.Int.Div / Mod as a facility -/

/-- Request: the two operand values; object: the divider circuit; answer:
(quotient, remainder).  Table keyed by `max x.bits y.bits`. -/
def dividerByMax : Facility (Nat × Nat) Nat DivCirc (Nat × Nat) where
  key := fun r => max (operandBits r.1) (operandBits r.2)
  build := fun r => ⟨operandBits r.1, operandBits r.2⟩
  use := fun c r => evalDivider c r.1 r.2

/-- The same, keyed by both operand widths. -/
def dividerByWidths : Facility (Nat × Nat) (Nat × Nat) DivCirc (Nat × Nat) where
  key := fun r => (operandBits r.1, operandBits r.2)
  build := fun r => ⟨operandBits r.1, operandBits r.2⟩
  use := fun c r => evalDivider c r.1 r.2

end Mpc.PSt

/-
Back end of the compiler, SSA -> gates (property C03): a Lean model of
`ssa.Program.Circuit` (/repo/compiler/ssa/circuitgen.go) for straight-line
step lists, as called by `Program.CompileCircuit`:

    cc := circuits.NewCompiler(params, calloc, inputs, outputs, prog.InputWires, ...)
    prog.DefineConstants(cc.ZeroWire(), cc.OneWire())
    prog.Circuit(cc)

`ssaCompile gmw ins steps` produces the builder state (the gate list `cc.Gates`
BEFORE the optimisation passes ConstPropagate / ShortCircuitXORZero / Prune and
before `cc.Compile`; those are property C09's subject, `C09_pipeline_preserves`)
and the circuit output wires.

* A value (`ssa.Value`, here its dump id) owns a list of wires (`WireAllocator`:
  `walloc.Wires` / `walloc.SetWires`); the wire environment `WEnv` maps ids to
  wire lists.  Input `k` owns the input wires `ofs_k .. ofs_k + bits_k - 1`
  (`prog.InputWires`, in argument order).
* Every instruction calls the SAME generator of Model/Builders.lean that the Go
  `case` calls the Go builder for (`circuits.NewAdder` ↦ `newAdder`, ...); the
  generators are tied gate for gate to the Go builders by C07's T4.  Go builders
  get pre-allocated result wires and connect gates to them; here a builder
  returns its result wires (same gate list under first-occurrence numbering, see
  Model/Builders.lean).
* Constants are wires `zero`/`one` per bit (`DefineConstants`, the re-sizing
  loop at the top of `Program.Circuit`); the bit pattern is `constWires` of
  Model/MpclSsa.lean.
* `mov smov lshift rshift srshift slice concat amov` are pure re-wiring
  (`walloc.SetWires`), no gates.
* `ret` passes every result wire through `cc.ID` to a fresh output wire.

`none` = this model does not apply: a value is used before the step defining
it (Program.Circuit then allocates the wires at the use), an operand's width
differs from the width its wires were allocated with, an unregistered
constant (fresh undriven wires), operand shapes for which the Go code returns
an error or panics, steps after `ret`.  The harness then finds that the real
gate list is not in definition order (or that Circuit failed) and both sides
print `-`.

Wire numbering as in Model/Builders.lean: input wire `i` is `i`, gate `k`
drives wire `nIn + k` = first-occurrence numbering of the real `cc.Gates`
(harness/cmd/c03/backend.go).

Core Lean only.
-/
import MpcVerif.Model.MpclSsa
import MpcVerif.Model.Builders

namespace Mpc.SsaC
open Mpc Mpc.Bld Mpc.Mpcl.Ssa

/-- Wire allocator contents: value id ↦ wires (latest binding first). -/
abbrev WEnv := List (Nat × List Nat)

def WEnv.find : WEnv → Nat → Option (List Nat)
  | [], _ => none
  | (j, ws) :: r, i => if i = j then some ws else WEnv.find r i

/-- Wires of a bit pattern: bit `i` of `v` selects the one or the zero wire
(`DefineConstants`: `if c.Bit(bit) { w = one } else { w = zero }`). -/
def patWires (z o : Nat) (bits v : Nat) : List Nat :=
  (ofNat bits v).map fun b => if b then o else z

/-- Declared width of an operand (`in.Type.Bits`). -/
def argBits : SArg → Nat
  | .var _ bits => bits
  | .const _ _ _ _ bits => bits
  | .pat _ bits => bits
  | .k _ => 0

/-- The operand loop at the top of `Program.Circuit`: the wires of an input
value.  A variable's wires must have the width of this use (otherwise the Go
code pads / truncates by the type of the use, which the dump does not carry);
an unregistered integer constant gets fresh undriven wires in Go. -/
def operandWires (z o : Nat) (env : WEnv) : SArg → Option (List Nat)
  | .var id bits =>
    match env.find id with
    | some ws => if ws.length = bits then some ws else none
    | none => none
  | .const val own alloc sg bits =>
    if alloc = 0 then none else some (patWires z o bits (constWires val own alloc sg bits))
  | .pat val bits => some (patWires z o bits val)
  | .k _ => none

/-- `o[bit] = w[bit]` for `bit < len(w)`, else `fill`; `n` result wires (the
loops of `Mov/Smov`, `Lshift`, `Rshift/Srshift`, `Slice`). -/
def extend (w : List Nat) (n fill : Nat) : List Nat :=
  w.take n ++ List.replicate (n - w.length) fill

/-- `for i < len(o) { cc.INV(in[i], o[i]) }` of `case Not`. -/
def invBits : List Nat → BM (List Nat)
  | [] => pure []
  | a :: r => do
    let o ← inv a
    let t ← invBits r
    pure (o :: t)

def some' {α : Type} (m : BM α) : BM (Option α) := do
  let r ← m
  pure (some r)

/-- An operand as `Program.Circuit` uses it: wires, or a compile-time integer
(`instr.In[k].ConstInt()`: shift count, slice bounds, offset, element size). -/
inductive Opd where
  | wires (ws : List Nat)
  | k (n : Nat)
  deriving Repr, Inhabited

def operand (z o : Nat) (env : WEnv) : SArg → Option Opd
  | .k n => some (.k n)
  | a => (operandWires z o env a).map .wires

/-- One `case` of the `switch instr.Op` of `Program.Circuit`; `ow` is
`instr.Out.Type.Bits`.  Returns the wires of `instr.Out`; `none` where the Go
code returns an error, panics, or leaves result wires unconnected. -/
def compileOp (gmw : Bool) (z : Nat) (op : SOp) (xs : List Opd) (ow : Nat) : BM (Option (List Nat)) :=
  match op, xs with
  | .add, [.wires x, .wires y] => some' (newAdder gmw x y ow)
  | .sub, [.wires x, .wires y] => some' (newSubtractor gmw x y ow)
  | .mul, [.wires x, .wires y] => newMultiplier gmw x y ow
  | .udiv, [.wires x, .wires y] => some' (do let d ← uDivider gmw x y ow 0; pure d.1)
  | .umod, [.wires x, .wires y] => some' (do let d ← uDivider gmw x y 0 ow; pure d.2)
  | .idiv, [.wires x, .wires y] => some' (do let d ← iDivider gmw x y ow 0; pure d.1)
  | .imod, [.wires x, .wires y] => some' (do let d ← iDivider gmw x y 0 ow; pure d.2)
  | .band, [.wires x, .wires y] => if ow ≤ max x.length y.length then some' (binaryAnd x y ow) else pure none
  | .bor, [.wires x, .wires y] => if ow ≤ max x.length y.length then some' (binaryOr x y ow) else pure none
  | .bxor, [.wires x, .wires y] => if ow ≤ max x.length y.length then some' (binaryXor x y ow) else pure none
  | .bclr, [.wires x, .wires y] => if ow ≤ max x.length y.length then some' (binaryClear x y ow) else pure none
  | .concat, [.wires x, .wires y] => pure (if x.length + y.length = ow then some (x ++ y) else none)
  | .lshift, [.wires x, .k k] => pure (some (extend (List.replicate k z ++ x) ow z))
  | .rshift, [.wires x, .k k] => pure (some (extend (x.drop k) ow z))
  | .srshift, [.wires x, .k k] =>
    pure (if x.isEmpty then none else some (extend (x.drop k) ow (x.getLastD 0)))
  | .slice, [.wires x, .k from_, .k to] =>
    pure (if from_ < to ∧ to - from_ ≤ ow then some (extend (extend (x.drop from_) (to - from_) z) ow z) else none)
  | .index, [.wires arr, .k off, .wires idx, .k size] =>
    if size = 0 ∨ arr.length < off ∨ (arr.length - off) % size ≠ 0 ∨ ow ≠ size then pure none
    else some' (newIndex size (arr.drop off) idx)
  | .ilt, [.wires x, .wires y] => if ow = 1 then some' (comparator true .lt x y) else pure none
  | .ile, [.wires x, .wires y] => if ow = 1 then some' (comparator true .le x y) else pure none
  | .igt, [.wires x, .wires y] => if ow = 1 then some' (comparator true .gt x y) else pure none
  | .ige, [.wires x, .wires y] => if ow = 1 then some' (comparator true .ge x y) else pure none
  | .ult, [.wires x, .wires y] => if ow = 1 then some' (comparator false .lt x y) else pure none
  | .ule, [.wires x, .wires y] => if ow = 1 then some' (comparator false .le x y) else pure none
  | .ugt, [.wires x, .wires y] => if ow = 1 then some' (comparator false .gt x y) else pure none
  | .uge, [.wires x, .wires y] => if ow = 1 then some' (comparator false .ge x y) else pure none
  | .eq, [.wires x, .wires y] => if ow = 1 then some' (eqComparator x y) else pure none
  | .neq, [.wires x, .wires y] => if ow = 1 then some' (neqComparator x y) else pure none
  | .land, [.wires x, .wires y] =>
    if ow = 1 ∧ x.length = 1 ∧ y.length = 1 then some' (logicalAnd x y) else pure none
  | .lor, [.wires x, .wires y] =>
    if ow = 1 ∧ x.length = 1 ∧ y.length = 1 then some' (logicalOr x y) else pure none
  | .lnot, [.wires x] => if ow ≤ x.length then some' (invBits (x.take ow)) else pure none
  | .mov, [.wires x] => pure (some (extend x ow z))
  | .smov, [.wires x] => pure (if x.isEmpty then none else some (extend x ow (x.getLastD 0)))
  | .amov, [.wires v, .wires arr, .k from_, .k to] =>
    pure (if from_ < to then
      some ((((extend arr ow z).take from_) ++ extend v (to - from_) z ++ (extend arr ow z).drop to).take ow)
    else none)
  | .phi, [.wires c, .wires t, .wires f] => if c.length = 1 then newMUX (c.getD 0 0) t f ow else pure none
  | _, _ => pure none

/-- `case Ret`: every wire of every result through `cc.ID` to a fresh output
wire, in order. -/
def retBuses : List (List Nat) → BM (List (List Nat))
  | [] => pure []
  | ws :: r => do
    let o ← retWires ws
    let t ← retBuses r
    pure (o :: t)

def allSome {α : Type} : List (Option α) → Option (List α)
  | [] => some []
  | none :: _ => none
  | some a :: r => (allSome r).map (a :: ·)

/-- The loop `for _, step := range prog.Steps` (GC steps are no-ops and are
not dumped).  Returns the output buses of `ret`. -/
def compileSteps (gmw : Bool) (z o : Nat) : List SInstr → WEnv → BM (Option (List (List Nat)))
  | [], _ => pure none
  | i :: rest, env =>
    if i.op = .ret then
      match allSome (i.ins.map (operandWires z o env)), rest with
      | some xs, [] => some' (retBuses xs)
      | _, _ => pure none
    else
      match i.out with
      | none => pure none
      | some (id, ow) => do
        match allSome (i.ins.map (operand z o env)) with
        | none => pure none
        | some xs => do
          let r ← compileOp gmw z i.op xs ow
          match r with
          | none => pure none
          | some ws => compileSteps gmw z o rest ((id, ws) :: env)

/-- `prog.InputWires`: argument `k` owns `bits_k` consecutive input wires. -/
def inputEnv : List (Nat × Nat) → Nat → WEnv → WEnv
  | [], _, env => env
  | (id, bits) :: r, ofs, env => inputEnv r (ofs + bits) ((id, inputWires ofs bits) :: env)

def nInputs : List (Nat × Nat) → Nat
  | [] => 0
  | (_, bits) :: r => bits + nInputs r

/-- `Program.CompileCircuit` up to (not including) the optimisation passes:
the builder state (gate list) and the output buses.  `NewCompiler` rejects a
program without input wires. -/
def ssaCompile (gmw : Bool) (ins : List (Nat × Nat)) (steps : List SInstr) : Option (St × List (List Nat)) :=
  if nInputs ins = 0 then none else
  let s0 : St := { nIn := nInputs ins }
  let z := zeroWire s0
  let o := oneWire z.2
  let r := compileSteps gmw z.1 o.1 steps (inputEnv ins 0 []) o.2
  r.1.map fun outs => (r.2, outs)

/-- Input bits of the circuit for argument values `args` (low `bits_k` bits of
argument `k`, little endian, concatenated). -/
def inputBits : List (Nat × Nat) → List Nat → List Bool
  | (_, bits) :: is, v :: vs => ofNat bits v ++ inputBits is vs
  | _, _ => []

/-- Evaluate the generated gate list (the `evalGates` of C07, bridged to
`Circuit.plainEval` by `C07_bridge_plainEval`) and read the output buses as
(pattern, width), the shape of `ssaEval`'s result. -/
def ssaCircuitEval (gmw : Bool) (ins : List (Nat × Nat)) (steps : List SInstr) (args : List Nat) :
    Option (List (Nat × Nat)) :=
  (ssaCompile gmw ins steps).map fun (s, outs) =>
    let v := s.vals (inputBits ins args)
    outs.map fun ws => (toNat (ws.map fun w => v.getD w false), ws.length)

/-! ### The instruction-set predicate of `C03_backend_correct`

`instrOK gmw i`: instruction `i` is one for which the simulation step is
proved on target `gmw` (`false` = Yao, `true` = GMW) at the operand / result
widths of `i`.  Purely syntactic (opcode, declared widths, target).

Included: `add sub mul` (both targets: ripple / Kogge-Stone adders and
subtractors, Karatsuba+array / Wallace multipliers), `udiv umod idiv imod` on
the Yao target (long divider), `band bor bxor bclr`, the signed and unsigned
comparisons `ilt ile igt ige ult ule ugt uge` at ALL operand widths (operands
zero padded to the common width, which is what `evalOp` specifies), `eq neq`,
`land lor lnot`, `phi` (MUX), and the re-wiring instructions `mov smov lshift
rshift srshift slice concat amov`, `index` (array element by a variable index,
see below), and `ret`; constants and patterns as operands.

Excluded, explicitly:
* `udiv umod idiv imod` on the GMW target (`NewUDividerGoldschmidtFast`: its
  quotient estimate is a validated hypothesis of C07, not a theorem);
* `idiv` with a result wider than the operands (`ow > max`): `NewIDivider`
  negates the magnitude quotient at the result width, `evalOp` reduces the
  `max`-bit quotient modulo `2^ow`; they differ for negative quotients (the
  compiler never emits this shape);
* `index` with an index operand wider than `bits = ceil(log2 n)` (at least 1)
  for an array of `n` elements, or with `n = 0` or an empty index operand:
  `NewIndex` looks only at the low `bits` bits of the index (C07_index: element
  `idx mod 2^bits`), `evalOp` yields 0 for every `idx ≥ n`; they differ on
  some out-of-range indices, which MPCL leaves undefined.  `index` is included
  when the index operand has at most `bits` wires;
* zero-width operands / results of the arithmetic builders, comparators and
  dividers (their theorems assume at least one operand bit / result bit).
Width side conditions under which the Go code fails or leaves result wires
unconnected make `compileOp` itself return `none`. -/
def instrOK (gmw : Bool) (i : SInstr) : Bool :=
  let ow := (i.out.map (·.2)).getD 0
  let m := (i.ins.map argBits).foldl max 0
  match i.op with
  | .add | .sub | .mul => decide (0 < ow ∧ 0 < m)
  | .udiv | .umod | .imod => !gmw && decide (0 < m)
  | .idiv => !gmw && decide (0 < m ∧ ow ≤ m)
  | .ilt | .ile | .igt | .ige | .eq | .neq => decide (0 < m)
  | .index =>
    match i.ins with
    | [arr, .k off, idx, .k size] =>
      let n := (argBits arr - off) / size
      decide (0 < n ∧ 0 < argBits idx ∧ argBits idx ≤ (indexBits n n 1 2).1)
    | _ => false
  | _ => true

/-- The hypothesis of `C03_backend_correct`: every step is in the instruction
set and the model applies (definition-before-use order, registered constants,
consistent widths, `ret` last). -/
def Supported (gmw : Bool) (ins : List (Nat × Nat)) (steps : List SInstr) : Bool :=
  steps.all (instrOK gmw) && (ssaCompile gmw ins steps).isSome

end Mpc.SsaC

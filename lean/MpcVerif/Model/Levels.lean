/-
C09 (shared with C10): gate levels and level-ordered schedules.

* `assignLevels` mirrors `circuit.Circuit.AssignLevels` (circuit/circuit.go):
  Yao target = topological depth, GMW target = AND depth.
* `compileSort` mirrors the `sort.SliceStable` in `circuits.Compiler.Compile`
  (compiler/circuits/compiler.go) used for the GMW target: stable sort of the
  assigned gates by `(Level, AND first)`, where `Level` is the breadth-first
  level given by `Gate.Visit`/`Gate.Assign` (gates.go), strictly larger than
  the level of the producers of both inputs.
* `gmwSchedule` is the evaluation order of `gmw.Network.Run` (gmw/network.go):
  per AND-depth level first all non-AND gates in circuit order, then the AND
  batch; i.e. the stable sort by `(AssignLevels level, non-AND first)`.
Core Lean only.
-/
import MpcVerif.Model.Circuit

namespace Mpc

/-- `AssignLevels` gate loop: returns the level of every gate (in gate order)
and the maximum wire level (`Stats[NumLevels]`).  `lv` is the `levels` slice
(one entry per wire, initially 0). -/
def assignLevelsGo (gmw : Bool) : List Gate → Array Nat → Nat → List Nat × Nat
  | [], _, mx => ([], mx)
  | g :: gs, lv, mx =>
    let l0 := lv.getD g.in0 0
    let level := if g.op.binary then max l0 (lv.getD g.in1 0) else l0
    let out := if gmw then (if g.op == .and then level + 1 else level) else level + 1
    let r := assignLevelsGo gmw gs (lv.setIfInBounds g.out out) (max mx out)
    (level :: r.1, r.2)

def Circuit.assignLevels (c : Circuit) (gmw : Bool) : List Nat × Nat :=
  assignLevelsGo gmw c.gates (Array.replicate c.numWires 0) 0

/-- `Stats[MaxWidth]`: the largest number of gates on one level. -/
def maxWidth (numWires : Nat) (levels : List Nat) : Nat :=
  let counts := levels.foldl (fun (a : Array Nat) l => a.modify l (· + 1)) (Array.replicate numWires 0)
  counts.foldl max 0

/-- Go: `less(i,j) = Li < Lj || (Li == Lj && Opi == AND && Opj != AND)` under
`sort.SliceStable`; a stable sort by `less` is the stable merge sort by
`le a b := !less b a`. -/
def compileLess (a b : Gate × Nat) : Bool :=
  a.2 < b.2 || (a.2 == b.2 && a.1.op == .and && b.1.op != .and)

def compileLe (a b : Gate × Nat) : Bool := !compileLess b a

def compileSort (l : List (Gate × Nat)) : List (Gate × Nat) := l.mergeSort compileLe

/-- `gmw.Network.Run`: level by level, non-AND gates first, then the ANDs. -/
def gmwLess (a b : Gate × Nat) : Bool :=
  a.2 < b.2 || (a.2 == b.2 && a.1.op != .and && b.1.op == .and)

def gmwLe (a b : Gate × Nat) : Bool := !gmwLess b a

def gmwSchedule (l : List (Gate × Nat)) : List (Gate × Nat) := l.mergeSort gmwLe

/-- Input wires of a gate. -/
def Gate.ins (g : Gate) : List Nat := if g.op.binary then [g.in0, g.in1] else [g.in0]

/-- Hypothesis of the `compileSort` theorem, decidable: every gate input is a
circuit input or is produced by a gate of strictly smaller level. -/
def strictLevels (nIn : Nat) (l : List (Gate × Nat)) : Bool :=
  l.all fun a => a.1.ins.all fun w =>
    decide (w < nIn) || l.any fun h => h.1.out == w && decide (h.2 < a.2)

end Mpc

/-
Package-level declarations of the MPCL subset of property C03 (core Lean only):
`var x T`, `var x T = n`, `const x = n`, `const x T = n` in package `main`
(named `type` declarations are transparent: the harness serialises the
underlying type).  Extends the reference interpreter `Model/Mpcl.lean`
conservatively: a package without declarations means exactly what its function
list meant before (`Props/C03.lean`, `C03_pkg_conservative`).

Meaning (Go scoping; /repo/testsuite/lang/var3.mpcl, pkg.mpcl, ptr_scopes.mpcl):
the package-level names form the OUTERMOST environment of every function
activation.  A name is looked up in the local scopes first (innermost block
outwards, then the parameters), and in the package-level environment last; a
parameter, a named result or a local `var` of the same name shadows the
package-level name from its declaration to the end of its scope, with its own
type.  This is realised by elaboration into the declaration-free language:
every function body is prefixed with the declarations of the package-level
names that are not parameter names (`prelude`); `Scope.lookup`/`Scope.set`
resolve a name to the most recent declaration, so anything the body declares
later shadows them (`C03_pkg_prelude_env`, `C03_pkg_lookup_order`).

Assignment to a package-level variable.  Go gives the package one shared store.
The elaboration gives every function activation its own copy, initialised from
the declarations.  Both agree exactly on the packages accepted by `Pkg.ok`:
only `main` (which is never called) assigns package-level variables, the
variables it assigns are not referenced by any other function, and constants
are never assigned.  (What the real compiler does outside this class - an
assignment in `main` is invisible to callees, an assignment in a callee is
unconditional and permanent, ssa.Bindings / ast.LookupVar - is fixed neither by
the documentation nor by a shipped test except through pointers
(ptr_scopes.mpcl, outside the subset); such programs are outside the
quantifier: the driver answers `bad-package`, the generator never emits them.)
-/
import MpcVerif.Model.Mpcl

namespace Mpc.Mpcl

/-- One package-level declaration.  `init = none`: zero value (any type);
`init = some n`: the literal `n` typed by `t` (scalar types).  An untyped
constant is serialised with the type of the contexts it is used in. -/
structure GDecl where
  x : String
  t : Ty
  init : Option Nat
  isConst : Bool
  deriving Repr, Inhabited

/-- A package: its declarations (in source order) and its functions. -/
structure Pkg where
  globals : List GDecl
  funcs : Prog
  deriving Repr, Inhabited

/-- The declaration as a statement of the declaration-free language. -/
def GDecl.stmt (g : GDecl) : Stmt := .decl g.x g.t (g.init.map (Expr.lit g.t))

/-- The value a package-level name starts with. -/
def GDecl.val (g : GDecl) : Option Val :=
  match g.init with
  | none => some g.t.zero
  | some n => litVal g.t n

/-- Package-level names visible in a function with parameters `ps`: a
parameter of the same name hides the declaration in the whole function. -/
def visibleGlobals (gs : List GDecl) (ps : List (String × Ty)) : List GDecl :=
  gs.filter fun g => !(ps.map (·.1)).contains g.x

/-- The declarations every body of a function with parameters `ps` starts with. -/
def prelude (gs : List GDecl) (ps : List (String × Ty)) : List Stmt :=
  (visibleGlobals gs ps).map GDecl.stmt

/-- The package-level environment as a scope (most recent declaration first,
as `Env.declare` builds it). -/
def globalScope : List GDecl → Scope → Option Scope
  | [], acc => some acc
  | g :: gs, acc =>
    match g.val with
    | some v => if v.hasTy g.t then globalScope gs ((g.x, v) :: acc) else none
    | none => none

def elabFunc (gs : List GDecl) (fn : Func) : Func :=
  ⟨fn.params, fn.nres, prelude gs fn.params ++ fn.body⟩

/-- Elaboration into the declaration-free language. -/
def Pkg.elab (pk : Pkg) : Prog := pk.funcs.map (elabFunc pk.globals)

/-- Run `main` of a package on argument values. -/
def runPkg (pk : Pkg) (fuel : Nat) (main : Nat) (args : List Val) : Option (List Val) :=
  run pk.elab fuel main args

/-- Run on raw wire patterns. -/
def runPkgRaw (pk : Pkg) (fuel : Nat) (main : Nat) (args : List Nat) : Option (List (Nat × Nat)) :=
  runRaw pk.elab fuel main args

/-! ### The class on which per-activation copies are Go's shared store (`Pkg.ok`)

Scope-aware syntactic analysis: `bound` holds the names declared so far in the
enclosing scopes of the function (parameters, locals, loop variables); a name
that is not bound refers to the package level. -/

mutual
/-- Unbound names read by an expression. -/
def freeE (bound : List String) : Expr → List String
  | .lit _ _ => []
  | .var x => if bound.contains x then [] else [x]
  | .bin _ a b => freeE bound a ++ freeE bound b
  | .shift _ a _ => freeE bound a
  | .not a => freeE bound a
  | .neg a => freeE bound a
  | .cast _ a => freeE bound a
  | .idx a i => freeE bound a ++ freeE bound i
  | .fld a _ => freeE bound a
  | .call _ args => freeEs bound args
def freeEs (bound : List String) : List Expr → List String
  | [] => []
  | e :: es => freeE bound e ++ freeEs bound es
end

mutual
/-- Functions called by an expression. -/
def calleesE : Expr → List Nat
  | .lit _ _ => []
  | .var _ => []
  | .bin _ a b => calleesE a ++ calleesE b
  | .shift _ a _ => calleesE a
  | .not a => calleesE a
  | .neg a => calleesE a
  | .cast _ a => calleesE a
  | .idx a i => calleesE a ++ calleesE i
  | .fld a _ => calleesE a
  | .call f args => f :: calleesEs args
def calleesEs : List Expr → List Nat
  | [] => []
  | e :: es => calleesE e ++ calleesEs es
end

def freeAccs (bound : List String) : List Acc → List String
  | [] => []
  | .idx e :: r => freeE bound e ++ freeAccs bound r
  | .fld _ :: r => freeAccs bound r

def calleesAccs : List Acc → List Nat
  | [] => []
  | .idx e :: r => calleesE e ++ calleesAccs r
  | .fld _ :: r => calleesAccs r

def freeLVs (bound : List String) : List LVal → List String
  | [] => []
  | lv :: r => freeAccs bound lv.path ++ freeLVs bound r

def calleesLVs : List LVal → List Nat
  | [] => []
  | lv :: r => calleesAccs lv.path ++ calleesLVs r

/-- Result of the analysis of a statement list: unbound names referenced (read
or assigned), unbound names assigned, functions called, names bound afterwards. -/
structure Free where
  refs : List String
  writes : List String
  calls : List Nat
  bound : List String
  deriving Repr, Inhabited

mutual
def freeS (bound : List String) : Stmt → Free
  | .decl x _ none => ⟨[], [], [], x :: bound⟩
  | .decl x _ (some e) => ⟨freeE bound e, [], calleesE e, x :: bound⟩
  | .define xs e => ⟨freeE bound e, [], calleesE e, xs ++ bound⟩
  | .assign lvs e =>
    let w := (lvs.map (·.x)).filter fun x => !bound.contains x
    ⟨freeE bound e ++ freeLVs bound lvs ++ w, w, calleesE e ++ calleesLVs lvs, bound⟩
  | .ifte c th el =>
    let a := freeB bound th
    let b := freeB bound el
    ⟨freeE bound c ++ a.refs ++ b.refs, a.writes ++ b.writes, calleesE c ++ a.calls ++ b.calls, bound⟩
  | .for i _ _ _ _ body =>
    let a := freeB (i :: bound) body
    ⟨a.refs, a.writes, a.calls, bound⟩
  | .ret es => ⟨freeEs bound es, [], calleesEs es, bound⟩
def freeB (bound : List String) : List Stmt → Free
  | [] => ⟨[], [], [], bound⟩
  | s :: ss =>
    let a := freeS bound s
    let b := freeB a.bound ss
    ⟨a.refs ++ b.refs, a.writes ++ b.writes, a.calls ++ b.calls, b.bound⟩
end

/-- Analysis of a function: the parameters are bound. -/
def Func.free (fn : Func) : Free := freeB (fn.params.map (·.1)) fn.body

def distinctNames : List String → Bool
  | [] => true
  | x :: xs => !xs.contains x && distinctNames xs

def GDecl.ok (g : GDecl) : Bool :=
  match g.val with
  | some v => v.hasTy g.t
  | none => false

/-- Function `i` of the package respects the assignment discipline. -/
def funcOk (gs : List GDecl) (main : Nat) (mainWrites : List String) (i : Nat) (fn : Func) : Bool :=
  let fr := fn.free
  let consts := (gs.filter (·.isConst)).map (·.x)
  let names := gs.map (·.x)
  !fr.calls.contains main
  && fr.writes.all (fun x => !consts.contains x)
  && (i == main
      || (fr.writes.all (fun x => !names.contains x) && fr.refs.all (fun x => !mainWrites.contains x)))

def funcsOk (gs : List GDecl) (main : Nat) (mainWrites : List String) : Nat → List Func → Bool
  | _, [] => true
  | i, fn :: r => funcOk gs main mainWrites i fn && funcsOk gs main mainWrites (i + 1) r

/-- The packages the model gives a meaning to (see the header). -/
def Pkg.ok (pk : Pkg) (main : Nat) : Bool :=
  distinctNames (pk.globals.map (·.x))
  && pk.globals.all GDecl.ok
  && match pk.funcs[main]? with
     | none => false
     | some m =>
       let names := pk.globals.map (·.x)
       funcsOk pk.globals main (m.free.writes.filter names.contains) 0 pk.funcs

end Mpc.Mpcl

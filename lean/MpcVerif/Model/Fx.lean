/-
BMR secure-multiplication gadgets: model of `bmr/fx.go` (`FxSend`, `FxReceive`,
`FxkSend`, `FxkReceive`) and of the label conversions `Label.ToOT` /
`Label.FromOT` of `bmr/wire.go`.

`bmr.Label` is `[k/8]byte` with `k = 32` (bmr/player.go), i.e. 4 bytes.  It is
modelled as `BitVec 32` in the byte order `ToOT`/`FromOT` use
(`binary.BigEndian`): byte `l[0]` is the most significant byte, so bit 0 of
byte 0 (`l[0] & 1`) is bit 24 of the word.  `ot.Label{D0, D1}` is `BitVec 128`
with `D0` the high 64 bits (Model/LabelBV.lean).  The 1-out-of-2 OT is the
parameter `OtFun` of Model/Proto2.lean; its specification `OtSpec` is what
property C06 proves of each implementation.  Core Lean only.
-/
import MpcVerif.Model.Proto2
import MpcVerif.Model.LabelBV

namespace Mpc.Fx

/-- `bmr.Label` (`k = 32`). -/
abbrev BLabel := BitVec 32

/-- `Label.ToOT`: `label.D0 = uint64(binary.BigEndian.Uint32(l[:]))`, `D1 = 0`. -/
def toOT (l : BLabel) : BitVec 128 := (l.setWidth 128) <<< 64

/-- `Label.FromOT`: `binary.BigEndian.PutUint32(l[:], uint32(label.D0))`. -/
def fromOT (x : BitVec 128) : BLabel := (x >>> 64).setWidth 32

/-- `l[0] & 1` as a bit. -/
def bit0 (l : BLabel) : Bool := l.getLsbD 24

/-- `var al Label; al[0] = byte(a)`. -/
def ofByte0 (a : Nat) : BLabel := BitVec.ofNat 32 (a % 256) <<< 24

/-- `Label.Xor` (byte-wise XOR loop). -/
def lxor (a b : BLabel) : BLabel := a ^^^ b

/-- The wire `FxSend` hands to `oti.Send` for the random label `rl` drawn by
`NewLabel()`: `x0 = rl`, `x1 = rl ^ al`. -/
def fxWire (rl : BLabel) (a : Nat) : WireL (BitVec 128) :=
  ⟨toOT rl, toOT (lxor rl (ofByte0 a))⟩

/-- `FxSend`'s return value `uint(rl[0] & 1)`. -/
def fxSendOut (rl : BLabel) : Nat := (bit0 rl).toNat

/-- `flags := []bool{b == 1}`. -/
def recvFlags (b : Nat) : List Bool := [decide (b = 1)]

/-- `var result [1]ot.Label` after `oti.Receive(flags, result[:])`. -/
def recvLabel (res : List (BitVec 128)) : BitVec 128 := res.getD 0 0#128

/-- `FxReceive`'s return value: `xl.FromOT(result[0]); uint(xl[0] & 1)`. -/
def fxRecvOut (res : List (BitVec 128)) : Nat := (bit0 (fromOT (recvLabel res))).toNat

structure FxRun where
  wire : WireL (BitVec 128)
  got : BitVec 128
  r : Nat
  xb : Nat
  deriving Repr, DecidableEq

/-- One complete Fx(a, b) run over the OT `ot`: sender's share `r`, receiver's
share `xb`. -/
def fx (ot : OtFun (BitVec 128)) (rl : BLabel) (a b : Nat) : FxRun :=
  let w := fxWire rl a
  let res := ot [w] (recvFlags b)
  { wire := w, got := recvLabel res, r := fxSendOut rl, xb := fxRecvOut res }

/-- The wire `FxkSend` hands to `oti.Send`: `x0 = r`, `x1 = r ^ s`. -/
def fxkWire (r s : BLabel) : WireL (BitVec 128) := ⟨toOT r, toOT (lxor r s)⟩

/-- `FxkReceive`'s return value: `xb.FromOT(result[0])`. -/
def fxkRecvOut (res : List (BitVec 128)) : BLabel := fromOT (recvLabel res)

structure FxkRun where
  wire : WireL (BitVec 128)
  got : BitVec 128
  r : BLabel
  xb : BLabel
  deriving Repr, DecidableEq

/-- One complete Fxk(s, b) run: sender's share `r` (the random label itself),
receiver's share `xb`. -/
def fxk (ot : OtFun (BitVec 128)) (r s : BLabel) (b : Nat) : FxkRun :=
  let w := fxkWire r s
  let res := ot [w] (recvFlags b)
  { wire := w, got := recvLabel res, r := r, xb := fxkRecvOut res }

/-! ### Several gadget calls over one OT instance

`bmr` keeps one `otSender` / `otReceiver` per peer and runs every `FxSend` /
`FxkSend` of a session over it (bmr/player.go, bmr/peer.go).  The gadget
functions keep no state of their own; the OT is a function in the model
(`OtSpec` is per call), so a history of gadget calls is the list of the single
runs. -/

inductive GCall where
  /-- `FxSend(oti, a)` ‖ `FxReceive(oti, b)` with the label `rl` drawn by `NewLabel` -/
  | fx (rl : BLabel) (a b : Nat)
  /-- `FxkSend(oti, s)` ‖ `FxkReceive(oti, b)` with the label `r` drawn by `NewLabel` -/
  | fxk (r s : BLabel) (b : Nat)
  deriving Repr, DecidableEq

inductive GOut where
  | fx (o : FxRun)
  | fxk (o : FxkRun)
  deriving Repr, DecidableEq

def runGadget (ot : OtFun (BitVec 128)) : GCall → GOut
  | .fx rl a b => .fx (fx ot rl a b)
  | .fxk r s b => .fxk (fxk ot r s b)

/-- A history of gadget calls over one OT instance. -/
def runGadgets (ot : OtFun (BitVec 128)) (cs : List GCall) : List GOut := cs.map (runGadget ot)

/-- The ideal OT as a function (satisfies `OtSpec`; used by the driver). -/
def idealOt : OtFun (BitVec 128) := fun ws fl => List.zipWith (fun w b => w.labelFor b) ws fl

end Mpc.Fx

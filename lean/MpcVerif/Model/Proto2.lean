/-
The two-party garbled-circuit protocol at the level of typed messages: model of
`circuit.Garbler` (circuit/garbler.go) and `circuit.Evaluator`
(circuit/evaluator.go).  The byte encoding of the typed messages is the
connection layer (property C11); oblivious transfer is a parameter whose
specification `OtSpec` is what property C06 proves of each implementation.
Core Lean only.
-/
import MpcVerif.Model.Garble

namespace Mpc
open LabelAlg

/-- Typed values as sent with `conn.SendData / SendUint32 / SendLabel`. -/
inductive Msg (L : Type) where
  | data (bytes : List UInt8)
  | u32 (n : Nat)
  | label (l : L)
  deriving Repr, DecidableEq

inductive ProtoErr where
  | desync                      -- a typed receive met a different kind of value / end of stream
  | wrongGateCount (got want : Nat)
  | eval (e : EvalErr)
  | otRange (offset count : Nat)
  | unknownLabel (i : Nat)
  deriving Repr, DecidableEq

/-- A two-party circuit: garbler argument of `n0` bits, evaluator argument of
`n1` bits, outputs of the given widths. -/
structure Circuit2 where
  c : Circuit
  n0 : Nat
  n1 : Nat
  outWidths : List Nat
  deriving Repr

def Circuit2.WF (p : Circuit2) : Bool :=
  p.c.WF && decide (p.c.nIn = p.n0 + p.n1) && decide (p.c.nOut = p.outWidths.sum) &&
    p.c.outputsDefined

variable {L : Type} [LabelAlg L]

/-! ### Values -/

/-- Little-endian packing of bits (`result.SetBit(result, i, bit)`). -/
def packLE : List Bool → Nat
  | [] => 0
  | b :: bs => (if b then 1 else 0) + 2 * packLE bs

/-- `big.Int.Bytes()`: big-endian magnitude without leading zero bytes. -/
def natToBytesBE (n : Nat) : List UInt8 :=
  if h : n = 0 then [] else natToBytesBE (n / 256) ++ [UInt8.ofNat (n % 256)]
decreasing_by omega

/-- `big.Int.SetBytes()`. -/
def bytesToNatBE (bs : List UInt8) : Nat := bs.foldl (fun acc b => acc * 256 + b.toNat) 0

/-- `IO.Split`: consecutive bit fields of the given widths. -/
def splitNat : List Nat → Nat → List Nat
  | [], _ => []
  | w :: ws, v => (v % 2 ^ w) :: splitNat ws (v / 2 ^ w)

/-! ### Garbler, first flight -/

/-- `SendUint32(len(garbled.Gates))` then per gate `SendUint32(len(data))` and
the labels. -/
def tablesMsgs (rows : List (List L)) : List (Msg L) :=
  .u32 rows.length :: rows.flatMap (fun row => .u32 row.length :: row.map .label)

/-- The garbler's own input labels: `LabelForBit(garbled.Wires[i], inputs.Bit(i))`. -/
def garblerInputLabels (p : Circuit2) (G : Garbled L) (x : List Bool) : List L :=
  (List.range p.n0).map fun i => (G.wires.get i).labelFor (x.getD i false)

def garblerFlight1 (p : Circuit2) (key : List UInt8) (G : Garbled L) (x : List Bool) :
    List (Msg L) :=
  .data key :: (tablesMsgs G.rows ++ (garblerInputLabels p G x).map .label)

/-! ### Evaluator -/

def recvLabels : Nat → List (Msg L) → Except ProtoErr (List L × List (Msg L))
  | 0, ms => .ok ([], ms)
  | n + 1, .label l :: ms =>
    match recvLabels n ms with
    | .ok (ls, rest) => .ok (l :: ls, rest)
    | .error e => .error e
  | _ + 1, _ => .error .desync

def recvRows : Nat → List (Msg L) → Except ProtoErr (List (List L) × List (Msg L))
  | 0, ms => .ok ([], ms)
  | n + 1, .u32 k :: ms =>
    match recvLabels k ms with
    | .error e => .error e
    | .ok (row, rest) =>
      match recvRows n rest with
      | .ok (rows, rest') => .ok (row :: rows, rest')
      | .error e => .error e
  | _ + 1, _ => .error .desync

/-- The evaluator's receive of the first flight. -/
def evaluatorRecv1 (p : Circuit2) (ms : List (Msg L)) :
    Except ProtoErr (List UInt8 × List (List L) × List L × List (Msg L)) :=
  match ms with
  | .data key :: .u32 count :: ms =>
    if count ≠ p.c.gates.length then .error (.wrongGateCount count p.c.gates.length) else
    match recvRows count ms with
    | .error e => .error e
    | .ok (rows, rest) =>
      match recvLabels p.n0 rest with
      | .error e => .error e
      | .ok (inl, rest') => .ok (key, rows, inl, rest')
  | _ => .error .desync

/-- Evaluator after OT: wire store = zero labels, garbler's input labels on
wires `[0,n0)`, OT results on `[n0,n0+n1)`; evaluate; return the labels of the
last `nOut` wires. -/
def evaluatorEval (p : Circuit2) (H : Hash L) (rows : List (List L)) (inl otl : List L) :
    Except ProtoErr (List L) :=
  let ws : Store L := initStore p.c.numWires (LabelAlg.zero : L) (inl ++ otl)
  match p.c.evalGarbled H rows ws with
  | .error e => .error (.eval e)
  | .ok out => .ok ((List.range p.c.nOut).map fun i => out.get (p.c.numWires - p.c.nOut + i))

/-! ### Garbler, result -/

/-- The result loop of `Garbler`: decode each received output label with
`BitFromLabel`; any unknown label is an error. -/
def garblerDecode [DecidableEq L] (p : Circuit2) (G : Garbled L) :
    Nat → List L → Except ProtoErr (List Bool)
  | _, [] => .ok []
  | i, l :: ls =>
    match (G.wires.get (p.c.numWires - p.c.nOut + i)).bitFrom l with
    | none => .error (.unknownLabel i)
    | some b =>
      match garblerDecode p G (i + 1) ls with
      | .ok bs => .ok (b :: bs)
      | .error e => .error e

/-- The decision logic shared by the result loops of `circuit.Garbler` and of
the streaming garbler (`compiler/ssa/streamer.go`): the i-th received label is
compared with the two labels of the i-th result wire; `L0` gives 0, `L1` gives
1, anything else is an error.  This is the only path from received bytes to
result bits. -/
def decodeLabels [DecidableEq L] : List (WireL L) → List L → Except ProtoErr (List Bool)
  | w :: ws, l :: ls =>
    match w.bitFrom l with
    | none => .error (.unknownLabel ls.length)
    | some b =>
      match decodeLabels ws ls with
      | .ok bs => .ok (b :: bs)
      | .error e => .error e
  | _, _ => .ok []

/-- Oblivious transfer as a function: sender's wires, receiver's choice flags,
receiver's labels. -/
abbrev OtFun (L : Type) := List (WireL L) → List Bool → List L

/-- Ideal OT: exactly the chosen label at every position. -/
def OtSpec (ot : OtFun L) : Prop :=
  ∀ ws fl, ws.length = fl.length → ot ws fl = List.zipWith (fun w b => w.labelFor b) ws fl

/-- The garbler's guard on the evaluator's OT request (`circuit.Garbler`:
`offset != Inputs[0].Type.Bits || count != Inputs[1].Type.Bits` is an error):
exactly the evaluator's own input wires may be asked for. -/
def Circuit2.acceptsOtRange (p : Circuit2) (offset count : Nat) : Bool :=
  offset == p.n0 && count == p.n1

/-- A complete session.  `mkH` derives the hash functions from the key that
is transmitted (AES key schedule); returns (garbler's results, evaluator's
results). -/
def run2 [DecidableEq L] (p : Circuit2) (mkH : List UInt8 → Hash L) (key : List UInt8) (r : L)
    (inl : Nat → L) (x y : List Bool) (ot : OtFun L) :
    Except ProtoErr (List Nat × List Nat) :=
  let G := p.c.garble (mkH key) r inl
  -- garbler -> evaluator
  match evaluatorRecv1 p (garblerFlight1 p key G x) with
  | .error e => .error e
  | .ok (key', rows, inLabels, _) =>
    -- evaluator -> garbler: wire offset and count; garbler checks them
    let offset := p.n0
    let count := p.n1
    if offset ≠ p.n0 ∨ count ≠ p.n1 then .error (.otRange offset count) else
    let sendWires := (List.range count).map fun i => G.wires.get (offset + i)
    let flags := (List.range p.n1).map fun i => y.getD i false
    let otl := ot sendWires flags
    match evaluatorEval p (mkH key') rows inLabels otl with
    | .error e => .error e
    | .ok outLabels =>
      -- evaluator -> garbler: output labels; garbler decodes
      match garblerDecode p G 0 outLabels with
      | .error e => .error e
      | .ok bits =>
        let result := packLE bits
        -- garbler -> evaluator: result.Bytes()
        let raw := bytesToNatBE (natToBytesBE result)
        .ok (splitNat p.outWidths result, splitNat p.outWidths raw)

end Mpc

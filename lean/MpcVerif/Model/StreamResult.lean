/-
Model of the result hand-back of a STREAMING session, garbler side
(property C16):

  compiler/ssa/streamer.go   Program.Stream, after the last instruction:
      op := ReceiveUint32(); op != OpResult -> error
      for i := 0; i < prog.Outputs.Size(); i++ {
          ReceiveLabel(&label)                       -- error ends the run
          wire := streaming.GetInput(returnIDs[i])
          label == wire.L0 -> 0 | label == wire.L1 -> 1 | else error
      }
  circuit/stream_evaluator.go  case OpReturn: SendUint32(OpResult), then one
      SendLabel per result bit

and of the argument description the evaluator rebuilds its own input type
from (circuit/stream_evaluator.go receiveArgument).  Core Lean only.
-/
import MpcVerif.Model.Proto2
import MpcVerif.Model.IoArg

namespace Mpc

variable {L : Type} [LabelAlg L] [DecidableEq L]

/-- The streaming garbler's result loop.  `ws` are the result wires in result
order (`streaming.GetInput(returnIDs[i])`, one per bit of `Outputs.Size()`),
`ls` the labels the connection delivers from here on.  A `ReceiveLabel` past
the end of `ls` is the connection's error (end of stream, or the stall that is
aborted).  Returns the bits and the unread rest of the stream. -/
def streamResultLoop : List (WireL L) → List L → Except ProtoErr (List Bool × List L)
  | [], ls => .ok ([], ls)
  | _ :: _, [] => .error .desync
  | w :: ws, l :: ls =>
    match w.bitFrom l with
    | none => .error (.unknownLabel ls.length)
    | some b =>
      match streamResultLoop ws ls with
      | .ok (bs, rest) => .ok (b :: bs, rest)
      | .error e => .error e

/-- The whole hand-back: the operation word must be `OpResult` (= 0). -/
def streamResult (op : Nat) (ws : List (WireL L)) (ls : List L) : Except ProtoErr (List Bool) :=
  if op ≠ 0 then .error .desync
  else match streamResultLoop ws ls with
    | .ok (bs, _) => .ok bs
    | .error e => .error e

/-- A result loop that takes the labels as ONE length-prefixed block, rejects
only a block that is too LONG and resolves `len(block)/16` labels (the loop of
the seeded change S86; never the code of the repository):
`for i := 0; (i+1)*16 <= len(block); i++ { … }`. -/
def blockResultLoop (ws : List (WireL L)) (block : List L) : Except ProtoErr (List Bool) :=
  if block.length > ws.length then .error .desync else decodeLabels ws block

/-! ## The argument description (circuit/stream_evaluator.go receiveArgument) -/

open IoArg in
/-- One argument record as it arrives: the `types.Info` that `types.Parse`
makes of the type string (given), the size word, the member records. -/
inductive Desc where
  | mk (parsed : IoArg.Info) (size : Nat) (members : List Desc)
  deriving Repr, Inhabited

namespace Desc
open IoArg

def parsed : Desc → Info | .mk p _ _ => p
def size : Desc → Nat | .mk _ s _ => s
def members : Desc → List Desc | .mk _ _ m => m

/-- `arg.Type.Bits = size`; for a slice `ArraySize = Bits / ElementType.Bits`
(a zero element size is a Go division panic: totalised to 0 here, excluded by
`ok`). -/
def infoOf (p : Info) (size : Nat) : Info :=
  match p with
  | .base t _ n => .base t size n
  | .elem t _ n el => .elem t size (if t = .slice then size / el.bits else n) el

mutual
/-- `receiveArgument`: the `circuit.IOArg` the evaluator parses its input with. -/
def toArg : Desc → Arg
  | .mk p s ms => .mk (infoOf p s) (toArgs ms)
def toArgs : List Desc → List Arg
  | [] => []
  | d :: ds => toArg d :: toArgs ds
end

/-- `typeSize` of the repair: the size a parsed type string determines
(`none`: a slice, or a name without digits; the model's `Info` of an
unsized name has `bits = 0`). -/
def typeSize : Info → Option Nat
  | .base _ b _ => if b = 0 then none else some b
  | .elem t b _ _ => if t = .slice then none else some b

mutual
/-- The checks of hooks/c16-stream-argument-description-consistency.patch:
size word = size of the type string (when it has one), a slice's size is a
whole number of elements, member sizes add up to the compound's size. -/
def ok : Desc → Bool
  | .mk p s ms =>
    (match typeSize p with | some b => b == s | none => true) &&
    (match p with
     | .elem .slice _ _ el => el.bits != 0 && s % el.bits == 0
     | _ => true) &&
    (ms.isEmpty || sumSizes ms == s) && oks ms
def oks : List Desc → Bool
  | [] => true
  | d :: ds => ok d && oks ds
def sumSizes : List Desc → Nat
  | [] => 0
  | d :: ds => d.size + sumSizes ds
end

/-- The conditions of `receiveArgument` on ONE record (the conjuncts of `ok`
that do not recurse): size word = size of the node's OWN type string, a slice
holds whole elements, the members add up to the node's size word. -/
def okNode : Desc → Bool
  | .mk p s ms =>
    (match typeSize p with | some b => b == s | none => true) &&
    (match p with
     | .elem .slice _ _ el => el.bits != 0 && s % el.bits == 0
     | _ => true) &&
    (ms.isEmpty || sumSizes ms == s)

mutual
/-- Every record of a description tree (the record itself first). -/
def nodes : Desc → List Desc
  | .mk p s ms => .mk p s ms :: nodesL ms
def nodesL : List Desc → List Desc
  | [] => []
  | d :: ds => nodes d ++ nodesL ds
end

mutual
/-- The size a description "determines" when it is looked at ONCE from the
root after the whole tree was received (the check of the seeded change S119,
never the code of the repository): members back to back, a leaf counts with
the size of its type string (its size word only when the string leaves the
size open). -/
def descSize : Desc → Nat
  | .mk p s ms =>
    match ms with
    | [] => (match typeSize p with | some b => b | none => s)
    | m :: rest => descSizes (m :: rest)
def descSizes : List Desc → Nat
  | [] => 0
  | d :: ds => descSize d + descSizes ds
end

/-- A consistency check applied only at the ROOT: `descSize arg = arg.Type.Bits`. -/
def okRootOnly (d : Desc) : Bool := descSize d == d.size

end Desc

end Mpc

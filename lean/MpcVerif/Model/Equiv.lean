/-
C09: translation-validation checker for the circuit optimisation passes of
`compiler/circuits/compiler.go` (`ConstPropagate`, `ShortCircuitXORZero`,
`Prune`, `Compile`'s renumbering/reordering).

`checkRefines C C' witC witC'` decides (soundly, not completely) that `C'` is
`C` after constant propagation, copy propagation (XOR with zero, AND with one,
...), removal of duplicate and dead gates, reordering and renumbering.  It
runs a constant/copy abstract interpretation over the gates of `C`
(`AbsVal = const b | copy w neg`, every wire of `C` is mapped to a constant or
to a possibly negated *representative* wire of `C`), then interprets `C'` in
the same abstract domain *over the wires of C*: a gate of `C'` whose abstract
result is not decided by its abstract inputs must be matched, through the
untrusted witness, against a gate of `C` having the same operation and the
same abstract inputs (up to commutativity).  Outputs must agree in order.

The witnesses (`witC`: duplicate gates inside `C`, `witC'`: gate of `C` for
every gate of `C'`; entry `0` = none, `k+1` = gate index `k` of `C`) are
computed by the untrusted Go harness by hash-consing; only this checker is
trusted, and it is proved sound in `Proofs/Equiv.lean`
(`checkRefines_sound`).  Core Lean only.
-/
import MpcVerif.Model.Circuit

namespace Mpc

/-- Abstract value of a wire: a constant, or the value of wire `w` of the
reference circuit xor `neg`.  (Go: `circuits.WireValue` has only
`Unknown/Zero/One`; aliasing is done there by pointer surgery
`Gate.ShortCircuit`/`ResetOutput`.) -/
inductive AbsVal where
  | const (b : Bool)
  | copy (w : Nat) (neg : Bool)
  deriving DecidableEq, Repr

instance : Inhabited AbsVal := ⟨.const false⟩

/-- Concrete value of an abstract value under a wire store of the reference
circuit. -/
def AbsVal.denote (s : Store Bool) : AbsVal → Bool
  | .const b => b
  | .copy w n => s.get w != n

def AbsVal.neg : AbsVal → Bool → AbsVal
  | .const b, n => .const (b != n)
  | .copy w m, n => .copy w (m != n)

/-- `A xor B xor n`, when decided by the abstract inputs.  Covers
`ConstPropagate`'s XOR/XNOR rules (both constant; one input Zero ⇒ alias) and
more (x⊕1 = ¬x, x⊕x = 0). -/
def absXor : AbsVal → AbsVal → Bool → Option AbsVal
  | .const a, B, n => some (B.neg (a != n))
  | .copy v p, .const b, n => some ((AbsVal.copy v p).neg (b != n))
  | .copy v p, .copy w q, n => if v = w then some (.const ((p != q) != n)) else none

/-- `A and B`, when decided by the abstract inputs (`ConstPropagate`: one input
Zero ⇒ Zero, one input One ⇒ alias; plus x∧x = x, x∧¬x = 0 which is how
`Compiler.ZeroWire` is built). -/
def absAnd : AbsVal → AbsVal → Option AbsVal
  | .const a, B => some (if a then B else .const false)
  | .copy v p, .const b => some (if b then .copy v p else .const false)
  | .copy v p, .copy w q =>
    if v = w then some (if p = q then .copy v p else .const false) else none

/-- Abstract transfer function of a gate; `none` = a real gate is needed. -/
def absOp : Op → AbsVal → AbsVal → Option AbsVal
  | .inv, A, _ => some (A.neg true)
  | .xor, A, B => absXor A B false
  | .xnor, A, B => absXor A B true
  | .and, A, B => absAnd A B
  | .or, A, B => (absAnd (A.neg true) (B.neg true)).map (·.neg true)

/-- Witness lookup: gate `k` of the reference circuit has operation `op`, all
its wires are defined in the reference state, and its abstract inputs are
`(A, B)` in either order; the result is the abstract value of its output. -/
def lookupRef (gsRef : Array Gate) (absRef : Array AbsVal) (dRef : Array Bool)
    (op : Op) (k : Nat) (A B : AbsVal) : Option AbsVal :=
  match gsRef[k]? with
  | none => none
  | some h =>
    if op.binary && h.op == op && dRef.getD h.in0 false && dRef.getD h.in1 false &&
       dRef.getD h.out false &&
       ((absRef.getD h.in0 default == A && absRef.getD h.in1 default == B) ||
        (absRef.getD h.in0 default == B && absRef.getD h.in1 default == A)) then
      some (absRef.getD h.out default)
    else none

/-- Guard of one step: the gate reads defined wires and writes a fresh,
in-range wire. -/
def gateOk (g : Gate) (abs : Array AbsVal) (d : Array Bool) : Bool :=
  d.getD g.in0 false && (!g.op.binary || d.getD g.in1 false) &&
  decide (g.out < abs.size) && decide (g.out < d.size) && !d.getD g.out false

/-- Abstract value of the output of gate `g` (the `j`-th gate of the list). -/
def resolveGate (self : Bool) (gsRef : Array Gate) (absRef : Array AbsVal) (dRef : Array Bool)
    (wit : Array Nat) (g : Gate) (j : Nat) (abs : Array AbsVal) (d : Array Bool) : Option AbsVal :=
  let A := abs.getD g.in0 default
  let B := if g.op.binary then abs.getD g.in1 default else default
  match absOp g.op A B with
  | some v => some v
  | none =>
    let k := wit.getD j 0
    if k = 0 then (if self then some (.copy g.out false) else none)
    else if self then lookupRef gsRef abs d g.op (k - 1) A B
    else lookupRef gsRef absRef dRef g.op (k - 1) A B

/-- One pass over a gate list.  State: abstract value and defined flag per
wire of the circuit being processed.  Every gate must read defined wires and
write a not yet defined wire (single assignment, topological order, inputs
never overwritten) – otherwise the pass fails.

`self = true`: the circuit is the reference circuit itself (`gsRef` are its
own gates); an undecided gate either becomes its own representative
(witness 0) or is identified with an earlier structurally equal gate
(witness k+1).  `self = false`: an undecided gate must be matched with gate
`k` of the reference circuit whose final abstract state is `absRef/dRef`. -/
def passGates (self : Bool) (gsRef : Array Gate) (absRef : Array AbsVal) (dRef : Array Bool)
    (wit : Array Nat) :
    List Gate → Nat → Array AbsVal → Array Bool → Option (Array AbsVal × Array Bool)
  | [], _, abs, d => some (abs, d)
  | g :: gs, j, abs, d =>
    if gateOk g abs d then
      match resolveGate self gsRef absRef dRef wit g j abs d with
      | none => none
      | some v =>
        passGates self gsRef absRef dRef wit gs (j + 1)
          (abs.setIfInBounds g.out v) (d.setIfInBounds g.out true)
    else none

/-- Initial abstract state: input wire `i` is a copy of reference wire `i`. -/
def initAbs (numWires nIn : Nat) : Array AbsVal :=
  (Array.range numWires).map fun i => if i < nIn then .copy i false else default

def initDef (numWires nIn : Nat) : Array Bool :=
  (Array.range numWires).map fun i => decide (i < nIn)

/-- Abstract interpretation of the reference circuit. -/
def Circuit.absRun (c : Circuit) (wit : Array Nat) : Option (Array AbsVal × Array Bool) :=
  passGates true c.gates.toArray #[] #[] wit c.gates 0
    (initAbs c.numWires c.nIn) (initDef c.numWires c.nIn)

/-- Abstract value of an output wire: a wire that no gate drives (and that
is not an input) reads 0 (`Compute`: `make([]byte, NumWires)`; the GMW
divider leaves such wires, see the C09 findings). -/
def outAbs (abs : Array AbsVal) (d : Array Bool) (w : Nat) : AbsVal :=
  if d.getD w false then abs.getD w default else .const false

/-- The checker. -/
def checkRefines (C C' : Circuit) (witC witC' : Array Nat) : Bool :=
  C.nIn == C'.nIn && C.nOut == C'.nOut &&
  decide (C.nIn ≤ C.numWires) && decide (C'.nIn ≤ C'.numWires) &&
  decide (C.nOut ≤ C.numWires) && decide (C'.nOut ≤ C'.numWires) &&
  match C.absRun witC with
  | none => false
  | some (absC, dC) =>
    match passGates false C.gates.toArray absC dC witC' C'.gates 0
        (initAbs C'.numWires C'.nIn) (initDef C'.numWires C'.nIn) with
    | none => false
    | some (m, d') =>
      (List.range C.nOut).all fun i =>
        outAbs m d' (C'.numWires - C'.nOut + i) == outAbs absC dC (C.numWires - C.nOut + i)

/-- Diagnostic variant used by the driver: where the check stops. -/
def checkRefinesDiag (C C' : Circuit) (witC witC' : Array Nat) : String :=
  if !(C.nIn == C'.nIn && C.nOut == C'.nOut) then "io-mismatch" else
  match C.absRun witC with
  | none => "ref-pass-failed"
  | some (absC, dC) =>
    match passGates false C.gates.toArray absC dC witC' C'.gates 0
        (initAbs C'.numWires C'.nIn) (initDef C'.numWires C'.nIn) with
    | none => "match-pass-failed"
    | some _ => if checkRefines C C' witC witC' then "ok" else "outputs-differ"

end Mpc

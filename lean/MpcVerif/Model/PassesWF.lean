/-
C09: executable (linear-time) checkers for the well-formedness hypotheses of
the pass theorems (`Proofs/PassCP.lean`, `PassSC.lean`, `PassPrune.lean`,
`PassCompile.lean`).  Each is proved to imply its hypothesis in
`Proofs/PassWF.lean`; the driver runs them on every dumped builder graph, so
that the theorems apply to the real pass inputs.  Core Lean only.
-/
import MpcVerif.Model.Passes

namespace Mpc
namespace Graph

/-- One step of the backward scan: `W` marks the wires written by the live
gates after the current one. -/
def wfStep (nIn : Nat) (g : BGate) (acc : Option (Array Bool)) : Option (Array Bool) :=
  match acc with
  | none => none
  | some W =>
    if g.dead then some W else
    if decide (nIn ≤ g.o) && decide (g.o < W.size) && !W.getD g.o false then
      let W := W.setIfInBounds g.o true
      if !W.getD g.a false && (g.op == .inv || !W.getD g.b false) then some W else none
    else none

/-- Single assignment + weak topological order (`Graph.GWF`). -/
def gwfCheck (G : Graph) : Bool :=
  decide (G.nIn ≤ G.wires.size) &&
  (G.gates.toList.foldr (wfStep G.nIn) (some (Array.replicate G.wires.size false))).isSome

def allLiveCheck (G : Graph) : Bool := G.gates.toList.all fun g => !g.dead

/-- All gate inputs are existing wires. -/
def iboundCheck (G : Graph) : Bool :=
  G.gates.toList.all fun g =>
    decide (g.a < G.wires.size) && (g.op == .inv || decide (g.b < G.wires.size))

def cntStep (cnt : Array Nat) (g : BGate) : Array Nat :=
  if g.dead then cnt else
  let cnt := cnt.modify g.a (· + 1)
  if g.op = .inv then cnt else cnt.modify g.b (· + 1)

/-- Real fan-out of every wire (number of live gate input slots). -/
def readerCounts (G : Graph) : Array Nat :=
  G.gates.toList.foldl cntStep (Array.replicate G.wires.size 0)

/-- The fan-out counters are not below the real fan-out. -/
def countCheck (G : Graph) : Bool :=
  let cnt := G.readerCounts
  (List.range G.wires.size).all fun w => decide (cnt.getD w 0 ≤ (G.wire w).numOut)

/-- Output wires carry the output flag. -/
def flagsCheck (G : Graph) : Bool := G.outputs.all fun w => (G.wire w).isOut

/-- No gate reads an output wire. -/
def unreadCheck (G : Graph) : Bool :=
  let cnt := G.readerCounts
  G.outputs.all fun w => decide (w < G.wires.size) && cnt.getD w 0 == 0

/-- The constants are built by the first three gates exactly as
`Compiler.ZeroWire/OneWire/InvI0Wire` do: `t = INV(in0)`, `zero = AND(in0,t)`,
`one = XOR(in0,t)`. -/
def constShapeCheck (G : Graph) : Bool :=
  decide (1 ≤ G.nIn) && decide (3 ≤ G.gates.size) &&
  (let g0 := G.gate 0; let g1 := G.gate 1; let g2 := G.gate 2
   g0.op == .inv && g0.a == 0 && !g0.dead &&
   g1.op == .and && g1.a == 0 && g1.b == g0.o && g1.o == G.zero && !g1.dead &&
   g2.op == .xor && g2.a == 0 && g2.b == g0.o && g2.o == G.one && !g2.dead)

/-- Only the zero wire is annotated Zero and only the one wire One. -/
def valuesCheck (G : Graph) : Bool :=
  (List.range G.wires.size).all fun w =>
    match G.wval w with
    | .unknown => true
    | .zero => w == G.zero
    | .one => w == G.one

/-- Hypothesis `WFcp` of `C09_constPropagate_preserves` (with `K = 3`). -/
def wfCPCheck (G : Graph) : Bool :=
  G.gwfCheck && G.allLiveCheck && G.constShapeCheck && G.valuesCheck &&
  decide (G.wval 0 = .unknown) && decide (G.wval (G.gate 0).o = .unknown)

/-- Hypothesis `PInv` of `C09_prune_preserves`. -/
def wfPruneCheck (G : Graph) : Bool :=
  G.gwfCheck && G.iboundCheck && G.flagsCheck && G.countCheck

/-- Zero-annotated inputs of XOR gates are the zero wire itself. -/
def xorZeroCheck (G : Graph) : Bool :=
  G.gates.toList.all fun g =>
    g.op != .xor || ((G.wval g.a != .zero || g.a == G.zero) && (G.wval g.b != .zero || g.b == G.zero))

/-- Input-gate pointers: genuine, or pointing at a gate whose output has
counter 0, or the wire is unread. -/
def ptrCheck (G : Graph) : Bool :=
  let cnt := G.readerCounts
  (List.range G.wires.size).all fun w =>
    match (G.wire w).input with
    | none => true
    | some q => decide (q < G.gates.size) &&
        ((G.gate q).o == w || (G.wire (G.gate q).o).numOut == 0 || cnt.getD w 0 == 0)

/-- Hypothesis `SCInv G 0` of `C09_shortCircuit_preserves`. -/
def wfSCCheck (G : Graph) : Bool :=
  G.gwfCheck && G.allLiveCheck && G.iboundCheck && G.countCheck && G.unreadCheck &&
  G.constShapeCheck && G.xorZeroCheck && G.ptrCheck

end Graph
end Mpc
